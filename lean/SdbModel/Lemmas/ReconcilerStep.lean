import SdbModel.Lemmas.ReconcilerInv

/-!
  Lemmas.ReconcilerStep — preservation of the bookkeeping invariant `InvL` by the
  individual steps of a reconciliation round, stated over the fields of the
  state the step produces.
-/
namespace Sdb.Rec


/-- the iterator passes an object that needs no processing -/
theorem InvL.step_skip {r r' : R} {rs : List Res} (h : InvL r rs) (o : RObj) (ho : o ∈ r.objs)
    (hlt : ∀ x ∈ r.objs, needs x.kind → x.rev > r.itRev → x.rev > o.rev)
    (h1 : r'.objs = r.objs) (h2 : r'.dels = r.dels) (h3 : r'.tableRev = r.tableRev)
    (h4 : r'.itRev = o.rev) (h5 : r'.itDelRev = r.itDelRev) (h6 : r'.refreshedAt = r.refreshedAt)
    (h7 : r'.items = r.items) (h8 : r'.log = r.log) (h9 : r'.injects = r.injects) : InvL r' rs := by
  have hle := h.tinv.objs_le o ho
  refine ⟨?_, ?_, ?_, ?_, ?_, ?_, ?_⟩
  · obtain ⟨a, b, c, d, e, f, g, i⟩ := h.tinv
    constructor <;> simp only [h1, h2, h3, h4, h5, h6] <;> assumption
  · rw [h9]; exact h.noinj
  · rw [h7]; exact h.items_pw
  · rw [h1, h7, h8, h4]
    intro x hx
    obtain ⟨a, b, c⟩ := h.objOK x hx
    refine ⟨a, b, fun hn => ?_⟩
    rcases c hn with c | c
    · exact Or.inl (hlt x hx hn c)
    · exact Or.inr c
  · rw [h2, h7, h8, h5]; exact h.delOK
  · rw [h1, h2, h7, h4, h5]
    intro it hit
    obtain ⟨a, b, c⟩ := h.itemOK it hit
    refine ⟨a, ?_, c⟩
    rcases b with (⟨x, hx, b1, b2, b3⟩ | b) | b
    · exact Or.inl (Or.inl ⟨x, hx, b1, hlt x hx b3 b2, b3⟩)
    · exact Or.inl (Or.inr b)
    · exact Or.inr b
  · rw [h1, h7, h8, h3]; exact h.resOK

theorem HasRes.append {rs : List Res} {o : RObj} (h : HasRes rs o) (l : List Res) : HasRes (rs ++ l) o := by
  obtain ⟨res, hr, h1⟩ := h
  exact ⟨res, List.mem_append_left _ hr, h1⟩

/-- the incremental loop processes a changed live object: Update is called, the
    result is remembered for `commitStatus` -/
theorem InvL.step_update {r r' : R} {rs : List Res} (h : InvL r rs) (o : RObj) (f : Bool) (ho : o ∈ r.objs)
    (hn : needs o.kind) (hgt : o.rev > r.itRev) (hrs : ∀ res ∈ rs, res.2.2.1 ≤ r.itRev)
    (hlt : ∀ x ∈ r.objs, needs x.kind → x.rev > r.itRev → x = o ∨ x.rev > o.rev)
    (h1 : r'.objs = r.objs) (h2 : r'.dels = r.dels) (h3 : r'.tableRev = r.tableRev)
    (h4 : r'.itRev = o.rev) (h5 : r'.itDelRev = r.itDelRev) (h6 : r'.refreshedAt = r.refreshedAt)
    (h7 : r'.items = r.items.filter (·.id ≠ o.id)) (h8 : r'.log = r.log ++ [⟨"U", o.id, o.data, !f⟩])
    (h9 : r'.injects = r.injects) : InvL r' (rs ++ [(o, o, o.rev, o.sid, f)]) := by
  have hle := h.tinv.objs_le o ho
  have hkd : o.kind ≠ .done := by rcases hn with e | e <;> simp [e]
  have hke : o.kind ≠ .error := by rcases hn with e | e <;> simp [e]
  have hother : ∀ x ∈ r.objs, x ≠ o → x.id ≠ o.id := fun x hx hne e => hne (h.tinv.obj_eq hx ho e)
  refine ⟨?_, ?_, ?_, ?_, ?_, ?_, ?_⟩
  · obtain ⟨a, b, c, d, e, f, g, i⟩ := h.tinv
    constructor <;> simp only [h1, h2, h3, h4, h5, h6] <;> assumption
  · rw [h9]; exact h.noinj
  · rw [h7]; exact h.items_pw.filter _
  · rw [h1, h7, h8, h4]
    intro x hx
    by_cases hxo : x = o
    · subst hxo
      exact ⟨fun e => absurd e hkd, fun e => absurd e hke, fun _ => Or.inr ⟨_, List.mem_append_right _ (List.mem_singleton.2 rfl), rfl, rfl⟩⟩
    · have hid := hother x hx hxo
      obtain ⟨a, b, c⟩ := h.objOK x hx
      refine ⟨fun e => ?_, fun e => ?_, fun e => ?_⟩
      · obtain ⟨a1, a2⟩ := a e
        refine ⟨?_, fun it hit => a2 it (List.mem_filter.1 hit).1⟩
        rw [lastCall_append_other _ _ _ (by simp only; omega)]; exact a1
      · rcases b e with ⟨it, hit, b1, b2⟩ | b
        · exact Or.inl ⟨it, List.mem_filter.2 ⟨hit, by simp; omega⟩, b1, b2⟩
        · exact Or.inr (b.append _)
      · rcases c e with c | c
        · rcases hlt x hx e c with e' | e'
          · exact absurd e' hxo
          · exact Or.inl e'
        · exact Or.inr (c.append _)
  · rw [h2, h7, h8, h5]
    intro d hd
    have hid : o.id ≠ d.1.id := h.tinv.disj o ho d hd
    rcases h.delOK d hd with a | ⟨it, hit, b1, b2⟩ | ⟨⟨c, c1, c2⟩, c3⟩
    · exact Or.inl a
    · exact Or.inr (Or.inl ⟨it, List.mem_filter.2 ⟨hit, by simp; omega⟩, b1, b2⟩)
    · refine Or.inr (Or.inr ⟨⟨c, ?_, c2⟩, fun it hit => c3 it (List.mem_filter.1 hit).1⟩)
      rw [lastCall_append_other _ _ _ (by simp only; omega)]; exact c1
  · rw [h1, h2, h7, h4, h5]
    intro it hit
    obtain ⟨hit, hid⟩ := List.mem_filter.1 hit
    simp only [ne_eq, decide_not, Bool.not_eq_eq_eq_not, Bool.not_true, decide_eq_false_iff_not] at hid
    obtain ⟨a, b, c⟩ := h.itemOK it hit
    refine ⟨a, ?_, ?_⟩
    · rcases b with (⟨x, hx, b1, b2, b3⟩ | b) | b
      · rcases hlt x hx b3 b2 with e' | e'
        · subst e'; exact absurd b1 (Ne.symm hid)
        · exact Or.inl (Or.inl ⟨x, hx, b1, e', b3⟩)
      · exact Or.inl (Or.inr b)
      · exact Or.inr b
    · intro hq
      obtain ⟨c1, c2, res, hres, c3⟩ := c hq
      exact ⟨c1, c2, res, List.mem_append_left _ hres, c3⟩
  · rw [h1, h7, h8, h3]
    intro res hres
    rcases List.mem_append.1 hres with hres' | hres'
    · obtain ⟨a, a', b⟩ := h.resOK res hres'
      refine ⟨a, a', fun cur hcur hcid => ?_⟩
      by_cases hid : res.1.id = o.id
      · have : cur = o := h.tinv.obj_eq hcur ho (by omega)
        subst this
        have := hrs res hres'
        rcases b cur hcur hcid with ⟨b1, _⟩ | ⟨_, b2⟩
        · omega
        · rcases b2 with e | e
          · exact absurd e hkd
          · exact absurd e hke
      · rcases b cur hcur hcid with ⟨b1, b2, b3⟩ | b
        · refine Or.inl ⟨b1, ?_, fun it hit hi => b3 it (List.mem_filter.1 hit).1 hi⟩
          rw [lastCall_append_other _ _ _ (by simp only; omega)]; exact b2
        · exact Or.inr b
    · simp only [List.mem_singleton] at hres'
      subst hres'
      refine ⟨rfl, hle, fun cur hcur hcid => ?_⟩
      have : cur = o := h.tinv.obj_eq hcur ho hcid
      subst this
      refine Or.inl ⟨rfl, lastCall_append_self _ ⟨"U", cur.id, cur.data, !f⟩, fun it hit hi => ?_⟩
      have := (List.mem_filter.1 hit).2
      simp at this
      exact absurd hi this

/-- a Delete is called for a retained deletion (from the change stream, `v` the
    deletion's revision, or from the retry queue, `v` the unchanged position) -/
theorem InvL.step_delete {r r' : R} {rs : List Res} (h : InvL r rs) (d : RObj × Nat) (f : Bool) (v : Nat) (c : Call)
    (tail : List Item) (hd : d ∈ r.dels) (hv : d.2 ≤ v) (hvt : v ≤ r.tableRev)
    (hlt : ∀ x ∈ r.dels, x.2 > r.itDelRev → x = d ∨ x.2 > v)
    (hc : c.id = d.1.id ∧ c.op = "D" ∧ c.ok = !f)
    (ht : ∀ it ∈ tail, it.id = d.1.id ∧ it.obj.id = d.1.id ∧ it.delete = true ∧ it.inQueue = true)
    (htp : tail.Pairwise (fun a b => a.id ≠ b.id)) (htf : f = true → tail ≠ []) (htn : f = false → tail = [])
    (h1 : r'.objs = r.objs) (h2 : r'.dels = r.dels) (h3 : r'.tableRev = r.tableRev)
    (h4 : r'.itRev = r.itRev) (h5 : r'.itDelRev = v) (h6 : r'.refreshedAt = r.refreshedAt)
    (h7 : r'.items = r.items.filter (·.id ≠ d.1.id) ++ tail) (h8 : r'.log = r.log ++ [c])
    (h9 : r'.injects = r.injects) : InvL r' rs := by
  have hother : ∀ x ∈ r.dels, x ≠ d → x.1.id ≠ d.1.id := fun x hx hne e => hne (h.tinv.del_eq hx hd e)
  have hmem : ∀ it : Item, it.id ≠ d.1.id → (it ∈ r.items.filter (·.id ≠ d.1.id) ++ tail ↔ it ∈ r.items) := by
    intro it hid
    simp only [List.mem_append, List.mem_filter]
    constructor
    · rintro (⟨a, _⟩ | a)
      · exact a
      · exact absurd (ht it a).1 hid
    · intro a; exact Or.inl ⟨a, by simpa using hid⟩
  refine ⟨?_, ?_, ?_, ?_, ?_, ?_, ?_⟩
  · obtain ⟨a, b, c, d, e, f, g, i⟩ := h.tinv
    constructor <;> simp only [h1, h2, h3, h4, h5, h6] <;> assumption
  · rw [h9]; exact h.noinj
  · rw [h7, List.pairwise_append]
    refine ⟨h.items_pw.filter _, htp, fun a ha b hb => ?_⟩
    have := (List.mem_filter.1 ha).2
    simp only [ne_eq, decide_not, Bool.not_eq_eq_eq_not, Bool.not_true, decide_eq_false_iff_not] at this
    rw [(ht b hb).1]; exact this
  · rw [h1, h7, h8, h4]
    intro x hx
    have hid : x.id ≠ d.1.id := h.tinv.disj x hx d hd
    obtain ⟨a, b, c'⟩ := h.objOK x hx
    refine ⟨fun e => ?_, fun e => ?_, c'⟩
    · obtain ⟨a1, a2⟩ := a e
      refine ⟨?_, fun it hit => ?_⟩
      · rw [lastCall_append_other _ _ _ (by omega)]; exact a1
      · by_cases hi : it.id = d.1.id
        · omega
        · exact a2 it ((hmem it hi).1 hit)
    · rcases b e with ⟨it, hit, b1, b2⟩ | b
      · exact Or.inl ⟨it, (hmem it (by omega)).2 hit, b1, b2⟩
      · exact Or.inr b
  · rw [h2, h7, h8, h5]
    intro x hx
    by_cases hxd : x = d
    · subst hxd
      cases f with
      | true =>
        obtain ⟨it, tl, htl⟩ := List.exists_cons_of_ne_nil (htf rfl)
        have hit : it ∈ tail := by rw [htl]; exact List.mem_cons_self ..
        exact Or.inr (Or.inl ⟨it, List.mem_append_right _ hit, (ht it hit).1, (ht it hit).2.2⟩)
      | false =>
        refine Or.inr (Or.inr ⟨⟨c, ?_, hc.2.1, by simpa using hc.2.2⟩, fun it hit => ?_⟩)
        · rw [← hc.1]; exact lastCall_append_self _ _
        · rw [htn rfl, List.append_nil] at hit
          simpa using (List.mem_filter.1 hit).2
    · have hid := hother x hx hxd
      rcases h.delOK x hx with a | ⟨it, hit, b1, b2⟩ | ⟨⟨c', c1, c2⟩, c3⟩
      · rcases hlt x hx a with e | e
        · exact absurd e hxd
        · exact Or.inl e
      · exact Or.inr (Or.inl ⟨it, (hmem it (by omega)).2 hit, b1, b2⟩)
      · refine Or.inr (Or.inr ⟨⟨c', ?_, c2⟩, fun it hit => ?_⟩)
        · rw [lastCall_append_other _ _ _ (by omega)]; exact c1
        · by_cases hi : it.id = d.1.id
          · omega
          · exact c3 it ((hmem it hi).1 hit)
  · rw [h1, h2, h7, h4, h5]
    intro it hit
    by_cases hi : it.id = d.1.id
    · rcases List.mem_append.1 hit with hit' | hit'
      · have := (List.mem_filter.1 hit').2
        simp only [ne_eq, decide_not, Bool.not_eq_eq_eq_not, Bool.not_true, decide_eq_false_iff_not] at this
        exact absurd hi this
      · obtain ⟨t1, t2, t3, t4⟩ := ht it hit'
        refine ⟨by omega, Or.inr (Or.inl ⟨t3, d, hd, hi.symm⟩), fun hq => ?_⟩
        rw [t4] at hq; cases hq
    · obtain ⟨a, b, c'⟩ := h.itemOK it ((hmem it hi).1 hit)
      refine ⟨a, ?_, c'⟩
      rcases b with (b | ⟨x, hx, b1, b2⟩) | b
      · exact Or.inl (Or.inl b)
      · rcases hlt x hx b2 with e | e
        · subst e; exact absurd b1.symm hi
        · exact Or.inl (Or.inr ⟨x, hx, b1, e⟩)
      · exact Or.inr b
  · rw [h1, h7, h8, h3]
    intro res hres
    obtain ⟨a, a', b⟩ := h.resOK res hres
    refine ⟨a, a', fun cur hcur hcid => ?_⟩
    have hid : cur.id ≠ d.1.id := h.tinv.disj cur hcur d hd
    rcases b cur hcur hcid with ⟨b1, b2, b3⟩ | b
    · refine Or.inl ⟨b1, ?_, fun it hit hi => b3 it ((hmem it (by omega)).1 hit) hi⟩
      rw [lastCall_append_other _ _ _ (by omega)]; exact b2
    · exact Or.inr b


/-- a due retry of an Update is processed: Update is called with the queued
    object, the result is remembered for `commitStatus`; on failure the item
    stays in the map, out of the time queue, until the status commit re-adds it -/
theorem InvL.step_retry_update {r r' : R} {rs : List Res} (h : InvL r rs) (it0 : Item) (o : RObj) (f : Bool)
    (hit0 : it0 ∈ r.items) (hq0 : it0.inQueue = true) (hdel0 : it0.delete = false) (ho : o ∈ r.objs) (hoid : o.id = it0.id)
    (hok : o.kind = .error) (hor : o.rev = it0.rev)
    (hm1 : ∀ it ∈ r'.items, (it ∈ r.items ∧ it.id ≠ it0.id) ∨ (f = true ∧ it = { it0 with inQueue := false }))
    (hm2 : ∀ it ∈ r.items, it.id ≠ it0.id → it ∈ r'.items)
    (hpw : r'.items.Pairwise (fun a b => a.id ≠ b.id))
    (h1 : r'.objs = r.objs) (h2 : r'.dels = r.dels) (h3 : r'.tableRev = r.tableRev)
    (h4 : r'.itRev = r.itRev) (h5 : r'.itDelRev = r.itDelRev) (h6 : r'.refreshedAt = r.refreshedAt)
    (h8 : r'.log = r.log ++ [⟨"U", it0.obj.id, it0.obj.data, !f⟩])
    (h9 : r'.injects = r.injects) : InvL r' (rs ++ [(it0.obj, it0.obj, it0.rev, it0.obj.sid, f)]) := by
  have hobj : it0.obj.id = it0.id := (h.itemOK it0 hit0).1
  have hother : ∀ x ∈ r.objs, x ≠ o → x.id ≠ it0.id := fun x hx hne e => hne (h.tinv.obj_eq hx ho (by omega))
  refine ⟨?_, ?_, hpw, ?_, ?_, ?_, ?_⟩
  · obtain ⟨a, b, c, d, e, f, g, i⟩ := h.tinv
    constructor <;> simp only [h1, h2, h3, h4, h5, h6] <;> assumption
  · rw [h9]; exact h.noinj
  · rw [h1, h8, h4]
    intro x hx
    by_cases hxo : x = o
    · subst hxo
      refine ⟨fun e => ?_, fun _ => Or.inr ⟨_, List.mem_append_right _ (List.mem_singleton.2 rfl), by simp only; omega, by simp only; omega⟩, fun e => ?_⟩
      · rw [hok] at e; cases e
      · rw [hok] at e; rcases e with e | e <;> cases e
    · have hid := hother x hx hxo
      obtain ⟨a, b, c⟩ := h.objOK x hx
      refine ⟨fun e => ?_, fun e => ?_, fun e => ?_⟩
      · obtain ⟨a1, a2⟩ := a e
        refine ⟨?_, fun it hit => ?_⟩
        · rw [lastCall_append_other _ _ _ (by simp only; omega)]; exact a1
        · rcases hm1 it hit with ⟨m, _⟩ | ⟨_, m⟩
          · exact a2 it m
          · rw [m]; simp only; omega
      · rcases b e with ⟨it, hit, b1, b2⟩ | b
        · exact Or.inl ⟨it, hm2 it hit (by omega), b1, b2⟩
        · exact Or.inr (b.append _)
      · rcases c e with c | c
        · exact Or.inl c
        · exact Or.inr (c.append _)
  · rw [h2, h8, h5]
    intro d hd
    have hid : it0.id ≠ d.1.id := by rw [← hoid]; exact h.tinv.disj o ho d hd
    rcases h.delOK d hd with a | ⟨it, hit, b1, b2⟩ | ⟨⟨c, c1, c2⟩, c3⟩
    · exact Or.inl a
    · exact Or.inr (Or.inl ⟨it, hm2 it hit (by omega), b1, b2⟩)
    · refine Or.inr (Or.inr ⟨⟨c, ?_, c2⟩, fun it hit => ?_⟩)
      · rw [lastCall_append_other _ _ _ (by simp only; omega)]; exact c1
      · rcases hm1 it hit with ⟨m, _⟩ | ⟨_, m⟩
        · exact c3 it m
        · rw [m]; simp only; omega
  · rw [h1, h2, h4, h5]
    intro it hit
    rcases hm1 it hit with ⟨m, hid⟩ | ⟨hf, m⟩
    · obtain ⟨a, b, c⟩ := h.itemOK it m
      refine ⟨a, b, fun hq => ?_⟩
      obtain ⟨c1, c2, res, hres, c3⟩ := c hq
      exact ⟨c1, c2, res, List.mem_append_left _ hres, c3⟩
    · subst m
      obtain ⟨a, b, c⟩ := h.itemOK it0 hit0
      refine ⟨a, Or.inr (Or.inr ⟨hdel0, o, ho, hoid, hok, hor⟩), fun _ => ⟨hdel0, ⟨o, ho, hoid, hok, hor⟩, _, List.mem_append_right _ (List.mem_singleton.2 rfl), hobj, rfl, hf⟩⟩
  · rw [h1, h8, h3]
    intro res hres
    rcases List.mem_append.1 hres with hres' | hres'
    · obtain ⟨a, a', b⟩ := h.resOK res hres'
      refine ⟨a, a', fun cur hcur hcid => ?_⟩
      by_cases hid : res.1.id = it0.id
      · have : cur = o := h.tinv.obj_eq hcur ho (by omega)
        subst this
        rcases b cur hcur hcid with ⟨_, _, b3⟩ | b
        · have := (b3 it0 hit0 hid.symm).1
          rw [hq0] at this; cases this
        · exact Or.inr b
      · rcases b cur hcur hcid with ⟨b1, b2, b3⟩ | b
        · refine Or.inl ⟨b1, ?_, fun it hit hi => ?_⟩
          · rw [lastCall_append_other _ _ _ (by simp only; omega)]; exact b2
          · rcases hm1 it hit with ⟨m, _⟩ | ⟨_, m⟩
            · exact b3 it m hi
            · rw [m] at hi; simp only at hi; omega
        · exact Or.inr b
    · simp only [List.mem_singleton] at hres'
      subst hres'
      refine ⟨rfl, by have := h.tinv.objs_le o ho; simp only; omega, fun cur hcur hcid => ?_⟩
      have : cur = o := h.tinv.obj_eq hcur ho (by simp only at hcid; omega)
      subst this
      refine Or.inl ⟨hor, lastCall_append_self _ ⟨"U", it0.obj.id, it0.obj.data, !f⟩, fun it hit hi => ?_⟩
      simp only at hi
      rcases hm1 it hit with ⟨_, m⟩ | ⟨hf, m⟩
      · omega
      · rw [m]; exact ⟨rfl, hf⟩

/-- a result whose object has changed meanwhile is dropped -/
theorem InvL.drop_res {r : R} {res : Res} {rs : List Res} (h : InvL r (res :: rs))
    (hne : ∀ cur ∈ r.objs, cur.id = res.1.id → cur.rev ≠ res.2.2.1) : InvL r rs := by
  have hhas : ∀ x ∈ r.objs, HasRes (res :: rs) x → HasRes rs x := by
    rintro x hx ⟨res', hr, e1, e2⟩
    rcases List.mem_cons.1 hr with rfl | hr
    · exact absurd e2.symm (hne x hx e1.symm)
    · exact ⟨res', hr, e1, e2⟩
  refine ⟨h.tinv, h.noinj, h.items_pw, ?_, h.delOK, ?_, fun res' hr => h.resOK res' (List.mem_cons_of_mem _ hr)⟩
  · intro x hx
    obtain ⟨a, b, c⟩ := h.objOK x hx
    refine ⟨a, fun e => ?_, fun e => ?_⟩
    · rcases b e with b | b
      · exact Or.inl b
      · exact Or.inr (hhas x hx b)
    · rcases c e with c | c
      · exact Or.inl c
      · exact Or.inr (hhas x hx c)
  · intro it hit
    obtain ⟨a, b, c⟩ := h.itemOK it hit
    refine ⟨a, b, fun hq => ?_⟩
    obtain ⟨c1, ⟨x, hx, x1, x2, x3⟩, res', hr, e1, e2, e3⟩ := c hq
    refine ⟨c1, ⟨x, hx, x1, x2, x3⟩, res', ?_, e1, e2, e3⟩
    rcases List.mem_cons.1 hr with rfl | hr
    · exact absurd (by omega) (hne x hx (by omega))
    · exact hr

/-- the status of the version that was reconciled is written back: Done, or
    Error together with a fresh retry item -/
theorem InvL.step_commit {r r' : R} {res : Res} {rs : List Res} (h : InvL r (res :: rs)) (cur : RObj) (sid : Nat)
    (hcur : cur ∈ r.objs) (hcid : cur.id = res.1.id) (hcrev : cur.rev = res.2.2.1) (itn : Item)
    (hitn : itn.id = res.2.1.id ∧ itn.obj = res.2.1 ∧ itn.rev = r.tableRev + 1 ∧ itn.delete = false ∧ itn.inQueue = true)
    (h1 : r'.objs = (r.setObj { res.1 with kind := if res.2.2.2.2 then .error else .done, sid := sid }).objs)
    (h2 : r'.dels = (r.setObj { res.1 with kind := if res.2.2.2.2 then .error else .done, sid := sid }).dels)
    (h3 : r'.tableRev = r.tableRev + 1)
    (h4 : r'.itRev = r.itRev) (h5 : r'.itDelRev = r.itDelRev) (h6 : r'.refreshedAt = r.refreshedAt)
    (h7 : r'.items = if res.2.2.2.2 then r.items.filter (·.id ≠ res.2.1.id) ++ [itn] else r.items)
    (h8 : r'.log = r.log) (h9 : r'.injects = r.injects) : InvL r' rs := by
  obtain ⟨obj, orig, rev, sid0, f⟩ := res
  simp only at hcid hcrev hitn h1 h2 h7
  obtain ⟨horig, hrevle, hlive⟩ := h.resOK _ (List.mem_cons_self ..)
  simp only at horig hrevle hlive
  obtain ⟨_, hlast, hitems⟩ : cur.rev = rev ∧ lastCall r.log obj.id = some ⟨"U", obj.id, obj.data, !f⟩ ∧
      ∀ it ∈ r.items, it.id = obj.id → it.inQueue = false ∧ f = true := by
    rcases hlive cur hcur hcid with a | a
    · exact a
    · exact absurd hcrev a.1
  generalize hod : ({ obj with kind := if f then SKind.error else SKind.done, sid := sid } : RObj) = o' at h1 h2
  have ho'id : o'.id = obj.id := by rw [← hod]
  have ho'data : o'.data = obj.data := by rw [← hod]
  have ho'kind : o'.kind = if f then SKind.error else SKind.done := by rw [← hod]
  -- membership in the new item list
  have hmemo : ∀ it : Item, it.id ≠ obj.id → (it ∈ r'.items ↔ it ∈ r.items) := by
    intro it hid
    rw [h7]
    split
    · simp only [List.mem_append, List.mem_filter, List.mem_singleton]
      constructor
      · rintro (⟨a, _⟩ | a)
        · exact a
        · rw [a, hitn.1] at hid; omega
      · intro a; exact Or.inl ⟨a, by simp; omega⟩
    · rfl
  have hmemx : ∀ it ∈ r'.items, it.id = obj.id → f = true ∧ it = itn := by
    intro it hit hid
    rw [h7] at hit
    split at hit
    · rename_i hf
      simp only [List.mem_append, List.mem_filter, List.mem_singleton] at hit
      rcases hit with ⟨_, a⟩ | a
      · simp at a; omega
      · exact ⟨hf, a⟩
    · exact absurd (hitems it hit hid).2 (by assumption)
  have hhas : ∀ x, x.id ≠ obj.id → HasRes ((obj, orig, rev, sid0, f) :: rs) x → HasRes rs x := by
    rintro x hx ⟨res', hr, e1, e2⟩
    rcases List.mem_cons.1 hr with rfl | hr
    · exact absurd e1.symm hx
    · exact ⟨res', hr, e1, e2⟩
  refine ⟨?_, ?_, ?_, ?_, ?_, ?_, ?_⟩
  · exact (h.tinv.setObj o').congr h1 h2 h3 h4 h5 h6
  · rw [h9]; exact h.noinj
  · rw [h7]
    split
    · rw [List.pairwise_append]
      refine ⟨h.items_pw.filter _, by simp, fun a ha b hb => ?_⟩
      have := (List.mem_filter.1 ha).2
      simp only [List.mem_singleton] at hb
      rw [hb, hitn.1]; simpa using this
    · exact h.items_pw
  · rw [h1, h8, h4]
    intro x hx
    rw [mem_setObj_objs] at hx
    rcases hx with ⟨hx, hid⟩ | rfl
    · rw [ho'id] at hid
      obtain ⟨a, b, c⟩ := h.objOK x hx
      refine ⟨fun e => ?_, fun e => ?_, fun e => ?_⟩
      · obtain ⟨a1, a2⟩ := a e
        refine ⟨a1, fun it hit => ?_⟩
        by_cases hi : it.id = obj.id
        · omega
        · exact a2 it ((hmemo it hi).1 hit)
      · rcases b e with ⟨it, hit, b1, b2⟩ | b
        · exact Or.inl ⟨it, (hmemo it (by omega)).2 hit, b1, b2⟩
        · exact Or.inr (hhas x hid b)
      · rcases c e with c | c
        · exact Or.inl c
        · exact Or.inr (hhas x hid c)
    · cases f with
      | false =>
        refine ⟨fun _ => ⟨?_, fun it hit hi => ?_⟩, fun e => ?_, fun e => ?_⟩
        · show lastCall r.log o'.id = some ⟨"U", o'.id, o'.data, true⟩
          rw [ho'id, ho'data]; simpa using hlast
        · have hi' : it.id = obj.id := by
            have : it.id = o'.id := hi
            rw [ho'id] at this; exact this
          have := (hmemx it hit hi').1; cases this
        · have e' : o'.kind = .error := e
          rw [ho'kind] at e'; simp at e'
        · have e' : needs o'.kind := e
          rw [ho'kind] at e'; simp [needs] at e'
      | true =>
        refine ⟨fun e => ?_, fun _ => Or.inl ⟨itn, ?_, ?_, hitn.2.2.2.1, hitn.2.2.1, hitn.2.2.2.2⟩, fun e => ?_⟩
        · have e' : o'.kind = .done := e
          rw [ho'kind] at e'; simp at e'
        · rw [h7]; simp
        · show itn.id = o'.id
          rw [ho'id]; omega
        · have e' : needs o'.kind := e
          rw [ho'kind] at e'; simp [needs] at e'
  · rw [h2, h8, h5]
    intro d hd
    simp only [setObj_dels, List.mem_filter] at hd
    have hid : obj.id ≠ d.1.id := by rw [← hcid]; exact h.tinv.disj cur hcur d hd.1
    rcases h.delOK d hd.1 with a | ⟨it, hit, b1, b2⟩ | ⟨c, c3⟩
    · exact Or.inl a
    · exact Or.inr (Or.inl ⟨it, (hmemo it (by omega)).2 hit, b1, b2⟩)
    · refine Or.inr (Or.inr ⟨c, fun it hit => ?_⟩)
      by_cases hi : it.id = obj.id
      · omega
      · exact c3 it ((hmemo it (by omega)).1 hit)
  · rw [h1, h2, h4, h5]
    intro it hit
    by_cases hi : it.id = obj.id
    · obtain ⟨hf, hin⟩ := hmemx it hit hi
      subst hf
      rw [hin]
      rw [hin] at hi
      refine ⟨by rw [hitn.2.1]; omega, Or.inr (Or.inr ⟨hitn.2.2.2.1, _, (mem_setObj_objs ..).2 (Or.inr rfl), by show o'.id = itn.id; rw [ho'id]; omega, by show o'.kind = _; rw [ho'kind]; rfl, by show r.tableRev + 1 = itn.rev; omega⟩), fun hq => ?_⟩
      rw [hitn.2.2.2.2] at hq; cases hq
    · have := (h.itemOK it ((hmemo it hi).1 hit)).setObj_other (o := o') (by omega)
      obtain ⟨a, b, c⟩ := this
      refine ⟨a, b, fun hq => ?_⟩
      obtain ⟨c1, c2, res', hr, e1, e2, e3⟩ := c hq
      refine ⟨c1, c2, res', ?_, e1, e2, e3⟩
      rcases List.mem_cons.1 hr with rfl | hr
      · simp only at e1; omega
      · exact hr
  · rw [h1, h8, h3]
    intro res' hr
    obtain ⟨a, a', b⟩ := h.resOK res' (List.mem_cons_of_mem _ hr)
    refine ⟨a, by omega, fun x hx hxid => ?_⟩
    rw [mem_setObj_objs] at hx
    rcases hx with ⟨hx, hid⟩ | rfl
    · rw [ho'id] at hid
      rcases b x hx hxid with ⟨b1, b2, b3⟩ | b
      · exact Or.inl ⟨b1, b2, fun it hit hi => b3 it ((hmemo it (by omega)).1 hit) hi⟩
      · exact Or.inr b
    · right
      simp only [ho'kind]
      refine ⟨by omega, ?_⟩
      cases f <;> simp

end Sdb.Rec
