import SdbModel.Model.TableWatch
import SdbModel.Lemmas.ArtRefine
import SdbModel.Lemmas.OMap
/-!
  Lemmas for the C06 glue, part 1: the sorted index maps of Model.Table (`OMap Obj`)
  against the reference association lists of the radix-tree refinement (C11:
  `sinsert` / `sdelete` / `look` on `List (Key × Nat)`).  A tree stores, for every
  key of the index map, the revision of the object stored there (`rmap`).
  Core Lean only.
-/
namespace Sdb.TW
open Sdb.Art Sdb.Tbl

/-- what the index tree holds for an index map: the same keys, each with its object's revision -/
def rmap (m : OMap Obj) : List (Key × Nat) := m.map fun e => (e.1, e.2.rev)

@[simp] theorem rmap_nil : rmap [] = [] := rfl
@[simp] theorem rmap_cons (k : Key) (o : Obj) (r : OMap Obj) : rmap ((k, o) :: r) = (k, o.rev) :: rmap r := rfl

theorem mem_rmap (m : OMap Obj) (k : Key) (v : Nat) : (k, v) ∈ rmap m ↔ ∃ o, (k, o) ∈ m ∧ o.rev = v := by
  unfold rmap
  simp only [List.mem_map, Prod.mk.injEq, Prod.exists]
  constructor
  · rintro ⟨a, o, h, rfl, rfl⟩; exact ⟨o, h, rfl⟩
  · rintro ⟨o, h, rfl⟩; exact ⟨k, o, h, rfl, rfl⟩

theorem rmap_sorted (m : OMap Obj) : Art.Sorted (rmap m) ↔ OMap.Sorted m := by
  unfold Art.Sorted OMap.Sorted rmap
  rw [List.pairwise_map]
  rfl

/-- lookups agree -/
theorem look_rmap (m : OMap Obj) (hs : OMap.Sorted m) (k : Key) : look (rmap m) k = (OMap.get m k).map (·.rev) := by
  have hs' := (rmap_sorted m).mpr hs
  cases hg : OMap.get m k with
  | some o =>
    have hm := OMap.get_some_mem m k o hg
    have : (k, o.rev) ∈ rmap m := (mem_rmap m k o.rev).mpr ⟨o, hm, rfl⟩
    exact (mem_iff_look _ hs' k o.rev).mp this
  | none =>
    cases hl : look (rmap m) k with
    | none => rfl
    | some v =>
      have := (mem_iff_look _ hs' k v).mpr hl
      obtain ⟨o, ho, _⟩ := (mem_rmap m k v).mp this
      have := (OMap.get_none_iff m hs k).mp hg o
      exact absurd ho this

theorem rmap_insert (m : OMap Obj) (k : Key) (o : Obj) : rmap (OMap.insert m k o) = sinsert (rmap m) k o.rev := by
  induction m with
  | nil => rfl
  | cons e r ih =>
    obtain ⟨k', v'⟩ := e
    unfold OMap.insert
    simp only [rmap_cons, sinsert]
    cases hc : cmpL k' k with
    | eq =>
      have hk : k' = k := (cmpL_eq_iff k' k).mp hc
      subst hk
      simp [hc, rmap_cons]
    | lt =>
      have : cmpL k k' = .gt := (cmpL_lt_iff_gt k' k).mp hc
      simp only [this, rmap_cons, ih]
    | gt =>
      have : cmpL k k' = .lt := (cmpL_gt_iff_lt k' k).mp hc
      simp only [this, rmap_cons]

theorem filter_ne_self (l : List (Key × Nat)) (k : Key) (h : ∀ e ∈ l, e.1 ≠ k) :
    l.filter (fun e => decide (e.1 ≠ k)) = l := by
  apply List.filter_eq_self.mpr
  intro e he
  simpa using h e he

theorem rmap_erase (m : OMap Obj) (hs : OMap.Sorted m) (k : Key) : rmap (OMap.erase m k) = sdelete (rmap m) k := by
  induction m with
  | nil => rfl
  | cons e r ih =>
    obtain ⟨k', v'⟩ := e
    have hr : OMap.Sorted r := OMap.Sorted.tail hs
    have hall : ∀ e ∈ r, cmpL k' e.1 = .lt := (OMap.sorted_cons.mp hs).1
    unfold OMap.erase
    simp only [rmap_cons, sdelete]
    cases hc : cmpL k' k with
    | eq =>
      have hk : k' = k := (cmpL_eq_iff k' k).mp hc
      subst hk
      simp only [List.filter_cons, ne_eq, not_true_eq_false, decide_false, Bool.false_eq_true, if_false]
      symm
      apply filter_ne_self
      intro e he
      obtain ⟨a, v⟩ := e
      obtain ⟨o, ho, _⟩ := (mem_rmap r a v).mp he
      intro hak
      have := hall (a, o) ho
      simp only at hak this
      rw [hak] at this
      exact cmpL_lt_irrefl _ this
    | lt =>
      have hne : k' ≠ k := cmpL_ne_of_lt k' k hc
      simp only [List.filter_cons, ne_eq, hne, not_false_eq_true, decide_true, if_true, rmap_cons]
      rw [ih hr]; rfl
    | gt =>
      have hlt : cmpL k k' = .lt := (cmpL_gt_iff_lt k' k).mp hc
      have hne : k' ≠ k := fun h => by rw [h, cmpL_refl] at hc; exact absurd hc (by decide)
      simp only [List.filter_cons, ne_eq, hne, not_false_eq_true, decide_true, if_true, rmap_cons]
      congr 1
      symm
      apply filter_ne_self
      intro e he
      obtain ⟨a, v⟩ := e
      obtain ⟨o, ho, _⟩ := (mem_rmap r a v).mp he
      intro hak
      have h1 := hall (a, o) ho
      simp only at hak h1
      rw [hak] at h1
      exact cmpL_lt_irrefl _ (cmpL_lt_trans _ _ _ hlt h1)

/-- two sorted index maps with the same lookups are equal (used with `touched = false`) -/
theorem omap_ext (m n : OMap Obj) (hm : OMap.Sorted m) (hn : OMap.Sorted n) (h : ∀ k, OMap.get m k = OMap.get n k) : m = n :=
  OMap.ext_get m n hm hn h

end Sdb.TW
