import SdbModel.Lemmas.ReconcilerProgressLW

/-!
  Lemmas.ReconcilerProgressReach — the run invariant `PInv` of C16 (the invariant
  `WInv` of C14, the item / progress invariant `XL`, and what the reported
  low-watermark is) holds initially and is preserved by every step of the
  model: user writes and deletes, foreign status writes on non-Error objects,
  failure switches, rounds, `quiesce`, `advance`.
-/
namespace Sdb.Rec

structure PInv (r : R) : Prop where
  w : WInv r
  x : XL r.v []
  lw : r.progressLW = r.lowWatermark
  itle : ItLe r

theorem PInv.init (c : Cfg) : PInv { cfg := c } := by
  refine ⟨WInv.init c, ⟨fun it hit => (by cases hit), ⟨fun o ho => (by cases ho), fun d hd => (by cases hd), fun o ho => (by cases ho), fun h => absurd h (Nat.lt_irrefl 0)⟩,
    ⟨Nat.le_refl _, fun o ho => (by cases ho), fun d hd => (by cases hd)⟩, XRes.nil⟩, rfl,
    ⟨Nat.le_refl _, Nat.le_refl _⟩⟩

theorem PInv.userPut {r : R} (h : PInv r) (id data : Nat) : PInv (r.userPut id data) := by
  exact ⟨h.w.userPut id data, h.x.userPut h.w.rinv.inv.tinv id data, h.lw, h.itle⟩

theorem PInv.delObj {r : R} (h : PInv r) (id : Nat) : PInv (r.delObj id) := by
  have hw := h.w.delObj id
  have hx := h.x.delObj h.w.rinv.inv.tinv id
  cases hg : r.get id with
  | none => rw [delObj_of_none hg]; exact h
  | some o =>
    rw [delObj_of_get hg] at hw hx ⊢
    exact ⟨hw, hx, h.lw, h.itle⟩

theorem PInv.touch {r : R} (h : PInv r) (id : Nat) (hne : ∀ o, r.get id = some o → o.kind ≠ .error) : PInv (r.touch id) := by
  have hw := h.w.touch id hne
  have hx := h.x.touch h.w.rinv.inv.tinv id
  unfold R.touch at hw hx ⊢
  cases hg : r.get id with
  | none => exact h
  | some o =>
    rw [hg] at hw hx
    simp only at hw hx ⊢
    exact ⟨hw, hx, h.lw, h.itle⟩

theorem PInv.setFailing {r : R} (h : PInv r) (l : List Nat) : PInv { r with failing := l } :=
  ⟨h.w.setFailing l, h.x, h.lw, h.itle⟩

theorem PInv.setNow {r : R} (h : PInv r) (t : Nat) (ht : r.now ≤ t) : PInv { r with now := t } :=
  ⟨h.w.setNow t ht, h.x.setNow t ht, h.lw, h.itle⟩

theorem fireTimer_frame2 (r : R) : r.fireTimer.items = r.items ∧ r.fireTimer.progressLW = r.progressLW ∧
    r.fireTimer.refreshedAt = r.refreshedAt ∧ r.fireTimer.tableRev = r.tableRev ∧ r.fireTimer.progressRev = r.progressRev ∧
    r.fireTimer.log = r.log ∧ r.fireTimer.itRev = r.itRev ∧ r.fireTimer.itDelRev = r.itDelRev := by
  unfold R.fireTimer
  split
  · split <;> exact ⟨rfl, rfl, rfl, rfl, rfl, rfl, rfl, rfl⟩
  · exact ⟨rfl, rfl, rfl, rfl, rfl, rfl, rfl, rfl⟩

theorem PInv.fireTimer {r : R} (h : PInv r) : PInv r.fireTimer := by
  obtain ⟨e1, e2, e3, e4, e5, _, e7, e8⟩ := fireTimer_frame2 r
  refine ⟨h.w.fireTimer, by rw [fireTimer_v]; exact h.x, ?_, ?_⟩
  · rw [e2, lowWatermark_eq, e1, ← lowWatermark_eq]; exact h.lw
  · unfold ItLe; rw [e5, e7, e8]; exact h.itle

theorem PInv.round {r : R} (h : PInv r) : PInv r.round := by
  obtain ⟨d, e⟩ := h.x.round h.w.rinv h.itle
  exact ⟨h.w.round, d, round_lw h.w.rinv h.x h.itle, e⟩

theorem PInv.quiesce {r : R} (h : PInv r) (fuel : Nat) : PInv (r.quiesce fuel) := by
  induction fuel generalizing r with
  | zero => exact h
  | succ n ih =>
    unfold R.quiesce
    simp only
    split
    · exact ih h.fireTimer.round
    · exact h.fireTimer

theorem PInv.advance {r : R} (h : PInv r) (ms fuel : Nat) : PInv (r.advance ms fuel) := by
  induction fuel generalizing r ms with
  | zero => exact h.setNow _ (by omega)
  | succ n ih =>
    unfold R.advance
    simp only
    split
    · split
      · exact ih ((h.setNow _ (by omega)).quiesce 64) _
      · exact h.setNow _ (by omega)
    · exact h.setNow _ (by omega)

end Sdb.Rec
