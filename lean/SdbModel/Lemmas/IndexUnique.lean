import SdbModel.Lemmas.IndexBase
/-!
  C04, unique secondary index `uIdx` (key `Obj.ukey` = hex(id) ++ ":" ++ variant digit):
  the key determines the id (for ids made of bytes), the invariant `UInv` ("the index is
  sorted and holds exactly the live objects, each under its own key"), and its preservation
  by the two `reindexUnique` calls of `modify` and `delete`.  Core Lean only.
-/
namespace Sdb.Tbl
open OMap

/-! ### `ukey` determines the id -/

def hexNib (n : Nat) : Nat := if n < 10 then 48 + n else 87 + n

theorem hexDigits_nil : hexDigits [] = [] := rfl

theorem hexDigits_cons (b : Nat) (k : Key) :
    hexDigits (b :: k) = hexNib (b / 16 % 16) :: hexNib (b % 16) :: hexDigits k := by
  simp [hexDigits, hexNib]

theorem hexDigits_length (k : Key) : (hexDigits k).length = 2 * k.length := by
  induction k with
  | nil => rfl
  | cons b k ih => rw [hexDigits_cons]; simp [ih]; omega

theorem hexNib_inj (a b : Nat) (ha : a < 16) (hb : b < 16) (h : hexNib a = hexNib b) : a = b := by
  unfold hexNib at h
  split at h <;> split at h <;> omega

theorem hexDigits_inj (a b : Key) (ha : ∀ x ∈ a, x < 256) (hb : ∀ x ∈ b, x < 256)
    (h : hexDigits a = hexDigits b) : a = b := by
  induction a generalizing b with
  | nil =>
    cases b with
    | nil => rfl
    | cons y ys => rw [hexDigits_cons] at h; simp [hexDigits_nil] at h
  | cons x xs ih =>
    cases b with
    | nil => rw [hexDigits_cons] at h; simp [hexDigits_nil] at h
    | cons y ys =>
      rw [hexDigits_cons, hexDigits_cons] at h
      simp only [List.cons.injEq] at h
      obtain ⟨h1, h2, h3⟩ := h
      have hx := ha x (List.mem_cons_self ..)
      have hy := hb y (List.mem_cons_self ..)
      have e1 := hexNib_inj _ _ (Nat.mod_lt _ (by omega)) (Nat.mod_lt _ (by omega)) h1
      have e2 := hexNib_inj _ _ (Nat.mod_lt _ (by omega)) (Nat.mod_lt _ (by omega)) h2
      have : x = y := by omega
      subst this
      congr 1
      exact ih ys (fun z hz => ha z (List.mem_cons_of_mem _ hz)) (fun z hz => hb z (List.mem_cons_of_mem _ hz)) h3

/-- the unique secondary key determines the primary key (and the variant digit) -/
theorem ukey_inj (o1 o2 : Obj) (h1 : ∀ b ∈ o1.id, b < 256) (h2 : ∀ b ∈ o2.id, b < 256)
    (h : o1.ukey = o2.ukey) : o1.id = o2.id ∧ o1.uvar = o2.uvar := by
  unfold Obj.ukey at h
  have hl : (hexDigits o1.id).length = (hexDigits o2.id).length := by
    have := congrArg List.length h
    simp only [List.length_append, List.length_cons, List.length_nil] at this
    omega
  have ⟨e1, e2⟩ := List.append_inj h hl
  refine ⟨hexDigits_inj _ _ h1 h2 e1, ?_⟩
  simp only [List.cons.injEq, and_true, true_and] at e2
  omega

/-! ### the invariant -/

/-- the unique secondary index holds exactly the live objects, each under its `ukey` -/
structure UInv (primary : OMap Obj) (u : OMap Obj) : Prop where
  sorted : Sorted u
  /-- primary keys are byte strings -/
  bytes : ∀ k o, primary.get k = some o → ∀ b ∈ k, b < 256
  char : ∀ k x, u.get k = some x ↔ primary.get x.id = some x ∧ k = x.ukey

theorem UInv.nil : UInv [] [] := ⟨sorted_nil, fun k o h => by simp at h, fun k x => by simp⟩

theorem reindexUnique_modify_eq (u : OMap Obj) (old : Option Obj) (n : Obj) :
    reindexUnique u old (some n) (fun o => [o.ukey]) =
      match old with
      | some o => if o.ukey = n.ukey then u.insert n.ukey n else (u.insert n.ukey n).erase o.ukey
      | none => u.insert n.ukey n := by
  unfold reindexUnique
  cases old with
  | none => simp
  | some o =>
    simp only [List.foldl_cons, List.foldl_nil, List.contains_cons, List.contains_nil, Bool.or_false,
      beq_iff_eq]

theorem reindexUnique_delete_eq (u : OMap Obj) (o : Obj) :
    reindexUnique u (some o) none (fun o => [o.ukey]) = u.erase o.ukey := by
  unfold reindexUnique
  simp

theorem UInv.reindex_modify {primary u : OMap Obj} (inv : UInv primary u) (hp : POk primary) (n : Obj)
    (hb : ∀ b ∈ n.id, b < 256) :
    UInv (primary.insert n.id n) (reindexUnique u (primary.get n.id) (some n) (fun o => [o.ukey])) := by
  have hgetP : ∀ k, (primary.insert n.id n).get k = if k = n.id then some n else primary.get k := by
    intro k; rw [get_insert]
  have hbytes : ∀ k o, (primary.insert n.id n).get k = some o → ∀ b ∈ k, b < 256 := by
    intro k o hk
    rw [hgetP] at hk
    split at hk
    · rename_i e; rw [e]; exact hb
    · exact inv.bytes k o hk
  have hs1 : Sorted (u.insert n.ukey n) := sorted_insert _ inv.sorted _ _
  rw [reindexUnique_modify_eq]
  cases hold : primary.get n.id with
  | none =>
    refine ⟨hs1, hbytes, ?_⟩
    intro k x
    rw [get_insert, hgetP]
    constructor
    · intro hx
      split at hx
      · rename_i hk; simp only [Option.some.injEq] at hx; subst hx; simp [hk]
      · have ⟨h1, h2⟩ := (inv.char k x).mp hx
        have hne : x.id ≠ n.id := by intro e; rw [e, hold] at h1; simp at h1
        simp [hne, h1, h2]
    · rintro ⟨h1, h2⟩
      split at h1
      · simp only [Option.some.injEq] at h1; subst h1; simp [h2]
      · rename_i hne
        have hk : k ≠ n.ukey := by
          rw [h2]; intro e
          exact hne (ukey_inj x n (inv.bytes _ _ h1) hb e).1
        rw [if_neg hk]
        exact (inv.char k x).mpr ⟨h1, h2⟩
  | some oo =>
    have hoid : oo.id = n.id := hp.idOk _ _ hold
    have hoo : u.get oo.ukey = some oo := (inv.char _ _).mpr ⟨by rw [hoid]; exact hold, rfl⟩
    -- lookups after the update, in both cases of the key comparison
    have hget : ∀ k, (if oo.ukey = n.ukey then u.insert n.ukey n else (u.insert n.ukey n).erase oo.ukey).get k =
        if k = n.ukey then some n else if k = oo.ukey then none else u.get k := by
      intro k
      split
      · rename_i e
        rw [get_insert]
        split
        · rfl
        · rename_i hk; rw [if_neg (by rw [e]; exact hk)]
      · rename_i e
        rw [get_erase _ hs1, get_insert]
        by_cases hk : k = n.ukey
        · simp [hk, Ne.symm e]
        · simp [hk]
    have hsorted : Sorted (if oo.ukey = n.ukey then u.insert n.ukey n else (u.insert n.ukey n).erase oo.ukey) := by
      split
      · exact hs1
      · exact sorted_erase _ hs1 _
    refine ⟨hsorted, hbytes, ?_⟩
    intro k x
    simp only []
    rw [hget, hgetP]
    constructor
    · intro hx
      split at hx
      · rename_i hk; simp only [Option.some.injEq] at hx; subst hx; simp [hk]
      · split at hx
        · simp at hx
        · rename_i hk2
          have ⟨h1, h2⟩ := (inv.char k x).mp hx
          have hne : x.id ≠ n.id := by
            intro e
            rw [e, hold] at h1
            simp only [Option.some.injEq] at h1
            subst h1
            exact hk2 h2
          simp [hne, h1, h2]
    · rintro ⟨h1, h2⟩
      split at h1
      · simp only [Option.some.injEq] at h1; subst h1; simp [h2]
      · rename_i hne
        have hk : k ≠ n.ukey := by
          rw [h2]; intro e
          exact hne (ukey_inj x n (inv.bytes _ _ h1) hb e).1
        have hk2 : k ≠ oo.ukey := by
          rw [h2]; intro e
          have := (ukey_inj x oo (inv.bytes _ _ h1) (by rw [hoid]; exact hb) e).1
          exact hne (this.trans hoid)
        rw [if_neg hk, if_neg hk2]
        exact (inv.char k x).mpr ⟨h1, h2⟩

theorem UInv.reindex_delete {primary u : OMap Obj} (inv : UInv primary u) (hp : POk primary) (id : Key) (old : Obj)
    (ho : primary.get id = some old) :
    UInv (primary.erase id) (reindexUnique u (some old) none (fun o => [o.ukey])) := by
  have hoid : old.id = id := hp.idOk _ _ ho
  have hgetP : ∀ k, (primary.erase id).get k = if k = id then none else primary.get k := by
    intro k; rw [get_erase _ hp.sorted]
  rw [reindexUnique_delete_eq]
  refine ⟨sorted_erase _ inv.sorted _, ?_, ?_⟩
  · intro k o hk
    rw [hgetP] at hk
    split at hk
    · simp at hk
    · exact inv.bytes k o hk
  · intro k x
    rw [get_erase _ inv.sorted, hgetP]
    constructor
    · intro hx
      split at hx
      · simp at hx
      · rename_i hk
        have ⟨h1, h2⟩ := (inv.char k x).mp hx
        have hne : x.id ≠ id := by
          intro e
          rw [e, ho] at h1
          simp only [Option.some.injEq] at h1
          subst h1
          exact hk h2
        simp [hne, h1, h2]
    · rintro ⟨h1, h2⟩
      split at h1
      · simp at h1
      · rename_i hne
        have hk : k ≠ old.ukey := by
          rw [h2]; intro e
          have := (ukey_inj x old (inv.bytes _ _ h1) (by rw [hoid]; exact inv.bytes _ _ ho) e).1
          exact hne (this.trans hoid)
        rw [if_neg hk]
        exact (inv.char k x).mpr ⟨h1, h2⟩

/-! ### queries through the unique index -/

theorem UInv.entry {primary u : OMap Obj} (inv : UInv primary u) {e : Key × Obj} (he : e ∈ u) :
    primary.get e.2.id = some e.2 ∧ e.1 = e.2.ukey :=
  (inv.char e.1 e.2).mp (mem_get_some _ inv.sorted e.1 e.2 he)

/-- **none missing, none stale**: the objects of the unique index are the live objects -/
theorem UInv.mem_objs {primary u : OMap Obj} (inv : UInv primary u) (x : Obj) :
    x ∈ u.map (·.2) ↔ primary.get x.id = some x := by
  rw [List.mem_map]
  constructor
  · rintro ⟨e, he, rfl⟩; exact (inv.entry he).1
  · intro h; exact ⟨(x.ukey, x), get_some_mem _ _ _ ((inv.char _ _).mpr ⟨h, rfl⟩), rfl⟩

/-- **ascending key order, no object twice** -/
theorem UInv.objs_sorted {primary u : OMap Obj} (inv : UInv primary u) :
    (u.map (·.2)).Pairwise (fun a b => cmpL a.ukey b.ukey = .lt) := by
  rw [List.pairwise_map]
  have hs : Sorted u := inv.sorted
  unfold Sorted at hs
  refine List.Pairwise.imp_of_mem ?_ hs
  intro a b ha hb hlt
  rw [← (inv.entry ha).2, ← (inv.entry hb).2]; exact hlt

/-- `Get` on the unique index: the live object with that key -/
theorem UInv.qGet_iff {t : TableS} (inv : UInv t.primary t.uIdx) (key : Key) (plen : Nat) (x : Obj) :
    qGet t .u key plen = some x ↔ t.primary.get x.id = some x ∧ x.ukey = key := by
  simp only [qGet]
  rw [inv.char]
  exact and_congr_right fun _ => eq_comm

/-- `Prefix` on the unique index filters the sorted object list -/
theorem UInv.qPrefix_eq {t : TableS} (inv : UInv t.primary t.uIdx) (key : Key) (plen : Nat) :
    qPrefix t .u key plen = (t.uIdx.map (·.2)).filter (fun x => hasPrefix x.ukey key) := by
  simp only [qPrefix, prefixQ]
  rw [List.filter_map]
  congr 1
  apply List.filter_congr
  intro e he
  obtain ⟨c, x⟩ := e
  have := (inv.entry he).2
  simp only at this
  simp [this]

/-- `LowerBound` on the unique index filters the sorted object list -/
theorem UInv.qLowerBound_eq {t : TableS} (inv : UInv t.primary t.uIdx) (key : Key) (plen : Nat) :
    qLowerBound t .u key plen = (t.uIdx.map (·.2)).filter (fun x => cmpL x.ukey key != .lt) := by
  simp only [qLowerBound, lowerBound]
  rw [List.filter_map]
  congr 1
  apply List.filter_congr
  intro e he
  obtain ⟨c, x⟩ := e
  have := (inv.entry he).2
  simp only at this
  simp [this]

end Sdb.Tbl
