import SdbModel.Lemmas.Index
/-!
  C04: the uint16 length field of the composite keys.  `nonUniqueKey.primaryLen` reads back
  `|enc id| mod 2^16`, so for an object whose escaped primary key is 2^16 bytes or longer the
  secondary length computed by `secondaryLen` is off by a multiple of 2^16 and `List` / `Get`
  through the non-unique index skip the object.  Core Lean only.
-/
namespace Sdb.Tbl
open OMap

theorem nukPrimaryLen_comp (id tag : Key) :
    nukPrimaryLen (P.composite id tag) = (P.enc id).length % 65536 := by
  have hk : P.composite id tag = (P.enc tag ++ 0 :: P.enc id) ++ be 2 (P.enc id).length := by
    rw [comp_eq]; simp
  have hlen : (P.composite id tag).length = (P.enc tag).length + 1 + (P.enc id).length + 2 := by
    rw [hk]; simp; omega
  unfold nukPrimaryLen
  split
  · omega
  · rw [hk]
    have : ((P.enc tag ++ 0 :: P.enc id) ++ be 2 (P.enc id).length).length - 2 = (P.enc tag ++ 0 :: P.enc id).length := by
      simp; omega
    rw [this, List.drop_left, unbe_be]

theorem enc_replicate_two (n : Nat) : P.enc (List.replicate n 2) = List.replicate n 2 := by
  induction n with
  | zero => rfl
  | succ n ih =>
    rw [List.replicate_succ, EncParams.enc, ih]
    rfl


/-- a single object whose ESCAPED primary key is exactly 2^16 bytes long: inserted into the empty table
    it is live and carries the tag, but `List` by that tag does not return it -/
theorem long_primary_missing (o : Obj) (tag : Key) (ht : o.tags = [tag]) (hlen : (P.enc o.id).length = 65536)
    (hb : ∀ b ∈ o.id, b < 256) (hpf : ∀ k ∈ o.pfxs, LKeyOk k) :
    ∃ (t : TableS) (x : Obj), IdxInv 65537 t ∧ x ∈ qAll t ∧ tag ∈ x.tags ∧ x ∉ qList t .tags tag 0 := by
  let t0 : TableS := { locked := true, full := false }
  have hok : ObjOk 65537 o := ⟨hb, by rw [hlen]; omega, hpf⟩
  have inv0 : IdxInv 65537 t0 := IdxInv.empty _ _ rfl rfl rfl rfl rfl
  have hg : GuardOk 0 (t0.primary.get o.id) := Or.inl rfl
  obtain ⟨t', h, hm⟩ := modify_ok t0 0 o false rfl hg
  have hi := modify_ok_idx t0 0 o false rfl hg
  rw [h] at hi
  have inv' : IdxInv 65537 t' := by
    have := inv0.modify_preserves 0 o false hok (fun hf => by simp [t0] at hf)
    rw [h] at this; exact this
  have hnone : t0.primary.get o.id = none := rfl
  have hprim : t'.primary = [(o.id, newObj t0 o false)] := by rw [hm.primary]; rfl
  have htag : t'.tagIdx = [(P.composite o.id tag, newObj t0 o false)] := by
    rw [hi.tagIdx, hnone]
    simp only [reindexNonUnique, newObj_tags, ht, List.foldl_cons, List.foldl_nil]
    rfl
  refine ⟨t', newObj t0 o false, inv', ?_, ?_, ?_⟩
  · simp [qAll, hprim]
  · rw [newObj_tags, ht]; exact List.mem_cons_self ..
  · have hsec : nukSecLen (P.composite o.id tag) = ((P.enc tag).length : Int) + 65536 := by
      unfold nukSecLen nukSecondaryLen
      rw [nukPrimaryLen_comp, hlen]
      have : (P.composite o.id tag).length = (P.enc tag).length + 65539 := by
        rw [comp_eq]; simp [hlen]
      rw [this]
      simp only [Nat.mod_self]
      omega
    have hf : (nukSecLen (P.composite o.id tag) == ((P.enc tag).length : Int)) = false := by
      rw [hsec]
      have : ¬ ((P.enc tag).length : Int) + 65536 = ((P.enc tag).length : Int) := by omega
      simpa using this
    simp only [qList, htag, prefixQ, List.filter_cons, List.filter_nil]
    split <;> simp [hf]

/-! ### K2 at the level of a query -/

/-- `List` through the non-unique index is in ascending order of the COMPOSITE keys (no bound beyond
    the uint16 one); whether that is the order of the primary keys is C18's question -/
theorem TagInv.qList_sorted_by_composite {t : TableS} (inv : TagInv t.primary t.tagIdx) (hl : IdLen 65536 t.primary)
    (key : Key) (plen : Nat) :
    (qList t .tags key plen).Pairwise (fun a b => cmpL (P.composite a.id key) (P.composite b.id key) = .lt) := by
  rw [qList_tags_eq t inv hl, filter_triples, List.pairwise_map]
  have hs : Sorted t.tagIdx := inv.sorted
  unfold Sorted at hs
  refine List.Pairwise.imp_of_mem ?_ (List.Pairwise.filter _ hs)
  intro a b ha hb hlt
  have ⟨ha1, ha2⟩ := List.mem_filter.mp ha
  have ⟨hb1, hb2⟩ := List.mem_filter.mp hb
  have ⟨_, _, ca⟩ := inv.entry ha1
  have ⟨_, _, cb⟩ := inv.entry hb1
  simp only [beq_iff_eq] at ha2 hb2
  rw [ha2] at ca; rw [hb2] at cb
  rw [← ca, ← cb]; exact hlt

theorem pairwise_mem_cases {α : Type} {R : α → α → Prop} {l : List α} (h : l.Pairwise R) {a b : α}
    (ha : a ∈ l) (hb : b ∈ l) (hne : a ≠ b) : R a b ∨ R b a := by
  induction l with
  | nil => simp at ha
  | cons x r ih =>
    have ⟨h1, h2⟩ := List.pairwise_cons.mp h
    rcases List.mem_cons.mp ha with rfl | ha' <;> rcases List.mem_cons.mp hb with rfl | hb'
    · exact absurd rfl hne
    · exact Or.inl (h1 b hb')
    · exact Or.inr (h1 a ha')
    · exact ih h2 ha' hb'

theorem enc_zeros_succ (n : Nat) : P.enc (List.replicate (n + 1) 0) = P.enc (List.replicate n 0) ++ [1, 1] := by
  have app : ∀ a b : Key, P.enc (a ++ b) = P.enc a ++ P.enc b := by
    intro a b
    induction a with
    | nil => rfl
    | cons c cs ih => simp [EncParams.enc, ih]
  rw [List.replicate_succ', app]
  rfl

theorem enc_zeros_length (n : Nat) : (P.enc (List.replicate n 0)).length = 2 * n := by
  induction n with
  | zero => rfl
  | succ n ih => rw [enc_zeros_succ, List.length_append, ih]; simp; omega

theorem cmpL_zeros_succ (n : Nat) : cmpL (List.replicate n 0) (List.replicate (n + 1) 0) = .lt := by
  induction n with
  | zero => rfl
  | succ n ih => rw [List.replicate_succ, List.replicate_succ (n := n + 1), cmpL_cons_cons]; simpa using ih

/-- K2's witness with explicit keys: 256 and 257 zero bytes, empty secondary key -/
theorem comp_zeros_gt :
    cmpL (P.composite (List.replicate 256 0) []) (P.composite (List.replicate 257 0) []) = .gt := by
  have key : ∀ n, cmpL (P.composite (List.replicate n 0) []) (P.composite (List.replicate (n + 1) 0) [])
      = cmpL (be 2 (2 * n)) ([1, 1] ++ be 2 (2 * (n + 1))) := by
    intro n
    simp only [EncParams.composite, enc_zeros_length]
    rw [enc_zeros_succ]
    simp only [List.append_assoc]
    rw [cmpL_append_left, cmpL_append_left, cmpL_append_left]
  rw [key 256]
  decide

/-- **K2 seen through `List`**: a table reachable by two inserts (primary keys of 256 and 257 zero
    bytes, both objects tagged with the empty key) satisfies the invariant with `B = 65536`, yet `List` by
    that tag is NOT in ascending primary-key order -/
theorem tags_list_order_witness :
    ∃ (t : TableS) (key : Key), IdxInv 65536 t ∧
      ¬ (qList t .tags key 0).Pairwise (fun a b => cmpL a.id b.id = .lt) := by
  let p : Key := List.replicate 256 0
  let p' : Key := List.replicate 257 0
  let x : Obj := { id := p, val := 0, uvar := 0, tags := [[]], pfxs := [], up := false, ord := 0, rev := 0 }
  let x' : Obj := { id := p', val := 0, uvar := 0, tags := [[]], pfxs := [], up := false, ord := 1, rev := 0 }
  let t0 : TableS := { locked := true, full := false }
  have hpne : p ≠ p' := by
    intro e
    have : (List.replicate 256 0).length = (List.replicate 257 0).length := congrArg List.length e
    rw [List.length_replicate, List.length_replicate] at this
    omega
  have okx : ObjOk 65536 x := by
    refine ⟨?_, ?_, fun k hk => by have : x.pfxs = [] := rfl; rw [this] at hk; simp at hk⟩
    · intro b hb
      have : b = 0 := List.eq_of_mem_replicate hb
      omega
    · show (P.enc (List.replicate 256 0)).length < 65536
      rw [enc_zeros_length]; omega
  have okx' : ObjOk 65536 x' := by
    refine ⟨?_, ?_, fun k hk => by have : x'.pfxs = [] := rfl; rw [this] at hk; simp at hk⟩
    · intro b hb
      have : b = 0 := List.eq_of_mem_replicate hb
      omega
    · show (P.enc (List.replicate 257 0)).length < 65536
      rw [enc_zeros_length]; omega
  have inv0 : IdxInv 65536 t0 := IdxInv.empty _ _ rfl rfl rfl rfl rfl
  -- first insert
  obtain ⟨t1, h1, hm1⟩ := modify_ok t0 0 x false rfl (Or.inl rfl)
  have inv1 : IdxInv 65536 t1 := by
    have := inv0.modify_preserves 0 x false okx (fun hf => by simp [t0] at hf)
    rw [h1] at this; exact this
  have hl1 : t1.locked = true := by rw [hm1.locked]
  have hf1 : t1.full = false := by rw [hm1.full]
  -- second insert
  obtain ⟨t2, h2, hm2⟩ := modify_ok t1 0 x' false hl1 (Or.inl rfl)
  have inv2 : IdxInv 65536 t2 := by
    have := inv1.modify_preserves 0 x' false okx' (fun hf => by rw [hf1] at hf; simp at hf)
    rw [h2] at this; exact this
  refine ⟨t2, [], inv2, ?_⟩
  intro hsorted
  have hcomp := TagInv.qList_sorted_by_composite inv2.tag inv2.idLen [] 0
  -- both objects are live and carry the tag
  have g2 : t2.primary.get p' = some (newObj t1 x' false) := by rw [hm2.primary]; exact get_insert_self _ _ _
  have g1 : t2.primary.get p = some (newObj t0 x false) := by
    rw [hm2.primary, get_insert_other _ _ _ _ hpne, hm1.primary]
    exact get_insert_self _ _ _
  have m1 : newObj t0 x false ∈ qList t2 .tags [] 0 := by
    rw [inv2.tag.mem_qList inv2.idLen]
    exact ⟨by rw [newObj_id]; exact g1, by rw [newObj_tags]; exact List.mem_cons_self ..⟩
  have m2 : newObj t1 x' false ∈ qList t2 .tags [] 0 := by
    rw [inv2.tag.mem_qList inv2.idLen]
    exact ⟨by rw [newObj_id]; exact g2, by rw [newObj_tags]; exact List.mem_cons_self ..⟩
  have hne : newObj t0 x false ≠ newObj t1 x' false := by
    intro e
    have := congrArg Obj.id e
    rw [newObj_id, newObj_id] at this
    exact hpne this
  rcases pairwise_mem_cases (hsorted.and hcomp) m1 m2 hne with ⟨_, hc⟩ | ⟨hi, _⟩
  · rw [newObj_id, newObj_id] at hc
    have := comp_zeros_gt
    rw [this] at hc
    simp at hc
  · rw [newObj_id, newObj_id] at hi
    exact cmpL_lt_asymm _ _ (cmpL_zeros_succ 256) hi

end Sdb.Tbl
