import SdbModel.Lemmas.ConcInitUpd

/-!
  ConcInitStep — every micro step of `Model.Conc` preserves the channel /
  initializer invariant `CI` (given the simulation invariant of `ConcSim`, which
  provides mutual exclusion).  Core Lean only.
-/
namespace Sdb.Conc

/-- the micro steps whose presence in the program defines the phases of `priv` -/
def tracked (m : Micro) : Prop :=
  m = .userWrites ∨ m = .act .storeRoot ∨ m = .act .notify ∨ m = .act .closeInit

theorem lockList_congr (th th' : Thread) (h : th'.tables = th.tables) : lockList th' = lockList th := by
  simp only [lockList, h]

theorem priv_congr (th th' : Thread) (c : Bool) (w : Nat)
    (hmem : ∀ m, tracked m → (m ∈ th'.prog ↔ m ∈ th.prog))
    (htab : th'.tables = th.tables)
    (hfr : Micro.userWrites ∉ th.prog → th'.entries = th.entries ∧ th'.oldRoot = th.oldRoot)
    (hsr : Micro.act .storeRoot ∉ th.prog → th'.toNotify = th.toNotify ∧ th'.initToClose = th.initToClose)
    (h : priv th' c w) : priv th c w := by
  have huw := hmem .userWrites (Or.inl rfl)
  have hst := hmem (.act .storeRoot) (Or.inr (Or.inl rfl))
  have hnt := hmem (.act .notify) (Or.inr (Or.inr (Or.inl rfl)))
  have hcl := hmem (.act .closeInit) (Or.inr (Or.inr (Or.inr rfl)))
  rcases h with ⟨⟨h1, h2⟩, x, hx, hf⟩ | ⟨h1, h2, h3, h4⟩ | ⟨h1, h2, h3, h4⟩
  · left
    rw [huw] at h1; rw [hst] at h2
    obtain ⟨e1, e2⟩ := hfr h1
    refine ⟨⟨h1, h2⟩, x, by rw [← lockList_congr th th' htab]; exact hx, ?_⟩
    unfold freshOf at hf ⊢
    rw [e1, e2] at hf; exact hf
  · right; left
    rw [hst] at h2; rw [hnt] at h3
    exact ⟨h1, h2, h3, by rw [← (hsr h2).1]; exact h4⟩
  · right; right
    rw [hst] at h2; rw [hcl] at h3
    exact ⟨h1, h2, h3, by rw [← (hsr h2).2]; exact h4⟩

theorem FI_congr (th th' : Thread) (c : Bool)
    (hmem : ∀ m, tracked m → (m ∈ th'.prog ↔ m ∈ th.prog))
    (htab : th'.tables = th.tables)
    (hfr : Micro.userWrites ∉ th.prog → th'.entries = th.entries ∧ th'.oldRoot = th.oldRoot)
    (h : FI th c) : FI th' c := by
  have huw := hmem .userWrites (Or.inl rfl)
  have hst := hmem (.act .storeRoot) (Or.inr (Or.inl rfl))
  intro ⟨h1, h2⟩ x hx y hy hxy w fx fy
  rw [huw] at h1; rw [hst] at h2
  obtain ⟨e1, e2⟩ := hfr h1
  rw [lockList_congr th th' htab] at hx hy
  unfold freshOf at fx fy
  rw [e1, e2] at fx fy
  exact h ⟨h1, h2⟩ x hx y hy hxy w fx fy

/-- `Loc` reads the thread record only through these fields -/
theorem Loc_congr (root : List TableV) (nc : Nat) (th th' : Thread) (c : Bool) (p : Pos2)
    (h1 : th'.tables = th.tables) (h2 : th'.markInit = th.markInit) (h3 : th'.regInit = th.regInit)
    (h4 : th'.locked = th.locked) (h5 : th'.oldRoot = th.oldRoot) (h6 : th'.entries = th.entries)
    (h7 : th'.curRoot = th.curRoot) (h8 : th'.newRoot = th.newRoot) (h9 : th'.initToClose = th.initToClose)
    (h10 : th'.toNotify = th.toNotify) (h11 : p = .gS → th'.prog.head? = th.prog.head?)
    (h : Loc root nc th c p) : Loc root nc th' c p := by
  have hL := lockList_congr th th' h1
  cases p <;>
    simp only [Loc, Seen, Wr, Mg, Ci, CiI, Stored, hL, h1, h2, h3, h4, h5, h6, h7, h8, h9, h10] at h ⊢ <;>
    first
    | exact h
    | exact ⟨h.1, h.2.1, h.2.2.1, by rw [h11 rfl]; exact h.2.2.2⟩

theorem own_thread (st : State) (cs : List Bool) (run : Option Nat) (tid : Nat) (th : Thread)
    (hCI : CI (install st tid th) cs run) (htid : tid < st.threads.length) :
    ∃ c, cs[tid]? = some c ∧ ThreadOK st.root st.nextChan th c := by
  have : (install st tid th).threads[tid]? = some th := by rw [install_get _ _ _ _ htid]; simp
  exact hCI.TH tid th this

/-- popping a micro step that is none of the tracked ones and changes neither
    root, closed list nor allocator -/
theorem CI_pop (st st' : State) (cs : List Bool) (tid : Nat) (th th' : Thread) (c : Bool) (m : Micro)
    (rest : List Micro)
    (hCI : CI (install st tid th) cs (some tid)) (htid : tid < st.threads.length) (hc : cs[tid]? = some c)
    (hprog : th.prog = m :: rest) (hm : ¬ tracked m) (hprog' : th'.prog = rest)
    (htab : th'.tables = th.tables)
    (hfr : Micro.userWrites ∉ th.prog → th'.entries = th.entries ∧ th'.oldRoot = th.oldRoot)
    (hsr : Micro.act .storeRoot ∉ th.prog → th'.toNotify = th.toNotify ∧ th'.initToClose = th.initToClose)
    (hthreads : st'.threads = st.threads) (hroot : st'.root = st.root) (hclosed : st'.closed = st.closed)
    (hnc : st'.nextChan = st.nextChan)
    (hown : ∃ p', strip2 rest = code2 (lockList th) c p' ∧ Loc st.root st.nextChan th' c p') :
    CI (install st' tid th') cs (some tid) := by
  obtain ⟨c0, hc0, hb, hadj, _⟩ := own_thread st cs _ tid th hCI htid
  have hmem : ∀ m', tracked m' → (m' ∈ th'.prog ↔ m' ∈ th.prog) := by
    intro m' hm'
    rw [hprog', hprog, List.mem_cons]
    constructor
    · exact Or.inr
    · rintro (h | h)
      · exact absurd (h ▸ hm') hm
      · exact h
  have hown_old : (install st tid th).threads[tid]? = some th := by rw [install_get _ _ _ _ htid]; simp
  refine CI_quiet st st' cs tid th th' c hCI htid hc hthreads hroot hclosed hnc
    (fun w hw => priv_congr th th' c w hmem htab hfr hsr hw)
    (FI_congr th th' c hmem htab hfr (hCI.FIc tid th c hown_old hc)) ?_ ?_
  · intro _ hs
    refine ⟨fun h => hs ((hmem _ (Or.inr (Or.inl rfl))).1 h), fun hn h => hn ((hmem _ (Or.inr (Or.inr (Or.inl rfl)))).1 h),
      fun hn h => hn ((hmem _ (Or.inr (Or.inr (Or.inr rfl)))).1 h), hsr hs⟩
  · obtain ⟨p', hp', hl'⟩ := hown
    refine ⟨?_, ?_, p', ?_, hl'⟩
    · rw [lockList_congr th th' htab]; exact hb
    · rw [hprog']; rw [hprog] at hadj; exact adjOK_tail _ _ hadj
    · rw [hprog', lockList_congr th th' htab]; exact hp'

/-! ### steps that only move the program position or fill private copies -/

theorem not_tracked_act (a : Act) (h1 : a ≠ .storeRoot) (h2 : a ≠ .notify) (h3 : a ≠ .closeInit) :
    ¬ tracked (.act a) := by
  rintro (h | h | h | h)
  · simp at h
  · simp only [Micro.act.injEq] at h; exact h1 h
  · simp only [Micro.act.injEq] at h; exact h2 h
  · simp only [Micro.act.injEq] at h; exact h3 h

/-- lock / unlock / park steps -/
theorem CI_move (st st' : State) (cs : List Bool) (tid : Nat) (th : Thread) (c : Bool) (m : Micro) (rest : List Micro)
    (p p' : Pos2)
    (hCI : CI (install st tid th) cs (some tid)) (htid : tid < st.threads.length) (hc : cs[tid]? = some c)
    (hprog : th.prog = m :: rest) (hm : ¬ tracked m)
    (hthreads : st'.threads = st.threads) (hroot : st'.root = st.root) (hclosed : st'.closed = st.closed)
    (hnc : st'.nextChan = st.nextChan)
    (hstrip : strip2 rest = code2 (lockList th) c p')
    (hl : Loc st.root st.nextChan th c p)
    (hll : ∀ th', Loc st.root st.nextChan th' c p → Loc st.root st.nextChan th' c p') :
    CI (install st' tid { th with prog := rest }) cs (some tid) := by
  refine CI_pop st st' cs tid th _ c m rest hCI htid hc hprog hm rfl rfl (fun _ => ⟨rfl, rfl⟩) (fun _ => ⟨rfl, rfl⟩)
    hthreads hroot hclosed hnc ⟨p', hstrip, ?_⟩
  apply hll
  cases p with
  | gS =>
    exfalso
    have hh := hl.2.2.2
    rw [hprog] at hh
    simp only [List.head?_cons, Option.some.injEq] at hh
    exact hm (hh ▸ Or.inr (Or.inl rfl))
  | _ => exact Loc_congr _ _ th _ c _ rfl rfl rfl rfl rfl rfl rfl rfl rfl rfl (fun e => by simp at e) hl

theorem CI_loadRoot (st : State) (cs : List Bool) (tid : Nat) (th : Thread) (c : Bool) (rest : List Micro) (k : Nat)
    (hCI : CI (install st tid th) cs (some tid)) (htid : tid < st.threads.length) (hc : cs[tid]? = some c)
    (hprog : th.prog = .act .loadRoot :: rest) (hp : strip2 th.prog = code2 (lockList th) c (.acq k))
    (hb : ∀ x ∈ lockList th, x < st.root.length)
    (hstrip : strip2 rest = code2 (lockList th) c .clR) :
    CI (install st tid { th with prog := rest, oldRoot := st.root }) cs (some tid) := by
  have huw : Micro.userWrites ∈ th.prog := (tracked_of_pos th _ c _ hp).1.2 rfl
  refine CI_pop st st cs tid th _ c _ rest hCI htid hc hprog (not_tracked_act _ (by simp) (by simp) (by simp)) rfl rfl
    (fun h => absurd huw h) (fun _ => ⟨rfl, rfl⟩) rfl rfl rfl rfl ⟨.clR, hstrip, ?_⟩
  intro x hx
  exact ⟨hb x hx, rfl⟩

theorem CI_cloneRoot (st : State) (cs : List Bool) (tid : Nat) (th : Thread) (c : Bool) (rest : List Micro)
    (hCI : CI (install st tid th) cs (some tid)) (htid : tid < st.threads.length) (hc : cs[tid]? = some c)
    (hprog : th.prog = .act .cloneRoot :: rest) (hp : strip2 th.prog = code2 (lockList th) c .clR)
    (hl : Loc st.root st.nextChan th c .clR)
    (hstrip : strip2 rest = code2 (lockList th) c .clE) :
    CI (install st tid { th with prog := rest, entries := th.oldRoot }) cs (some tid) := by
  have huw : Micro.userWrites ∈ th.prog := (tracked_of_pos th _ c _ hp).1.2 rfl
  refine CI_pop st st cs tid th _ c _ rest hCI htid hc hprog (not_tracked_act _ (by simp) (by simp) (by simp)) rfl rfl
    (fun h => absurd huw h) (fun _ => ⟨rfl, rfl⟩) rfl rfl rfl rfl ⟨.clE, hstrip, ?_⟩
  exact ⟨hl, rfl⟩

theorem CI_cloneEntries (st : State) (cs : List Bool) (tid : Nat) (th : Thread) (c : Bool) (rest : List Micro)
    (hCI : CI (install st tid th) cs (some tid)) (htid : tid < st.threads.length) (hc : cs[tid]? = some c)
    (hprog : th.prog = .act .cloneEntries :: rest)
    (hl : Loc st.root st.nextChan th c .clE)
    (hstrip : strip2 rest = code2 (lockList th) c .uw) :
    CI (install st tid { th with prog := rest, locked := dedup th.tables }) cs (some tid) := by
  refine CI_pop st st cs tid th _ c _ rest hCI htid hc hprog (not_tracked_act _ (by simp) (by simp) (by simp)) rfl rfl
    (fun _ => ⟨rfl, rfl⟩) (fun _ => ⟨rfl, rfl⟩) rfl rfl rfl rfl ⟨.uw, hstrip, ?_⟩
  exact ⟨hl.1, hl.2, rfl⟩

theorem CI_loadCurrentRoot (st : State) (cs : List Bool) (tid : Nat) (th : Thread) (c : Bool) (rest : List Micro)
    (p' : Pos2)
    (hCI : CI (install st tid th) cs (some tid)) (htid : tid < st.threads.length) (hc : cs[tid]? = some c)
    (hprog : th.prog = .act .loadCurrentRoot :: rest)
    (hstrip : strip2 rest = code2 (lockList th) c p')
    (hl' : Loc st.root st.nextChan { th with prog := rest, curRoot := st.root } c p') :
    CI (install st tid { th with prog := rest, curRoot := st.root }) cs (some tid) := by
  exact CI_pop st st cs tid th _ c _ rest hCI htid hc hprog (not_tracked_act _ (by simp) (by simp) (by simp)) rfl rfl
    (fun _ => ⟨rfl, rfl⟩) (fun _ => ⟨rfl, rfl⟩) rfl rfl rfl rfl ⟨p', hstrip, hl'⟩

def mergedRoot (th : Thread) : List TableV :=
  (List.range th.curRoot.length).map fun i =>
    if th.locked.contains i ∧ i < th.entries.length then getT th.entries i else getT th.curRoot i

def collected (th : Thread) : List Nat :=
  th.locked.filterMap fun i =>
    let e := getT th.newRoot i
    if e.initWatch ≠ 0 ∧ !e.initPending then some e.initWatch else none

def clearedRoot (th : Thread) : List TableV :=
  th.newRoot.mapIdx fun i e =>
    if th.locked.contains i ∧ e.initWatch ≠ 0 ∧ !e.initPending then { e with initWatch := 0 } else e

theorem doAct_mergeUnlocked (st : State) (th : Thread) :
    doAct st th .mergeUnlocked = (st, { th with newRoot := mergedRoot th }) := rfl

theorem doAct_collectInit (st : State) (th : Thread) :
    doAct st th .collectInit = (st, { th with initToClose := collected th, newRoot := clearedRoot th }) := rfl

theorem filterMap_congr' {α β : Type} (f g : α → Option β) : ∀ (l : List α), (∀ a ∈ l, f a = g a) →
    l.filterMap f = l.filterMap g := by
  intro l
  induction l with
  | nil => intro _; rfl
  | cons a l ih =>
    intro h
    rw [List.filterMap_cons, List.filterMap_cons, h a (by simp), ih (fun b hb => h b (List.mem_cons_of_mem _ hb))]

theorem mem_locked_of (th : Thread) (hlk : th.locked = dedup th.tables) (x : Nat) :
    x ∈ th.locked ↔ x ∈ lockList th := by
  rw [hlk, mem_dedup, mem_lockList]

theorem CI_mergeUnlocked (st : State) (cs : List Bool) (tid : Nat) (th : Thread) (c : Bool) (rest : List Micro)
    (hCI : CI (install st tid th) cs (some tid)) (htid : tid < st.threads.length) (hc : cs[tid]? = some c)
    (hprog : th.prog = .act .mergeUnlocked :: rest)
    (hl : Loc st.root st.nextChan th c .mg)
    (hstrip : strip2 rest = code2 (lockList th) c .ci) :
    CI (install st tid { th with prog := rest, newRoot := mergedRoot th }) cs (some tid) := by
  refine CI_pop st st cs tid th _ c _ rest hCI htid hc hprog (not_tracked_act _ (by simp) (by simp) (by simp)) rfl rfl
    (fun _ => ⟨rfl, rfl⟩) (fun _ => ⟨rfl, rfl⟩) rfl rfl rfl rfl ⟨.ci, hstrip, ?_⟩
  obtain ⟨hct, hseen, hwr, hcur⟩ := hl
  refine ⟨hct, hseen, hwr, hcur, ?_, ?_⟩
  · show ((List.range th.curRoot.length).map _).length = th.curRoot.length
    simp
  · intro x hx
    show (x ∈ lockList th → getT ((List.range th.curRoot.length).map _) x = getT th.entries x) ∧
      (x ∉ lockList th → getT ((List.range th.curRoot.length).map _) x = getT th.curRoot x)
    rw [getT_map_range _ _ x hx]
    obtain ⟨hlk, hlen, hent, _⟩ := hwr
    constructor
    · intro hxl
      have h1 : x ∈ th.locked := (mem_locked_of th hlk x).2 hxl
      have h2 : x < th.entries.length := by rw [hlen]; exact (hent x hxl).1
      simp [h1, h2]
    · intro hxl
      have h1 : x ∉ th.locked := fun hm => hxl ((mem_locked_of th hlk x).1 hm)
      simp [h1]

theorem clr_eq (e : TableV) :
    (if e.initWatch ≠ 0 ∧ (!e.initPending) = true then { e with initWatch := 0 } else e) = clr e := rfl

theorem CI_collectInit (st : State) (cs : List Bool) (tid : Nat) (th : Thread) (c : Bool) (rest : List Micro)
    (hCI : CI (install st tid th) cs (some tid)) (htid : tid < st.threads.length) (hc : cs[tid]? = some c)
    (hprog : th.prog = .act .collectInit :: rest) (hp : strip2 th.prog = code2 (lockList th) c .ci)
    (hb : ∀ x ∈ lockList th, x < st.root.length)
    (hl : Loc st.root st.nextChan th c .ci)
    (hstrip : strip2 rest = code2 (lockList th) c .sr) :
    CI (install st tid { th with prog := rest, initToClose := collected th, newRoot := clearedRoot th })
      cs (some tid) := by
  obtain ⟨hct, hseen, hwr, hcur, hmg1, hmg2⟩ := hl
  have hsr : Micro.act .storeRoot ∈ th.prog := by
    have := (tracked_of_pos th _ c _ hp).2.1.2
    exact this rfl
  refine CI_pop st st cs tid th _ c _ rest hCI htid hc hprog (not_tracked_act _ (by simp) (by simp) (by simp)) rfl rfl
    (fun _ => ⟨rfl, rfl⟩) (fun h => absurd hsr h) rfl rfl rfl rfl ⟨.sr, hstrip, ?_⟩
  obtain ⟨hlk, hlen, hent, htn⟩ := hwr
  refine ⟨hct, hseen, ⟨hlk, hlen, hent, htn⟩, hcur, ⟨?_, ?_⟩, ?_⟩
  · show (th.newRoot.mapIdx _).length = th.curRoot.length
    simp [hmg1]
  · intro x hx
    show (x ∈ lockList th → getT (th.newRoot.mapIdx _) x = clr (getT th.entries x)) ∧
      (x ∉ lockList th → getT (th.newRoot.mapIdx _) x = getT th.curRoot x)
    rw [getT_mapIdx _ _ x (by rw [hmg1]; exact hx)]
    constructor
    · intro hxl
      have h1 : th.locked.contains x = true := by
        simp only [List.contains_iff_mem]; exact (mem_locked_of th hlk x).2 hxl
      rw [(hmg2 x hx).1 hxl]
      simp only [h1, true_and]
      exact clr_eq _
    · intro hxl
      have h1 : x ∉ th.locked := fun hm => hxl ((mem_locked_of th hlk x).1 hm)
      rw [(hmg2 x hx).2 hxl]
      simp [h1]
  · show th.locked.filterMap _ = toClose th.entries (dedup th.tables)
    rw [hlk]
    unfold toClose
    apply filterMap_congr'
    intro i hi
    have hil : i ∈ lockList th := (mem_lockList th i).2 ((mem_dedup i _).1 hi)
    have : getT th.newRoot i = getT th.entries i := (hmg2 i (by rw [hcur]; exact hb i hil)).1 hil
    simp only [this]

theorem CI_appendTable (st : State) (cs : List Bool) (tid : Nat) (th : Thread) (c : Bool) (rest : List Micro)
    (hCI : CI (install st tid th) cs (some tid)) (htid : tid < st.threads.length) (hc : cs[tid]? = some c)
    (hprog : th.prog = .act .appendTable :: rest) (hadj : adjOK th.prog = true)
    (hl : Loc st.root st.nextChan th c .gP)
    (hstrip : strip2 rest = code2 (lockList th) c .gS) :
    CI (install st tid { th with prog := rest, newRoot := th.curRoot ++ [{ watch := st.nextChan }] }) cs (some tid) := by
  refine CI_pop st st cs tid th _ c _ rest hCI htid hc hprog (not_tracked_act _ (by simp) (by simp) (by simp)) rfl rfl
    (fun _ => ⟨rfl, rfl⟩) (fun _ => ⟨rfl, rfl⟩) rfl rfl rfl rfl ⟨.gS, hstrip, ?_⟩
  rw [hprog] at hadj
  exact ⟨hl.1, hl.2.1, by show th.curRoot ++ _ = _; rw [hl.2.2], adjOK_head rest hadj⟩

/-! ### the user's writes: new private channels -/

theorem Loc_nc (root : List TableV) (nc nc' : Nat) (th : Thread) (c : Bool) (p : Pos2) (hp : p ≠ .gS)
    (h : Loc root nc th c p) : Loc root nc' th c p := by
  cases p <;> first | exact h | exact absurd rfl hp

/-- the channels allocated for table `x` lie in the range `[f x, f x + uwAlloc)` -/
theorem freshOf_range (th : Thread) (x n : Nat) (w : Nat)
    (he : getT th.entries x = uwEntry (th.regInit.contains x) (th.markInit.contains x) n (getT th.oldRoot x))
    (h : freshOf th x w) : n ≤ w ∧ w < n + uwAlloc (th.regInit.contains x) (getT th.oldRoot x) := by
  unfold freshOf at h
  rw [he] at h
  unfold uwEntry uwAlloc at *
  rcases h with h | ⟨h1, h2, h3⟩
  · simp only at h
    split <;> omega
  · simp only at h1
    split at h1
    · rename_i hc; rw [if_pos hc]; omega
    · omega

theorem CI_userWrites (st : State) (cs : List Bool) (tid : Nat) (th : Thread) (c : Bool) (rest : List Micro)
    (hCI : CI (install st tid th) cs (some tid)) (htid : tid < st.threads.length) (hc : cs[tid]? = some c)
    (hprog : th.prog = .userWrites :: rest) (hp : strip2 th.prog = code2 (lockList th) c .uw)
    (hb : ∀ x ∈ lockList th, x < st.root.length) (hadj : adjOK th.prog = true)
    (hl : Loc st.root st.nextChan th c .uw)
    (hstrip : strip2 rest = code2 (lockList th) c (afterWrites2 c)) :
    CI (install (doUserWrites st { th with prog := rest }).1 tid (doUserWrites st { th with prog := rest }).2)
      cs (some tid) := by
  obtain ⟨hseen, hent, hlk⟩ := hl
  have hnd : ({ th with prog := rest } : Thread).locked.Nodup := by
    show th.locked.Nodup; rw [hlk]; exact nodup_dedup _
  obtain ⟨⟨f, hf⟩, htn, hrec⟩ := doUserWrites_full st { th with prog := rest } hnd
  generalize hst' : (doUserWrites st { th with prog := rest }).1 = st' at *
  generalize hth' : (doUserWrites st { th with prog := rest }).2 = th' at *
  have e_prog : th'.prog = rest := by rw [hrec]
  have e_tab : th'.tables = th.tables := by rw [hrec]
  have e_old : th'.oldRoot = th.oldRoot := by rw [hrec]
  have e_reg : th'.regInit = th.regInit := by rw [hrec]
  have e_mark : th'.markInit = th.markInit := by rw [hrec]
  have e_lk : th'.locked = th.locked := by rw [hrec]
  have hL : lockList th' = lockList th := lockList_congr th th' e_tab
  have hown_old : (install st tid th).threads[tid]? = some th := by rw [install_get _ _ _ _ htid]; simp
  -- the new entries
  have hentry : ∀ x ∈ lockList th, x < th.oldRoot.length ∧
      st.nextChan ≤ f x ∧ f x + uwAlloc (th.regInit.contains x) (getT th.oldRoot x) ≤ st'.nextChan ∧
      getT th'.entries x = uwEntry (th.regInit.contains x) (th.markInit.contains x) (f x) (getT th.oldRoot x) := by
    intro x hx
    have hxl : x ∈ th.locked := (mem_locked_of th hlk x).2 hx
    have hxo := (hseen x hx).1
    obtain ⟨b1, b2⟩ := hf.bound x hxl
    have b3 := hf.entry x hxl (by show x < th.entries.length; rw [hent]; exact hxo)
    simp only [hent] at b1 b2 b3
    exact ⟨hxo, b1, b2, b3⟩
  -- every private channel of the thread after the writes is newly allocated
  have hsrIn : c = true → Micro.act .storeRoot ∈ rest := by
    intro hct
    rw [← mem_strip2 _ _ (by rfl), hstrip, hct]
    simp [afterWrites2, code2, csTail]
  have K : ∀ w, priv th' c w → st.nextChan ≤ w ∧ w < st'.nextChan := by
    intro w hw
    rcases hw with ⟨_, x, hx, hfx⟩ | ⟨h1, h2, _⟩ | ⟨h1, h2, _⟩
    · rw [hL] at hx
      obtain ⟨_, b1, b2, b3⟩ := hentry x hx
      have := freshOf_range th' x (f x) w (by rw [e_reg, e_mark, e_old]; exact b3) hfx
      rw [e_reg, e_old] at this
      omega
    · rw [e_prog] at h2; exact absurd (hsrIn h1) h2
    · rw [e_prog] at h2; exact absurd (hsrIn h1) h2
  have hroot := hf.root
  have hclosed := hf.closed
  refine CI_update st st' cs tid th th' c hCI htid hc hf.threads hf.mono (by rw [hroot]; exact Nat.le_refl _)
    ?_ ?_ ?_ ?_ ?_ ?_ ?_ ?_ ?_ ?_ ?_ ?_ ?_ ?_ ?_
  · intro w hw; rw [hroot] at hw; exact Or.inl hw
  · intro w hw; rw [hclosed] at hw; exact Or.inl hw
  · intro w hw; exact Or.inr (Or.inr (K w hw))
  · intro w hw; rw [hroot] at hw; rw [hclosed]; exact hCI.RC w hw
  · intro w hw hm
    rw [hclosed] at hm
    have := hCI.bC w hm
    have := (K w hw).1
    simp only [install] at *; omega
  · intro w hw hm
    rw [hroot] at hm
    have := hCI.bR w hm
    have := (K w hw).1
    simp only [install] at *; omega
  · rw [hroot]; exact hCI.RI
  · rw [hroot]; exact hCI.RW
  · rw [hroot]; exact hCI.IP
  · rw [hroot]; exact hCI.RV
  · intro _ x hx y hy hxy w fx fy
    rw [hL] at hx hy
    obtain ⟨_, _, _, bx⟩ := hentry x hx
    obtain ⟨_, _, _, by'⟩ := hentry y hy
    have rx := freshOf_range th' x (f x) w (by rw [e_reg, e_mark, e_old]; exact bx) fx
    have ry := freshOf_range th' y (f y) w (by rw [e_reg, e_mark, e_old]; exact by') fy
    rw [e_reg, e_old] at rx ry
    have := hf.apart x y ((mem_locked_of th hlk x).2 hx) ((mem_locked_of th hlk y).2 hy) hxy
    simp only [hent] at this
    omega
  · intro w hw hn; rw [hclosed] at hw; exact absurd hw hn
  · intro hct hsr
    have : Micro.act .storeRoot ∈ th.prog := by rw [hprog]; exact List.mem_cons_of_mem _ (hsrIn hct)
    exact absurd this hsr
  · refine ⟨by rw [hL, hroot]; exact hb, ?_, afterWrites2 c, by rw [e_prog, hL]; exact hstrip, ?_⟩
    · rw [e_prog]; rw [hprog] at hadj; exact adjOK_tail _ _ hadj
    · have hseen' : Seen st'.root th' := by
        intro x hx; rw [hL] at hx; rw [e_old, hroot]; exact hseen x hx
      have hwr : Wr th' := by
        refine ⟨by rw [e_lk, e_tab]; exact hlk, ?_, ?_, ?_⟩
        · rw [e_old, hf.len]; show th.entries.length = _; rw [hent]
        · intro x hx
          rw [hL] at hx
          obtain ⟨b0, _, _, b3⟩ := hentry x hx
          exact ⟨by rw [e_old]; exact b0, f x, by rw [e_reg, e_mark, e_old]; exact b3⟩
        · rw [htn, e_tab, e_old]
          show th.locked.map _ = _
          rw [hlk]
          show (dedup th.tables).map (fun x => (getT th.entries x).watch) = _
          rw [hent]
      cases c with
      | true => exact ⟨rfl, hseen', hwr⟩
      | false => exact ⟨hwr, fun h => by simp at h⟩
  · intro j thj cj p hj hthj hcj hpj hlj
    rw [hroot]
    apply Loc_nc _ _ _ _ _ _ ?_ hlj
    intro hp
    subst hp
    have hold : (install st tid th).threads[j]? = some thj := by rw [install_get _ _ _ _ htid, if_neg hj]; exact hthj
    exact hCI.RS j thj hold (by simpa using hj) hlj.2.2.2

/-! ### closing channels -/

theorem CI_notify (st : State) (cs : List Bool) (tid : Nat) (th : Thread) (c : Bool) (rest : List Micro)
    (hCI : CI (install st tid th) cs (some tid)) (htid : tid < st.threads.length) (hc : cs[tid]? = some c)
    (hprog : th.prog = .act .notify :: rest) (hp : strip2 th.prog = code2 (lockList th) c .nt)
    (hb : ∀ x ∈ lockList th, x < st.root.length) (hadj : adjOK th.prog = true)
    (hl : Loc st.root st.nextChan th c .nt)
    (hstrip : strip2 rest = code2 (lockList th) c (.rel 0)) :
    CI (install { st with closed := st.closed ++ th.toNotify } tid { th with prog := rest }) cs (some tid) := by
  obtain ⟨hct, hwr, hcii, hsto⟩ := hl
  subst hct
  obtain ⟨_, t2, t3, t4⟩ := tracked_of_pos th _ true _ hp
  obtain ⟨_, r2, r3, r4⟩ := tracked_of_pos { th with prog := rest } _ true _ hstrip
  have hsr : Micro.act .storeRoot ∉ th.prog := fun h => by have := t2.1 h; simp [srIn] at this
  have hnt : Micro.act .notify ∈ th.prog := t3.2 rfl
  have hcl : Micro.act .closeInit ∈ th.prog := t4.2 rfl
  have hsr' : Micro.act .storeRoot ∉ rest := fun h => by have := r2.1 h; simp [srIn] at this
  have hnt' : Micro.act .notify ∉ rest := fun h => by have := r3.1 h; simp [ntIn] at this
  have hown_old : (install st tid th).threads[tid]? = some th := by rw [install_get _ _ _ _ htid]; simp
  have pn : ∀ w, w ∈ th.toNotify → priv th true w := fun w hw => Or.inr (Or.inl ⟨rfl, hsr, hnt, hw⟩)
  have pc : ∀ w, w ∈ th.initToClose → priv th true w := fun w hw => Or.inr (Or.inr ⟨rfl, hsr, hcl, hw⟩)
  have p' : ∀ w, priv { th with prog := rest } true w → w ∈ th.initToClose := by
    intro w hw
    rcases hw with ⟨⟨_, h2⟩, _⟩ | ⟨_, _, h3, _⟩ | ⟨_, _, _, h4⟩
    · rcases h2 with h2 | h2
      · simp at h2
      · exact absurd h2 hsr'
    · exact absurd h3 hnt'
    · exact h4
  refine CI_update st _ cs tid th _ true hCI htid hc rfl (Nat.le_refl _) (Nat.le_refl _)
    ?_ ?_ ?_ ?_ ?_ ?_ hCI.RI hCI.RW hCI.IP hCI.RV ?_ ?_ ?_ ?_ ?_
  · intro w hw; exact Or.inl hw
  · intro w hw
    simp only [List.mem_append] at hw
    rcases hw with h | h
    · exact Or.inl h
    · exact Or.inr (pn w h)
  · intro w hw; exact Or.inr (Or.inl (pc w (p' w hw)))
  · intro w hw hm
    simp only [List.mem_append] at hm
    rcases hm with h | h
    · exact hCI.RC w hw h
    · exact hCI.PR tid th true w hown_old hc (pn w h) hw
  · intro w hw hm
    have hw' := p' w hw
    simp only [List.mem_append] at hm
    rcases hm with h | h
    · exact hCI.PC tid th true w hown_old hc (pc w hw') h
    · exact hcii.2 w h hw'
  · intro w hw; exact hCI.PR tid th true w hown_old hc (pc w (p' w hw))
  · intro ⟨_, h2⟩
    rcases h2 with h2 | h2
    · simp at h2
    · exact absurd h2 hsr'
  · intro w hw hn
    simp only [List.mem_append] at hw
    exact ⟨rfl, hsr', Or.inl ⟨hnt', hw.resolve_left hn⟩⟩
  · intro _ _
    exact ⟨hsr', fun hn => absurd hnt hn, fun hn h => hn (by rw [hprog]; exact List.mem_cons_of_mem _ h), rfl, rfl⟩
  · refine ⟨hb, ?_, .rel 0, hstrip, hwr, fun _ => ⟨hcii, ?_⟩⟩
    · rw [hprog] at hadj; exact adjOK_tail _ _ hadj
    · rw [List.drop_zero]; exact hsto
  · intro j thj cj p _ _ _ _ hlj; exact hlj

theorem CI_closeInit (st : State) (cs : List Bool) (tid : Nat) (th : Thread) (c : Bool) (rest : List Micro) (k : Nat)
    (hCI : CI (install st tid th) cs (some tid)) (htid : tid < st.threads.length) (hc : cs[tid]? = some c)
    (hprog : th.prog = .act .closeInit :: rest) (hp : strip2 th.prog = code2 (lockList th) c (.rel k))
    (hct : c = true)
    (hb : ∀ x ∈ lockList th, x < st.root.length) (hadj : adjOK th.prog = true)
    (hl : Loc st.root st.nextChan th c (.rel k))
    (hstrip : strip2 rest = code2 (lockList th) c .fin) :
    CI (install { st with closed := st.closed ++ th.initToClose } tid { th with prog := rest }) cs (some tid) := by
  subst hct
  obtain ⟨hwr, hrest⟩ := hl
  obtain ⟨hcii, _⟩ := hrest rfl
  obtain ⟨_, t2, t3, t4⟩ := tracked_of_pos th _ true _ hp
  obtain ⟨_, r2, r3, r4⟩ := tracked_of_pos { th with prog := rest } _ true _ hstrip
  have hsr : Micro.act .storeRoot ∉ th.prog := fun h => by have := t2.1 h; simp [srIn] at this
  have hnt : Micro.act .notify ∉ th.prog := fun h => by have := t3.1 h; simp [ntIn] at this
  have hcl : Micro.act .closeInit ∈ th.prog := t4.2 rfl
  have hsr' : Micro.act .storeRoot ∉ rest := fun h => by have := r2.1 h; simp [srIn] at this
  have hnt' : Micro.act .notify ∉ rest := fun h => by have := r3.1 h; simp [ntIn] at this
  have hcl' : Micro.act .closeInit ∉ rest := fun h => by have := r4.1 h; simp [clIn] at this
  have hown_old : (install st tid th).threads[tid]? = some th := by rw [install_get _ _ _ _ htid]; simp
  have pc : ∀ w, w ∈ th.initToClose → priv th true w := fun w hw => Or.inr (Or.inr ⟨rfl, hsr, hcl, hw⟩)
  have p' : ∀ w, ¬ priv { th with prog := rest } true w := by
    intro w hw
    rcases hw with ⟨⟨_, h2⟩, _⟩ | ⟨_, _, h3, _⟩ | ⟨_, _, h3, _⟩
    · rcases h2 with h2 | h2
      · simp at h2
      · exact absurd h2 hsr'
    · exact absurd h3 hnt'
    · exact absurd h3 hcl'
  refine CI_update st _ cs tid th _ true hCI htid hc rfl (Nat.le_refl _) (Nat.le_refl _)
    ?_ ?_ ?_ ?_ ?_ ?_ hCI.RI hCI.RW hCI.IP hCI.RV ?_ ?_ ?_ ?_ ?_
  · intro w hw; exact Or.inl hw
  · intro w hw
    simp only [List.mem_append] at hw
    rcases hw with h | h
    · exact Or.inl h
    · exact Or.inr (pc w h)
  · intro w hw; exact absurd hw (p' w)
  · intro w hw hm
    simp only [List.mem_append] at hm
    rcases hm with h | h
    · exact hCI.RC w hw h
    · exact hCI.PR tid th true w hown_old hc (pc w h) hw
  · intro w hw; exact absurd hw (p' w)
  · intro w hw; exact absurd hw (p' w)
  · intro ⟨_, h2⟩
    rcases h2 with h2 | h2
    · simp at h2
    · exact absurd h2 hsr'
  · intro w hw hn
    simp only [List.mem_append] at hw
    exact ⟨rfl, hsr', Or.inr ⟨hcl', hw.resolve_left hn⟩⟩
  · intro _ _
    exact ⟨hsr', fun _ => hnt', fun hn => absurd hcl hn, rfl, rfl⟩
  · refine ⟨hb, ?_, .fin, hstrip, rfl, hwr, hcii⟩
    rw [hprog] at hadj; exact adjOK_tail _ _ hadj
  · intro j thj cj p _ _ _ _ hlj; exact hlj

end Sdb.Conc
