import SdbModel.Lemmas.ChgTableInv

/-! Graveyard collection (`gcScan` / `gcApply`) and the invisibility of retained objects:
    helper lemmas for C08 over `Model.Table`. -/
namespace Sdb.Chg
open Sdb.Tbl Sdb.Tbl.OMap OMap

/-! ### the collector's scan -/

/-- the low watermark of a table: its revision, lowered by every registered tracker -/
def lowWatermark (db : DB) (t : TableS) : Nat :=
  t.trackers.foldl (fun lw id => min lw (db.trackerRevOf id)) t.rev

/-- the revision keys the scan selects in one table -/
def scanKeys (db : DB) (t : TableS) : List Key :=
  (t.graveRev.takeWhile fun (_, o) => o.rev ≤ lowWatermark db t).map (·.1)

theorem gcScan_eq (db : DB) :
    gcScan db = (db.root.mapIdx fun i t => (i, scanKeys db t)).filter fun (_, ks) => !ks.isEmpty := rfl

private theorem foldl_min_le (f : Nat → Nat) (l : List Nat) (a : Nat) :
    l.foldl (fun lw id => min lw (f id)) a ≤ a ∧ ∀ id ∈ l, l.foldl (fun lw id => min lw (f id)) a ≤ f id := by
  induction l generalizing a with
  | nil => simp
  | cons x r ih =>
    simp only [List.foldl_cons, List.mem_cons]
    have := ih (min a (f x))
    refine ⟨by omega, ?_⟩
    rintro id (e | hm)
    · subst e; omega
    · exact this.2 id hm

private theorem foldl_min_eq (f : Nat → Nat) (l : List Nat) (a : Nat) (h : ∀ id ∈ l, a ≤ f id) :
    l.foldl (fun lw id => min lw (f id)) a = a := by
  induction l generalizing a with
  | nil => rfl
  | cons x r ih =>
    simp only [List.foldl_cons]
    have : min a (f x) = a := by have := h x (List.mem_cons_self ..); omega
    rw [this]
    exact ih a fun id hid => h id (List.mem_cons_of_mem _ hid)

theorem lowWatermark_le_rev (db : DB) (t : TableS) : lowWatermark db t ≤ t.rev :=
  (foldl_min_le _ _ _).1

theorem lowWatermark_le_tracker (db : DB) (t : TableS) (id : Nat) (h : id ∈ t.trackers) :
    lowWatermark db t ≤ db.trackerRevOf id := (foldl_min_le _ _ _).2 id h

theorem lowWatermark_eq_rev (db : DB) (t : TableS) (h : ∀ id ∈ t.trackers, t.rev ≤ db.trackerRevOf id) :
    lowWatermark db t = t.rev := foldl_min_eq _ _ _ h

private theorem takeWhile_mem_p {α : Type} (p : α → Bool) (l : List α) (a : α) (h : a ∈ l.takeWhile p) : p a = true := by
  have := List.all_takeWhile (l := l) (p := p)
  rw [List.all_eq_true] at this
  exact this a h

private theorem takeWhile_eq_self {α : Type} (p : α → Bool) (l : List α) (h : ∀ a ∈ l, p a = true) :
    l.takeWhile p = l := by
  induction l with
  | nil => rfl
  | cons a r ih =>
    rw [List.takeWhile_cons_of_pos (h a (List.mem_cons_self ..)), ih fun b hb => h b (List.mem_cons_of_mem _ hb)]

/-- the scan only selects graveyard entries at or below the low watermark -/
theorem mem_scanKeys (db : DB) (t : TableS) (k : Key) (hk : k ∈ scanKeys db t) :
    ∃ o, (k, o) ∈ t.graveRev ∧ o.rev ≤ lowWatermark db t := by
  unfold scanKeys at hk
  simp only [List.mem_map] at hk
  obtain ⟨⟨k', o⟩, hm, e⟩ := hk
  simp only at e; subst e
  refine ⟨o, (List.takeWhile_sublist _).subset hm, ?_⟩
  have := takeWhile_mem_p _ _ _ hm
  simpa using this

/-- if the whole graveyard is at or below the low watermark, the scan selects all of it -/
theorem scanKeys_all (db : DB) (t : TableS) (h : ∀ k o, (k, o) ∈ t.graveRev → o.rev ≤ lowWatermark db t) :
    scanKeys db t = t.graveRev.map (·.1) := by
  unfold scanKeys
  congr 1
  apply takeWhile_eq_self
  rintro ⟨k, o⟩ hm
  simpa using h k o hm

private theorem deadKeys_mapIdx (g : TableS → List Key) (hg : g default = []) (l : List TableS) (off i : Nat) :
    deadKeys ((l.mapIdx fun j t => (j + off, g t)).filter fun (_, ks) => !ks.isEmpty) (i + off) =
      g (l.getD i default) := by
  induction l generalizing off i with
  | nil => simp [deadKeys, hg]
  | cons a l ih =>
    rw [List.mapIdx_cons]
    have hrest : (l.mapIdx fun j t => (j + 1 + off, g t)) = (l.mapIdx fun j t => (j + (off + 1), g t)) := by
      congr 1; funext j t; congr 1; omega
    cases i with
    | zero =>
      simp only [Nat.zero_add, List.getD_cons_zero]
      by_cases hga : (g a).isEmpty
      · rw [List.filter_cons_of_neg (by simpa using hga)]
        have hnone : List.find? (fun x : Nat × List Key => decide (x.1 = off))
            ((l.mapIdx fun j t => (j + 1 + off, g t)).filter fun (_, ks) => !ks.isEmpty) = none := by
          rw [List.find?_eq_none]
          intro p hp
          have hp' := (List.mem_filter.mp hp).1
          rw [List.mem_mapIdx] at hp'
          obtain ⟨j, _, e⟩ := hp'
          rw [← e]; simp
        unfold deadKeys
        rw [hnone]
        simp only
        exact (List.isEmpty_iff.mp hga).symm
      · rw [List.filter_cons_of_pos (by simpa using hga)]
        simp [deadKeys]
    | succ i =>
      simp only [List.getD_cons_succ]
      have hskip : ∀ rest : List (Nat × List Key),
          deadKeys (((0 + off, g a) :: rest).filter fun (_, ks) => !ks.isEmpty) (i + 1 + off) =
          deadKeys (rest.filter fun (_, ks) => !ks.isEmpty) (i + 1 + off) := by
        intro rest
        by_cases hga : (g a).isEmpty
        · rw [List.filter_cons_of_neg (by simpa using hga)]
        · rw [List.filter_cons_of_pos (by simpa using hga)]
          unfold deadKeys
          rw [List.find?_cons_of_neg]
          simp
      rw [hskip, hrest]
      have := ih (off + 1) i
      rw [show i + (off + 1) = i + 1 + off by omega] at this
      exact this

/-- the keys `gcApply db (gcScan db)` applies to table `i` are that table's scan result -/
theorem deadKeys_gcScan (db : DB) (i : Nat) :
    deadKeys (gcScan db) i = scanKeys db (db.root.getD i default) := by
  have := deadKeys_mapIdx (scanKeys db) (by simp [scanKeys, default, instInhabitedTableS.default]) db.root 0 i
  simpa [gcScan_eq] using this

private theorem le_foldl_min (f : Nat → Nat) (l : List Nat) (a x : Nat) (h1 : x ≤ a) (h2 : ∀ id ∈ l, x ≤ f id) :
    x ≤ l.foldl (fun lw id => min lw (f id)) a := by
  induction l generalizing a with
  | nil => exact h1
  | cons y r ih =>
    simp only [List.foldl_cons]
    refine ih _ ?_ (fun id hid => h2 id (List.mem_cons_of_mem _ hid))
    have := h2 y (List.mem_cons_self ..)
    omega

theorem le_lowWatermark (db : DB) (t : TableS) (x : Nat) (h1 : x ≤ t.rev)
    (h2 : ∀ id ∈ t.trackers, x ≤ db.trackerRevOf id) : x ≤ lowWatermark db t :=
  le_foldl_min _ _ _ _ h1 h2

/-- **retention at the scan**: an object some registered tracker has not passed is not selected -/
theorem scanKeys_retains {t : TableS} (h : TInv t) (db : DB) (k : Key) (o : Obj) (hm : (k, o) ∈ t.graveRev)
    (id : Nat) (hid : id ∈ t.trackers) (hlt : db.trackerRevOf id < o.rev) : k ∉ scanKeys db t := by
  intro hk
  obtain ⟨o', hm', hle⟩ := mem_scanKeys db t k hk
  have := h.grS.unique hm hm'
  subst this
  have := lowWatermark_le_tracker db t id hid
  omega

theorem getD_mapIdx_tables (l : List TableS) (f : Nat → TableS → TableS) (i : Nat) (hf : f i default = default) :
    (l.mapIdx f).getD i default = f i (l.getD i default) := by
  simp only [List.getD_eq_getElem?_getD, List.getElem?_mapIdx]
  cases l[i]? with
  | none => simp [hf]
  | some a => simp

theorem gcTable_default (ks : List Key) : gcTable default ks = default := by
  induction ks with
  | nil => rfl
  | cons k r ih =>
    simp only [gcTable, List.foldl_cons] at ih ⊢
    have : gcStep default k = default := by
      simp [gcStep, default, instInhabitedTableS.default, OMap.get]
    rw [this]; exact ih

/-- table `i` after the collector's write transaction -/
theorem gcApply_getD (db : DB) (dead : List (Nat × List Key)) (i : Nat) :
    (gcApply db dead).root.getD i default = gcTable (db.root.getD i default) (deadKeys dead i) := by
  rw [gcApply_root]
  exact getD_mapIdx_tables _ _ _ (gcTable_default _)

/-- a collection run empties the graveyard of a table once every registered tracker has passed every
    retained object (in particular when there is no tracker, or when all trackers are at the table revision) -/
theorem gcTable_scan_empties {t : TableS} (h : TInv t) (db : DB)
    (hall : ∀ k o, (k, o) ∈ t.graveRev → ∀ id ∈ t.trackers, o.rev ≤ db.trackerRevOf id) :
    (gcTable t (scanKeys db t)).grave = [] ∧ (gcTable t (scanKeys db t)).graveRev = [] := by
  have hkeys : scanKeys db t = t.graveRev.map (·.1) :=
    scanKeys_all db t fun k o hm => le_lowWatermark db t _ (h.grK _ _ hm).2 (hall k o hm)
  obtain ⟨m1, m2⟩ := gcTable_mem h (scanKeys db t)
  constructor
  · rw [List.eq_nil_iff_forall_not_mem]
    rintro ⟨k, x⟩ hx
    obtain ⟨hx', hn⟩ := (m2 k x).mp hx
    apply hn
    rw [hkeys, List.mem_map]
    have hid := h.gK _ _ hx'
    exact ⟨(revKey x.rev, x), (h.gg x).mp (hid ▸ hx'), rfl⟩
  · rw [List.eq_nil_iff_forall_not_mem]
    rintro ⟨k, x⟩ hx
    obtain ⟨hx', hn⟩ := (m1 k x).mp hx
    apply hn
    rw [hkeys, List.mem_map]
    exact ⟨(k, x), hx', rfl⟩

/-- with no registered tracker `delete` retains nothing -/
theorem delete_no_tracker (t : TableS) (g : Nat) (id : Key) (h : t.trackers = []) :
    (delete t g id).1.grave = t.grave ∧ (delete t g id).1.graveRev = t.graveRev := by
  rcases delete_spec t g id with e | ⟨_, _, old, _, _, _, _, _, hg, hgr, _⟩
  · rw [e]; exact ⟨rfl, rfl⟩
  · rw [hg, hgr, h]; simp

/-! ### retained objects are invisible -/

private theorem nodup_objs (m : OMap Obj) (key : Obj → Key) (hS : Sorted m) (hK : ∀ k o, (k, o) ∈ m → k = key o) :
    (m.map (·.2)).Nodup := by
  unfold List.Nodup
  rw [List.pairwise_map]
  refine List.Pairwise.imp_of_mem ?_ hS
  rintro ⟨k1, o1⟩ ⟨k2, o2⟩ h1 h2 hlt e
  simp only at e hlt
  subst e
  rw [hK _ _ h1, hK _ _ h2] at hlt
  exact cmpL_lt_irrefl _ hlt

/-- the live objects listed by the primary index and by the revision index are the same -/
theorem live_perm {t : TableS} (h : TInv t) : (t.primary.map (·.2)).Perm (t.revIdx.map (·.2)) := by
  rw [List.perm_ext_iff_of_nodup (nodup_objs _ (·.id) h.pS h.pK)
    (nodup_objs _ (fun o => revKey o.rev) h.rS fun k o hm => (h.rK k o hm).1)]
  intro o
  simp only [List.mem_map, Prod.exists, exists_eq_right]
  constructor
  · rintro ⟨k, hm⟩
    have hk := h.pK _ _ hm
    exact ⟨_, (h.pr o).mp (hk ▸ hm)⟩
  · rintro ⟨k, hm⟩
    have hk := (h.rK _ _ hm).1
    exact ⟨_, (h.pr o).mpr (hk ▸ hm)⟩

/-- `NumObjects` counts exactly the live objects (`All`) -/
theorem numObjects_eq_all {t : TableS} (h : TInv t) : numObjects t = (qAll t).length := by
  unfold numObjects qAll
  have := (live_perm h).length_eq
  simpa using this.symm

/-- a retained (deleted) object is not found by primary key, is not listed by `All`, and its
    graveyard revision is not in the revision index -/
theorem grave_invisible {t : TableS} (h : TInv t) (k : Key) (g : Obj) (hg : (k, g) ∈ t.grave) :
    qGet t .id k 0 = none ∧ (∀ o ∈ qAll t, o.id ≠ k) ∧ qGet t .rev (revKey g.rev) 0 = none := by
  refine ⟨?_, ?_, ?_⟩
  · simp only [qGet]
    exact (get_eq_none_iff h.pS _).mpr fun v hv => h.disj _ _ _ hg hv
  · intro o ho e
    simp only [qAll, List.mem_map, Prod.exists, exists_eq_right] at ho
    obtain ⟨k', hm⟩ := ho
    have := h.pK _ _ hm
    rw [this, e] at hm
    exact h.disj _ _ _ hg hm
  · simp only [qGet]
    have hk := h.gK _ _ hg
    have hgr := (h.gg g).mp (hk ▸ hg)
    exact (get_eq_none_iff h.rS _).mpr fun v hv => h.rdisj _ _ _ hgr hv
end Sdb.Chg
