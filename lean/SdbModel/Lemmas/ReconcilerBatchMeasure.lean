import SdbModel.Lemmas.ReconcilerBatchTimer

/-!
  Lemmas.ReconcilerBatchMeasure — once nothing fails any more, every triggered
  BATCH round strictly decreases the measure `Mz` of `Lemmas.ReconcilerMeasure`,
  so `quiesceB` goes idle; a batch round that finds no changes is the single round.
-/
namespace Sdb.Rec

theorem m1_k (r : R) (k : Nat) : M1 r k = M1 r 0 + k := by unfold M1; omega

/-! ## the collecting loop -/

theorem m1_readD {x : R} (c : Change) (hd : (c.obj, c.rev) ∈ x.dels) (hgt : c.rev > x.itDelRev) (k : Nat) :
    M1 (readD x c) k + 1 ≤ M1 x k := by
  unfold readD M1 mObjs mDels
  simp only [retryClear_objs, retryClear_dels, retryClear_itRev, retryClear_itDelRev, retryClear_items]
  have h1 := length_filter_succ_le x.dels (fun d => decide (d.2 > c.rev)) (fun d => decide (d.2 > x.itDelRev))
    (fun y _ hy => by simp only [decide_eq_true_eq] at hy ⊢; omega) (c.obj, c.rev) hd (by simp) (by simpa using hgt)
  have h2 : (x.items.filter (·.id ≠ c.obj.id)).length ≤ x.items.length := List.length_filter_le _ _
  omega

theorem m1_readU {x : R} (c : Change) (ho : c.obj ∈ x.objs) (hn : needs c.obj.kind) (hrev : c.rev = c.obj.rev)
    (hgt : c.rev > x.itRev) (k : Nat) : M1 (readU x c) (k + 1) + 1 ≤ M1 x k := by
  unfold readU M1 mObjs mDels
  simp only [retryClear_objs, retryClear_dels, retryClear_itRev, retryClear_itDelRev, retryClear_items]
  have h1 := sum_map_add_le x.objs (wObj c.rev) (wObj x.itRev) (fun y _ => wObj_mono (by omega) y) c.obj ho 2 (by
    unfold wObj
    rw [if_neg (by omega), if_pos (by omega), if_pos hn]; exact Nat.le_refl _)
  have h2 : (x.items.filter (·.id ≠ c.obj.id)).length ≤ x.items.length := List.length_filter_le _ _
  omega

theorem m1_skipB {x : R} (c : Change) (ho : c.obj ∈ x.objs) (hn : ¬ needs c.obj.kind) (hrev : c.rev = c.obj.rev)
    (hgt : c.rev > x.itRev) (k : Nat) : M1 ({ x with itRev := c.rev } : R) k + 1 ≤ M1 x k := by
  have := m1_skip (r := x) c ho hn hrev hgt
  unfold M1r at this
  have e : ({ x with itRev := c.rev } : R).results = x.results := rfl
  rw [e, m1_k _ x.results.length, m1_k x x.results.length] at this
  rw [m1_k _ k, m1_k x k]
  omega

/-- the collecting loop never increases the measure (each collected update counted 1, like a
    result waiting to be committed) and decreases it when there is a change -/
theorem m1_consumeB (cs : List Change) {x : R} (last : Nat) (ds us : List BEntry) (hch : ChOK x [] cs) :
    M1 (x.consumeB cs last ds us).1 (x.consumeB cs last ds us).2.2.2.2.length ≤ M1 x us.length ∧
    (cs ≠ [] → M1 (x.consumeB cs last ds us).1 (x.consumeB cs last ds us).2.2.2.2.length + 1 ≤ M1 x us.length) := by
  induction cs generalizing x last ds us with
  | nil => rw [consumeB_nil]; exact ⟨Nat.le_refl _, fun e => absurd rfl e⟩
  | cons c cs ih =>
    cases hc : c.deleted with
    | true =>
      obtain ⟨hd, hgt⟩ := hch.del c (List.mem_cons_self ..) hc
      obtain ⟨f0, _, _, f3, f4, _⟩ := readD_frame x c
      have hm := m1_readD c hd hgt us.length
      rw [consumeB_del _ _ _ _ _ _ hc]
      split
      · exact ⟨by dsimp only; omega, fun _ => hm⟩
      · obtain ⟨a, _⟩ := ih c.rev (ds ++ [(c.obj, c.rev)]) us (hch.tail_del hc f0.objs f0.dels f3 f4)
        exact ⟨by omega, fun _ => by omega⟩
    | false =>
      obtain ⟨ho, hrev, hgt⟩ := hch.upd c (List.mem_cons_self ..) hc
      by_cases hn : needs c.obj.kind
      · obtain ⟨f0, _, _, f3, f4, _⟩ := readU_frame x c
        have hm := m1_readU c ho hn hrev hgt us.length
        rw [consumeB_upd _ _ _ _ _ _ hc hn]
        split
        · exact ⟨by simp only [List.length_append, List.length_singleton]; omega,
            fun _ => by simp only [List.length_append, List.length_singleton]; omega⟩
        · obtain ⟨a, _⟩ := ih c.rev ds (us ++ [(c.obj, c.rev)]) (hch.tail_upd hc f0.objs f0.dels f3 f4 (fun res hres => Or.inl hres))
          simp only [List.length_append, List.length_singleton] at a
          exact ⟨by omega, fun _ => by omega⟩
      · have hm := m1_skipB c ho hn hrev hgt us.length
        rw [consumeB_skip _ _ _ _ _ _ hc hn]
        obtain ⟨a, _⟩ := ih c.rev ds us (x := { x with itRev := c.rev }) (hch.tail_upd hc rfl rfl rfl rfl (fun res hres => Or.inl hres))
        exact ⟨by omega, fun _ => by omega⟩

/-! ## the batch operations when nothing fails -/

theorem stepD_nofail (x : R) (e : BEntry) : stepD [] x e = { x with log := x.log ++ [⟨"D", e.1.id, e.1.data, true⟩] } := by
  unfold stepD; simp

theorem foldl_stepD_nofail (dl : List BEntry) (x : R) :
    M1 (dl.foldl (stepD []) x) 0 = M1 x 0 ∧ (dl.foldl (stepD []) x).results = x.results ∧
    (dl.foldl (stepD []) x).failing = x.failing ∧ (dl.foldl (stepD []) x).injects = x.injects := by
  induction dl generalizing x with
  | nil => exact ⟨rfl, rfl, rfl, rfl⟩
  | cons e dl ih =>
    rw [List.foldl_cons, stepD_nofail]
    exact ih _

theorem stepU_nofail (x : R) (e : BEntry) :
    M1 (stepU [] x e) 0 ≤ M1 x 0 ∧ (stepU [] x e).results = x.results ++ [(e.1, e.1, e.2, e.1.sid, false)] := by
  have e1 : stepU [] x e = { R.retryClear { x with log := x.log ++ [⟨"U", e.1.id, e.1.data, true⟩] } e.1.id with
      results := x.results ++ [(e.1, e.1, e.2, e.1.sid, false)] } := by
    unfold stepU; simp
  rw [e1]
  refine ⟨?_, rfl⟩
  unfold M1 mObjs mDels
  simp only [retryClear_objs, retryClear_dels, retryClear_itRev, retryClear_itDelRev, retryClear_items]
  have h2 : (x.items.filter (·.id ≠ e.1.id)).length ≤ x.items.length := List.length_filter_le _ _
  omega

theorem foldl_stepU_nofail (ul : List BEntry) (x : R) :
    M1 (ul.foldl (stepU []) x) 0 ≤ M1 x 0 ∧ (ul.foldl (stepU []) x).results.length = x.results.length + ul.length ∧
    (∀ res ∈ (ul.foldl (stepU []) x).results, res ∈ x.results ∨ res.2.2.2.2 = false) := by
  induction ul generalizing x with
  | nil => exact ⟨Nat.le_refl _, rfl, fun res hr => Or.inl hr⟩
  | cons e ul ih =>
    rw [List.foldl_cons]
    obtain ⟨a, b⟩ := stepU_nofail x e
    obtain ⟨c1, c2, c3⟩ := ih (stepU [] x e)
    refine ⟨by omega, ?_, fun res hr => ?_⟩
    · rw [c2, b]; simp only [List.length_append, List.length_cons, List.length_nil]; omega
    · rcases c3 res hr with h | h
      · rw [b] at h
        rcases List.mem_append.1 h with h | h
        · exact Or.inl h
        · simp only [List.mem_singleton] at h
          rw [h]; exact Or.inr rfl
      · exact Or.inr h

theorem consumeB_frame (cs : List Change) (x : R) (last : Nat) (ds us : List BEntry) :
    FrameC x (x.consumeB cs last ds us).1 ∧ (x.consumeB cs last ds us).1.results = x.results := by
  induction cs generalizing x last ds us with
  | nil => rw [consumeB_nil]; exact ⟨FrameC.refl x, rfl⟩
  | cons c cs ih =>
    cases hc : c.deleted with
    | true =>
      obtain ⟨f0, _, f2, _⟩ := readD_frame x c
      rw [consumeB_del _ _ _ _ _ _ hc]
      split
      · exact ⟨f0, f2⟩
      · exact ⟨f0.trans (ih _ _ _ _).1, (ih _ _ _ _).2.trans f2⟩
    | false =>
      by_cases hn : needs c.obj.kind
      · obtain ⟨f0, _, f2, _⟩ := readU_frame x c
        rw [consumeB_upd _ _ _ _ _ _ hc hn]
        split
        · exact ⟨f0, f2⟩
        · exact ⟨f0.trans (ih _ _ _ _).1, (ih _ _ _ _).2.trans f2⟩
      · rw [consumeB_skip _ _ _ _ _ _ hc hn]
        have f0 : FrameC x { x with itRev := c.rev } := ⟨rfl, rfl, rfl, rfl, rfl, rfl, rfl, rfl, rfl⟩
        exact ⟨f0.trans (ih _ _ _ _).1, (ih _ _ _ _).2⟩

/-- the batch phase of a round never increases the measure and decreases it when there is a change -/
theorem m1_batch_phase {n : R} {cs : List Change} (hres : n.results = []) (hinj : n.injects = []) (hf : n.failing = [])
    (hch : ChOK n [] cs) (last : Nat) (pend : Option (List Change)) :
    M1r (batchOps (n.consumeB cs last [] []) pend) ≤ M1 n 0 ∧
    (cs ≠ [] → M1r (batchOps (n.consumeB cs last [] []) pend) + 1 ≤ M1 n 0) ∧
    (∀ res ∈ (batchOps (n.consumeB cs last [] []) pend).results, res.2.2.2.2 = false) := by
  obtain ⟨hm1, hm2⟩ := m1_consumeB cs last [] [] hch
  obtain ⟨f0, fr⟩ := consumeB_frame cs n last [] []
  generalize n.consumeB cs last [] [] = co at hm1 hm2 f0 fr ⊢
  obtain ⟨b, rest, lst, ds, us⟩ := co
  simp only [List.length_nil] at hm1 hm2 f0 fr
  unfold batchOps
  simp only
  have hfb : ({ b with pending := pend } : R).failing = [] := f0.failing.trans hf
  have hib : ({ b with pending := pend } : R).injects = [] := f0.injects.trans hinj
  have hrb : ({ b with pending := pend } : R).results = [] := fr.trans hres
  have hmb : M1 ({ b with pending := pend } : R) 0 = M1 b 0 := rfl
  generalize ({ b with pending := pend } : R) = xb at hfb hib hrb hmb
  rw [deleteBatch_eq, hfb]
  obtain ⟨d1, d2, d3, d4⟩ := foldl_stepD_nofail ds xb
  generalize ds.foldl (stepD []) xb = xd at d1 d2 d3 d4
  rw [updateBatch_eq _ _ (d4.trans hib), d3.trans hfb]
  obtain ⟨u1, u2, u3⟩ := foldl_stepU_nofail us xd
  generalize us.foldl (stepU []) xd = xu at u1 u2 u3
  rw [d2, hrb] at u2 u3
  simp only [List.length_nil, Nat.zero_add] at u2
  have e1 : M1r xu = M1 xu 0 + us.length := by unfold M1r; rw [u2, m1_k]
  have e2 := m1_k b us.length
  refine ⟨by omega, fun hne => by have := hm2 hne; omega, fun res hr => ?_⟩
  rcases u3 res hr with h | h
  · cases h
  · exact h

/-! ## one batch round -/

/-- a batch round that finds no changes (it only processes retries) is the single round -/
theorem roundB_eq_round_of_nil (r : R) (h : r.nextChanges.2 = []) : r.roundB = r.round := by
  rw [roundB_eq', round_eq', h, consumeB_nil, consume_nil]
  rfl

/-- **once nothing fails, every triggered batch round strictly decreases the measure** -/
theorem mz_roundB {P : Nat → Prop} {r : R} (hr : RInv r) (hq : QInv P r) (hf : r.failing = [])
    (hrs : 1 ≤ r.cfg.roundSize) (htr : r.triggered = true) : Mz r.roundB < Mz r := by
  cases hcs : r.nextChanges.2 with
  | nil => rw [roundB_eq_round_of_nil r hcs]; exact mz_round hr hq hf hrs htr
  | cons c cs =>
    have hM0 : M1r r = M1 r 0 := by unfold M1r; rw [hr.res]; rfl
    have hnc : InvL r.nextChanges.1 [] ∧ r.nextChanges.1.results = [] ∧ M1 r.nextChanges.1 0 = M1 r 0 ∧
        r.nextChanges.1.failing = [] := by
      rcases nextChanges_fst r with e | e <;> rw [e]
      · exact ⟨hr.inv, hr.res, rfl, hf⟩
      · exact ⟨hr.inv.set_refreshedAt _ (Nat.le_refl _), hr.res, rfl, hf⟩
    have hch := chOK_nextChanges hr.inv.tinv hr.sync
    obtain ⟨hI1, hres1, hM1, hf1⟩ := hnc
    obtain ⟨hI3, hcu3, _, _, _, e3⟩ := hr.roundB_mid
    obtain ⟨_, hm2, hfl2⟩ := m1_batch_phase hres1 hI1.noinj hf1 hch 0
      (pendAfter r.nextChanges.2 (r.nextChanges.1.consumeB r.nextChanges.2 0 [] []))
    have hm2 := hm2 (by rw [hcs]; simp)
    rw [roundB_eq']
    generalize batchOps (r.nextChanges.1.consumeB r.nextChanges.2 0 [] [])
      (pendAfter r.nextChanges.2 (r.nextChanges.1.consumeB r.nextChanges.2 0 [] [])) = x3 at hI3 hcu3 e3 hm2 hfl2
    have hm3 := (m1_roundTail (r.nextChanges.1.consumeB r.nextChanges.2 0 [] []).2.2.1 hI3 hcu3 (e3.trans hf) hfl2).1
    have := mz_le (roundTail x3 (r.nextChanges.1.consumeB r.nextChanges.2 0 [] []).2.2.1)
    have : 3 * M1 r 0 ≤ Mz r := by unfold Mz; omega
    omega

theorem SInv.roundB_cfg {B : Nat} {r : R} (h : SInv B r) : r.roundB.cfg = r.cfg :=
  (h.q.roundB h.rinv (fun e => absurd h.nofail e)).2.2.1

theorem SInv.quiesceB_cfg {B : Nat} {r : R} (h : SInv B r) (fuel : Nat) : (r.quiesceB fuel).cfg = r.cfg := by
  induction fuel generalizing r with
  | zero => rfl
  | succ n ih =>
    unfold R.quiesceB
    simp only
    obtain ⟨h1, _⟩ := h.fireTimer
    have hcfg1 : r.fireTimer.cfg = r.cfg := (fireTimer_frame r).2.2.2.2
    split
    · obtain ⟨h2, _⟩ := h1.roundB
      rw [ih h2, h1.roundB_cfg, hcfg1]
    · exact hcfg1

/-- **the batch loop goes idle**: once nothing fails, `quiesceB` with fuel beyond the measure ends in an idle state -/
theorem SInv.quiesceB_idle {B : Nat} {r : R} (h : SInv B r) (hrs : 1 ≤ r.cfg.roundSize) (fuel : Nat) (hfuel : Mz r < fuel) :
    (r.quiesceB fuel).triggered = false ∧ Mz (r.quiesceB fuel) ≤ Mz r ∧
    (r.fireTimer.triggered = true → Mz (r.quiesceB fuel) < Mz r) := by
  induction fuel generalizing r with
  | zero => omega
  | succ n ih =>
    unfold R.quiesceB
    simp only
    obtain ⟨h1, _⟩ := h.fireTimer
    have hcfg1 : r.fireTimer.cfg = r.cfg := (fireTimer_frame r).2.2.2.2
    have hm1 := fireTimer_mz r
    split
    · rename_i htr
      have hlt := mz_roundB h1.rinv h1.q h1.nofail (by rw [hcfg1]; exact hrs) htr
      obtain ⟨h2, _⟩ := h1.roundB
      have := ih h2 (by rw [h1.roundB_cfg, hcfg1]; exact hrs) (by omega)
      exact ⟨this.1, by omega, fun _ => by omega⟩
    · rename_i htr
      exact ⟨by simpa using htr, by omega, fun e => absurd e htr⟩

/-- **`advanceB` ends idle** when the measure fits the fuels -/
theorem SInv.advanceB_idle {B : Nat} {r : R} (h : SInv B r) (hrs : 1 ≤ r.cfg.roundSize) (hidle : r.triggered = false)
    (ms fuel : Nat) (h64 : Mz r < 64) (hfuel : Mz r < fuel) : (r.advanceB ms fuel).triggered = false := by
  induction fuel generalizing r ms with
  | zero => omega
  | succ n ih =>
    obtain ⟨_, _, _, harm⟩ := not_triggered hidle
    unfold R.advanceB
    simp only
    split
    · rename_i t htm
      have hlt := harm t htm
      split
      · rename_i hle
        have h0 : SInv B { r with now := max t r.now } := h.setNow _ (by omega)
        have hq := h0.quiesceB_idle (r := { r with now := max t r.now }) hrs 64 h64
        obtain ⟨h1, e1⟩ := h0.quiesceB 64
        have hcfg : (R.quiesceB { r with now := max t r.now } 64).cfg = r.cfg := h0.quiesceB_cfg 64
        have htrig : (R.fireTimer { r with now := max t r.now }).triggered = true := by
          unfold R.fireTimer R.triggered
          simp only [htm]
          have : t ≤ max t r.now := by omega
          simp [this]
        have hm : Mz (R.quiesceB { r with now := max t r.now } 64) < Mz r := hq.2.2 htrig
        exact ih h1 (by rw [hcfg]; exact hrs) hq.1 _ (by omega) (by omega)
      · exact triggered_setNow _ hidle (fun u hu => by rw [htm] at hu; cases hu; omega)
    · rename_i hna
      exact triggered_setNow _ hidle (fun u hu => absurd hu (hna u))

end Sdb.Rec
