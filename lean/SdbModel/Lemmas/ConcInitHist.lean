import SdbModel.Lemmas.ConcInitOrder

/-!
  ConcInitHist — two further invariants of `Model.Conc` that relate the committed
  root to what committed writers did EARLIER (the thread records keep the
  versions a writer loaded and produced, so no ghost history is needed):

  * `RL`: a committed writer (past its `storeRoot`) loaded, for each of its tables,
    a version with a revision strictly smaller than the committed one — the
    channels it notifies belong to replaced versions;
  * `DI`: if a committed writer made table `x` initialized (it collected the init
    channel of `x`), then `x` is initialized in the committed root, unless a
    writer that committed LATER (it loaded a revision at least as new as the one
    stored) registered a new initializer on `x`.
  Core Lean only.
-/
namespace Sdb.Conc

/-- table version without a pending initializer and without init record -/
def Initialized (e : TableV) : Prop := e.initPending = false ∧ e.initWatch = 0

/-- the entry's init channel gets collected by `collectInit` -/
def Collectable (e : TableV) : Prop := e.initWatch ≠ 0 ∧ e.initPending = false

instance (e : TableV) : Decidable (Initialized e) := by unfold Initialized; infer_instance
instance (e : TableV) : Decidable (Collectable e) := by unfold Collectable; infer_instance

theorem clr_collectable (e : TableV) (h : Collectable e) : Initialized (clr e) := by
  unfold clr Initialized
  rw [if_pos ⟨h.1, by simp [h.2]⟩]
  exact ⟨h.2, rfl⟩

theorem clr_uwEntry_noreg (mark : Bool) (n : Nat) (e : TableV) (h : Initialized e) :
    Initialized (clr (uwEntry false mark n e)) := by
  obtain ⟨h1, h2⟩ := h
  cases mark <;> simp [clr, uwEntry, Initialized, h1, h2]

structure CI2 (st : State) (cs : List Bool) : Prop where
  RL : ∀ (j : Nat) (T : Thread), st.threads[j]? = some T → cs[j]? = some true → Micro.act .storeRoot ∉ T.prog →
    ∀ x ∈ lockList T, (getT T.oldRoot x).rev < (getT st.root x).rev
  DI : ∀ (j : Nat) (T : Thread), st.threads[j]? = some T → cs[j]? = some true → Micro.act .storeRoot ∉ T.prog →
    ∀ x ∈ lockList T, Collectable (getT T.entries x) →
      Initialized (getT st.root x) ∨
      ∃ (k : Nat) (U : Thread), st.threads[k]? = some U ∧ cs[k]? = some true ∧ Micro.act .storeRoot ∉ U.prog ∧
        x ∈ lockList U ∧ U.regInit.contains x = true ∧ (getT T.entries x).rev ≤ (getT U.oldRoot x).rev
  NC : ∀ (j : Nat) (T : Thread), st.threads[j]? = some T → cs[j]? = some true → Micro.act .storeRoot ∉ T.prog →
    Micro.act .notify ∉ T.prog → ∀ w ∈ T.toNotify, w ∈ st.closed
  IC : ∀ (j : Nat) (T : Thread), st.threads[j]? = some T → cs[j]? = some true → Micro.act .storeRoot ∉ T.prog →
    Micro.act .closeInit ∉ T.prog → ∀ w ∈ T.initToClose, w ∈ st.closed

theorem eff_closed_mono (st st' : State) (th th' : Thread) (c : Bool) (h : Eff st st' th th' c) (w : Nat)
    (hw : w ∈ st.closed) : w ∈ st'.closed := by
  cases h with
  | quiet _ h2 => rw [h2]; exact hw
  | commit _ h2 => rw [h2]; exact hw
  | register _ h2 => rw [h2]; exact hw
  | notify _ _ h3 => rw [h3]; exact List.mem_append_left _ hw
  | closeInit _ _ h3 => rw [h3]; exact List.mem_append_left _ hw

theorem eff_rev_mono (st st' : State) (th th' : Thread) (c : Bool) (h : Eff st st' th th' c) (x : Nat)
    (hx : x < st.root.length) : (getT st.root x).rev ≤ (getT st'.root x).rev := by
  cases h with
  | quiet h1 => rw [h1]; exact Nat.le_refl _
  | commit _ _ _ _ _ _ _ h8 =>
    obtain ⟨g1, g2⟩ := h8 x hx
    by_cases hxl : x ∈ lockList th
    · obtain ⟨_, ⟨n, hn⟩, g⟩ := g1 hxl
      rw [g, hn, (clr_uwEntry_rev _ _ _ _).1]; omega
    · rw [g2 hxl]; exact Nat.le_refl _
  | register _ _ _ _ h5 => rw [h5, getT_append_left _ _ _ hx]; exact Nat.le_refl _
  | notify _ h2 => rw [h2]; exact Nat.le_refl _
  | closeInit _ h2 => rw [h2]; exact Nat.le_refl _

/-- facts about a committed writer past its store, from `CI` -/
theorem stored_facts (st : State) (cs : List Bool) (run : Option Nat) (h : CI st cs run) (j : Nat) (T : Thread)
    (hT : st.threads[j]? = some T) (hc : cs[j]? = some true) (hs : Micro.act .storeRoot ∉ T.prog) :
    Micro.userWrites ∉ T.prog ∧ (∀ x ∈ lockList T, x < st.root.length) ∧
    ∀ x ∈ lockList T, ∃ n, getT T.entries x =
      uwEntry (T.regInit.contains x) (T.markInit.contains x) n (getT T.oldRoot x) := by
  obtain ⟨c, hc', hb, _, p, hp, hl⟩ := h.TH j T hT
  rw [hc] at hc'; simp only [Option.some.injEq] at hc'; subst hc'
  refine ⟨written_of_stored T _ _ p hp rfl hs, hb, ?_⟩
  obtain ⟨_, t2, _, _⟩ := tracked_of_pos T _ true p hp
  have hsf : srIn true p = false := by
    cases hh : srIn true p with
    | false => rfl
    | true => exact absurd (t2.2 hh) hs
  intro x hx
  have wr : Wr T → ∃ n, getT T.entries x = uwEntry (T.regInit.contains x) (T.markInit.contains x) n (getT T.oldRoot x) :=
    fun hw => (hw.2.2.1 x hx).2
  have nil : T.tables = [] → ∃ n, getT T.entries x = uwEntry (T.regInit.contains x) (T.markInit.contains x) n (getT T.oldRoot x) := by
    intro ht; rw [lockList_nil' T ht] at hx; simp at hx
  cases p <;> first
    | (simp [srIn] at hsf; done)
    | exact wr hl.2.1
    | exact wr hl.1
    | exact nil hl.2

theorem uwEntry_rev (reg mark : Bool) (n : Nat) (e : TableV) : (uwEntry reg mark n e).rev = e.rev + 1 := rfl

/-- every micro step preserves `CI2` -/
theorem CI2_micro (cs : List Bool) (tid : Nat) (a b : State × Thread) (c : Bool) (ctx : MicroCtx cs tid a b c)
    (h : CI2 (install a.1 tid a.2) cs) : CI2 (install b.1 tid b.2) cs := by
  obtain ⟨st, th⟩ := a
  obtain ⟨st', th'⟩ := b
  have htid := ctx.lt
  have hthreads := ctx.threads
  simp only at htid hthreads h ⊢
  have htid' : tid < st'.threads.length := by rw [hthreads]; exact htid
  have hci : CI (install st tid th) cs (some tid) := ctx.ci
  have heff : Eff st st' th th' c := ctx.eff
  have hfr : EffFrame th th' c := ctx.frame
  have hflag : cs[tid]? = some c := ctx.flag
  have hown : (install st tid th).threads[tid]? = some th := by rw [install_get _ _ _ _ htid]; simp
  have hown' : (install st' tid th').threads[tid]? = some th' := by rw [install_get _ _ _ _ htid']; simp
  have hL : lockList th' = lockList th := lockList_congr th th' hfr.tables
  have lk : ∀ (j : Nat) (T : Thread), (install st' tid th').threads[j]? = some T →
      (j = tid ∧ T = th') ∨ (j ≠ tid ∧ (install st tid th).threads[j]? = some T) := by
    intro j T hj
    rw [install_get _ _ _ _ htid'] at hj
    by_cases hjt : j = tid
    · rw [if_pos hjt] at hj; simp only [Option.some.injEq] at hj; exact Or.inl ⟨hjt, hj.symm⟩
    · rw [if_neg hjt, hthreads] at hj
      exact Or.inr ⟨hjt, by rw [install_get _ _ _ _ htid, if_neg hjt]; exact hj⟩
  -- the stepping thread, if it is a committed writer past its store, keeps its record
  have keep : c = true → Micro.act .storeRoot ∉ th.prog →
      Micro.act .storeRoot ∉ th'.prog ∧ th'.oldRoot = th.oldRoot ∧ th'.entries = th.entries := by
    intro hc hs
    have hu := (stored_facts _ cs _ hci tid th hown (by rw [hflag, hc]) hs).1
    exact ⟨fun hm => hs (hfr.sub _ hm), hfr.written hu⟩
  -- witnesses survive the step
  have tr : ∀ (k : Nat) (U : Thread), (install st tid th).threads[k]? = some U → cs[k]? = some true → Micro.act .storeRoot ∉ U.prog →
      ∃ U', (install st' tid th').threads[k]? = some U' ∧ Micro.act .storeRoot ∉ U'.prog ∧
        lockList U' = lockList U ∧ U'.regInit = U.regInit ∧ U'.oldRoot = U.oldRoot := by
    intro k U hk hck hs
    by_cases hkt : k = tid
    · subst hkt
      rw [hown] at hk; simp only [Option.some.injEq] at hk; subst hk
      have hc : c = true := by rw [hflag] at hck; simpa using hck
      obtain ⟨g1, g2, _⟩ := keep hc hs
      exact ⟨th', hown', g1, hL, hfr.regInit, g2⟩
    · refine ⟨U, ?_, hs, rfl, rfl, rfl⟩
      rw [install_get _ _ _ _ htid', if_neg hkt, hthreads]
      rw [install_get _ _ _ _ htid, if_neg hkt] at hk
      exact hk
  have rootSame : st'.root = st.root → ∀ (T : Thread) (x : Nat),
      (Initialized (getT st.root x) ∨ ∃ (k : Nat) (U : Thread), (install st tid th).threads[k]? = some U ∧ cs[k]? = some true ∧
        Micro.act .storeRoot ∉ U.prog ∧ x ∈ lockList U ∧ U.regInit.contains x = true ∧
        (getT T.entries x).rev ≤ (getT U.oldRoot x).rev) →
      (Initialized (getT st'.root x) ∨ ∃ (k : Nat) (U : Thread), (install st' tid th').threads[k]? = some U ∧ cs[k]? = some true ∧
        Micro.act .storeRoot ∉ U.prog ∧ x ∈ lockList U ∧ U.regInit.contains x = true ∧
        (getT T.entries x).rev ≤ (getT U.oldRoot x).rev) := by
    intro hr T x hor
    rcases hor with hi | ⟨k, U, hk, hck, hs, hxU, hreg, hrev⟩
    · left; show Initialized (getT st'.root x); rw [hr]; exact hi
    · right
      obtain ⟨U', g1, g2, g3, g4, g5⟩ := tr k U hk hck hs
      exact ⟨k, U', g1, hck, g2, by rw [g3]; exact hxU, by rw [g4]; exact hreg, by rw [g5]; exact hrev⟩
  constructor
  · -- RL
    intro j T hj hcj hs x hx
    show (getT T.oldRoot x).rev < (getT st'.root x).rev
    rcases lk j T hj with ⟨rfl, rfl⟩ | ⟨hjt, hold⟩
    · have hc : c = true := by rw [hflag] at hcj; simpa using hcj
      rw [hL] at hx
      have hbx : x < st.root.length := by
        obtain ⟨c0, _, hb, _⟩ := hci.TH j th hown
        exact hb x hx
      cases heff with
      | quiet h1 _ h3 _ _ =>
        have hs0 : Micro.act .storeRoot ∉ th.prog := fun hm => hs (h3.2 hm)
        rw [h1, (keep hc hs0).2.1]
        exact h.RL j th hown hcj hs0 x hx
      | commit _ _ _ _ h5 _ _ h8 =>
        obtain ⟨g0, ⟨n, hn⟩, g⟩ := (h8 x hbx).1 hx
        rw [(hfr.written h5).1, g0, g, hn, (clr_uwEntry_rev _ _ _ _).1]
        omega
      | register h1 =>
        rw [lockList_nil' th h1] at hx; simp at hx
      | notify _ h2 _ _ _ h6 =>
        rw [h2, (keep hc h6).2.1]
        exact h.RL j th hown hcj h6 x hx
      | closeInit _ h2 _ _ _ h6 =>
        rw [h2, (keep hc h6).2.1]
        exact h.RL j th hown hcj h6 x hx
    · have h1 : (getT T.oldRoot x).rev < (getT st.root x).rev := h.RL j T hold hcj hs x hx
      have hbx : x < st.root.length := by
        obtain ⟨c0, _, hb, _⟩ := hci.TH j T hold
        exact hb x hx
      have := eff_rev_mono st st' th th' c heff x hbx
      omega
  · -- DI
    intro j T hj hcj hs x hx hcol
    show Initialized (getT st'.root x) ∨ _
    rcases lk j T hj with ⟨rfl, rfl⟩ | ⟨hjt, hold⟩
    · have hc : c = true := by rw [hflag] at hcj; simpa using hcj
      rw [hL] at hx
      have hbx : x < st.root.length := by
        obtain ⟨c0, _, hb, _⟩ := hci.TH j th hown
        exact hb x hx
      have viaOld : Micro.act .storeRoot ∉ th.prog → st'.root = st.root →
          Initialized (getT st'.root x) ∨ ∃ (k : Nat) (U : Thread), (install st' j T).threads[k]? = some U ∧
            cs[k]? = some true ∧ Micro.act .storeRoot ∉ U.prog ∧ x ∈ lockList U ∧ U.regInit.contains x = true ∧
            (getT T.entries x).rev ≤ (getT U.oldRoot x).rev := by
        intro hs0 hr
        have he := (keep hc hs0).2.2
        have := h.DI j th hown hcj hs0 x hx (by rw [← he]; exact hcol)
        have := rootSame hr th x this
        rw [he]; exact this
      cases heff with
      | quiet h1 _ h3 _ _ => exact viaOld (fun hm => hs (h3.2 hm)) h1
      | commit _ _ _ _ h5 _ _ h8 =>
        left
        obtain ⟨_, _, g⟩ := (h8 x hbx).1 hx
        rw [g]
        apply clr_collectable
        rw [← (hfr.written h5).2]; exact hcol
      | register h1 =>
        rw [lockList_nil' th h1] at hx; simp at hx
      | notify _ h2 _ _ _ h6 => exact viaOld h6 h2
      | closeInit _ h2 _ _ _ h6 => exact viaOld h6 h2
    · have hold' := h.DI j T hold hcj hs x hx hcol
      have hbx : x < st.root.length := by
        obtain ⟨c0, _, hb, _⟩ := hci.TH j T hold
        exact hb x hx
      cases heff with
      | quiet h1 => exact rootSame h1 T x hold'
      | notify _ h2 => exact rootSame h2 T x hold'
      | closeInit _ h2 => exact rootSame h2 T x hold'
      | register _ _ _ _ h5 =>
        rcases hold' with hi | ⟨k, U, hk, hck, hsU, hxU, hreg, hrev⟩
        · left; rw [h5, getT_append_left _ _ _ hbx]; exact hi
        · right
          obtain ⟨U', g1, g2, g3, g4, g5⟩ := tr k U hk hck hsU
          exact ⟨k, U', g1, hck, g2, by rw [g3]; exact hxU, by rw [g4]; exact hreg, by rw [g5]; exact hrev⟩
      | commit hc _ _ h4 h5 _ _ h8 =>
        rcases hold' with hi | ⟨k, U, hk, hck, hsU, hxU, hreg, hrev⟩
        · by_cases hxl : x ∈ lockList th
          · obtain ⟨g0, ⟨n, hn⟩, g⟩ := (h8 x hbx).1 hxl
            cases hr : th.regInit.contains x with
            | false =>
              left
              rw [g, hn, hr]
              exact clr_uwEntry_noreg _ _ _ hi
            | true =>
              right
              refine ⟨tid, th', hown', by rw [hflag, hc], h4, by rw [hL]; exact hxl, by rw [hfr.regInit]; exact hr, ?_⟩
              rw [(hfr.written h5).1, g0]
              have h1 : (getT T.oldRoot x).rev < (getT st.root x).rev := h.RL j T hold hcj hs x hx
              obtain ⟨_, _, hent⟩ := stored_facts _ cs _ hci j T hold hcj hs
              obtain ⟨m, hm⟩ := hent x hx
              rw [hm, uwEntry_rev]
              omega
          · left; rw [(h8 x hbx).2 hxl]; exact hi
        · right
          obtain ⟨U', g1, g2, g3, g4, g5⟩ := tr k U hk hck hsU
          exact ⟨k, U', g1, hck, g2, by rw [g3]; exact hxU, by rw [g4]; exact hreg, by rw [g5]; exact hrev⟩

  · -- NC
    intro j T hj hcj hs hn w hw
    show w ∈ st'.closed
    rcases lk j T hj with ⟨rfl, rfl⟩ | ⟨hjt, hold⟩
    · have hc : c = true := by rw [hflag] at hcj; simpa using hcj
      by_cases hn0 : Micro.act .notify ∈ th.prog
      · have hhead := mstep_only_head st j th st' T ctx.step _ hn0 hn
        cases heff with
        | quiet _ _ _ h4 => exact absurd (h4.2 hn0) hn
        | commit _ _ _ _ _ _ _ _ h9 => rw [hhead] at h9; simp at h9
        | register _ _ _ _ _ h6 => rw [hhead] at h6; simp at h6
        | notify _ _ h3 _ _ h6 =>
          rw [h3, ← (hfr.stored hc h6).1]
          exact List.mem_append_right _ hw
        | closeInit _ _ _ _ _ _ _ _ _ _ h11 => rw [hhead] at h11; simp at h11
      · have hs0 := (commitOrder _ cs _ hci j th hown hcj).notify_after_store hn0
        have := h.NC j th hown hcj hs0 hn0 w (by rw [← (hfr.stored hc hs0).1]; exact hw)
        exact eff_closed_mono st st' th T c heff w this
    · exact eff_closed_mono st st' th th' c heff w (h.NC j T hold hcj hs hn w hw)
  · -- IC
    intro j T hj hcj hs hn w hw
    show w ∈ st'.closed
    rcases lk j T hj with ⟨rfl, rfl⟩ | ⟨hjt, hold⟩
    · have hc : c = true := by rw [hflag] at hcj; simpa using hcj
      by_cases hn0 : Micro.act .closeInit ∈ th.prog
      · have hhead := mstep_only_head st j th st' T ctx.step _ hn0 hn
        cases heff with
        | quiet _ _ _ _ h5 => exact absurd (h5.2 hn0) hn
        | commit _ _ _ _ _ _ _ _ h9 => rw [hhead] at h9; simp at h9
        | register _ _ _ _ _ h6 => rw [hhead] at h6; simp at h6
        | notify _ _ _ _ _ _ _ _ _ _ h11 => rw [hhead] at h11; simp at h11
        | closeInit _ _ h3 _ _ h6 =>
          rw [h3, ← (hfr.stored hc h6).2]
          exact List.mem_append_right _ hw
      · have ord := commitOrder _ cs _ hci j th hown hcj
        have hs0 := ord.notify_after_store (ord.closeInit_after_notify hn0)
        have := h.IC j th hown hcj hs0 hn0 w (by rw [← (hfr.stored hc hs0).2]; exact hw)
        exact eff_closed_mono st st' th T c heff w this
    · exact eff_closed_mono st st' th th' c heff w (h.IC j T hold hcj hs hn w hw)

theorem CI2_spawn (st : State) (cs : List Bool) (thn : Thread) (c : Bool) (hlen : cs.length = st.threads.length)
    (h : CI2 st cs) (hnew : c = true → Micro.act .storeRoot ∈ thn.prog) :
    CI2 { st with threads := st.threads ++ [thn] } (cs ++ [c]) := by
  have look : ∀ (j : Nat) (T : Thread), (st.threads ++ [thn])[j]? = some T → (cs ++ [c])[j]? = some true →
      Micro.act .storeRoot ∉ T.prog → st.threads[j]? = some T ∧ cs[j]? = some true := by
    intro j T hj hcj hs
    by_cases hlt : j < st.threads.length
    · rw [List.getElem?_append_left hlt] at hj
      rw [List.getElem?_append_left (by rw [hlen]; exact hlt)] at hcj
      exact ⟨hj, hcj⟩
    · exfalso
      have hl := lt_of_getElem?_some _ _ _ hj
      simp only [List.length_append, List.length_singleton] at hl
      have he : j = st.threads.length := by omega
      subst he
      simp only [List.getElem?_concat_length, Option.some.injEq] at hj
      rw [← hlen] at hcj
      simp only [List.getElem?_concat_length, Option.some.injEq] at hcj
      subst hj
      exact hs (hnew hcj)
  constructor
  · intro j T hj hcj hs x hx
    obtain ⟨a1, a2⟩ := look j T hj hcj hs
    exact h.RL j T a1 a2 hs x hx
  · intro j T hj hcj hs x hx hcol
    obtain ⟨a1, a2⟩ := look j T hj hcj hs
    rcases h.DI j T a1 a2 hs x hx hcol with hi | ⟨k, U, hk, hck, rest⟩
    · exact Or.inl hi
    · right
      have hlt := lt_of_getElem?_some _ _ _ hk
      refine ⟨k, U, ?_, ?_, rest⟩
      · show (st.threads ++ [thn])[k]? = some U
        rw [List.getElem?_append_left hlt]; exact hk
      · rw [List.getElem?_append_left (by rw [hlen]; exact hlt)]; exact hck
  · intro j T hj hcj hs hn w hw
    obtain ⟨a1, a2⟩ := look j T hj hcj hs
    exact h.NC j T a1 a2 hs hn w hw
  · intro j T hj hcj hs hn w hw
    obtain ⟨a1, a2⟩ := look j T hj hcj hs
    exact h.IC j T a1 a2 hs hn w hw

theorem storeRoot_mem_writerProg (P : Protocol) (hP : P.initShape = true) (tabs : List Nat) :
    Micro.act .storeRoot ∈ writerProg P tabs true := by
  rw [← mem_strip2 _ _ (by rfl), strip2_writerProg P hP tabs true]
  simp [code2, cEnd2, csTail]

/-- the history invariants hold in every reachable state -/
theorem reach_CI2 (P : Protocol) (hP : P.initShape = true) (n : Nat) (st : State) (cs : List Bool)
    (h : Reach P n st cs) : CI2 st cs := by
  induction h with
  | init => exact ⟨fun j T hj => by simp [initState] at hj, fun j T hj => by simp [initState] at hj,
      fun j T hj => by simp [initState] at hj, fun j T hj => by simp [initState] at hj⟩
  | writer st cs tabs commit mi ri hr hb ih =>
    refine CI2_spawn st cs _ commit (reach_CI P hP n st cs hr).len ih ?_
    intro hc; subst hc
    exact storeRoot_mem_writerProg P hP tabs
  | register st cs hr ih =>
    exact CI2_spawn st cs _ false (reach_CI P hP n st cs hr).len ih (fun hc => by simp at hc)
  | registerDup st cs hr ih =>
    exact CI2_spawn st cs _ false (reach_CI P hP n st cs hr).len ih (fun hc => by simp at hc)
  | step st cs tid hr ih =>
    exact step_preserves st cs tid (reach_sim P (initShape_simShape P hP) n st cs hr) (reach_CI P hP n st cs hr)
      (fun s => CI2 s cs) (fun a b c ctx hk => CI2_micro cs tid a b c ctx hk) ih

end Sdb.Conc
