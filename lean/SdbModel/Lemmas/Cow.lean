import SdbModel.Model.Cow

/-!
  Lemmas.Cow — a heap model of copy-on-write with ownership stamps
  (part/txn.go `cloneNode`, lpm/trie.go `clone`) and the proof that views
  handed out by a transaction stay frozen.

  * `Cell`, `Heap`, `Reach`, `content`: addresses are naturals, address 0 is
    the nil pointer, a cell has the stamp (`txnID`) of the transaction that
    allocated it, a payload and the list of child addresses (any arity: the
    radix-tree node kinds and the binary LPM node are both covered).
  * `St`, `Step`: the global state (heap, allocation pointer, published
    views with the id stored with them, any number of transactions) and its
    steps, parametric in the `StampFacts` read off the Go source.  A write
    (`WriteOk`) may change a cell in place only if the cell is reachable from
    the transaction's root and (when the source has the test) carries the
    transaction's id; everything else it allocates.
  * `Inv`, `Inv.step`: the invariant and its preservation when `f.ok`.
    Transactions started from the same tree take the same id, so "stamp = id"
    does not identify the owner.  The invariant says instead: a cell that
    transaction `t` reaches and that carries `t`'s id is reachable from no
    published view (`tOwnV`) and from no other transaction (`tOwnT`).  It
    is inductive because a transaction starts with a root below which every
    stamp is smaller than its id (`vStamp`), reaches afterwards only that and
    what it allocated itself, and every publication raises its id above
    everything it reaches.
  * `wr`, `St.write`, `run`: an executable path-copying write and the proof
    (`wr_ok`, `St.write_ok`) that it is an instance of the relational write
    step; `run_steps`: runs of operations are runs of `Step`.
-/
namespace Sdb.Cow

/-! ## heaps -/

structure Cell where
  /-- `txnID` of the node: the id of the transaction that allocated it (0 for a `part` leaf) -/
  stamp : Nat
  /-- everything else in the node that is not a pointer (prefix, keys, leaf value, flags …) -/
  val : Nat
  /-- child pointers, 0 = nil -/
  kids : List Nat
  deriving Repr, DecidableEq

abbrev Heap := Nat → Option Cell

def Heap.set (h : Heap) (a : Nat) (c : Cell) : Heap := fun x => if x = a then some c else h x

@[simp] theorem Heap.set_same (h : Heap) (a : Nat) (c : Cell) : h.set a c a = some c := by
  simp [Heap.set]

theorem Heap.set_other (h : Heap) (a x : Nat) (c : Cell) (hx : x ≠ a) : h.set a c x = h x := by
  simp [Heap.set, hx]

/-- addresses reachable from `r` by following child pointers of allocated cells -/
inductive Reach (h : Heap) (r : Nat) : Nat → Prop
  | root : Reach h r r
  | step {a k : Nat} {c : Cell} : Reach h r a → h a = some c → k ∈ c.kids → Reach h r k

theorem Reach.of_kid {h : Heap} {r k a : Nat} {c : Cell} (hr : h r = some c) (hk : k ∈ c.kids)
    (h1 : Reach h k a) : Reach h r a := by
  induction h1 with
  | root => exact .step .root hr hk
  | step _ hc hk' ih => exact .step ih hc hk'

theorem Reach.trans {h : Heap} {r b a : Nat} (h1 : Reach h r b) (h2 : Reach h b a) : Reach h r a := by
  induction h2 with
  | root => exact h1
  | step _ hc hk ih => exact .step ih hc hk

/-- nothing but nil is reachable from nil when nil is not a cell -/
theorem Reach.of_nil {h : Heap} {r a : Nat} (h0 : h r = none) (h1 : Reach h r a) : a = r := by
  induction h1 with
  | root => rfl
  | step _ hc _ ih => subst ih; rw [h0] at hc; cases hc

/-- frame: a heap that agrees on everything reachable from `r` reaches the same addresses -/
theorem Reach.frame {h h' : Heap} {r : Nat} (hfr : ∀ a, Reach h r a → h' a = h a) {a : Nat} :
    Reach h' r a ↔ Reach h r a := by
  constructor
  · intro h1
    induction h1 with
    | root => exact .root
    | step _ hc hk ih => exact .step ih (by rw [← hfr _ ih]; exact hc) hk
  · intro h1
    induction h1 with
    | root => exact .root
    | step h0 hc hk ih => exact .step ih (by rw [hfr _ h0]; exact hc) hk

/-- the abstract value denoted by an address: the tree of payloads, unfolded to depth `n`.
    Stamps are not part of it (no reader looks at them). -/
inductive T where
  | nil
  | cut
  | node (val : Nat) (kids : List T)
  deriving Repr

mutual
/-- injective-enough serialisation, used only to decide disequalities of concrete trees -/
def T.flat : T → List Nat
  | .nil => [0]
  | .cut => [1]
  | .node v ks => 2 :: v :: T.flatL ks
def T.flatL : List T → List Nat
  | [] => [3]
  | t :: ts => t.flat ++ T.flatL ts
end

def content (h : Heap) : Nat → Nat → T
  | 0, _ => .cut
  | n + 1, a =>
    match h a with
    | none => .nil
    | some c => .node c.val (c.kids.map (content h n))

/-- frame for the denoted value -/
theorem content_frame {h h' : Heap} (n : Nat) : ∀ {r : Nat}, (∀ a, Reach h r a → h' a = h a) →
    content h' n r = content h n r := by
  induction n with
  | zero => intro r _; rfl
  | succ n ih =>
    intro r hfr
    have hr : h' r = h r := hfr r .root
    simp only [content, hr]
    cases hc : h r with
    | none => rfl
    | some c =>
      simp only
      congr 1
      apply List.map_congr_left
      intro k hk
      exact ih (fun a ha => hfr a (Reach.of_kid hc hk ha))

/-! ## transactions, views, steps -/

/-- a view handed out to readers: `Tree{root, nextTxnID}` / `Trie{root, prevTxnID+1}` or the
    start node of an iterator, together with the id a transaction started from it takes -/
structure View where
  root : Nat
  id : Nat
  deriving Repr, DecidableEq

/-- a `part.Txn` / `lpm.Txn`: its current `txnID` and its current (unpublished) root -/
structure Txn where
  id : Nat
  root : Nat
  deriving Repr, DecidableEq

structure St where
  heap : Heap
  /-- allocation pointer: every address ≥ `nxt` is free -/
  nxt : Nat
  views : List View
  /-- the transactions in flight, by an arbitrary name -/
  txns : Nat → Option Txn

def upd (m : Nat → Option Txn) (i : Nat) (v : Option Txn) : Nat → Option Txn :=
  fun j => if j = i then v else m j

@[simp] theorem upd_same (m : Nat → Option Txn) (i : Nat) (v : Option Txn) : upd m i v i = v := by
  simp [upd]

theorem upd_other (m : Nat → Option Txn) (i j : Nat) (v : Option Txn) (h : j ≠ i) : upd m i v j = m j := by
  simp [upd, h]

/-- the Txn methods that hand out the current root -/
inductive Pub where
  | all | clone | prefix | lowerBound | iterator | commit
  deriving Repr, DecidableEq

def StampFacts.bumps (f : StampFacts) : Pub → Bool
  | .all => f.bumpAll
  | .clone => f.bumpClone
  | .prefix => f.bumpPrefix
  | .lowerBound => f.bumpLowerBound
  | .iterator => f.bumpIterator
  | .commit => f.bumpCommit

theorem StampFacts.ok_bumps {f : StampFacts} (hf : f.ok = true) (k : Pub) : f.bumps k = true := by
  simp only [StampFacts.ok, Bool.and_eq_true] at hf
  cases k <;> simp [StampFacts.bumps, hf]

theorem StampFacts.ok_inPlace {f : StampFacts} (hf : f.ok = true) : f.inPlaceOnlyIfOwned = true := by
  simp only [StampFacts.ok, Bool.and_eq_true] at hf; exact hf.1.2

theorem StampFacts.ok_idFrom {f : StampFacts} (hf : f.ok = true) : f.idFromPublished = true := by
  simp only [StampFacts.ok, Bool.and_eq_true] at hf; exact hf.2

/-- the id after a publishing method of kind `k` -/
def Txn.idAfter (f : StampFacts) (k : Pub) (t : Txn) : Nat := if f.bumps k then t.id + 1 else t.id

/-- where a pointer written by a transaction may point: nil, something the transaction
    already reaches, or a cell allocated by this very write -/
def Good (h : Heap) (nxt nxt' root k : Nat) : Prop :=
  k = 0 ∨ Reach h root k ∨ (nxt ≤ k ∧ k < nxt')

/-- What one write operation (Insert / Modify / Delete) of transaction `t` may do to the heap.
    `cells`: every cell whose contents differ afterwards is either a cell that existed, was
    reachable from the transaction's root, keeps its stamp and — when the source guards in-place
    writes by the stamp — carries the transaction's id; or it is freshly allocated, with a
    stamp not above the transaction's id (`cloneNode`/`promote`/`newNode` stamp `txnID`, leaves 0,
    `clone(false)` copies an older stamp).  All pointers written are `Good`. -/
structure WriteOk (f : StampFacts) (h : Heap) (nxt : Nat) (t : Txn) (h' : Heap) (nxt' root' : Nat) : Prop where
  mono : nxt ≤ nxt'
  cells : ∀ x, h' x ≠ h x → x < nxt' ∧ ∃ c', h' x = some c' ∧
      (∀ k ∈ c'.kids, Good h nxt nxt' t.root k) ∧
      (x < nxt → Reach h t.root x ∧ ∃ c, h x = some c ∧ c'.stamp = c.stamp ∧
        (f.inPlaceOnlyIfOwned = true → c.stamp = t.id)) ∧
      (nxt ≤ x → c'.stamp ≤ t.id)
  root : Good h nxt nxt' t.root root'

/-- `part.New()` / `lpm.New()`: nothing allocated, one published empty tree with id 0 -/
def init : St := { heap := fun _ => none, nxt := 1, views := [⟨0, 0⟩], txns := fun _ => none }

/-- the steps of the system; transactions run one step at a time in any interleaving -/
inductive Step (f : StampFacts) : St → St → Prop
  /-- another empty tree (`part.New`, `Tree[T]{}`) -/
  | newTree (s : St) : Step f s { s with views := ⟨0, 0⟩ :: s.views }
  /-- `Tree.Txn()` / `Trie.Txn()` / `Txn.Reuse(trie)` on any published view, old or new; the slot `i`
      may hold an earlier transaction, which is thereby abandoned.  `id0` is what the
      transaction would use if it did not take the id published with the view. -/
  | begin (s : St) (i : Nat) (v : View) (id0 : Nat) (hv : v ∈ s.views) :
      Step f s { s with txns := upd s.txns i (some ⟨if f.idFromPublished then v.id else id0, v.root⟩) }
  /-- a transaction is dropped (abort, or simply never used again) -/
  | abandon (s : St) (i : Nat) : Step f s { s with txns := upd s.txns i none }
  /-- Commit / Clone / All / Prefix / LowerBound / Iterator: the current root is handed out -/
  | publish (s : St) (i : Nat) (t : Txn) (k : Pub) (ht : s.txns i = some t) :
      Step f s { s with views := ⟨t.root, t.idAfter f k⟩ :: s.views,
                        txns := upd s.txns i (some ⟨t.idAfter f k, t.root⟩) }
  /-- Insert / Modify / Delete -/
  | write (s : St) (i : Nat) (t : Txn) (h' : Heap) (nxt' root' : Nat) (ht : s.txns i = some t)
      (hw : WriteOk f s.heap s.nxt t h' nxt' root') :
      Step f s { heap := h', nxt := nxt', views := s.views, txns := upd s.txns i (some ⟨t.id, root'⟩) }

inductive Steps (f : StampFacts) : St → St → Prop
  | refl (s : St) : Steps f s s
  | tail {s s' s'' : St} : Steps f s s' → Step f s' s'' → Steps f s s''

theorem Steps.trans {f : StampFacts} {s s' s'' : St} (h1 : Steps f s s') (h2 : Steps f s' s'') :
    Steps f s s'' := by
  induction h2 with
  | refl => exact h1
  | tail _ hs ih => exact .tail ih hs

theorem Step.views_mono {f : StampFacts} {s s' : St} (h : Step f s s') {v : View} (hv : v ∈ s.views) :
    v ∈ s'.views := by
  cases h <;> simp_all

theorem Steps.views_mono {f : StampFacts} {s s' : St} (h : Steps f s s') {v : View} (hv : v ∈ s.views) :
    v ∈ s'.views := by
  induction h with
  | refl => exact hv
  | tail _ hs ih => exact hs.views_mono ih

/-! ## the invariant -/

structure Inv (s : St) : Prop where
  nil0 : s.heap 0 = none
  pos : 0 < s.nxt
  hi : ∀ a, s.nxt ≤ a → s.heap a = none
  vBound : ∀ v ∈ s.views, ∀ a, Reach s.heap v.root a → a < s.nxt
  /-- everything a published view reaches has a stamp below the id published with it -/
  vStamp : ∀ v ∈ s.views, ∀ a c, Reach s.heap v.root a → s.heap a = some c → c.stamp < v.id
  tBound : ∀ i t, s.txns i = some t → ∀ a, Reach s.heap t.root a → a < s.nxt
  tStamp : ∀ i t, s.txns i = some t → ∀ a c, Reach s.heap t.root a → s.heap a = some c → c.stamp ≤ t.id
  /-- a cell a transaction could write in place is reachable from no published view … -/
  tOwnV : ∀ i t, s.txns i = some t → ∀ a c, Reach s.heap t.root a → s.heap a = some c →
      c.stamp = t.id → ∀ v ∈ s.views, ¬ Reach s.heap v.root a
  /-- … and from no other transaction (two transactions started from the same tree have the same id) -/
  tOwnT : ∀ i t, s.txns i = some t → ∀ a c, Reach s.heap t.root a → s.heap a = some c →
      c.stamp = t.id → ∀ j t', j ≠ i → s.txns j = some t' → ¬ Reach s.heap t'.root a

theorem Inv.init : Inv init := by
  refine ⟨rfl, by decide, fun _ _ => rfl, ?_, ?_, ?_, ?_, ?_, ?_⟩
  · intro v hv a ha
    simp only [Cow.init, List.mem_singleton] at hv; subst hv
    have := Reach.of_nil (h := Cow.init.heap) (r := 0) rfl ha
    subst this; decide
  · intro v _ a c _ hc; cases hc
  all_goals (intro i t ht; cases ht)

/-- `Inv` of an explicitly given state, with the projections already reduced -/
theorem Inv.mk' {h : Heap} {n : Nat} {vs : List View} {tx : Nat → Option Txn}
    (nil0 : h 0 = none) (pos : 0 < n) (hi : ∀ a, n ≤ a → h a = none)
    (vBound : ∀ v ∈ vs, ∀ a, Reach h v.root a → a < n)
    (vStamp : ∀ v ∈ vs, ∀ a c, Reach h v.root a → h a = some c → c.stamp < v.id)
    (tBound : ∀ i t, tx i = some t → ∀ a, Reach h t.root a → a < n)
    (tStamp : ∀ i t, tx i = some t → ∀ a c, Reach h t.root a → h a = some c → c.stamp ≤ t.id)
    (tOwnV : ∀ i t, tx i = some t → ∀ a c, Reach h t.root a → h a = some c →
      c.stamp = t.id → ∀ v ∈ vs, ¬ Reach h v.root a)
    (tOwnT : ∀ i t, tx i = some t → ∀ a c, Reach h t.root a → h a = some c →
      c.stamp = t.id → ∀ j t', j ≠ i → tx j = some t' → ¬ Reach h t'.root a) :
    Inv ⟨h, n, vs, tx⟩ :=
  ⟨nil0, pos, hi, vBound, vStamp, tBound, tStamp, tOwnV, tOwnT⟩

theorem Inv.newTree {s : St} (I : Inv s) : Inv { s with views := ⟨0, 0⟩ :: s.views } := by
  have hnil : ∀ a, Reach s.heap 0 a → a = 0 := fun a ha => Reach.of_nil I.nil0 ha
  refine Inv.mk' I.nil0 I.pos I.hi ?_ ?_ I.tBound I.tStamp ?_ I.tOwnT
  · intro v hv a ha
    rcases List.mem_cons.1 hv with rfl | hv
    · have := hnil a ha; subst this; exact I.pos
    · exact I.vBound v hv a ha
  · intro v hv a c ha hc
    rcases List.mem_cons.1 hv with rfl | hv
    · have := hnil a ha; subst this; rw [I.nil0] at hc; cases hc
    · exact I.vStamp v hv a c ha hc
  · intro i t ht a c ha hc hst v hv
    rcases List.mem_cons.1 hv with rfl | hv
    · intro hr; have := hnil a hr; subst this; rw [I.nil0] at hc; cases hc
    · exact I.tOwnV i t ht a c ha hc hst v hv

theorem Inv.abandon {s : St} (I : Inv s) (i : Nat) : Inv { s with txns := upd s.txns i none } := by
  have sub : ∀ j t, upd s.txns i none j = some t → s.txns j = some t := by
    intro j t h
    by_cases hj : j = i
    · subst hj; simp at h
    · rwa [upd_other _ _ _ _ hj] at h
  refine Inv.mk' I.nil0 I.pos I.hi I.vBound I.vStamp ?_ ?_ ?_ ?_
  · intro j t ht; exact I.tBound j t (sub j t ht)
  · intro j t ht; exact I.tStamp j t (sub j t ht)
  · intro j t ht; exact I.tOwnV j t (sub j t ht)
  · intro j t ht a c ha hc hst k t' hk ht'
    exact I.tOwnT j t (sub j t ht) a c ha hc hst k t' hk (sub k t' ht')

theorem Inv.begin {s : St} (I : Inv s) (i : Nat) (v : View) (hv : v ∈ s.views) :
    Inv { s with txns := upd s.txns i (some ⟨v.id, v.root⟩) } := by
  refine Inv.mk' I.nil0 I.pos I.hi I.vBound I.vStamp ?_ ?_ ?_ ?_
  · intro j t ht
    by_cases hj : j = i
    · subst hj; simp only [upd_same, Option.some.injEq] at ht; subst ht; exact I.vBound v hv
    · rw [upd_other _ _ _ _ hj] at ht; exact I.tBound j t ht
  · intro j t ht a c ha hc
    by_cases hj : j = i
    · subst hj; simp only [upd_same, Option.some.injEq] at ht; subst ht
      exact Nat.le_of_lt (I.vStamp v hv a c ha hc)
    · rw [upd_other _ _ _ _ hj] at ht; exact I.tStamp j t ht a c ha hc
  · intro j t ht a c ha hc hst
    by_cases hj : j = i
    · subst hj; simp only [upd_same, Option.some.injEq] at ht; subst ht
      have := I.vStamp v hv a c ha hc; simp only at hst; omega
    · rw [upd_other _ _ _ _ hj] at ht; exact I.tOwnV j t ht a c ha hc hst
  · intro j t ht a c ha hc hst k t' hk ht'
    by_cases hj : j = i
    · subst hj; simp only [upd_same, Option.some.injEq] at ht; subst ht
      have := I.vStamp v hv a c ha hc; simp only at hst; omega
    · rw [upd_other _ _ _ _ hj] at ht
      by_cases hki : k = i
      · subst hki; simp only [upd_same, Option.some.injEq] at ht'; subst ht'
        exact I.tOwnV j t ht a c ha hc hst v hv
      · rw [upd_other _ _ _ _ hki] at ht'
        exact I.tOwnT j t ht a c ha hc hst k t' hk ht'

theorem Inv.publish {s : St} (I : Inv s) (i : Nat) (t : Txn) (ht : s.txns i = some t) :
    Inv { s with views := ⟨t.root, t.id + 1⟩ :: s.views,
                 txns := upd s.txns i (some ⟨t.id + 1, t.root⟩) } := by
  refine Inv.mk' I.nil0 I.pos I.hi ?_ ?_ ?_ ?_ ?_ ?_
  · intro v hv a ha
    rcases List.mem_cons.1 hv with rfl | hv
    · exact I.tBound i t ht a ha
    · exact I.vBound v hv a ha
  · intro v hv a c ha hc
    rcases List.mem_cons.1 hv with rfl | hv
    · exact Nat.lt_succ_of_le (I.tStamp i t ht a c ha hc)
    · exact I.vStamp v hv a c ha hc
  · intro j u hu
    by_cases hj : j = i
    · subst hj; simp only [upd_same, Option.some.injEq] at hu; subst hu; exact I.tBound j t ht
    · rw [upd_other _ _ _ _ hj] at hu; exact I.tBound j u hu
  · intro j u hu a c ha hc
    by_cases hj : j = i
    · subst hj; simp only [upd_same, Option.some.injEq] at hu; subst hu
      exact Nat.le_succ_of_le (I.tStamp j t ht a c ha hc)
    · rw [upd_other _ _ _ _ hj] at hu; exact I.tStamp j u hu a c ha hc
  · intro j u hu a c ha hc hst v hv
    by_cases hj : j = i
    · subst hj; simp only [upd_same, Option.some.injEq] at hu; subst hu
      have := I.tStamp j t ht a c ha hc; simp only at hst; omega
    · rw [upd_other _ _ _ _ hj] at hu
      rcases List.mem_cons.1 hv with rfl | hv
      · exact I.tOwnT j u hu a c ha hc hst i t (Ne.symm hj) ht
      · exact I.tOwnV j u hu a c ha hc hst v hv
  · intro j u hu a c ha hc hst k u' hk hu'
    by_cases hj : j = i
    · subst hj; simp only [upd_same, Option.some.injEq] at hu; subst hu
      have := I.tStamp j t ht a c ha hc; simp only at hst; omega
    · rw [upd_other _ _ _ _ hj] at hu
      by_cases hki : k = i
      · subst hki; simp only [upd_same, Option.some.injEq] at hu'; subst hu'
        exact I.tOwnT j u hu a c ha hc hst k t hk ht
      · rw [upd_other _ _ _ _ hki] at hu'
        exact I.tOwnT j u hu a c ha hc hst k u' hk hu'

/-! ### the write step -/

/-- a root from which the writer owns nothing is not touched by the write -/
theorem WriteOk.untouched {f : StampFacts} {h h' : Heap} {nxt nxt' root' : Nat} {t : Txn}
    (hf : f.inPlaceOnlyIfOwned = true) (hw : WriteOk f h nxt t h' nxt' root') {r : Nat}
    (hb : ∀ a, Reach h r a → a < nxt)
    (hown : ∀ a c, Reach h t.root a → h a = some c → c.stamp = t.id → ¬ Reach h r a) :
    ∀ a, Reach h r a → h' a = h a := by
  intro a ha
  apply Classical.byContradiction
  intro hne
  obtain ⟨_, c', _, _, hlt, _⟩ := hw.cells a hne
  obtain ⟨hr, c, hc, _, hst⟩ := hlt (hb a ha)
  exact hown a c hr hc (hst hf) ha

/-- the new root reaches only nil, what the old root reached, and fresh cells -/
theorem WriteOk.reach_good {f : StampFacts} {h h' : Heap} {nxt nxt' root' : Nat} {t : Txn}
    (hw : WriteOk f h nxt t h' nxt' root') (nil0 : h 0 = none) (hi : ∀ a, nxt ≤ a → h a = none)
    {a : Nat} (ha : Reach h' root' a) : Good h nxt nxt' t.root a := by
  induction ha with
  | root => exact hw.root
  | @step a k c _ hc hk ih =>
    by_cases he : h' a = h a
    · rcases ih with rfl | hr | ⟨h1, _⟩
      · rw [he, nil0] at hc; cases hc
      · exact .inr (.inl (.step hr (he ▸ hc) hk))
      · rw [he, hi a h1] at hc; cases hc
    · obtain ⟨_, c', hc', hkids, _, _⟩ := hw.cells a he
      rw [hc] at hc'; cases hc'
      exact hkids k hk

theorem Inv.write {f : StampFacts} {s : St} (I : Inv s) (hf : f.inPlaceOnlyIfOwned = true)
    (i : Nat) (t : Txn) (h' : Heap) (nxt' root' : Nat) (ht : s.txns i = some t)
    (hw : WriteOk f s.heap s.nxt t h' nxt' root') :
    Inv { heap := h', nxt := nxt', views := s.views, txns := upd s.txns i (some ⟨t.id, root'⟩) } := by
  -- views and the other transactions are not touched
  have frV : ∀ v ∈ s.views, ∀ a, Reach s.heap v.root a → h' a = s.heap a := fun v hv =>
    hw.untouched hf (I.vBound v hv) (fun a c ha hc hst => I.tOwnV i t ht a c ha hc hst v hv)
  have frT : ∀ j u, j ≠ i → s.txns j = some u → ∀ a, Reach s.heap u.root a → h' a = s.heap a :=
    fun j u hj hu => hw.untouched hf (I.tBound j u hu)
      (fun a c ha hc hst => I.tOwnT i t ht a c ha hc hst j u hj hu)
  have rV : ∀ v ∈ s.views, ∀ a, Reach h' v.root a ↔ Reach s.heap v.root a := fun v hv a =>
    Reach.frame (frV v hv)
  have rT : ∀ j u, j ≠ i → s.txns j = some u → ∀ a, Reach h' u.root a ↔ Reach s.heap u.root a :=
    fun j u hj hu a => Reach.frame (frT j u hj hu)
  have nil0' : h' 0 = none := by
    apply Classical.byContradiction
    intro hne
    have hne' : h' 0 ≠ s.heap 0 := by rw [I.nil0]; exact hne
    obtain ⟨_, c', _, _, hlt, _⟩ := hw.cells 0 hne'
    obtain ⟨_, c, hc, _⟩ := hlt I.pos
    rw [I.nil0] at hc; cases hc
  have good : ∀ a, Reach h' root' a → Good s.heap s.nxt nxt' t.root a := fun a ha =>
    hw.reach_good I.nil0 I.hi ha
  -- a cell of the new tree that carries the writer's id was the writer's before, or is fresh
  have own : ∀ a c', Reach h' root' a → h' a = some c' → c'.stamp = t.id →
      (s.nxt ≤ a) ∨ (Reach s.heap t.root a ∧ ∃ c, s.heap a = some c ∧ c.stamp = t.id) := by
    intro a c' ha hc' hst
    rcases good a ha with rfl | hr | ⟨h1, _⟩
    · rw [nil0'] at hc'; cases hc'
    · by_cases he : h' a = s.heap a
      · exact .inr ⟨hr, c', he ▸ hc', hst⟩
      · obtain ⟨_, c'', hc'', _, hlt, _⟩ := hw.cells a he
        rw [hc'] at hc''; cases hc''
        obtain ⟨_, c, hc, hs, _⟩ := hlt (I.tBound i t ht a hr)
        exact .inr ⟨hr, c, hc, by omega⟩
    · exact .inl h1
  refine Inv.mk' nil0' (Nat.lt_of_lt_of_le I.pos hw.mono) ?_ ?_ ?_ ?_ ?_ ?_ ?_
  · intro a ha
    apply Classical.byContradiction
    intro hne
    have hne' : h' a ≠ s.heap a := by rw [I.hi a (Nat.le_trans hw.mono ha)]; exact hne
    have := (hw.cells a hne').1
    omega
  · intro v hv a ha
    exact Nat.lt_of_lt_of_le (I.vBound v hv a ((rV v hv a).1 ha)) hw.mono
  · intro v hv a c ha hc
    have ha' := (rV v hv a).1 ha
    rw [frV v hv a ha'] at hc
    exact I.vStamp v hv a c ha' hc
  · intro j u hu a ha
    by_cases hj : j = i
    · subst hj; simp only [upd_same, Option.some.injEq] at hu; subst hu
      rcases good a ha with rfl | hr | ⟨_, h2⟩
      · exact Nat.lt_of_lt_of_le I.pos hw.mono
      · exact Nat.lt_of_lt_of_le (I.tBound j t ht a hr) hw.mono
      · exact h2
    · rw [upd_other _ _ _ _ hj] at hu
      exact Nat.lt_of_lt_of_le (I.tBound j u hu a ((rT j u hj hu a).1 ha)) hw.mono
  · intro j u hu a c ha hc
    by_cases hj : j = i
    · subst hj; simp only [upd_same, Option.some.injEq] at hu; subst hu
      simp only at ha ⊢
      by_cases he : h' a = s.heap a
      · rcases good a ha with rfl | hr | ⟨h1, _⟩
        · rw [nil0'] at hc; cases hc
        · exact I.tStamp j t ht a c hr (he ▸ hc)
        · rw [he, I.hi a h1] at hc; cases hc
      · obtain ⟨_, c'', hc'', _, hlt, hge⟩ := hw.cells a he
        rw [hc] at hc''; cases hc''
        by_cases hx : a < s.nxt
        · obtain ⟨hr, c0, hc0, hs, _⟩ := hlt hx
          have := I.tStamp j t ht a c0 hr hc0
          omega
        · exact hge (Nat.le_of_not_lt hx)
    · rw [upd_other _ _ _ _ hj] at hu
      have ha' := (rT j u hj hu a).1 ha
      rw [frT j u hj hu a ha'] at hc
      exact I.tStamp j u hu a c ha' hc
  · intro j u hu a c ha hc hst v hv hrv
    have hrv' := (rV v hv a).1 hrv
    by_cases hj : j = i
    · subst hj; simp only [upd_same, Option.some.injEq] at hu; subst hu
      simp only at ha hst
      rcases own a c ha hc hst with h1 | ⟨hr, c0, hc0, hs0⟩
      · have := I.vBound v hv a hrv'; omega
      · exact I.tOwnV j t ht a c0 hr hc0 hs0 v hv hrv'
    · rw [upd_other _ _ _ _ hj] at hu
      have ha' := (rT j u hj hu a).1 ha
      rw [frT j u hj hu a ha'] at hc
      exact I.tOwnV j u hu a c ha' hc hst v hv hrv'
  · intro j u hu a c ha hc hst k u' hk hu' hru
    by_cases hj : j = i
    · subst hj; simp only [upd_same, Option.some.injEq] at hu; subst hu
      simp only at ha hst
      have hkj : k ≠ j := hk
      rw [upd_other _ _ _ _ hkj] at hu'
      have hru' := (rT k u' hkj hu' a).1 hru
      rcases own a c ha hc hst with h1 | ⟨hr, c0, hc0, hs0⟩
      · have := I.tBound k u' hu' a hru'; omega
      · exact I.tOwnT j t ht a c0 hr hc0 hs0 k u' hkj hu' hru'
    · rw [upd_other _ _ _ _ hj] at hu
      have ha' := (rT j u hj hu a).1 ha
      rw [frT j u hj hu a ha'] at hc
      by_cases hki : k = i
      · subst hki; simp only [upd_same, Option.some.injEq] at hu'; subst hu'
        simp only at hru
        rcases good a hru with rfl | hr | ⟨h1, _⟩
        · rw [I.nil0] at hc; cases hc
        · exact I.tOwnT j u hu a c ha' hc hst k t hk ht hr
        · have := I.tBound j u hu a ha'; omega
      · rw [upd_other _ _ _ _ hki] at hu'
        have hru' := (rT k u' hki hu' a).1 hru
        exact I.tOwnT j u hu a c ha' hc hst k u' hk hu' hru'

/-! ### every step, every run -/

theorem Txn.idAfter_ok {f : StampFacts} (hf : f.ok = true) (k : Pub) (t : Txn) : t.idAfter f k = t.id + 1 := by
  simp [Txn.idAfter, StampFacts.ok_bumps hf k]

theorem Inv.step {f : StampFacts} (hf : f.ok = true) {s s' : St} (I : Inv s) (h : Step f s s') : Inv s' := by
  cases h with
  | newTree => exact I.newTree
  | begin i v id0 hv =>
    simp only [StampFacts.ok_idFrom hf, if_true]
    exact I.begin i v hv
  | abandon i => exact I.abandon i
  | publish i t k ht =>
    simp only [Txn.idAfter_ok hf]
    exact I.publish i t ht
  | write i t h' nxt' root' ht hw => exact I.write (StampFacts.ok_inPlace hf) i t h' nxt' root' ht hw

/-- one step leaves every cell reachable from a published view as it was -/
theorem Step.frozen {f : StampFacts} (hf : f.ok = true) {s s' : St} (I : Inv s) (h : Step f s s')
    {v : View} (hv : v ∈ s.views) : ∀ a, Reach s.heap v.root a → s'.heap a = s.heap a := by
  cases h with
  | newTree => intro _ _; rfl
  | begin => intro _ _; rfl
  | abandon => intro _ _; rfl
  | publish => intro _ _; rfl
  | write i t h' nxt' root' ht hw =>
    exact hw.untouched (StampFacts.ok_inPlace hf) (I.vBound v hv)
      (fun a c ha hc hst => I.tOwnV i t ht a c ha hc hst v hv)

/-- … and so does every run -/
theorem Steps.inv_frozen {f : StampFacts} (hf : f.ok = true) {s s' : St} (I : Inv s) (h : Steps f s s') :
    Inv s' ∧ ∀ v ∈ s.views, ∀ a, Reach s.heap v.root a → s'.heap a = s.heap a := by
  induction h with
  | refl => exact ⟨I, fun _ _ _ _ => rfl⟩
  | @tail s' s'' hs hstep ih =>
    obtain ⟨I', fr⟩ := ih
    refine ⟨I'.step hf hstep, ?_⟩
    intro v hv a ha
    have ha' : Reach s'.heap v.root a := (Reach.frame (fr v hv)).2 ha
    rw [hstep.frozen hf I' (hs.views_mono hv) a ha', fr v hv a ha]

/-- the states that can arise -/
def Reachable (f : StampFacts) (s : St) : Prop := Steps f init s

theorem Reachable.inv {f : StampFacts} (hf : f.ok = true) {s : St} (h : Reachable f s) : Inv s :=
  (Steps.inv_frozen hf Inv.init h).1

/-! ## an executable write: path copying as `cloneNode` does it -/

/-- the part of `WriteOk` that speaks about cells, with the allocation pointer at `n` -/
structure CellsOk (f : StampFacts) (h0 : Heap) (nxt0 : Nat) (t : Txn) (h : Heap) (n : Nat) : Prop where
  mono : nxt0 ≤ n
  cells : ∀ x, h x ≠ h0 x → x < n ∧ ∃ c', h x = some c' ∧
      (∀ k ∈ c'.kids, Good h0 nxt0 n t.root k) ∧
      (x < nxt0 → Reach h0 t.root x ∧ ∃ c, h0 x = some c ∧ c'.stamp = c.stamp ∧
        (f.inPlaceOnlyIfOwned = true → c.stamp = t.id)) ∧
      (nxt0 ≤ x → c'.stamp ≤ t.id)

theorem Good.mono {h : Heap} {nxt n n' root k : Nat} (hn : n ≤ n') (g : Good h nxt n root k) :
    Good h nxt n' root k := by
  rcases g with h0 | hr | ⟨h1, h2⟩
  · exact .inl h0
  · exact .inr (.inl hr)
  · exact .inr (.inr ⟨h1, Nat.lt_of_lt_of_le h2 hn⟩)

theorem CellsOk.refl (f : StampFacts) (h0 : Heap) (nxt0 : Nat) (t : Txn) : CellsOk f h0 nxt0 t h0 nxt0 :=
  ⟨Nat.le_refl _, fun _ hx => absurd rfl hx⟩

theorem CellsOk.weaken {f : StampFacts} {h0 h : Heap} {nxt0 n n' : Nat} {t : Txn}
    (c : CellsOk f h0 nxt0 t h n) (hn : n ≤ n') : CellsOk f h0 nxt0 t h n' := by
  refine ⟨Nat.le_trans c.mono hn, ?_⟩
  intro x hx
  obtain ⟨h1, c', hc', hk, h2, h3⟩ := c.cells x hx
  exact ⟨Nat.lt_of_lt_of_le h1 hn, c', hc', fun k hk' => (hk k hk').mono hn, h2, h3⟩

theorem CellsOk.toWriteOk {f : StampFacts} {h0 h : Heap} {nxt0 n root' : Nat} {t : Txn}
    (c : CellsOk f h0 nxt0 t h n) (g : Good h0 nxt0 n t.root root') : WriteOk f h0 nxt0 t h n root' :=
  ⟨c.mono, c.cells, g⟩

/-- `cloneNode(a)` followed by the update `g` of the (possibly copied) cell: in place iff the
    stamp test says so, otherwise a copy.  The copy of an inner node is stamped with the
    transaction's id (`restamp`); the copy of a `part` leaf is not (`setTxnID` does nothing on
    a leaf, its stamp stays 0), so it is copied again by the next write.  Returns the heap,
    the allocation pointer and the address the parent has to point to. -/
def put (f : StampFacts) (T : Nat) (restamp : Bool) (h0 : Heap) (a : Nat) (g : Cell → Cell) (hn : Heap × Nat) :
    (Heap × Nat) × Nat :=
  match h0 a with
  | none => (hn, a)
  | some c =>
    if f.inPlaceOnlyIfOwned = true → c.stamp = T then
      ((hn.1.set a { g c with stamp := c.stamp }, hn.2), a)
    else
      ((hn.1.set hn.2 { g c with stamp := if restamp then T else min c.stamp T }, hn.2 + 1), hn.2)

theorem put_ok {f : StampFacts} {h0 h : Heap} {nxt0 n a : Nat} {t : Txn} {g : Cell → Cell} {rs : Bool}
    (hi : ∀ x, nxt0 ≤ x → h0 x = none)
    (c : CellsOk f h0 nxt0 t h n) (ha : Reach h0 t.root a)
    (hg : ∀ c0, h0 a = some c0 → ∀ k ∈ (g c0).kids, Good h0 nxt0 n t.root k) :
    CellsOk f h0 nxt0 t (put f t.id rs h0 a g (h, n)).1.1 (put f t.id rs h0 a g (h, n)).1.2 ∧
    n ≤ (put f t.id rs h0 a g (h, n)).1.2 ∧
    Good h0 nxt0 (put f t.id rs h0 a g (h, n)).1.2 t.root (put f t.id rs h0 a g (h, n)).2 := by
  unfold put
  cases hc : h0 a with
  | none => exact ⟨c, Nat.le_refl _, .inr (.inl ha)⟩
  | some c0 =>
    simp only
    have hlt : a < nxt0 := by
      apply Classical.byContradiction
      intro hge
      rw [hi a (Nat.le_of_not_lt hge)] at hc; cases hc
    split
    · rename_i hown
      refine ⟨⟨c.mono, ?_⟩, Nat.le_refl _, .inr (.inl ha)⟩
      intro x hx
      by_cases hxa : x = a
      · subst hxa
        refine ⟨Nat.lt_of_lt_of_le hlt c.mono, _, Heap.set_same _ _ _, hg c0 hc, ?_, ?_⟩
        · intro _; exact ⟨ha, c0, hc, rfl, hown⟩
        · intro hge; omega
      · simp only [Heap.set_other _ _ _ _ hxa] at hx ⊢
        exact c.cells x hx
    · refine ⟨⟨Nat.le_succ_of_le c.mono, ?_⟩, Nat.le_succ _, .inr (.inr ⟨c.mono, Nat.lt_succ_self _⟩)⟩
      intro x hx
      by_cases hxn : x = n
      · subst hxn
        refine ⟨Nat.lt_succ_self _, _, Heap.set_same _ _ _, fun k hk => (hg c0 hc k hk).mono (Nat.le_succ _), ?_, ?_⟩
        · intro hlt'; have := c.mono; omega
        · intro _; simp only; split
          · exact Nat.le_refl _
          · exact Nat.min_le_right _ _
      · simp only [Heap.set_other _ _ _ _ hxn] at hx ⊢
        exact (c.weaken (Nat.le_succ _)).cells x hx

/-- what happens at the end of the path (pointers already resolved) -/
inductive Act' where
  /-- the pointer to the node (in its parent, or the root pointer) is redirected -/
  | replace (b : Nat)
  /-- the node is cloned-or-owned and gets a new payload and new children -/
  | edit (restamp : Bool) (val : Nat) (kids : List Nat)

/-- descend along `path` (child indices), apply the action at the end, and re-link every node
    on the way back up by the `cloneNode` rule -/
def wr (f : StampFacts) (T : Nat) (h0 : Heap) (act : Act') : List Nat → Nat → Heap × Nat → (Heap × Nat) × Nat
  | [], a, hn =>
    match act with
    | .replace b => (hn, b)
    | .edit rs v ks => put f T rs h0 a (fun c => { c with val := v, kids := ks }) hn
  | i :: p, a, hn =>
    match h0 a with
    | none => (hn, a)
    | some c =>
      match c.kids[i]? with
      | none => (hn, a)
      | some k =>
        let r := wr f T h0 act p k hn
        put f T true h0 a (fun c => { c with kids := c.kids.set i r.2 }) r.1

def Act'.Good (h0 : Heap) (nxt0 n root : Nat) : Act' → Prop
  | .replace b => Cow.Good h0 nxt0 n root b
  | .edit _ _ ks => ∀ k ∈ ks, Cow.Good h0 nxt0 n root k

theorem wr_ok {f : StampFacts} {h0 : Heap} {nxt0 : Nat} {t : Txn} {act : Act'}
    (hi : ∀ x, nxt0 ≤ x → h0 x = none) (p : List Nat) :
    ∀ (a : Nat) (h : Heap) (n : Nat), CellsOk f h0 nxt0 t h n → Reach h0 t.root a →
      act.Good h0 nxt0 n t.root →
      CellsOk f h0 nxt0 t (wr f t.id h0 act p a (h, n)).1.1 (wr f t.id h0 act p a (h, n)).1.2 ∧
      n ≤ (wr f t.id h0 act p a (h, n)).1.2 ∧
      Good h0 nxt0 (wr f t.id h0 act p a (h, n)).1.2 t.root (wr f t.id h0 act p a (h, n)).2 := by
  induction p with
  | nil =>
    intro a h n c ha hact
    cases act with
    | replace b => exact ⟨c, Nat.le_refl _, hact⟩
    | edit rs v ks => exact put_ok hi c ha (fun _ _ k hk => hact k hk)
  | cons i p ih =>
    intro a h n c ha hact
    simp only [wr]
    cases hc : h0 a with
    | none => exact ⟨c, Nat.le_refl _, .inr (.inl ha)⟩
    | some c0 =>
      simp only
      cases hk : c0.kids[i]? with
      | none => exact ⟨c, Nat.le_refl _, .inr (.inl ha)⟩
      | some k =>
        simp only
        have hkmem : k ∈ c0.kids := List.mem_of_getElem? hk
        obtain ⟨c1, hle, hgood⟩ := ih k h n c (.step ha hc hkmem) hact
        have := put_ok (rs := true) (g := fun c => { c with kids := c.kids.set i (wr f t.id h0 act p k (h, n)).2 })
          hi c1 ha (by
            intro c0' hc0' k' hk'
            rw [hc] at hc0'; cases hc0'
            rcases List.mem_or_eq_of_mem_set hk' with hm | rfl
            · exact .inr (.inl (.step ha hc hm))
            · exact hgood)
        exact ⟨this.1, Nat.le_trans hle this.2.1, this.2.2⟩

/-! ### write operations as data -/

/-- a pointer a write may store, named without reference to concrete addresses -/
inductive Ref where
  | nil
  /-- the `j`-th cell allocated by this write -/
  | fresh (j : Nat)
  /-- the node found by following these child indices from the transaction's root -/
  | at (p : List Nat)
  deriving Repr, DecidableEq

def walk (h : Heap) : List Nat → Nat → Nat
  | [], a => a
  | i :: p, a =>
    match h a with
    | none => 0
    | some c =>
      match c.kids[i]? with
      | none => 0
      | some k => walk h p k

theorem walk_good (h : Heap) (root : Nat) (p : List Nat) : ∀ a, Reach h root a →
    walk h p a = 0 ∨ Reach h root (walk h p a) := by
  induction p with
  | nil => intro a ha; exact .inr ha
  | cons i p ih =>
    intro a ha
    simp only [walk]
    cases hc : h a with
    | none => exact .inl rfl
    | some c =>
      simp only
      cases hk : c.kids[i]? with
      | none => exact .inl rfl
      | some k => exact ih k (.step ha hc (List.mem_of_getElem? hk))

def Ref.res (h : Heap) (root nxt nf : Nat) : Ref → Nat
  | .nil => 0
  | .fresh j => if j < nf then nxt + j else 0
  | .at p => walk h p root

theorem Ref.res_good (h : Heap) (root nxt nf : Nat) (r : Ref) :
    Good h nxt (nxt + nf) root (r.res h root nxt nf) := by
  cases r with
  | nil => exact .inl rfl
  | fresh j =>
    simp only [Ref.res]
    split
    · exact .inr (.inr ⟨Nat.le_add_right _ _, by omega⟩)
    · exact .inl rfl
  | «at» p =>
    rcases walk_good h root p root .root with h0 | hr
    · exact .inl h0
    · exact .inr (.inl hr)

/-- a cell to allocate: `newLeaf` (stamp 0), `promote`/new `node4` (stamp `txnID`),
    `clone(false)` (the stamp of the original); never above the transaction's id -/
structure FreshCell where
  stamp : Nat
  val : Nat
  kids : List Ref
  deriving Repr, DecidableEq

inductive Act where
  | replace (r : Ref)
  | edit (restamp : Bool) (val : Nat) (kids : List Ref)
  deriving Repr, DecidableEq

/-- one Insert / Modify / Delete, abstractly: allocate some cells, go down a path, change the
    node at its end (or redirect the pointer to it), clone-or-mutate the nodes above -/
structure WOp where
  path : List Nat
  fresh : List FreshCell
  act : Act
  deriving Repr, DecidableEq

def Act.res (g : Ref → Nat) : Act → Act'
  | .replace r => .replace (g r)
  | .edit rs v ks => .edit rs v (ks.map g)

/-- the heap after allocating the fresh cells at `nxt, nxt+1, …` -/
def allocFresh (T : Nat) (g : Ref → Nat) (fr : List FreshCell) (nxt : Nat) (h : Heap) : Heap := fun x =>
  if nxt ≤ x then
    match fr[x - nxt]? with
    | some fc => some ⟨min fc.stamp T, fc.val, fc.kids.map g⟩
    | none => h x
  else h x

theorem allocFresh_ok (f : StampFacts) (h0 : Heap) (nxt0 : Nat) (t : Txn) (fr : List FreshCell) :
    CellsOk f h0 nxt0 t
      (allocFresh t.id (Ref.res h0 t.root nxt0 fr.length) fr nxt0 h0) (nxt0 + fr.length) := by
  refine ⟨Nat.le_add_right _ _, ?_⟩
  intro x hx
  unfold allocFresh at hx ⊢
  by_cases hge : nxt0 ≤ x
  · simp only [hge, if_true] at hx ⊢
    cases hfc : fr[x - nxt0]? with
    | none => simp only [hfc] at hx; exact absurd rfl hx
    | some fc =>
      simp only
      have hlt : x - nxt0 < fr.length := by
        apply Classical.byContradiction
        intro hnl
        rw [List.getElem?_eq_none (Nat.le_of_not_lt hnl)] at hfc; cases hfc
      refine ⟨by omega, _, rfl, ?_, fun h => by omega, fun _ => Nat.min_le_right _ _⟩
      intro k hk
      obtain ⟨r, _, rfl⟩ := List.mem_map.1 hk
      exact Ref.res_good h0 t.root nxt0 fr.length r
  · simp only [hge, if_false] at hx; exact absurd rfl hx

/-- the executable write step of transaction `i` -/
def St.write (f : StampFacts) (s : St) (i : Nat) (w : WOp) : St :=
  match s.txns i with
  | none => s
  | some t =>
    let g := Ref.res s.heap t.root s.nxt w.fresh.length
    let r := wr f t.id s.heap (w.act.res g) w.path t.root
      (allocFresh t.id g w.fresh s.nxt s.heap, s.nxt + w.fresh.length)
    { heap := r.1.1, nxt := r.1.2, views := s.views, txns := upd s.txns i (some ⟨t.id, r.2⟩) }

/-- the executable write is an instance of the relational one -/
theorem St.write_ok (f : StampFacts) (s : St) (hi : ∀ a, s.nxt ≤ a → s.heap a = none) (i : Nat) (w : WOp)
    (t : Txn) (ht : s.txns i = some t) :
    ∃ root', St.write f s i w = (⟨(St.write f s i w).heap, (St.write f s i w).nxt, s.views,
        upd s.txns i (some ⟨t.id, root'⟩)⟩ : St) ∧
      WriteOk f s.heap s.nxt t (St.write f s i w).heap (St.write f s i w).nxt root' := by
  unfold St.write
  simp only [ht]
  have hact : (w.act.res (Ref.res s.heap t.root s.nxt w.fresh.length)).Good s.heap s.nxt
      (s.nxt + w.fresh.length) t.root := by
    cases w.act with
    | replace r => exact Ref.res_good _ _ _ _ r
    | edit rs v ks =>
      intro k hk
      obtain ⟨r, _, rfl⟩ := List.mem_map.1 hk
      exact Ref.res_good _ _ _ _ r
  obtain ⟨c, _, g⟩ := wr_ok (f := f) (t := t) hi w.path t.root _ _
    (allocFresh_ok f s.heap s.nxt t w.fresh) .root hact
  exact ⟨_, rfl, c.toWriteOk g⟩

theorem St.write_step (f : StampFacts) (s : St) (hi : ∀ a, s.nxt ≤ a → s.heap a = none) (i : Nat) (w : WOp) :
    St.write f s i w = s ∨ Step f s (St.write f s i w) := by
  cases ht : s.txns i with
  | none => left; unfold St.write; simp only [ht]
  | some t =>
    right
    obtain ⟨root', he, hw⟩ := St.write_ok f s hi i w t ht
    rw [he]
    exact Step.write s i t _ _ _ ht hw

/-! ### operations, runs -/

inductive Op where
  | newTree
  /-- start transaction `i` from the `v`-th published view (0 = the oldest) -/
  | begin (i v id0 : Nat)
  | abandon (i : Nat)
  | publish (i : Nat) (k : Pub)
  | write (i : Nat) (w : WOp)
  deriving Repr, DecidableEq

def St.exec (f : StampFacts) (s : St) : Op → St
  | .newTree => { s with views := ⟨0, 0⟩ :: s.views }
  | .begin i v id0 =>
    match s.views.reverse[v]? with
    | none => s
    | some vw => { s with txns := upd s.txns i (some ⟨if f.idFromPublished then vw.id else id0, vw.root⟩) }
  | .abandon i => { s with txns := upd s.txns i none }
  | .publish i k =>
    match s.txns i with
    | none => s
    | some t => { s with views := ⟨t.root, t.idAfter f k⟩ :: s.views,
                         txns := upd s.txns i (some ⟨t.idAfter f k, t.root⟩) }
  | .write i w => s.write f i w

def run (f : StampFacts) (ops : List Op) (s : St) : St := ops.foldl (St.exec f) s

theorem St.exec_step (f : StampFacts) (s : St) (hi : ∀ a, s.nxt ≤ a → s.heap a = none) (op : Op) :
    s.exec f op = s ∨ Step f s (s.exec f op) := by
  cases op with
  | newTree => exact .inr (.newTree s)
  | begin i v id0 =>
    simp only [St.exec]
    cases hv : s.views.reverse[v]? with
    | none => exact .inl rfl
    | some vw => exact .inr (.begin s i vw id0 (List.mem_reverse.1 (List.mem_of_getElem? hv)))
  | abandon i => exact .inr (.abandon s i)
  | publish i k =>
    simp only [St.exec]
    cases ht : s.txns i with
    | none => exact .inl rfl
    | some t => exact .inr (.publish s i t k ht)
  | write i w => exact St.write_step f s hi i w

/-- every run of operations is a run of the step relation -/
theorem run_steps {f : StampFacts} (hf : f.ok = true) (ops : List Op) : ∀ {s : St}, Inv s → Steps f s (run f ops s) := by
  induction ops with
  | nil => intro s _; exact .refl s
  | cons op ops ih =>
    intro s I
    simp only [run, List.foldl_cons]
    rcases St.exec_step f s I.hi op with he | hs
    · rw [he]; exact ih I
    · exact Steps.trans (.tail (.refl s) hs) (ih (I.step hf hs))

theorem run_append (f : StampFacts) (ops1 ops2 : List Op) (s : St) :
    run f (ops1 ++ ops2) s = run f ops2 (run f ops1 s) := by
  simp [run, List.foldl_append]

theorem run_reachable {f : StampFacts} (hf : f.ok = true) (ops : List Op) : Reachable f (run f ops init) :=
  run_steps hf ops Inv.init

/-! ## queries -/

/-- what a reader sees at the node found by following child indices `p` from `r`:
    payload and child pointers -/
def peek (h : Heap) (r : Nat) (p : List Nat) : Option (Nat × List Nat) :=
  (h (walk h p r)).map fun c => (c.val, c.kids)

theorem walk_frame {h h' : Heap} {r : Nat} (hfr : ∀ a, Reach h r a → h' a = h a) (p : List Nat) :
    ∀ a, Reach h r a → walk h' p a = walk h p a := by
  induction p with
  | nil => intro a _; rfl
  | cons i p ih =>
    intro a ha
    simp only [walk, hfr a ha]
    cases hc : h a with
    | none => rfl
    | some c =>
      simp only
      cases hk : c.kids[i]? with
      | none => rfl
      | some k => exact ih k (.step ha hc (List.mem_of_getElem? hk))

theorem peek_frame {h h' : Heap} {r : Nat} (hfr : ∀ a, Reach h r a → h' a = h a)
    (h0 : h 0 = none) (h0' : h' 0 = none) (p : List Nat) : peek h' r p = peek h r p := by
  unfold peek
  rw [walk_frame hfr p r .root]
  rcases walk_good h r p r .root with hz | hr
  · rw [hz, h0, h0']
  · rw [hfr _ hr]

/-- a write of one transaction leaves everything another transaction reaches as it was, even
    when both were started from the same tree and so carry the same id -/
theorem WriteOk.sibling_untouched {f : StampFacts} (hf : f.ok = true) {s : St} (I : Inv s)
    {i : Nat} {t : Txn} {h' : Heap} {nxt' root' : Nat} (ht : s.txns i = some t)
    (hw : WriteOk f s.heap s.nxt t h' nxt' root') {j : Nat} {u : Txn} (hj : j ≠ i)
    (hu : s.txns j = some u) : ∀ a, Reach s.heap u.root a → h' a = s.heap a :=
  hw.untouched (StampFacts.ok_inPlace hf) (I.tBound j u hu)
    (fun a c ha hc hst => I.tOwnT i t ht a c ha hc hst j u hj hu)

theorem T.ne_of_flat {a b : T} (h : a.flat ≠ b.flat) : a ≠ b := fun e => h (congrArg T.flat e)

/-! ## `lpm.Txn.Commit` -/

/-- `lpm.Txn.Commit()` as written: the trie is published with `prevTxnID = txnID`, so that the
    next `Trie.Txn()`/`Reuse` takes `txnID + 1`, but the committing transaction keeps its id.
    (`part.Txn.Commit` increments its own id instead.) -/
def St.lpmCommit (s : St) (i : Nat) : St :=
  match s.txns i with
  | none => s
  | some t => { s with views := ⟨t.root, t.id + 1⟩ :: s.views }

/-- followed by `Txn.Clear()` (as `lpmIndexTxn.commit` does) or by `Reuse`, it is the `publish`
    step followed by `abandon` -/
theorem St.lpmCommit_clear (f : StampFacts) (hf : f.bumpCommit = true) (s : St) (i : Nat) :
    (s.lpmCommit i).exec f (.abandon i) = (s.exec f (.publish i .commit)).exec f (.abandon i) := by
  unfold St.lpmCommit
  simp only [St.exec]
  cases ht : s.txns i with
  | none => rfl
  | some t =>
    simp only [Txn.idAfter, StampFacts.bumps, hf, if_true]
    congr 1
    funext j
    by_cases hj : j = i
    · subst hj; simp
    · simp [upd_other _ _ _ _ hj]

/-! ## scenarios (for the necessity theorems and the examples of Props/C01) -/

/-- there is a run after which a view published earlier denotes something else -/
def Breaks (f : StampFacts) : Prop :=
  ∃ (ops1 ops2 : List Op) (v : View) (n : Nat), v ∈ (run f ops1 init).views ∧
    content (run f ops2 (run f ops1 init)).heap n v.root ≠ content (run f ops1 init).heap n v.root

/-- transaction 0 builds a leaf (payload 10) under a new inner node (payload 100, stamp
    `min st txnID`) and makes that node its root: the first Insert into an empty tree -/
def Op.mkRoot (st : Nat) : Op :=
  .write 0 ⟨[], [⟨0, 10, []⟩, ⟨st, 100, [.fresh 0]⟩], .replace (.fresh 1)⟩

/-- transaction `i` rewrites its root node: new payload, children as given -/
def Op.editRoot (i val : Nat) (kids : List Ref) : Op := .write i ⟨[], [], .edit true val kids⟩

end Sdb.Cow
