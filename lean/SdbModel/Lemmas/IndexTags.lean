import SdbModel.Lemmas.IndexBase
/-!
  C04, non-unique multi-key secondary index `tagIdx` (composite keys
  `P.composite id tag` = enc tag ++ 0 ++ enc id ++ uint16 |enc id|):
  the loops of `reindexNonUnique` as map updates, the invariant `TagInv` ("the index is sorted
  and holds exactly one entry per live object and tag of it"), and its preservation by the
  calls `modify` and `delete` make (tag sets that grow, shrink, have duplicates, become empty).
  Core Lean only.
-/
namespace Sdb.Tbl
open OMap

theorem P_wf : P.WellFormed := Gen.encParams_wf

theorem comp_inj (p s p' s' : Key) (h : P.composite p s = P.composite p' s') : p = p' ∧ s = s' :=
  composite_injective P P_wf p s p' s' h

/-! ### `reindexNonUnique` as a map update -/

theorem sorted_reindexNonUnique (idx : OMap Obj) (hs : Sorted idx) (id : Key) (old new : Option Obj)
    (keys : Obj → List Key) : Sorted (reindexNonUnique idx id old new keys) := by
  unfold reindexNonUnique
  have h1 : Sorted (match new with
      | some n => (match new with | some n => keys n | none => []).foldl (fun m k => m.insert (P.composite id k) n) idx
      | none => idx) := by
    cases new with
    | none => exact hs
    | some n => exact sorted_foldl_insert _ _ _ _ hs
  cases old with
  | none => exact h1
  | some o => exact sorted_foldl_erase _ _ _ _ h1

/-- lookups after the `reindex` of an insert / update -/
theorem get_reindexNonUnique_some (idx : OMap Obj) (hs : Sorted idx) (id : Key) (old : Option Obj) (n : Obj)
    (keys : Obj → List Key) (c : Key) :
    (reindexNonUnique idx id old (some n) keys).get c =
      if c ∈ (((match old with | some o => keys o | none => []).filter
            (fun k => !(keys n).contains k)).map (P.composite id)) then none
      else if c ∈ (keys n).map (P.composite id) then some n else idx.get c := by
  unfold reindexNonUnique
  cases old with
  | none => simp only [List.filter_nil, List.map_nil, List.not_mem_nil, if_false]; exact get_foldl_insert _ _ _ _ _
  | some o =>
    simp only
    rw [get_foldl_erase _ _ _ _ (sorted_foldl_insert _ _ _ _ hs), get_foldl_insert]

/-- lookups after the `reindex` of a delete -/
theorem get_reindexNonUnique_none (idx : OMap Obj) (hs : Sorted idx) (id : Key) (o : Obj)
    (keys : Obj → List Key) (c : Key) :
    (reindexNonUnique idx id (some o) none keys).get c =
      if c ∈ (keys o).map (P.composite id) then none else idx.get c := by
  unfold reindexNonUnique
  simp only
  rw [get_foldl_erase _ _ _ _ hs]
  simp

/-- an obsolete key of the old object: erased by `reindex` -/
def TagErased (id : Key) (old : Option Obj) (n : Obj) (c : Key) : Prop :=
  ∃ oo a, old = some oo ∧ a ∈ oo.tags ∧ a ∉ n.tags ∧ c = P.composite id a

/-- a key of the new object: (re)written by `reindex` -/
def TagNew (id : Key) (n : Obj) (c : Key) : Prop := ∃ a, a ∈ n.tags ∧ c = P.composite id a

/-- the three cases of a lookup after the `reindex` of an insert / update on the tag index -/
theorem get_reindexTags_modify (tg : OMap Obj) (hs : Sorted tg) (id : Key) (old : Option Obj) (n : Obj) (c : Key) :
    (TagErased id old n c → (reindexNonUnique tg id old (some n) (·.tags)).get c = none) ∧
    (¬ TagErased id old n c → TagNew id n c → (reindexNonUnique tg id old (some n) (·.tags)).get c = some n) ∧
    (¬ TagErased id old n c → ¬ TagNew id n c → (reindexNonUnique tg id old (some n) (·.tags)).get c = tg.get c) := by
  rw [get_reindexNonUnique_some _ hs]
  have hE : c ∈ (((match old with | some o => o.tags | none => []).filter
      (fun k => !n.tags.contains k)).map (P.composite id)) ↔ TagErased id old n c := by
    unfold TagErased
    cases old with
    | none => simp
    | some oo =>
      simp only [List.mem_map, List.mem_filter, Bool.not_eq_true', List.contains_eq_mem, decide_eq_false_iff_not,
        Option.some.injEq]
      constructor
      · rintro ⟨a, ⟨h1, h2⟩, h3⟩; exact ⟨oo, a, rfl, h1, h2, h3.symm⟩
      · rintro ⟨oo', a, rfl, h1, h2, h3⟩; exact ⟨a, ⟨h1, h2⟩, h3.symm⟩
  have hN : c ∈ n.tags.map (P.composite id) ↔ TagNew id n c := by
    unfold TagNew
    simp only [List.mem_map]
    constructor
    · rintro ⟨a, h1, h2⟩; exact ⟨a, h1, h2.symm⟩
    · rintro ⟨a, h1, h2⟩; exact ⟨a, h1, h2.symm⟩
  refine ⟨?_, ?_, ?_⟩
  · intro h; rw [if_pos (hE.mpr h)]
  · intro h1 h2; rw [if_neg (fun h => h1 (hE.mp h)), if_pos (hN.mpr h2)]
  · intro h1 h2; rw [if_neg (fun h => h1 (hE.mp h)), if_neg (fun h => h2 (hN.mp h))]

/-! ### the invariant -/

/-- the non-unique index holds exactly one entry per live object and tag of it, under the
    composite key of (tag, id) -/
structure TagInv (primary : OMap Obj) (tg : OMap Obj) : Prop where
  sorted : Sorted tg
  char : ∀ c x, tg.get c = some x ↔ primary.get x.id = some x ∧ ∃ tag ∈ x.tags, c = P.composite x.id tag

theorem TagInv.nil : TagInv [] [] := ⟨sorted_nil, fun c x => by simp⟩

theorem TagInv.reindex_modify {primary tg : OMap Obj} (inv : TagInv primary tg) (n : Obj) :
    TagInv (primary.insert n.id n) (reindexNonUnique tg n.id (primary.get n.id) (some n) (·.tags)) := by
  have hgetP : ∀ k, (primary.insert n.id n).get k = if k = n.id then some n else primary.get k := by
    intro k; rw [get_insert]
  refine ⟨sorted_reindexNonUnique _ inv.sorted _ _ _ _, ?_⟩
  intro c x
  obtain ⟨gE, gN, gO⟩ := get_reindexTags_modify tg inv.sorted n.id (primary.get n.id) n c
  rw [hgetP]
  constructor
  · intro hx
    by_cases hE : TagErased n.id (primary.get n.id) n c
    · rw [gE hE] at hx; simp at hx
    · by_cases hN : TagNew n.id n c
      · rw [gN hE hN] at hx
        simp only [Option.some.injEq] at hx
        subst hx
        obtain ⟨a, ha, hc⟩ := hN
        exact ⟨by simp, a, ha, hc⟩
      · rw [gO hE hN] at hx
        have ⟨h1, tag, htag, hc⟩ := (inv.char c x).mp hx
        have hne : x.id ≠ n.id := by
          intro e
          rw [e] at h1 hc
          by_cases ht : tag ∈ n.tags
          · exact hN ⟨tag, ht, hc⟩
          · exact hE ⟨x, tag, h1, htag, ht, hc⟩
        rw [if_neg hne]
        exact ⟨h1, tag, htag, hc⟩
  · rintro ⟨h1, tag, htag, hc⟩
    split at h1
    · rename_i hid
      simp only [Option.some.injEq] at h1
      subst h1
      have hE : ¬ TagErased n.id (primary.get n.id) n c := by
        rintro ⟨oo, a, _, _, ha, hca⟩
        rw [hc] at hca
        exact ha ((comp_inj _ _ _ _ hca).2 ▸ htag)
      exact gN hE ⟨tag, htag, hc⟩
    · rename_i hid
      have hE : ¬ TagErased n.id (primary.get n.id) n c := by
        rintro ⟨oo, a, _, _, _, hca⟩
        rw [hc] at hca
        exact hid (comp_inj _ _ _ _ hca).1
      have hN : ¬ TagNew n.id n c := by
        rintro ⟨a, _, hca⟩
        rw [hc] at hca
        exact hid (comp_inj _ _ _ _ hca).1
      rw [gO hE hN]
      exact (inv.char c x).mpr ⟨h1, tag, htag, hc⟩

theorem TagInv.reindex_delete {primary tg : OMap Obj} (inv : TagInv primary tg) (hp : POk primary) (id : Key)
    (old : Obj) (ho : primary.get id = some old) :
    TagInv (primary.erase id) (reindexNonUnique tg id (some old) none (·.tags)) := by
  have hoid : old.id = id := hp.idOk _ _ ho
  have hgetP : ∀ k, (primary.erase id).get k = if k = id then none else primary.get k := by
    intro k; rw [get_erase _ hp.sorted]
  refine ⟨sorted_reindexNonUnique _ inv.sorted _ _ _ _, ?_⟩
  intro c x
  rw [get_reindexNonUnique_none _ inv.sorted, hgetP]
  simp only [List.mem_map]
  constructor
  · intro hx
    split at hx
    · simp at hx
    · rename_i hner
      have ⟨h1, tag, htag, hc⟩ := (inv.char c x).mp hx
      have hne : x.id ≠ id := by
        intro e
        rw [e, ho] at h1
        simp only [Option.some.injEq] at h1
        subst h1
        exact hner ⟨tag, htag, by rw [hc, e]⟩
      rw [if_neg hne]
      exact ⟨h1, tag, htag, hc⟩
  · rintro ⟨h1, tag, htag, hc⟩
    split at h1
    · simp at h1
    · rename_i hid
      have hner : ¬ ∃ a, a ∈ old.tags ∧ P.composite id a = c := by
        rintro ⟨a, _, hca⟩
        rw [hc] at hca
        exact hid (comp_inj _ _ _ _ hca).1.symm
      rw [if_neg hner]
      exact (inv.char c x).mpr ⟨h1, tag, htag, hc⟩

end Sdb.Tbl
