import SdbModel.Model.ReconcilerBatch
import SdbModel.Lemmas.ReconcilerMeasure

/-!
  Lemmas.ReconcilerBatch — the batch variant of a reconciliation round
  (`Model.ReconcilerBatch`): `deleteBatch` / `updateBatch` as folds of one step
  per entry, what `consumeB` collects, and the preservation of the bookkeeping
  invariant `InvL` / `RInv` by `roundB`, `quiesceB`, `advanceB`.

  The batch loop moves the change iterator past ALL changes of the round before
  the first operation is called.  The proofs replay the operations against a
  "ghost" iterator position (`ghost r a b`: the state `r` with the iterator put
  back to `a` / `b`) that advances entry by entry, so that the step lemmas of
  `Lemmas.ReconcilerStep` apply unchanged.
-/
namespace Sdb.Rec

/-! ## the ghost iterator position -/

/-- `r` with the change iterator put (back) to the positions `a` (live objects) and `b` (deletions) -/
def ghost (r : R) (a b : Nat) : R := { r with itRev := a, itDelRev := b }

@[simp] theorem ghost_objs (r : R) (a b : Nat) : (ghost r a b).objs = r.objs := rfl
@[simp] theorem ghost_dels (r : R) (a b : Nat) : (ghost r a b).dels = r.dels := rfl
@[simp] theorem ghost_tableRev (r : R) (a b : Nat) : (ghost r a b).tableRev = r.tableRev := rfl
@[simp] theorem ghost_itRev (r : R) (a b : Nat) : (ghost r a b).itRev = a := rfl
@[simp] theorem ghost_itDelRev (r : R) (a b : Nat) : (ghost r a b).itDelRev = b := rfl
@[simp] theorem ghost_refreshedAt (r : R) (a b : Nat) : (ghost r a b).refreshedAt = r.refreshedAt := rfl
@[simp] theorem ghost_items (r : R) (a b : Nat) : (ghost r a b).items = r.items := rfl
@[simp] theorem ghost_log (r : R) (a b : Nat) : (ghost r a b).log = r.log := rfl
@[simp] theorem ghost_injects (r : R) (a b : Nat) : (ghost r a b).injects = r.injects := rfl
@[simp] theorem ghost_results (r : R) (a b : Nat) : (ghost r a b).results = r.results := rfl

/-! ## `deleteBatch` and `updateBatch` as folds of one step per entry -/

/-- `r` with another call log -/
def setLog (r : R) (l : List Call) : R := { r with log := l }

@[simp] theorem setLog_log (r : R) (l : List Call) : (setLog r l).log = l := rfl
@[simp] theorem setLog_setLog (r : R) (l l' : List Call) : setLog (setLog r l) l' = setLog r l' := rfl
@[simp] theorem setLog_failing (r : R) (l : List Call) : (setLog r l).failing = r.failing := rfl
@[simp] theorem setLog_injects (r : R) (l : List Call) : (setLog r l).injects = r.injects := rfl

/-- a loop that first logs one call per element and then runs `g` over the
    elements equals the loop doing both element by element, when `g` neither
    reads nor writes the log -/
theorem foldl_log_interleave {X : Type} (g : R → X → R) (c : X → Call)
    (hcomm : ∀ r l x, g (setLog r l) x = setLog (g r x) l) (hlog : ∀ r x, (g r x).log = r.log) (xs : List X) (r : R) :
    xs.foldl g (setLog r (r.log ++ xs.map c)) = xs.foldl (fun r x => g (setLog r (r.log ++ [c x])) x) r := by
  induction xs generalizing r with
  | nil =>
    simp only [List.map_nil, List.append_nil, List.foldl_nil]
    rfl
  | cons x xs ih =>
    simp only [List.foldl_cons, List.map_cons]
    rw [← ih]
    have e1 : (g (setLog r (r.log ++ [c x])) x).log = r.log ++ [c x] := by rw [hlog]; rfl
    rw [e1, hcomm, hcomm]
    simp only [setLog_setLog, List.append_assoc, List.singleton_append]

/-- the call `DeleteBatch` makes for one entry (`fl`: the ids whose operations fail) -/
def callD (fl : List Nat) (e : BEntry) : Call := ⟨"D", e.1.id, e.1.data, !fl.contains e.1.id⟩

/-- the call `UpdateBatch` makes for one entry -/
def callU (fl : List Nat) (e : BEntry) : Call := ⟨"U", e.1.id, e.1.data, !fl.contains e.1.id⟩

/-- one entry of the delete batch: the call, and the retry when it failed -/
def stepD (fl : List Nat) (r : R) (e : BEntry) : R :=
  if fl.contains e.1.id then R.retryAdd { r with log := r.log ++ [⟨"D", e.1.id, e.1.data, false⟩] } e.1 e.2 e.2 true
  else { r with log := r.log ++ [⟨"D", e.1.id, e.1.data, true⟩] }

/-- one entry of the update batch: the call, the retry cleared on success, the result recorded -/
def stepU (fl : List Nat) (r : R) (e : BEntry) : R :=
  if fl.contains e.1.id then
    { r with log := r.log ++ [⟨"U", e.1.id, e.1.data, false⟩], results := r.results ++ [(e.1, e.1, e.2, e.1.sid, true)] }
  else
    { R.retryClear { r with log := r.log ++ [⟨"U", e.1.id, e.1.data, true⟩] } e.1.id with
      results := r.results ++ [(e.1, e.1, e.2, e.1.sid, false)] }

theorem deleteBatch_phase1 (ds : List BEntry) (r : R) (acc : List (BEntry × Bool)) :
    ds.foldl (fun (acc : R × List (BEntry × Bool)) (e : BEntry) =>
      let r := acc.1
      let failed := r.isFailing e.1.id
      ({ r with log := r.log ++ [({ op := "D", id := e.1.id, data := e.1.data, ok := !failed } : Call)] }, acc.2 ++ [(e, failed)]))
      (r, acc) =
    (setLog r (r.log ++ ds.map (callD r.failing)), acc ++ ds.map (fun e => (e, r.failing.contains e.1.id))) := by
  induction ds generalizing r acc with
  | nil => simp [setLog]
  | cons e ds ih =>
    rw [List.foldl_cons]
    simp only
    rw [ih]
    simp [setLog, callD, R.isFailing]

theorem retryAdd_setLog (r : R) (l : List Call) (o : RObj) (a b : Nat) (d : Bool) :
    R.retryAdd (setLog r l) o a b d = setLog (r.retryAdd o a b d) l := rfl

theorem retryClear_setLog (r : R) (l : List Call) (id : Nat) :
    R.retryClear (setLog r l) id = setLog (r.retryClear id) l := by
  have e : (setLog r l).items = r.items := rfl
  unfold R.retryClear
  rw [e]
  cases r.items.find? (·.id = id) <;> rfl

/-- `deleteBatch` is the loop of `stepD` over the entries -/
theorem deleteBatch_eq (r : R) (ds : List BEntry) : r.deleteBatch ds = ds.foldl (stepD r.failing) r := by
  unfold R.deleteBatch
  rw [deleteBatch_phase1]
  simp only [List.nil_append, List.foldl_map]
  rw [foldl_log_interleave (fun (r' : R) (e : BEntry) => if r.failing.contains e.1.id then r'.retryAdd e.1 e.2 e.2 true else r')
    (callD r.failing)]
  · congr 1
    funext r' e
    unfold stepD callD
    cases r.failing.contains e.1.id <;> rfl
  · intro r' l e
    split
    · exact retryAdd_setLog ..
    · rfl
  · intro r' e
    split <;> rfl

/-- the first loop of `updateBatch` (the calls) -/
def updCalls (acc : R × List (BEntry × Bool)) (e : BEntry) : R × List (BEntry × Bool) :=
  let r := acc.1
  let failed := r.isFailing e.1.id
  let r : R := { r with log := r.log ++ [({ op := "U", id := e.1.id, data := e.1.data, ok := !failed } : Call)] }
  let acts := r.injects.filter (fun (a : Nat × Inject) => a.1 = e.1.id)
  let rest := r.injects.filter (fun (a : Nat × Inject) => a.1 ≠ e.1.id)
  let r : R := acts.foldl (fun (r : R) (a : Nat × Inject) => r.applyInject a.2) { r with injects := rest }
  (r, acc.2 ++ [(e, failed)])

theorem updateBatch_unfold (r : R) (us : List BEntry) : r.updateBatch us =
    (us.foldl updCalls (r, [])).2.foldl (fun (r : R) (x : BEntry × Bool) =>
      let r := if x.2 then r else r.retryClear x.1.1.id
      { r with results := r.results ++ [(x.1.1, x.1.1, x.1.2, x.1.1.sid, x.2)] }) (us.foldl updCalls (r, [])).1 := rfl

theorem updCalls_noinj (r : R) (hinj : r.injects = []) (acc : List (BEntry × Bool)) (e : BEntry) :
    updCalls (r, acc) e = (setLog r (r.log ++ [callU r.failing e]), acc ++ [(e, r.failing.contains e.1.id)]) := by
  unfold updCalls
  simp only [hinj, List.filter_nil, List.foldl_nil]
  cases r
  simp_all [setLog, callU, R.isFailing]

theorem updateBatch_phase1 (us : List BEntry) (r : R) (hinj : r.injects = []) (acc : List (BEntry × Bool)) :
    us.foldl updCalls (r, acc) =
    (setLog r (r.log ++ us.map (callU r.failing)), acc ++ us.map (fun e => (e, r.failing.contains e.1.id))) := by
  induction us generalizing r acc with
  | nil => simp [setLog]
  | cons e us ih =>
    rw [List.foldl_cons, updCalls_noinj r hinj, ih (setLog r (r.log ++ [callU r.failing e])) hinj]
    simp [setLog]

/-- `updateBatch` is the loop of `stepU` over the entries (no writes from inside an Update) -/
theorem updateBatch_eq (r : R) (us : List BEntry) (hinj : r.injects = []) : r.updateBatch us = us.foldl (stepU r.failing) r := by
  rw [updateBatch_unfold, updateBatch_phase1 us r hinj]
  simp only [List.nil_append, List.foldl_map]
  rw [foldl_log_interleave (fun (r' : R) (e : BEntry) =>
      ({ (if r.failing.contains e.1.id then r' else r'.retryClear e.1.id) with
        results := (if r.failing.contains e.1.id then r' else r'.retryClear e.1.id).results ++
          [(e.1, e.1, e.2, e.1.sid, r.failing.contains e.1.id)] } : R))
    (callU r.failing)]
  · congr 1
    funext r' e
    unfold stepU callU
    cases r.failing.contains e.1.id
    · simp only [Bool.false_eq_true, if_false, retryClear_results]
      rfl
    · rfl
  · intro r' l e
    cases r.failing.contains e.1.id
    · simp only [Bool.false_eq_true, if_false, retryClear_setLog]
      rfl
    · rfl
  · intro r' e
    cases r.failing.contains e.1.id
    · simp only [Bool.false_eq_true, if_false, retryClear_log]
    · rfl

/-! ## the invariant while the changes are collected -/

/-- the retry of an object whose change is still to be delivered (relative to the
    iterator position of `r`) is cleared -/
theorem InvL.clear_stale {r r' : R} {rs : List Res} (h : InvL r rs) (id : Nat)
    (hst : Stale r.objs r.dels r.itRev r.itDelRev id)
    (h1 : r'.objs = r.objs) (h2 : r'.dels = r.dels) (h3 : r'.tableRev = r.tableRev)
    (h4 : r'.itRev = r.itRev) (h5 : r'.itDelRev = r.itDelRev) (h6 : r'.refreshedAt = r.refreshedAt)
    (h7 : r'.items = r.items.filter (·.id ≠ id)) (h8 : r'.log = r.log) (h9 : r'.injects = r.injects) : InvL r' rs := by
  have hmem : ∀ it, it ∈ r.items.filter (·.id ≠ id) ↔ it ∈ r.items ∧ it.id ≠ id := by
    intro it; rw [List.mem_filter]; simp
  refine ⟨h.tinv.congr h1 h2 h3 h4 h5 h6, h9.trans h.noinj, ?_, ?_, ?_, ?_, ?_⟩
  · rw [h7]; exact h.items_pw.filter _
  · rw [h1, h7, h8, h4]
    intro o ho
    obtain ⟨a, b, c⟩ := h.objOK o ho
    refine ⟨fun e => ⟨(a e).1, fun it hit => (a e).2 it ((hmem it).1 hit).1⟩, fun e => ?_, c⟩
    rcases b e with ⟨it, hit, b1, b2⟩ | b
    · refine Or.inl ⟨it, (hmem it).2 ⟨hit, fun hid => ?_⟩, b1, b2⟩
      rcases hst with ⟨o', ho', e1, _, e3⟩ | ⟨d, hd, e1, _⟩
      · have : o' = o := h.tinv.obj_eq ho' ho (by omega)
        subst this
        rw [e] at e3; rcases e3 with e3 | e3 <;> cases e3
      · exact h.tinv.disj o ho d hd (by omega)
    · exact Or.inr b
  · rw [h2, h7, h8, h5]
    intro d hd
    rcases h.delOK d hd with a | ⟨it, hit, b1, b2⟩ | ⟨c, c3⟩
    · exact Or.inl a
    · by_cases hid : it.id = id
      · rcases hst with ⟨o', ho', e1, _, _⟩ | ⟨d', hd', e1, e2⟩
        · exact absurd (by omega) (h.tinv.disj o' ho' d hd)
        · have : d' = d := h.tinv.del_eq hd' hd (by omega)
          subst this
          exact Or.inl e2
      · exact Or.inr (Or.inl ⟨it, (hmem it).2 ⟨hit, hid⟩, b1, b2⟩)
    · exact Or.inr (Or.inr ⟨c, fun it hit => c3 it ((hmem it).1 hit).1⟩)
  · rw [h1, h2, h7, h4, h5]
    intro it hit
    exact h.itemOK it ((hmem it).1 hit).1
  · rw [h1, h7, h8, h3]
    intro res hres
    obtain ⟨a, a', b⟩ := h.resOK res hres
    refine ⟨a, a', fun cur hcur hcid => ?_⟩
    rcases b cur hcur hcid with ⟨b1, b2, b3⟩ | b
    · exact Or.inl ⟨b1, b2, fun it hit hi => b3 it ((hmem it).1 hit).1 hi⟩
    · exact Or.inr b

/-! ### the three cases of the collecting loop -/

theorem consumeB_nil (r : R) (last : Nat) (ds us : List BEntry) : r.consumeB [] last ds us = (r, [], last, ds, us) := by
  unfold R.consumeB; rfl

/-- the state after a change that is processed was read: iterator moved, retry cleared, counted -/
def readD (r : R) (c : Change) : R :=
  { (R.retryClear { r with itDelRev := c.rev } c.obj.id) with numReconciled := r.numReconciled + 1 }

def readU (r : R) (c : Change) : R :=
  { (R.retryClear { r with itRev := c.rev } c.obj.id) with numReconciled := r.numReconciled + 1 }

theorem consumeB_skip (r : R) (c : Change) (cs : List Change) (last : Nat) (ds us : List BEntry)
    (hc : c.deleted = false) (hn : ¬ needs c.obj.kind) :
    r.consumeB (c :: cs) last ds us = R.consumeB { r with itRev := c.rev } cs c.rev ds us := by
  rw [R.consumeB]
  have : (!c.deleted ∧ !(c.obj.kind = .pending ∨ c.obj.kind = .refreshing)) := by
    simp only [hc, Bool.not_false, true_and]
    simpa [needs] using hn
  simp only
  split
  · simp only [hc, Bool.false_eq_true, if_false]
  · rename_i h; exact absurd this h

theorem consumeB_del (r : R) (c : Change) (cs : List Change) (last : Nat) (ds us : List BEntry) (hc : c.deleted = true) :
    r.consumeB (c :: cs) last ds us =
      if (readD r c).numReconciled ≥ (readD r c).cfg.roundSize then (readD r c, cs, c.rev, ds ++ [(c.obj, c.rev)], us)
      else (readD r c).consumeB cs c.rev (ds ++ [(c.obj, c.rev)]) us := by
  rw [R.consumeB]
  simp only [hc, Bool.not_true, Bool.false_eq_true, false_and, if_false, if_true, retryClear_numReconciled]
  rfl

theorem consumeB_upd (r : R) (c : Change) (cs : List Change) (last : Nat) (ds us : List BEntry) (hc : c.deleted = false)
    (hn : needs c.obj.kind) :
    r.consumeB (c :: cs) last ds us =
      if (readU r c).numReconciled ≥ (readU r c).cfg.roundSize then (readU r c, cs, c.rev, ds, us ++ [(c.obj, c.rev)])
      else (readU r c).consumeB cs c.rev ds (us ++ [(c.obj, c.rev)]) := by
  rw [R.consumeB]
  have : ¬ (!c.deleted ∧ !(c.obj.kind = .pending ∨ c.obj.kind = .refreshing)) := by
    rintro ⟨_, h2⟩
    simp only [Bool.not_eq_eq_eq_not, Bool.not_true, decide_eq_false_iff_not] at h2
    exact h2 hn
  simp only
  split
  · rename_i h; exact absurd h this
  · simp only [hc, Bool.false_eq_true, if_false, retryClear_numReconciled]
    rfl

theorem readD_frame (r : R) (c : Change) :
    FrameC r (readD r c) ∧ (readD r c).log = r.log ∧ (readD r c).results = r.results ∧ (readD r c).itRev = r.itRev ∧
    (readD r c).itDelRev = c.rev ∧ (readD r c).items = r.items.filter (·.id ≠ c.obj.id) ∧
    (readD r c).numReconciled = r.numReconciled + 1 := by
  unfold readD
  refine ⟨by constructor <;> simp, by simp, by simp, by simp, by simp, by simp [retryClear_items], rfl⟩

theorem readU_frame (r : R) (c : Change) :
    FrameC r (readU r c) ∧ (readU r c).log = r.log ∧ (readU r c).results = r.results ∧ (readU r c).itRev = c.rev ∧
    (readU r c).itDelRev = r.itDelRev ∧ (readU r c).items = r.items.filter (·.id ≠ c.obj.id) ∧
    (readU r c).numReconciled = r.numReconciled + 1 := by
  unfold readU
  refine ⟨by constructor <;> simp, by simp, by simp, by simp, by simp, by simp [retryClear_items], rfl⟩

/-- the state `x` of the collecting loop of `batch()` started in `n`: `cs` the
    changes still to be read, `ds` / `us` the entries collected so far.  The
    bookkeeping invariant holds of `x` with the iterator put back to where it
    was in `n` (`ginv`); the collected entries are exactly what the iterator has
    passed and has to be processed -/
structure CB (n x : R) (cs : List Change) (ds us : List BEntry) : Prop where
  frame : FrameC n x
  log : x.log = n.log
  results : x.results = n.results
  ginv : InvL (ghost x n.itRev n.itDelRev) []
  ch : ChOK x [] cs
  itU : n.itRev ≤ x.itRev
  itUt : x.itRev ≤ x.tableRev
  itDle : n.itDelRev ≤ x.itDelRev
  itD : ds.foldl (fun _ e => e.2) n.itDelRev = x.itDelRev
  dsSorted : ds.Pairwise (fun e e' => e.2 < e'.2)
  dsMem : ∀ e ∈ ds, e ∈ n.dels ∧ n.itDelRev < e.2 ∧ e.2 ≤ x.itDelRev
  dsCov : ∀ d ∈ n.dels, n.itDelRev < d.2 → d.2 ≤ x.itDelRev → d ∈ ds
  usSorted : us.Pairwise (fun e e' => e.2 < e'.2)
  usMem : ∀ e ∈ us, e.1 ∈ n.objs ∧ e.2 = e.1.rev ∧ needs e.1.kind ∧ n.itRev < e.2 ∧ e.2 ≤ x.itRev
  usCov : ∀ o ∈ n.objs, needs o.kind → n.itRev < o.rev → o.rev ≤ x.itRev → (o, o.rev) ∈ us
  clrD : ∀ e ∈ ds, ∀ it ∈ x.items, it.id ≠ e.1.id
  clrU : ∀ e ∈ us, ∀ it ∈ x.items, it.id ≠ e.1.id

theorem CB.init {n : R} {cs : List Change} (h : InvL n []) (hch : ChOK n [] cs) : CB n n cs [] [] where
  frame := FrameC.refl n
  log := rfl
  results := rfl
  ginv := h.congr rfl rfl rfl rfl rfl rfl rfl rfl rfl
  ch := hch
  itU := Nat.le_refl _
  itUt := h.tinv.it_le
  itDle := Nat.le_refl _
  itD := rfl
  dsSorted := List.Pairwise.nil
  dsMem := fun e he => by cases he
  dsCov := fun d _ h1 h2 => by omega
  usSorted := List.Pairwise.nil
  usMem := fun e he => by cases he
  usCov := fun o _ _ h1 h2 => by omega
  clrD := fun e he => by cases he
  clrU := fun e he => by cases he

/-- the collecting loop passes an object that needs no processing -/
theorem CB.skip {n x : R} {c : Change} {cs : List Change} {ds us : List BEntry} (h : CB n x (c :: cs) ds us)
    (hc : c.deleted = false) (hn : ¬ needs c.obj.kind) : CB n { x with itRev := c.rev } cs ds us := by
  obtain ⟨ho, hrev, hgt⟩ := h.ch.upd c (List.mem_cons_self ..) hc
  have hU := h.itU
  refine ⟨⟨h.frame.objs, h.frame.dels, h.frame.tableRev, h.frame.refreshedAt, h.frame.pending, h.frame.cfg, h.frame.now,
      h.frame.failing, h.frame.injects⟩, h.log, h.results, h.ginv.congr rfl rfl rfl rfl rfl rfl rfl rfl rfl,
    h.ch.tail_upd hc rfl rfl rfl rfl (fun res hres => Or.inl hres), ?_, ?_, h.itDle, h.itD, h.dsSorted, h.dsMem, h.dsCov,
    h.usSorted, ?_, ?_, h.clrD, h.clrU⟩
  · show n.itRev ≤ c.rev; omega
  · show c.rev ≤ x.tableRev
    rw [hrev]; exact h.ginv.tinv.objs_le c.obj ho
  · intro e he
    obtain ⟨a, b, c', d, e'⟩ := h.usMem e he
    exact ⟨a, b, c', d, by show e.2 ≤ c.rev; omega⟩
  · intro o ho' hno h1 h2
    have h2' : o.rev ≤ c.rev := h2
    by_cases hle : o.rev ≤ x.itRev
    · exact h.usCov o ho' hno h1 hle
    · rcases h.ch.lt_upd hc o (by rw [h.frame.objs]; exact ho') (by omega) with a | a
      · rw [a] at hno; exact absurd hno hn
      · omega

/-- the collecting loop reads a deletion -/
theorem CB.readD {n x : R} {c : Change} {cs : List Change} {ds us : List BEntry} (h : CB n x (c :: cs) ds us)
    (hc : c.deleted = true) : CB n (readD x c) cs (ds ++ [(c.obj, c.rev)]) us := by
  obtain ⟨hd, hgt⟩ := h.ch.del c (List.mem_cons_self ..) hc
  obtain ⟨f0, f1, f2, f3, f4, f5, f6⟩ := readD_frame x c
  have hD := h.itDle
  have hmemf : ∀ it, it ∈ x.items.filter (·.id ≠ c.obj.id) ↔ it ∈ x.items ∧ it.id ≠ c.obj.id := by
    intro it; rw [List.mem_filter]; simp
  refine ⟨h.frame.trans f0, f1.trans h.log, f2.trans h.results, ?_, ?_, by rw [f3]; exact h.itU, by rw [f3, f0.tableRev]; exact h.itUt,
    by rw [f4]; omega, ?_, ?_, ?_, ?_, h.usSorted, ?_, ?_, ?_, ?_⟩
  · refine h.ginv.clear_stale c.obj.id (Or.inr ⟨(c.obj, c.rev), hd, rfl, ?_⟩) f0.objs f0.dels f0.tableRev rfl rfl f0.refreshedAt f5 f1 f0.injects
    show c.rev > n.itDelRev; omega
  · exact h.ch.tail_del hc f0.objs f0.dels f3 f4
  · rw [List.foldl_append, f4]; rfl
  · rw [List.pairwise_append]
    refine ⟨h.dsSorted, by simp, fun a ha b hb => ?_⟩
    simp only [List.mem_singleton] at hb
    rw [hb]
    have := (h.dsMem a ha).2.2
    show a.2 < c.rev; omega
  · intro e he
    rw [f4]
    rcases List.mem_append.1 he with he | he
    · obtain ⟨a, b, c'⟩ := h.dsMem e he
      exact ⟨a, b, by omega⟩
    · simp only [List.mem_singleton] at he
      rw [he]
      exact ⟨by rw [← h.frame.dels]; exact hd, by show n.itDelRev < c.rev; omega, Nat.le_refl _⟩
  · intro d hd' h1 h2
    rw [f4] at h2
    by_cases hle : d.2 ≤ x.itDelRev
    · exact List.mem_append_left _ (h.dsCov d hd' h1 hle)
    · rcases h.ch.lt_del hc d (by rw [h.frame.dels]; exact hd') (by omega) with a | a
      · rw [a]; exact List.mem_append_right _ (List.mem_singleton.2 rfl)
      · omega
  · intro e he
    rw [f3]; exact h.usMem e he
  · intro o ho hno h1 h2
    rw [f3] at h2; exact h.usCov o ho hno h1 h2
  · intro e he it hit
    rw [f5, hmemf] at hit
    rcases List.mem_append.1 he with he | he
    · exact h.clrD e he it hit.1
    · simp only [List.mem_singleton] at he
      rw [he]; exact hit.2
  · intro e he it hit
    rw [f5, hmemf] at hit
    exact h.clrU e he it hit.1

/-- the collecting loop reads a changed live object that is to be processed -/
theorem CB.readU {n x : R} {c : Change} {cs : List Change} {ds us : List BEntry} (h : CB n x (c :: cs) ds us)
    (hc : c.deleted = false) (hn : needs c.obj.kind) : CB n (readU x c) cs ds (us ++ [(c.obj, c.rev)]) := by
  obtain ⟨ho, hrev, hgt⟩ := h.ch.upd c (List.mem_cons_self ..) hc
  obtain ⟨f0, f1, f2, f3, f4, f5, f6⟩ := readU_frame x c
  have hU := h.itU
  have hmemf : ∀ it, it ∈ x.items.filter (·.id ≠ c.obj.id) ↔ it ∈ x.items ∧ it.id ≠ c.obj.id := by
    intro it; rw [List.mem_filter]; simp
  refine ⟨h.frame.trans f0, f1.trans h.log, f2.trans h.results, ?_, ?_, by rw [f3]; omega,
    by rw [f3, f0.tableRev, hrev]; exact h.ginv.tinv.objs_le c.obj ho, by rw [f4]; exact h.itDle, by rw [f4]; exact h.itD,
    h.dsSorted, ?_, ?_, ?_, ?_, ?_, ?_, ?_⟩
  · refine h.ginv.clear_stale c.obj.id (Or.inl ⟨c.obj, ho, rfl, ?_, hn⟩) f0.objs f0.dels f0.tableRev rfl rfl f0.refreshedAt f5 f1 f0.injects
    show c.obj.rev > n.itRev; omega
  · exact h.ch.tail_upd hc f0.objs f0.dels f3 f4 (fun res hres => Or.inl hres)
  · intro e he
    rw [f4]; exact h.dsMem e he
  · intro d hd h1 h2
    rw [f4] at h2; exact h.dsCov d hd h1 h2
  · rw [List.pairwise_append]
    refine ⟨h.usSorted, by simp, fun a ha b hb => ?_⟩
    simp only [List.mem_singleton] at hb
    rw [hb]
    have := (h.usMem a ha).2.2.2.2
    show a.2 < c.rev; omega
  · intro e he
    rw [f3]
    rcases List.mem_append.1 he with he | he
    · obtain ⟨a, b, c', d, e'⟩ := h.usMem e he
      exact ⟨a, b, c', d, by omega⟩
    · simp only [List.mem_singleton] at he
      rw [he]
      exact ⟨by rw [← h.frame.objs]; exact ho, hrev, hn, by show n.itRev < c.rev; omega, Nat.le_refl _⟩
  · intro o ho' hno h1 h2
    rw [f3] at h2
    by_cases hle : o.rev ≤ x.itRev
    · exact List.mem_append_left _ (h.usCov o ho' hno h1 hle)
    · rcases h.ch.lt_upd hc o (by rw [h.frame.objs]; exact ho') (by omega) with a | a
      · rw [a, ← hrev]; exact List.mem_append_right _ (List.mem_singleton.2 rfl)
      · omega
  · intro e he it hit
    rw [f5, hmemf] at hit
    exact h.clrD e he it hit.1
  · intro e he it hit
    rw [f5, hmemf] at hit
    rcases List.mem_append.1 he with he | he
    · exact h.clrU e he it hit.1
    · simp only [List.mem_singleton] at he
      rw [he]; exact hit.2

/-- the collecting loop: what it returns satisfies `CB`; it stops early only when the round is full -/
theorem CB.consumeB {n : R} (cs : List Change) {x : R} (last : Nat) {ds us : List BEntry} (h : CB n x cs ds us) :
    CB n (x.consumeB cs last ds us).1 (x.consumeB cs last ds us).2.1 (x.consumeB cs last ds us).2.2.2.1 (x.consumeB cs last ds us).2.2.2.2 ∧
    ((x.consumeB cs last ds us).1.numReconciled < (x.consumeB cs last ds us).1.cfg.roundSize → (x.consumeB cs last ds us).2.1 = []) := by
  induction cs generalizing x last ds us with
  | nil => rw [consumeB_nil]; exact ⟨h, fun _ => rfl⟩
  | cons c cs ih =>
    cases hc : c.deleted with
    | true =>
      rw [consumeB_del _ _ _ _ _ _ hc]
      split
      · exact ⟨h.readD hc, fun hlt => by simp only at hlt; omega⟩
      · exact ih c.rev (h.readD hc)
    | false =>
      by_cases hn : needs c.obj.kind
      · rw [consumeB_upd _ _ _ _ _ _ hc hn]
        split
        · exact ⟨h.readU hc hn, fun hlt => by simp only at hlt; omega⟩
        · exact ih c.rev (h.readU hc hn)
      · rw [consumeB_skip _ _ _ _ _ _ hc hn]
        exact ih c.rev (h.skip hc hn)

/-! ## the delete batch -/

/-- the iterator position after the entries `l` were passed, starting at `v` -/
def lastRev (l : List BEntry) (v : Nat) : Nat := l.foldl (fun _ e => e.2) v

@[simp] theorem lastRev_nil (v : Nat) : lastRev [] v = v := rfl
@[simp] theorem lastRev_cons (e : BEntry) (l : List BEntry) (v : Nat) : lastRev (e :: l) v = lastRev l e.2 := rfl

theorem lastRev_ge (l : List BEntry) (v : Nat) (h : ∀ e ∈ l, v < e.2) (hs : l.Pairwise (fun e e' => e.2 < e'.2)) : v ≤ lastRev l v := by
  induction l generalizing v with
  | nil => exact Nat.le_refl _
  | cons e l ih =>
    rw [lastRev_cons]
    rw [List.pairwise_cons] at hs
    have := ih e.2 hs.1 hs.2
    have := h e (List.mem_cons_self ..)
    omega

theorem filter_ne_self (l : List Item) (id : Nat) (h : ∀ it ∈ l, it.id ≠ id) : l.filter (·.id ≠ id) = l := by
  rw [List.filter_eq_self]
  intro it hit
  simpa using h it hit

/-- what one entry of the delete batch does -/
theorem stepD_spec (fl : List Nat) (x : R) (e : BEntry) (hclr : ∀ it ∈ x.items, it.id ≠ e.1.id) :
    FrameT x (stepD fl x e) ∧ (stepD fl x e).results = x.results ∧ (stepD fl x e).numReconciled = x.numReconciled ∧
    (stepD fl x e).log = x.log ++ [⟨"D", e.1.id, e.1.data, !fl.contains e.1.id⟩] ∧
    ∃ tail : List Item, (stepD fl x e).items = x.items.filter (·.id ≠ e.1.id) ++ tail ∧
      (∀ it ∈ tail, it.id = e.1.id ∧ it.obj.id = e.1.id ∧ it.delete = true ∧ it.inQueue = true) ∧
      tail.Pairwise (fun a b => a.id ≠ b.id) ∧ (fl.contains e.1.id = true → tail ≠ []) ∧ (fl.contains e.1.id = false → tail = []) := by
  unfold stepD
  cases hf : fl.contains e.1.id with
  | false =>
    simp only [Bool.false_eq_true, if_false, Bool.not_false]
    refine ⟨⟨rfl, rfl, rfl, rfl, rfl, rfl, rfl, rfl, rfl, rfl, rfl⟩, trivial, trivial, trivial, [], ?_, by simp, by simp, by simp, by simp⟩
    rw [List.append_nil]
    exact (filter_ne_self _ _ hclr).symm
  | true =>
    simp only [if_true, Bool.not_true]
    obtain ⟨itn, hn, n1, n2, n3, n4, n5, n6, _⟩ := retryAdd_items'
      { x with log := x.log ++ [⟨"D", e.1.id, e.1.data, false⟩] } e.1 e.2 e.2 true
    refine ⟨⟨rfl, rfl, rfl, rfl, rfl, rfl, rfl, rfl, rfl, rfl, rfl⟩, rfl, rfl, rfl, [itn], hn, ?_, by simp, by simp, by simp⟩
    intro it hit
    simp only [List.mem_singleton] at hit
    rw [hit]
    exact ⟨n1, by rw [n2], n5, n6⟩

/-- what the batch operations leave alone -/
structure FrameB (r r' : R) : Prop where
  t : FrameT r r'
  numReconciled : r'.numReconciled = r.numReconciled

theorem FrameB.refl (r : R) : FrameB r r := ⟨FrameT.refl r, rfl⟩
theorem FrameB.trans {a b c : R} (h1 : FrameB a b) (h2 : FrameB b c) : FrameB a c :=
  ⟨h1.t.trans h2.t, h2.numReconciled.trans h1.numReconciled⟩

/-- the delete batch, replayed against the ghost position `v` of the deletion
    iterator: `dl` are the collected deletions beyond `v`, in revision order,
    their retries cleared -/
theorem InvL.batch_deletes (fl : List Nat) (dl : List BEntry) {x : R} {a v : Nat} {rs : List Res}
    (hI : InvL (ghost x a v) rs)
    (hsorted : dl.Pairwise (fun e e' => e.2 < e'.2))
    (hmem : ∀ e ∈ dl, e ∈ x.dels ∧ v < e.2)
    (hcov : ∀ d ∈ x.dels, v < d.2 → d ∈ dl ∨ lastRev dl v < d.2)
    (hclr : ∀ e ∈ dl, ∀ it ∈ x.items, it.id ≠ e.1.id) :
    InvL (ghost (dl.foldl (stepD fl) x) a (lastRev dl v)) rs ∧ FrameB x (dl.foldl (stepD fl) x) ∧
    (dl.foldl (stepD fl) x).results = x.results ∧
    (∀ it ∈ (dl.foldl (stepD fl) x).items, it ∈ x.items ∨ ∃ d ∈ x.dels, it.id = d.1.id) := by
  induction dl generalizing x v with
  | nil => exact ⟨hI, FrameB.refl x, rfl, fun it hit => Or.inl hit⟩
  | cons e dl ih =>
    rw [List.pairwise_cons] at hsorted
    obtain ⟨hed, hev⟩ := hmem e (List.mem_cons_self ..)
    have hclre := hclr e (List.mem_cons_self ..)
    obtain ⟨hF, hres, hnum, hlog, tail, hitems, t1, t2, t3, t4⟩ := stepD_spec fl x e hclre
    have hge : e.2 ≤ lastRev dl e.2 := lastRev_ge dl e.2 hsorted.1 hsorted.2
    have hI1 : InvL (ghost (stepD fl x e) a e.2) rs := by
      refine hI.step_delete e (fl.contains e.1.id) e.2 _ tail hed (Nat.le_refl _) (hI.tinv.dels_le e hed) ?_ ⟨rfl, rfl, rfl⟩
        t1 t2 t3 t4 hF.objs hF.dels hF.tableRev rfl rfl hF.refreshedAt hitems hlog hF.injects
      intro y hy hgt
      rcases hcov y hy hgt with hm | hm
      · rcases List.mem_cons.1 hm with rfl | hm
        · exact Or.inl rfl
        · exact Or.inr (hsorted.1 y hm)
      · right
        rw [lastRev_cons] at hm
        show y.2 > e.2; omega
    have hne : ∀ e' ∈ dl, e'.1.id ≠ e.1.id := by
      intro e' he' hid
      have h1 := (hmem e' (List.mem_cons_of_mem _ he')).1
      have := hI.tinv.del_eq h1 hed hid
      have := hsorted.1 e' he'
      subst_vars; omega
    obtain ⟨a1, a2, a3, a4⟩ := ih (x := stepD fl x e) (v := e.2) hI1 hsorted.2
      (fun e' he' => ⟨by rw [hF.dels]; exact (hmem e' (List.mem_cons_of_mem _ he')).1, hsorted.1 e' he'⟩)
      (fun d hd hgt => by
        rw [hF.dels] at hd
        rcases hcov d hd (by omega) with hm | hm
        · rcases List.mem_cons.1 hm with rfl | hm
          · omega
          · exact Or.inl hm
        · exact Or.inr hm)
      (fun e' he' it hit => by
        rw [hitems] at hit
        rcases List.mem_append.1 hit with hit | hit
        · exact hclr e' (List.mem_cons_of_mem _ he') it (List.mem_filter.1 hit).1
        · rw [(t1 it hit).1]; exact fun h => hne e' he' h.symm)
    refine ⟨a1, (FrameB.mk hF hnum).trans a2, a3.trans hres, fun it hit => ?_⟩
    rcases a4 it hit with h | ⟨d, hd, h⟩
    · rw [hitems] at h
      rcases List.mem_append.1 h with h | h
      · exact Or.inl (List.mem_filter.1 h).1
      · exact Or.inr ⟨e, hed, (t1 it h).1⟩
    · exact Or.inr ⟨d, by rw [← hF.dels]; exact hd, h⟩

/-! ## the update batch -/

/-- what one entry of the update batch does -/
theorem stepU_spec (fl : List Nat) (x : R) (e : BEntry) (hclr : ∀ it ∈ x.items, it.id ≠ e.1.id) :
    FrameT x (stepU fl x e) ∧ (stepU fl x e).numReconciled = x.numReconciled ∧
    (stepU fl x e).results = x.results ++ [(e.1, e.1, e.2, e.1.sid, fl.contains e.1.id)] ∧
    (stepU fl x e).log = x.log ++ [⟨"U", e.1.id, e.1.data, !fl.contains e.1.id⟩] ∧
    (stepU fl x e).items = x.items.filter (·.id ≠ e.1.id) := by
  unfold stepU
  cases hf : fl.contains e.1.id with
  | false =>
    simp only [Bool.false_eq_true, if_false, Bool.not_false]
    refine ⟨by constructor <;> simp, by simp, trivial, by simp, by simp [retryClear_items]⟩
  | true =>
    simp only [if_true, Bool.not_true]
    refine ⟨⟨rfl, rfl, rfl, rfl, rfl, rfl, rfl, rfl, rfl, rfl, rfl⟩, trivial, trivial, trivial, ?_⟩
    exact (filter_ne_self _ _ hclr).symm

/-- the update batch, replayed against the ghost position `a` of the iterator:
    `ul` are the collected objects beyond `a`, in revision order, their retries cleared -/
theorem InvL.batch_updates (fl : List Nat) (ul : List BEntry) {x : R} {a w : Nat}
    (hI : InvL (ghost x a w) x.results)
    (hbelow : ∀ res ∈ x.results, res.2.2.1 ≤ a)
    (hsorted : ul.Pairwise (fun e e' => e.2 < e'.2))
    (hmem : ∀ e ∈ ul, e.1 ∈ x.objs ∧ e.2 = e.1.rev ∧ needs e.1.kind ∧ a < e.2)
    (hcov : ∀ o ∈ x.objs, needs o.kind → a < o.rev → (o, o.rev) ∈ ul ∨ lastRev ul a < o.rev)
    (hclr : ∀ e ∈ ul, ∀ it ∈ x.items, it.id ≠ e.1.id) :
    InvL (ghost (ul.foldl (stepU fl) x) (lastRev ul a) w) (ul.foldl (stepU fl) x).results ∧ FrameB x (ul.foldl (stepU fl) x) ∧
    (∀ res ∈ (ul.foldl (stepU fl) x).results, res.2.2.1 ≤ lastRev ul a) ∧
    (∀ it ∈ (ul.foldl (stepU fl) x).items, it ∈ x.items) := by
  induction ul generalizing x a with
  | nil => exact ⟨hI, FrameB.refl x, hbelow, fun it hit => hit⟩
  | cons e ul ih =>
    rw [List.pairwise_cons] at hsorted
    obtain ⟨heo, herev, hen, hea⟩ := hmem e (List.mem_cons_self ..)
    have hclre := hclr e (List.mem_cons_self ..)
    obtain ⟨hF, hnum, hres, hlog, hitems⟩ := stepU_spec fl x e hclre
    have hI1 : InvL (ghost (stepU fl x e) e.2 w) (stepU fl x e).results := by
      rw [hres, herev]
      refine hI.step_update e.1 (fl.contains e.1.id) heo hen (by show e.1.rev > a; omega) hbelow ?_
        hF.objs hF.dels hF.tableRev rfl rfl hF.refreshedAt hitems hlog hF.injects
      intro y hy hyn hgt
      rcases hcov y hy hyn hgt with hm | hm
      · rcases List.mem_cons.1 hm with hm | hm
        · left
          have : (y, y.rev).1 = e.1 := by rw [hm]
          exact this
        · right
          have := hsorted.1 _ hm
          show y.rev > e.1.rev
          simp only at this; omega
      · right
        rw [lastRev_cons] at hm
        have hge : e.2 ≤ lastRev ul e.2 := lastRev_ge ul e.2 hsorted.1 hsorted.2
        show y.rev > e.1.rev; omega
    have hne : ∀ e' ∈ ul, e'.1.id ≠ e.1.id := by
      intro e' he' hid
      obtain ⟨h1, h2, _, _⟩ := hmem e' (List.mem_cons_of_mem _ he')
      have e1 := hI.tinv.obj_eq h1 heo hid
      have := hsorted.1 e' he'
      rw [e1] at h2; omega
    obtain ⟨a1, a2, a3, a4⟩ := ih (x := stepU fl x e) (a := e.2) hI1
      (fun res hr => by
        rw [hres] at hr
        rcases List.mem_append.1 hr with hr | hr
        · have := hbelow res hr; omega
        · simp only [List.mem_singleton] at hr
          rw [hr]; exact Nat.le_refl _)
      hsorted.2
      (fun e' he' => by
        obtain ⟨h1, h2, h3, _⟩ := hmem e' (List.mem_cons_of_mem _ he')
        exact ⟨by rw [hF.objs]; exact h1, h2, h3, hsorted.1 e' he'⟩)
      (fun o ho hno hgt => by
        rw [hF.objs] at ho
        rcases hcov o ho hno (by omega) with hm | hm
        · rcases List.mem_cons.1 hm with hm | hm
          · have : (o, o.rev).2 = e.2 := by rw [hm]
            simp only at this; omega
          · exact Or.inl hm
        · exact Or.inr hm)
      (fun e' he' it hit => by
        rw [hitems] at hit
        exact hclr e' (List.mem_cons_of_mem _ he') it (List.mem_filter.1 hit).1)
    refine ⟨a1, (FrameB.mk hF hnum).trans a2, a3, fun it hit => ?_⟩
    have := a4 it hit
    rw [hitems] at this
    exact (List.mem_filter.1 this).1

/-! ## the batch phase of a round -/

theorem lastRev_le (l : List BEntry) (v W : Nat) (h : ∀ e ∈ l, e.2 ≤ W) (hv : v ≤ W) : lastRev l v ≤ W := by
  induction l generalizing v with
  | nil => exact hv
  | cons e l ih =>
    rw [lastRev_cons]
    exact ih e.2 (fun e' he' => h e' (List.mem_cons_of_mem _ he')) (h e (List.mem_cons_self ..))

theorem lastRev_ge_mem (l : List BEntry) (v : Nat) (hs : l.Pairwise (fun e e' => e.2 < e'.2)) (e : BEntry) (he : e ∈ l) :
    e.2 ≤ lastRev l v := by
  induction l generalizing v with
  | nil => cases he
  | cons e' l ih =>
    rw [lastRev_cons]
    rw [List.pairwise_cons] at hs
    rcases List.mem_cons.1 he with rfl | he
    · exact lastRev_ge l e.2 hs.1 hs.2
    · exact ih e'.2 hs.2 he

/-- the iterator jumps forward over objects none of which needs processing -/
theorem InvL.raise_itRev {r r' : R} {rs : List Res} (h : InvL r rs) (v : Nat) (hv : v ≤ r.tableRev)
    (hlt : ∀ x ∈ r.objs, needs x.kind → x.rev > r.itRev → x.rev > v)
    (h1 : r'.objs = r.objs) (h2 : r'.dels = r.dels) (h3 : r'.tableRev = r.tableRev)
    (h4 : r'.itRev = v) (h5 : r'.itDelRev = r.itDelRev) (h6 : r'.refreshedAt = r.refreshedAt)
    (h7 : r'.items = r.items) (h8 : r'.log = r.log) (h9 : r'.injects = r.injects) : InvL r' rs := by
  refine ⟨?_, ?_, ?_, ?_, ?_, ?_, ?_⟩
  · obtain ⟨a, b, c, d, e, f, g, i⟩ := h.tinv
    constructor <;> simp only [h1, h2, h3, h4, h5, h6] <;> assumption
  · rw [h9]; exact h.noinj
  · rw [h7]; exact h.items_pw
  · rw [h1, h7, h8, h4]
    intro x hx
    obtain ⟨a, b, c⟩ := h.objOK x hx
    refine ⟨a, b, fun hn => ?_⟩
    rcases c hn with c | c
    · exact Or.inl (hlt x hx hn c)
    · exact Or.inr c
  · rw [h2, h7, h8, h5]; exact h.delOK
  · rw [h1, h2, h7, h4, h5]
    intro it hit
    obtain ⟨a, b, c⟩ := h.itemOK it hit
    refine ⟨a, ?_, c⟩
    rcases b with (⟨x, hx, b1, b2, b3⟩ | b) | b
    · exact Or.inl (Or.inl ⟨x, hx, b1, hlt x hx b3 b2, b3⟩)
    · exact Or.inl (Or.inr b)
    · exact Or.inr b
  · rw [h1, h7, h8, h3]; exact h.resOK

/-- the state of a batch round after the operations ran: `co` what the collecting loop returned -/
def batchOps (co : R × List Change × Nat × List BEntry × List BEntry) (pend : Option (List Change)) : R :=
  (R.deleteBatch { co.1 with pending := pend } co.2.2.2.1).updateBatch co.2.2.2.2

/-- **the batch phase preserves the bookkeeping invariant**: from a state `n` satisfying it
    (no results waiting) with the changes `cs` of `Next`, collecting the changes, running the
    delete batch and the update batch leads to a state that satisfies it with the recorded
    results, with the iterator past exactly the changes that were collected -/
theorem InvL.batch_phase {n : R} {cs : List Change} (h : InvL n []) (hres : n.results = []) (hch : ChOK n [] cs) (last : Nat)
    (pend : Option (List Change)) :
    let co := n.consumeB cs last [] []
    let x3 := batchOps co pend
    InvL x3 x3.results ∧ ChOK x3 [] co.2.1 ∧
    x3.objs = n.objs ∧ x3.dels = n.dels ∧ x3.tableRev = n.tableRev ∧ x3.refreshedAt = n.refreshedAt ∧ x3.pending = pend ∧
    x3.cfg = n.cfg ∧ x3.now = n.now ∧ x3.failing = n.failing ∧ x3.numReconciled = co.1.numReconciled ∧
    (x3.numReconciled < x3.cfg.roundSize → co.2.1 = []) := by
  intro co x3
  obtain ⟨hcb, hfull⟩ := (CB.init h hch).consumeB cs last
  have hx3 : x3 = batchOps co pend := rfl
  have hco : co = n.consumeB cs last [] [] := rfl
  rw [← hco] at hcb hfull
  obtain ⟨b, rest, lst, ds, us⟩ := co
  simp only at hcb hfull
  unfold batchOps at hx3
  simp only at hx3
  -- the state the operations start from
  have hxb : ∃ xb : R, xb = { b with pending := pend } := ⟨_, rfl⟩
  obtain ⟨xb, hxbe⟩ := hxb
  rw [← hxbe] at hx3
  have e_objs : xb.objs = n.objs := by rw [hxbe]; exact hcb.frame.objs
  have e_dels : xb.dels = n.dels := by rw [hxbe]; exact hcb.frame.dels
  have e_inj : xb.injects = [] := by rw [hxbe]; exact hcb.frame.injects.trans h.noinj
  have e_res : xb.results = [] := by rw [hxbe]; exact hcb.results.trans hres
  have e_items : xb.items = b.items := by rw [hxbe]
  have e_itRev : xb.itRev = b.itRev := by rw [hxbe]
  have e_itDelRev : xb.itDelRev = b.itDelRev := by rw [hxbe]
  have hg0 : InvL (ghost xb n.itRev n.itDelRev) [] := by
    rw [hxbe]; exact hcb.ginv.congr rfl rfl rfl rfl rfl rfl rfl rfl rfl
  have hlastD : lastRev ds n.itDelRev = b.itDelRev := hcb.itD
  -- the delete batch
  rw [deleteBatch_eq] at hx3
  obtain ⟨hI1, hF1, hres1, hit1⟩ := hg0.batch_deletes xb.failing ds hcb.dsSorted
    (fun e he => ⟨by rw [e_dels]; exact (hcb.dsMem e he).1, (hcb.dsMem e he).2.1⟩)
    (fun d hd hgt => by
      rw [e_dels] at hd
      rw [hlastD]
      by_cases hle : d.2 ≤ b.itDelRev
      · exact Or.inl (hcb.dsCov d hd hgt hle)
      · exact Or.inr (by omega))
    (fun e he it hit => hcb.clrD e he it (by rw [← e_items]; exact hit))
  generalize ds.foldl (stepD xb.failing) xb = xd at hx3 hI1 hF1 hres1 hit1
  rw [hlastD] at hI1
  -- the update batch
  have hinjd : xd.injects = [] := hF1.t.injects.trans e_inj
  have hresd : xd.results = [] := hres1.trans e_res
  rw [updateBatch_eq _ _ hinjd] at hx3
  have hle_us : lastRev us n.itRev ≤ b.itRev := lastRev_le us _ _ (fun e he => (hcb.usMem e he).2.2.2.2) hcb.itU
  obtain ⟨hI2, hF2, hbel2, hit2⟩ := InvL.batch_updates xd.failing us (x := xd) (a := n.itRev) (w := b.itDelRev)
    (by rw [hresd]; exact hI1) (by rw [hresd]; simp) hcb.usSorted
    (fun e he => by
      obtain ⟨a1, a2, a3, a4, _⟩ := hcb.usMem e he
      exact ⟨by rw [hF1.t.objs, e_objs]; exact a1, a2, a3, a4⟩)
    (fun o ho hno hgt => by
      rw [hF1.t.objs, e_objs] at ho
      by_cases hle : o.rev ≤ b.itRev
      · exact Or.inl (hcb.usCov o ho hno hgt hle)
      · exact Or.inr (by omega))
    (fun e he it hit => by
      rcases hit1 it hit with hit' | ⟨d, hd, hid⟩
      · exact hcb.clrU e he it (by rw [← e_items]; exact hit')
      · rw [hid]
        rw [e_dels] at hd
        have ho := (hcb.usMem e he).1
        exact fun heq => h.tinv.disj e.1 ho d hd heq.symm)
  generalize us.foldl (stepU xd.failing) xd = xu at hx3 hI2 hF2 hbel2 hit2
  have hF := hF1.trans hF2
  -- the ghost position catches up with the iterator
  have hI3 : InvL xu xu.results := by
    refine hI2.raise_itRev b.itRev ?_ ?_ rfl rfl rfl ?_ ?_ rfl rfl rfl rfl
    · show b.itRev ≤ xu.tableRev
      rw [hF.t.tableRev, hxbe]; exact hcb.itUt
    · intro o ho hno hgt
      have ho' : o ∈ n.objs := by
        have : o ∈ xu.objs := ho
        rw [hF.t.objs, e_objs] at this; exact this
      have hgt' : o.rev > lastRev us n.itRev := hgt
      have hge := lastRev_ge us n.itRev (fun e he => (hcb.usMem e he).2.2.2.1) hcb.usSorted
      by_cases hle : o.rev ≤ b.itRev
      · have hm := hcb.usCov o ho' hno (by omega) hle
        have : o.rev ≤ lastRev us n.itRev := lastRev_ge_mem us n.itRev hcb.usSorted _ hm
        omega
      · omega
    · rw [hF.t.itRev, e_itRev]
    · show xu.itDelRev = b.itDelRev
      rw [hF.t.itDelRev, e_itDelRev]
  rw [hx3]
  have hch3 : ChOK xu [] rest := by
    obtain ⟨c1, c2, c3, c4, c5, c6⟩ := hcb.ch
    have o1 : xu.objs = b.objs := by rw [hF.t.objs, hxbe]
    have o2 : xu.dels = b.dels := by rw [hF.t.dels, hxbe]
    have o3 : xu.itRev = b.itRev := by rw [hF.t.itRev, e_itRev]
    have o4 : xu.itDelRev = b.itDelRev := by rw [hF.t.itDelRev, e_itDelRev]
    constructor <;> first | assumption | (simp only [o1, o2, o3, o4]; assumption)
  have hnum : xu.numReconciled = b.numReconciled := by rw [hF.numReconciled, hxbe]
  have hcfg : xu.cfg = b.cfg := by rw [hF.t.cfg, hxbe]
  refine ⟨hI3, hch3, hF.t.objs.trans e_objs, hF.t.dels.trans e_dels, ?_, ?_, ?_, ?_, ?_, ?_, hnum, ?_⟩
  · rw [hF.t.tableRev, hxbe]; exact hcb.frame.tableRev
  · rw [hF.t.refreshedAt, hxbe]; exact hcb.frame.refreshedAt
  · rw [hF.t.pending, hxbe]
  · rw [hcfg]; exact hcb.frame.cfg
  · rw [hF.t.now, hxbe]; exact hcb.frame.now
  · rw [hF.t.failing, hxbe]; exact hcb.frame.failing
  · rw [hnum, hcfg]; exact hfull

/-! ## one batch round -/

/-- the `pending` flag the round leaves: what the collecting loop did not read -/
def pendAfter (changes : List Change) (co : R × List Change × Nat × List BEntry × List BEntry) : Option (List Change) :=
  if changes.isEmpty ∧ co.1.pending.isNone then none else
    if (co.2.1.isEmpty ∧ co.1.numReconciled < co.1.cfg.roundSize) then none else some co.2.1

theorem roundB_eq' (r : R) : r.roundB =
    roundTail (batchOps (r.nextChanges.1.consumeB r.nextChanges.2 0 [] []) (pendAfter r.nextChanges.2 (r.nextChanges.1.consumeB r.nextChanges.2 0 [] [])))
      (r.nextChanges.1.consumeB r.nextChanges.2 0 [] []).2.2.1 := rfl

theorem pendAfter_none {changes : List Change} {co : R × List Change × Nat × List BEntry × List BEntry}
    (hnil : changes = [] → co.2.1 = []) (h : pendAfter changes co = none) : co.2.1 = [] := by
  unfold pendAfter at h
  split at h
  · rename_i h1; exact hnil (by simpa using h1.1)
  · split at h
    · rename_i h1; simpa using h1.1
    · cases h

theorem chOK_nil_caughtUp {x : R} (h : ChOK x [] []) : (∀ o ∈ x.objs, o.rev ≤ x.itRev) ∧ (∀ d ∈ x.dels, d.2 ≤ x.itDelRev) := by
  refine ⟨fun o ho => ?_, fun d hd => ?_⟩
  · rcases h.covO o ho with a | ⟨c, hc, _⟩
    · exact a
    · cases hc
  · rcases h.covD d hd with a | ⟨c, hc, _⟩
    · exact a
    · cases hc

/-- the state of a batch round before its tail (status commit, retries), with all the round needs to know about it -/
theorem RInv.roundB_mid {r : R} (h : RInv r) :
    let co := r.nextChanges.1.consumeB r.nextChanges.2 0 [] []
    let x3 := batchOps co (pendAfter r.nextChanges.2 co)
    InvL x3 x3.results ∧ (x3.numReconciled < x3.cfg.roundSize → CaughtUp x3) ∧
    (x3.pending = none → (∀ o ∈ x3.objs, o.rev ≤ x3.itRev) ∧ (∀ d ∈ x3.dels, d.2 ≤ x3.itDelRev)) ∧
    x3.cfg = r.cfg ∧ x3.now = r.now ∧ x3.failing = r.failing := by
  intro co x3
  have hnc : InvL r.nextChanges.1 [] ∧ r.nextChanges.1.results = [] ∧ r.nextChanges.1.cfg = r.cfg ∧ r.nextChanges.1.now = r.now ∧
      r.nextChanges.1.failing = r.failing := by
    rcases nextChanges_fst r with e | e <;> rw [e]
    · exact ⟨h.inv, h.res, rfl, rfl, rfl⟩
    · exact ⟨h.inv.set_refreshedAt _ (Nat.le_refl _), h.res, rfl, rfl, rfl⟩
  have hch := chOK_nextChanges h.inv.tinv h.sync
  have hnil : r.nextChanges.2 = [] → co.2.1 = [] := by
    intro e
    show (r.nextChanges.1.consumeB r.nextChanges.2 0 [] []).2.1 = []
    rw [e, consumeB_nil]
  obtain ⟨hI1, hres1, hc1, hn1, hf1⟩ := hnc
  obtain ⟨hI3, hch3, _, _, _, _, hp, e6, e7, e8, _, hfull⟩ := hI1.batch_phase hres1 hch 0 (pendAfter r.nextChanges.2 co)
  refine ⟨hI3, fun hlt => ?_, fun hpn => ?_, e6.trans hc1, e7.trans hn1, e8.trans hf1⟩
  · have hr := hfull hlt
    rw [hr] at hch3
    obtain ⟨a, b⟩ := chOK_nil_caughtUp hch3
    exact ⟨fun o ho _ => a o ho, b⟩
  · have hr : co.2.1 = [] := pendAfter_none hnil (hp.symm.trans hpn)
    have hch3' : ChOK x3 [] co.2.1 := hch3
    rw [hr] at hch3'
    exact chOK_nil_caughtUp hch3'

/-- one batch reconciliation round preserves the invariant -/
theorem RInv.roundB {r : R} (h : RInv r) : RInv r.roundB := by
  rw [roundB_eq']
  obtain ⟨hI3, hcu3, hsy, _⟩ := h.roundB_mid
  generalize batchOps (r.nextChanges.1.consumeB r.nextChanges.2 0 [] [])
    (pendAfter r.nextChanges.2 (r.nextChanges.1.consumeB r.nextChanges.2 0 [] [])) = x3 at hI3 hcu3 hsy
  obtain ⟨hI, hres, hnum, hT⟩ := roundTail_inv (r.nextChanges.1.consumeB r.nextChanges.2 0 [] []).2.2.1 hI3 hcu3
  refine ⟨hI, hres, hnum, ?_⟩
  intro hpn
  rw [hT.pending] at hpn
  obtain ⟨s1, s2⟩ := hsy hpn
  rw [hT.itRev, hT.itDelRev, hT.refreshedAt]
  refine ⟨fun o ho => ?_, fun d hd => Or.inl (s2 d (hT.dels d hd))⟩
  rcases hT.objs o ho with a | a
  · exact Or.inl (s1 o a)
  · right
    have := hI3.tinv.ref_le
    omega

theorem RInv.quiesceB {r : R} (h : RInv r) (fuel : Nat) : RInv (r.quiesceB fuel) := by
  induction fuel generalizing r with
  | zero => exact h
  | succ n ih =>
    unfold R.quiesceB
    simp only
    split
    · exact ih h.fireTimer.roundB
    · exact h.fireTimer

theorem RInv.advanceB {r : R} (h : RInv r) (ms fuel : Nat) : RInv (r.advanceB ms fuel) := by
  induction fuel generalizing r ms with
  | zero => exact h.setNow _
  | succ n ih =>
    unfold R.advanceB
    simp only
    split
    · split
      · exact ih ((h.setNow _).quiesceB 64) _
      · exact h.setNow _
    · exact h.setNow _

end Sdb.Rec
