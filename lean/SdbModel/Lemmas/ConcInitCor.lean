import SdbModel.Lemmas.ConcInitSched

/-!
  ConcInitCor — consequences of the invariants `CI` / `CI2` in the form used by
  the property files C06Conc / C19Conc: the order of `storeRoot`, `notify`, the
  unlock loop and `closeInit` in terms of program positions, and what the record
  of a committed writer says about the channels it closes.  Core Lean only.
-/
namespace Sdb.Conc

/-- the record of a committed writer past its `storeRoot` -/
structure StoredRec (root : List TableV) (T : Thread) : Prop where
  wr : Wr T
  cii : CiI T
  held : ∀ x, Micro.release x ∈ T.prog → getT root x = clr (getT T.entries x)
  bound : ∀ x ∈ lockList T, x < root.length

theorem storedRec (st : State) (cs : List Bool) (run : Option Nat) (h : CI st cs run) (j : Nat) (T : Thread)
    (hT : st.threads[j]? = some T) (hc : cs[j]? = some true) (hs : Micro.act .storeRoot ∉ T.prog) :
    StoredRec st.root T := by
  obtain ⟨c, hc', hb, _, p, hp, hl⟩ := h.TH j T hT
  rw [hc] at hc'; simp only [Option.some.injEq] at hc'; subst hc'
  obtain ⟨_, t2, _, _⟩ := tracked_of_pos T _ true p hp
  have hsf : srIn true p = false := by
    cases hh : srIn true p with
    | false => rfl
    | true => exact absurd (t2.2 hh) hs
  have hrel : ∀ x, Micro.release x ∈ T.prog ↔ Micro.release x ∈ code2 (lockList T) true p := by
    intro x; rw [← hp, mem_strip2 _ _ (by rfl)]
  cases p with
  | rR =>
    refine ⟨hl.2.1, hl.2.2.1, fun x hx => hl.2.2.2 x ?_, hb⟩
    rw [hrel] at hx; simpa [code2, relTail] using hx
  | nt =>
    refine ⟨hl.2.1, hl.2.2.1, fun x hx => hl.2.2.2 x ?_, hb⟩
    rw [hrel] at hx; simpa [code2, relTail] using hx
  | rel k =>
    refine ⟨hl.1, (hl.2 rfl).1, fun x hx => (hl.2 rfl).2 x ?_, hb⟩
    rw [hrel] at hx
    simp only [code2, relTail, if_true, List.mem_append, List.mem_map, List.mem_singleton, reduceCtorEq, or_false] at hx
    obtain ⟨y, hy, he⟩ := hx
    simp only [Micro.release.injEq] at he; subst he; exact hy
  | fin =>
    refine ⟨hl.2.1, hl.2.2, fun x hx => ?_, hb⟩
    rw [hrel] at hx; simp [code2] at hx
  | gR => exact absurd hl.1 (by simp)
  | gE => exact absurd hl.1 (by simp)
  | dA => exact absurd hl.1 (by simp)
  | dL => exact absurd hl.1 (by simp)
  | dR => exact absurd hl.1 (by simp)
  | _ => simp [srIn] at hsf

/-- an aborting writer (flag `false`, some table requested) never has a `storeRoot` ahead -/
theorem abort_no_store (st : State) (cs : List Bool) (run : Option Nat) (h : CI st cs run) (j : Nat) (T : Thread)
    (hT : st.threads[j]? = some T) (hc : cs[j]? = some false) (hne : T.tables ≠ []) :
    Micro.act .storeRoot ∉ T.prog := by
  obtain ⟨c, hc', _, _, p, hp, hl⟩ := h.TH j T hT
  rw [hc] at hc'; simp only [Option.some.injEq] at hc'; subst hc'
  obtain ⟨_, t2, _, _⟩ := tracked_of_pos T _ false p hp
  intro hm
  have := t2.1 hm
  cases p <;> first
    | exact hne hl.2
    | exact hne hl.2.1
    | exact Bool.noConfusion hl.1
    | (simp [srIn] at this; done)

/-! ### the initializer fields of the version a commit stores -/

theorem clr_uwEntry_pending (reg mark : Bool) (n : Nat) (e : TableV) :
    (clr (uwEntry reg mark n e)).initPending = (if mark then false else if reg then true else e.initPending) := by
  unfold clr
  split <;> rfl

theorem clr_uwEntry_initialized (reg mark : Bool) (n : Nat) (e : TableV)
    (h : e.initPending = true ↔ e.initWatch ≠ 0) :
    Initialized (clr (uwEntry reg mark n e)) ↔ (mark = true ∨ (reg = false ∧ Initialized e)) := by
  cases reg <;> cases mark <;> cases hp : e.initPending <;> by_cases h0 : e.initWatch = 0 <;>
    simp_all [clr, uwEntry, Initialized]

/-- the version a commit stores differs from the committed one: the revision grows -/
theorem clr_uwEntry_ne (reg mark : Bool) (n : Nat) (e : TableV) : clr (uwEntry reg mark n e) ≠ e := by
  intro h
  have := (clr_uwEntry_rev reg mark n e).1
  rw [h] at this
  omega

theorem mem_toClose (es : List TableV) (D : List Nat) (w : Nat) :
    w ∈ toClose es D ↔ ∃ x ∈ D, Collectable (getT es x) ∧ w = (getT es x).initWatch := by
  unfold toClose Collectable
  rw [List.mem_filterMap]
  constructor
  · rintro ⟨x, hx, he⟩
    split at he
    · rename_i hc
      simp only [Option.some.injEq] at he
      exact ⟨x, hx, ⟨hc.1, by simpa using hc.2⟩, he.symm⟩
    · simp at he
  · rintro ⟨x, hx, hc, he⟩
    refine ⟨x, hx, ?_⟩
    rw [if_pos ⟨hc.1, by simp [hc.2]⟩, he]

/-! ### later states -/

/-- `st` (flags `cs`) is reached from `st0` (flags `cs0`) by spawning threads and scheduler steps -/
inductive ReachFrom (P : Protocol) (st0 : State) (cs0 : List Bool) : State → List Bool → Prop where
  | refl : ReachFrom P st0 cs0 st0 cs0
  | writer (st : State) (cs : List Bool) (tabs : List Nat) (commit : Bool) (markInit regInit : List Nat) :
      ReachFrom P st0 cs0 st cs → (∀ x ∈ tabs, x < st.root.length ∧ x < st.lockOwner.length) →
      ReachFrom P st0 cs0 (spawnWriter P st tabs commit markInit regInit) (cs ++ [commit])
  | register (st : State) (cs : List Bool) : ReachFrom P st0 cs0 st cs →
      ReachFrom P st0 cs0 (spawnRegister P st) (cs ++ [false])
  | registerDup (st : State) (cs : List Bool) : ReachFrom P st0 cs0 st cs →
      ReachFrom P st0 cs0 (spawnRegisterDup P st) (cs ++ [false])
  | step (st : State) (cs : List Bool) (tid : Nat) : ReachFrom P st0 cs0 st cs →
      ReachFrom P st0 cs0 (step st tid).1 cs

theorem reach_of_reachFrom (P : Protocol) (n : Nat) (st0 : State) (cs0 : List Bool) (h0 : Reach P n st0 cs0)
    (st : State) (cs : List Bool) (h : ReachFrom P st0 cs0 st cs) : Reach P n st cs := by
  induction h with
  | refl => exact h0
  | writer st cs tabs commit mi ri _ hb ih => exact .writer st cs tabs commit mi ri ih hb
  | register st cs _ ih => exact .register st cs ih
  | registerDup st cs _ ih => exact .registerDup st cs ih
  | step st cs tid _ ih => exact .step st cs tid ih

/-- the committed version of a table is the same in a later state, or has a strictly
    larger revision -/
theorem version_same_or_newer (P : Protocol) (hP : P.initShape = true) (n : Nat) (st0 : State) (cs0 : List Bool)
    (h0 : Reach P n st0 cs0) (st : State) (cs : List Bool) (h : ReachFrom P st0 cs0 st cs) (x : Nat)
    (hx : x < st0.root.length) :
    x < st.root.length ∧
    (getT st.root x = getT st0.root x ∨ (getT st0.root x).rev < (getT st.root x).rev) := by
  induction h with
  | refl => exact ⟨hx, Or.inl rfl⟩
  | writer st cs tabs commit mi ri _ hb ih => exact ih
  | register st cs _ ih => exact ih
  | registerDup st cs _ ih => exact ih
  | step st cs tid hr ih =>
    obtain ⟨hxl, hor⟩ := ih
    have hreach := reach_of_reachFrom P n st0 cs0 h0 st cs hr
    rcases step_root_cases st cs tid (reach_sim P (initShape_simShape P hP) n st cs hreach)
        (reach_CI P hP n st cs hreach) with he | ⟨th, th', _, _, _, _, _, hlen, hcr⟩ | ⟨th, w, _, _, _, he⟩
    · rw [he]; exact ⟨hxl, hor⟩
    · refine ⟨by rw [hlen]; exact hxl, ?_⟩
      by_cases hxt : x ∈ th.tables
      · obtain ⟨m, hm⟩ := (hcr x hxl).1 hxt
        right
        rw [hm, (clr_uwEntry_rev _ _ _ _).1]
        rcases hor with e | e
        · rw [e]; omega
        · omega
      · rw [(hcr x hxl).2 hxt]; exact hor
    · rw [he]
      exact ⟨by simp; omega, by rw [getT_append_left _ _ _ hxl]; exact hor⟩

end Sdb.Conc
