import SdbModel.Lemmas.ReconcilerProgressInv

/-!
  Lemmas.ReconcilerProgressRound — one reconciliation round preserves the run
  invariant `XL` of C16 and advances the progress tracker soundly; what the
  retry low-watermark a round reports is.
-/
namespace Sdb.Rec

/-- the motive of the first half of a round -/
def KX (v : V) (rs : List Res) (cs : List Change) (last : Nat) : Prop := XL v rs ∧ CL v cs last
/-- the motive of the tail of a round -/
def QX (L : Nat) (v : V) (rs : List Res) : Prop := XL v rs ∧ TL L v

theorem kx_skip (r : R) (c : Change) (cs : List Change) (last : Nat) (_ : InvL r r.results) (hch : ChOK r r.results (c :: cs))
    (hc : c.deleted = false) (_ : ¬ needs c.obj.kind) (hk : KX r.v r.results (c :: cs) last) :
    KX { r.v with itRev := c.rev } r.results cs c.rev := by
  obtain ⟨_, _, hgt⟩ := hch.upd c (List.mem_cons_self ..) hc
  exact ⟨hk.1.setIt c.rev (by simp only [v_itRev]; omega),
    hk.2.stepUpd hch (by assumption : InvL r r.results).tinv hc rfl rfl rfl rfl rfl rfl⟩

theorem kx_upd (r r' : R) (c : Change) (cs : List Change) (last : Nat) (hI : InvL r r.results) (hch : ChOK r r.results (c :: cs))
    (hc : c.deleted = false) (_ : needs c.obj.kind)
    (hv : r'.v = (({ r.v with itRev := c.rev } : V).clear c.obj.id).single c.obj c.rev false (r.isFailing c.obj.id))
    (hres : r'.results = r.results ++ resOf c.obj c.rev false (r.isFailing c.obj.id)) (_ : InvL r' r'.results) (_ : ChOK r' r'.results cs)
    (hk : KX r.v r.results (c :: cs) last) : KX r'.v r'.results cs c.rev := by
  obtain ⟨ho, hrev, hgt⟩ := hch.upd c (List.mem_cons_self ..) hc
  refine ⟨?_, ?_⟩
  · rw [hv, hres]
    exact hk.1.updStep c.obj c.rev _ ho hrev (by simp only [v_itRev]; omega)
  · refine hk.2.stepUpd hch hI.tinv hc ?_ ?_ ?_ ?_ ?_ ?_ <;> rw [hv] <;> simp

theorem kx_del (r r' : R) (c : Change) (cs : List Change) (last : Nat) (hI : InvL r r.results) (hch : ChOK r r.results (c :: cs))
    (hc : c.deleted = true)
    (hv : r'.v = (({ r.v with itDelRev := c.rev } : V).clear c.obj.id).single c.obj c.rev true (r.isFailing c.obj.id))
    (hres : r'.results = r.results) (_ : InvL r' r'.results) (_ : ChOK r' r'.results cs)
    (hk : KX r.v r.results (c :: cs) last) : KX r'.v r'.results cs c.rev := by
  obtain ⟨hd, hgt⟩ := hch.del c (List.mem_cons_self ..) hc
  refine ⟨?_, ?_⟩
  · rw [hv, hres]
    exact hk.1.delStep c.obj c.rev _ hd (hI.tinv.dels_le _ hd) (by simp only [v_itDelRev]; omega) (hch.lt_del hc)
      (fun d hdm hid => hI.tinv.del_eq hdm hd hid)
  · refine hk.2.stepDel hch hI.tinv hc ?_ ?_ ?_ ?_ ?_ ?_ <;> rw [hv] <;> simp

theorem qx_drop (L : Nat) (r : R) (res : Res) (rs : List Res) (_ : InvL r (res :: rs))
    (_ : ∀ cur ∈ r.objs, cur.id = res.1.id → cur.rev ≠ res.2.2.1) (hq : QX L r.v (res :: rs)) : QX L r.v rs :=
  ⟨hq.1.drop, hq.2⟩

theorem qx_write (L : Nat) (r r' : R) (res : Res) (rs : List Res) (cur : RObj) (hI : InvL r (res :: rs)) (hcur : cur ∈ r.objs)
    (hcid : cur.id = res.1.id) (hrev : cur.rev = res.2.2.1) (hv : r'.v = r.v.commit res r.nextSid) (_ : InvL r' rs)
    (hq : QX L r.v (res :: rs)) : QX L r'.v rs := by
  obtain ⟨_, hrl, hlive⟩ := hI.resOK res (List.mem_cons_self ..)
  rw [hv]
  refine ⟨hq.1.commitStep r.nextSid hI.tinv.dels_le hrl (fun hf => ?_), hq.2.commit res r.nextSid⟩
  rcases hlive cur hcur hcid with a | a
  · have := a.2.1; rw [hf] at this; exact this
  · exact absurd hrev a.1

theorem qx_retry (L : Nat) (r r' : R) (h : Item) (hI : InvL r r.results) (_ : CaughtUp r) (hh : r.head = some h) (_ : h.retryAt ≤ r.now)
    (_ : r.numReconciled < r.cfg.roundSize)
    (hv : r'.v = (r.v.pop h.id).single h.obj h.rev h.delete (r.isFailing h.obj.id))
    (hres : r'.results = r.results ++ resOf h.obj h.rev h.delete (r.isFailing h.obj.id)) (_ : InvL r' r'.results)
    (hq : QX L r.v r.results) : QX L r'.v r'.results := by
  obtain ⟨hit0, _, _⟩ := head_spec hh
  rw [hv, hres]
  exact ⟨hq.1.retryStep hI.items_pw h _ hit0 (hI.itemOK h hit0).1, hq.2.congr (by simp) (by simp) (by simp) (by simp) (by simp) (by simp)⟩

theorem round_v (r : R) : r.round.v = { (tail6 (round3 r)).v with
    progressRev := if roundLast r > (tail6 (round3 r)).progressRev then roundLast r else (tail6 (round3 r)).progressRev } := rfl

/-- the iterator positions are not beyond the progress tracker's revision (between rounds) -/
def ItLe (r : R) : Prop := r.itRev ≤ r.progressRev ∧ r.itDelRev ≤ r.progressRev

theorem kx_init {r : R} (hr : RInv r) (hx : XL r.v []) (hit : ItLe r) : KX r.v [] r.nextChanges.2 0 := by
  have hs := nextChanges_sorted hr.inv.tinv hx.tab
  obtain ⟨h1, h2⟩ := hit
  exact ⟨hx, hs.1, hs.2, fun o ho hle => by have := hx.tab.opos o ho; simp only [v_objs] at ho; omega,
      fun d hd hle => by have := hx.tab.dpos d hd; omega, Nat.zero_le _,
      by simp only [v_itRev, v_progressRev]; omega, by simp only [v_itDelRev, v_progressRev]; omega⟩

/-- one round preserves the run invariant -/
theorem XL.round {r : R} (hr : RInv r) (hx : XL r.v []) (hit : ItLe r) : XL r.round.v [] ∧ ItLe r.round := by
  have h0 := kx_init hr hx hit
  obtain ⟨hI3, hcu3, hK⟩ := round_ind kx_skip kx_upd kx_del hr h0
  have hq3 : QX (roundLast r) (round3 r).v (round3 r).results := ⟨hK.1, hK.2.toTL⟩
  obtain ⟨_, _, _, _, _, _, hQ6, _⟩ := tail_ind (qx_drop (roundLast r)) (qx_write (roundLast r)) (qx_retry (roundLast r)) hI3 hcu3 hq3
  obtain ⟨hx6, ht6⟩ := hQ6
  have hR := ht6.itR
  have hD := ht6.itD
  refine ⟨?_, ?_⟩
  case refine_2 =>
    constructor
    · show (tail6 (round3 r)).itRev ≤ if roundLast r > (tail6 (round3 r)).progressRev then roundLast r else (tail6 (round3 r)).progressRev
      simp only [v_itRev, v_progressRev] at hR
      split <;> omega
    · show (tail6 (round3 r)).itDelRev ≤ if roundLast r > (tail6 (round3 r)).progressRev then roundLast r else (tail6 (round3 r)).progressRev
      simp only [v_itDelRev, v_progressRev] at hD
      split <;> omega
  rw [round_v]
  refine ⟨fun it hit => (hx6.items it hit).mono (Nat.le_refl _) rfl (Nat.le_refl _) rfl (fun _ _ ho _ _ => ho) (fun _ _ hd _ hle => ⟨hd, hle⟩),
    hx6.tab.congr rfl rfl rfl, ?_, hx6.res⟩
  have := hx6.prog.le
  have := ht6.le
  refine ⟨?_, ?_, ?_⟩
  · simp only [v_tableRev, v_progressRev] at *; split <;> omega
  · intro o ho hle
    simp only at ho hle ⊢
    split at hle
    · exact ht6.obj o ho hle
    · exact hx6.prog.obj o ho hle
  · intro d hd hle
    simp only at hd hle ⊢
    split at hle
    · exact ht6.del d hd hle
    · exact hx6.prog.del d hd hle

/-! ## the steps between rounds -/

theorem XL.setObjStep {v : V} (h : XL v []) (o : RObj) (hdl : ∀ d ∈ v.dels, d.2 ≤ v.tableRev) : XL (v.setObj o) [] := by
  refine ⟨fun it hit => ?_, h.tab.setObj _ hdl, h.prog.setObj _, h.res⟩
  simp only [setObjV_items] at hit
  have hI := h.items it hit
  refine hI.mono (by simp) rfl (Nat.le_refl _) rfl (fun _ x hx _ hrev => ?_) (fun _ d hd _ hle => ⟨(List.mem_filter.1 hd).1, hle⟩)
  rcases (mem_setObj_v ..).1 hx with ⟨hx, _⟩ | rfl
  · exact hx
  · have := hI.rle; simp only at hrev; omega

theorem XL.userPut {r : R} (h : XL r.v []) (ht : TInv r) (id data : Nat) : XL (r.userPut id data).v [] := by
  obtain ⟨other, he⟩ := userPut_eq r id data
  rw [he]
  exact h.setObjStep _ ht.dels_le

theorem XL.touch {r : R} (h : XL r.v []) (ht : TInv r) (id : Nat) : XL (r.touch id).v [] := by
  unfold R.touch
  split
  · exact h.setObjStep _ ht.dels_le
  · exact h

theorem XL.delObj {r : R} (h : XL r.v []) (ht : TInv r) (id : Nat) : XL (r.delObj id).v [] := by
  cases hg : r.get id with
  | none => rw [delObj_of_none hg]; exact h
  | some o =>
    rw [delObj_of_get hg]
    have hple := h.prog.le
    refine ⟨fun it hit => ?_, ⟨?_, ?_, ?_, fun _ => Or.inr ⟨_, List.mem_append_right _ (List.mem_singleton.2 rfl), rfl⟩⟩, ⟨?_, ?_, ?_⟩, h.res⟩
    · refine (h.items it hit).mono (by show r.tableRev ≤ r.tableRev + 1; omega) rfl (Nat.le_refl _) rfl
        (fun _ x hx _ _ => (List.mem_filter.1 hx).1) (fun _ d hd _ hle => ?_)
      rcases List.mem_append.1 hd with hd | hd
      · exact ⟨hd, hle⟩
      · simp only [List.mem_singleton] at hd
        rw [hd] at hle
        have := ht.itd_le
        have : r.tableRev + 1 ≤ r.itDelRev := hle
        omega
    · intro x hx; exact h.tab.opos x (List.mem_filter.1 hx).1
    · intro d hd
      rcases List.mem_append.1 hd with hd | hd
      · exact h.tab.dpos d hd
      · simp only [List.mem_singleton] at hd; rw [hd]; simp
    · intro x hx d hd
      have hx' := (List.mem_filter.1 hx).1
      rcases List.mem_append.1 hd with hd | hd
      · exact h.tab.disj x hx' d hd
      · simp only [List.mem_singleton] at hd; rw [hd]
        have := ht.objs_le x hx'; simp only; omega
    · show r.progressRev ≤ r.tableRev + 1
      simp only [v_progressRev, v_tableRev] at hple; omega
    · intro x hx hle; exact h.prog.obj x (List.mem_filter.1 hx).1 hle
    · intro d hd hle
      rcases List.mem_append.1 hd with hd | hd
      · exact h.prog.del d hd hle
      · simp only [List.mem_singleton] at hd
        rw [hd] at hle
        simp only [v_progressRev, v_tableRev] at hple
        have : r.tableRev + 1 ≤ r.progressRev := hle
        omega

theorem XL.setNow {r : R} (h : XL r.v []) (t : Nat) (ht : r.now ≤ t) : XL ({ r with now := t } : R).v [] :=
  ⟨fun it hit => (h.items it hit).mono (Nat.le_refl _) rfl ht rfl (fun _ _ ho _ _ => ho) (fun _ _ hd _ hle => ⟨hd, hle⟩), h.tab.congr rfl rfl rfl,
    h.prog.mono rfl rfl rfl (Nat.le_refl _) (Nat.le_refl _) rfl, h.res⟩

theorem fireTimer_v (r : R) : r.fireTimer.v = r.v := by
  unfold R.fireTimer
  split
  · split <;> rfl
  · rfl

end Sdb.Rec
