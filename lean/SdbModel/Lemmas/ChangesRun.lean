import SdbModel.Lemmas.Changes
import SdbModel.Lemmas.ChgGraveyard

/-! The change-iterator life cycle at database level.  `iterCreate`, `iterNext`, `iterConsume`,
    `iterClose`, `setW` restate, line by line, what the differential driver (`Driver/TableSuite.lean`,
    ops `changes`, `next` / `consume`, `cclose`, `setW`) does to a `Model.Table.DB`; the driver is
    not importable from the model library, hence the copy.  On top of them: the step relation of a
    database with change iterators and collector runs, its invariant, and reachability. -/
namespace Sdb.Chg
open Sdb.Tbl Sdb.Tbl.OMap OMap

/-! ### the driver's steps, restated -/

/-- driver `setW` -/
def setW (db : DB) (i : Nat) (t : TableS) : DB :=
  match db.wtxn with
  | some es => { db with wtxn := some (es.set i t) }
  | none => db

/-- driver op `changes` (`Table.Changes(wtxn)`): register a delete tracker in the write transaction's
    table entry, create the iterator with `revision = 0`, `deleteRevision = base = Revision(wtxn)`, prime it -/
def iterCreate (db : DB) (ti : Nat) : DB :=
  match db.wtxn with
  | some es =>
    let t := es.getD ti default
    if !t.locked then db else
    let id := db.nextTracker
    let it : ChangeIter := { table := ti, revision := 0, deleteRevision := t.rev, tracker := id, pending := none, watchGen := none, base := t.rev }
    let t := { t with trackers := id :: t.trackers }
    let es := es.set ti t
    let it := it.refresh db.oldRoot es true
    let db := { db with wtxn := some es, nextTracker := id + 1, iters := db.iters.push it }
    db.setTrackerRev id t.rev
  | none => db

/-- one turn of the loop of the sequence returned by `Next`: the cursor and the tracker's mark follow
    the yielded change -/
def consumeOne (acc : ChangeIter × DB) (c : Change) : ChangeIter × DB :=
  if c.deleted then ({ acc.1 with deleteRevision := c.rev }, { (acc.2.setTrackerRev acc.1.tracker c.rev) with gcTrig := true })
  else ({ acc.1 with revision := c.rev }, acc.2)

def consumeFold (it : ChangeIter) (db : DB) (taken : List Change) : ChangeIter × DB :=
  taken.foldl consumeOne (it, db)

/-- driver `consume`: take `k` changes (all of them and run off the end if `k < 0` or `k` exceeds the length) -/
def iterConsume (db : DB) (ci : Nat) (it : ChangeIter) (k : Int) : DB × ChangeIter × List Change :=
  match it.pending with
  | none => (db, it, [])
  | some ps =>
    let n := if k < 0 then ps.length else min k.toNat ps.length
    let taken := ps.take n
    let (it, db) := consumeFold it db taken
    let exhausted := k < 0 ∨ k.toNat > ps.length
    let it := { it with pending := if exhausted then none else some (ps.drop n) }
    ({ db with iters := db.iters.set! ci it }, it, taken)

/-- is the iterator's watch channel closed?  (`none` is the initial `closedWatchChannel`) -/
def watchClosed (db : DB) (it : ChangeIter) : Bool :=
  match it.watchGen with
  | none => true
  | some g => (db.root.getD it.table default).gen > g

/-- driver op `next`: the new database, the delivered changes, and whether the returned watch channel
    is closed (`"closed …"`) or open (`"open ."`).  Three cases as in the driver: idle with an open
    channel; a snapshot older than the iterator (`stale`: the refreshed iterator is stored, nothing is
    consumed, the snapshot's own channel is returned); otherwise refresh and consume. -/
def iterNext (db : DB) (ci : Nat) (committed current : List TableS) (k : Int) : DB × List Change × Bool :=
  match db.iters[ci]? with
  | some it =>
    if it.pending.isNone ∧ !watchClosed db it then (db, [], false)
    else if it.stale committed then
      let it := it.refresh committed current true
      ({ db with iters := db.iters.set! ci it }, [], watchClosed db it)
    else
      let it := it.refresh committed current true
      let (db, _, taken) := iterConsume db ci it k
      (db, taken, true)
  | none => (db, [], false)

/-- driver op `cclose` (`Close`): the tracker leaves the table, the iterator is dead -/
def iterClose (db : DB) (ci : Nat) : DB :=
  match db.iters[ci]? with
  | some it =>
    let root := db.root.mapIdx fun i t => if i = it.table then { t with trackers := t.trackers.filter (· ≠ it.tracker) } else t
    { db with root, gcTrig := true, iters := db.iters.set! ci { it with closed := true, pending := none } }
  | none => db

/-! ### facts about `trackerRevOf` / `setTrackerRev` -/

theorem trackerRevOf_set_self (db : DB) (id r : Nat) : (db.setTrackerRev id r).trackerRevOf id = r := by
  simp [DB.trackerRevOf, DB.setTrackerRev]

theorem trackerRevOf_set_ne (db : DB) (id r id' : Nat) (h : id' ≠ id) :
    (db.setTrackerRev id r).trackerRevOf id' = db.trackerRevOf id' := by
  simp only [DB.trackerRevOf, DB.setTrackerRev]
  rw [List.find?_cons_of_neg (by simpa using fun e => h e.symm)]
  congr 2
  induction db.trackerRev with
  | nil => rfl
  | cons p r ih =>
    by_cases hp : p.1 = id
    · rw [List.filter_cons_of_neg (by simpa using hp), List.find?_cons_of_neg (by simp [hp]; exact fun e => h e.symm), ih]
    · rw [List.filter_cons_of_pos (by simpa using hp)]
      by_cases hp' : p.1 = id'
      · rw [List.find?_cons_of_pos (by simpa using hp'), List.find?_cons_of_pos (by simpa using hp')]
      · rw [List.find?_cons_of_neg (by simpa using hp'), List.find?_cons_of_neg (by simpa using hp'), ih]

/-! ### what consuming does -/

/-- relation between the iterator / database before and after `taken` has been consumed -/
structure Consumed (it : ChangeIter) (db : DB) (taken : List Change) (it' : ChangeIter) (db' : DB) : Prop where
  table : it'.table = it.table
  tracker : it'.tracker = it.tracker
  closed : it'.closed = it.closed
  watchGen : it'.watchGen = it.watchGen
  pending : it'.pending = it.pending
  revision : it'.revision = (cursors it.revision it.deleteRevision taken).1
  deleteRevision : it'.deleteRevision = (cursors it.revision it.deleteRevision taken).2
  base : it'.base = it.base
  mark : db.trackerRevOf it.tracker = it.deleteRevision → db'.trackerRevOf it.tracker = it'.deleteRevision
  others : ∀ id, id ≠ it.tracker → db'.trackerRevOf id = db.trackerRevOf id
  root : db'.root = db.root
  wtxn : db'.wtxn = db.wtxn
  oldRoot : db'.oldRoot = db.oldRoot
  nextTracker : db'.nextTracker = db.nextTracker
  iters : db'.iters = db.iters
  gcDead : db'.gcDead = db.gcDead

theorem consumeFold_spec (it : ChangeIter) (db : DB) (taken : List Change) :
    Consumed it db taken (consumeFold it db taken).1 (consumeFold it db taken).2 := by
  induction taken generalizing it db with
  | nil => constructor <;> simp [consumeFold, cursors]
  | cons c cs ih =>
    have hstep : consumeFold it db (c :: cs) = consumeFold (consumeOne (it, db) c).1 (consumeOne (it, db) c).2 cs := rfl
    rw [hstep]
    by_cases hc : c.deleted
    · have e1 : (consumeOne (it, db) c).1 = { it with deleteRevision := c.rev } := by simp [consumeOne, hc]
      have e2 : (consumeOne (it, db) c).2 = { (db.setTrackerRev it.tracker c.rev) with gcTrig := true } := by
        simp [consumeOne, hc]
      rw [e1, e2]
      have := ih { it with deleteRevision := c.rev } { (db.setTrackerRev it.tracker c.rev) with gcTrig := true }
      obtain ⟨a1, a2, a3, a4, a5, a6, a7, a8, a9, a10, a11, a12, a13, a14, a15, a16⟩ := this
      have hcur : cursors it.revision it.deleteRevision (c :: cs) = cursors it.revision c.rev cs := by
        simp [cursors, advR, advD, hc]
      constructor
      · exact a1
      · exact a2
      · exact a3
      · exact a4
      · exact a5
      · rw [hcur]; exact a6
      · rw [hcur]; exact a7
      · exact a8
      · intro _; exact a9 (by simp [DB.trackerRevOf, DB.setTrackerRev])
      · intro id hid
        rw [a10 id hid]
        exact trackerRevOf_set_ne db it.tracker c.rev id hid
      · exact a11
      · exact a12
      · exact a13
      · exact a14
      · exact a15
      · exact a16
    · have e1 : (consumeOne (it, db) c).1 = { it with revision := c.rev } := by simp [consumeOne, hc]
      have e2 : (consumeOne (it, db) c).2 = db := by simp [consumeOne, hc]
      rw [e1, e2]
      have := ih { it with revision := c.rev } db
      obtain ⟨a1, a2, a3, a4, a5, a6, a7, a8, a9, a10, a11, a12, a13, a14, a15, a16⟩ := this
      have hcur : cursors it.revision it.deleteRevision (c :: cs) = cursors c.rev it.deleteRevision cs := by
        simp [cursors, advR, advD, hc]
      constructor
      · exact a1
      · exact a2
      · exact a3
      · exact a4
      · exact a5
      · rw [hcur]; exact a6
      · rw [hcur]; exact a7
      · exact a8
      · exact a9
      · exact a10
      · exact a11
      · exact a12
      · exact a13
      · exact a14
      · exact a15
      · exact a16

/-! ### states, steps -/

/-- table `i` of a root (the driver's `getT`) -/
def tbl (ts : List TableS) (i : Nat) : TableS := ts.getD i default

/-! ### table lookups after each operation -/

theorem tbl_set (es : List TableS) (i j : Nat) (t : TableS) :
    tbl (es.set i t) j = if i = j ∧ i < es.length then t else tbl es j := by
  simp only [tbl, List.getD_eq_getElem?_getD, List.getElem?_set]
  by_cases h : i = j
  · subst h
    by_cases h2 : i < es.length
    · simp [h2]
    · simp [h2]
  · simp [h]

theorem default_locked : (default : TableS).locked = false := rfl

theorem tbl_locked_lt (es : List TableS) (i : Nat) (h : (tbl es i).locked = true) : i < es.length := by
  by_cases hi : i < es.length
  · exact hi
  · simp [tbl, List.getD_eq_getElem?_getD, List.getElem?_eq_none (Nat.le_of_not_lt hi)] at h
    exact absurd h (by decide)

/-- `beginW` copies every entry, changing lock state only -/
theorem tbl_beginW (db : DB) (lm la : Bool) (i : Nat) :
    ∃ es, (db.beginW lm la).wtxn = some es ∧ es.length = db.root.length ∧
      (db.beginW lm la).oldRoot = db.root ∧ (db.beginW lm la).root = db.root ∧
      (tbl es i).rev = (tbl db.root i).rev ∧ (tbl es i).primary = (tbl db.root i).primary ∧
      (tbl es i).revIdx = (tbl db.root i).revIdx ∧ (tbl es i).grave = (tbl db.root i).grave ∧
      (tbl es i).graveRev = (tbl db.root i).graveRev ∧ (tbl es i).trackers = (tbl db.root i).trackers ∧
      (tbl es i).gen = (tbl db.root i).gen ∧ (tbl es i).revDirty = false := by
  refine ⟨_, rfl, by simp, rfl, rfl, ?_⟩
  simp only [tbl, List.getD_eq_getElem?_getD, List.getElem?_mapIdx]
  cases db.root[i]? with
  | none => simp [default, instInhabitedTableS.default]
  | some a => simp

/-- the entry `Commit` publishes for a locked table -/
def commitEntry (e : TableS) : TableS :=
  { e with locked := false, revDirty := false, init := (match e.init with | some [] => none | i => i),
           gen := if e.revDirty then e.gen + 1 else e.gen }

theorem tbl_commit (db : DB) (es : List TableS) (h : db.wtxn = some es) (hl : es.length = db.root.length) (i : Nat) :
    tbl db.commit.root i = if (tbl es i).locked then commitEntry (tbl es i) else tbl db.root i := by
  unfold DB.commit
  rw [h]
  simp only [tbl, List.getD_eq_getElem?_getD, List.getElem?_map]
  by_cases hi : i < es.length
  · have hi' : i < db.root.length := hl ▸ hi
    have : (es.zip db.root)[i]? = some (es[i], db.root[i]) := by
      rw [List.getElem?_zip_eq_some]; simp [hi, hi']
    rw [this]
    simp only [Option.map_some, Option.getD_some, List.getElem?_eq_getElem hi, List.getElem?_eq_getElem hi']
    split <;> rfl
  · have hi' : ¬ i < db.root.length := hl ▸ hi
    have : (es.zip db.root)[i]? = none := by
      rw [List.getElem?_eq_none]; simp; omega
    rw [this, List.getElem?_eq_none (Nat.le_of_not_lt hi), List.getElem?_eq_none (Nat.le_of_not_lt hi')]
    simp [default_locked]

theorem tbl_close (root : List TableS) (ti tr : Nat) (i : Nat) :
    tbl (root.mapIdx fun i t => if i = ti then { t with trackers := t.trackers.filter (· ≠ tr) } else t) i =
      if i = ti then { tbl root i with trackers := (tbl root i).trackers.filter (· ≠ tr) } else tbl root i := by
  unfold tbl
  rw [getD_mapIdx_tables]
  split <;> rfl

theorem tinv_default : TInv (default : TableS) :=
  tinv_empty _ rfl rfl rfl rfl rfl
/-- a database together with the ghost log of everything each iterator has delivered so far -/
structure St where
  db : DB
  log : Nat → List Change

/-- what the consumer of iterator `ci` has built by replaying everything delivered so far -/
def St.view (s : St) (ci : Nat) : View := replay (fun _ => none) (s.log ci)

/-- one operation on a table entry of the open write transaction.  `aux` is any operation that does
    not touch objects, graveyard, trackers, lock state or watch generation (initializer bookkeeping).
    Writes carry the guard that the 64-bit revision counter does not overflow. -/
inductive WStep : TableS → TableS → Prop
  | modify (t : TableS) (g : Nat) (o : Obj) (m : Bool) (hb : (modify t g o m).1.rev + 1 < 2 ^ 64) :
      WStep t (modify t g o m).1
  | delete (t : TableS) (g : Nat) (id : Key) (hb : (delete t g id).1.rev + 1 < 2 ^ 64) :
      WStep t (delete t g id).1
  | aux (t t' : TableS) (h1 : t'.rev = t.rev) (h2 : t'.primary = t.primary)
      (h3 : t'.revIdx = t.revIdx) (h4 : t'.grave = t.grave) (h5 : t'.graveRev = t.graveRev)
      (h6 : t'.trackers = t.trackers) (h7 : t'.locked = t.locked) (h8 : t'.gen = t.gen)
      (h9 : t'.revDirty = t.revDirty) : WStep t t'

theorem WStep.tinv {t t' : TableS} (w : WStep t t') (h : TInv t) : TInv t' := by
  cases w with
  | modify g o m hb => exact tinv_modify h g o m hb
  | delete g id hb => exact tinv_delete h g id hb
  | aux _ h1 h2 h3 h4 h5 => exact h.congr h1 h2 h3 h4 h5

theorem WStep.rev_le {t t' : TableS} (w : WStep t t') : t.rev ≤ t'.rev := by
  cases w with
  | modify g o m hb =>
    rcases modify_spec t g o m with e | ⟨_, _, hrev, _⟩
    · rw [e]; exact Nat.le_refl _
    · rw [hrev]; omega
  | delete g id hb =>
    rcases delete_spec t g id with e | ⟨_, _, _, _, hrev, _⟩
    · rw [e]; exact Nat.le_refl _
    · rw [hrev]; omega
  | aux _ h1 => rw [h1]; exact Nat.le_refl _

theorem WStep.trackers {t t' : TableS} (w : WStep t t') : t'.trackers = t.trackers := by
  cases w with
  | modify g o m hb =>
    rcases modify_spec t g o m with e | ⟨_, _, _, _, _, htr, _⟩
    · rw [e]
    · exact htr
  | delete g id hb =>
    rcases delete_spec t g id with e | ⟨_, _, _, _, _, _, _, htr, _⟩
    · rw [e]
    · exact htr
  | aux _ h1 h2 h3 h4 h5 h6 => exact h6

theorem WStep.synced {t t' : TableS} (w : WStep t t') (h : TInv t) {M : View} {r d : Nat}
    (hs : Synced M r d t) (hr : r ≤ t.rev) (hd : d ≤ t.rev) (htr : t.trackers ≠ []) : Synced M r d t' := by
  cases w with
  | modify g o m hb => exact hs.modify h hr g o m
  | delete g id hb => exact hs.delete h hd htr g id
  | aux _ h1 h2 h3 h4 h5 => exact hs.congr h2 h4

/-- the operations of a database with change iterators and a graveyard collector.  `next` may be taken
    by ANY iterator at any time (also inside the transaction that created it, also after `Close`); it
    reads the current committed root, through a read transaction or through the open write transaction. -/
inductive Step : St → St → Prop
  | beginW (s : St) (lm la : Bool) (h : s.db.wtxn = none) : Step s { s with db := s.db.beginW lm la }
  | commit (s : St) : Step s { s with db := s.db.commit }
  | abort (s : St) : Step s { s with db := s.db.abort }
  | write (s : St) (es : List TableS) (i : Nat) (t' : TableS) (h : s.db.wtxn = some es)
      (w : WStep (tbl es i) t') : Step s { s with db := setW s.db i t' }
  | create (s : St) (ti : Nat) : Step s { s with db := iterCreate s.db ti }
  | next (s : St) (ci : Nat) (k : Int) (committed current : List TableS)
      (hc : committed = s.db.root ∨ (s.db.wtxn.isSome ∧ committed = s.db.oldRoot)) :
      Step s { db := (iterNext s.db ci committed current k).1,
               log := fun j => if j = ci then s.log ci ++ (iterNext s.db ci committed current k).2.1 else s.log j }
  | close (s : St) (ci : Nat) (h : s.db.wtxn = none) : Step s { s with db := iterClose s.db ci }
  | gcScan (s : St) : Step s { s with db := { s.db with gcDead := gcScan s.db, gcPaused := true, gcTrig := false } }
  | gcApplyPaused (s : St) (h : s.db.wtxn = none) :
      Step s { s with db := { (gcApply s.db s.db.gcDead) with gcDead := [], gcPaused := false } }
  | gcRun (s : St) (h : s.db.wtxn = none) :
      Step s { s with db := { (gcApply s.db (gcScan s.db)) with gcTrig := false } }

/-- the initial state: `newDB`, nothing delivered -/
def St.init : St := { db := newDB, log := fun _ => [] }

inductive Reach : St → Prop
  | init : Reach St.init
  | step {s s' : St} (h : Reach s) (st : Step s s') : Reach s'

/-! ### the invariant -/

/-- uncommitted writes keep every in-step view in step (as long as some tracker was registered when the
    transaction began, so that its deletions are retained) -/
def Carry (t e : TableS) : Prop :=
  t.trackers ≠ [] → ∀ (M : View) (r d : Nat), r ≤ t.rev → d ≤ t.rev → Synced M r d t → Synced M r d e

/-- committed entry `t` versus the entry `e` of the open write transaction -/
structure WRel (t e : TableS) : Prop where
  rev : t.rev ≤ e.rev
  trk : ∀ id ∈ t.trackers, id ∈ e.trackers
  carry : Carry t e
  same : e.rev = t.rev → e.primary = t.primary ∧ e.grave = t.grave

/-- an iterator is in good standing when its tracker is registered in the committed root, or in the open
    write transaction that created it provided that transaction had written nothing to the table before
    (`base` = the committed revision: the committed root IS the creation state) -/
def Live (s : St) (it : ChangeIter) : Prop :=
  it.tracker ∈ (tbl s.db.root it.table).trackers ∨
  ∃ es, s.db.wtxn = some es ∧ it.tracker ∈ (tbl es it.table).trackers ∧ it.base ≤ (tbl s.db.root it.table).rev

/-- iterator `ci` is in good standing with respect to table `t` -/
structure RegOK (s : St) (ci : Nat) (it : ChangeIter) (t : TableS) : Prop where
  synced : Synced (s.view ci) it.revision it.deleteRevision t
  rle : it.revision ≤ t.rev
  dle : it.deleteRevision ≤ t.rev
  mark : s.db.trackerRevOf it.tracker = it.deleteRevision
  base : it.base ≤ t.rev
  bd : it.base ≤ it.deleteRevision

/-- an iterator created in the open write transaction on an untouched table: the committed entry `t` is
    its creation state, and the entry `e` retains everything deleted since -/
structure NewOK (it : ChangeIter) (t e : TableS) : Prop where
  tb : t.rev ≤ it.base
  carry : ∀ (M : View) (r d : Nat), r ≤ t.rev → d ≤ t.rev → Synced M r d t → Synced M r d e

/-- iterator `ci`, created in the open write transaction after it had already written to the table
    (entry `e`, committed entry `t`): every committed snapshot is stale for it, it has delivered nothing -/
structure PendOK (s : St) (ci : Nat) (it : ChangeIter) (t e : TableS) : Prop where
  log : s.log ci = []
  rev0 : it.revision = 0
  dge : t.rev ≤ it.deleteRevision
  dle : it.deleteRevision ≤ e.rev
  synced : Synced (fun _ => none) 0 it.deleteRevision e
  mark : s.db.trackerRevOf it.tracker = it.deleteRevision
  be : it.base ≤ e.rev
  bd : it.base ≤ it.deleteRevision

structure Inv (s : St) : Prop where
  rootT : ∀ i, TInv (tbl s.db.root i)
  wT : ∀ es, s.db.wtxn = some es → ∀ i, TInv (tbl es i)
  wOld : ∀ es, s.db.wtxn = some es → s.db.oldRoot = s.db.root ∧ es.length = s.db.root.length
  wRel : ∀ es, s.db.wtxn = some es → ∀ i, WRel (tbl s.db.root i) (tbl es i)
  freshR : ∀ i, ∀ id ∈ (tbl s.db.root i).trackers, id < s.db.nextTracker
  freshW : ∀ es, s.db.wtxn = some es → ∀ i, ∀ id ∈ (tbl es i).trackers, id < s.db.nextTracker
  freshI : ∀ (ci : Nat) (it : ChangeIter), s.db.iters[ci]? = some it → it.tracker < s.db.nextTracker
  uniq : ∀ (ci cj : Nat) (it it' : ChangeIter), s.db.iters[ci]? = some it → s.db.iters[cj]? = some it' → it.tracker = it'.tracker → ci = cj
  reg : ∀ (ci : Nat) (it : ChangeIter), s.db.iters[ci]? = some it → it.closed = false →
      Live s it → RegOK s ci it (tbl s.db.root it.table)
  newI : ∀ es, s.db.wtxn = some es → ∀ (ci : Nat) (it : ChangeIter), s.db.iters[ci]? = some it → it.closed = false →
      it.tracker ∈ (tbl es it.table).trackers → it.tracker ∉ (tbl s.db.root it.table).trackers →
      it.base ≤ (tbl s.db.root it.table).rev → NewOK it (tbl s.db.root it.table) (tbl es it.table)
  pend : ∀ es, s.db.wtxn = some es → ∀ (ci : Nat) (it : ChangeIter), s.db.iters[ci]? = some it → it.closed = false →
      it.tracker ∈ (tbl es it.table).trackers → it.tracker ∉ (tbl s.db.root it.table).trackers →
      (tbl s.db.root it.table).rev < it.base → PendOK s ci it (tbl s.db.root it.table) (tbl es it.table)
  dead : ∀ i, ∀ k ∈ deadKeys s.db.gcDead i, ∃ ρ, k = revKey ρ ∧ ρ ≤ (tbl s.db.root i).rev ∧
      ∀ (ci : Nat) (it : ChangeIter), s.db.iters[ci]? = some it → it.closed = false → it.table = i →
        Live s it → ρ ≤ it.deleteRevision
  logFresh : ∀ ci, s.db.iters.size ≤ ci → s.log ci = []

/-! ### the invariant holds initially and is preserved by every step -/

theorem replay_nil_view (ci : Nat) (s : St) (h : s.log ci = []) : s.view ci = fun _ => none := by
  simp [St.view, h, replay]

/-- `RegOK` only reads the view of `ci`, the tracker's mark, and the listed fields of iterator and table -/
theorem RegOK.transfer {s s' : St} {ci : Nat} {it it' : ChangeIter} {t t' : TableS} (h : RegOK s ci it t)
    (hv : s'.view ci = s.view ci) (hm : s'.db.trackerRevOf it.tracker = s.db.trackerRevOf it.tracker)
    (i1 : it'.revision = it.revision) (i2 : it'.deleteRevision = it.deleteRevision) (i3 : it'.tracker = it.tracker)
    (i4 : it'.base = it.base) (t1 : t'.rev = t.rev) (t2 : t'.primary = t.primary) (t3 : t'.grave = t.grave) :
    RegOK s' ci it' t' := by
  obtain ⟨a, b, c, d, e, f⟩ := h
  refine ⟨?_, by rw [i1, t1]; exact b, by rw [i2, t1]; exact c, by rw [i3, i2, hm]; exact d,
    by rw [i4, t1]; exact e, by rw [i4, i2]; exact f⟩
  rw [hv, i1, i2]
  exact a.congr t2 t3

theorem PendOK.transfer {s s' : St} {ci : Nat} {it it' : ChangeIter} {t e : TableS} (h : PendOK s ci it t e)
    (hl : s'.log ci = s.log ci) (hm : s'.db.trackerRevOf it.tracker = s.db.trackerRevOf it.tracker)
    (i1 : it'.revision = it.revision) (i2 : it'.deleteRevision = it.deleteRevision) (i3 : it'.tracker = it.tracker)
    (i4 : it'.base = it.base) : PendOK s' ci it' t e := by
  obtain ⟨a, b, c, d, e', f, g, k⟩ := h
  exact ⟨by rw [hl]; exact a, by rw [i1]; exact b, by rw [i2]; exact c, by rw [i2]; exact d, by rw [i2]; exact e',
    by rw [i3, i2, hm]; exact f, by rw [i4]; exact g, by rw [i4, i2]; exact k⟩

theorem Inv.init : Inv St.init := by
  have hroot : ∀ i, tbl St.init.db.root i = { (default : TableS) with full := (tbl St.init.db.root i).full } := by
    intro i
    match i with
    | 0 => rfl
    | 1 => rfl
    | (n + 2) => rfl
  constructor
  · intro i; rw [hroot]; exact tinv_default.congr rfl rfl rfl rfl rfl
  · intro es h; cases h
  · intro es h; cases h
  · intro es h; cases h
  · intro i id hid; rw [hroot] at hid; simp [default, instInhabitedTableS.default] at hid
  · intro es h; cases h
  · intro ci it h; simp [St.init, newDB] at h
  · intro ci cj it it' h; simp [St.init, newDB] at h
  · intro ci it h; simp [St.init, newDB] at h
  · intro es h; cases h
  · intro es h; cases h
  · intro i k hk; simp [St.init, newDB, deadKeys] at hk
  · intro ci _; rfl

theorem Inv.beginW {s : St} (h : Inv s) (lm la : Bool) :
    Inv { s with db := s.db.beginW lm la } := by
  have hb := tbl_beginW s.db lm la
  have hes : ∀ es, (s.db.beginW lm la).wtxn = some es → ∀ i,
      (tbl es i).rev = (tbl s.db.root i).rev ∧ (tbl es i).primary = (tbl s.db.root i).primary ∧
      (tbl es i).revIdx = (tbl s.db.root i).revIdx ∧ (tbl es i).grave = (tbl s.db.root i).grave ∧
      (tbl es i).graveRev = (tbl s.db.root i).graveRev ∧ (tbl es i).trackers = (tbl s.db.root i).trackers := by
    intro es he i
    obtain ⟨es', he', _, _, _, a1, a2, a3, a4, a5, a6, _⟩ := hb i
    rw [he] at he'; cases he'
    exact ⟨a1, a2, a3, a4, a5, a6⟩
  have hlive : ∀ it, Live { s with db := s.db.beginW lm la } it → Live s it := by
    intro it hl
    rcases hl with hl | ⟨es, he, hr, _⟩
    · exact Or.inl hl
    · rw [(hes es he it.table).2.2.2.2.2] at hr
      exact Or.inl hr
  constructor
  · exact h.rootT
  · intro es he i
    obtain ⟨a1, a2, a3, a4, a5, _⟩ := hes es he i
    exact (h.rootT i).congr a1 a2 a3 a4 a5
  · intro es he
    obtain ⟨es', he', hl, _⟩ := hb 0
    simp only at he
    rw [he] at he'; cases he'
    exact ⟨rfl, hl⟩
  · intro es he i
    obtain ⟨a1, a2, a3, a4, a5, a6⟩ := hes es he i
    refine ⟨by rw [a1]; exact Nat.le_refl _, by rw [a6]; exact fun id hid => hid, ?_, fun _ => ⟨a2, a4⟩⟩
    intro _ M r d _ _ hs
    exact hs.congr a2 a4
  · exact h.freshR
  · intro es he i id hid
    rw [(hes es he i).2.2.2.2.2] at hid
    exact h.freshR i id hid
  · exact h.freshI
  · exact h.uniq
  · intro ci it hi hc hl
    exact (h.reg ci it hi hc (hlive it hl)).transfer rfl rfl rfl rfl rfl rfl rfl rfl rfl
  · intro es he ci it hi hc hr hnr
    rw [(hes es he it.table).2.2.2.2.2] at hr
    exact absurd hr hnr
  · intro es he ci it hi hc hr hnr
    rw [(hes es he it.table).2.2.2.2.2] at hr
    exact absurd hr hnr
  · intro i k hk
    obtain ⟨ρ, e, hle, hall⟩ := h.dead i k hk
    exact ⟨ρ, e, hle, fun ci it hi hc ht hl => hall ci it hi hc ht (hlive it hl)⟩
  · exact h.logFresh

theorem commitEntry_fields (e : TableS) :
    (commitEntry e).rev = e.rev ∧ (commitEntry e).primary = e.primary ∧ (commitEntry e).revIdx = e.revIdx ∧
    (commitEntry e).grave = e.grave ∧ (commitEntry e).graveRev = e.graveRev ∧
    (commitEntry e).trackers = e.trackers := ⟨rfl, rfl, rfl, rfl, rfl, rfl⟩

theorem Inv.abort {s : St} (h : Inv s) : Inv { s with db := s.db.abort } := by
  have hlive : ∀ it, Live { s with db := s.db.abort } it → Live s it := by
    intro it hl
    rcases hl with hl | ⟨es, he, _⟩
    · exact Or.inl hl
    · cases he
  constructor
  · exact h.rootT
  · intro es he; cases he
  · intro es he; cases he
  · intro es he; cases he
  · exact h.freshR
  · intro es he; cases he
  · exact h.freshI
  · exact h.uniq
  · intro ci it hi hc hl
    exact (h.reg ci it hi hc (hlive it hl)).transfer rfl rfl rfl rfl rfl rfl rfl rfl rfl
  · intro es he; cases he
  · intro es he; cases he
  · intro i k hk
    obtain ⟨ρ, e, hle, hall⟩ := h.dead i k hk
    exact ⟨ρ, e, hle, fun ci it hi hc ht hl => hall ci it hi hc ht (hlive it hl)⟩
  · exact h.logFresh

theorem Inv.commit {s : St} (h : Inv s) : Inv { s with db := s.db.commit } := by
  cases hw : s.db.wtxn with
  | none =>
    have : s.db.commit = s.db := by unfold DB.commit; rw [hw]
    rw [this]; exact h
  | some es =>
    obtain ⟨hold, hlen⟩ := h.wOld es hw
    have hroot := tbl_commit s.db es hw hlen
    have hwt : s.db.commit.wtxn = none := by unfold DB.commit; rw [hw]
    have hiters : s.db.commit.iters = s.db.iters := by unfold DB.commit; rw [hw]
    have hnext : s.db.commit.nextTracker = s.db.nextTracker := by unfold DB.commit; rw [hw]
    have hdead : s.db.commit.gcDead = s.db.gcDead := by unfold DB.commit; rw [hw]
    have htrk : ∀ id, s.db.commit.trackerRevOf id = s.db.trackerRevOf id := by
      intro id; unfold DB.commit; rw [hw]; rfl
    have hlive : ∀ it, Live { s with db := s.db.commit } it → it.tracker ∈ (tbl s.db.commit.root it.table).trackers := by
      intro it hl
      rcases hl with hl | ⟨es', he, _⟩
      · exact hl
      · simp only at he; rw [hwt] at he; cases he
    -- registration in the new root
    have hregNew : ∀ (ci : Nat) (it : ChangeIter), s.db.iters[ci]? = some it → it.closed = false →
        it.tracker ∈ (tbl s.db.commit.root it.table).trackers →
        RegOK s ci it (tbl s.db.commit.root it.table) ∧
        (Live s it ∨ (tbl s.db.root it.table).rev ≤ it.deleteRevision) := by
      intro ci it hi hc hr
      rw [hroot] at hr ⊢
      by_cases hl : (tbl es it.table).locked
      · simp only [hl, if_true] at hr ⊢
        obtain ⟨c1, c2, c3, c4, c5, c6⟩ := commitEntry_fields (tbl es it.table)
        rw [c6] at hr
        have hrel := h.wRel es hw it.table
        by_cases hreg : it.tracker ∈ (tbl s.db.root it.table).trackers
        · obtain ⟨a, b, c, d, e, f⟩ := h.reg ci it hi hc (Or.inl hreg)
          have hne : (tbl s.db.root it.table).trackers ≠ [] := by
            intro e; rw [e] at hreg; simp at hreg
          have := hrel.carry hne _ _ _ b c a
          exact ⟨⟨this.congr c2 c4, by rw [c1]; exact Nat.le_trans b hrel.rev,
            by rw [c1]; exact Nat.le_trans c hrel.rev, d, by rw [c1]; exact Nat.le_trans e hrel.rev, f⟩,
            Or.inl (Or.inl hreg)⟩
        · by_cases hbase : it.base ≤ (tbl s.db.root it.table).rev
          · have hlv : Live s it := Or.inr ⟨es, hw, hr, hbase⟩
            obtain ⟨a, b, c, d, e, f⟩ := h.reg ci it hi hc hlv
            have := (h.newI es hw ci it hi hc hr hreg hbase).carry _ _ _ b c a
            exact ⟨⟨this.congr c2 c4, by rw [c1]; exact Nat.le_trans b hrel.rev,
              by rw [c1]; exact Nat.le_trans c hrel.rev, d, by rw [c1]; exact Nat.le_trans e hrel.rev, f⟩,
              Or.inl hlv⟩
          · obtain ⟨p1, p2, p3, p4, p5, p6, p7, p8⟩ := h.pend es hw ci it hi hc hr hreg (by omega)
            refine ⟨⟨?_, by rw [p2]; omega, by rw [c1]; exact p4, p6, by rw [c1]; exact p7, p8⟩, Or.inr p3⟩
            rw [replay_nil_view ci s p1, p2]
            exact p5.congr c2 c4
      · simp only [hl, Bool.false_eq_true, if_false] at hr ⊢
        exact ⟨h.reg ci it hi hc (Or.inl hr), Or.inl (Or.inl hr)⟩
    constructor
    · intro i
      rw [hroot]
      split
      · obtain ⟨c1, c2, c3, c4, c5, _⟩ := commitEntry_fields (tbl es i)
        exact (h.wT es hw i).congr c1 c2 c3 c4 c5
      · exact h.rootT i
    · intro es' he; simp only at he; rw [hwt] at he; cases he
    · intro es' he; simp only at he; rw [hwt] at he; cases he
    · intro es' he; simp only at he; rw [hwt] at he; cases he
    · intro i id hid
      simp only at hid ⊢
      rw [hnext]
      rw [hroot] at hid
      split at hid
      · exact h.freshW es hw i id hid
      · exact h.freshR i id hid
    · intro es' he; simp only at he; rw [hwt] at he; cases he
    · intro ci it hi; simp only at hi ⊢; rw [hiters] at hi; rw [hnext]; exact h.freshI ci it hi
    · intro ci cj it it' hi hj; simp only at hi hj; rw [hiters] at hi hj; exact h.uniq ci cj it it' hi hj
    · intro ci it hi hc hl
      simp only at hi ⊢
      rw [hiters] at hi
      exact (hregNew ci it hi hc (hlive it hl)).1.transfer rfl (htrk _) rfl rfl rfl rfl rfl rfl rfl
    · intro es' he; simp only at he; rw [hwt] at he; cases he
    · intro es' he; simp only at he; rw [hwt] at he; cases he
    · intro i k hk
      simp only at hk ⊢
      rw [hdead] at hk
      obtain ⟨ρ, e, hle, hall⟩ := h.dead i k hk
      have hrevle : (tbl s.db.root i).rev ≤ (tbl s.db.commit.root i).rev := by
        rw [hroot]
        split
        · exact (h.wRel es hw i).rev
        · exact Nat.le_refl _
      refine ⟨ρ, e, Nat.le_trans hle hrevle, ?_⟩
      intro ci it hi hc ht hl
      rw [hiters] at hi
      subst ht
      rcases (hregNew ci it hi hc (hlive it hl)).2 with hlv | hge
      · exact hall ci it hi hc rfl hlv
      · omega
    · intro ci hci; simp only at hci ⊢; rw [hiters] at hci; exact h.logFresh ci hci

/-- a write step that leaves the revision alone leaves objects and graveyard alone -/
theorem WStep.same {e e' : TableS} (w : WStep e e') (h : e'.rev = e.rev) :
    e'.primary = e.primary ∧ e'.grave = e.grave := by
  cases w with
  | modify g o m hb =>
    rcases modify_spec e g o m with h' | ⟨_, _, hrev, _⟩
    · rw [h']; exact ⟨rfl, rfl⟩
    · rw [hrev] at h; omega
  | delete g id hb =>
    rcases delete_spec e g id with h' | ⟨_, _, _, _, hrev, _⟩
    · rw [h']; exact ⟨rfl, rfl⟩
    · rw [hrev] at h; omega
  | aux _ h1 h2 h3 h4 h5 => exact ⟨h2, h4⟩

theorem Inv.write {s : St} (h : Inv s) (es : List TableS) (i : Nat) (t' : TableS) (hw : s.db.wtxn = some es)
    (w : WStep (tbl es i) t') : Inv { s with db := setW s.db i t' } := by
  have hdb : setW s.db i t' = { s.db with wtxn := some (es.set i t') } := by unfold setW; rw [hw]
  rw [hdb]
  have hT := h.wT es hw
  have hR := h.wRel es hw
  -- the new entry at `j`, related to the old one by a write step or unchanged
  have hcase : ∀ j, tbl (es.set i t') j = tbl es j ∨ (i = j ∧ tbl (es.set i t') j = t') := by
    intro j
    rw [tbl_set]
    by_cases hc : i = j ∧ i < es.length
    · right; rw [if_pos hc]; exact ⟨hc.1, rfl⟩
    · left; rw [if_neg hc]
  have htrk : ∀ j, (tbl (es.set i t') j).trackers = (tbl es j).trackers := by
    intro j
    rcases hcase j with e | ⟨e1, e2⟩
    · rw [e]
    · rw [e2, ← e1]; exact w.trackers
  have hlive : ∀ it, Live { s with db := { s.db with wtxn := some (es.set i t') } } it → Live s it := by
    intro it hl
    rcases hl with hl | ⟨es', he, hr, hb⟩
    · exact Or.inl hl
    · simp only [Option.some.injEq] at he; subst he
      rw [htrk] at hr
      exact Or.inr ⟨es, hw, hr, hb⟩
  constructor
  · exact h.rootT
  · intro es' he j
    simp only [Option.some.injEq] at he; subst he
    rcases hcase j with e | ⟨e1, e2⟩
    · rw [e]; exact hT j
    · rw [e2]; exact w.tinv (hT i)
  · intro es' he
    simp only [Option.some.injEq] at he; subst he
    obtain ⟨a, b⟩ := h.wOld es hw
    exact ⟨a, by rw [List.length_set]; exact b⟩
  · intro es' he j
    simp only [Option.some.injEq] at he; subst he
    rcases hcase j with e | ⟨e1, e2⟩
    · rw [e]; exact hR j
    · rw [e2]; subst e1
      obtain ⟨r1, r2, r3, r4⟩ := hR i
      refine ⟨Nat.le_trans r1 w.rev_le, by rw [w.trackers]; exact r2, ?_, ?_⟩
      · intro hne M r d hr hd hs
        have hs' := r3 hne M r d hr hd hs
        have hne' : (tbl es i).trackers ≠ [] := by
          intro e
          cases htr : (tbl s.db.root i).trackers with
          | nil => exact hne htr
          | cons a l =>
            have := r2 a (by rw [htr]; exact List.mem_cons_self ..)
            rw [e] at this; simp at this
        exact w.synced (hT i) hs' (Nat.le_trans hr r1) (Nat.le_trans hd r1) hne'
      · intro heq
        have heq' : t'.rev = (tbl s.db.root i).rev := heq
        have hle := w.rev_le
        have he1 : (tbl es i).rev = (tbl s.db.root i).rev := by omega
        obtain ⟨a, b⟩ := w.same (by omega)
        obtain ⟨c, d⟩ := r4 he1
        exact ⟨a.trans c, b.trans d⟩
  · exact h.freshR
  · intro es' he j id hid
    simp only [Option.some.injEq] at he; subst he
    rw [htrk] at hid
    exact h.freshW es hw j id hid
  · exact h.freshI
  · exact h.uniq
  · intro ci it hi hc hl
    exact (h.reg ci it hi hc (hlive it hl)).transfer rfl rfl rfl rfl rfl rfl rfl rfl rfl
  · intro es' he ci it hi hc hr hnr hb
    simp only [Option.some.injEq] at he; subst he
    rw [htrk] at hr
    obtain ⟨n1, n2⟩ := h.newI es hw ci it hi hc hr hnr hb
    rcases hcase it.table with e | ⟨e1, e2⟩
    · rw [e]; exact ⟨n1, n2⟩
    · rw [e2]
      have w' : WStep (tbl es it.table) t' := e1 ▸ w
      refine ⟨n1, fun M r d hr' hd' hs => ?_⟩
      have hne' : (tbl es it.table).trackers ≠ [] := by
        intro e; rw [e] at hr; simp at hr
      have r1 := (hR it.table).rev
      exact w'.synced (hT it.table) (n2 M r d hr' hd' hs) (Nat.le_trans hr' r1) (Nat.le_trans hd' r1) hne'
  · intro es' he ci it hi hc hr hnr hb
    simp only [Option.some.injEq] at he; subst he
    rw [htrk] at hr
    obtain ⟨p1, p2, p3, p4, p5, p6, p7, p8⟩ := h.pend es hw ci it hi hc hr hnr hb
    rcases hcase it.table with e | ⟨e1, e2⟩
    · rw [e]; exact ⟨p1, p2, p3, p4, p5, p6, p7, p8⟩
    · rw [e2]
      have w' : WStep (tbl es it.table) t' := e1 ▸ w
      have hne' : (tbl es it.table).trackers ≠ [] := by
        intro e; rw [e] at hr; simp at hr
      exact ⟨p1, p2, p3, Nat.le_trans p4 w'.rev_le,
        w'.synced (hT it.table) p5 (Nat.zero_le _) p4 hne', p6, Nat.le_trans p7 w'.rev_le, p8⟩
  · intro j k hk
    obtain ⟨ρ, e, hle, hall⟩ := h.dead j k hk
    exact ⟨ρ, e, hle, fun ci it hi hc ht hl => hall ci it hi hc ht (hlive it hl)⟩
  · exact h.logFresh

theorem iterCreate_spec (db : DB) (ti : Nat) :
    iterCreate db ti = db ∨
    ∃ es, db.wtxn = some es ∧ (tbl es ti).locked = true ∧
      ∃ it0 : ChangeIter, it0.table = ti ∧ it0.revision = 0 ∧ it0.deleteRevision = (tbl es ti).rev ∧
        it0.tracker = db.nextTracker ∧ it0.closed = false ∧ it0.base = (tbl es ti).rev ∧
        it0.watchGen = some (tbl db.oldRoot ti).gen ∧
        (it0.pending = none → (tbl db.oldRoot ti).rev < (tbl es ti).rev) ∧
        iterCreate db ti =
          ({ db with wtxn := some (es.set ti { tbl es ti with trackers := db.nextTracker :: (tbl es ti).trackers }),
                     nextTracker := db.nextTracker + 1,
                     iters := db.iters.push it0 } : DB).setTrackerRev db.nextTracker (tbl es ti).rev := by
  unfold iterCreate
  cases hw : db.wtxn with
  | none => left; rfl
  | some es =>
    simp only
    by_cases hl : (tbl es ti).locked
    · right
      have hf := refresh_fields (ChangeIter.mk ti 0 (tbl es ti).rev db.nextTracker none none false (tbl es ti).rev) db.oldRoot
                  (es.set ti { tbl es ti with trackers := db.nextTracker :: (tbl es ti).trackers }) true
      obtain ⟨f1, f2, f3, f4, f5, f6, f7⟩ := hf
      refine ⟨es, rfl, hl, (ChangeIter.mk ti 0 (tbl es ti).rev db.nextTracker none none false (tbl es ti).rev).refresh db.oldRoot
                  (es.set ti { tbl es ti with trackers := db.nextTracker :: (tbl es ti).trackers }) true,
                f1, f2, f3, f4, f5, f7, f6, ?_, ?_⟩
      · intro hp
        cases hs : (ChangeIter.mk ti 0 (tbl es ti).rev db.nextTracker none none false (tbl es ti).rev).stale db.oldRoot with
        | true => exact (stale_iff _ _).mp hs
        | false => rw [refresh_pending _ _ _ hs] at hp; cases hp
      · have hl' : (es.getD ti default).locked = true := hl
        have hn : ¬ ((!(es.getD ti default).locked) = true) := by rw [hl']; decide
        rw [if_neg hn]
        rfl
    · left
      have hf : (es.getD ti default).locked = false := by
        cases hh : (es.getD ti default).locked with
        | false => rfl
        | true => exact absurd hh hl
      rw [if_pos (by rw [hf]; rfl)]

theorem Inv.create {s : St} (h : Inv s) (ti : Nat) : Inv { s with db := iterCreate s.db ti } := by
  rcases iterCreate_spec s.db ti with e | ⟨es, hw, hl, it0, i1, i2, i3, i4, i5, i6, _, _, e⟩
  · rw [e]; exact h
  · rw [e]
    have hlt : ti < es.length := tbl_locked_lt es ti hl
    have hT := h.wT es hw
    have hR := h.wRel es hw
    let id := s.db.nextTracker
    let t' : TableS := { tbl es ti with trackers := id :: (tbl es ti).trackers }
    have hcase : ∀ j, (j ≠ ti ∧ tbl (es.set ti t') j = tbl es j) ∨ (j = ti ∧ tbl (es.set ti t') j = t') := by
      intro j
      rw [tbl_set]
      by_cases hc : ti = j
      · right; rw [if_pos ⟨hc, hlt⟩]; exact ⟨hc.symm, rfl⟩
      · left; rw [if_neg (fun hh => hc hh.1)]; exact ⟨fun e => hc e.symm, rfl⟩
    have htrkOld : ∀ id', id' ≠ id →
        (({ s.db with wtxn := some (es.set ti t'), nextTracker := id + 1, iters := s.db.iters.push it0 } : DB).setTrackerRev
          id (tbl es ti).rev).trackerRevOf id' = s.db.trackerRevOf id' := by
      intro id' hne
      rw [trackerRevOf_set_ne _ _ _ _ hne]; rfl
    have hiters : ∀ (ci : Nat) (it : ChangeIter), (s.db.iters.push it0)[ci]? = some it →
        (s.db.iters[ci]? = some it ∧ it.tracker ≠ id) ∨ (ci = s.db.iters.size ∧ it = it0) := by
      intro ci it hi
      rw [Array.getElem?_push] at hi
      split at hi
      · right; exact ⟨‹_›, by simpa using hi.symm⟩
      · left; exact ⟨hi, Nat.ne_of_lt (h.freshI ci it hi)⟩
    -- membership of an old tracker in the new entries
    have hmemOld : ∀ (it : ChangeIter), it.tracker ≠ id → it.tracker ∈ (tbl (es.set ti t') it.table).trackers →
        it.tracker ∈ (tbl es it.table).trackers := by
      intro it n1 hr
      rcases hcase it.table with ⟨_, e⟩ | ⟨e1, e⟩
      · rw [e] at hr; exact hr
      · rw [e] at hr
        simp only [t', List.mem_cons] at hr
        rcases hr with e' | hr
        · exact absurd e' n1
        · rw [e1]; exact hr
    have hliveOld : ∀ (it : ChangeIter), it.tracker ≠ id →
        Live { s with db := ({ s.db with wtxn := some (es.set ti t'), nextTracker := id + 1, iters := s.db.iters.push it0 } : DB).setTrackerRev id (tbl es ti).rev } it →
        Live s it := by
      intro it n1 hl
      rcases hl with hl | ⟨es', he, hr, hb⟩
      · exact Or.inl hl
      · simp only [DB.setTrackerRev, Option.some.injEq] at he; subst he
        exact Or.inr ⟨es, hw, hmemOld it n1 hr, hb⟩
    -- the new iterator is never registered in the committed root
    have hnotReg : it0.tracker ∉ (tbl s.db.root it0.table).trackers := by
      intro hr
      rw [i4] at hr
      exact Nat.lt_irrefl _ (h.freshR _ _ hr)
    have hview0 : ∀ ci, ci = s.db.iters.size →
        St.view { s with db := ({ s.db with wtxn := some (es.set ti t'), nextTracker := id + 1, iters := s.db.iters.push it0 } : DB).setTrackerRev id (tbl es ti).rev } ci =
        fun _ => none := by
      intro ci hci
      exact replay_nil_view ci _ (h.logFresh ci (by omega))
    have hsync0 : ∀ (t : TableS), TInv t → Synced (fun _ => none) 0 (tbl es ti).rev t := by
      intro t hTt
      constructor
      · intro o ho hle
        have := hTt.rpos _ _ ((hTt.pr o).mp ho)
        omega
      · intro k hk; exact absurd rfl hk
    constructor
    · exact h.rootT
    · intro es' he j
      simp only [DB.setTrackerRev, Option.some.injEq] at he; subst he
      rcases hcase j with ⟨_, e⟩ | ⟨e1, e⟩
      · rw [e]; exact hT j
      · rw [e]; exact (hT ti).congr rfl rfl rfl rfl rfl
    · intro es' he
      simp only [DB.setTrackerRev, Option.some.injEq] at he; subst he
      obtain ⟨a, b⟩ := h.wOld es hw
      exact ⟨a, by rw [List.length_set]; exact b⟩
    · intro es' he j
      simp only [DB.setTrackerRev, Option.some.injEq] at he; subst he
      rcases hcase j with ⟨_, e⟩ | ⟨e1, e⟩
      · rw [e]; exact hR j
      · rw [e, e1]
        obtain ⟨r1, r2, r3, r4⟩ := hR ti
        refine ⟨r1, fun x hx => List.mem_cons_of_mem _ (r2 x hx), ?_, r4⟩
        intro hne M r d hr hd hs
        exact (r3 hne M r d hr hd hs).congr rfl rfl
    · intro i x hx
      have := h.freshR i x hx
      simp only [DB.setTrackerRev]; omega
    · intro es' he j x hx
      simp only [DB.setTrackerRev, Option.some.injEq] at he; subst he
      simp only [DB.setTrackerRev]
      rcases hcase j with ⟨_, e⟩ | ⟨e1, e⟩
      · rw [e] at hx; have := h.freshW es hw j x hx; omega
      · rw [e] at hx
        simp only [t', List.mem_cons] at hx
        rcases hx with e | hx
        · omega
        · have := h.freshW es hw ti x hx; omega
    · intro ci it hi
      simp only [DB.setTrackerRev] at hi ⊢
      rcases hiters ci it hi with ⟨hi', _⟩ | ⟨_, e⟩
      · have := h.freshI ci it hi'; omega
      · rw [e, i4]; omega
    · intro ci cj it it' hi hj heq
      simp only [DB.setTrackerRev] at hi hj
      rcases hiters ci it hi with ⟨hi', n1⟩ | ⟨c1, e1⟩ <;> rcases hiters cj it' hj with ⟨hj', n2⟩ | ⟨c2, e2⟩
      · exact h.uniq ci cj it it' hi' hj' heq
      · rw [e2, i4] at heq; exact absurd heq n1
      · rw [e1, i4] at heq; exact absurd heq.symm n2
      · rw [c1, c2]
    · intro ci it hi hc hlv
      have hi' : (s.db.iters.push it0)[ci]? = some it := hi
      rcases hiters ci it hi' with ⟨hi'', n1⟩ | ⟨c1, e1⟩
      · exact (h.reg ci it hi'' hc (hliveOld it n1 hlv)).transfer rfl (htrkOld _ n1) rfl rfl rfl rfl rfl rfl rfl
      · subst e1
        rcases hlv with hr | ⟨es', he, hr, hb⟩
        · exact absurd hr hnotReg
        · have hb' : it.base ≤ (tbl s.db.root it.table).rev := hb
          rw [i6, i1] at hb'
          refine ⟨?_, by rw [i2]; exact Nat.zero_le _, by rw [i3, i1]; exact hb', ?_, by rw [i6, i1]; exact hb',
            by rw [i6, i3]; exact Nat.le_refl _⟩
          · rw [hview0 ci c1, i2, i3]
            exact hsync0 _ (h.rootT _)
          · simp only
            rw [i4, i3]
            exact trackerRevOf_set_self _ _ _
    · intro es' he ci it hi hc hr hnr hb
      simp only [DB.setTrackerRev, Option.some.injEq] at he; subst he
      have hi' : (s.db.iters.push it0)[ci]? = some it := hi
      have hnr' : it.tracker ∉ (tbl s.db.root it.table).trackers := hnr
      have hb' : it.base ≤ (tbl s.db.root it.table).rev := hb
      rcases hiters ci it hi' with ⟨hi'', n1⟩ | ⟨c1, e1⟩
      · obtain ⟨m1, m2⟩ := h.newI es hw ci it hi'' hc (hmemOld it n1 hr) hnr' hb'
        rcases hcase it.table with ⟨_, e⟩ | ⟨e1, e⟩
        · rw [e]; exact ⟨m1, m2⟩
        · rw [e]
          refine ⟨m1, fun M r d hr' hd' hs => ?_⟩
          have := m2 M r d hr' hd' hs
          rw [e1] at this
          exact this.congr rfl rfl
      · subst e1
        rw [i6, i1] at hb'
        have hrev := (hR ti).rev
        have hsame := (hR ti).same (by omega)
        rcases hcase it.table with ⟨n, _⟩ | ⟨_, e⟩
        · exact absurd i1 n
        · rw [e]
          refine ⟨by rw [i6, i1]; exact hrev, fun M r d _ _ hs => ?_⟩
          rw [i1] at hs
          exact hs.congr hsame.1 hsame.2
    · intro es' he ci it hi hc hr hnr hb
      simp only [DB.setTrackerRev, Option.some.injEq] at he; subst he
      have hi' : (s.db.iters.push it0)[ci]? = some it := hi
      have hnr' : it.tracker ∉ (tbl s.db.root it.table).trackers := hnr
      have hb' : (tbl s.db.root it.table).rev < it.base := hb
      rcases hiters ci it hi' with ⟨hi'', n1⟩ | ⟨c1, e1⟩
      · have hp := h.pend es hw ci it hi'' hc (hmemOld it n1 hr) hnr' hb'
        have hp' := hp.transfer (s' := { s with db := ({ s.db with wtxn := some (es.set ti t'), nextTracker := id + 1, iters := s.db.iters.push it0 } : DB).setTrackerRev id (tbl es ti).rev })
          (it' := it) rfl (htrkOld _ n1) rfl rfl rfl rfl
        obtain ⟨p1, p2, p3, p4, p5, p6, p7, p8⟩ := hp'
        rcases hcase it.table with ⟨_, e⟩ | ⟨e1, e⟩
        · rw [e]; exact ⟨p1, p2, p3, p4, p5, p6, p7, p8⟩
        · rw [e]
          rw [e1] at p4 p5 p7
          exact ⟨p1, p2, p3, p4, p5.congr rfl rfl, p6, p7, p8⟩
      · subst e1
        rcases hcase it.table with ⟨n, _⟩ | ⟨_, e⟩
        · exact absurd i1 n
        · rw [e]
          refine ⟨h.logFresh ci (by omega), i2, by rw [i3, i1]; exact (hR ti).rev, by rw [i3]; exact Nat.le_refl _, ?_, ?_,
            by rw [i6]; exact Nat.le_refl _, by rw [i6, i3]; exact Nat.le_refl _⟩
          · rw [i3]
            exact hsync0 _ ((hT ti).congr rfl rfl rfl rfl rfl)
          · simp only
            rw [i4, i3]
            exact trackerRevOf_set_self _ _ _
    · intro i k hk
      simp only [DB.setTrackerRev] at hk
      obtain ⟨ρ, e, hle, hall⟩ := h.dead i k hk
      refine ⟨ρ, e, hle, ?_⟩
      intro ci it hi hc ht hlv
      have hi' : (s.db.iters.push it0)[ci]? = some it := hi
      rcases hiters ci it hi' with ⟨hi'', n1⟩ | ⟨c1, e1⟩
      · exact hall ci it hi'' hc ht (hliveOld it n1 hlv)
      · subst e1
        rcases hlv with hr | ⟨es', he, hr, hb⟩
        · exact absurd hr hnotReg
        · subst ht
          have hle' : ρ ≤ (tbl s.db.root it.table).rev := hle
          have := (hR ti).rev
          rw [i3]
          rw [i1] at hle'
          omega
    · intro ci hci
      simp only [DB.setTrackerRev, Array.size_push] at hci ⊢
      exact h.logFresh ci (by omega)

/-- what `Next` does when it consumes (the snapshot is not older than the iterator) -/
structure NextRel (db : DB) (ci : Nat) (it : ChangeIter) (tc : TableS) (taken : List Change) (db' : DB) : Prop where
  isPrefix : ∃ rest, pendingOf tc it.revision it.deleteRevision = taken ++ rest
  iters : ∃ it' : ChangeIter, db'.iters = db.iters.set! ci it' ∧
    it'.table = it.table ∧ it'.tracker = it.tracker ∧ it'.closed = it.closed ∧
    it'.revision = (cursors it.revision it.deleteRevision taken).1 ∧
    it'.deleteRevision = (cursors it.revision it.deleteRevision taken).2 ∧
    it'.watchGen = some tc.gen ∧
    (it'.pending = none → taken = pendingOf tc it.revision it.deleteRevision) ∧
    (db.trackerRevOf it.tracker = it.deleteRevision → db'.trackerRevOf it.tracker = it'.deleteRevision) ∧
    it'.base = it.base
  others : ∀ id, id ≠ it.tracker → db'.trackerRevOf id = db.trackerRevOf id
  root : db'.root = db.root
  wtxn : db'.wtxn = db.wtxn
  oldRoot : db'.oldRoot = db.oldRoot
  nextTracker : db'.nextTracker = db.nextTracker
  gcDead : db'.gcDead = db.gcDead

/-- the three outcomes of `Next` -/
theorem iterNext_spec (db : DB) (ci : Nat) (committed current : List TableS) (k : Int) (it : ChangeIter)
    (hi : db.iters[ci]? = some it) :
    (iterNext db ci committed current k = (db, [], false) ∧ it.pending = none ∧ watchClosed db it = false) ∨
    (it.stale committed = true ∧
      iterNext db ci committed current k =
        ({ db with iters := db.iters.set! ci (it.refresh committed current true) }, [],
          watchClosed db (it.refresh committed current true))) ∨
    (it.stale committed = false ∧ (iterNext db ci committed current k).2.2 = true ∧
      NextRel db ci it (tbl committed it.table) (iterNext db ci committed current k).2.1
        (iterNext db ci committed current k).1) := by
  unfold iterNext
  rw [hi]
  simp only
  split
  · rename_i hc
    left
    refine ⟨rfl, ?_, ?_⟩
    · cases hp : it.pending with
      | none => rfl
      | some _ => rw [hp] at hc; simp at hc
    · simpa using hc.2
  · right
    cases hst : it.stale committed with
    | true => left; simp
    | false =>
      right
      simp only [Bool.false_eq_true, if_false]
      obtain ⟨f1, f2, f3, f4, f5, f6, f7⟩ := refresh_fields it committed current true
      have fp := refresh_pending it committed current hst
      generalize it.refresh committed current true = it1 at *
      unfold iterConsume
      rw [fp]
      simp only
      generalize hps : pendingOf (committed.getD it.table default) it.revision it.deleteRevision = ps
      have hps' : pendingOf (tbl committed it.table) it.revision it.deleteRevision = ps := hps
      generalize hn : (if k < 0 then ps.length else min k.toNat ps.length) = n
      have hc := consumeFold_spec it1 db (ps.take n)
      generalize consumeFold it1 db (ps.take n) = res at *
      obtain ⟨it2, db2⟩ := res
      simp only at hc ⊢
      refine ⟨trivial, trivial, ?_⟩
      constructor
      · exact ⟨ps.drop n, by rw [hps']; exact (List.take_append_drop n ps).symm⟩
      · refine ⟨{ it2 with pending := if k < 0 ∨ k.toNat > ps.length then none else some (ps.drop n) },
          ?_, ?_, ?_, ?_, ?_, ?_, ?_, ?_, ?_, ?_⟩
        · simp only; rw [hc.iters]
        · exact hc.table.trans f1
        · exact hc.tracker.trans f4
        · exact hc.closed.trans f5
        · simp only; rw [hc.revision, f2, f3]
        · simp only; rw [hc.deleteRevision, f2, f3]
        · simp only; rw [hc.watchGen, f6]; rfl
        · simp only
          intro hnone
          rw [hps']
          split at hnone
          · rename_i hex
            have : n = ps.length ∨ ps.length ≤ n := by
              rw [← hn]
              rcases hex with h1 | h1
              · left; simp [h1]
              · right; split <;> omega
            rcases this with e | e
            · rw [e, List.take_length]
            · exact List.take_of_length_le e
          · cases hnone
        · simp only
          intro hm
          have := hc.mark (by rw [f4, f3]; exact hm)
          rw [f4] at this
          exact this
        · exact hc.base.trans f7
      · intro id hid
        exact hc.others id (by rw [f4]; exact hid)
      · exact hc.root
      · exact hc.wtxn
      · exact hc.oldRoot
      · exact hc.nextTracker
      · exact hc.gcDead

theorem cursors_cons (r d : Nat) (c : Change) (cs : List Change) :
    cursors r d (c :: cs) = cursors (advR r c) (advD d c) cs := rfl

theorem cursors_le (B : Nat) (cs : List Change) : ∀ (r d : Nat), r ≤ B → d ≤ B → (∀ c ∈ cs, c.rev ≤ B) →
    (cursors r d cs).1 ≤ B ∧ (cursors r d cs).2 ≤ B := by
  induction cs with
  | nil => intro r d hr hd _; exact ⟨hr, hd⟩
  | cons c cs ih =>
    intro r d hr hd hall
    rw [cursors_cons]
    have hc := hall c (List.mem_cons_self ..)
    refine ih _ _ ?_ ?_ (fun x hx => hall x (List.mem_cons_of_mem _ hx))
    · unfold advR; split <;> omega
    · unfold advD; split <;> omega

theorem cursors_snd_ge (cs : List Change) : ∀ (r d : Nat), AscRev cs → (∀ c ∈ cs, c.deleted = true → d ≤ c.rev) →
    d ≤ (cursors r d cs).2 := by
  induction cs with
  | nil => intro r d _ _; exact Nat.le_refl _
  | cons c cs ih =>
    intro r d hasc hall
    rw [cursors_cons]
    have hasc' := List.pairwise_cons.mp hasc
    by_cases hc : c.deleted = true
    · have e : advD d c = c.rev := by simp [advD, hc]
      rw [e]
      have := ih (advR r c) c.rev hasc'.2 (fun x hx _ => Nat.le_of_lt (hasc'.1 x hx))
      have := hall c (List.mem_cons_self ..) hc
      omega
    · have e : advD d c = d := by simp [advD, hc]
      rw [e]
      exact ih _ _ hasc'.2 (fun x hx => hall x (List.mem_cons_of_mem _ hx))

theorem replay_append (M : View) (a b : List Change) : replay M (a ++ b) = replay (replay M a) b := by
  simp [replay, List.foldl_append]

/-- replacing iterator `ci` by one that agrees on table, cursors, tracker, `closed` and `base` (only
    `pending` / `watchGen` differ) preserves the invariant -/
theorem Inv.setIter {s : St} (h : Inv s) (ci : Nat) (it it' : ChangeIter) (hi : s.db.iters[ci]? = some it)
    (j1 : it'.table = it.table) (j2 : it'.tracker = it.tracker) (j3 : it'.closed = it.closed)
    (j4 : it'.revision = it.revision) (j5 : it'.deleteRevision = it.deleteRevision) (j6 : it'.base = it.base) :
    Inv { s with db := { s.db with iters := s.db.iters.set! ci it' } } := by
  have hsz : ci < s.db.iters.size := by
    rcases Nat.lt_or_ge ci s.db.iters.size with hlt | hge
    · exact hlt
    · rw [Array.getElem?_eq_none hge] at hi; cases hi
  have hget : ∀ (cj : Nat) (x : ChangeIter), (s.db.iters.set! ci it')[cj]? = some x →
      (cj = ci ∧ x = it') ∨ (cj ≠ ci ∧ s.db.iters[cj]? = some x) := by
    intro cj x hx
    rw [Array.set!_eq_setIfInBounds, Array.getElem?_setIfInBounds] at hx
    by_cases e : ci = cj
    · rw [if_pos e, if_pos hsz] at hx
      left; exact ⟨e.symm, by simpa using hx.symm⟩
    · rw [if_neg e] at hx
      right; exact ⟨fun e' => e e'.symm, hx⟩
  have hlive : ∀ x, Live { s with db := { s.db with iters := s.db.iters.set! ci it' } } x → Live s x := fun x hx => hx
  have hlive' : Live s it' → Live s it := by
    intro hl
    rcases hl with hl | ⟨es, he, hr, hb⟩
    · left; rw [j1, j2] at hl; exact hl
    · right; rw [j1, j2] at hr; rw [j1, j6] at hb; exact ⟨es, he, hr, hb⟩
  constructor
  · exact h.rootT
  · exact h.wT
  · exact h.wOld
  · exact h.wRel
  · exact h.freshR
  · exact h.freshW
  · intro cj x hx
    rcases hget cj x hx with ⟨_, e⟩ | ⟨_, hx'⟩
    · rw [e, j2]; exact h.freshI ci it hi
    · exact h.freshI cj x hx'
  · intro c1 c2 x1 x2 hx1 hx2 heq
    rcases hget c1 x1 hx1 with ⟨a1, e1⟩ | ⟨a1, hx1'⟩ <;> rcases hget c2 x2 hx2 with ⟨a2, e2⟩ | ⟨a2, hx2'⟩
    · rw [a1, a2]
    · rw [e1, j2] at heq; rw [a1]; exact h.uniq ci c2 it x2 hi hx2' heq
    · rw [e2, j2] at heq; rw [a2]; exact h.uniq c1 ci x1 it hx1' hi heq
    · exact h.uniq c1 c2 x1 x2 hx1' hx2' heq
  · intro cj x hx hc hl
    rcases hget cj x hx with ⟨a, e⟩ | ⟨_, hx'⟩
    · subst e; subst a
      rw [j1]
      exact (h.reg cj it hi (j3 ▸ hc) (hlive' hl)).transfer rfl rfl j4 j5 j2 j6 rfl rfl rfl
    · exact (h.reg cj x hx' hc hl).transfer rfl rfl rfl rfl rfl rfl rfl rfl rfl
  · intro es he cj x hx hc hr hnr hb
    rcases hget cj x hx with ⟨a, e⟩ | ⟨_, hx'⟩
    · subst e; subst a
      rw [j1, j2] at hr hnr; rw [j1, j6] at hb
      obtain ⟨m1, m2⟩ := h.newI es he cj it hi (j3 ▸ hc) hr hnr hb
      rw [j1]
      exact ⟨by rw [j6]; exact m1, m2⟩
    · exact h.newI es he cj x hx' hc hr hnr hb
  · intro es he cj x hx hc hr hnr hb
    rcases hget cj x hx with ⟨a, e⟩ | ⟨_, hx'⟩
    · subst e; subst a
      rw [j1, j2] at hr hnr; rw [j1, j6] at hb
      rw [j1]
      exact (h.pend es he cj it hi (j3 ▸ hc) hr hnr hb).transfer rfl rfl j4 j5 j2 j6
    · exact (h.pend es he cj x hx' hc hr hnr hb).transfer rfl rfl rfl rfl rfl rfl
  · intro i k hk
    obtain ⟨ρ, e, hle, hall⟩ := h.dead i k hk
    refine ⟨ρ, e, hle, ?_⟩
    intro cj x hx hc ht hl
    rcases hget cj x hx with ⟨a, e'⟩ | ⟨_, hx'⟩
    · subst e'; subst a
      rw [j5]
      exact hall cj it hi (j3 ▸ hc) (j1 ▸ ht) (hlive' hl)
    · exact hall cj x hx' hc ht hl
  · intro cj hcj
    simp only [Array.set!_eq_setIfInBounds, Array.size_setIfInBounds] at hcj
    exact h.logFresh cj hcj

theorem Inv.next {s : St} (h : Inv s) (ci : Nat) (k : Int) (committed current : List TableS)
    (hc : committed = s.db.root ∨ (s.db.wtxn.isSome ∧ committed = s.db.oldRoot)) :
    Inv { db := (iterNext s.db ci committed current k).1,
          log := fun j => if j = ci then s.log ci ++ (iterNext s.db ci committed current k).2.1 else s.log j } := by
  have hcom : committed = s.db.root := by
    rcases hc with e | ⟨hw, e⟩
    · exact e
    · cases hw' : s.db.wtxn with
      | none => rw [hw'] at hw; simp at hw
      | some es => rw [e]; exact (h.wOld es hw').1
  subst hcom
  have hlogsame : (fun j => if j = ci then s.log ci ++ [] else s.log j) = s.log := by
    funext j; split
    · rename_i e; rw [e]; simp
    · rfl
  cases h1 : s.db.iters[ci]? with
  | none =>
    have : iterNext s.db ci s.db.root current k = (s.db, [], false) := by unfold iterNext; rw [h1]
    rw [this]; simp only [hlogsame]; exact h
  | some it =>
  rcases iterNext_spec s.db ci s.db.root current k it h1 with ⟨e, _, _⟩ | ⟨_, e⟩ | ⟨hst, _, hn⟩
  · rw [e]; simp only [hlogsame]; exact h
  · rw [e]; simp only [hlogsame]
    obtain ⟨f1, f2, f3, f4, f5, _, f7⟩ := refresh_fields it s.db.root current true
    exact h.setIter ci it _ h1 f1 f4 f5 f2 f3 f7
  · generalize (iterNext s.db ci s.db.root current k).1 = db' at hn
    generalize (iterNext s.db ci s.db.root current k).2.1 = taken at hn
    obtain ⟨⟨rest, hpre⟩, ⟨it', hit, j1, j2, j3, j4, j5, j6, j7, j8, j9⟩, hoth, hroot, hwtxn, hold, hnt, hgd⟩ := hn
    have hnst : it.base ≤ (tbl s.db.root it.table).rev := by
      by_cases hb : it.base ≤ (tbl s.db.root it.table).rev
      · exact hb
      · have := (stale_iff it s.db.root).mpr (by have : ¬ it.base ≤ (s.db.root.getD it.table default).rev := hb
                                                 omega)
        rw [this] at hst; cases hst
    have hT := h.rootT it.table
    have hb := hT.bound
    have hsz : ci < s.db.iters.size := by
      rcases Nat.lt_or_ge ci s.db.iters.size with hlt | hge
      · exact hlt
      · rw [Array.getElem?_eq_none hge] at h1; cases h1
    have hget : ∀ (cj : Nat) (x : ChangeIter), db'.iters[cj]? = some x →
        (cj = ci ∧ x = it') ∨ (cj ≠ ci ∧ s.db.iters[cj]? = some x) := by
      intro cj x hx
      rw [hit, Array.set!_eq_setIfInBounds, Array.getElem?_setIfInBounds] at hx
      by_cases e : ci = cj
      · rw [if_pos e, if_pos hsz] at hx
        left; exact ⟨e.symm, by simpa using hx.symm⟩
      · rw [if_neg e] at hx
        right; exact ⟨fun e' => e e'.symm, hx⟩
    have hview : ∀ cj, cj ≠ ci →
        St.view { db := db', log := fun j => if j = ci then s.log ci ++ taken else s.log j } cj = s.view cj := by
      intro cj hne; simp [St.view, hne]
    have hview' : St.view { db := db', log := fun j => if j = ci then s.log ci ++ taken else s.log j } ci =
        replay (s.view ci) taken := by
      simp [St.view, replay_append]
    -- liveness is unchanged
    have hliveAny : ∀ x, Live { db := db', log := fun j => if j = ci then s.log ci ++ taken else s.log j } x → Live s x := by
      intro x hl
      rcases hl with hl | ⟨es, he, hr, hbx⟩
      · left; simp only at hl; rw [hroot] at hl; exact hl
      · right; simp only at he hbx; rw [hwtxn] at he; rw [hroot] at hbx; exact ⟨es, he, hr, hbx⟩
    have hlive' : Live s it' → Live s it := by
      intro hl
      rcases hl with hl | ⟨es, he, hr, hbx⟩
      · left; rw [j1, j2] at hl; exact hl
      · right; rw [j1, j2] at hr; rw [j1, j9] at hbx; exact ⟨es, he, hr, hbx⟩
    -- facts about the consuming iterator when it is in good standing
    have hgood : it.closed = false → Live s it →
        RegOK { db := db', log := fun j => if j = ci then s.log ci ++ taken else s.log j } ci it' (tbl s.db.root it.table) ∧
        it.deleteRevision ≤ it'.deleteRevision := by
      intro hcl hl
      obtain ⟨rs, rr, rd, rm, rb, rbd⟩ := h.reg ci it h1 hcl hl
      obtain ⟨hs', hp', _, _⟩ := rs.consume_prefix hT taken rest (by omega) (by omega) hpre
      have htaken : ∀ c ∈ taken, c ∈ pendingOf (tbl s.db.root it.table) it.revision it.deleteRevision := by
        intro c hc; rw [hpre]; exact List.mem_append_left _ hc
      have hcle := cursors_le (tbl s.db.root it.table).rev taken it.revision it.deleteRevision rr rd
        (fun c hc => pendingOf_rev_le hT _ _ (by omega) (by omega) c (htaken c hc))
      have hdge : it.deleteRevision ≤ (cursors it.revision it.deleteRevision taken).2 := by
        apply cursors_snd_ge
        · have := pendingOf_asc hT it.revision it.deleteRevision
          rw [hpre] at this
          exact (List.pairwise_append.mp this).1
        · intro c hc hdel
          have := (mem_pendingOf hT _ _ (by omega) (by omega) c).mp (htaken c hc)
          rcases this.2 with ⟨hf, _⟩ | ⟨_, _, hlt⟩
          · rw [hf] at hdel; cases hdel
          · omega
      refine ⟨⟨?_, by rw [j4]; exact hcle.1, by rw [j5]; exact hcle.2, by simp only; rw [j2]; exact j8 rm,
        by rw [j9]; exact rb, by rw [j9, j5]; omega⟩, by rw [j5]; exact hdge⟩
      rw [hview', j4, j5]; exact hs'
    constructor
    · intro i; simp only; rw [hroot]; exact h.rootT i
    · intro es he i; simp only at he; rw [hwtxn] at he; exact h.wT es he i
    · intro es he; simp only at he ⊢; rw [hwtxn] at he; rw [hold, hroot]; exact h.wOld es he
    · intro es he i; simp only at he ⊢; rw [hwtxn] at he; rw [hroot]; exact h.wRel es he i
    · intro i id hid; simp only at hid ⊢; rw [hroot] at hid; rw [hnt]; exact h.freshR i id hid
    · intro es he i id hid; simp only at he ⊢; rw [hwtxn] at he; rw [hnt]; exact h.freshW es he i id hid
    · intro cj x hx
      simp only at hx ⊢
      rw [hnt]
      rcases hget cj x hx with ⟨_, e⟩ | ⟨_, hx'⟩
      · rw [e, j2]; exact h.freshI ci it h1
      · exact h.freshI cj x hx'
    · intro c1 c2 x1 x2 hx1 hx2 heq
      simp only at hx1 hx2
      rcases hget c1 x1 hx1 with ⟨a1, e1⟩ | ⟨a1, hx1'⟩ <;> rcases hget c2 x2 hx2 with ⟨a2, e2⟩ | ⟨a2, hx2'⟩
      · rw [a1, a2]
      · rw [e1, j2] at heq; rw [a1]; exact h.uniq ci c2 it x2 h1 hx2' heq
      · rw [e2, j2] at heq; rw [a2]; exact h.uniq c1 ci x1 it hx1' h1 heq
      · exact h.uniq c1 c2 x1 x2 hx1' hx2' heq
    · intro cj x hx hcl hl
      have hl' := hliveAny x hl
      simp only at hx ⊢
      rw [hroot]
      rcases hget cj x hx with ⟨a, e⟩ | ⟨a, hx'⟩
      · subst a; subst e
        rw [j1]
        exact (hgood (j3 ▸ hcl) (hlive' hl')).1
      · refine (h.reg cj x hx' hcl hl').transfer (hview cj a) ?_ rfl rfl rfl rfl rfl rfl rfl
        exact hoth _ (fun e => a (h.uniq cj ci x it hx' h1 e))
    · intro es he cj x hx hcl hr hnr hbx
      simp only at he hx hr hnr hbx ⊢
      rw [hwtxn] at he
      rw [hroot] at hnr hbx ⊢
      rcases hget cj x hx with ⟨a, e⟩ | ⟨a, hx'⟩
      · subst e
        rw [j1, j2] at hr hnr; rw [j1, j9] at hbx
        obtain ⟨m1, m2⟩ := h.newI es he ci it h1 (j3 ▸ hcl) hr hnr hbx
        rw [j1]
        exact ⟨by rw [j9]; exact m1, m2⟩
      · exact h.newI es he cj x hx' hcl hr hnr hbx
    · intro es he cj x hx hcl hr hnr hbx
      simp only at he hx hr hnr hbx ⊢
      rw [hwtxn] at he
      rw [hroot] at hnr hbx ⊢
      rcases hget cj x hx with ⟨a, e⟩ | ⟨a, hx'⟩
      · exfalso
        subst e
        rw [j1, j9] at hbx
        omega
      · refine (h.pend es he cj x hx' hcl hr hnr hbx).transfer ?_ ?_ rfl rfl rfl rfl
        · simp only [if_neg a]
        · exact hoth _ (fun e => a (h.uniq cj ci x it hx' h1 e))
    · intro i kk hk
      simp only at hk ⊢
      rw [hgd] at hk
      rw [hroot]
      obtain ⟨ρ, e, hle, hall⟩ := h.dead i kk hk
      refine ⟨ρ, e, hle, ?_⟩
      intro cj x hx hcl ht hl
      have hl' := hliveAny x hl
      rcases hget cj x hx with ⟨a, e'⟩ | ⟨a, hx'⟩
      · subst e'
        have hli := hlive' hl'
        have := hall ci it h1 (j3 ▸ hcl) (j1 ▸ ht) hli
        have := (hgood (j3 ▸ hcl) hli).2
        omega
      · exact hall cj x hx' hcl ht hl'
    · intro cj hcj
      simp only at hcj ⊢
      rw [hit, Array.set!_eq_setIfInBounds, Array.size_setIfInBounds] at hcj
      have : cj ≠ ci := by omega
      rw [if_neg this]
      exact h.logFresh cj hcj

/-- without an open write transaction, good standing = registered in the committed root -/
theorem Live.registered {s : St} {it : ChangeIter} (hw : s.db.wtxn = none) (h : Live s it) :
    it.tracker ∈ (tbl s.db.root it.table).trackers := by
  rcases h with h | ⟨es, he, _⟩
  · exact h
  · rw [hw] at he; cases he

theorem Inv.close {s : St} (h : Inv s) (ci : Nat) (hw : s.db.wtxn = none) :
    Inv { s with db := iterClose s.db ci } := by
  unfold iterClose
  cases h1 : s.db.iters[ci]? with
  | none => exact h
  | some it =>
    simp only
    have hroot := tbl_close s.db.root it.table it.tracker
    have hsz : ci < s.db.iters.size := by
      rcases Nat.lt_or_ge ci s.db.iters.size with hlt | hge
      · exact hlt
      · rw [Array.getElem?_eq_none hge] at h1; cases h1
    have hget : ∀ (cj : Nat) (x : ChangeIter),
        (s.db.iters.set! ci { it with closed := true, pending := none })[cj]? = some x →
        (cj = ci ∧ x.closed = true ∧ x.tracker = it.tracker) ∨ (cj ≠ ci ∧ s.db.iters[cj]? = some x) := by
      intro cj x hx
      rw [Array.set!_eq_setIfInBounds, Array.getElem?_setIfInBounds] at hx
      by_cases e : ci = cj
      · rw [if_pos e, if_pos hsz] at hx
        left
        have : x = { it with closed := true, pending := none } := by simpa using hx.symm
        exact ⟨e.symm, by rw [this], by rw [this]⟩
      · rw [if_neg e] at hx
        right; exact ⟨fun e' => e e'.symm, hx⟩
    have hsub : ∀ i id, id ∈ (tbl (s.db.root.mapIdx fun i t =>
          if i = it.table then { t with trackers := t.trackers.filter (· ≠ it.tracker) } else t) i).trackers →
        id ∈ (tbl s.db.root i).trackers := by
      intro i id hid
      rw [hroot] at hid
      split at hid
      · exact (List.mem_filter.mp hid).1
      · exact hid
    have hcore : ∀ i, let t' := tbl (s.db.root.mapIdx fun i t =>
          if i = it.table then { t with trackers := t.trackers.filter (· ≠ it.tracker) } else t) i
        t'.rev = (tbl s.db.root i).rev ∧ t'.primary = (tbl s.db.root i).primary ∧
        t'.revIdx = (tbl s.db.root i).revIdx ∧ t'.grave = (tbl s.db.root i).grave ∧
        t'.graveRev = (tbl s.db.root i).graveRev := by
      intro i
      simp only
      rw [hroot]
      split <;> exact ⟨rfl, rfl, rfl, rfl, rfl⟩
    have hlive : ∀ x, Live { s with db := { s.db with
          root := s.db.root.mapIdx fun i t =>
            if i = it.table then { t with trackers := t.trackers.filter (· ≠ it.tracker) } else t,
          gcTrig := true, iters := s.db.iters.set! ci { it with closed := true, pending := none } } } x → Live s x := by
      intro x hl
      rcases hl with hl | ⟨es, he, _⟩
      · exact Or.inl (hsub _ _ hl)
      · simp only at he; rw [hw] at he; cases he
    constructor
    · intro i
      obtain ⟨a1, a2, a3, a4, a5⟩ := hcore i
      exact (h.rootT i).congr a1 a2 a3 a4 a5
    · intro es he; simp only at he; rw [hw] at he; cases he
    · intro es he; simp only at he; rw [hw] at he; cases he
    · intro es he; simp only at he; rw [hw] at he; cases he
    · intro i id hid; exact h.freshR i id (hsub i id hid)
    · intro es he; simp only at he; rw [hw] at he; cases he
    · intro cj x hx
      simp only at hx ⊢
      rcases hget cj x hx with ⟨_, _, e⟩ | ⟨_, hx'⟩
      · rw [e]; exact h.freshI ci it h1
      · exact h.freshI cj x hx'
    · intro c1 c2 x1 x2 hx1 hx2 heq
      simp only at hx1 hx2
      rcases hget c1 x1 hx1 with ⟨a1, _, e1⟩ | ⟨a1, hx1'⟩ <;> rcases hget c2 x2 hx2 with ⟨a2, _, e2⟩ | ⟨a2, hx2'⟩
      · rw [a1, a2]
      · rw [e1] at heq; rw [a1]; exact h.uniq ci c2 it x2 h1 hx2' heq
      · rw [e2] at heq; rw [a2]; exact h.uniq c1 ci x1 it hx1' h1 heq
      · exact h.uniq c1 c2 x1 x2 hx1' hx2' heq
    · intro cj x hx hcl hl
      have hl' := hlive x hl
      simp only at hx ⊢
      rcases hget cj x hx with ⟨_, e, _⟩ | ⟨a, hx'⟩
      · rw [e] at hcl; cases hcl
      · obtain ⟨c1, c2, c3, c4, c5⟩ := hcore x.table
        exact (h.reg cj x hx' hcl hl').transfer rfl rfl rfl rfl rfl rfl c1 c2 c4
    · intro es he; simp only at he; rw [hw] at he; cases he
    · intro es he; simp only at he; rw [hw] at he; cases he
    · intro i kk hk
      simp only at hk ⊢
      obtain ⟨ρ, e, hle, hall⟩ := h.dead i kk hk
      refine ⟨ρ, e, by rw [(hcore i).1]; exact hle, ?_⟩
      intro cj x hx hcl ht hl
      rcases hget cj x hx with ⟨_, e', _⟩ | ⟨a, hx'⟩
      · rw [e'] at hcl; cases hcl
      · exact hall cj x hx' hcl ht (hlive x hl)
    · intro cj hcj
      simp only [Array.set!_eq_setIfInBounds, Array.size_setIfInBounds] at hcj ⊢
      exact h.logFresh cj hcj

/-- the keys a fresh scan selects satisfy the collector invariant -/
theorem Inv.scan_ok {s : St} (h : Inv s) (i : Nat) (k : Key) (hk : k ∈ deadKeys (gcScan s.db) i) :
    ∃ ρ, k = revKey ρ ∧ ρ ≤ (tbl s.db.root i).rev ∧
      ∀ (ci : Nat) (it : ChangeIter), s.db.iters[ci]? = some it → it.closed = false → it.table = i →
        Live s it → ρ ≤ it.deleteRevision := by
  rw [deadKeys_gcScan] at hk
  obtain ⟨o, hm, hle⟩ := mem_scanKeys s.db (tbl s.db.root i) k hk
  obtain ⟨e, hrev⟩ := (h.rootT i).grK _ _ hm
  refine ⟨o.rev, e, hrev, ?_⟩
  intro ci it hi hc ht hl
  subst ht
  have hreg := h.reg ci it hi hc hl
  by_cases hr : it.tracker ∈ (tbl s.db.root it.table).trackers
  · have := hreg.mark
    have := lowWatermark_le_tracker s.db _ _ hr
    omega
  · rcases hl with hl | ⟨es, he, hr', hb⟩
    · exact absurd hl hr
    · have := (h.newI es he ci it hi hc hr' hr hb).tb
      have := hreg.bd
      omega

/-- invariant after a collector write with any key set that satisfies the collector invariant -/
theorem Inv.gcWrite {s : St} (h : Inv s) (hw : s.db.wtxn = none) (dead dead' : List (Nat × List Key))
    (hdead : ∀ i, ∀ k ∈ deadKeys dead i, ∃ ρ, k = revKey ρ ∧ ρ ≤ (tbl s.db.root i).rev ∧
      ∀ (ci : Nat) (it : ChangeIter), s.db.iters[ci]? = some it → it.closed = false → it.table = i →
        Live s it → ρ ≤ it.deleteRevision)
    (hdead' : ∀ i, ∀ k ∈ deadKeys dead' i, ∃ ρ, k = revKey ρ ∧ ρ ≤ (tbl s.db.root i).rev ∧
      ∀ (ci : Nat) (it : ChangeIter), s.db.iters[ci]? = some it → it.closed = false → it.table = i →
        Live s it → ρ ≤ it.deleteRevision)
    (b1 b2 : Bool) :
    Inv { s with db := { (gcApply s.db dead) with gcDead := dead', gcPaused := b1, gcTrig := b2 } } := by
  have hroot : ∀ i, tbl (gcApply s.db dead).root i = gcTable (tbl s.db.root i) (deadKeys dead i) :=
    fun i => gcApply_getD s.db dead i
  have hf := fun i => gcTable_fields (tbl s.db.root i) (deadKeys dead i)
  have hwt : (gcApply s.db dead).wtxn = none := hw
  have hlive : ∀ x, Live { s with db := { (gcApply s.db dead) with gcDead := dead', gcPaused := b1, gcTrig := b2 } } x →
      Live s x := by
    intro x hl
    rcases hl with hl | ⟨es, he, _⟩
    · left
      simp only at hl
      rw [hroot, (hf x.table).2.2.2.1] at hl
      exact hl
    · simp only at he; rw [hwt] at he; cases he
  constructor
  · intro i; simp only; rw [hroot]; exact tinv_gcTable (h.rootT i) _
  · intro es he; simp only at he; rw [hwt] at he; cases he
  · intro es he; simp only at he; rw [hwt] at he; cases he
  · intro es he; simp only at he; rw [hwt] at he; cases he
  · intro i id hid
    simp only at hid ⊢
    rw [hroot, (hf i).2.2.2.1] at hid
    exact h.freshR i id hid
  · intro es he; simp only at he; rw [hwt] at he; cases he
  · exact h.freshI
  · exact h.uniq
  · intro ci it hi hc hl
    have hl' := hlive it hl
    simp only at hi ⊢
    rw [hroot]
    obtain ⟨a1, a2, a3, a4, a5, a6⟩ := h.reg ci it hi hc hl'
    refine ⟨?_, by rw [(hf it.table).1]; exact a2, by rw [(hf it.table).1]; exact a3, a4,
      by rw [(hf it.table).1]; exact a5, a6⟩
    apply Synced.gcTable (h.rootT it.table) a1
    intro k hk
    obtain ⟨ρ, e, _, hall⟩ := hdead it.table k hk
    exact ⟨ρ, e, hall ci it hi hc rfl hl'⟩
  · intro es he; simp only at he; rw [hwt] at he; cases he
  · intro es he; simp only at he; rw [hwt] at he; cases he
  · intro i k hk
    simp only at hk ⊢
    obtain ⟨ρ, e, hle, hall⟩ := hdead' i k hk
    rw [hroot, (hf i).1]
    exact ⟨ρ, e, hle, fun ci it hi hc ht hl => hall ci it hi hc ht (hlive it hl)⟩
  · exact h.logFresh

theorem Inv.gcScanStep {s : St} (h : Inv s) :
    Inv { s with db := { s.db with gcDead := gcScan s.db, gcPaused := true, gcTrig := false } } := by
  constructor
  · exact h.rootT
  · exact h.wT
  · exact h.wOld
  · exact h.wRel
  · exact h.freshR
  · exact h.freshW
  · exact h.freshI
  · exact h.uniq
  · intro ci it hi hc hl
    exact (h.reg ci it hi hc hl).transfer rfl rfl rfl rfl rfl rfl rfl rfl rfl
  · exact h.newI
  · intro es he ci it hi hc hr hnr hb
    exact (h.pend es he ci it hi hc hr hnr hb).transfer rfl rfl rfl rfl rfl rfl
  · intro i k hk
    obtain ⟨ρ, e, hle, hall⟩ := h.scan_ok i k hk
    exact ⟨ρ, e, hle, fun ci it hi hc ht hl => hall ci it hi hc ht hl⟩
  · exact h.logFresh

theorem deadKeys_nil (i : Nat) : deadKeys [] i = [] := rfl

/-- **every step preserves the invariant** -/
theorem Step.inv {s s' : St} (st : Step s s') (h : Inv s) : Inv s' := by
  cases st with
  | beginW lm la _ => exact h.beginW lm la
  | commit => exact h.commit
  | abort => exact h.abort
  | write es i t' hw w => exact h.write es i t' hw w
  | create ti => exact h.create ti
  | next ci k committed current hc => exact h.next ci k committed current hc
  | close ci hw => exact h.close ci hw
  | gcScan => exact h.gcScanStep
  | gcApplyPaused hw =>
    have := h.gcWrite hw s.db.gcDead [] h.dead (fun i k hk => by rw [deadKeys_nil] at hk; cases hk) false
      (Tbl.gcApply s.db s.db.gcDead).gcTrig
    exact this
  | gcRun hw =>
    have := h.gcWrite hw (Tbl.gcScan s.db) s.db.gcDead (fun i k hk => h.scan_ok i k hk) h.dead
      (Tbl.gcApply s.db (Tbl.gcScan s.db)).gcPaused false
    exact this

/-- **every reachable state satisfies the invariant** -/
theorem Reach.inv {s : St} (r : Reach s) : Inv s := by
  induction r with
  | init => exact Inv.init
  | step _ st ih => exact st.inv ih
end Sdb.Chg
