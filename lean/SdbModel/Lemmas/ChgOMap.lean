import SdbModel.Model.Table
import SdbModel.Lemmas.Enc

/-! Ordered maps (`Sdb.Tbl.OMap`: association lists sorted by `cmpL`): order
    lemmas for `cmpL`, membership / lookup characterisations of `insert`,
    `erase`, `lowerBound`, and the order-preservation of `revKey`.  Core only.
    Everything the C07 / C08 development adds lives in the namespace `Sdb.Chg`, so that it cannot
    clash with the lemma files of other properties. -/
namespace Sdb.Chg
open Sdb.Tbl

/-! ### `cmpL` is a strict total order -/

theorem cmpL_gt_iff (a b : List Nat) : cmpL a b = .gt ↔ cmpL b a = .lt := by
  rw [cmpL_swap a b]; cases cmpL a b <;> simp

theorem cmpL_lt_irrefl (a : List Nat) : cmpL a a ≠ .lt := by simp [cmpL_refl]

theorem cmpL_lt_trans (a b c : List Nat) (h1 : cmpL a b = .lt) (h2 : cmpL b c = .lt) : cmpL a c = .lt := by
  induction a generalizing b c with
  | nil =>
    cases c with
    | nil => cases b <;> simp_all
    | cons _ _ => rfl
  | cons x xs ih =>
    cases b with
    | nil => simp at h1
    | cons y ys =>
      cases c with
      | nil => simp at h2
      | cons z zs =>
        simp only [cmpL_cons_cons] at h1 h2 ⊢
        by_cases hxy : x < y
        · by_cases hyz : y < z
          · have : x < z := by omega
            simp [this]
          · by_cases hzy : z < y
            · simp [hyz, hzy] at h2
            · have : x < z := by omega
              simp [this]
        · by_cases hyx : y < x
          · simp [hxy, hyx] at h1
          · simp only [hxy, hyx, if_false] at h1
            have hxy' : x = y := by omega
            subst hxy'
            by_cases hyz : x < z
            · simp [hyz]
            · by_cases hzy : z < x
              · simp [hyz, hzy] at h2
              · simp only [hyz, hzy, if_false] at h2 ⊢
                exact ih ys zs h1 h2

theorem cmpL_lt_asymm (a b : List Nat) (h : cmpL a b = .lt) : cmpL b a ≠ .lt := by
  intro h2
  exact cmpL_lt_irrefl a (cmpL_lt_trans a b a h h2)

theorem cmpL_ne_of_lt (a b : List Nat) (h : cmpL a b = .lt) : a ≠ b := by
  intro e; subst e; exact cmpL_lt_irrefl a h

namespace OMap
variable {α : Type}

/-- strictly ascending keys -/
def Sorted (m : OMap α) : Prop := m.Pairwise (fun a b => cmpL a.1 b.1 = .lt)

theorem Sorted.nil : Sorted ([] : OMap α) := List.Pairwise.nil

theorem Sorted.tail {a : Key × α} {m : OMap α} (h : Sorted (a :: m)) : Sorted m :=
  (List.pairwise_cons.mp h).2

theorem Sorted.head_lt {a : Key × α} {m : OMap α} (h : Sorted (a :: m)) :
    ∀ b ∈ m, cmpL a.1 b.1 = .lt := (List.pairwise_cons.mp h).1

theorem Sorted.sublist {m m' : OMap α} (hs : m'.Sublist m) (h : Sorted m) : Sorted m' :=
  List.Pairwise.sublist hs h

theorem Sorted.filter (p : Key × α → Bool) {m : OMap α} (h : Sorted m) : Sorted (m.filter p) :=
  h.sublist List.filter_sublist

/-- keys are unique in a sorted map -/
theorem Sorted.unique {m : OMap α} (h : Sorted m) {k : Key} {v v' : α}
    (h1 : (k, v) ∈ m) (h2 : (k, v') ∈ m) : v = v' := by
  induction m with
  | nil => simp at h1
  | cons a r ih =>
    simp only [List.mem_cons] at h1 h2
    rcases h1 with h1 | h1 <;> rcases h2 with h2 | h2
    · rw [← h1] at h2; exact (Prod.mk.inj h2).2.symm ▸ rfl
    · have := h.head_lt _ h2; rw [← h1] at this; exact absurd this (cmpL_lt_irrefl k)
    · have := h.head_lt _ h1; rw [← h2] at this; exact absurd this (cmpL_lt_irrefl k)
    · exact ih h.tail h1 h2

/-! ### OMap.get -/

theorem get_eq_some_iff {m : OMap α} (h : Sorted m) (k : Key) (v : α) :
    OMap.get m k = some v ↔ (k, v) ∈ m := by
  induction m with
  | nil => simp [OMap.get]
  | cons a r ih =>
    obtain ⟨k', v'⟩ := a
    simp only [OMap.get, List.mem_cons, Prod.mk.injEq]
    cases hc : cmpL k' k with
    | eq =>
      have hk : k' = k := (cmpL_eq_iff _ _).mp hc
      subst hk
      simp only [Option.some.injEq]
      constructor
      · intro e; exact Or.inl ⟨trivial, e.symm⟩
      · rintro (⟨_, e⟩ | hm)
        · exact e.symm
        · have := h.head_lt _ hm; exact absurd this (cmpL_lt_irrefl _)
    | lt =>
      simp only [ih h.tail]
      constructor
      · exact Or.inr
      · rintro (⟨e, _⟩ | hm)
        · subst e; exact absurd hc (cmpL_lt_irrefl _)
        · exact hm
    | gt =>
      simp only [reduceCtorEq, false_iff]
      rintro (⟨e, _⟩ | hm)
      · subst e; rw [cmpL_refl] at hc; cases hc
      · have h1 := h.head_lt _ hm
        have h2 := (cmpL_gt_iff _ _).mp hc
        exact cmpL_lt_asymm _ _ h1 h2

theorem get_eq_none_iff {m : OMap α} (h : Sorted m) (k : Key) :
    OMap.get m k = none ↔ ∀ v, (k, v) ∉ m := by
  constructor
  · intro hn v hv
    rw [← get_eq_some_iff h] at hv
    rw [hn] at hv; cases hv
  · intro hn
    cases hg : OMap.get m k with
    | none => rfl
    | some v => exact absurd ((get_eq_some_iff h k v).mp hg) (hn v)

/-! ### OMap.insert -/

theorem mem_insert {m : OMap α} (h : Sorted m) (k : Key) (v : α) (k' : Key) (v' : α) :
    (k', v') ∈ OMap.insert m k v ↔ (k' = k ∧ v' = v) ∨ (k' ≠ k ∧ (k', v') ∈ m) := by
  induction m with
  | nil => simp [OMap.insert]
  | cons a r ih =>
    obtain ⟨k0, v0⟩ := a
    simp only [OMap.insert]
    cases hc : cmpL k0 k with
    | eq =>
      have hk : k0 = k := (cmpL_eq_iff _ _).mp hc
      subst hk
      simp only [List.mem_cons, Prod.mk.injEq]
      constructor
      · rintro (⟨e1, e2⟩ | hm)
        · exact Or.inl ⟨e1, e2⟩
        · refine Or.inr ⟨?_, Or.inr hm⟩
          intro e; subst e
          exact cmpL_lt_irrefl _ (h.head_lt (k', v') hm)
      · rintro (⟨e1, e2⟩ | ⟨hne, (⟨e1, _⟩ | hm)⟩)
        · exact Or.inl ⟨e1, e2⟩
        · exact absurd e1 hne
        · exact Or.inr hm
    | lt =>
      simp only [List.mem_cons, Prod.mk.injEq, ih h.tail]
      constructor
      · rintro (⟨e1, e2⟩ | h1 | ⟨hne, hm⟩)
        · refine Or.inr ⟨?_, Or.inl ⟨e1, e2⟩⟩
          intro e; subst e; subst e1
          exact cmpL_lt_irrefl _ hc
        · exact Or.inl h1
        · exact Or.inr ⟨hne, Or.inr hm⟩
      · rintro (h1 | ⟨hne, (⟨e1, e2⟩ | hm)⟩)
        · exact Or.inr (Or.inl h1)
        · exact Or.inl ⟨e1, e2⟩
        · exact Or.inr (Or.inr ⟨hne, hm⟩)
    | gt =>
      simp only [List.mem_cons, Prod.mk.injEq]
      constructor
      · rintro (⟨e1, e2⟩ | ⟨e1, e2⟩ | hm)
        · exact Or.inl ⟨e1, e2⟩
        · refine Or.inr ⟨?_, Or.inl ⟨e1, e2⟩⟩
          intro e; subst e; subst e1
          rw [cmpL_refl] at hc; cases hc
        · refine Or.inr ⟨?_, Or.inr hm⟩
          intro e; subst e
          have h1 := h.head_lt _ hm
          exact cmpL_lt_asymm _ _ h1 ((cmpL_gt_iff _ _).mp hc)
      · rintro (h1 | ⟨_, (h2 | hm)⟩)
        · exact Or.inl h1
        · exact Or.inr (Or.inl h2)
        · exact Or.inr (Or.inr hm)

theorem sorted_insert {m : OMap α} (h : Sorted m) (k : Key) (v : α) : Sorted (OMap.insert m k v) := by
  induction m with
  | nil => simp [OMap.insert, Sorted]
  | cons a r ih =>
    obtain ⟨k0, v0⟩ := a
    simp only [OMap.insert]
    cases hc : cmpL k0 k with
    | eq =>
      have hk : k0 = k := (cmpL_eq_iff _ _).mp hc
      subst hk
      exact List.pairwise_cons.mpr ⟨fun b hb => h.head_lt b hb, h.tail⟩
    | lt =>
      refine List.pairwise_cons.mpr ⟨?_, ih h.tail⟩
      rintro ⟨k', v'⟩ hb
      rcases (mem_insert h.tail k v k' v').mp hb with ⟨e, _⟩ | ⟨_, hm⟩
      · subst e; exact hc
      · exact h.head_lt _ hm
    | gt =>
      have hlt : cmpL k k0 = .lt := (cmpL_gt_iff _ _).mp hc
      refine List.pairwise_cons.mpr ⟨?_, h⟩
      intro b hb
      simp only [List.mem_cons] at hb
      rcases hb with e | hm
      · subst e; exact hlt
      · exact cmpL_lt_trans _ _ _ hlt (h.head_lt _ hm)

/-! ### OMap.erase -/

theorem erase_sublist (m : OMap α) (k : Key) : (OMap.erase m k).Sublist m := by
  induction m with
  | nil => simp [OMap.erase]
  | cons a r ih =>
    obtain ⟨k0, v0⟩ := a
    simp only [OMap.erase]
    cases cmpL k0 k with
    | eq => exact List.sublist_cons_self _ _
    | lt => exact List.Sublist.cons_cons _ ih
    | gt => exact List.Sublist.refl _

theorem sorted_erase {m : OMap α} (h : Sorted m) (k : Key) : Sorted (OMap.erase m k) :=
  h.sublist (erase_sublist m k)

theorem mem_erase {m : OMap α} (h : Sorted m) (k : Key) (k' : Key) (v' : α) :
    (k', v') ∈ OMap.erase m k ↔ k' ≠ k ∧ (k', v') ∈ m := by
  induction m with
  | nil => simp [OMap.erase]
  | cons a r ih =>
    obtain ⟨k0, v0⟩ := a
    simp only [OMap.erase]
    cases hc : cmpL k0 k with
    | eq =>
      have hk : k0 = k := (cmpL_eq_iff _ _).mp hc
      subst hk
      simp only [List.mem_cons, Prod.mk.injEq]
      constructor
      · intro hm
        refine ⟨?_, Or.inr hm⟩
        intro e; subst e
        exact cmpL_lt_irrefl _ (h.head_lt (k', v') hm)
      · rintro ⟨hne, (⟨e, _⟩ | hm)⟩
        · exact absurd e hne
        · exact hm
    | lt =>
      simp only [List.mem_cons, Prod.mk.injEq, ih h.tail]
      constructor
      · rintro (⟨e1, e2⟩ | ⟨hne, hm⟩)
        · refine ⟨?_, Or.inl ⟨e1, e2⟩⟩
          intro e; subst e; subst e1
          exact cmpL_lt_irrefl _ hc
        · exact ⟨hne, Or.inr hm⟩
      · rintro ⟨hne, (h1 | hm)⟩
        · exact Or.inl h1
        · exact Or.inr ⟨hne, hm⟩
    | gt =>
      simp only [List.mem_cons, Prod.mk.injEq]
      constructor
      · rintro (⟨e1, e2⟩ | hm)
        · refine ⟨?_, Or.inl ⟨e1, e2⟩⟩
          intro e; subst e; subst e1
          rw [cmpL_refl] at hc; cases hc
        · refine ⟨?_, Or.inr hm⟩
          intro e; subst e
          exact cmpL_lt_asymm _ _ (h.head_lt _ hm) ((cmpL_gt_iff _ _).mp hc)
      · rintro ⟨_, h1⟩; exact h1

theorem get_insert_self {m : OMap α} (h : Sorted m) (k : Key) (v : α) : OMap.get (OMap.insert m k v) k = some v :=
  (get_eq_some_iff (sorted_insert h k v) k v).mpr ((mem_insert h k v k v).mpr (Or.inl ⟨rfl, rfl⟩))

theorem get_erase_self {m : OMap α} (h : Sorted m) (k : Key) : OMap.get (OMap.erase m k) k = none :=
  (get_eq_none_iff (sorted_erase h k) k).mpr fun v hv => ((mem_erase h k k v).mp hv).1 rfl

theorem get_insert_ne {m : OMap α} (h : Sorted m) (k : Key) (v : α) (k' : Key) (hne : k' ≠ k) :
    OMap.get (OMap.insert m k v) k' = OMap.get m k' := by
  cases hg : OMap.get m k' with
  | some v' =>
    rw [get_eq_some_iff (sorted_insert h k v), mem_insert h]
    exact Or.inr ⟨hne, (get_eq_some_iff h k' v').mp hg⟩
  | none =>
    rw [get_eq_none_iff (sorted_insert h k v)]
    intro v' hv'
    rcases (mem_insert h k v k' v').mp hv' with ⟨e, _⟩ | ⟨_, hm⟩
    · exact hne e
    · exact (get_eq_none_iff h k').mp hg v' hm

theorem get_erase_ne {m : OMap α} (h : Sorted m) (k : Key) (k' : Key) (hne : k' ≠ k) :
    OMap.get (OMap.erase m k) k' = OMap.get m k' := by
  cases hg : OMap.get m k' with
  | some v' =>
    rw [get_eq_some_iff (sorted_erase h k), mem_erase h]
    exact ⟨hne, (get_eq_some_iff h k' v').mp hg⟩
  | none =>
    rw [get_eq_none_iff (sorted_erase h k)]
    intro v' hv'
    exact (get_eq_none_iff h k').mp hg v' ((mem_erase h k k' v').mp hv').2

/-! ### OMap.lowerBound -/

theorem mem_lowerBound (m : OMap α) (k : Key) (e : Key × α) :
    e ∈ OMap.lowerBound m k ↔ e ∈ m ∧ cmpL e.1 k ≠ .lt := by
  simp [OMap.lowerBound, List.mem_filter]

theorem sorted_lowerBound {m : OMap α} (h : Sorted m) (k : Key) : Sorted (OMap.lowerBound m k) :=
  h.filter _

end OMap

/-! ### `revKey` -/

theorem revKey_cmp (a b : Nat) (ha : a < 2 ^ 64) (hb : b < 2 ^ 64) :
    cmpL (revKey a) (revKey b) = cmpN a b :=
  be_cmp 8 a b (by simpa using ha) (by simpa using hb)

theorem revKey_lt_iff (a b : Nat) (ha : a < 2 ^ 64) (hb : b < 2 ^ 64) :
    cmpL (revKey a) (revKey b) = .lt ↔ a < b := by
  rw [revKey_cmp a b ha hb]; unfold cmpN
  by_cases h1 : a < b
  · simp [h1]
  · by_cases h2 : b < a <;> simp [h1, h2]

theorem revKey_inj (a b : Nat) (ha : a < 2 ^ 64) (hb : b < 2 ^ 64) (h : revKey a = revKey b) : a = b :=
  be_injective 8 a b (by simpa using ha) (by simpa using hb) h

end Sdb.Chg
