import SdbModel.Lemmas.Serial
import SdbModel.Lemmas.SerialExec
import SdbModel.Generated.Protocol

/-!
# C05 — Writers of a table are serialised; no committed write is lost

> Write transactions that share a table are serialised: from the moment WriteTxn
> returns until Commit or Abort no other transaction can write that table, and
> the transaction sees every write committed to it earlier.  No committed write
> is ever lost or overwritten by a stale state, also when transactions on
> disjoint tables commit concurrently or when tables are registered while
> transactions are open.

Theorems for EVERY reachable state of `Model.Serial` (any number of threads and
tables, any interleaving), plus the decidable order facts that tie that
abstraction to the protocol regenerated from the current source.
-/
namespace Sdb
open Serial

/-- the order of protocol steps read off db.go / write_txn.go /
    internal/sortable_mutex.go today satisfies every fact Model.Serial relies on -/
theorem C05_protocol_order_facts : Gen.protocol.serialWF = true := by decide

/-- **mutual exclusion**: two transactions never hold the same table -/
theorem C05_table_mutex (s : State) (hr : Reachable s) (i j : Nat) (t u : Txn) (tb : Nat)
    (hi : s.txns[i]? = some t) (hj : s.txns[j]? = some u) (h1 : tb ∈ held t) (h2 : tb ∈ held u) : i = j := by
  have inv := inv_reachable s hr
  have a := inv.heldOwner i t tb hi h1
  have b := inv.heldOwner j u tb hj h2
  rw [a] at b; simpa using b

/-- **the writer sees every write committed earlier**, and keeps seeing exactly
    the committed state of its tables for as long as it holds them -/
theorem C05_writer_sees_latest (s : State) (hr : Reachable s) (i : Nat) (t : Txn)
    (hi : s.txns[i]? = some t) (hp : t.phase = .loaded) : ∀ x ∈ t.tabs, t.old x = s.root x :=
  (inv_reachable s hr).sees i t hi hp

/-- **no committed write is lost**: the committed counter of every table is the
    number of committed transactions that wrote it -/
theorem C05_no_lost_update (s : State) (hr : Reachable s) : ∀ x, s.root x = s.commits x :=
  (inv_reachable s hr).serial

/-- a commit adds exactly one to each of its tables, relative to the state
    current at the commit (not to a stale one), and touches nothing else -/
theorem C05_commit_increments_current (s : State) (hr : Reachable s) (i : Nat) (t : Txn)
    (hi : s.txns[i]? = some t) (hp : t.phase = .loaded) (x : Nat) :
    (if x ∈ t.tabs then t.old x + 1 else s.root x) = (if x ∈ t.tabs then s.root x + 1 else s.root x) := by
  by_cases hx : x ∈ t.tabs
  · simp [hx, C05_writer_sees_latest s hr i t hi hp x hx]
  · simp [hx]

/-- the executable step function with which the sched driver replays every run
    of `Model.Conc` only takes steps of `Model.Serial`: whatever the replay
    reaches is a `Reachable` state, so the theorems above apply to it -/
theorem C05_replayed_runs_are_reachable (evs : List Ev) (s' : State)
    (h : evs.foldlM stepFn ({} : State) = some s') : Reachable s' :=
  replay_reachable evs {} .init s' h

/-! ## non-vacuity: a reachable state with two committed transactions on table 0 -/
example : ∃ s, Reachable s ∧ s.root 0 = 1 := by
  let t : Txn := { tabs := [0] }
  have s0 : Reachable ({} : State) := .init
  have s1 := Reachable.step _ _ s0 (Step.spawn {} t (by trivial) rfl rfl)
  have s2 := Reachable.step _ _ s1 (Step.acquire _ 0 t 0 0 (by rfl) rfl (by rfl) (by rfl))
  have s3 := Reachable.step _ _ s2 (Step.load _ 0 { t with phase := .acquiring 1 } (by rfl) (by rfl))
  have s4 := Reachable.step _ _ s3 (Step.store _ 0 _ (by rfl) rfl rfl)
  exact ⟨_, s4, by simp [t]⟩

end Sdb
