import SdbModel.Lemmas.TableWatchReach
import SdbModel.Props.C06
import SdbModel.Props.C12
/-!
# C06 glue — table queries hand out the index tree's channel, table commits notify the index trees

> A watch channel returned by a query is closed no later than the return of the
> Commit that changes that query's result (…; for table-wide watches, any change
> to the table).  It is never closed by an aborted transaction, is not already
> closed when handed out by a fresh snapshot query …

`Props/C06.lean` proves the ordering half over `Model.Serial` and "a changed result
is a changed key" over the index maps of `Model.Table`; `Props/C12.lean` proves that
the radix tree closes the channel of every changed key / prefix.  This file proves
the glue between them over `Model.TableWatch` (the model of table.go /
write_txn.go / part_index.go / lpm_index.go that the table suite runs against the
implementation, channel identities and closed sets compared):

* (i) refinement: in every reachable state, and at every point inside a write
  transaction, each part-index tree holds exactly the entries of the corresponding
  index map of Model.Table (`C06_glue_refinement`, `C06_glue_refinement_in_txn`);
* (ii) the glue theorem: for every committed write transaction (any list of table
  operations: Insert / Modify / CompareAndSwap / Delete / CompareAndDelete / DeleteAll
  and queries made through the transaction) and every watch query on the state before
  it: if the query's result as specified by Model.Table differs after the commit, the
  channel handed out for the query is closed by that commit
  (`C06_glue_changed_result_closes_channel`), for Get / List / Prefix / LowerBound
  through the primary, unique, non-unique and both LPM indexes, and All;
* (iii) an aborted transaction closes nothing; a channel handed out on a committed
  state is a real channel and open; a commit never re-opens a channel.

`Reach` (Lemmas/TableWatchReach.lean): the states of one table reachable by
committed / aborted write transactions.  The two-table database with `side`
transactions of the driver only routes these steps to the table concerned.
-/
namespace Sdb
open Sdb.Art Sdb.Tbl Sdb.ArtW Sdb.TW

namespace TW

/-- the result of a table query as specified by Model.Table -/
def qRes (t : TableS) (ix : Idx) (k : QKind) (key : Key) (plen : Nat) : List Obj :=
  match k with
  | .get => (qGet t ix key plen).toList
  | .list => qList t ix key plen
  | .prefix => qPrefix t ix key plen
  | .lb => qLowerBound t ix key plen
  | .all => qAll t

/-- a query through a unique part index, on the index map -/
def uniqRes (m : OMap Obj) (k : QKind) (key : Key) : List Obj :=
  match k with
  | .get | .list => (OMap.get m key).toList
  | .prefix => (OMap.prefixQ m key).map (·.2)
  | .lb => (OMap.lowerBound m key).map (·.2)
  | .all => m.map (·.2)

theorem ne_of_map_ne {α β : Type} (f : α → β) {a b : α} (h : f a ≠ f b) : a ≠ b := fun e => h (e ▸ rfl)

theorem exists_get_ne (m m' : OMap Obj) (hm : OMap.Sorted m) (hm' : OMap.Sorted m') (h : m ≠ m') :
    ∃ k, OMap.get m k ≠ OMap.get m' k := by
  apply Classical.byContradiction
  intro hne
  apply h
  apply omap_ext m m' hm hm'
  intro k
  apply Classical.byContradiction
  intro hk; exact hne ⟨k, hk⟩

/-- the channel of a query through a unique index is closed when the query's result changes -/
theorem unique_closed {c : CIdx} {m0 m : OMap Obj} {w : WIdx} (h : CInv c m0) (ht : Track c.wd w m0 m)
    (hw : w.tree = c.tree) (k : QKind) (key : Key) (hres : uniqRes m k key ≠ uniqRes m0 k key) :
    partChan true (Tree.view c.tree) k key ∈ (c.commit w).wd.closed := by
  have hs := ht.sorted
  have hs0 := h.sorted
  cases k with
  | get =>
    have : OMap.get m key ≠ OMap.get m0 key := ne_of_map_ne Option.toList hres
    exact commit_closes_get h ht hw key this
  | list =>
    have : OMap.get m key ≠ OMap.get m0 key := ne_of_map_ne Option.toList hres
    exact commit_closes_get h ht hw key this
  | «prefix» =>
    have : OMap.prefixQ m key ≠ OMap.prefixQ m0 key := by
      intro he; apply hres; unfold uniqRes; simp only [he]
    obtain ⟨k', hp, hk'⟩ := C06_prefix_result_change_is_key_change m m0 hs hs0 key this
    exact commit_closes_prefix h ht hw key k' ((hasPrefix_iff k' key).mpr hp) hk'
  | lb =>
    have : OMap.lowerBound m key ≠ OMap.lowerBound m0 key := by
      intro he; apply hres; unfold uniqRes; simp only [he]
    obtain ⟨k', _, hk'⟩ := C06_lowerBound_result_change_is_key_change m m0 hs hs0 key this
    exact commit_closes_root h ht hw k' hk'
  | all =>
    have : m ≠ m0 := by
      intro he; apply hres; unfold uniqRes; simp only [he]
    obtain ⟨k', hk'⟩ := exists_get_ne m m0 hs hs0 this
    exact commit_closes_root h ht hw k' hk'

/-- a query through the non-unique index, on the index map (Model.Table's `qGet` … for `Idx.tags`) -/
def tagRes (m : OMap Obj) (k : QKind) (key : Key) : List Obj :=
  let sk := P.enc key
  match k with
  | .get => (((OMap.prefixQ m sk).find? fun (k, _) => nukSecLen k == (sk.length : Int)).map (·.2)).toList
  | .list => ((OMap.prefixQ m sk).filter fun (k, _) => nukSecLen k == (sk.length : Int)).map (·.2)
  | .prefix => dedupPrimary ((OMap.prefixQ m sk).filter fun (k, _) => decide (nukSecLen k ≥ (sk.length : Int)))
  | .lb => dedupPrimary ((OMap.lowerBound m sk).filter fun (k, _) => cmpL (nukEncodedSecondary k) sk != .lt)
  | .all => m.map (·.2)

theorem tags_closed {c : CIdx} {m0 m : OMap Obj} {w : WIdx} (h : CInv c m0) (ht : Track c.wd w m0 m)
    (hw : w.tree = c.tree) (k : QKind) (key : Key) (hres : tagRes m k key ≠ tagRes m0 k key) :
    partChan false (Tree.view c.tree) k key ∈ (c.commit w).wd.closed := by
  have hs := ht.sorted
  have hs0 := h.sorted
  have viaPrefix : OMap.prefixQ m (P.enc key) ≠ OMap.prefixQ m0 (P.enc key) →
      (prefixRoot c.tree.root c.tree.rootWatch (P.enc key)).2 ∈ (c.commit w).wd.closed := by
    intro hne
    obtain ⟨k', hp, hk'⟩ := C06_prefix_result_change_is_key_change m m0 hs hs0 _ hne
    exact commit_closes_prefix h ht hw _ k' ((hasPrefix_iff k' _).mpr hp) hk'
  cases k with
  | get =>
    apply viaPrefix
    intro he; apply hres; unfold tagRes; simp only [he]
  | list =>
    apply viaPrefix
    intro he; apply hres; unfold tagRes; simp only [he]
  | «prefix» =>
    apply viaPrefix
    intro he; apply hres; unfold tagRes; simp only [he]
  | lb =>
    have : OMap.lowerBound m (P.enc key) ≠ OMap.lowerBound m0 (P.enc key) := by
      intro he; apply hres; unfold tagRes; simp only [he]
    obtain ⟨k', _, hk'⟩ := C06_lowerBound_result_change_is_key_change m m0 hs hs0 _ this
    exact commit_closes_root h ht hw k' hk'
  | all =>
    have : m ≠ m0 := by
      intro he; apply hres; unfold tagRes; simp only [he]
    obtain ⟨k', hk'⟩ := exists_get_ne m m0 hs hs0 this
    exact commit_closes_root h ht hw k' hk'

theorem qRes_id (t : TableS) (k : QKind) (key : Key) (plen : Nat) : qRes t .id k key plen = uniqRes t.primary k key := by
  cases k <;> rfl

theorem qRes_u (t : TableS) (k : QKind) (key : Key) (plen : Nat) (hk : k ≠ .all) :
    qRes t .u k key plen = uniqRes t.uIdx k key := by
  cases k <;> first | rfl | exact absurd rfl hk

theorem qRes_tags (t : TableS) (k : QKind) (key : Key) (plen : Nat) (hk : k ≠ .all) :
    qRes t .tags k key plen = tagRes t.tagIdx k key := by
  cases k <;> first | rfl | exact absurd rfl hk

theorem qRes_lpm_congr (t t' : TableS) (k : QKind) (key : Key) (plen : Nat) (hk : k ≠ .all) (h : t.lpm = t'.lpm) :
    qRes t .lpm k key plen = qRes t' .lpm k key plen := by
  cases k with
  | all => exact absurd rfl hk
  | _ => simp only [qRes, qGet, qList, qPrefix, qLowerBound, h]

theorem qRes_ulpm_congr (t t' : TableS) (k : QKind) (key : Key) (plen : Nat) (hk : k ≠ .all) (h : t.ulpm = t'.ulpm) :
    qRes t .ulpm k key plen = qRes t' .ulpm k key plen := by
  cases k with
  | all => exact absurd rfl hk
  | _ => simp only [qRes, qGet, qList, qPrefix, qLowerBound, h]

end TW

/-! ## (i) refinement -/

/-- every reachable state satisfies the table invariant: per part index the channel invariant of C12,
    the stamp invariant, the shape invariant of C11 and the refinement; per LPM index the version-channel
    invariant -/
theorem C06_glue_invariant_reachable (t : TableS) (c : CTab) (h : TW.Reach t c) : TInvW t c := h.inv

/-- **(i) refinement**: in every reachable state each part-index tree (primary `id`, unique `u`,
    non-unique `tags`) holds exactly the entries of the corresponding sorted index map of Model.Table:
    the same keys in the same order, each with the revision of the object stored there; `Len` agrees -/
theorem C06_glue_refinement (t : TableS) (c : CTab) (h : TW.Reach t c) (i : PIx) :
    allRoot (c.part.get i).tree.root = (imap t i).map (fun e => (e.1, e.2.rev)) ∧
    (c.part.get i).tree.size = (imap t i).length ∧ OMap.Sorted (imap t i) := by
  have hi := h.inv.part i
  refine ⟨hi.ent, ?_, hi.sorted⟩
  rw [hi.wf.2, hi.ent]; simp [rmap]

/-- … and at every point inside a write transaction (after any table operations, before Commit /
    Abort) the tree a query through the transaction searches holds exactly the transaction's index map -/
theorem C06_glue_refinement_in_txn (t : TableS) (c : CTab) (h : TW.Reach t c) (ops : List TOp) (i : PIx) :
    allRoot ((runT c (beginT t c) ops).2.part.get i).view.root =
      (imap (runT c (beginT t c) ops).1 i).map (fun e => (e.1, e.2.rev)) := by
  have ht := (h.inv.begin.1.run ops).idx i
  have : ((runT c (beginT t c) ops).2.part.get i).view.root = (((runT c (beginT t c) ops).2.part.get i).cur (c.part.get i).wd).root := by
    unfold WIdx.view WIdx.cur
    cases ((runT c (beginT t c) ops).2.part.get i).txn <;> rfl
  rw [this]
  exact ht.ent

/-- lookups through the tree are lookups in the index map (C11 composed with the refinement) -/
theorem C06_glue_get_is_index_lookup (t : TableS) (c : CTab) (h : TW.Reach t c) (i : PIx) (k : Key) :
    (getRoot (c.part.get i).tree.root (c.part.get i).tree.rootWatch k).1 = (OMap.get (imap t i) k).map (·.rev) := by
  have hi := h.inv.part i
  rw [getRoot_look _ hi.wf.1, hi.ent, look_rmap _ hi.sorted]

/-! ## (ii) the glue theorem -/

/-- **(ii) a commit that changes a query's result closes the query's channel.**
    `t`, `c`: any reachable committed state of a table (Model.Table's view, Model.TableWatch's view);
    `ops`: any list of table operations run by a write transaction holding the table;
    the query `(ix, kind, key, plen)` is made on the committed state before (`c.view.chan`: the channel
    part_index.go / lpm_index.go return).  If its result as specified by Model.Table (`qRes`) after the
    transaction differs from the result before, the channel is in the closed set of its index after
    `Commit` (commit of every index transaction + notify).
    `All` exists on the primary index only; the revision index is not modelled. -/
theorem C06_glue_changed_result_closes_channel (t : TableS) (c : CTab) (h : TW.Reach t c) (ops : List TOp)
    (ix : Idx) (kind : QKind) (key : Key) (plen : Nat) (hrev : ix ≠ .rev) (hall : kind = .all → ix = .id)
    (hres : qRes (runT c (beginT t c) ops).1 ix kind key plen ≠ qRes t ix kind key plen) :
    (c.commit (runT c (beginT t c) ops).2).isClosed (c.view.chan ix kind key).1 (c.view.chan ix kind key).2 = true := by
  have hinv := h.inv
  have ht := hinv.begin.1.run ops
  have hl := hinv.begin.2.run ops
  have hk : ix ≠ .id → kind ≠ .all := fun h1 h2 => h1 (hall h2)
  have hview : ∀ i, c.view.part.get i = Tree.view (c.part.get i).tree := by
    intro i; unfold CTab.view; simp
  cases ix with
  | id =>
    rw [qRes_id, qRes_id] at hres
    have := unique_closed (hinv.part .id) (ht.idx .id) (ht.tree .id) kind key hres
    rw [← commit_part c _ ht.locked .id] at this
    simp only [View.chan, hview, CTab.isClosed]
    simpa [Tri.get] using this
  | u =>
    rw [qRes_u _ _ _ _ (hk (by simp)), qRes_u _ _ _ _ (hk (by simp))] at hres
    have := unique_closed (hinv.part .u) (ht.idx .u) (ht.tree .u) kind key hres
    rw [← commit_part c _ ht.locked .u] at this
    simp only [View.chan, hview, CTab.isClosed]
    simpa [Tri.get] using this
  | tags =>
    rw [qRes_tags _ _ _ _ (hk (by simp)), qRes_tags _ _ _ _ (hk (by simp))] at hres
    have := tags_closed (hinv.part .tags) (ht.idx .tags) (ht.tree .tags) kind key hres
    rw [← commit_part c _ ht.locked .tags] at this
    simp only [View.chan, hview, CTab.isClosed]
    simpa [Tri.get] using this
  | lpm =>
    have hne : (runT c (beginT t c) ops).1.lpm ≠ t.lpm := fun he => hres (qRes_lpm_congr _ _ _ _ _ (hk (by simp)) he)
    have ho := (hl.opened (Or.inl hne)).1
    simp only [View.chan, CTab.isClosed, CTab.view, CTab.commit, ht.locked, if_true, LIdx.commit, ho]
    simp
  | ulpm =>
    have hne : (runT c (beginT t c) ops).1.ulpm ≠ t.ulpm := fun he => hres (qRes_ulpm_congr _ _ _ _ _ (hk (by simp)) he)
    have ho := (hl.opened (Or.inr hne)).2
    simp only [View.chan, CTab.isClosed, CTab.view, CTab.commit, ht.locked, if_true, LIdx.commit, ho]
    simp
  | rev => exact absurd rfl hrev

/-! ## (iii) aborts, hand-out, monotonicity -/

/-- **an aborted transaction closes nothing**: whatever it did, the closed set of every index of the
    table is the same after Abort -/
theorem C06_glue_abort_closes_nothing (c : CTab) (w : WTab) (ixn ch : Nat) :
    (c.abort w).isClosed ixn ch = c.isClosed ixn ch := by
  unfold CTab.abort
  split
  · unfold CTab.isClosed
    have h0 := abort_closed (c.part.get .id) (w.part.get .id)
    have h1 := abort_closed (c.part.get .u) (w.part.get .u)
    have h2 := abort_closed (c.part.get .tags) (w.part.get .tags)
    simp only [Tri.get] at h0 h1 h2
    split <;> simp_all [Tri.tab, Tri.get]
  · rfl

/-- **a commit never re-opens a channel** (closed sets only grow) -/
theorem C06_glue_commit_keeps_closed (c : CTab) (w : WTab) (ixn ch : Nat) (h : c.isClosed ixn ch = true) :
    (c.commit w).isClosed ixn ch = true := by
  unfold CTab.commit
  split
  · have m0 := commit_closed_mono (c.part.get .id) (w.part.get .id) ch
    have m1 := commit_closed_mono (c.part.get .u) (w.part.get .u) ch
    have m2 := commit_closed_mono (c.part.get .tags) (w.part.get .tags) ch
    unfold CTab.isClosed at h ⊢
    simp only [Tri.tab, Tri.get] at m0 m1 m2 ⊢
    split at h
    · simpa using m0 (by simpa using h)
    · simpa using m1 (by simpa using h)
    · simpa using m2 (by simpa using h)
    · simp only [LIdx.commit]; split <;> simp_all
    · simp only [LIdx.commit]; split <;> simp_all
    · exact absurd h (by simp)
  · exact h

namespace TW
theorem commit_eq_self (c : CTab) (w : WTab) (hp : ∀ i, (c.part.get i).commit (w.part.get i) = c.part.get i)
    (h1 : w.lpm.opened = false) (h2 : w.ulpm.opened = false) : c.commit w = c := by
  unfold CTab.commit
  split
  · have e0 := hp .id
    have e1 := hp .u
    have e2 := hp .tags
    simp only [Tri.get] at e0 e1 e2
    simp only [Tri.tab, Tri.get, e0, e1, e2, LIdx.commit, h1, h2, Bool.false_eq_true, if_false]
  · rfl

theorem run_bumps_none (wd : World) (ops : List IOp) (w : WIdx) (hall : ∀ op ∈ ops, op = IOp.bump) (hw : w.txn = none) :
    (w.run wd ops).txn = none := by
  induction ops generalizing w with
  | nil => exact hw
  | cons op ops ih =>
    have : op = IOp.bump := hall op (by simp)
    subst this
    show (WIdx.run wd (w.apply wd .bump) ops).txn = none
    rw [apply_bump_none wd w hw]
    exact ih w (fun o ho => hall o (by simp [ho])) hw

theorem readOps_bumps (ix : Idx) (k : QKind) (i : PIx) : ∀ op ∈ (readOps ix k).get i, op = IOp.bump := by
  intro op hop
  unfold readOps partReadOps at hop
  cases ix <;> cases i <;> cases k <;> simp_all [TOps.get]

theorem readOps_lpm (ix : Idx) (k : QKind) : (readOps ix k).lpm = false := by
  unfold readOps; cases ix <;> rfl

/-- reads never create an index transaction -/
theorem reads_no_txn (c : CTab) (qs : List (Idx × QKind)) (s : TableS × WTab)
    (h1 : ∀ i, (s.2.part.get i).txn = none) (h2 : s.2.lpm.opened = false) (h3 : s.2.ulpm.opened = false) :
    (∀ i, ((runT c s (qs.map fun q => TOp.read q.1 q.2)).2.part.get i).txn = none) ∧
    (runT c s (qs.map fun q => TOp.read q.1 q.2)).2.lpm.opened = false ∧
    (runT c s (qs.map fun q => TOp.read q.1 q.2)).2.ulpm.opened = false := by
  induction qs generalizing s with
  | nil => exact ⟨h1, h2, h3⟩
  | cons q qs ih =>
    apply ih (stepT c s (TOp.read q.1 q.2))
    · intro i
      show ((s.2.applyOps c (readOps q.1 q.2)).part.get i).txn = none
      unfold WTab.applyOps
      simp only [Tri.get_tab]
      exact run_bumps_none _ _ _ (readOps_bumps q.1 q.2 i) (h1 i)
    · show (s.2.lpm.opened || (readOps q.1 q.2).lpm) = false
      rw [h2, readOps_lpm]; rfl
    · show (s.2.ulpm.opened || (readOps q.1 q.2).lpm) = false
      rw [h3, readOps_lpm]; rfl
end TW

/-- a transaction that only reads (queries made through the write transaction) commits to the same
    committed table: no index transaction is ever created by a read, nothing is closed.  (The operations
    of an open transaction act on the transaction's copy `WTab`; the committed table `CTab`, and with it
    every closed set, changes only in `CTab.commit`.) -/
theorem C06_glue_read_only_txn_closes_nothing (t : TableS) (c : CTab) (qs : List (Idx × QKind)) :
    c.commit (runT c (beginT t c) (qs.map fun q => TOp.read q.1 q.2)).2 = c := by
  obtain ⟨k1, k2, k3⟩ := reads_no_txn c qs (beginT t c) (by intro i; unfold beginT CTab.begin; simp) rfl rfl
  apply commit_eq_self c _ _ k2 k3
  intro i; unfold CIdx.commit; rw [k1 i]

/-- **not handed out closed / nil**: the channel a watch query returns on a reachable committed state is a
    real channel and is open -/
theorem C06_glue_handed_out_channel_open (t : TableS) (c : CTab) (h : TW.Reach t c) (ix : Idx) (kind : QKind)
    (key : Key) (hrev : ix ≠ .rev) :
    (c.view.chan ix kind key).2 ≠ 0 ∧ c.isClosed (c.view.chan ix kind key).1 (c.view.chan ix kind key).2 = false := by
  have hinv := h.inv
  have hview : ∀ i, c.view.part.get i = Tree.view (c.part.get i).tree := by
    intro i; unfold CTab.view; simp
  have part : ∀ (i : PIx) (u : Bool),
      partChan u (Tree.view (c.part.get i).tree) kind key ≠ 0 ∧
      partChan u (Tree.view (c.part.get i).tree) kind key ∉ (c.part.get i).wd.closed := by
    intro i u
    have hi := hinv.part i
    unfold partChan Tree.view
    cases kind <;> cases u <;> simp only [Bool.false_eq_true, if_false, if_true] <;>
      first | exact hi.get_open _ | exact hi.prefix_open _ | exact hi.root_open
  cases ix with
  | id =>
    have := part .id true
    simp only [View.chan, hview, CTab.isClosed]
    exact ⟨this.1, by simpa [Tri.get] using this.2⟩
  | u =>
    have := part .u true
    simp only [View.chan, hview, CTab.isClosed]
    exact ⟨this.1, by simpa [Tri.get] using this.2⟩
  | tags =>
    have := part .tags false
    simp only [View.chan, hview, CTab.isClosed]
    exact ⟨this.1, by simpa [Tri.get] using this.2⟩
  | lpm =>
    simp only [View.chan, CTab.view, CTab.isClosed]
    exact ⟨hinv.lpm.pos, by simpa using hinv.lpm.open_⟩
  | ulpm =>
    simp only [View.chan, CTab.view, CTab.isClosed]
    exact ⟨hinv.ulpm.pos, by simpa using hinv.ulpm.open_⟩
  | rev => exact absurd rfl hrev

/-- … in particular the channels handed out by the snapshot returned by Commit itself are open -/
theorem C06_glue_fresh_channel_open_after_commit (t : TableS) (c : CTab) (h : TW.Reach t c) (ops : List TOp)
    (ix : Idx) (kind : QKind) (key : Key) (hrev : ix ≠ .rev) :
    let c' := c.commit (runT c (beginT t c) ops).2
    c'.isClosed (c'.view.chan ix kind key).1 (c'.view.chan ix kind key).2 = false :=
  (C06_glue_handed_out_channel_open _ _ (Reach.commit t c ops h) ix kind key hrev).2

/-! ## non-vacuity -/

namespace TW
/-- two objects of a full table: ids 0x0102 / 0x0103, tag "a" / no tag -/
def exO1 : Obj := { id := [1, 2], val := 7, uvar := 0, tags := [[97]], pfxs := [([10, 0], 8)], up := false, ord := 1, rev := 0 }
def exO2 : Obj := { id := [1, 3], val := 8, uvar := 1, tags := [], pfxs := [], up := false, ord := 2, rev := 0 }
def exT0 : TableS := { full := true }
def exC0 : CTab := newCTab true
/-- first transaction: Insert exO1, committed -/
def exT1 : TableS := (runT exC0 (beginT exT0 exC0) [.modify 0 exO1 false]).1
def exC1 : CTab := exC0.commit (runT exC0 (beginT exT0 exC0) [.modify 0 exO1 false]).2
theorem exReach1 : Reach exT1 exC1 := Reach.commit exT0 exC0 _ (Reach.init true)
end TW

-- the second transaction inserts exO2, reads through itself, and fails a CompareAndSwap on exO1:
-- Prefix(0x01) through the primary index changes its result …
example : qRes (runT exC1 (beginT exT1 exC1) [.modify 0 exO2 false, .read .id .prefix, .modify 5 exO1 false]).1 .id .prefix [1] 0 ≠
    qRes exT1 .id .prefix [1] 0 := by decide
-- … so the channel handed out before is closed by the commit (the theorem applied to the instance) …
example : (exC1.commit (runT exC1 (beginT exT1 exC1) [.modify 0 exO2 false, .read .id .prefix, .modify 5 exO1 false]).2).isClosed
    (exC1.view.chan .id .prefix [1]).1 (exC1.view.chan .id .prefix [1]).2 = true :=
  C06_glue_changed_result_closes_channel exT1 exC1 exReach1 _ .id .prefix [1] 0 (by decide) (by decide) (by decide)
-- … while it was open when handed out
example : exC1.isClosed (exC1.view.chan .id .prefix [1]).1 (exC1.view.chan .id .prefix [1]).2 = false :=
  (C06_glue_handed_out_channel_open exT1 exC1 exReach1 .id .prefix [1] (by decide)).2
-- the same transaction changes Get("a") through the non-unique index? no: exO2 has no tag — the result is the
-- same, and (here) the channel stays open; the LPM indexes' table-wide channel is closed although no LPM key changed
example : qRes (runT exC1 (beginT exT1 exC1) [.modify 0 exO2 false]).1 .tags .get [97] 0 = qRes exT1 .tags .get [97] 0 := by decide
example : (exC1.commit (runT exC1 (beginT exT1 exC1) [.modify 0 exO2 false]).2).isClosed
    (exC1.view.chan .tags .get [97]).1 (exC1.view.chan .tags .get [97]).2 = false := by decide
example : (exC1.commit (runT exC1 (beginT exT1 exC1) [.modify 0 exO2 false]).2).isClosed
    (exC1.view.chan .lpm .lb [] ).1 (exC1.view.chan .lpm .lb []).2 = true := by decide
-- the converse of (ii) does not hold (known finding K3): a transaction whose only write is a CompareAndSwap
-- rejected by its guard changes no result but closes the Get channel of the key and the primary root watch
example : (runT exC1 (beginT exT1 exC1) [.modify 5 exO1 false]).1.primary = exT1.primary ∧
    (exC1.commit (runT exC1 (beginT exT1 exC1) [.modify 5 exO1 false]).2).isClosed
      (exC1.view.chan .id .get [1, 2]).1 (exC1.view.chan .id .get [1, 2]).2 = true ∧
    (exC1.commit (runT exC1 (beginT exT1 exC1) [.modify 5 exO1 false]).2).isClosed
      (exC1.view.chan .id .all []).1 (exC1.view.chan .id .all []).2 = true := by decide
-- an aborted transaction with the same operations closes nothing
example : (exC1.abort (runT exC1 (beginT exT1 exC1) [.modify 0 exO2 false, .deleteAll]).2).isClosed
    (exC1.view.chan .id .prefix [1]).1 (exC1.view.chan .id .prefix [1]).2 = false := by decide

end Sdb
