import SdbModel.Model.Reconciler
import SdbModel.Generated.RecParams
import SdbModel.Props.C16
import SdbModel.Lemmas.ReconcilerMeasure

/-!
# C14 — Reconciler converges: target equals table once failures stop

> For any history of inserts, updates and deletes on the reconciled table and
> any pattern of failing Update/Delete operations, once operations stop failing
> and the table stops changing the reconciler reaches, within a bounded number
> of retry periods, a state where the target equals the table (…).  No object is
> forgotten, whatever the round size, rate limits, batch or single operations,
> or retry timing.

> "… the last successful operation for every live object is an Update with its
> latest contents and its status is Done, and the last operation for every
> removed object is a successful Delete."

Proved over `Model.Reconciler` (single operations, no writes from inside an
Update: `injects = []`), for ALL reachable states, configurations and fuels:

* an invariant `WInv` (`C14_inv_initial`, `C14_inv_userPut` … `C14_inv_advance`,
  `C14_inv_reachable`) that says nothing is forgotten (`C14_inv_nothing_forgotten`,
  `C14_idle_nothing_forgotten`) and that the retry timer is armed exactly for the
  earliest retry, which is due within the maximal backoff
  (`C14_inv_timer_armed_for_head`);
* progress: once nothing fails, every triggered round decreases an explicit
  measure, so the loop goes idle with explicit fuel
  (`C14_round_decreases_measure`, `C14_quiesce_goes_idle`);
* convergence: later than the maximal backoff after failures stop the idle
  state has target = table (`C14_converged_quiesce` — any size, any round
  size ≥ 1; `C14_converged_when_idle` — through `advance`, any fuel, given the
  final state is idle; `C14_converged_advance_partial` — `advance` with explicit
  fuel, limited to ≤ 10 queued retries by the model's inner fuel 64).

The ONE hypothesis beyond the configuration's own validity: no foreign writer
touches an object while its status is Error (constructor `touch` of
`C14Reachable`).  Without it the statement is false of the model and of the
code — known finding K4, `C14_touch_on_error_refuted`,
`C14_inv_touch_on_error_refuted`.  The step-level theorems of the first version
of this file are kept below.
-/
namespace Sdb
open Rec

/-! ## the change stream is complete -/

private theorem mem_insertCh (c x : Change) (l : List Change) : x ∈ insertCh c l ↔ x = c ∨ x ∈ l := by
  induction l with
  | nil => simp [insertCh]
  | cons d ds ih =>
    unfold insertCh
    split
    · simp
    · simp only [List.mem_cons, ih]
      constructor
      · rintro (h | h | h)
        · exact Or.inr (Or.inl h)
        · exact Or.inl h
        · exact Or.inr (Or.inr h)
      · rintro (h | h | h)
        · exact Or.inr (Or.inl h)
        · exact Or.inl h
        · exact Or.inr (Or.inr h)

private theorem mem_foldr_insertCh (l : List Change) (x : Change) : x ∈ l.foldr insertCh [] ↔ x ∈ l := by
  induction l with
  | nil => simp
  | cons c cs ih => simp [List.foldr_cons, mem_insertCh, ih]

private theorem mem_mergeCh (a b : List Change) (x : Change) : x ∈ mergeCh a b ↔ x ∈ a ∨ x ∈ b := by
  fun_induction mergeCh a b with
  | case1 r => simp
  | case2 l h => simp
  | case3 l ls r rs hle ih => simp only [List.mem_cons, ih]; grind
  | case4 l ls r rs hle ih => simp only [List.mem_cons, ih]; grind

/-- whenever the loop has something to look at, `Next` hands the round EVERY live
    object written since the iterator's position … -/
theorem C14_changes_contain_every_newer_object (r : R) (o : RObj)
    (hrun : ¬ (r.pending.isNone ∧ r.refreshedAt = r.tableRev))
    (ho : o ∈ r.objs) (hrev : o.rev > r.itRev) :
    ({ obj := o, rev := o.rev, deleted := false } : Change) ∈ r.nextChanges.2 := by
  unfold R.nextChanges
  simp only [hrun, if_false]
  rw [mem_mergeCh]
  right
  rw [mem_foldr_insertCh, List.mem_map]
  exact ⟨o, by simp [List.mem_filter, ho, hrev], rfl⟩

/-- … and every retained deletion newer than its delete position -/
theorem C14_changes_contain_every_newer_deletion (r : R) (o : RObj) (dr : Nat)
    (hrun : ¬ (r.pending.isNone ∧ r.refreshedAt = r.tableRev))
    (ho : (o, dr) ∈ r.dels) (hrev : dr > r.itDelRev) :
    ({ obj := o, rev := dr, deleted := true } : Change) ∈ r.nextChanges.2 := by
  unfold R.nextChanges
  simp only [hrun, if_false]
  rw [mem_mergeCh]
  left
  rw [mem_foldr_insertCh, List.mem_map]
  exact ⟨(o, dr), by simp [List.mem_filter, ho, hrev], rfl⟩

/-- the stream contains nothing else: only current objects and retained deletions -/
theorem C14_changes_only_current (r : R) (c : Change) (hc : c ∈ r.nextChanges.2) :
    (c.deleted = false ∧ c.obj ∈ r.objs ∧ c.rev = c.obj.rev) ∨ (c.deleted = true ∧ (c.obj, c.rev) ∈ r.dels) := by
  unfold R.nextChanges at hc
  split at hc
  · simp at hc
  · simp only at hc
    rw [mem_mergeCh, mem_foldr_insertCh, mem_foldr_insertCh] at hc
    rcases hc with hc | hc
    · right
      simp only [List.mem_map, List.mem_filter] at hc
      obtain ⟨⟨o, dr⟩, ⟨hm, _⟩, rfl⟩ := hc
      exact ⟨rfl, hm⟩
    · left
      simp only [List.mem_map, List.mem_filter] at hc
      obtain ⟨o, ⟨hm, _⟩, rfl⟩ := hc
      exact ⟨rfl, hm, rfl⟩

/-! ## one operation -/

private theorem applyInject_log (r : R) (a : Inject) : (r.applyInject a).log = r.log := by
  cases a with
  | put id data => rfl
  | del id => simp only [R.applyInject, R.delObj]; split <;> rfl
  | touch id => simp only [R.applyInject, R.touch]; split <;> rfl

private theorem foldl_inject_log (l : List (Nat × Inject)) (r : R) :
    (l.foldl (fun (r : R) (a : Nat × Inject) => r.applyInject a.2) r).log = r.log := by
  induction l generalizing r with
  | nil => rfl
  | cons a as ih => rw [List.foldl_cons, ih, applyInject_log]

private theorem retryClear_log (r : R) (id : Nat) : (r.retryClear id).log = r.log := by
  unfold R.retryClear; split <;> rfl

private theorem retryAdd_log (r : R) (o : RObj) (a b : Nat) (d : Bool) : (r.retryAdd o a b d).log = r.log := rfl

/-- every processed change results in exactly one call on the target, an Update
    with the object's data or a Delete, reported as it went -/
theorem C14_process_calls_target (r : R) (obj : RObj) (rev : Nat) (del : Bool) :
    (r.processSingle obj rev del).log =
      r.log ++ [{ op := if del then "D" else "U", id := obj.id, data := obj.data, ok := !r.isFailing obj.id }] := by
  unfold R.processSingle
  cases del
  · simp only [Bool.false_eq_true, if_false]
    split
    · simp only [foldl_inject_log]
    · rw [retryClear_log]; simp only [foldl_inject_log]
  · simp only [if_true]
    split
    · rw [retryAdd_log]
    · rw [retryClear_log]

private theorem retryClear_no_item (r : R) (id : Nat) : (r.retryClear id).items.find? (·.id = id) = none := by
  unfold R.retryClear
  split
  · assumption
  · simp only
    rw [List.find?_eq_none]
    intro x hx
    simp at hx
    simp [hx.2]

/-- a successful Delete clears the object's retry state -/
theorem C14_successful_delete_clears_retry (r : R) (obj : RObj) (rev : Nat) (h : r.isFailing obj.id = false) :
    (r.processSingle obj rev true).items.find? (·.id = obj.id) = none := by
  unfold R.processSingle
  simp only [h, if_true, Bool.false_eq_true, if_false]
  exact retryClear_no_item _ _

/-- a successful Update clears the object's retry state -/
theorem C14_successful_update_clears_retry (r : R) (obj : RObj) (rev : Nat) (h : r.isFailing obj.id = false) :
    (r.processSingle obj rev false).items.find? (·.id = obj.id) = none := by
  unfold R.processSingle
  simp only [h, Bool.false_eq_true, if_false]
  exact retryClear_no_item _ _

/-- **a failed Delete is not forgotten**: it is queued for a retry due within
    the maximal backoff -/
theorem C14_failed_delete_requeued (r : R) (obj : RObj) (rev : Nat) (h : r.isFailing obj.id = true) :
    ∃ it, (r.processSingle obj rev true).items.find? (·.id = obj.id) = some it ∧
      it.inQueue = true ∧ it.delete = true ∧ it.retryAt ≤ r.now + r.cfg.maxB := by
  unfold R.processSingle
  simp only [h, if_true]
  obtain ⟨it, h1, h2, _, _, _, h6⟩ := C16_retryAdd_item
    { r with log := r.log ++ [({ op := "D", id := obj.id, data := obj.data, ok := !true } : Call)] } obj rev rev true
  refine ⟨it, h1, h2, ?_, ?_⟩
  · unfold R.retryAdd at h1
    simp only at h1
    rw [List.find?_append] at h1
    have hn : (List.filter (fun x => decide (x.id ≠ obj.id)) r.items).find? (fun x => decide (x.id = obj.id)) = none := by
      rw [List.find?_eq_none]; intro x hx; simp at hx; simp [hx.2]
    rw [hn] at h1
    simp at h1
    rw [← h1]
  · rw [h6]
    have := C16_backoff_le_max r.cfg.minB r.cfg.maxB it.numRetries
    simpa using this

private theorem retryAdd_queued (r' : R) (orig : RObj) (a b id : Nat) (hid : orig.id = id) :
    ∃ it, (r'.retryAdd orig a b false).items.find? (·.id = id) = some it ∧
      it.inQueue = true ∧ it.retryAt ≤ r'.now + r'.cfg.maxB := by
  obtain ⟨it, h1, h2, _, _, _, h6⟩ := C16_retryAdd_item r' orig a b false
  rw [hid] at h1
  refine ⟨it, h1, h2, ?_⟩
  rw [h6]
  have := C16_backoff_le_max r'.cfg.minB r'.cfg.maxB it.numRetries
  omega

/-- **a failed Update is not forgotten**: when its status is committed for the
    version that was attempted, the object is queued for a retry due within the
    maximal backoff -/
theorem C14_failed_update_requeued (r : R) (obj orig : RObj) (rev sid : Nat) (cur : RObj)
    (hcur : r.get obj.id = some cur) (hrev : cur.rev = rev) (hid : orig.id = obj.id) :
    ∃ it, (r.commitOne (obj, orig, rev, sid, true)).items.find? (·.id = obj.id) = some it ∧
      it.inQueue = true ∧ it.retryAt ≤ r.now + r.cfg.maxB := by
  unfold R.commitOne
  simp only [hcur, hrev, if_true]
  exact retryAdd_queued _ orig _ rev obj.id hid

/-! ## the invariant of the reachable states: nothing is forgotten -/

/-- the states reachable from the initial one by user writes and deletes, foreign
    status writes on objects whose status is NOT Error (known finding K4: see
    `C14_touch_on_error_refuted`), switching failures on and off, running the
    loop (`quiesce`, any fuel) and letting time pass (`advance`, any fuel) -/
inductive C14Reachable : R → Prop
  | init (c : Cfg) : C14Reachable { cfg := c }
  | put {r : R} (id data : Nat) : C14Reachable r → C14Reachable (r.userPut id data)
  | del {r : R} (id : Nat) : C14Reachable r → C14Reachable (r.delObj id)
  | touch {r : R} (id : Nat) : C14Reachable r → (∀ o, r.get id = some o → o.kind ≠ .error) → C14Reachable (r.touch id)
  | fail {r : R} (l : List Nat) : C14Reachable r → C14Reachable { r with failing := l }
  | quiesce {r : R} (fuel : Nat) : C14Reachable r → C14Reachable (r.quiesce fuel)
  | advance {r : R} (ms fuel : Nat) : C14Reachable r → C14Reachable (r.advance ms fuel)

/-- the invariant `WInv` (bookkeeping `InvL`, iterator position `Sync`, exact
    retry timer and retry times `QInv`) holds in the initial state … -/
theorem C14_inv_initial (c : Cfg) : WInv { cfg := c } := WInv.init c

/-- … is preserved by a user write, … -/
theorem C14_inv_userPut (r : R) (id data : Nat) (h : WInv r) : WInv (r.userPut id data) := h.userPut id data

/-- … a user delete, … -/
theorem C14_inv_delObj (r : R) (id : Nat) (h : WInv r) : WInv (r.delObj id) := h.delObj id

/-- … a foreign status write on an object that is not in Error state, … -/
theorem C14_inv_touch_not_error (r : R) (id : Nat) (h : WInv r) (hne : ∀ o, r.get id = some o → o.kind ≠ .error) :
    WInv (r.touch id) := h.touch id hne

/-- … switching failures, … -/
theorem C14_inv_set_failing (r : R) (l : List Nat) (h : WInv r) : WInv { r with failing := l } := h.setFailing l

/-- … one reconciliation round, … -/
theorem C14_inv_round (r : R) (h : WInv r) : WInv r.round := h.round

/-- … running the loop until it goes idle or the fuel ends, … -/
theorem C14_inv_quiesce (r : R) (fuel : Nat) (h : WInv r) : WInv (r.quiesce fuel) := h.quiesce fuel

/-- … and letting time pass. -/
theorem C14_inv_advance (r : R) (ms fuel : Nat) (h : WInv r) : WInv (r.advance ms fuel) := h.advance ms fuel

/-- hence it holds in every reachable state -/
theorem C14_inv_reachable {r : R} (h : C14Reachable r) : WInv r := by
  induction h with
  | init c => exact WInv.init c
  | put id data _ ih => exact ih.userPut id data
  | del id _ ih => exact ih.delObj id
  | touch id _ hne ih => exact ih.touch id hne
  | fail l _ ih => exact ih.setFailing l
  | quiesce fuel _ ih => exact ih.quiesce fuel
  | advance ms fuel _ ih => exact ih.advance ms fuel

/-- **nothing is forgotten** (between any two rounds): every live object is
    Done and the last call logged for it is a successful Update with its
    current data, or it still is to be delivered to the loop (Pending, revision
    beyond the iterator), or it is Error and a retry of exactly this version is
    queued, due within the maximal backoff; every retained deletion is still to
    be delivered, or its Delete is queued for a retry, or the last call logged
    for it is a successful Delete -/
theorem C14_inv_nothing_forgotten {r : R} (h : WInv r) :
    (∀ o ∈ r.objs,
      (o.kind = .done ∧ lastCall r.log o.id = some ⟨"U", o.id, o.data, true⟩) ∨
      ((o.kind = .pending ∨ o.kind = .refreshing) ∧ o.rev > r.itRev) ∨
      (o.kind = .error ∧ ∃ it ∈ r.items, it.id = o.id ∧ it.delete = false ∧ it.rev = o.rev ∧ it.inQueue = true ∧
        it.retryAt ≤ r.now + r.cfg.maxB)) ∧
    (∀ d ∈ r.dels,
      d.2 > r.itDelRev ∨
      (∃ it ∈ r.items, it.id = d.1.id ∧ it.delete = true ∧ it.inQueue = true ∧ it.retryAt ≤ r.now + r.cfg.maxB) ∨
      (∃ c, lastCall r.log d.1.id = some c ∧ c.op = "D" ∧ c.ok = true)) := by
  refine ⟨fun o ho => ?_, fun d hd => ?_⟩
  · obtain ⟨a, b, c⟩ := h.rinv.inv.objOK o ho
    cases hk : o.kind with
    | done => exact Or.inl ⟨rfl, (a hk).1⟩
    | error =>
      rcases b hk with ⟨it, hit, b1, b2, b3, b4⟩ | ⟨res, hres, _⟩
      · exact Or.inr (Or.inr ⟨rfl, it, hit, b1, b2, b3, b4, h.q.times it hit⟩)
      · cases hres
    | pending =>
      rcases c (Or.inl hk) with c | ⟨res, hres, _⟩
      · exact Or.inr (Or.inl ⟨Or.inl rfl, c⟩)
      · cases hres
    | refreshing =>
      rcases c (Or.inr hk) with c | ⟨res, hres, _⟩
      · exact Or.inr (Or.inl ⟨Or.inr rfl, c⟩)
      · cases hres
  · rcases h.rinv.inv.delOK d hd with a | ⟨it, hit, b1, b2, b3⟩ | a
    · exact Or.inl a
    · exact Or.inr (Or.inl ⟨it, hit, b1, b2, b3, h.q.times it hit⟩)
    · exact Or.inr (Or.inr a.1)

/-- in an IDLE state (nothing triggers the loop: states returned by `quiesce`
    with enough fuel) nothing is left to be delivered: every live object is Done
    with the target or Error with a queued retry, every retained deletion was
    applied or has a queued retry -/
theorem C14_idle_nothing_forgotten {r : R} (h : WInv r) (hidle : r.triggered = false) :
    (∀ o ∈ r.objs,
      (o.kind = .done ∧ lastCall r.log o.id = some ⟨"U", o.id, o.data, true⟩) ∨
      (o.kind = .error ∧ ∃ it ∈ r.items, it.id = o.id ∧ it.delete = false ∧ it.rev = o.rev ∧ it.inQueue = true)) ∧
    (∀ d ∈ r.dels,
      (∃ c, lastCall r.log d.1.id = some c ∧ c.op = "D" ∧ c.ok = true) ∨
      (∃ it ∈ r.items, it.id = d.1.id ∧ it.delete = true ∧ it.inQueue = true)) :=
  h.rinv.idle_accounted hidle

/-- the retry timer is armed exactly for the earliest queued retry (or has fired
    for one that is due); no retry is due later than the maximal backoff from now -/
theorem C14_inv_timer_armed_for_head {r : R} (h : WInv r) :
    (∀ hd, r.head = some hd → r.timer = .armed hd.retryAt ∨ (r.timer = .fired ∧ hd.retryAt ≤ r.now)) ∧
    (r.head = none → r.timer = .none ∨ r.timer = .stopped) ∧
    (∀ it ∈ r.items, it.inQueue = true ∧ it.retryAt ≤ r.now + r.cfg.maxB) :=
  ⟨h.q.tmSome, h.q.tmNone, fun it hit => ⟨h.rinv.items_queued it hit, h.q.times it hit⟩⟩

/-! ## convergence -/

/-- **target equals table.**  From any state satisfying the invariant in which
    no operation fails any more (`failing = []`), let more than the maximal
    backoff pass (`advance ms fuel`, `ms > maxB`, no further user action).  If
    the loop has gone idle by then (the fuel sufficed: `C14_advance_goes_idle_partial`),
    every live object is Done and the last call logged for it is a successful
    Update with its current data, the last call logged for every retained
    deletion is a successful Delete, no retry is left and the retry
    low-watermark is 0.  Any round size, any backoff, any fuel. -/
theorem C14_converged_when_idle {r : R} (h : WInv r) (hf : r.failing = []) (ms fuel : Nat) (hms : r.cfg.maxB < ms)
    (hidle : (r.advance ms fuel).triggered = false) :
    (∀ o ∈ (r.advance ms fuel).objs, o.kind = .done ∧
      lastCall (r.advance ms fuel).log o.id = some ⟨"U", o.id, o.data, true⟩) ∧
    (∀ d ∈ (r.advance ms fuel).dels, ∃ c, lastCall (r.advance ms fuel).log d.1.id = some c ∧ c.op = "D" ∧ c.ok = true) ∧
    (r.advance ms fuel).items = [] ∧ (r.advance ms fuel).lowWatermark = 0 := by
  obtain ⟨hs, hnow⟩ := (h.toSInv hf).advance ms fuel
  exact idle_converged hs.rinv hs.q (by rw [hnow]; omega) hidle

/-- the same for the loop run at a fixed time: once every retry time lies in
    the past and the loop is idle, target equals table -/
theorem C14_converged_idle_state {r : R} {B : Nat} (h : WInv r) (hB : ∀ it ∈ r.items, it.retryAt ≤ B) (hnow : B < r.now)
    (hidle : r.triggered = false) :
    (∀ o ∈ r.objs, o.kind = .done ∧ lastCall r.log o.id = some ⟨"U", o.id, o.data, true⟩) ∧
    (∀ d ∈ r.dels, ∃ c, lastCall r.log d.1.id = some c ∧ c.op = "D" ∧ c.ok = true) ∧
    r.items = [] ∧ r.lowWatermark = 0 :=
  idle_converged h.rinv ⟨h.q.tmSome, h.q.tmNone, hB, h.q.pw, h.q.objid⟩ hnow hidle

/-! ## progress: the loop goes idle (explicit fuel) -/

/-- **progress.**  Once nothing fails, every triggered round strictly decreases
    the measure `Mz` of the outstanding work (3·(2 per object still to be
    processed + 1 per object / deletion still to be passed + 2 per queued retry)
    + the two refresh flags); the round size must be positive, as
    `reconciler.Config.validate` demands. -/
theorem C14_round_decreases_measure {r : R} (h : WInv r) (hf : r.failing = []) (hrs : 1 ≤ r.cfg.roundSize)
    (htr : r.triggered = true) : Mz r.round < Mz r :=
  mz_round h.rinv h.q hf hrs htr

/-- hence `quiesce` reaches an idle state when its fuel exceeds
    3·(2·#objects + #retained deletions + 2·#retry items) + 2, whatever the round size -/
theorem C14_quiesce_goes_idle {r : R} (h : WInv r) (hf : r.failing = []) (hrs : 1 ≤ r.cfg.roundSize) (fuel : Nat)
    (hfuel : 3 * (2 * r.objs.length + r.dels.length + 2 * r.items.length) + 2 < fuel) :
    (r.quiesce fuel).triggered = false :=
  ((h.toSInv hf).quiesce_idle hrs fuel (by have := mz_le_sizes r; omega)).1

/-- **convergence, any size.**  From any state satisfying the invariant in which
    nothing fails any more: at any time `T` later than the maximal backoff from
    now, running the loop with fuel beyond 3·(2·#objects + #deletions +
    2·#retries) + 2 ends idle with target = table: every live object is Done and
    its last logged call is a successful Update with its current data, the last
    logged call of every retained deletion is a successful Delete, no retry is
    left, the retry low-watermark is 0.  Any round size ≥ 1, any backoff. -/
theorem C14_converged_quiesce {r : R} (h : WInv r) (hf : r.failing = []) (hrs : 1 ≤ r.cfg.roundSize) (T fuel : Nat)
    (hT : r.now + r.cfg.maxB < T)
    (hfuel : 3 * (2 * r.objs.length + r.dels.length + 2 * r.items.length) + 2 < fuel) :
    let f := ({ r with now := T } : R).quiesce fuel
    f.triggered = false ∧
    (∀ o ∈ f.objs, o.kind = .done ∧ lastCall f.log o.id = some ⟨"U", o.id, o.data, true⟩) ∧
    (∀ d ∈ f.dels, ∃ c, lastCall f.log d.1.id = some c ∧ c.op = "D" ∧ c.ok = true) ∧
    f.items = [] ∧ f.lowWatermark = 0 := by
  intro f
  have h0 : SInv (r.now + r.cfg.maxB) ({ r with now := T } : R) := (h.toSInv hf).setNow T (by omega)
  have hidle := (h0.quiesce_idle (r := { r with now := T }) hrs fuel (by have := mz_le_sizes r; exact Nat.lt_of_le_of_lt this hfuel)).1
  obtain ⟨h1, e1⟩ := h0.quiesce fuel
  exact ⟨hidle, idle_converged h1.rinv h1.q (by rw [e1]; exact hT) hidle⟩

/-- `advance` (which wakes the loop at every timer instant, each time with the
    model's inner fuel 64) ends idle when started in an idle state with at most
    10 queued retries and fuel beyond 6·#retries.  PARTIAL: states with more
    queued retries need more than the inner fuel 64 that `Model.Reconciler.advance`
    hard-codes; `C14_converged_quiesce` has no such bound. -/
theorem C14_advance_goes_idle_partial {r : R} (h : WInv r) (hf : r.failing = []) (hrs : 1 ≤ r.cfg.roundSize)
    (hidle : r.triggered = false) (ms fuel : Nat) (h64 : 6 * r.items.length < 64) (hfuel : 6 * r.items.length < fuel) :
    (r.advance ms fuel).triggered = false := by
  have hm := h.rinv.mz_idle hidle
  exact (h.toSInv hf).advance_idle hrs hidle ms fuel (by omega) (by omega)

/-- **convergence through `advance`** (PARTIAL in the same sense): from an idle
    state satisfying the invariant in which nothing fails any more, with at most
    10 queued retries, after more than the maximal backoff (`fuel > 6·#retries`)
    the loop is idle and target = table -/
theorem C14_converged_advance_partial {r : R} (h : WInv r) (hf : r.failing = []) (hrs : 1 ≤ r.cfg.roundSize)
    (hidle : r.triggered = false) (ms fuel : Nat) (hms : r.cfg.maxB < ms)
    (h64 : 6 * r.items.length < 64) (hfuel : 6 * r.items.length < fuel) :
    (r.advance ms fuel).triggered = false ∧
    (∀ o ∈ (r.advance ms fuel).objs, o.kind = .done ∧
      lastCall (r.advance ms fuel).log o.id = some ⟨"U", o.id, o.data, true⟩) ∧
    (∀ d ∈ (r.advance ms fuel).dels, ∃ c, lastCall (r.advance ms fuel).log d.1.id = some c ∧ c.op = "D" ∧ c.ok = true) ∧
    (r.advance ms fuel).items = [] ∧ (r.advance ms fuel).lowWatermark = 0 := by
  have hi := C14_advance_goes_idle_partial h hf hrs hidle ms fuel h64 hfuel
  exact ⟨hi, C14_converged_when_idle h hf ms fuel hms hi⟩

/-! ## known finding K4: a foreign write on an Error object loses the retry -/

/-- the K4 scenario, first half: put; the Update fails; the loop marks the
    object Error and queues a retry -/
def c14K4pre : R := ({ (({} : R).userPut 1 7) with failing := [1] } : R).quiesce 10

/-- second half: a foreign writer touches the object; failures stop -/
def c14K4mid : R := { (c14K4pre.touch 1).quiesce 10 with failing := [] }

/-- … and time passes -/
def c14K4 : R := c14K4mid.advance 5000 10

/-- **refuted without the hypothesis on `touch`**: in the K4 scenario the loop is
    idle, nothing fails, five times the maximal backoff has passed, the retry
    DID run and succeeded (the last call for the object is a successful Update)
    — but its result was dropped: the object stays Error for ever, with no retry
    queued -/
theorem C14_touch_on_error_refuted :
    c14K4.triggered = false ∧ c14K4.failing = [] ∧ c14K4.now = 5000 ∧ c14K4.cfg.maxB = 1000 ∧
    c14K4.objs.map (·.kind) = [.error] ∧ c14K4.items.length = 0 ∧
    lastCall c14K4.log 1 = some ⟨"U", 1, 7, true⟩ := by decide +kernel

/-- hence the invariant is NOT preserved by a foreign write on an Error object -/
theorem C14_inv_touch_on_error_refuted : ¬ ∀ (r : R) (id : Nat), WInv r → WInv (r.touch id) := by
  intro hall
  have h2 : WInv c14K4pre := (((WInv.init {}).userPut 1 7).setFailing [1]).quiesce 10
  have h4 : WInv c14K4mid := ((hall _ 1 h2).quiesce 10).setFailing []
  have hc := C14_converged_when_idle h4 rfl 5000 10 (by decide +kernel) (by decide +kernel)
  have hk := hc.1
  have hl : (c14K4mid.advance 5000 10).objs.map (·.kind) = [.error] := by decide +kernel
  generalize (c14K4mid.advance 5000 10).objs = l at hk hl
  cases l with
  | nil => simp at hl
  | cons o tl =>
    have := (hk o (List.mem_cons_self ..)).1
    simp only [List.map_cons, List.cons.injEq] at hl
    rw [hl.1] at this; cases this

/-! ## non-vacuity -/

/-- a reachable, non-trivial state: one object Done, one Error with a queued retry, one deletion applied -/
def c14Ex : R :=
  let r : R := { (((({} : R).userPut 1 7).userPut 2 8).userPut 3 9) with failing := [2] }
  ((r.quiesce 10).delObj 3).quiesce 10

example : C14Reachable c14Ex :=
  .quiesce 10 (.del 3 (.quiesce 10 (.fail [2] (.put 3 9 (.put 2 8 (.put 1 7 (.init {})))))))

example : WInv c14Ex := C14_inv_reachable
  (.quiesce 10 (.del 3 (.quiesce 10 (.fail [2] (.put 3 9 (.put 2 8 (.put 1 7 (.init {}))))))))

example : c14Ex.triggered = false ∧ c14Ex.objs.map (·.kind) = [.done, .error] ∧ c14Ex.items.length = 1 ∧ c14Ex.dels.length = 1 := by
  decide +kernel

/-- the hypotheses of `C14_converged_when_idle` are satisfiable: after the failure stops the loop is idle at the end -/
example : (({ c14Ex with failing := [] } : R).advance 1001 10).triggered = false ∧
    (({ c14Ex with failing := [] } : R).advance 1001 10).objs.map (·.kind) = [.done, .done] := by decide +kernel

/-- the hypotheses of `C14_converged_advance_partial` hold of the example state -/
example : ({ c14Ex with failing := [] } : R).triggered = false ∧ 1 ≤ ({ c14Ex with failing := [] } : R).cfg.roundSize ∧
    6 * ({ c14Ex with failing := [] } : R).items.length < 64 ∧ ({ c14Ex with failing := [] } : R).cfg.maxB < 1001 := by decide +kernel

/-- … and of `C14_converged_quiesce` (fuel 30 > 3·(2·2 + 1 + 2·1) + 2 = 23) -/
example : 3 * (2 * c14Ex.objs.length + c14Ex.dels.length + 2 * c14Ex.items.length) + 2 < 30 ∧ c14Ex.now + c14Ex.cfg.maxB < 5000 := by
  decide +kernel

/-! ## non-vacuity (step level) -/
example :
    let r : R := ({} : R).userPut 1 7
    r.get 1 = some { id := 1, data := 7, kind := .pending, sid := 1, other := 0, rev := 1 } ∧ r.tableRev = 1 ∧
    ¬ (r.pending.isNone ∧ r.refreshedAt = r.tableRev) := by decide

/-- the structural facts about reconciler/incremental.go and reconciler/retries.go that the model
    builds in — the order of a round's phases (changes, status commit, due retries, status commit), the batch order and the processing conditions that `R.round` / `R.roundB` build in — hold of the source as it is today (regenerated by `tools/extract` on every run) -/
theorem C14_source_facts : Gen.recFacts = Rec.expectedFacts := by decide

end Sdb
