import SdbModel.Model.Reconciler
/-! # C14 — theorems under construction (see DESIGN.md section 4) -/
namespace Sdb
end Sdb
