import SdbModel.Model.Reconciler
import SdbModel.Props.C16

/-!
# C14 — Reconciler converges: target equals table once failures stop

> For any history of inserts, updates and deletes on the reconciled table and
> any pattern of failing Update/Delete operations, once operations stop failing
> and the table stops changing the reconciler reaches, within a bounded number
> of retry periods, a state where the target equals the table (…).  No object is
> forgotten, whatever the round size, rate limits, batch or single operations,
> or retry timing.

PARTIAL.  The whole-history convergence statement is decided by the
correspondence run and the convergence oracle (and is violated by known finding
K4).  Proved here over `Model.Reconciler`, for all states and arguments, are the
step-level facts convergence is built from: the change stream hands the round
every object changed since the iterator's position and every retained deletion
(nothing is skipped), a successful operation calls the target with the object's
data and clears its retry state, a failed one leaves the object queued for a
retry that is due within the maximal backoff (nothing is forgotten).
-/
namespace Sdb
open Rec

/-! ## the change stream is complete -/

private theorem mem_insertCh (c x : Change) (l : List Change) : x ∈ insertCh c l ↔ x = c ∨ x ∈ l := by
  induction l with
  | nil => simp [insertCh]
  | cons d ds ih =>
    unfold insertCh
    split
    · simp
    · simp only [List.mem_cons, ih]
      constructor
      · rintro (h | h | h)
        · exact Or.inr (Or.inl h)
        · exact Or.inl h
        · exact Or.inr (Or.inr h)
      · rintro (h | h | h)
        · exact Or.inr (Or.inl h)
        · exact Or.inl h
        · exact Or.inr (Or.inr h)

private theorem mem_foldr_insertCh (l : List Change) (x : Change) : x ∈ l.foldr insertCh [] ↔ x ∈ l := by
  induction l with
  | nil => simp
  | cons c cs ih => simp [List.foldr_cons, mem_insertCh, ih]

private theorem mem_mergeCh (a b : List Change) (x : Change) : x ∈ mergeCh a b ↔ x ∈ a ∨ x ∈ b := by
  fun_induction mergeCh a b with
  | case1 r => simp
  | case2 l h => simp
  | case3 l ls r rs hle ih => simp only [List.mem_cons, ih]; grind
  | case4 l ls r rs hle ih => simp only [List.mem_cons, ih]; grind

/-- whenever the loop has something to look at, `Next` hands the round EVERY live
    object written since the iterator's position … -/
theorem C14_changes_contain_every_newer_object (r : R) (o : RObj)
    (hrun : ¬ (r.pending.isNone ∧ r.refreshedAt = r.tableRev))
    (ho : o ∈ r.objs) (hrev : o.rev > r.itRev) :
    ({ obj := o, rev := o.rev, deleted := false } : Change) ∈ r.nextChanges.2 := by
  unfold R.nextChanges
  simp only [hrun, if_false]
  rw [mem_mergeCh]
  right
  rw [mem_foldr_insertCh, List.mem_map]
  exact ⟨o, by simp [List.mem_filter, ho, hrev], rfl⟩

/-- … and every retained deletion newer than its delete position -/
theorem C14_changes_contain_every_newer_deletion (r : R) (o : RObj) (dr : Nat)
    (hrun : ¬ (r.pending.isNone ∧ r.refreshedAt = r.tableRev))
    (ho : (o, dr) ∈ r.dels) (hrev : dr > r.itDelRev) :
    ({ obj := o, rev := dr, deleted := true } : Change) ∈ r.nextChanges.2 := by
  unfold R.nextChanges
  simp only [hrun, if_false]
  rw [mem_mergeCh]
  left
  rw [mem_foldr_insertCh, List.mem_map]
  exact ⟨(o, dr), by simp [List.mem_filter, ho, hrev], rfl⟩

/-- the stream contains nothing else: only current objects and retained deletions -/
theorem C14_changes_only_current (r : R) (c : Change) (hc : c ∈ r.nextChanges.2) :
    (c.deleted = false ∧ c.obj ∈ r.objs ∧ c.rev = c.obj.rev) ∨ (c.deleted = true ∧ (c.obj, c.rev) ∈ r.dels) := by
  unfold R.nextChanges at hc
  split at hc
  · simp at hc
  · simp only at hc
    rw [mem_mergeCh, mem_foldr_insertCh, mem_foldr_insertCh] at hc
    rcases hc with hc | hc
    · right
      simp only [List.mem_map, List.mem_filter] at hc
      obtain ⟨⟨o, dr⟩, ⟨hm, _⟩, rfl⟩ := hc
      exact ⟨rfl, hm⟩
    · left
      simp only [List.mem_map, List.mem_filter] at hc
      obtain ⟨o, ⟨hm, _⟩, rfl⟩ := hc
      exact ⟨rfl, hm, rfl⟩

/-! ## one operation -/

private theorem applyInject_log (r : R) (a : Inject) : (r.applyInject a).log = r.log := by
  cases a with
  | put id data => rfl
  | del id => simp only [R.applyInject, R.delObj]; split <;> rfl
  | touch id => simp only [R.applyInject, R.touch]; split <;> rfl

private theorem foldl_inject_log (l : List (Nat × Inject)) (r : R) :
    (l.foldl (fun (r : R) (a : Nat × Inject) => r.applyInject a.2) r).log = r.log := by
  induction l generalizing r with
  | nil => rfl
  | cons a as ih => rw [List.foldl_cons, ih, applyInject_log]

private theorem retryClear_log (r : R) (id : Nat) : (r.retryClear id).log = r.log := by
  unfold R.retryClear; split <;> rfl

private theorem retryAdd_log (r : R) (o : RObj) (a b : Nat) (d : Bool) : (r.retryAdd o a b d).log = r.log := rfl

/-- every processed change results in exactly one call on the target, an Update
    with the object's data or a Delete, reported as it went -/
theorem C14_process_calls_target (r : R) (obj : RObj) (rev : Nat) (del : Bool) :
    (r.processSingle obj rev del).log =
      r.log ++ [{ op := if del then "D" else "U", id := obj.id, data := obj.data, ok := !r.isFailing obj.id }] := by
  unfold R.processSingle
  cases del
  · simp only [Bool.false_eq_true, if_false]
    split
    · simp only [foldl_inject_log]
    · rw [retryClear_log]; simp only [foldl_inject_log]
  · simp only [if_true]
    split
    · rw [retryAdd_log]
    · rw [retryClear_log]

private theorem retryClear_no_item (r : R) (id : Nat) : (r.retryClear id).items.find? (·.id = id) = none := by
  unfold R.retryClear
  split
  · assumption
  · simp only
    rw [List.find?_eq_none]
    intro x hx
    simp at hx
    simp [hx.2]

/-- a successful Delete clears the object's retry state -/
theorem C14_successful_delete_clears_retry (r : R) (obj : RObj) (rev : Nat) (h : r.isFailing obj.id = false) :
    (r.processSingle obj rev true).items.find? (·.id = obj.id) = none := by
  unfold R.processSingle
  simp only [h, if_true, Bool.false_eq_true, if_false]
  exact retryClear_no_item _ _

/-- a successful Update clears the object's retry state -/
theorem C14_successful_update_clears_retry (r : R) (obj : RObj) (rev : Nat) (h : r.isFailing obj.id = false) :
    (r.processSingle obj rev false).items.find? (·.id = obj.id) = none := by
  unfold R.processSingle
  simp only [h, Bool.false_eq_true, if_false]
  exact retryClear_no_item _ _

/-- **a failed Delete is not forgotten**: it is queued for a retry due within
    the maximal backoff -/
theorem C14_failed_delete_requeued (r : R) (obj : RObj) (rev : Nat) (h : r.isFailing obj.id = true) :
    ∃ it, (r.processSingle obj rev true).items.find? (·.id = obj.id) = some it ∧
      it.inQueue = true ∧ it.delete = true ∧ it.retryAt ≤ r.now + r.cfg.maxB := by
  unfold R.processSingle
  simp only [h, if_true]
  obtain ⟨it, h1, h2, _, _, _, h6⟩ := C16_retryAdd_item
    { r with log := r.log ++ [({ op := "D", id := obj.id, data := obj.data, ok := !true } : Call)] } obj rev rev true
  refine ⟨it, h1, h2, ?_, ?_⟩
  · unfold R.retryAdd at h1
    simp only at h1
    rw [List.find?_append] at h1
    have hn : (List.filter (fun x => decide (x.id ≠ obj.id)) r.items).find? (fun x => decide (x.id = obj.id)) = none := by
      rw [List.find?_eq_none]; intro x hx; simp at hx; simp [hx.2]
    rw [hn] at h1
    simp at h1
    rw [← h1]
  · rw [h6]
    have := C16_backoff_le_max r.cfg.minB r.cfg.maxB it.numRetries
    simpa using this

private theorem retryAdd_queued (r' : R) (orig : RObj) (a b id : Nat) (hid : orig.id = id) :
    ∃ it, (r'.retryAdd orig a b false).items.find? (·.id = id) = some it ∧
      it.inQueue = true ∧ it.retryAt ≤ r'.now + r'.cfg.maxB := by
  obtain ⟨it, h1, h2, _, _, _, h6⟩ := C16_retryAdd_item r' orig a b false
  rw [hid] at h1
  refine ⟨it, h1, h2, ?_⟩
  rw [h6]
  have := C16_backoff_le_max r'.cfg.minB r'.cfg.maxB it.numRetries
  omega

/-- **a failed Update is not forgotten**: when its status is committed for the
    version that was attempted, the object is queued for a retry due within the
    maximal backoff -/
theorem C14_failed_update_requeued (r : R) (obj orig : RObj) (rev sid : Nat) (cur : RObj)
    (hcur : r.get obj.id = some cur) (hrev : cur.rev = rev) (hid : orig.id = obj.id) :
    ∃ it, (r.commitOne (obj, orig, rev, sid, true)).items.find? (·.id = obj.id) = some it ∧
      it.inQueue = true ∧ it.retryAt ≤ r.now + r.cfg.maxB := by
  unfold R.commitOne
  simp only [hcur, hrev, if_true]
  exact retryAdd_queued _ orig _ rev obj.id hid

/-! ## non-vacuity -/
example :
    let r : R := ({} : R).userPut 1 7
    r.get 1 = some { id := 1, data := 7, kind := .pending, sid := 1, other := 0, rev := 1 } ∧ r.tableRev = 1 ∧
    ¬ (r.pending.isNone ∧ r.refreshedAt = r.tableRev) := by decide

end Sdb
