import SdbModel.Props.C05Sim
import SdbModel.Props.C19Conc

/-!
# C02 on the interleaving model — a commit becomes visible in one instant

> Commit is atomic across tables: every read transaction sees either all of a
> write transaction's changes to all of its tables or none of them; an aborted
> transaction leaves no trace.

`Props/C02.lean` proves this for `Model.Serial` and (sequential clauses) for
`Model.Table`.  These are the corresponding statements about `Model.Conc`, the
interleaving model compared step by step with the real goroutines, obtained from
the simulation of `Props/C05Sim.lean` (names as the C02 audit collects them).
-/
namespace Sdb
open Conc

/-- **one instant**: a scheduler step leaves the committed root unchanged, or
    advances ALL tables of the stepping (committing) writer by one write and
    touches no other table, or appends one new empty table -/
theorem C02_conc_commit_single_instant (P : Protocol) (hP : P.simShape = true) (n : Nat) (st : State)
    (cs : List Bool) (h : Reach P n st cs) (tid : Nat) :
    (step st tid).1.root = st.root ∨
    (∃ th, st.threads[tid]? = some th ∧ CommittedAll st.root (step st tid).1.root th.tables) ∨
    (∃ v : TableV, (step st tid).1.root = st.root ++ [v] ∧ v.cnt = 0) :=
  C05_conc_commit_single_instant P hP n st cs h tid

/-- **all or none**: what a fresh read transaction sees is, on every table, the sum
    over ONE set of writers (those spawned to commit whose root store has happened,
    a condition that does not depend on the table): it contains all of a commit's
    tables or none, and nothing of writers that abort or have not stored yet -/
theorem C02_conc_read_is_committed_state (P : Protocol) (hP : P.simShape = true) (n : Nat) (st : State)
    (cs : List Bool) (h : Reach P n st cs) (x : Nat) (hx : x < (readTxn st).length) :
    (getT (readTxn st) x).cnt =
      (st.threads.zip cs).countP fun p =>
        (p.2 && !p.1.prog.contains (Micro.act .storeRoot)) && p.1.tables.contains x :=
  C05_conc_read_is_committed_state P hP n st cs h x hx

/-- **only the holder's commit changes a table**: while a thread is between its
    acquire and its release of table `i`, no step of another thread changes the
    committed version of `i` -/
theorem C02_conc_only_holder_writes (P : Protocol) (hP : P.simShape = true) (n : Nat) (st : State)
    (cs : List Bool) (h : Reach P n st cs) (tid0 : Nat) (th0 : Thread) (h0 : st.threads[tid0]? = some th0)
    (i : Nat) (hi : i < st.root.length) (hrel : Micro.release i ∈ th0.prog) (hacq : Micro.acquire i ∉ th0.prog)
    (tid : Nat) (hne : tid ≠ tid0) :
    getT (step st tid).1.root i = getT st.root i ∧ (step st tid).1.lockOwner.getD i none = some tid0 :=
  C05_conc_only_holder_writes P hP n st cs h tid0 th0 h0 i hi hrel hacq tid hne

/-- **an aborted transaction leaves no trace**: a scheduler step of a thread spawned to
    abort (also a registration rejected for its duplicate name) leaves every committed
    table version — counter, revision, watch channels, initializer state — and the set
    of closed channels exactly as they are; for a writer the committed root is
    literally unchanged.  (`initShape`: the shape decided for the regenerated protocol
    in `C19_conc_protocol_shape`.) -/
theorem C02_conc_abort_no_trace (P : Protocol) (hP : P.initShape = true) (n : Nat) (st : State)
    (cs : List Bool) (h : Reach P n st cs) (tid : Nat) (hc : cs[tid]? = some false) :
    (∀ x, x < st.root.length → getT (step st tid).1.root x = getT st.root x) ∧
    (step st tid).1.closed = st.closed ∧
    (∀ th, st.threads[tid]? = some th → th.tables ≠ [] → (step st tid).1.root = st.root) :=
  C19_conc_abort_no_effect P hP n st cs h tid hc

end Sdb
