import SdbModel.Lemmas.ConcSimCor
import SdbModel.Lemmas.ConcSimFuel
import SdbModel.Lemmas.ConcSimLive

/-!
# C05 (simulation) — `Model.Conc` is simulated by `Model.Serial`, for every schedule

> Write transactions that share a table are serialised: from the moment WriteTxn
> returns until Commit or Abort no other transaction can write that table, and
> the transaction sees every write committed to it earlier.  No committed write
> is ever lost or overwritten by a stale state, also when transactions on
> disjoint tables commit concurrently or when tables are registered while
> transactions are open.

The theorems of C02 / C05 / C06 / C10 are about the abstract protocol
`Model.Serial`; the model compared step by step with the real goroutines is the
interleaving model `Model.Conc`, which interprets the protocol REGENERATED from
the source (`Gen.protocol`).  This file closes the gap between the two with a
proof instead of a run-time replay: for every protocol of the shape
`Protocol.simShape` (decided for `Gen.protocol`; insensitive to hooks and to the
bookkeeping actions), every state of `Model.Conc` reachable by spawning writers
on registered tables, registrations, rejected registrations and ANY sequence of
scheduler steps — any number of threads and tables, table lists in any order
with duplicates, initializer marks — is related by the abstraction relation
`Conc.R` to a `Serial.Reachable` state: same committed counters, same mutex
owners, thread `i` ↦ transaction `i` with `tabs = sortNat (dedup tables)` and a
phase matching the thread's program position.  Consequences are then stated on
`Model.Conc` itself: no lost update, mutual exclusion in terms of program
positions, exclusion of other writers while a table is held, commits are a
single instant, a fresh read is a committed state, and (C10 on this model, with
the root mutex) no deadlock: some unfinished thread is always enabled and every
scheduled step reduces the remaining work.  Proofs in
`Lemmas/ConcSim*.lean` work at the granularity of single micro steps, so they do
not depend on where the parks are nor on the fuel of `Conc.step`.
-/
namespace Sdb
open Conc

/-- the protocol read off db.go / write_txn.go / internal/sortable_mutex.go today
    has the shape the simulation is proved for -/
theorem C05_conc_protocol_shape : Gen.protocol.simShape = true := by decide

/-- the shape predicate ignores hooks and bookkeeping actions: adding, moving or
    removing them (harmless source edits) keeps the simulation applicable -/
example : ({ Gen.protocol with
    commit := .hook "extra" :: Gen.protocol.commit ++ [.hook "late"],
    writeTxn := [.dedupTables, .lockTables, .loadRoot, .hook "x", .cloneRoot, .hook "y", .cloneEntries],
    register := [.lockRoot, .loadCurrentRoot, .hook "z", .appendTable, .storeRoot, .unlockRoot] } : Protocol).simShape
    = true := by decide

/-- **simulation**: every reachable state of `Model.Conc` is `R`-related to a
    reachable state of `Model.Serial` whose transactions carry the commit flags
    the threads were spawned with -/
theorem C05_conc_simulation (P : Protocol) (hP : P.simShape = true) (n : Nat) (st : State) (cs : List Bool)
    (h : Reach P n st cs) :
    ∃ s, Serial.Reachable s ∧ R st s ∧ s.txns.map (·.commit) = cs :=
  reach_sim P hP n st cs h

/-- the same for the protocol generated from the current source -/
theorem C05_conc_simulation_generated (n : Nat) (st : State) (cs : List Bool) (h : Reach Gen.protocol n st cs) :
    ∃ s, Serial.Reachable s ∧ R st s ∧ s.txns.map (·.commit) = cs :=
  reach_sim _ C05_conc_protocol_shape n st cs h

/-- what `R` says, spelled out: committed counters agree, table-mutex owners agree
    (thread `i` is transaction `i`), every thread has a transaction over the
    sorted, de-duplicated list of the tables it requested with the commit flag it
    was spawned with, and the tables the transaction holds in its phase are exactly
    the mutexes the thread owns; the Serial state satisfies the invariant of
    `Lemmas/Serial.lean` (the full, position-by-position correspondence of the
    phases is `Conc.Local`) -/
theorem C05_conc_abstraction (P : Protocol) (hP : P.simShape = true) (n : Nat) (st : State) (cs : List Bool)
    (h : Reach P n st cs) :
    ∃ s, Serial.Reachable s ∧ Serial.Inv s ∧
      (∀ i, i < st.root.length → (getT st.root i).cnt = s.root i) ∧
      (∀ i, st.lockOwner.getD i none = s.owner i) ∧
      s.txns.length = st.threads.length ∧
      (∀ (tid : Nat) (th : Thread), st.threads[tid]? = some th →
        ∃ t : Serial.Txn, s.txns[tid]? = some t ∧ t.tabs = sortNat (dedup th.tables) ∧ Serial.Ascending t.tabs ∧
          cs[tid]? = some t.commit ∧ (∀ i, i ∈ Serial.held t ↔ st.lockOwner.getD i none = some tid)) := by
  obtain ⟨s, hs, hR, hcs⟩ := reach_sim P hP n st cs h
  refine ⟨s, hs, Serial.inv_reachable s hs, hR.root, hR.owner, hR.len, ?_⟩
  intro tid th hth
  have inv := Serial.inv_reachable s hs
  obtain ⟨t, ht, htabs, _, p, hp, _, hl⟩ := hR.thr tid th hth
  refine ⟨t, ht, htabs, by rw [htabs]; exact (lockOrder_ascending th.tables).1, ?_, ?_⟩
  · rw [← hcs, List.getElem?_map, ht]; rfl
  · intro i
    rw [hR.owner i]
    constructor
    · exact inv.heldOwner tid t i ht
    · intro ho
      obtain ⟨t', ht', hh⟩ := inv.ownerHeld i tid ho
      rw [ht] at ht'; simp only [Option.some.injEq] at ht'; subst ht'; exact hh

/-- **no lost update in `Model.Conc`**: the committed counter of every table equals
    the number of committing writers on that table whose `storeRoot` has happened -/
theorem C05_conc_no_lost_update (P : Protocol) (hP : P.simShape = true) (n : Nat) (st : State) (cs : List Bool)
    (h : Reach P n st cs) (x : Nat) (hx : x < st.root.length) :
    (getT st.root x).cnt = committedWriters st cs x :=
  cnt_eq_committedWriters st cs (reach_sim P hP n st cs h) x hx

/-- **a fresh read is a committed state**: what `DB.ReadTxn` returns at any moment
    is, on every table, the sum over ONE set of writers — those past their
    `storeRoot`, a condition that does not depend on the table — so it contains
    all of a commit's tables or none of them -/
theorem C05_conc_read_is_committed_state (P : Protocol) (hP : P.simShape = true) (n : Nat) (st : State)
    (cs : List Bool) (h : Reach P n st cs) (x : Nat) (hx : x < (readTxn st).length) :
    (getT (readTxn st) x).cnt =
      (st.threads.zip cs).countP fun p =>
        (p.2 && !p.1.prog.contains (Micro.act .storeRoot)) && p.1.tables.contains x := by
  have := C05_conc_no_lost_update P hP n st cs h x hx
  unfold committedWriters at this
  rw [show readTxn st = st.root from rfl, this]
  congr 1
  funext p
  cases p.2 <;> cases p.1.tables.contains x <;> simp

/-- **holding**: a thread between its acquire and its release of table `i` (it has
    `release i` ahead and no `acquire i` any more) owns the mutex of `i` -/
theorem C05_conc_between_owns (P : Protocol) (hP : P.simShape = true) (n : Nat) (st : State) (cs : List Bool)
    (h : Reach P n st cs) (tid : Nat) (th : Thread) (hth : st.threads[tid]? = some th) (i : Nat)
    (hrel : Micro.release i ∈ th.prog) (hacq : Micro.acquire i ∉ th.prog) :
    st.lockOwner.getD i none = some tid :=
  holds_of_between st cs (reach_sim P hP n st cs h) tid th hth i hrel hacq

/-- … and conversely the owner of the mutex of table `i` is a thread that is
    between its acquire and its release of `i`: `lockOwner` of `Model.Conc` is
    exactly "who is inside the critical region of the table" -/
theorem C05_conc_owner_is_between (P : Protocol) (hP : P.simShape = true) (n : Nat) (st : State) (cs : List Bool)
    (h : Reach P n st cs) (tid i : Nat) (ho : st.lockOwner.getD i none = some tid) :
    ∃ th, st.threads[tid]? = some th ∧ Micro.release i ∈ th.prog ∧ Micro.acquire i ∉ th.prog :=
  between_of_holds st cs (reach_sim P hP n st cs h) tid i ho

/-- **mutual exclusion** by program positions: two threads are never both between
    their acquire and their release of the same table -/
theorem C05_conc_table_mutex (P : Protocol) (hP : P.simShape = true) (n : Nat) (st : State) (cs : List Bool)
    (h : Reach P n st cs) (t1 t2 : Nat) (th1 th2 : Thread)
    (h1 : st.threads[t1]? = some th1) (h2 : st.threads[t2]? = some th2) (i : Nat)
    (r1 : Micro.release i ∈ th1.prog) (a1 : Micro.acquire i ∉ th1.prog)
    (r2 : Micro.release i ∈ th2.prog) (a2 : Micro.acquire i ∉ th2.prog) : t1 = t2 := by
  have o1 := C05_conc_between_owns P hP n st cs h t1 th1 h1 i r1 a1
  have o2 := C05_conc_between_owns P hP n st cs h t2 th2 h2 i r2 a2
  rw [o1] at o2; simpa using o2

/-- **only the holder writes a table**: while thread `tid0` is between its acquire
    and its release of table `i`, a scheduler step of ANY other thread leaves the
    committed version of table `i` (counter, revision, watch channels,
    initializer state) exactly as it is and leaves the mutex with `tid0` — so no
    other thread's `locked` / entries for `i` get into the root -/
theorem C05_conc_only_holder_writes (P : Protocol) (hP : P.simShape = true) (n : Nat) (st : State)
    (cs : List Bool) (h : Reach P n st cs) (tid0 : Nat) (th0 : Thread) (h0 : st.threads[tid0]? = some th0)
    (i : Nat) (hi : i < st.root.length) (hrel : Micro.release i ∈ th0.prog) (hacq : Micro.acquire i ∉ th0.prog)
    (tid : Nat) (hne : tid ≠ tid0) :
    getT (step st tid).1.root i = getT st.root i ∧ (step st tid).1.lockOwner.getD i none = some tid0 := by
  have hs := reach_sim P hP n st cs h
  have ho := holds_of_between st cs hs tid0 th0 h0 i hrel hacq
  have := holder_excludes_others st cs hs i tid0 tid hne ho hi
  exact ⟨this.2, this.1⟩

/-- **the writer sees every write committed earlier** and keeps working on the
    latest committed version: from `loadRoot` until its `storeRoot` (its writes,
    when it aborts) the root the writer loaded agrees with the committed root on
    every table it requested — no other commit to those tables happened meanwhile -/
theorem C05_conc_writer_sees_latest (P : Protocol) (hP : P.simShape = true) (n : Nat) (st : State)
    (cs : List Bool) (h : Reach P n st cs) (tid : Nat) (th : Thread) (hth : st.threads[tid]? = some th)
    (hld : Micro.act .loadRoot ∉ th.prog)
    (hw : Micro.act .storeRoot ∈ th.prog ∨ Micro.userWrites ∈ th.prog) (x : Nat) (hx : x ∈ th.tables) :
    x < th.oldRoot.length ∧ x < st.root.length ∧ (getT th.oldRoot x).cnt = (getT st.root x).cnt :=
  sees_latest st cs (reach_sim P hP n st cs h) tid th hth hld hw x hx

/-- **commit is a single instant** in `Model.Conc`: a scheduler step leaves the
    committed root unchanged, or advances ALL tables of the stepping writer by one
    write and touches no other table, or appends one new empty table -/
theorem C05_conc_commit_single_instant (P : Protocol) (hP : P.simShape = true) (n : Nat) (st : State)
    (cs : List Bool) (h : Reach P n st cs) (tid : Nat) :
    (step st tid).1.root = st.root ∨
    (∃ th, st.threads[tid]? = some th ∧ CommittedAll st.root (step st tid).1.root th.tables) ∨
    (∃ v : TableV, (step st tid).1.root = st.root ++ [v] ∧ v.cnt = 0) :=
  step_atomic st cs (reach_sim P hP n st cs h) tid

/-- the table-mutex array of `Model.Conc` has 64 entries in every reachable state:
    the side condition `x < st.lockOwner.length` of `Reach.writer` reads `x < 64` -/
theorem C05_conc_lock_table_size (P : Protocol) (n : Nat) (st : State) (cs : List Bool) (h : Reach P n st cs) :
    st.lockOwner.length = 64 := by
  induction h with
  | init => simp [initState]
  | writer st cs tabs commit mi ri _ _ ih => exact ih
  | register st cs _ ih => exact ih
  | registerDup st cs _ ih => exact ih
  | step st cs tid _ ih => rw [step_lockLen]; exact ih

/-- the fuel of `Conc.step` suffices: any fuel above the program length gives
    `runThread` the same result, so a run never stops for lack of fuel -/
theorem C05_conc_fuel_suffices (st : State) (tid : Nat) (th : Thread) (k : Nat) :
    runThread st tid th (th.prog.length + 2 + k) = runThread st tid th (th.prog.length + 2) :=
  runThread_fuel_irrelevant tid _ st th _ (by omega) (by omega)

/-! ## deadlock freedom of `Model.Conc` (C10 on the interleaving model) -/

/-- **no deadlock**: in every reachable state of `Model.Conc` — table mutexes AND
    the root mutex, any table lists, registrations — if some thread is unfinished
    then some unfinished thread is enabled -/
theorem C05_conc_no_deadlock (P : Protocol) (hP : P.simShape = true) (n : Nat) (st : State) (cs : List Bool)
    (h : Reach P n st cs)
    (hex : ∃ (tid : Nat) (th : Thread), st.threads[tid]? = some th ∧ th.done = false) :
    ∃ (tid : Nat) (th : Thread), st.threads[tid]? = some th ∧ th.done = false ∧ th.enabled st = true :=
  runnable_of_unfinished st cs (reach_sim P hP n st cs h) (reach_tidy P n st cs h) hex

/-- **progress**: a scheduler step of an enabled, unfinished thread strictly
    reduces the remaining work (remaining program steps of all threads) -/
theorem C05_conc_step_progress (st : State) (tid : Nat) (th : Thread) (hth : st.threads[tid]? = some th)
    (hd : th.done = false) (he : th.enabled st = true) : work (step st tid).1 < work st :=
  step_work_lt st tid th hth hd he

/-- run a schedule (a list of thread ids) -/
def Conc.runSchedule (st : State) : List Nat → State
  | [] => st
  | tid :: rest => Conc.runSchedule (step st tid).1 rest

/-- **every transaction can be completed**: from every reachable state some finite
    schedule (of at most `work st` steps) leads to a state in which every thread —
    every write transaction, committing or aborting, and every registration — has
    finished -/
theorem C05_conc_can_always_finish (P : Protocol) (hP : P.simShape = true) (n : Nat) :
    ∀ (w : Nat) (st : State) (cs : List Bool), Reach P n st cs → work st ≤ w →
      ∃ sched : List Nat, sched.length ≤ w ∧ Reach P n (runSchedule st sched) cs ∧
        ∀ (tid : Nat) (th : Thread), (runSchedule st sched).threads[tid]? = some th → th.done = true := by
  intro w
  induction w with
  | zero =>
    intro st cs h hw
    refine ⟨[], Nat.le_refl _, h, ?_⟩
    intro tid th hth
    cases hd : th.done with
    | true => rfl
    | false =>
      exfalso
      obtain ⟨j, thj, hj, hdj, hej⟩ := C05_conc_no_deadlock P hP n st cs h ⟨tid, th, hth, hd⟩
      have := C05_conc_step_progress st j thj hj hdj hej
      omega
  | succ w ih =>
    intro st cs h hw
    by_cases hall : ∀ (tid : Nat) (th : Thread), st.threads[tid]? = some th → th.done = true
    · exact ⟨[], Nat.zero_le _, h, hall⟩
    · have hex : ∃ (tid : Nat) (th : Thread), st.threads[tid]? = some th ∧ th.done = false := by
        apply Classical.byContradiction
        intro hn
        apply hall
        intro tid th hth
        cases hd : th.done with
        | true => rfl
        | false => exact absurd ⟨tid, th, hth, hd⟩ hn
      obtain ⟨j, thj, hj, hdj, hej⟩ := C05_conc_no_deadlock P hP n st cs h hex
      have hlt := C05_conc_step_progress st j thj hj hdj hej
      obtain ⟨sched, hlen, hr, hdone⟩ := ih (step st j).1 cs (.step st cs j h) (by omega)
      exact ⟨j :: sched, by simp; omega, hr, hdone⟩

/-! ## non-vacuity: a writer on tables `[1, 0, 1]` (any order, duplicates) commits -/

private def stepsOf (st : State) (tid : Nat) : Nat → State
  | 0 => st
  | k + 1 => stepsOf (step st tid).1 tid k

private theorem reach_stepsOf (P : Protocol) (n : Nat) (tid : Nat) : ∀ (k : Nat) (st : State) (cs : List Bool),
    Reach P n st cs → Reach P n (stepsOf st tid k) cs
  | 0, _, _, h => h
  | k + 1, st, cs, h => reach_stepsOf P n tid k _ cs (.step st cs tid h)

example : ∃ st cs, Reach Gen.protocol 2 st cs ∧ (getT st.root 0).cnt = 1 ∧ (getT st.root 1).cnt = 1 ∧
    committedWriters st cs 0 = 1 := by
  refine ⟨stepsOf (spawnWriter Gen.protocol (initState 2) [1, 0, 1] true [] []) 0 10, [true],
    reach_stepsOf _ _ _ _ _ _ (.writer _ _ _ _ _ _ .init (by decide)), by decide, by decide, by decide⟩

/-- two writers; thread 0 (tables `[1, 0, 1]`) is between its acquire and its
    release of table 1 and has loaded the root, thread 1 (table `[1]`) waits: the
    hypotheses of `C05_conc_between_owns`, `C05_conc_only_holder_writes` and
    `C05_conc_writer_sees_latest` are satisfiable -/
example : ∃ st cs th0, Reach Gen.protocol 2 st cs ∧ st.threads[0]? = some th0 ∧ 1 < st.root.length ∧
    Micro.release 1 ∈ th0.prog ∧ Micro.acquire 1 ∉ th0.prog ∧ (1 : Nat) ≠ 0 ∧
    Micro.act .loadRoot ∉ th0.prog ∧ Micro.act .storeRoot ∈ th0.prog ∧ 1 ∈ th0.tables ∧ th0.done = false := by
  refine ⟨stepsOf (stepsOf (spawnWriter Gen.protocol (spawnWriter Gen.protocol (initState 2) [1, 0, 1] true [] [])
      [1] false [] []) 1 1) 0 7, [true, false], _,
    reach_stepsOf _ _ _ _ _ _ (reach_stepsOf _ _ _ _ _ _
      (.writer _ _ _ _ _ _ (.writer _ _ _ _ _ _ .init (by decide)) (by decide))),
    rfl, by decide, by decide, by decide, by decide, by decide, by decide, by decide, by decide⟩

end Sdb
