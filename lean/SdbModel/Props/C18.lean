import SdbModel.Lemmas.Enc
import SdbModel.Generated.EncParams

/-!
# C18 — Index key encodings are injective and order-preserving

> The composite key stored for a non-unique index entry is an injective,
> order-preserving encoding of the pair (secondary key, primary key) — ordered
> by secondary key first, then primary key, bytewise, for arbitrary byte values
> including 0x00, 0x01 and empty keys — from which the two parts can be
> separated again.  For the fixed-width integer, boolean and string encoders
> equal values give equal keys and different values different keys, unsigned
> integers order numerically under bytewise comparison, and LPM keys round-trip
> with the data masked to the prefix length.

Generic theorems are stated for ANY `EncParams` satisfying `WellFormed`; the
`C18_*` theorems instantiate them with the constants regenerated from the
current source (`Gen.encParams`), the side condition being discharged by
`decide`.  A source edit that keeps the scheme valid keeps them green; one that
does not makes `Gen.encParams_wf` fail to build.
-/
namespace Sdb

/-! ## generic theorems -/

theorem enc_cmp (P : EncParams) (h : P.WellFormed) (a b : Key) :
    cmpL (P.enc a) (P.enc b) = cmpL a b := by
  obtain ⟨x, y, hx, hxy, _, he⟩ := P.enc_eq h
  rw [he, he]; exact encXY_cmp hx hxy a b

theorem enc_injective (P : EncParams) (h : P.WellFormed) (a b : Key)
    (hab : P.enc a = P.enc b) : a = b := by
  obtain ⟨x, y, hx, hxy, _, he⟩ := P.enc_eq h
  rw [he, he] at hab; exact encXY_injective hx hxy a b hab

theorem enc_hasPrefix (P : EncParams) (h : P.WellFormed) (k p : Key) :
    hasPrefix (P.enc k) (P.enc p) = hasPrefix k p := by
  obtain ⟨x, y, hx, hxy, _, he⟩ := P.enc_eq h
  rw [he, he]; exact encXY_hasPrefix hx hxy k p

theorem enc_zeroFree (P : EncParams) (h : P.WellFormed) (k : Key) : ZeroFree (P.enc k) := by
  obtain ⟨x, y, hx, hxy, _, he⟩ := P.enc_eq h
  rw [he]; exact encXY_pos hx hxy k

theorem composite_eq (P : EncParams) (h : P.WellFormed) (p s : Key) :
    P.composite p s = P.enc s ++ 0 :: (P.enc p ++ be 2 (P.enc p).length) := by
  obtain ⟨h0, _⟩ := h
  simp [EncParams.composite, h0]

/-- the composite key determines both parts (no length bound needed) -/
theorem composite_injective (P : EncParams) (h : P.WellFormed) (p s p' s' : Key)
    (he : P.composite p s = P.composite p' s') : p = p' ∧ s = s' := by
  rw [composite_eq P h, composite_eq P h] at he
  obtain ⟨h1, h2⟩ := sep_split_unique _ _ _ _ (enc_zeroFree P h s) (enc_zeroFree P h s') he
  have hs := enc_injective P h _ _ h1
  have hl : (P.enc p).length = (P.enc p').length := by
    have := congrArg List.length h2
    simp at this; exact this
  have hp : P.enc p = P.enc p' := List.append_inj_left h2 hl
  exact ⟨enc_injective P h _ _ hp, hs⟩

/-- order: secondary first, ties by primary — for primaries whose ENCODED
    length is below 256 (see `composite_cmp_refuted` for why the bound is
    needed: known finding K2) -/
theorem composite_cmp_partial (P : EncParams) (h : P.WellFormed) (p s p' s' : Key)
    (hp : (P.enc p).length < 256) (hp' : (P.enc p').length < 256) :
    cmpL (P.composite p s) (P.composite p' s') = Ordering.thenO (cmpL s s') (cmpL p p') := by
  rw [composite_eq P h, composite_eq P h,
    cmpL_sep _ _ _ _ (enc_zeroFree P h s) (enc_zeroFree P h s'),
    be2_small _ hp, be2_small _ hp',
    cmpL_lenSuffix _ _ _ _ (enc_zeroFree P h p) (enc_zeroFree P h p') (fun e => e),
    enc_cmp P h, enc_cmp P h]

private theorem drop_len_sub_two (A B : List Nat) (hB : B.length = 2) :
    (A ++ B).drop ((A ++ B).length - 2) = B := by
  have : (A ++ B).length - 2 = A.length := by simp [hB]
  rw [this]; simp

private theorem take_len_sub_two (A B : List Nat) (hB : B.length = 2) :
    (A ++ B).take ((A ++ B).length - 2) = A := by
  have : (A ++ B).length - 2 = A.length := by simp [hB]
  rw [this]; simp

/-- the parts can be separated again (the code's `nonUniqueKey` accessors),
    for encoded primaries shorter than 2^16 (the length is stored in a uint16) -/
theorem composite_split (P : EncParams) (h : P.WellFormed) (p s : Key)
    (hp : (P.enc p).length < 65536) :
    nukPrimaryLen (P.composite p s) = (P.enc p).length ∧
    nukSecondaryLen (P.composite p s) = (P.enc s).length ∧
    nukEncodedPrimary (P.composite p s) = P.enc p ∧
    nukEncodedSecondary (P.composite p s) = P.enc s := by
  have hk : P.composite p s = (P.enc s ++ 0 :: P.enc p) ++ be 2 (P.enc p).length := by
    rw [composite_eq P h]; simp
  have hlen : (P.composite p s).length = (P.enc s).length + 1 + (P.enc p).length + 2 := by
    rw [hk]; simp; omega
  have hpl : nukPrimaryLen (P.composite p s) = (P.enc p).length := by
    unfold nukPrimaryLen
    split
    · omega
    · rw [hk, drop_len_sub_two _ _ (by simp), unbe_be]
      exact Nat.mod_eq_of_lt (by simpa using hp)
  have hsl : nukSecondaryLen (P.composite p s) = (P.enc s).length := by
    unfold nukSecondaryLen; rw [hpl, hlen]; omega
  refine ⟨hpl, hsl, ?_, ?_⟩
  · unfold nukEncodedPrimary
    simp only [hpl]
    rw [hk, take_len_sub_two _ _ (by simp)]
    have : ((P.enc s ++ 0 :: P.enc p) ++ be 2 (P.enc p).length).length - 2 - (P.enc p).length
        = (P.enc s ++ [0]).length := by simp; omega
    rw [this]
    have : P.enc s ++ 0 :: P.enc p = (P.enc s ++ [0]) ++ P.enc p := by simp
    rw [this, List.drop_left]
  · unfold nukEncodedSecondary
    rw [hsl, hk]
    simp

/-! ## instances for the constants in today's source -/

theorem Gen.encParams_wf : Gen.encParams.WellFormed :=
  (EncParams.wf_iff _).mp (by decide)

theorem C18_enc_injective (a b : Key) (h : Gen.encParams.enc a = Gen.encParams.enc b) : a = b :=
  enc_injective _ Gen.encParams_wf a b h

theorem C18_enc_order (a b : Key) :
    cmpL (Gen.encParams.enc a) (Gen.encParams.enc b) = cmpL a b :=
  enc_cmp _ Gen.encParams_wf a b

theorem C18_enc_prefix (k p : Key) :
    hasPrefix (Gen.encParams.enc k) (Gen.encParams.enc p) = hasPrefix k p :=
  enc_hasPrefix _ Gen.encParams_wf k p

theorem C18_encodedLength (k : Key) :
    Gen.encParams.encodedLength k = (Gen.encParams.enc k).length :=
  EncParams.encodedLength_eq _ Gen.encParams_wf k

theorem C18_composite_injective (p s p' s' : Key)
    (h : Gen.encParams.composite p s = Gen.encParams.composite p' s') : p = p' ∧ s = s' :=
  composite_injective _ Gen.encParams_wf p s p' s' h

theorem C18_composite_split (p s : Key) (hp : (Gen.encParams.enc p).length < 65536) :
    nukPrimaryLen (Gen.encParams.composite p s) = (Gen.encParams.enc p).length ∧
    nukSecondaryLen (Gen.encParams.composite p s) = (Gen.encParams.enc s).length ∧
    nukEncodedPrimary (Gen.encParams.composite p s) = Gen.encParams.enc p ∧
    nukEncodedSecondary (Gen.encParams.composite p s) = Gen.encParams.enc s :=
  composite_split _ Gen.encParams_wf p s hp

theorem C18_composite_order_partial (p s p' s' : Key)
    (hp : (Gen.encParams.enc p).length < 256) (hp' : (Gen.encParams.enc p').length < 256) :
    cmpL (Gen.encParams.composite p s) (Gen.encParams.composite p' s')
      = Ordering.thenO (cmpL s s') (cmpL p p') :=
  composite_cmp_partial _ Gen.encParams_wf p s p' s' hp hp'

/-- **K2 (known finding).**  The full-strength statement (no length bound) is
    FALSE for today's source: two primaries, one a prefix of the other, with
    encoded length 512 — the length suffix's high byte (0x02) is compared with a
    key byte (0x01) and wins. -/
theorem C18_composite_order_refuted :
    ∃ p p' s, cmpL p p' = .lt ∧
      cmpL (Gen.encParams.composite p s) (Gen.encParams.composite p' s) = .gt := by
  -- p = 256 zero bytes, p' = 257 zero bytes, s empty
  have hlt : ∀ n, cmpL (List.replicate n 0) (List.replicate (n + 1) 0) = .lt := by
    intro n
    induction n with
    | zero => rfl
    | succ n ih => rw [List.replicate_succ, List.replicate_succ (n := n + 1), cmpL_cons_cons]; simpa using ih
  have e : ∀ n, Gen.encParams.enc (List.replicate (n + 1) 0)
      = Gen.encParams.enc (List.replicate n 0) ++ [1, 1] := by
    intro n
    have app : ∀ a b : Key, Gen.encParams.enc (a ++ b) = Gen.encParams.enc a ++ Gen.encParams.enc b := by
      intro a b
      induction a with
      | nil => rfl
      | cons c cs ih => simp [EncParams.enc, ih]
    rw [List.replicate_succ', app]
    rfl
  have l : ∀ n, (Gen.encParams.enc (List.replicate n 0)).length = 2 * n := by
    intro n; induction n with
    | zero => rfl
    | succ n ih => rw [e, List.length_append, ih]; simp; omega
  have key : ∀ n, cmpL (Gen.encParams.composite (List.replicate n 0) [])
      (Gen.encParams.composite (List.replicate (n + 1) 0) [])
      = cmpL (be 2 (2 * n)) ([1, 1] ++ be 2 (2 * (n + 1))) := by
    intro n
    simp only [EncParams.composite, l]
    rw [e]
    simp only [List.append_assoc]
    rw [cmpL_append_left, cmpL_append_left, cmpL_append_left]
  refine ⟨List.replicate 256 0, List.replicate 257 0, [], hlt 256, ?_⟩
  rw [key 256]
  decide

/-! ### integer, bool encoders -/

theorem C18_uint_injective (w n m : Nat) (hn : n < 256 ^ w) (hm : m < 256 ^ w)
    (h : encUint w n = encUint w m) : n = m := be_injective w n m hn hm h

/-- unsigned integers order numerically under bytewise comparison (any width;
    the code uses 2, 4, 8) -/
theorem C18_uint_order (w n m : Nat) (hn : n < 256 ^ w) (hm : m < 256 ^ w) :
    cmpL (encUint w n) (encUint w m) = cmpN n m := be_cmp w n m hn hm

private theorem twos_inj (M : Nat) (i j : Int) (hM : 0 < M)
    (hi : -((M : Int)) ≤ 2 * i ∧ 2 * i < M) (hj : -((M : Int)) ≤ 2 * j ∧ 2 * j < M)
    (h : (i % (M : Int)).toNat = (j % (M : Int)).toNat) : i = j := by
  have hMi : (0 : Int) < M := by exact_mod_cast hM
  have h1 := Int.emod_nonneg i (Int.ne_of_gt hMi)
  have h2 := Int.emod_nonneg j (Int.ne_of_gt hMi)
  have h3 : i % (M : Int) = j % (M : Int) := by
    have a := Int.toNat_of_nonneg h1
    have b := Int.toNat_of_nonneg h2
    rw [← a, ← b, h]
  have hd : (M : Int) ∣ (i - j) :=
    Int.dvd_of_emod_eq_zero (Int.emod_eq_emod_iff_emod_sub_eq_zero.mp h3)
  have : i - j = 0 := by
    apply Int.eq_zero_of_dvd_of_natAbs_lt_natAbs hd
    omega
  omega

/-- signed encoders (two's complement then big-endian) are injective on the
    range of the w-byte signed type -/
theorem C18_int_injective (w : Nat) (i j : Int)
    (hi : -((256 ^ w : Nat) : Int) ≤ 2 * i ∧ 2 * i < ((256 ^ w : Nat) : Int))
    (hj : -((256 ^ w : Nat) : Int) ≤ 2 * j ∧ 2 * j < ((256 ^ w : Nat) : Int))
    (h : encInt w i = encInt w j) : i = j := by
  have hpos : 0 < 256 ^ w := Nat.pow_pos (by omega)
  have hlt : ∀ k : Int, twos w k < 256 ^ w := by
    intro k
    unfold twos
    have hMi : (0 : Int) < ((256 ^ w : Nat) : Int) := by exact_mod_cast hpos
    have := Int.emod_lt_of_pos k hMi
    have h1 := Int.emod_nonneg k (Int.ne_of_gt hMi)
    omega
  have := be_injective w _ _ (hlt i) (hlt j) h
  exact twos_inj _ i j hpos hi hj this

/-- **K1 (known finding).** `index.Int(n)` converts through `int32`; on a
    platform whose `int` is wider than the encoder it delegates to, two
    different values give the same key. -/
theorem C18_platformInt_refuted :
    ∃ i j : Int, i ≠ j ∧
      -((256 ^ Gen.intParams.platformIntBytes : Nat) : Int) ≤ 2 * i ∧
      2 * i < ((256 ^ Gen.intParams.platformIntBytes : Nat) : Int) ∧
      -((256 ^ Gen.intParams.platformIntBytes : Nat) : Int) ≤ 2 * j ∧
      2 * j < ((256 ^ Gen.intParams.platformIntBytes : Nat) : Int) ∧
      encPlatformInt Gen.intParams i = encPlatformInt Gen.intParams j :=
  ⟨1, 1 + 4294967296, by decide, by decide, by decide, by decide, by decide, by decide⟩

/-- what does hold for `index.Int`: injective on the range of the type it
    delegates to -/
theorem C18_platformInt_injective_partial (i j : Int)
    (hi : -((256 ^ Gen.intParams.intDelegateBytes : Nat) : Int) ≤ 2 * i ∧
          2 * i < ((256 ^ Gen.intParams.intDelegateBytes : Nat) : Int))
    (hj : -((256 ^ Gen.intParams.intDelegateBytes : Nat) : Int) ≤ 2 * j ∧
          2 * j < ((256 ^ Gen.intParams.intDelegateBytes : Nat) : Int))
    (h : encPlatformInt Gen.intParams i = encPlatformInt Gen.intParams j) : i = j :=
  C18_int_injective _ i j hi hj h

theorem C18_bool_injective (a b : Bool) (h : encBool a = encBool b) : a = b := by
  cases a <;> cases b <;> simp [encBool] at h ⊢

/-! ### LPM keys -/

/-- LPM keys round-trip: decoding an encoded key gives back the prefix length
    and the data part that was stored (which is the first ⌈l/8⌉ bytes of the
    input with the last byte masked, see `C18_lpm_masked`). -/
theorem C18_lpm_roundtrip (d : List Nat) (l : Nat) (k : List Nat) (hl : l < 65536)
    (h : encodeLPM d l = some k) :
    ∃ data, decodeLPM k = some (data, l) ∧ k = data ++ be 2 l ∧ data.length = (l + 7) / 8 := by
  unfold encodeLPM at h
  simp only at h
  split at h
  · simp at h
  · rename_i hlen
    simp only [Option.some.injEq] at h
    have hlen' : (l + 7) / 8 ≤ d.length := by omega
    -- name the data part
    generalize hdata : (if (l + 7) / 8 > 0 ∧ l % 8 ≠ 0 then
        List.take ((l + 7) / 8 - 1) (List.take ((l + 7) / 8) d) ++
          [(List.take ((l + 7) / 8) d).getD ((l + 7) / 8 - 1) 0 &&& lpmMask (l % 8)]
      else List.take ((l + 7) / 8) d) = data at h
    have hdl : data.length = (l + 7) / 8 := by
      subst hdata
      split
      · simp [List.length_take]; omega
      · simp [List.length_take]; omega
    refine ⟨data, ?_, h.symm, hdl⟩
    subst h
    unfold decodeLPM
    simp only
    rw [drop_len_sub_two _ _ (by simp), take_len_sub_two _ _ (by simp), unbe_be]
    have : l % 256 ^ 2 = l := Nat.mod_eq_of_lt (by simpa using hl)
    rw [this]
    have h1 : ¬ (data ++ be 2 l).length < 2 := by simp
    have h2 : ¬ (l + 7) / 8 > data.length := by omega
    simp [h1, h2]

/-- the stored data is the input masked to the prefix length: all bytes before
    the last are copied, the last byte keeps its top `l % 8` bits -/
theorem C18_lpm_masked (d : List Nat) (l : Nat) (k : List Nat)
    (h : encodeLPM d l = some k) :
    let n := (l + 7) / 8
    k.take (n - 1) = d.take (n - 1) ∧
    (0 < n → l % 8 = 0 → k.take n = d.take n) ∧
    (0 < n → l % 8 ≠ 0 → k[n - 1]? = some (Nat.land (d.getD (n - 1) 0) (lpmMask (l % 8)))) := by
  unfold encodeLPM at h
  simp only at h
  split at h
  · simp at h
  · rename_i hlen
    simp only [Option.some.injEq] at h
    subst h
    refine ⟨?_, ?_, ?_⟩
    · split
      · simp [List.take_append, List.take_take]
        omega
      · rw [List.take_append_of_le_length (by simp [List.length_take]; omega), List.take_take]
        congr 1; omega
    · intro hn h0
      simp [h0]
      rw [List.take_append_of_le_length (by simp [List.length_take]; omega), List.take_take]
      simp
    · intro hn h0
      simp only [hn, h0, ne_eq, not_false_eq_true, and_self, if_true]
      rw [List.getElem?_append_left (by simp [List.length_take]; omega)]
      rw [List.getElem?_append_right (by simp [List.length_take]; omega)]
      simp [List.length_take]
      have : min ((l + 7) / 8 - 1) (min ((l + 7) / 8) d.length) = (l + 7) / 8 - 1 := by omega
      simp [this]
      congr 2
      rw [List.getElem?_take]
      simp; omega

/-- mask shape: exactly the top `r` bits (table over the finite domain) -/
theorem C18_lpm_mask_table :
    lpmMask 1 = 128 ∧ lpmMask 2 = 192 ∧ lpmMask 3 = 224 ∧ lpmMask 4 = 240 ∧
    lpmMask 5 = 248 ∧ lpmMask 6 = 252 ∧ lpmMask 7 = 254 := by decide

/-! ## non-vacuity: concrete instances meeting the hypotheses -/

example : Gen.encParams.enc [0, 1, 2, 255] = [1, 1, 1, 2, 2, 255] := by decide
example : cmpL (Gen.encParams.composite [97] [0]) (Gen.encParams.composite [97, 0] [0]) = .lt := by decide
example : (Gen.encParams.enc [97, 0]).length < 256 := by decide
example : encodeLPM [255, 255] 12 = some [255, 240, 0, 12] := by decide
example : decodeLPM [255, 240, 0, 12] = some ([255, 240], 12) := by decide
example : encUint 2 258 = [1, 2] := by decide

end Sdb
