import SdbModel.Props.C14Inject
import SdbModel.Props.C15
import SdbModel.Lemmas.ReconcilerInjectSim

/-!
# C15 — Reconciler status write-back never misreports or clobbers (whole rounds, with user writes landing WHILE an Update runs)

> The reconciler marks an object Done or Error only for the version it
> actually passed to Update: if the object was changed or deleted while the
> operation ran, the stale result is dropped, the newer version is neither
> overwritten nor lost nor a deleted object re-created (…).  Its writes change
> nothing but the status of the object (…).

`Props/C15.lean` states the decision logic of one `commitOne`.  Here the property
is proved for WHOLE ROUNDS of `Model.Reconciler` (`R.round`, single operations)
in which the writes queued in `R.injects` land from inside `Operations.Update`,
between the reconciler's snapshot and its status commit, for every state
reachable with such writes (`C14InjReachable`, `Props/C14Inject.lean`; `touch`
writes under the hypothesis `roundSafe` of known finding K4):

* `C15_inject_no_status_for_unprocessed_version`: in every reachable state a Done
  object's last logged call is a successful Update with exactly its current data;
  an Error object has a queued retry for exactly its revision, carrying its data;
  a Pending object lies beyond the iterator: it will be delivered (again).
* `C15_inject_commit_only_for_updated_data`: whenever `commitStatus` writes a
  status inside a round, the current object has the data Update was called with
  and that call is the last one logged for it.
* `C15_inject_write_during_update_drops_result`: a `put` or `del` of the object
  itself landing during its Update makes the result stale: the commit leaves the
  state untouched (what the model does then: the user's version stays Pending
  with a fresh status id beyond the iterator and is delivered by the NEXT round's
  change stream; it is not processed again in the same round).
* `C15_inject_only_status_written`, `C15_inject_deleted_stays_deleted`: up to
  status and revision the table after a round is what the user's writes alone —
  those that landed, in the order they landed — make of the table before it.
-/
namespace Sdb
open Rec

/-- **no status for a version that was not processed**, in every state reachable
    with writes during Updates -/
theorem C15_inject_no_status_for_unprocessed_version {r : R} (h : C14InjReachable r) :
    ∀ o ∈ r.objs,
      (o.kind = .done → lastCall r.log o.id = some ⟨"U", o.id, o.data, true⟩ ∧ ∀ it ∈ r.items, it.id ≠ o.id) ∧
      (o.kind = .error → ∃ it ∈ r.items, it.id = o.id ∧ it.delete = false ∧ it.rev = o.rev ∧ it.inQueue = true ∧
        it.obj.id = o.id ∧ it.obj.data = o.data ∧ it.obj.other = o.other) ∧
      ((o.kind = .pending ∨ o.kind = .refreshing) → o.rev > r.itRev) := by
  have hw := C14_inject_inv_reachable h
  intro o ho
  obtain ⟨a, b, c⟩ := hw.rinv.inv.objOK o ho
  refine ⟨a, fun he => ?_, fun hn => ?_⟩
  · rcases b he with ⟨it, hit, b1, b2, b3, b4⟩ | ⟨res, hres, _⟩
    · obtain ⟨i1, _, _, i4⟩ := hw.rinv.inv.itemOK it hit
      rcases (i4 b2).2.2 o ho b1.symm with ⟨_, _, e3, e4⟩ | ⟨e1, _⟩
      · exact ⟨it, hit, b1, b2, b3, b4, by omega, e3.symm, e4.symm⟩
      · omega
    · cases hres
  · rcases c hn with c | ⟨res, hres, _⟩
    · exact c
    · cases hres

/-- inside a round every iteration of `commitStatus` runs in a state satisfying the
    in-round invariant for the results still to be committed -/
theorem C15_inject_commit_invariant (l1 : List Res) (res : Res) (l2 : List Res) {r : R} (h : JInv r (l1 ++ res :: l2)) :
    JInv (l1.foldl R.commitOne r) (res :: l2) := by
  induction l1 generalizing r with
  | nil => exact h
  | cons x xs ih => exact ih h.commitOne

/-- in a round from a reachable state both runs of `commitStatus` (after the change
    loop: state `roundMid`; after the retry loop: state `roundMid2`; the round is
    `roundMid2.commitStatus` with the counters reset) start in a state satisfying the
    in-round invariant `JInv` for the results to be committed: the hypothesis of
    `C15_inject_commit_only_for_updated_data` holds at every status write of every round -/
theorem C15_inject_round_commits_in_invariant {r : R} (h : C14InjReachable r) (hs : r.roundSafe) :
    JInv r.roundMid r.roundMid.results ∧ JInv r.roundMid2 r.roundMid2.results ∧
    r.round.objs = r.roundMid2.commitStatus.objs ∧ r.roundMid2 = r.roundMid.commitStatus.processRetries (r.roundMid.commitStatus.items.length + 1) :=
  ⟨((C14_inject_inv_reachable h).rinv.round_stages hs).1, ((C14_inject_inv_reachable h).rinv.round_stages hs).2, rfl, rfl⟩

/-- **a status is written only onto an object that has the data Update was called
    with**: when `commitOne` decides to write (the revision is unchanged, or the
    object is still Pending with the same status id), the current object's data is
    the data of the clone passed to Update, and that Update is the last call
    logged for the object — whatever landed during the Update -/
theorem C15_inject_commit_only_for_updated_data {r : R} {res : Res} {rs : List Res} (h : JInv r (res :: rs)) (cur : RObj)
    (hcur : r.get res.1.id = some cur) (hw : cur.rev = res.2.2.1 ∨ (cur.kind = .pending ∧ cur.sid = res.2.2.2.1)) :
    cur.data = res.1.data ∧ lastCall r.log res.1.id = some ⟨"U", res.1.id, res.1.data, !res.2.2.2.2⟩ := by
  rw [get_eq_some_iff h.tinv] at hcur
  obtain ⟨a, _, b, _⟩ := (h.resOK res (List.mem_cons_self ..)).2.2.2.2 cur hcur.1 hcur.2 hw
  exact ⟨a, b⟩

/-- … and otherwise nothing is written (this is `C15_stale_result_dropped` /
    `C15_deleted_not_recreated` without side conditions) -/
theorem C15_inject_stale_result_dropped (r : R) (res : Res)
    (hst : ∀ cur, r.get res.1.id = some cur → ¬ (cur.rev = res.2.2.1 ∨ (cur.kind = .pending ∧ cur.sid = res.2.2.2.1))) :
    r.commitOne res = r := by
  obtain ⟨obj, orig, rev, sid, failed⟩ := res
  unfold R.commitOne
  simp only at hst ⊢
  cases hg : r.get obj.id with
  | none => rfl
  | some cur =>
    have := hst cur hg
    simp only
    rw [if_neg (fun e => this (Or.inl e)), if_neg (fun e => this (Or.inr e))]

/-- **a write to the object itself during its Update makes the result stale.**  If
    among the writes queued for `Update(obj)` there is a `put` or a `del` of
    `obj.id` (alone, several, `del` then `put`, mixed with other writes), then
    after `processSingle` the object, if it exists, was written after everything
    the reconciler has seen and carries a fresh status id; the result remembered
    for `commitStatus` is dropped: committing it leaves the state untouched.  (The
    side conditions hold of every call in a round: the revision handed to Update
    is not beyond the table's, status ids are handed out increasingly.) -/
theorem C15_inject_write_during_update_drops_result (r : R) (obj : RObj) (rev : Nat) (hrev : rev ≤ r.tableRev)
    (hsid : obj.sid < r.nextSid)
    (hw : ∃ a ∈ r.injects, a.1 = obj.id ∧ ((∃ d, a.2 = .put obj.id d) ∨ a.2 = .del obj.id)) :
    (obj, obj, rev, obj.sid, r.isFailing obj.id) ∈ (r.processSingle obj rev false).results ∧
    (∀ cur, (r.processSingle obj rev false).get obj.id = some cur → cur.rev > r.tableRev ∧ cur.sid ≥ r.nextSid) ∧
    (r.processSingle obj rev false).commitOne (obj, obj, rev, obj.sid, r.isFailing obj.id) = r.processSingle obj rev false := by
  rw [processSingle_update_land]
  obtain ⟨p1, p2, p3, _, _, _, _, p8, p9, _⟩ := preUpdate_facts r obj rev
  have hfresh : FreshObj obj.id r.tableRev r.nextSid ((r.preUpdate obj rev).landAll (r.injects.filter (fun (a : Nat × Inject) => a.1 = obj.id))) := by
    have := freshObj_of_write obj.id (r.injects.filter (fun (a : Nat × Inject) => a.1 = obj.id)) (r.preUpdate obj rev) (by
      obtain ⟨a, ha, h1, h2⟩ := hw
      exact ⟨a, List.mem_filter.2 ⟨ha, by simpa using h1⟩, h2⟩)
    rw [p3, p8] at this
    exact this
  refine ⟨?_, fun cur hc => hfresh cur hc, ?_⟩
  · rw [(frameW_landAll _ _).results, p9]
    exact List.mem_append_right _ (List.mem_singleton.2 rfl)
  · apply C15_inject_stale_result_dropped
    intro cur hc
    obtain ⟨a, b⟩ := hfresh cur hc
    simp only
    rintro (e | ⟨_, e⟩) <;> omega

/-- **nothing but the status is written.**  For a round from any reachable state:
    there is a list `lp` of queued writes — those that landed during the round's
    Updates, in the order they landed; together with what is still queued they are
    exactly the writes queued before, and the writes queued for one object keep
    their order — such that, up to status and revision, the objects and the
    graveyard after the round are what the USER's writes `lp` alone make of the
    table before the round: id, user data and foreign field of every object, and
    the order of the table, coincide. -/
theorem C15_inject_only_status_written {r : R} (h : C14InjReachable r) (hs : r.roundSafe) :
    ∃ lp : List (Nat × Inject),
      (lp ++ r.round.injects).Perm r.injects ∧
      (∀ k, lp.filter (fun (a : Nat × Inject) => a.1 = k) ++ r.round.injects.filter (fun (a : Nat × Inject) => a.1 = k) =
        r.injects.filter (fun (a : Nat × Inject) => a.1 = k)) ∧
      r.round.objs.map (fun o => (o.id, o.data, o.other)) =
        (lp.foldl (fun (x : R) (a : Nat × Inject) => x.applyInject a.2) r).objs.map (fun o => (o.id, o.data, o.other)) ∧
      r.round.dels.map (fun d => (d.1.id, d.1.data, d.1.other)) =
        (lp.foldl (fun (x : R) (a : Nat × Inject) => x.applyInject a.2) r).dels.map (fun d => (d.1.id, d.1.data, d.1.other)) := by
  obtain ⟨lp, hp, ht, ho⟩ := (C14_inject_inv_reachable h).rinv.round_sim hs
  exact ⟨lp, hp, ho, ht.1, ht.2⟩

/-- with nothing queued, a round changes nothing but status and revision -/
theorem C15_inject_only_status_written_no_injects {r : R} (h : C14InjReachable r) (hinj : r.injects = []) :
    r.round.objs.map (fun o => (o.id, o.data, o.other)) = r.objs.map (fun o => (o.id, o.data, o.other)) ∧
    r.round.dels.map (fun d => (d.1.id, d.1.data, d.1.other)) = r.dels.map (fun d => (d.1.id, d.1.data, d.1.other)) := by
  obtain ⟨lp, hp, _, h1, h2⟩ := C15_inject_only_status_written h (round_safe_of_noTouch r (noTouch_nil hinj)).1
  have : lp = [] := by
    rw [hinj] at hp
    have := hp.length_eq
    simp only [List.length_append, List.length_nil] at this
    exact List.eq_nil_of_length_eq_zero (by omega)
  subst this
  exact ⟨h1, h2⟩

/-- **a deleted object is not re-created by the status commit**: an id that the
    user's writes alone (those that landed during the round, in their order) leave
    absent from the table is absent after the round; in particular, without a
    landed `put` of it, an object deleted before or during the round stays deleted -/
theorem C15_inject_deleted_stays_deleted {r : R} (h : C14InjReachable r) (hs : r.roundSafe) :
    ∃ lp : List (Nat × Inject), (lp ++ r.round.injects).Perm r.injects ∧
      ∀ id, (∀ o ∈ (lp.foldl (fun (x : R) (a : Nat × Inject) => x.applyInject a.2) r).objs, o.id ≠ id) →
        r.round.get id = none := by
  obtain ⟨lp, hp, _, h1, _⟩ := C15_inject_only_status_written h hs
  refine ⟨lp, hp, fun id hid => ?_⟩
  rw [get_eq_none_iff]
  intro o ho e
  have hm : (o.id, o.data, o.other) ∈ r.round.objs.map (fun o => (o.id, o.data, o.other)) := List.mem_map.2 ⟨o, ho, rfl⟩
  rw [h1] at hm
  obtain ⟨o', ho', e'⟩ := List.mem_map.1 hm
  simp only [Prod.mk.injEq] at e'
  exact hid o' ho' (by omega)

/-- without writes queued: an object that is deleted stays deleted through a round -/
theorem C15_inject_deleted_stays_deleted_no_injects {r : R} (h : C14InjReachable r) (hinj : r.injects = []) (id : Nat)
    (hdel : r.get id = none) : r.round.get id = none := by
  obtain ⟨h1, _⟩ := C15_inject_only_status_written_no_injects h hinj
  rw [get_eq_none_iff] at hdel ⊢
  intro o ho e
  have hm : (o.id, o.data, o.other) ∈ r.round.objs.map (fun o => (o.id, o.data, o.other)) := List.mem_map.2 ⟨o, ho, rfl⟩
  rw [h1] at hm
  obtain ⟨o', ho', e'⟩ := List.mem_map.1 hm
  simp only [Prod.mk.injEq] at e'
  exact hdel o' ho' (by omega)

/-! ## non-vacuity: the scenarios of the property, computed -/

/-- object 1 is put; the test's Update(1) Inserts a new version of object 1 while it runs -/
def c15jPut : R := { (({} : R).userPut 1 7) with injects := [(1, Inject.put 1 99)] }

/-- … Deletes object 1 while it runs -/
def c15jDel : R := { (({} : R).userPut 1 7) with injects := [(1, Inject.del 1)] }

/-- … Deletes and re-Inserts object 1 while it runs, and a foreign writer touches it -/
def c15jDelPut : R := { (({} : R).userPut 1 7) with injects := [(1, Inject.del 1), (1, Inject.put 1 50), (1, Inject.touch 1)] }

example : C14InjReachable c15jPut ∧ C14InjReachable c15jDel ∧ C14InjReachable c15jDelPut :=
  ⟨.inject 1 (.put 1 99) (.put 1 7 (.init {})), .inject 1 (.del 1) (.put 1 7 (.init {})),
   .inject 1 (.touch 1) (.inject 1 (.put 1 50) (.inject 1 (.del 1) (.put 1 7 (.init {}))))⟩

example : c15jPut.roundSafe ∧ c15jDel.roundSafe ∧ c15jDelPut.roundSafe := by decide +kernel

/-- Update was called with the old data (7) and succeeded, but the object carries
    the USER's data (99), is Pending, beyond the iterator: no Done for data it was
    not updated with; the next round delivers it -/
example : c15jPut.round.objs.map (fun o => (o.id, o.data, o.kind, o.rev)) = [(1, 99, .pending, 2)] ∧ c15jPut.round.itRev = 1 ∧
    c15jPut.round.log = [⟨"U", 1, 7, true⟩] ∧ c15jPut.round.triggered = true ∧
    (c15jPut.round.round.objs.map fun o => (o.id, o.data, o.kind)) = [(1, 99, .done)] ∧
    c15jPut.round.round.log = [⟨"U", 1, 7, true⟩, ⟨"U", 1, 99, true⟩] := by decide +kernel

/-- the deleted object is not re-created by the status commit; the next round calls Delete -/
example : c15jDel.round.objs = [] ∧ c15jDel.round.dels.map (fun d => d.1.id) = [1] ∧
    c15jDel.round.round.objs = [] ∧ c15jDel.round.round.log = [⟨"U", 1, 7, true⟩, ⟨"D", 1, 7, true⟩] := by decide +kernel

/-- delete + re-insert + a foreign write during the Update: the user's version (50) with the foreign field, Pending -/
example : c15jDelPut.round.objs.map (fun o => (o.id, o.data, o.kind, o.other)) = [(1, 50, .pending, 1)] ∧
    c15jDelPut.round.dels = [] ∧ c15jDelPut.round.injects = [] := by decide +kernel

/-- the hypotheses of `C15_inject_write_during_update_drops_result` hold of the first call of that round -/
example : (1 : Nat) ≤ c15jPut.tableRev ∧ (c15jPut.objs.map (·.sid)) = [1] ∧ 1 < c15jPut.nextSid ∧
    (∃ a ∈ c15jPut.injects, a.1 = 1 ∧ ((∃ d, a.2 = .put 1 d) ∨ a.2 = .del 1)) :=
  ⟨by decide, by decide, by decide, ⟨(1, .put 1 99), List.mem_cons_self .., rfl, Or.inl ⟨99, rfl⟩⟩⟩

/-- the structural facts about reconciler/incremental.go and reconciler/retries.go that the model
    builds in — the conditions under which `commitStatus` writes a status and queues a retry (`R.commitOne`) — hold of the source as it is today (regenerated by `tools/extract` on every run) -/
theorem C15_inject_source_facts : Gen.recFacts = Rec.expectedFacts := by decide

end Sdb
