import SdbModel.Props.C14
import SdbModel.Lemmas.ReconcilerInjectDec

/-!
# C14 — Reconciler converges … with user writes landing WHILE an Update runs

> For any history of inserts, updates and deletes on the reconciled table and
> any pattern of failing Update/Delete operations, once operations stop failing
> and the table stops changing the reconciler reaches, within a bounded number
> of retry periods, a state where the target equals the table (…).  No object is
> forgotten, whatever the round size, rate limits, batch or single operations,
> or retry timing.

`Props/C14.lean` proves this over `Model.Reconciler` for runs in which the table
is written only BETWEEN rounds (`injects = []`).  Here the writes queued in
`R.injects` land from inside `Operations.Update`, i.e. between the reconciler's
snapshot and its status commit (single operations, `R.round`): any number of
`put` / `del` writes to any ids, queued for the Update of any object, and
`touch` writes (a foreign writer's own field) under the explicit hypothesis
`R.roundSafe`: a `touch` never lands on an object whose status is Error at that
moment (that is known finding K4, `C14_touch_on_error_refuted`).

* `WInv` itself is NOT preserved (`C14_inject_winv_refuted`, a benign finding: a
  retry that was popped, failed, and whose result was dropped because the user
  rewrote the object during the retried Update stays in the retry map OUTSIDE
  the time queue until the change stream clears it; `WInv` says every item is
  queued).  The invariant proved for every state reachable with such writes is
  `JWInv` = `WInv` with exactly this weakening (and without `injects = []`):
  `C14_inject_inv_initial` … `C14_inject_inv_round`, `C14_inject_inv_reachable`.
* nothing is forgotten: `C14_inject_inv_nothing_forgotten` (the statement of
  `C14_inv_nothing_forgotten`, verbatim), `C14_inject_idle_nothing_forgotten`.
* convergence once the user stopped writing, also during Updates
  (`failing = []`, `injects = []`): every triggered round decreases the measure of
  `Props/C14.lean` (`C14_inject_round_decreases_measure`), the loop goes idle with
  explicit fuel and the idle state satisfies `WInv` (`C14_inject_quiesce_goes_idle`),
  later than the maximal backoff target = table, from ANY reachable state
  (`C14_inject_converged_quiesce`, `C14_inject_converges_after_writes_stop`;
  through `advance`: `C14_inject_converged_when_idle`,
  `C14_inject_converged_advance_partial`).
* the hypothesis on `touch` is necessary also for writes from inside an Update:
  `C14_inject_touch_on_error_refuted`.
-/
namespace Sdb
open Rec

/-! ## the reachable states -/

/-- the states reachable from the initial one by the steps of `C14Reachable`
    (user writes and deletes, foreign status writes on non-Error objects,
    switching failures, running the loop, letting time pass) AND by queueing a
    write that will land from inside the Update of object `k` (`inject`).  A
    round may run with anything queued, provided no queued `touch` lands on an
    Error object (`roundSafe`, resp. `quiesceSafe` / `advanceSafe` for all the
    rounds `quiesce` / `advance` run: these hold outright when no `touch` is
    queued, `C14_inject_no_touch_is_safe`). -/
inductive C14InjReachable : R → Prop
  | init (c : Cfg) : C14InjReachable { cfg := c }
  | put {r : R} (id data : Nat) : C14InjReachable r → C14InjReachable (r.userPut id data)
  | del {r : R} (id : Nat) : C14InjReachable r → C14InjReachable (r.delObj id)
  | touch {r : R} (id : Nat) : C14InjReachable r → (∀ o, r.get id = some o → o.kind ≠ .error) → C14InjReachable (r.touch id)
  | fail {r : R} (l : List Nat) : C14InjReachable r → C14InjReachable { r with failing := l }
  | inject {r : R} (k : Nat) (a : Inject) : C14InjReachable r → C14InjReachable { r with injects := r.injects ++ [(k, a)] }
  | round {r : R} : C14InjReachable r → r.roundSafe → C14InjReachable r.round
  | fire {r : R} : C14InjReachable r → C14InjReachable r.fireTimer
  | tick {r : R} (t : Nat) : C14InjReachable r → r.now ≤ t → C14InjReachable { r with now := t }
  | quiesce {r : R} (fuel : Nat) : C14InjReachable r → r.quiesceSafe fuel → C14InjReachable (r.quiesce fuel)
  | advance {r : R} (ms fuel : Nat) : C14InjReachable r → r.advanceSafe ms fuel → C14InjReachable (r.advance ms fuel)

/-- the invariant `JWInv` (bookkeeping `JInv`, iterator position `Sync`, retry
    timer and retry times `QInv`) holds in the initial state … -/
theorem C14_inject_inv_initial (c : Cfg) : JWInv { cfg := c } := JWInv.init c

/-- … is preserved by a user write, … -/
theorem C14_inject_inv_userPut (r : R) (id data : Nat) (h : JWInv r) : JWInv (r.userPut id data) := h.userPut id data

/-- … a user delete, … -/
theorem C14_inject_inv_delObj (r : R) (id : Nat) (h : JWInv r) : JWInv (r.delObj id) := h.delObj id

/-- … a foreign status write on an object that is not in Error state, … -/
theorem C14_inject_inv_touch_not_error (r : R) (id : Nat) (h : JWInv r) (hne : ∀ o, r.get id = some o → o.kind ≠ .error) :
    JWInv (r.touch id) := h.touch id hne

/-- … switching failures, … -/
theorem C14_inject_inv_set_failing (r : R) (l : List Nat) (h : JWInv r) : JWInv { r with failing := l } := h.setFailing l

/-- … queueing ANY write (`put`, `del`, `touch`, for any id) to land from inside the Update of object `k`, … -/
theorem C14_inject_inv_queue_inject (r : R) (k : Nat) (a : Inject) (h : JWInv r) :
    JWInv { r with injects := r.injects ++ [(k, a)] } := h.setInjects _

/-- … **one reconciliation round with arbitrary writes landing during its Updates**
    (`put` / `del`: any; `touch`: not on an Error object, `roundSafe`), … -/
theorem C14_inject_inv_round (r : R) (h : JWInv r) (hs : r.roundSafe) : JWInv r.round := h.round hs

/-- the hypothesis on `touch` holds outright when only `put` / `del` writes are queued;
    a round queues nothing new -/
theorem C14_inject_no_touch_is_safe (r : R) (hn : NoTouch r.injects) :
    r.roundSafe ∧ NoTouch r.round.injects ∧ (∀ fuel, r.quiesceSafe fuel) :=
  ⟨(round_safe_of_noTouch r hn).1, (round_safe_of_noTouch r hn).2.noTouch hn, fun fuel => quiesceSafe_of_noTouch fuel r hn⟩

/-- … one round with only `put` / `del` writes queued (no hypothesis at all), … -/
theorem C14_inject_inv_round_put_del (r : R) (h : JWInv r) (hn : NoTouch r.injects) : JWInv r.round :=
  h.round (round_safe_of_noTouch r hn).1

/-- … the timer firing, time passing, … -/
theorem C14_inject_inv_fire_tick (r : R) (h : JWInv r) (t : Nat) (ht : r.now ≤ t) :
    JWInv r.fireTimer ∧ JWInv { r with now := t } := ⟨h.fireTimer, h.setNow t ht⟩

/-- … running the loop until it goes idle or the fuel ends, … -/
theorem C14_inject_inv_quiesce (r : R) (fuel : Nat) (h : JWInv r) (hs : r.quiesceSafe fuel) : JWInv (r.quiesce fuel) :=
  h.quiesceS fuel hs

/-- … and letting time pass. -/
theorem C14_inject_inv_advance (r : R) (ms fuel : Nat) (h : JWInv r) (hs : r.advanceSafe ms fuel) : JWInv (r.advance ms fuel) :=
  h.advanceS ms fuel hs

/-- with only `put` / `del` writes queued `quiesce` and `advance` need no hypothesis -/
theorem C14_inject_inv_quiesce_advance_put_del (r : R) (h : JWInv r) (hn : NoTouch r.injects) (ms fuel : Nat) :
    JWInv (r.quiesce fuel) ∧ JWInv (r.advance ms fuel) := ⟨(h.quiesce hn fuel).1, (h.advance hn ms fuel).1⟩

/-- hence it holds in every state reachable with writes during Updates -/
theorem C14_inject_inv_reachable {r : R} (h : C14InjReachable r) : JWInv r := by
  induction h with
  | init c => exact JWInv.init c
  | put id data _ ih => exact ih.userPut id data
  | del id _ ih => exact ih.delObj id
  | touch id _ hne ih => exact ih.touch id hne
  | fail l _ ih => exact ih.setFailing l
  | inject k a _ ih => exact ih.setInjects _
  | round _ hs ih => exact ih.round hs
  | fire _ ih => exact ih.fireTimer
  | tick t _ ht ih => exact ih.setNow t ht
  | quiesce fuel _ hs ih => exact ih.quiesceS fuel hs
  | advance ms fuel _ hs ih => exact ih.advanceS ms fuel hs

/-- every state of `C14Reachable` is reachable here (nothing is queued there) -/
theorem C14_inject_reachable_of_reachable {r : R} (h : C14Reachable r) : C14InjReachable r ∧ r.injects = [] := by
  induction h with
  | init c => exact ⟨.init c, rfl⟩
  | put id data _ ih => exact ⟨.put id data ih.1, ih.2⟩
  | del id _ ih =>
    refine ⟨.del id ih.1, ?_⟩
    unfold R.delObj; split <;> exact ih.2
  | touch id _ hne ih =>
    refine ⟨.touch id ih.1 hne, ?_⟩
    unfold R.touch; split <;> exact ih.2
  | fail l _ ih => exact ⟨.fail l ih.1, ih.2⟩
  | @quiesce r0 fuel _ ih =>
    have hn : NoTouch r0.injects := noTouch_nil ih.2
    exact ⟨.quiesce fuel ih.1 (quiesceSafe_of_noTouch fuel _ hn), quiesce_injects_nil fuel _ ih.2⟩
  | @advance r0 ms fuel _ ih =>
    have hn : NoTouch r0.injects := noTouch_nil ih.2
    exact ⟨.advance ms fuel ih.1 (advanceSafe_of_noTouch fuel _ ms hn (C14_inject_inv_reachable ih.1)), advance_injects_nil fuel _ ms ih.2⟩

/-! ## nothing is forgotten -/

/-- **nothing is forgotten** (between any two rounds, whatever landed during the
    Updates): the statement of `C14_inv_nothing_forgotten`, verbatim, from the
    weaker invariant.  Every live object is Done and the last call logged for it
    is a successful Update with its current data, or it still is to be delivered
    to the loop (Pending, revision beyond the iterator), or it is Error and a
    retry of exactly this version is queued, due within the maximal backoff;
    every retained deletion is still to be delivered, or its Delete is queued for
    a retry, or the last call logged for it is a successful Delete. -/
theorem C14_inject_inv_nothing_forgotten {r : R} (h : JWInv r) :
    (∀ o ∈ r.objs,
      (o.kind = .done ∧ lastCall r.log o.id = some ⟨"U", o.id, o.data, true⟩) ∨
      ((o.kind = .pending ∨ o.kind = .refreshing) ∧ o.rev > r.itRev) ∨
      (o.kind = .error ∧ ∃ it ∈ r.items, it.id = o.id ∧ it.delete = false ∧ it.rev = o.rev ∧ it.inQueue = true ∧
        it.retryAt ≤ r.now + r.cfg.maxB)) ∧
    (∀ d ∈ r.dels,
      d.2 > r.itDelRev ∨
      (∃ it ∈ r.items, it.id = d.1.id ∧ it.delete = true ∧ it.inQueue = true ∧ it.retryAt ≤ r.now + r.cfg.maxB) ∨
      (∃ c, lastCall r.log d.1.id = some c ∧ c.op = "D" ∧ c.ok = true)) := by
  refine ⟨fun o ho => ?_, fun d hd => ?_⟩
  · obtain ⟨a, b, c⟩ := h.rinv.inv.objOK o ho
    cases hk : o.kind with
    | done => exact Or.inl ⟨rfl, (a hk).1⟩
    | error =>
      rcases b hk with ⟨it, hit, b1, b2, b3, b4⟩ | ⟨res, hres, _⟩
      · exact Or.inr (Or.inr ⟨rfl, it, hit, b1, b2, b3, b4, h.q.times it hit⟩)
      · cases hres
    | pending =>
      rcases c (Or.inl hk) with c | ⟨res, hres, _⟩
      · exact Or.inr (Or.inl ⟨Or.inl rfl, c⟩)
      · cases hres
    | refreshing =>
      rcases c (Or.inr hk) with c | ⟨res, hres, _⟩
      · exact Or.inr (Or.inl ⟨Or.inr rfl, c⟩)
      · cases hres
  · rcases h.rinv.inv.delOK d hd with a | ⟨it, hit, b1, b2, b3⟩ | a
    · exact Or.inl a
    · exact Or.inr (Or.inl ⟨it, hit, b1, b2, b3, h.q.times it hit⟩)
    · exact Or.inr (Or.inr a.1)

/-- what remains of `C14_inv_timer_armed_for_head`: the retry timer is armed
    exactly for the earliest QUEUED retry (or has fired for one that is due), no
    retry time lies later than the maximal backoff from now; an item outside the
    time queue belongs to an object whose newer version (or deletion) is still to
    be delivered to the loop, which will clear it -/
theorem C14_inject_inv_timer_armed_for_head {r : R} (h : JWInv r) :
    (∀ hd, r.head = some hd → r.timer = .armed hd.retryAt ∨ (r.timer = .fired ∧ hd.retryAt ≤ r.now)) ∧
    (r.head = none → r.timer = .none ∨ r.timer = .stopped) ∧
    (∀ it ∈ r.items, it.retryAt ≤ r.now + r.cfg.maxB ∧
      (it.inQueue = false →
        (∃ o ∈ r.objs, o.id = it.id ∧ o.rev > r.itRev ∧ (o.kind = .pending ∨ o.kind = .refreshing)) ∨
        (∃ d ∈ r.dels, d.1.id = it.id ∧ d.2 > r.itDelRev))) := by
  refine ⟨h.q.tmSome, h.q.tmNone, fun it hit => ⟨h.q.times it hit, fun hq => ?_⟩⟩
  rcases (h.rinv.inv.itemOK it hit).2.2.1 hq with a | ⟨_, _, res, hres, _⟩
  · exact a
  · cases hres

/-- in an IDLE state every retry item is queued and nothing is left to be
    delivered: every live object is Done with the target or Error with a queued
    retry, every retained deletion was applied or has a queued retry -/
theorem C14_inject_idle_nothing_forgotten {r : R} (h : JWInv r) (hidle : r.triggered = false) :
    (∀ it ∈ r.items, it.inQueue = true) ∧
    (∀ o ∈ r.objs,
      (o.kind = .done ∧ lastCall r.log o.id = some ⟨"U", o.id, o.data, true⟩) ∨
      (o.kind = .error ∧ ∃ it ∈ r.items, it.id = o.id ∧ it.delete = false ∧ it.rev = o.rev ∧ it.inQueue = true)) ∧
    (∀ d ∈ r.dels,
      (∃ c, lastCall r.log d.1.id = some c ∧ c.op = "D" ∧ c.ok = true) ∨
      (∃ it ∈ r.items, it.id = d.1.id ∧ it.delete = true ∧ it.inQueue = true)) := by
  have hq := h.rinv.idle_items_queued hidle
  have hc : (∀ o ∈ r.objs, o.rev ≤ r.itRev) ∧ (∀ d ∈ r.dels, d.2 ≤ r.itDelRev) := by
    obtain ⟨hp, href, _, _⟩ := not_triggered hidle
    obtain ⟨s1, s2⟩ := h.rinv.sync hp
    refine ⟨fun o ho => ?_, fun d hd => ?_⟩
    · rcases s1 o ho with a | a
      · exact a
      · have := h.rinv.inv.tinv.objs_le o ho; omega
    · rcases s2 d hd with a | a
      · exact a
      · have := h.rinv.inv.tinv.dels_le d hd; omega
  obtain ⟨n1, n2⟩ := C14_inject_inv_nothing_forgotten h
  refine ⟨hq, fun o ho => ?_, fun d hd => ?_⟩
  · rcases n1 o ho with a | ⟨_, a⟩ | ⟨a, it, hit, b1, b2, b3, b4, _⟩
    · exact Or.inl a
    · have := hc.1 o ho; omega
    · exact Or.inr ⟨a, it, hit, b1, b2, b3, b4⟩
  · rcases n2 d hd with a | ⟨it, hit, b1, b2, b3, _⟩ | a
    · have := hc.2 d hd; omega
    · exact Or.inr ⟨it, hit, b1, b2, b3⟩
    · exact Or.inl a

/-! ## finding: `WInv` as stated is not preserved by a `put` landing during an Update -/

/-- object 1 is put, its Update fails: Error, a retry is queued (due at 200) -/
def c14jA : R := ({ (({} : R).userPut 1 7) with failing := [1] } : R).quiesce 10

/-- object 2 is put; the test's Update(2) will Insert a new version of object 1; time passes (the retry of 1 is due) -/
def c14jB : R := { ({ (c14jA.userPut 2 5) with injects := (c14jA.userPut 2 5).injects ++ [(2, Inject.put 1 99)] } : R) with now := 500 }

/-- one round: Update(2) runs and rewrites object 1; then the due retry of object 1
    runs with the OLD object, fails, its result is dropped -/
def c14jC : R := c14jB.fireTimer.round

theorem c14jC_reachable : C14InjReachable c14jC :=
  .round (.fire (.tick 500 (.inject 2 (.put 1 99) (.put 2 5 (.quiesce 10 (.fail [1] (.put 1 7 (.init {})))
    (quiesceSafe_of_noTouch 10 _ (by decide))))) (by decide +kernel)))
    (round_safe_of_noTouch _ (by decide +kernel)).1

/-- **`WInv` refuted with a write during an Update** (put 1; Update(1) fails; put 2
    with the inject "Update(2) puts object 1"; 500 ms later one round): in the
    reachable between-round state `c14jC` nothing is queued to land any more, the
    retry item of object 1 is in the retry map but NOT in the time queue (the real
    `retries.Pop` / dropped `commitStatus` leave it exactly so), so `WInv` — which
    implies that every item is queued — fails.  Benign: object 1 is Pending beyond
    the iterator, the next round's change clears the item. -/
theorem C14_inject_winv_refuted :
    C14InjReachable c14jC ∧ c14jC.injects = [] ∧ c14jC.items.map (fun i => (i.id, i.inQueue)) = [(1, false)] ∧
    c14jC.objs.map (fun o => (o.id, o.data, o.kind, o.rev)) = [(1, 99, .pending, 4), (2, 5, .done, 5)] ∧ c14jC.itRev = 3 ∧
    ¬ WInv c14jC := by
  refine ⟨c14jC_reachable, by decide +kernel, by decide +kernel, by decide +kernel, by decide +kernel, fun hw => ?_⟩
  have hq := hw.rinv.items_queued
  have hi : c14jC.items.map (fun i => i.inQueue) = [false] := by decide +kernel
  generalize c14jC.items = l at hq hi
  cases l with
  | nil => simp at hi
  | cons it tl =>
    have := hq it (List.mem_cons_self ..)
    simp only [List.map_cons, List.cons.injEq] at hi
    rw [hi.1] at this; cases this

/-! ## convergence once the user stopped writing -/

/-- where nothing is queued to land and every retry item is in the time queue
    (every idle state: `C14_inject_idle_nothing_forgotten`), `JWInv` IS `WInv` -/
theorem C14_inject_winv_when_items_queued {r : R} (h : JWInv r) (hinj : r.injects = [])
    (hq : ∀ it ∈ r.items, it.inQueue = true) : WInv r := h.toWInv hinj hq

/-- **progress.**  Once nothing fails and nothing is queued to land during an
    Update any more, every triggered round strictly decreases the measure `Mz`
    of `C14_round_decreases_measure` — from any state satisfying `JWInv`, i.e.
    also with retry items left outside the time queue by earlier writes -/
theorem C14_inject_round_decreases_measure {r : R} (h : JWInv r) (hf : r.failing = []) (hinj : r.injects = [])
    (hrs : 1 ≤ r.cfg.roundSize) (htr : r.triggered = true) : Mz r.round < Mz r :=
  mz_roundJ h.rinv h.q hf hinj hrs htr

/-- hence `quiesce` reaches an idle state when its fuel exceeds
    3·(2·#objects + #retained deletions + 2·#retry items) + 2, whatever the round size;
    the idle state satisfies `WInv` -/
theorem C14_inject_quiesce_goes_idle {r : R} (h : JWInv r) (hf : r.failing = []) (hinj : r.injects = [])
    (hrs : 1 ≤ r.cfg.roundSize) (fuel : Nat)
    (hfuel : 3 * (2 * r.objs.length + r.dels.length + 2 * r.items.length) + 2 < fuel) :
    (r.quiesce fuel).triggered = false ∧ WInv (r.quiesce fuel) := by
  have hidle := (h.toJSInv hf hinj).quiesce_idle hrs fuel (by have := mz_le_sizes r; omega)
  have hn := noTouch_nil hinj
  exact ⟨hidle, ((h.quiesce hn fuel).1).toWInv_of_idle (quiesce_injects_nil fuel r hinj) hidle⟩

/-- **convergence once the user stopped writing, also during Updates.**  From ANY
    state satisfying the invariant of the runs with writes during Updates in
    which nothing fails (`failing = []`) and nothing is queued to land
    (`injects = []`): at any time `T` later than the maximal backoff from now,
    running the loop with fuel beyond 3·(2·#objects + #deletions + 2·#retries) + 2
    ends idle with target = table: every live object is Done and its last logged
    call is a successful Update with its current data, the last logged call of
    every retained deletion is a successful Delete, no retry is left, the retry
    low-watermark is 0; and the final state satisfies `WInv`, so every theorem
    of `Props/C14.lean` applies from there on.  Any round size ≥ 1, any backoff. -/
theorem C14_inject_converged_quiesce {r : R} (h : JWInv r) (hf : r.failing = []) (hinj : r.injects = [])
    (hrs : 1 ≤ r.cfg.roundSize) (T fuel : Nat) (hT : r.now + r.cfg.maxB < T)
    (hfuel : 3 * (2 * r.objs.length + r.dels.length + 2 * r.items.length) + 2 < fuel) :
    let f := ({ r with now := T } : R).quiesce fuel
    f.triggered = false ∧
    (∀ o ∈ f.objs, o.kind = .done ∧ lastCall f.log o.id = some ⟨"U", o.id, o.data, true⟩) ∧
    (∀ d ∈ f.dels, ∃ c, lastCall f.log d.1.id = some c ∧ c.op = "D" ∧ c.ok = true) ∧
    f.items = [] ∧ f.lowWatermark = 0 ∧ WInv f := by
  intro f
  have h0 : JSInv (r.now + r.cfg.maxB) ({ r with now := T } : R) := (h.toJSInv hf hinj).setNow T (by omega)
  have hidle := h0.quiesce_idle (r := { r with now := T }) hrs fuel (by have := mz_le_sizes r; exact Nat.lt_of_le_of_lt this hfuel)
  obtain ⟨h1, e1, _⟩ := h0.quiesce fuel
  obtain ⟨c1, c2, c3, c4⟩ := h1.idle_converged (by rw [e1]; exact hT) hidle
  have hw : JWInv ({ r with now := T } : R) := h.setNow T (by omega)
  have hW : WInv f := ((hw.quiesce (noTouch_nil hinj) fuel).1).toWInv_of_idle (quiesce_injects_nil fuel _ hinj) hidle
  exact ⟨hidle, c1, c2, c3, c4, hW⟩

/-- **the corollary for the reachable states**: once `failing = []` and
    `injects = []`, the convergence theorem applies from every state reachable
    with writes during Updates -/
theorem C14_inject_converges_after_writes_stop {r : R} (h : C14InjReachable r) (hf : r.failing = []) (hinj : r.injects = [])
    (hrs : 1 ≤ r.cfg.roundSize) (T fuel : Nat) (hT : r.now + r.cfg.maxB < T)
    (hfuel : 3 * (2 * r.objs.length + r.dels.length + 2 * r.items.length) + 2 < fuel) :
    let f := ({ r with now := T } : R).quiesce fuel
    f.triggered = false ∧
    (∀ o ∈ f.objs, o.kind = .done ∧ lastCall f.log o.id = some ⟨"U", o.id, o.data, true⟩) ∧
    (∀ d ∈ f.dels, ∃ c, lastCall f.log d.1.id = some c ∧ c.op = "D" ∧ c.ok = true) ∧
    f.items = [] ∧ f.lowWatermark = 0 ∧ WInv f :=
  C14_inject_converged_quiesce (C14_inject_inv_reachable h) hf hinj hrs T fuel hT hfuel

/-- the same through `advance`, given the final state is idle (as `C14_converged_when_idle`) -/
theorem C14_inject_converged_when_idle {r : R} (h : JWInv r) (hf : r.failing = []) (hinj : r.injects = [])
    (ms fuel : Nat) (hms : r.cfg.maxB < ms) (hidle : (r.advance ms fuel).triggered = false) :
    (∀ o ∈ (r.advance ms fuel).objs, o.kind = .done ∧
      lastCall (r.advance ms fuel).log o.id = some ⟨"U", o.id, o.data, true⟩) ∧
    (∀ d ∈ (r.advance ms fuel).dels, ∃ c, lastCall (r.advance ms fuel).log d.1.id = some c ∧ c.op = "D" ∧ c.ok = true) ∧
    (r.advance ms fuel).items = [] ∧ (r.advance ms fuel).lowWatermark = 0 := by
  have hn := noTouch_nil hinj
  have hj : ∀ (n : Nat) (x : R) (m : Nat), JSInv (r.now + r.cfg.maxB) x → JSInv (r.now + r.cfg.maxB) (x.advance m n) ∧ (x.advance m n).now = x.now + m := by
    intro n
    induction n with
    | zero => intro x m hx; exact ⟨hx.setNow _ (by omega), rfl⟩
    | succ n ihn =>
      intro x m hx
      unfold R.advance
      simp only
      split
      · rename_i t _
        split
        · obtain ⟨h1, e1, _⟩ := (hx.setNow (max t x.now) (by omega)).quiesce 64
          obtain ⟨h2, e2⟩ := ihn _ (x.now + m - (R.quiesce { x with now := max t x.now } 64).now) h1
          refine ⟨h2, ?_⟩
          rw [e2, e1]; simp only; omega
        · exact ⟨hx.setNow _ (by omega), rfl⟩
      · exact ⟨hx.setNow _ (by omega), rfl⟩
  obtain ⟨hs, hnow⟩ := hj fuel r ms (h.toJSInv hf hinj)
  exact hs.idle_converged (by rw [hnow]; omega) hidle

/-- from an IDLE state reachable with writes during Updates in which nothing fails and
    nothing is queued, the `advance` theorems of `Props/C14.lean` apply verbatim
    (`WInv` holds there): the loop is idle after more than the maximal backoff and
    target = table (PARTIAL in the sense of `C14_converged_advance_partial`: at most
    10 queued retries, because of the inner fuel 64 of `Model.Reconciler.advance`) -/
theorem C14_inject_converged_advance_partial {r : R} (h : JWInv r) (hf : r.failing = []) (hinj : r.injects = [])
    (hrs : 1 ≤ r.cfg.roundSize) (hidle : r.triggered = false) (ms fuel : Nat) (hms : r.cfg.maxB < ms)
    (h64 : 6 * r.items.length < 64) (hfuel : 6 * r.items.length < fuel) :
    (r.advance ms fuel).triggered = false ∧
    (∀ o ∈ (r.advance ms fuel).objs, o.kind = .done ∧
      lastCall (r.advance ms fuel).log o.id = some ⟨"U", o.id, o.data, true⟩) ∧
    (∀ d ∈ (r.advance ms fuel).dels, ∃ c, lastCall (r.advance ms fuel).log d.1.id = some c ∧ c.op = "D" ∧ c.ok = true) ∧
    (r.advance ms fuel).items = [] ∧ (r.advance ms fuel).lowWatermark = 0 :=
  C14_converged_advance_partial (h.toWInv_of_idle hinj hidle) hf hrs hidle ms fuel hms h64 hfuel

/-! ## the hypothesis on `touch` is necessary (known finding K4, from inside an Update) -/

/-- object 1 is Error with a queued retry (`c14jA`); object 2 is put, and the test's
    Update(2) lets a foreign writer touch object 1; failures stop -/
def c14jK4 : R := { ({ (c14jA.userPut 2 5) with injects := (c14jA.userPut 2 5).injects ++ [(2, Inject.touch 1)] } : R) with failing := [] }

/-- **refuted without `roundSafe`**: the state is reachable, the hypothesis fails
    for its round, and after that round (the `touch` landed on the Error object
    during Update(2)), with nothing failing and nothing queued any more, the loop
    run far beyond the maximal backoff is idle with NO retry left and object 1
    Error for ever — so no invariant implying convergence survives that round -/
theorem C14_inject_touch_on_error_refuted :
    C14InjReachable c14jK4 ∧ ¬ c14jK4.fireTimer.roundSafe ∧
    (let f := ({ c14jK4.fireTimer.round with now := 5000 } : R).quiesce 30
     f.triggered = false ∧ f.failing = [] ∧ f.injects = [] ∧ f.items.length = 0 ∧ f.objs.map (·.kind) = [.error, .done]) ∧
    ¬ (∀ r : R, JWInv r → JWInv r.round) := by
  have hr : C14InjReachable c14jK4 :=
    .fail [] (.inject 2 (.touch 1) (.put 2 5 (.quiesce 10 (.fail [1] (.put 1 7 (.init {}))) (quiesceSafe_of_noTouch 10 _ (by decide)))))
  refine ⟨hr, by decide +kernel, by decide +kernel, fun hall => ?_⟩
  have h1 : JWInv c14jK4.fireTimer.round := hall _ (C14_inject_inv_reachable hr).fireTimer
  have hc := C14_inject_converged_quiesce h1 (by decide +kernel) (by decide +kernel) (by decide +kernel) 5000 30
    (by decide +kernel) (by decide +kernel)
  have hk := hc.2.1
  have hl : (({ c14jK4.fireTimer.round with now := 5000 } : R).quiesce 30).objs.map (·.kind) = [.error, .done] := by decide +kernel
  generalize (({ c14jK4.fireTimer.round with now := 5000 } : R).quiesce 30).objs = l at hk hl
  cases l with
  | nil => simp at hl
  | cons o tl =>
    have := (hk o (List.mem_cons_self ..)).1
    simp only [List.map_cons, List.cons.injEq] at hl
    rw [hl.1] at this; cases this

/-! ## non-vacuity -/

/-- a reachable, non-trivial state with writes that landed during Updates: object 1
    was rewritten from inside Update(2) while Error, object 3 was deleted from
    inside its own Update, a `touch` of object 2 landed during Update(2) itself -/
def c14jEx : R :=
  let r : R := { (c14jA.userPut 2 5).userPut 3 6 with injects := [(2, Inject.put 1 99), (3, Inject.del 3), (2, Inject.touch 2)], now := 500 }
  r.fireTimer.round

example : c14jEx.objs.map (fun o => (o.id, o.data, o.kind, o.other)) = [(1, 99, .pending, 0), (2, 5, .done, 1)] ∧
    c14jEx.dels.map (fun d => d.1.id) = [3] ∧ c14jEx.injects = [] := by decide +kernel

/-- the hypothesis `roundSafe` is satisfiable with a `touch` queued (here it lands on a Pending object) -/
example : ({ (c14jA.userPut 2 5).userPut 3 6 with injects := [(2, Inject.put 1 99), (3, Inject.del 3), (2, Inject.touch 2)], now := 500 } : R).fireTimer.roundSafe := by
  decide +kernel

/-- the hypotheses of `C14_inject_converges_after_writes_stop` are satisfiable on the state of the finding -/
example : C14InjReachable ({ c14jC with failing := [] } : R) ∧ ({ c14jC with failing := [] } : R).failing = [] ∧
    ({ c14jC with failing := [] } : R).injects = [] ∧ 1 ≤ ({ c14jC with failing := [] } : R).cfg.roundSize ∧
    ({ c14jC with failing := [] } : R).now + ({ c14jC with failing := [] } : R).cfg.maxB < 2000 ∧
    3 * (2 * ({ c14jC with failing := [] } : R).objs.length + ({ c14jC with failing := [] } : R).dels.length +
      2 * ({ c14jC with failing := [] } : R).items.length) + 2 < 30 :=
  ⟨.fail [] c14jC_reachable, rfl, by decide +kernel, by decide +kernel, by decide +kernel, by decide +kernel⟩

/-- … and its conclusion, computed: target = table -/
example : ((({ c14jC with failing := [], now := 2000 } : R).quiesce 30).objs.map fun o => (o.id, o.data, o.kind)) = [(1, 99, .done), (2, 5, .done)] := by
  decide +kernel

/-- the structural facts about reconciler/incremental.go and reconciler/retries.go that the model
    builds in — the order of a round's phases (changes, status commit, due retries, status commit) and the
    processing conditions that `R.round` builds in — hold of the source as it is today (regenerated by `tools/extract` on every run) -/
theorem C14_inject_source_facts : Gen.recFacts = Rec.expectedFacts := by decide

end Sdb
