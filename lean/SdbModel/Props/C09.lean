import SdbModel.Generated.TableParams
import SdbModel.Lemmas.Table

/-!
# C09 — table revisions: monotone, assigned in strictly increasing order, distinct per object

> A table's revision is constant within a snapshot and never decreases from one committed state
> to the next; every successful insert, modify or delete is assigned a revision strictly greater
> than every revision assigned before in that table, and the table revision equals the revision
> of its latest successful write, while no-op deletes, rejected compare-and-swap/delete
> operations and aborted transactions leave it unchanged.  Live objects have pairwise distinct
> revisions, the revision reported with an object is the one assigned by the write that produced
> that version, and querying by revision yields objects in ascending revision order.

Theorems over `Model.Table` (`Tbl.modify`, `Tbl.delete`, `Tbl.deleteAll`, `DB.beginW/commit/abort`)
for EVERY table satisfying the invariant `Tbl.TInv` of `Lemmas/Table.lean` and every argument.
`TInv` holds for the empty table, is preserved by every operation and therefore holds in every
reachable state (`C09_inv_reachable`, `C09_db_inv_reachable`; the preservation theorems are also
listed under C03).  The step-level facts (`+1` exactly on success, unchanged otherwise) need no
invariant at all.  The only side condition is that the counters stay below `2^64` (Go `uint64`),
under which `revKey` (8 bytes big-endian) is injective and monotone.

A snapshot is a value `List TableS` (`db.root`) in this model, so "constant within a snapshot" is
the statement that no operation of an open write transaction touches `db.root`
(`C09_snapshot_untouched_by_open_txn`).
-/
namespace Sdb
open Tbl Tbl.OMap

/-! ## the invariant in every reachable state -/

theorem C09_inv_reachable (t : TableS) (inv : TInv t) (ops : List Op) (hb : (run t ops).rev < 2 ^ 64) :
    TInv (run t ops) := inv.run ops hb

theorem C09_db_inv_reachable (db : DB) (h : Reach db) : DInv db := h.inv

/-! ## one operation: `+1` exactly on success, unchanged otherwise -/

/-- a successful Insert / Modify / CompareAndSwap raises the table revision by exactly one, and the
    version it stored (read back with Get) carries exactly the new table revision -/
theorem C09_modify_assigns_next_revision (t : TableS) (guard : Nat) (o : Obj) (merge : Bool)
    (h : (modify t guard o merge).2.2 = .ok) :
    (modify t guard o merge).1.rev = t.rev + 1 ∧
    ∃ x, qGet (modify t guard o merge).1 .id o.id 0 = some x ∧ x.rev = (modify t guard o merge).1.rev := by
  simp only [qGet]
  rcases modify_cases t guard o merge with ⟨_, h'⟩ | ⟨_, _, _, h'⟩ | ⟨_, _, oo, _, _, h'⟩ | ⟨_, _, t', h', hm⟩
  · rw [h'] at h; simp at h
  · rw [h'] at h; simp at h
  · rw [h'] at h; simp at h
  · rw [h']
    refine ⟨hm.rev, newObj t o merge, ?_, ?_⟩
    · simp only; rw [hm.primary, get_insert_self]
    · simp [hm.rev]

/-- a rejected modify (table not held, object not found, revision mismatch) leaves the revision
    — indeed the whole table — unchanged -/
theorem C09_rejected_modify_keeps_revision (t : TableS) (guard : Nat) (o : Obj) (merge : Bool)
    (h : (modify t guard o merge).2.2 ≠ .ok) :
    (modify t guard o merge).1 = t ∧ (modify t guard o merge).1.rev = t.rev := by
  rcases modify_rev_cases t guard o merge with ⟨h', _⟩ | ⟨_, h'⟩
  · exact absurd h' h
  · exact ⟨h', by rw [h']⟩

/-- a Delete / CompareAndDelete that removes an object raises the table revision by exactly one;
    if delete trackers are registered the graveyard copy of the object carries exactly the new
    table revision (in both graveyard indexes) -/
theorem C09_delete_assigns_next_revision (t : TableS) (guard : Nat) (id : Key) (old : Obj)
    (hold : qGet t .id id 0 = some old) (h : (delete t guard id).2.2 = .ok) :
    (delete t guard id).1.rev = t.rev + 1 ∧
    (t.trackers ≠ [] →
      (delete t guard id).1.grave.get id = some { old with rev := (delete t guard id).1.rev } ∧
      (delete t guard id).1.graveRev.get (revKey (delete t guard id).1.rev)
        = some { old with rev := (delete t guard id).1.rev }) := by
  simp only [qGet] at hold
  rcases delete_cases t guard id with ⟨_, h'⟩ | ⟨_, hn, h'⟩ | ⟨_, _, old', _, _, h'⟩ | ⟨_, old', ho', _, t', h', hd⟩
  · rw [h'] at h; simp at h
  · rw [hn] at hold; simp at hold
  · rw [h'] at h; simp at h
  · rw [hold] at ho'; simp only [Option.some.injEq] at ho'; subst ho'
    rw [h']
    refine ⟨hd.rev, ?_⟩
    intro ht
    have ⟨g1, g2⟩ := hd.graveTracker ht
    simp only
    rw [g1, g2, hd.rev, get_insert_self, get_insert_self]
    exact ⟨rfl, rfl⟩

/-- a no-op delete (object absent) leaves the table, hence its revision, unchanged -/
theorem C09_noop_delete_keeps_revision (t : TableS) (guard : Nat) (id : Key)
    (hn : qGet t .id id 0 = none) : (delete t guard id).1 = t := by
  simp only [qGet] at hn
  rcases delete_cases t guard id with ⟨_, h'⟩ | ⟨_, _, h'⟩ | ⟨_, _, old', _, _, h'⟩ | ⟨_, old', ho', _, t', h', hd⟩
  · rw [h']
  · rw [h']
  · rw [h']
  · rw [hn] at ho'; simp at ho'

/-- a rejected delete (table not held, revision mismatch) leaves the table, hence its revision, unchanged -/
theorem C09_rejected_delete_keeps_revision (t : TableS) (guard : Nat) (id : Key)
    (h : (delete t guard id).2.2 ≠ .ok) : (delete t guard id).1 = t := by
  rcases delete_cases t guard id with ⟨_, h'⟩ | ⟨_, _, h'⟩ | ⟨_, _, old', _, _, h'⟩ | ⟨_, old', ho', _, t', h', hd⟩
  · rw [h']
  · rw [h']
  · rw [h']
  · rw [h'] at h; simp at h

/-- DeleteAll on a held table assigns one revision per object (the table revision grows by the
    number of objects); on a table that is not held it changes nothing -/
theorem C09_deleteAll_revision (t : TableS) (inv : TInv t) :
    (t.locked = true → (deleteAll t).1.rev = t.rev + numObjects t) ∧
    (t.locked = false → (deleteAll t).1 = t) := by
  constructor
  · intro hl
    rw [deleteAll_rev t hl inv.sortedP, inv.numObjects]
    simp [qAll]
  · exact deleteAll_unlocked_eq t

/-- no operation ever lowers the table revision -/
theorem C09_table_revision_never_decreases (t : TableS) (guard : Nat) (o : Obj) (merge : Bool) (id : Key) :
    t.rev ≤ (modify t guard o merge).1.rev ∧ t.rev ≤ (delete t guard id).1.rev ∧ t.rev ≤ (deleteAll t).1.rev :=
  ⟨modify_rev_mono t guard o merge, (delete_rev_le t guard id).1, deleteAll_rev_mono t⟩

/-! ## live objects: revisions bounded by the table revision and pairwise distinct -/

/-- every live object has a positive revision that is at most the table revision -/
theorem C09_live_revision_le_table_revision (t : TableS) (inv : TInv t) (x : Obj) (hx : x ∈ qAll t) :
    0 < x.rev ∧ x.rev ≤ t.rev := by
  have := (inv.mem_qAll x).mp hx
  exact ⟨inv.revPos _ _ this, inv.revLe _ _ this⟩

/-- live objects have pairwise distinct revisions -/
theorem C09_live_revisions_distinct (t : TableS) (inv : TInv t) (x y : Obj) (hx : x ∈ qAll t) (hy : y ∈ qAll t)
    (h : x.rev = y.rev) : x = y := by
  have h1 := (inv.mem_qAll x).mp hx
  have h2 := (inv.mem_qAll y).mp hy
  have := inv.revInj _ _ _ _ h1 h2 h
  rw [this, h2] at h1
  simpa using h1.symm

/-- the revision assigned by a successful write is strictly greater than the revision of every
    object that was live before it (and than the previous table revision) -/
theorem C09_new_revision_above_all_live (t : TableS) (inv : TInv t) (guard : Nat) (o : Obj) (merge : Bool)
    (h : (modify t guard o merge).2.2 = .ok) (x : Obj) (hx : x ∈ qAll t) :
    x.rev < (modify t guard o merge).1.rev ∧ t.rev < (modify t guard o merge).1.rev := by
  have := (C09_live_revision_le_table_revision t inv x hx).2
  have := (C09_modify_assigns_next_revision t guard o merge h).1
  omega

/-! ## the revision reported with an object is the one assigned by the write that produced it -/

/-- the id an operation addresses -/
def Tbl.Op.id : Op → Key
  | .modify _ o _ => o.id
  | .delete _ i => i

/-- operations on other ids leave the stored version of `k` — object and revision — untouched -/
private theorem apply_get_other (t : TableS) (inv : TInv t) (op : Op) (k : Key) (hk : op.id ≠ k) :
    (op.apply t).1.primary.get k = t.primary.get k := by
  cases op with
  | modify g o m =>
    simp only [Op.apply]
    simp only [Op.id] at hk
    rcases modify_cases t g o m with ⟨_, h'⟩ | ⟨_, _, _, h'⟩ | ⟨_, _, oo, _, _, h'⟩ | ⟨_, _, t', h', hm⟩
    · rw [h']
    · rw [h']
    · rw [h']
    · rw [h']; simp only; rw [hm.primary, get_insert_other _ _ _ _ (Ne.symm hk)]
  | delete g i =>
    simp only [Op.apply]
    simp only [Op.id] at hk
    rcases delete_cases t g i with ⟨_, h'⟩ | ⟨_, _, h'⟩ | ⟨_, _, old', _, _, h'⟩ | ⟨_, old', ho', _, t', h', hd⟩
    · rw [h']
    · rw [h']
    · rw [h']
    · rw [h']; simp only; rw [hd.primary, get_erase_other _ inv.sortedP _ _ (Ne.symm hk)]

/-- **the revision reported with an object is the one assigned by the write that produced that
    version**: a successful write stores its version with the revision it was assigned
    (`C09_modify_assigns_next_revision`), and whatever is done afterwards to other ids, Get keeps
    returning that same version with that same revision -/
theorem C09_reported_revision_is_write_revision (t : TableS) (inv : TInv t) (guard : Nat) (o : Obj) (merge : Bool)
    (h : (modify t guard o merge).2.2 = .ok) (ops : List Op) (hother : ∀ op ∈ ops, op.id ≠ o.id)
    (hb : (run (modify t guard o merge).1 ops).rev < 2 ^ 64) :
    ∃ x, qGet (run (modify t guard o merge).1 ops) .id o.id 0 = some x ∧ x.rev = t.rev + 1 ∧
      x = newObj t o merge := by
  have key : ∀ (ops : List Op) (s : TableS), TInv s → (∀ op ∈ ops, op.id ≠ o.id) → (run s ops).rev < 2 ^ 64 →
      (run s ops).primary.get o.id = s.primary.get o.id := by
    intro ops
    induction ops with
    | nil => intro s _ _ _; rfl
    | cons op ops ih =>
      intro s invs hoth hbs
      simp only [run] at hbs ⊢
      have hm := run_rev_mono (op.apply s).1 ops
      have invs' := Op.apply_preserves invs op (by omega)
      rw [ih _ invs' (fun op' h' => hoth op' (List.mem_cons_of_mem _ h')) hbs]
      exact apply_get_other s invs op o.id (hoth op (List.mem_cons_self ..))
  have hb1 : (modify t guard o merge).1.rev < 2 ^ 64 := by
    have := run_rev_mono (modify t guard o merge).1 ops; omega
  have inv1 := inv.modify_preserves guard o merge hb1
  refine ⟨newObj t o merge, ?_, by simp, rfl⟩
  simp only [qGet]
  rw [key ops _ inv1 hother hb]
  rcases modify_cases t guard o merge with ⟨_, h'⟩ | ⟨_, _, _, h'⟩ | ⟨_, _, oo, _, _, h'⟩ | ⟨_, _, t', h', hm⟩
  · rw [h'] at h; simp at h
  · rw [h'] at h; simp at h
  · rw [h'] at h; simp at h
  · rw [h']; simp only; rw [hm.primary, get_insert_self]

/-- the revision index agrees with the primary index: looking a live object up by its
    revision returns that object, and nothing else is found by revision -/
theorem C09_get_by_revision (t : TableS) (inv : TInv t) (r : Nat) (hr : r < 2 ^ 64) (x : Obj) :
    qGet t .rev (revKey r) 0 = some x ↔ x ∈ qAll t ∧ x.rev = r := by
  simp only [qGet]
  rw [inv.revIdxChar, inv.mem_qAll]
  constructor
  · rintro ⟨h1, h2⟩
    have := inv.revLe _ _ h1
    have := inv.bound
    exact ⟨h1, (revKey_inj _ _ hr (by omega) h2).symm⟩
  · rintro ⟨h1, h2⟩
    exact ⟨h1, by rw [h2]⟩

/-! ## querying by revision -/

/-- **ByRevision(r) / LowerBound on the revision index yields strictly ascending revisions**, and
    exactly the live objects with revision ≥ r -/
theorem C09_query_by_revision_ascending (t : TableS) (inv : TInv t) (r : Nat) (hr : r < 2 ^ 64) :
    ((qLowerBound t .rev (revKey r) 0).map (·.rev)).Pairwise (· < ·) ∧
    ∀ x, x ∈ qLowerBound t .rev (revKey r) 0 ↔ x ∈ qAll t ∧ r ≤ x.rev := by
  rw [inv.qLowerBound_rev r hr]
  constructor
  · rw [List.pairwise_map]
    apply List.Pairwise.filter
    have := inv.revIdx_ascending
    rw [List.pairwise_map] at this
    rw [List.pairwise_map]
    exact this
  · intro x
    rw [List.mem_filter, inv.mem_revIdx_objs]
    simp

/-- the whole revision index lists every live object exactly once, in ascending revision order -/
theorem C09_revision_index_lists_all (t : TableS) (inv : TInv t) :
    (∀ x, x ∈ qLowerBound t .rev (revKey 0) 0 ↔ x ∈ qAll t) ∧
    (qLowerBound t .rev (revKey 0) 0).length = numObjects t := by
  have h := inv.qLowerBound_rev 0 (by decide)
  constructor
  · intro x
    rw [(C09_query_by_revision_ascending t inv 0 (by decide)).2 x]
    simp
  · rw [h, List.filter_eq_self.mpr (by intro a _; simp)]
    simp [numObjects]

/-! ## sequences of operations -/

/-- **every successful write is assigned a revision strictly greater than every revision assigned
    before in that table**: along ANY sequence of operations from ANY table state the assigned
    revisions (read back from the table after each successful write) are strictly increasing,
    all above the starting table revision and at most the final one -/
theorem C09_assigned_revisions_strictly_increasing (t : TableS) (ops : List Op) :
    (assignedRevs t ops).Pairwise (· < ·) ∧
    ∀ r ∈ assignedRevs t ops, t.rev < r ∧ r ≤ (run t ops).rev := assignedRevs_spec t ops

/-- **the table revision equals the revision of its latest successful write** (and is the
    starting revision if the sequence wrote nothing) -/
theorem C09_table_revision_is_latest_assigned (t : TableS) (ops : List Op) :
    match (assignedRevs t ops).getLast? with
    | some r => (run t ops).rev = r
    | none => (run t ops).rev = t.rev := run_rev_eq_last t ops

/-- what "assigned" means for one operation: exactly the next revision, which becomes the table
    revision, or nothing with the table unchanged -/
theorem C09_assigned_is_next_or_nothing (t : TableS) (op : Op) :
    (op.assigned t = some (t.rev + 1) ∧ (op.apply t).1.rev = t.rev + 1) ∨
    (op.assigned t = none ∧ (op.apply t).1 = t) := op.assigned_cases t

/-! ## snapshots, commit, abort -/

/-- **constant within a snapshot**: operations of the open write transaction (and Abort) never
    touch the committed tables `db.root` that snapshots read -/
theorem C09_snapshot_untouched_by_open_txn (db : DB) (ti guard idt : Nat) (o : Obj) (merge : Bool) (id : Key)
    (lm la : Bool) :
    (db.step (.modify ti guard o merge)).root = db.root ∧ (db.step (.delete ti guard id)).root = db.root ∧
    (db.step (.deleteAll ti)).root = db.root ∧ (db.step (.track ti idt)).root = db.root ∧
    (db.step (.beginW lm la)).root = db.root ∧ (db.step .abort).root = db.root := by
  refine ⟨?_, ?_, ?_, ?_, ?_, rfl⟩
  · simp only [DB.step, DB.wModify]; split <;> rfl
  · simp only [DB.step, DB.wDelete]; split <;> rfl
  · simp only [DB.step, DB.wDeleteAll]; split <;> rfl
  · simp only [DB.step, DB.wTrack]; split
    · rfl
    · split <;> rfl
  · simp only [DB.step]; split <;> rfl

/-- **an aborted transaction leaves the committed revision unchanged** -/
theorem C09_abort_keeps_revision (db : DB) : db.abort.root = db.root := rfl

/-- **never decreases from one committed state to the next**: Commit publishes for every table a
    revision that is at least the previously committed one -/
theorem C09_commit_revision_monotone (db : DB) (h : Reach db) (i : Nat) (r r' : TableS)
    (h1 : db.root[i]? = some r) (h2 : db.commit.root[i]? = some r') : r.rev ≤ r'.rev :=
  (step_root_rev_mono h.inv .commit).2 i r r' h1 h2

/-- the database after a sequence of operations -/
def Tbl.DB.steps (db : DB) (ops : List DbOp) : DB := ops.foldl DB.step db

/-- … and so along ANY sequence of database operations (transactions begun, written, committed
    or aborted): the committed revision of every table is monotone and the set of tables fixed -/
theorem C09_committed_revision_monotone_over_runs (db : DB) (inv : DInv db) (ops : List DbOp)
    (hb : ∀ n, (db.steps (ops.take n)).Bounded) :
    (db.steps ops).root.length = db.root.length ∧
    ∀ (i : Nat) (r r' : TableS), db.root[i]? = some r → (db.steps ops).root[i]? = some r' → r.rev ≤ r'.rev := by
  induction ops generalizing db with
  | nil =>
    refine ⟨rfl, ?_⟩
    intro i r r' h1 h2
    simp only [DB.steps, List.foldl_nil] at h2
    rw [h1] at h2; simp only [Option.some.injEq] at h2; subst h2; exact Nat.le_refl _
  | cons op ops ih =>
    have hb1 : (db.step op).Bounded := by simpa [DB.steps] using hb 1
    have inv1 := inv.step op hb1
    have ⟨hl1, hm1⟩ := step_root_rev_mono inv op
    have ⟨hl2, hm2⟩ := ih (db.step op) inv1 (fun n => by simpa [DB.steps] using hb (n + 1))
    have e : db.steps (op :: ops) = (db.step op).steps ops := rfl
    rw [e]
    refine ⟨by omega, ?_⟩
    intro i r r' h1 h2
    have hlt : i < (db.step op).root.length := by
      rw [hl1]
      rcases Nat.lt_or_ge i db.root.length with h' | h'
      · exact h'
      · rw [List.getElem?_eq_none h'] at h1; simp at h1
    have hmid : (db.step op).root[i]? = some (db.step op).root[i] := List.getElem?_eq_getElem hlt
    have := hm1 i r _ h1 hmid
    have := hm2 i _ r' hmid h2
    omega

/-! ## non-vacuity -/

private def oA : Obj := { id := [], val := 5, uvar := 0, tags := [], pfxs := [], up := false, ord := 0, rev := 0 }
private def oB : Obj := { id := [1, 2], val := 7, uvar := 1, tags := [[3]], pfxs := [], up := false, ord := 1, rev := 0 }
private def t0 : TableS := { locked := true, trackers := [1] }
private def opsEx : List Op := [.modify 0 oA false, .modify 0 oB false, .delete 5 [], .modify 1 oA true, .delete 0 [1, 2], .delete 0 [7]]

/-- the invariant holds on a concrete run … -/
example : TInv (run t0 opsEx) := C09_inv_reachable t0 (TInv.empty t0 rfl rfl (by decide)) opsEx (by decide)

/-- … whose assigned revisions are 1, 2, 3, 4 (two of the six operations are rejected / no-ops) -/
example : assignedRevs t0 opsEx = [1, 2, 3, 4] ∧ (run t0 opsEx).rev = 4 ∧
    (qAll (run t0 opsEx)).map (·.rev) = [3] := by decide

example : Reach (((newDB.step (.beginW true true)).step (.modify 1 0 oB false)).step .commit) :=
  Reach.step _ (Reach.step _ (Reach.step _ Reach.init (DB.bounded_of_boundedB _ (by decide)))
    (DB.bounded_of_boundedB _ (by decide))) (DB.bounded_of_boundedB _ (by decide))

/-- the structural facts about write_txn.go, graveyard.go, iterator.go and deletetracker.go that
    `Model.Table` builds in — where revisions are allocated and restored — hold of the source as it is today (regenerated by
    `tools/extract` on every run) -/
theorem C09_source_facts : Gen.tableFacts = Tbl.expectedFacts := by decide

end Sdb
