import SdbModel.Model.Table
/-! # C03 — theorems under construction (see DESIGN.md section 4) -/
namespace Sdb
end Sdb
