import SdbModel.Generated.TableParams
import SdbModel.Lemmas.Table

/-!
# C03 — the write operations act on a table as on a map keyed by primary key

> Within a write transaction and across committed transactions, Insert, InsertWatch, Modify,
> Delete, DeleteAll, CompareAndSwap and CompareAndDelete act on the table exactly as the same
> operations on a map keyed by primary key: they return the previous object or its absence and
> the documented error, a rejected operation (revision mismatch, object not found) changes
> nothing, and reads in the same transaction see its own earlier writes.  A write attempted on a
> table the transaction does not hold, or through a finished transaction, changes nothing, and
> Insert, Modify, Delete and the compare-and-* operations then report the documented error.

Theorems over `Model.Table` for EVERY table state satisfying the invariant `Tbl.TInv`
(`Lemmas/Table.lean`: both indexes sorted, objects stored under their own id, the revision index
mirrors the primary index, revisions bounded by the table revision and pairwise distinct) and
EVERY argument (all keys including the empty key, all guards, all objects).  `TInv` is proved
for the empty table and preserved by every operation (`C03_inv_*`), hence holds in every
reachable state of a table (`C03_inv_reachable`) and of the database (`C03_db_inv_reachable`).
`Tbl.modify t guard o merge` is Insert/InsertWatch (`guard = 0, merge = false`), Modify
(`merge = true`) and CompareAndSwap (`guard > 0`); `Tbl.delete t guard id` is Delete
(`guard = 0`) and CompareAndDelete (`guard > 0`); `t.locked = false` is "table not held".

`guard = 0` means "no guard" in the model exactly as in write_txn.go (`if guardRevision > 0`):
CompareAndSwap / CompareAndDelete called with revision 0 behave as Insert / Delete (known
finding K5).  The theorems state the model's semantics; `Tbl.GuardOk guard old` is
"`guard = 0`, or the stored object has revision `guard`".

The only hypothesis besides `TInv` is `rev + 1 < 2^64` in the preservation theorems (the Go
counter is a `uint64`; at `2^64 - 1` it would wrap and `revKey` would collide).

The transaction-handle level (`DB.wModify` …, `Lemmas/Table.lean`) mirrors what the differential
driver does with `Model.Table`: the operation is applied to entry `ti` of `db.wtxn`; a finished
transaction is `db.wtxn = none` and yields `Err.closed` (Go: `txn == nil`).  `Tbl.Reach` is
reachability from `newDB` under the operations `DbOp` (begin a write transaction, the writes
above, registering a delete tracker, Commit, Abort, a graveyard collection) with the counters
below `2^64`.
-/
namespace Sdb
open Tbl Tbl.OMap

/-! ## the invariant: initial, preserved, reachable -/

/-- the empty table (any flags) satisfies the invariant -/
theorem C03_inv_initial (t : TableS) (hp : t.primary = []) (hr : t.revIdx = []) (hb : t.rev < 2 ^ 64) : TInv t :=
  TInv.empty t hp hr hb

/-- Insert / Modify / CompareAndSwap preserve the invariant, for all arguments -/
theorem C03_inv_preserved_by_modify (t : TableS) (inv : TInv t) (guard : Nat) (o : Obj) (merge : Bool)
    (hb : t.rev + 1 < 2 ^ 64) : TInv (modify t guard o merge).1 := by
  apply inv.modify_preserves
  rcases modify_rev_cases t guard o merge with ⟨_, h⟩ | ⟨_, h⟩ <;> rw [h] <;> omega

/-- Delete / CompareAndDelete preserve the invariant, for all arguments -/
theorem C03_inv_preserved_by_delete (t : TableS) (inv : TInv t) (guard : Nat) (id : Key)
    (hb : t.rev + 1 < 2 ^ 64) : TInv (delete t guard id).1 := by
  apply inv.delete_preserves
  have := (delete_rev_le t guard id).2; omega

/-- DeleteAll preserves the invariant (it assigns one revision per object) -/
theorem C03_inv_preserved_by_deleteAll (t : TableS) (inv : TInv t)
    (hb : t.rev + t.primary.length < 2 ^ 64) : TInv (deleteAll t).1 := by
  apply inv.deleteAll_preserves
  cases hl : t.locked
  · rw [deleteAll_unlocked_eq t hl]; omega
  · rw [deleteAll_rev t hl inv.sortedP]; exact hb

/-- the invariant holds after every sequence of operations on a table -/
theorem C03_inv_reachable (t : TableS) (inv : TInv t) (ops : List Op) (hb : (run t ops).rev < 2 ^ 64) :
    TInv (run t ops) := inv.run ops hb

/-- … and in every reachable state of the database, for the committed tables and for the
    tables of the open write transaction -/
theorem C03_db_inv_reachable (db : DB) (h : Reach db) :
    (∀ t ∈ db.root, TInv t) ∧ ∀ es, db.wtxn = some es → ∀ t ∈ es, TInv t := by
  have inv := h.inv
  refine ⟨inv.root, ?_⟩
  intro es hes t ht
  have ⟨hlen, hall⟩ := inv.txn es hes
  obtain ⟨i, hi⟩ := List.mem_iff_getElem?.mp ht
  have hlt : i < db.root.length := by
    rw [← hlen]
    rcases Nat.lt_or_ge i es.length with h' | h'
    · exact h'
    · rw [List.getElem?_eq_none h'] at hi; simp at hi
  exact (hall i t db.root[i] hi (List.getElem?_eq_getElem hlt)).1

/-! ## the table as a map: `All`, `Prefix`, `LowerBound` read the primary index in key order -/

/-- `All()` enumerates the map in strictly ascending primary-key order, each object under its own id -/
theorem C03_all_in_key_order (t : TableS) (inv : TInv t) :
    (qAll t).Pairwise (fun x y => cmpL x.id y.id = .lt) ∧ ∀ x, x ∈ qAll t ↔ qGet t .id x.id 0 = some x := by
  constructor
  · unfold qAll
    rw [List.pairwise_map]
    have hs : Sorted t.primary := inv.sortedP
    unfold Sorted at hs
    refine List.Pairwise.imp_of_mem ?_ hs
    intro a b ha hb hlt
    rw [inv.idOk a.1 a.2 ((inv.mem_primary _ _).mp ha), inv.idOk b.1 b.2 ((inv.mem_primary _ _).mp hb)]
    exact hlt
  · intro x; exact inv.mem_qAll x

/-- `Prefix` and `LowerBound` on the primary index return exactly the live objects whose id has
    the prefix / is not below the bound, as sub-lists of `All()` (hence in the same key order) -/
theorem C03_prefix_and_lowerBound_reads (t : TableS) (inv : TInv t) (p : Key) :
    List.Sublist (qPrefix t .id p 0) (qAll t) ∧ List.Sublist (qLowerBound t .id p 0) (qAll t) ∧
    (∀ x, x ∈ qPrefix t .id p 0 ↔ x ∈ qAll t ∧ p <+: x.id) ∧
    (∀ x, x ∈ qLowerBound t .id p 0 ↔ x ∈ qAll t ∧ cmpL x.id p ≠ .lt) := by
  refine ⟨?_, ?_, ?_, ?_⟩
  · exact List.Sublist.map _ (prefixQ_sublist _ _)
  · exact List.Sublist.map _ (lowerBound_sublist _ _)
  · intro x
    simp only [qPrefix, qAll, List.mem_map]
    constructor
    · rintro ⟨⟨k, v⟩, hm, rfl⟩
      have ⟨h1, h2⟩ := (mem_prefixQ _ _ _ _).mp hm
      have := inv.idOk k v ((inv.mem_primary _ _).mp h1)
      exact ⟨⟨(k, v), h1, rfl⟩, by simp only; rw [this]; exact h2⟩
    · rintro ⟨⟨⟨k, v⟩, hm, rfl⟩, hp⟩
      have := inv.idOk k v ((inv.mem_primary _ _).mp hm)
      simp only at hp; rw [this] at hp
      exact ⟨(k, v), (mem_prefixQ _ _ _ _).mpr ⟨hm, hp⟩, rfl⟩
  · intro x
    simp only [qLowerBound, qAll, List.mem_map]
    constructor
    · rintro ⟨⟨k, v⟩, hm, rfl⟩
      have ⟨h1, h2⟩ := (mem_lowerBound _ _ _ _).mp hm
      have := inv.idOk k v ((inv.mem_primary _ _).mp h1)
      exact ⟨⟨(k, v), h1, rfl⟩, by simp only; rw [this]; exact h2⟩
    · rintro ⟨⟨⟨k, v⟩, hm, rfl⟩, hp⟩
      have := inv.idOk k v ((inv.mem_primary _ _).mp hm)
      simp only at hp; rw [this] at hp
      exact ⟨(k, v), (mem_lowerBound _ _ _ _).mpr ⟨hm, hp⟩, rfl⟩

/-! ## Insert / InsertWatch / Modify / CompareAndSwap -/

/-- the version written by `modify`: the given object at the next revision; with `merge` and
    an existing object the values are merged (the model's merge function adds `val`) -/
theorem C03_modify_new_version (t : TableS) (o : Obj) (merge : Bool) :
    newObj t o merge =
      { o with rev := t.rev + 1,
               val := match t.primary.get o.id, merge with
                 | some oo, true => oo.val + o.val
                 | _, _ => o.val } := by
  unfold newObj
  split <;> simp_all

/-- the error reported by `modify`, in every case -/
theorem C03_modify_error (t : TableS) (guard : Nat) (o : Obj) (merge : Bool) :
    let err := (modify t guard o merge).2.2
    (err = .notLocked ↔ t.locked = false) ∧
    (err = .notFound ↔ t.locked = true ∧ guard > 0 ∧ t.primary.get o.id = none) ∧
    (err = .revNotEqual ↔ t.locked = true ∧ guard > 0 ∧ ∃ oo, t.primary.get o.id = some oo ∧ oo.rev ≠ guard) ∧
    (err = .ok ↔ t.locked = true ∧ GuardOk guard (t.primary.get o.id)) ∧
    err ≠ .closed := by
  rcases modify_cases t guard o merge with ⟨hl, h⟩ | ⟨hl, hg, hn, h⟩ | ⟨hl, hg, oo, ho, hr, h⟩ | ⟨hl, hok, t', h, _⟩
  · rw [h]; simp [hl]
  · rw [h]; simp [hl, hg, hn, GuardOk]; omega
  · rw [h]; simp only [hl, hg, ho, GuardOk]
    simp [hr]; omega
  · rw [h]
    simp only [hl, hok]
    simp
    rcases hok with h0 | ⟨oo', ho', hr'⟩
    · constructor <;> (intro hg; omega)
    · constructor
      · intro _; rw [ho']; simp
      · intro _ x hx; rw [ho'] at hx; simp only [Option.some.injEq] at hx; subst hx; exact hr'

/-- on a held table `modify` returns the previous object stored under the id, or its absence -/
theorem C03_modify_returns_previous (t : TableS) (guard : Nat) (o : Obj) (merge : Bool) (hl : t.locked = true) :
    (modify t guard o merge).2.1 = qGet t .id o.id 0 := by
  simp only [qGet]
  rcases modify_cases t guard o merge with ⟨hl', _⟩ | ⟨_, _, hn, h⟩ | ⟨_, _, oo, ho, _, h⟩ | ⟨_, _, t', h, _⟩
  · rw [hl] at hl'; simp at hl'
  · rw [h, hn]
  · rw [h, ho]
  · rw [h]

/-- a rejected `modify` (table not held, object not found, revision mismatch) returns the
    table unchanged, as a value -/
theorem C03_modify_rejected_changes_nothing (t : TableS) (guard : Nat) (o : Obj) (merge : Bool)
    (h : (modify t guard o merge).2.2 ≠ .ok) : (modify t guard o merge).1 = t := by
  rcases modify_rev_cases t guard o merge with ⟨h', _⟩ | ⟨_, h'⟩
  · exact absurd h' h
  · exact h'

/-- `modify` on a table that is not held: error `notLocked`, nothing returned, nothing changed -/
theorem C03_modify_not_held (t : TableS) (guard : Nat) (o : Obj) (merge : Bool) (hl : t.locked = false) :
    modify t guard o merge = (t, none, .notLocked) := modify_notLocked t guard o merge hl

/-- CompareAndSwap (guard > 0) of an absent object: `notFound`, nothing changed -/
theorem C03_cas_not_found (t : TableS) (guard : Nat) (o : Obj) (merge : Bool) (hl : t.locked = true)
    (hg : guard > 0) (hn : qGet t .id o.id 0 = none) : modify t guard o merge = (t, none, .notFound) :=
  modify_notFound t guard o merge hl hg hn

/-- CompareAndSwap with a stale revision: `revNotEqual`, the current object is returned, nothing changed -/
theorem C03_cas_revision_mismatch (t : TableS) (guard : Nat) (o : Obj) (merge : Bool) (hl : t.locked = true)
    (hg : guard > 0) (oo : Obj) (ho : qGet t .id o.id 0 = some oo) (hr : oo.rev ≠ guard) :
    modify t guard o merge = (t, some oo, .revNotEqual) :=
  modify_revNotEqual t guard o merge hl hg oo ho hr

/-- **a successful `modify` is the map update `id ↦ new version`**: the id maps to the written
    version, every other id (including the empty key) is untouched.  Holds for every table
    state, even without the invariant. -/
theorem C03_modify_success_is_map_update (t : TableS) (guard : Nat) (o : Obj) (merge : Bool)
    (h : (modify t guard o merge).2.2 = .ok) (k : Key) :
    qGet (modify t guard o merge).1 .id k 0 = if k = o.id then some (newObj t o merge) else qGet t .id k 0 := by
  simp only [qGet]
  rcases modify_cases t guard o merge with ⟨_, h'⟩ | ⟨_, _, _, h'⟩ | ⟨_, _, oo, _, _, h'⟩ | ⟨_, _, t', h', hm⟩
  · rw [h'] at h; simp at h
  · rw [h'] at h; simp at h
  · rw [h'] at h; simp at h
  · rw [h']; simp only; rw [hm.primary, get_insert]

/-- **reads in the same transaction see its own earlier writes** (table level): a Get of the id
    just written returns the written version -/
theorem C03_get_after_modify (t : TableS) (guard : Nat) (o : Obj) (merge : Bool)
    (h : (modify t guard o merge).2.2 = .ok) :
    qGet (modify t guard o merge).1 .id o.id 0 = some (newObj t o merge) := by
  rw [C03_modify_success_is_map_update t guard o merge h]; simp

/-- `All()` after a successful `modify`: the written version, and the previous objects with other ids -/
theorem C03_all_after_modify (t : TableS) (inv : TInv t) (guard : Nat) (o : Obj) (merge : Bool)
    (hb : t.rev + 1 < 2 ^ 64) (h : (modify t guard o merge).2.2 = .ok) (x : Obj) :
    x ∈ qAll (modify t guard o merge).1 ↔ x = newObj t o merge ∨ (x ∈ qAll t ∧ x.id ≠ o.id) := by
  have inv' := C03_inv_preserved_by_modify t inv guard o merge hb
  have hu := C03_modify_success_is_map_update t guard o merge h x.id
  simp only [qGet] at hu
  rw [inv'.mem_qAll, inv.mem_qAll, hu]
  by_cases hid : x.id = o.id
  · simp only [hid, if_true, Option.some.injEq, ne_eq, not_true_eq_false, and_false, or_false]
    exact eq_comm
  · simp only [hid, if_false, ne_eq, not_false_eq_true, and_true]
    constructor
    · exact Or.inr
    · rintro (hx | hx)
      · exfalso; apply hid; rw [hx]; simp
      · exact hx

/-- `NumObjects` after a successful `modify`: one more iff the id was absent -/
theorem C03_numObjects_after_modify (t : TableS) (inv : TInv t) (guard : Nat) (o : Obj) (merge : Bool)
    (hb : t.rev + 1 < 2 ^ 64) (h : (modify t guard o merge).2.2 = .ok) :
    numObjects (modify t guard o merge).1 =
      if (qGet t .id o.id 0).isSome then numObjects t else numObjects t + 1 := by
  have inv' := C03_inv_preserved_by_modify t inv guard o merge hb
  rw [inv'.numObjects, inv.numObjects]
  simp only [qGet, qAll, List.length_map]
  rcases modify_cases t guard o merge with ⟨_, h'⟩ | ⟨_, _, _, h'⟩ | ⟨_, _, oo, _, _, h'⟩ | ⟨_, _, t', h', hm⟩
  · rw [h'] at h; simp at h
  · rw [h'] at h; simp at h
  · rw [h'] at h; simp at h
  · rw [h']; simp only; rw [hm.primary, length_insert]

/-! ## Delete / CompareAndDelete -/

/-- the error reported by `delete`, in every case -/
theorem C03_delete_error (t : TableS) (guard : Nat) (id : Key) :
    let err := (delete t guard id).2.2
    (err = .notLocked ↔ t.locked = false) ∧
    (err = .revNotEqual ↔ t.locked = true ∧ guard > 0 ∧ ∃ old, t.primary.get id = some old ∧ old.rev ≠ guard) ∧
    (err = .ok ↔ t.locked = true ∧ (t.primary.get id = none ∨ GuardOk guard (t.primary.get id))) ∧
    err ≠ .notFound ∧ err ≠ .closed := by
  rcases delete_cases t guard id with ⟨hl, h⟩ | ⟨hl, hn, h⟩ | ⟨hl, hg, old, ho, hr, h⟩ | ⟨hl, old, ho, hg, t', h, _⟩
  · rw [h]; simp [hl]
  · rw [h]; simp [hl, hn]
  · rw [h]; simp only [hl, hg, ho, GuardOk]
    simp [hr]; omega
  · rw [h]
    simp only [hl, ho, GuardOk]
    simp
    refine ⟨?_, by omega⟩
    intro _; omega

/-- on a held table `delete` returns the previous object stored under the id, or its absence -/
theorem C03_delete_returns_previous (t : TableS) (guard : Nat) (id : Key) (hl : t.locked = true) :
    (delete t guard id).2.1 = qGet t .id id 0 := by
  simp only [qGet]
  rcases delete_cases t guard id with ⟨hl', _⟩ | ⟨_, hn, h⟩ | ⟨_, _, old, ho, _, h⟩ | ⟨_, old, ho, _, t', h, _⟩
  · rw [hl] at hl'; simp at hl'
  · rw [h, hn]
  · rw [h, ho]
  · rw [h, ho]

/-- a `delete` that reports an error returns the table unchanged -/
theorem C03_delete_rejected_changes_nothing (t : TableS) (guard : Nat) (id : Key)
    (h : (delete t guard id).2.2 ≠ .ok) : (delete t guard id).1 = t := by
  rcases delete_cases t guard id with ⟨_, h'⟩ | ⟨_, _, h'⟩ | ⟨_, _, old, _, _, h'⟩ | ⟨_, old, _, _, t', h', _⟩
  · rw [h']
  · rw [h']
  · rw [h']
  · rw [h'] at h; simp at h

/-- `delete` on a table that is not held: error `notLocked`, nothing changed -/
theorem C03_delete_not_held (t : TableS) (guard : Nat) (id : Key) (hl : t.locked = false) :
    delete t guard id = (t, none, .notLocked) := delete_notLocked t guard id hl

/-- deleting an absent object is a successful no-op: no error, nothing returned, nothing changed -/
theorem C03_delete_absent_is_noop (t : TableS) (guard : Nat) (id : Key) (hl : t.locked = true)
    (hn : qGet t .id id 0 = none) : delete t guard id = (t, none, .ok) := delete_absent t guard id hl hn

/-- CompareAndDelete with a stale revision: `revNotEqual`, the current object is returned, nothing changed -/
theorem C03_cad_revision_mismatch (t : TableS) (guard : Nat) (id : Key) (hl : t.locked = true)
    (hg : guard > 0) (old : Obj) (ho : qGet t .id id 0 = some old) (hr : old.rev ≠ guard) :
    delete t guard id = (t, some old, .revNotEqual) := delete_revNotEqual t guard id hl old ho hg hr

/-- **`delete` is map erasure**: whenever it reports no error the id is absent afterwards and
    every other id is untouched -/
theorem C03_delete_success_is_map_erase (t : TableS) (inv : TInv t) (guard : Nat) (id : Key)
    (h : (delete t guard id).2.2 = .ok) (k : Key) :
    qGet (delete t guard id).1 .id k 0 = if k = id then none else qGet t .id k 0 := by
  simp only [qGet]
  rcases delete_cases t guard id with ⟨_, h'⟩ | ⟨_, hn, h'⟩ | ⟨_, _, old, _, _, h'⟩ | ⟨_, old, _, _, t', h', hd⟩
  · rw [h'] at h; simp at h
  · rw [h']; simp only
    split
    · rename_i hk; rw [hk, hn]
    · rfl
  · rw [h'] at h; simp at h
  · rw [h']; simp only; rw [hd.primary, get_erase _ inv.sortedP]

/-- a Get of the id just deleted finds nothing (reads see the transaction's own deletes) -/
theorem C03_get_after_delete (t : TableS) (inv : TInv t) (guard : Nat) (id : Key)
    (h : (delete t guard id).2.2 = .ok) : qGet (delete t guard id).1 .id id 0 = none := by
  rw [C03_delete_success_is_map_erase t inv guard id h]; simp

/-- `All()` after a `delete` without error: the previous objects with other ids -/
theorem C03_all_after_delete (t : TableS) (inv : TInv t) (guard : Nat) (id : Key)
    (hb : t.rev + 1 < 2 ^ 64) (h : (delete t guard id).2.2 = .ok) (x : Obj) :
    x ∈ qAll (delete t guard id).1 ↔ x ∈ qAll t ∧ x.id ≠ id := by
  have inv' := C03_inv_preserved_by_delete t inv guard id hb
  have hu := C03_delete_success_is_map_erase t inv guard id h x.id
  simp only [qGet] at hu
  rw [inv'.mem_qAll, inv.mem_qAll, hu]
  by_cases hid : x.id = id <;> simp [hid]

/-- `NumObjects` after a `delete` without error: one less iff the id was present -/
theorem C03_numObjects_after_delete (t : TableS) (inv : TInv t) (guard : Nat) (id : Key)
    (hb : t.rev + 1 < 2 ^ 64) (h : (delete t guard id).2.2 = .ok) :
    numObjects (delete t guard id).1 =
      if (qGet t .id id 0).isSome then numObjects t - 1 else numObjects t := by
  have inv' := C03_inv_preserved_by_delete t inv guard id hb
  rw [inv'.numObjects, inv.numObjects]
  simp only [qGet, qAll, List.length_map]
  rcases delete_cases t guard id with ⟨_, h'⟩ | ⟨_, hn, h'⟩ | ⟨_, _, old, _, _, h'⟩ | ⟨_, old, _, _, t', h', hd⟩
  · rw [h'] at h; simp at h
  · rw [h', hn]; simp
  · rw [h'] at h; simp at h
  · rw [h']; simp only; rw [hd.primary, length_erase]

/-! ## DeleteAll -/

/-- DeleteAll on a held table: no error, and afterwards the table is the empty map
    (no Get finds anything, `All()` is empty, `NumObjects` is 0) -/
theorem C03_deleteAll_empties (t : TableS) (inv : TInv t) (hl : t.locked = true)
    (hb : t.rev + t.primary.length < 2 ^ 64) :
    (deleteAll t).2 = .ok ∧ (∀ k, qGet (deleteAll t).1 .id k 0 = none) ∧
    qAll (deleteAll t).1 = [] ∧ numObjects (deleteAll t).1 = 0 := by
  have ⟨hp, he⟩ := deleteAll_primary t hl inv.sortedP
  have inv' := C03_inv_preserved_by_deleteAll t inv hb
  refine ⟨he, ?_, ?_, ?_⟩
  · intro k; simp [qGet, hp]
  · simp [qAll, hp]
  · simp [numObjects, inv'.revIdx_nil hp]

/-- DeleteAll on a table that is not held changes nothing; it reports `notLocked` unless the
    table is empty (the loop body, which performs the check, then never runs: model and Go agree) -/
theorem C03_deleteAll_not_held (t : TableS) (hl : t.locked = false) :
    (deleteAll t).1 = t ∧ (deleteAll t).2 = if t.primary.isEmpty then .ok else .notLocked := by
  rw [deleteAll_notLocked t hl]; simp

/-- DeleteAll is the sequence of unguarded deletes of the ids present when it starts -/
theorem C03_deleteAll_is_delete_sequence (t : TableS) (hl : t.locked = true) :
    (deleteAll t).1 = run t (t.primary.map fun e => Op.delete 0 e.1) := deleteAll_as_ops t hl

/-! ## through the transaction handle: own writes, other tables, finished transactions, commit, abort -/

/-- **reads in the same transaction see its own earlier writes**: after a successful write through
    the handle a Get on the transaction's table returns the written version, every other id of
    that table and every other table of the transaction are as before, and the committed
    snapshot (`db.root`) is untouched -/
theorem C03_txn_reads_own_writes (db : DB) (es : List TableS) (hes : db.wtxn = some es) (ti : Nat) (e : TableS)
    (he : es[ti]? = some e) (guard : Nat) (o : Obj) (merge : Bool)
    (h : (db.wModify ti guard o merge).2.2 = .ok) :
    ∃ es', (db.wModify ti guard o merge).1.wtxn = some es' ∧
      (∀ k, qGet (DB.wTable es' ti) .id k 0 = if k = o.id then some (newObj e o merge) else qGet e .id k 0) ∧
      (∀ tj, tj ≠ ti → es'[tj]? = es[tj]?) ∧
      (db.wModify ti guard o merge).1.root = db.root ∧
      (db.wModify ti guard o merge).2.1 = qGet e .id o.id 0 := by
  simp only [DB.wModify, hes, DB.wTable_of_getElem? he] at h ⊢
  refine ⟨_, rfl, ?_, ?_, trivial, ?_⟩
  · intro k
    have hlt : ti < es.length := by
      rcases Nat.lt_or_ge ti es.length with h' | h'
      · exact h'
      · rw [List.getElem?_eq_none h'] at he; simp at he
    have : DB.wTable (es.set ti (modify e guard o merge).1) ti = (modify e guard o merge).1 := by
      apply DB.wTable_of_getElem?
      rw [List.getElem?_set]; simp [hlt]
    rw [this]
    exact C03_modify_success_is_map_update e guard o merge h k
  · intro tj hne
    rw [List.getElem?_set]; simp [Ne.symm hne]
  · have hl : e.locked = true := ((C03_modify_error e guard o merge).2.2.2.1.mp h).1
    exact C03_modify_returns_previous e guard o merge hl

/-- a write through the handle on a table the transaction does not hold: `notLocked`, and the
    whole database value (transaction tables and committed root) is unchanged -/
theorem C03_txn_write_on_unheld_table (db : DB) (es : List TableS) (hes : db.wtxn = some es) (ti : Nat) (e : TableS)
    (he : es[ti]? = some e) (hl : e.locked = false) (guard : Nat) (o : Obj) (merge : Bool) (id : Key) :
    db.wModify ti guard o merge = (db, none, .notLocked) ∧ db.wDelete ti guard id = (db, none, .notLocked) := by
  have hset : es.set ti e = es := by
    apply List.ext_getElem?
    intro i
    rw [List.getElem?_set]
    split
    · rename_i hi; subst hi
      split
      · exact he.symm
      · rename_i hlt
        rw [List.getElem?_eq_none (by omega)]
    · rfl
  have hdb : { db with wtxn := some es } = db := by
    cases db; simp only at hes; subst hes; rfl
  constructor
  · simp only [DB.wModify, hes, DB.wTable_of_getElem? he, modify_notLocked e guard o merge hl, hset, hdb]
  · simp only [DB.wDelete, hes, DB.wTable_of_getElem? he, delete_notLocked e guard id hl, hset, hdb]

/-- a write through a finished (committed or aborted) transaction: `closed`, nothing changed -/
theorem C03_finished_txn_rejects_writes (db : DB) (h : db.wtxn = none) (ti guard : Nat) (o : Obj) (merge : Bool) (id : Key) :
    db.wModify ti guard o merge = (db, none, .closed) ∧ db.wDelete ti guard id = (db, none, .closed) := by
  simp [DB.wModify, DB.wDelete, h]

/-- Commit and Abort finish the transaction -/
theorem C03_commit_abort_finish_txn (db : DB) : db.commit.wtxn = none ∧ db.abort.wtxn = none := by
  constructor
  · simp only [DB.commit]
    cases h : db.wtxn <;> simp [h]
  · rfl

/-- Abort leaves the committed state exactly as it was: all writes of the transaction are discarded -/
theorem C03_abort_discards_writes (db : DB) : db.abort.root = db.root := rfl

/-- **across committed transactions**: Commit publishes, for every table, exactly the map the
    transaction saw last (a held table: its working copy; an unheld table: the unchanged
    committed one), so later snapshots read the transaction's writes -/
theorem C03_commit_publishes_txn_view (db : DB) (h : Reach db) (es : List TableS) (hes : db.wtxn = some es)
    (i : Nat) (e : TableS) (he : es[i]? = some e) :
    ∃ r', db.commit.root[i]? = some r' ∧ r'.rev = e.rev ∧ ∀ k, qGet r' .id k 0 = qGet e .id k 0 := by
  have inv := h.inv
  have ⟨hlen, hall⟩ := inv.txn es hes
  have hlt : i < db.root.length := by
    rw [← hlen]
    rcases Nat.lt_or_ge i es.length with h' | h'
    · exact h'
    · rw [List.getElem?_eq_none h'] at he; simp at he
  have hc : db.root[i]? = some db.root[i] := List.getElem?_eq_getElem hlt
  obtain ⟨r', hr', h1, h2⟩ := commit_root db es hes i e db.root[i] he hc
  have ⟨_, _, hun⟩ := hall i e db.root[i] he hc
  refine ⟨r', hr', ?_, ?_⟩
  · cases hl : e.locked
    · rw [h2 hl, (hun hl).1]
    · exact (h1 hl).1
  · intro k
    simp only [qGet]
    cases hl : e.locked
    · rw [h2 hl, (hun hl).2.1]
    · rw [(h1 hl).2.1]

/-- a table the transaction did not hold is published unchanged by Commit -/
theorem C03_commit_keeps_unheld_tables (db : DB) (es : List TableS) (hes : db.wtxn = some es)
    (i : Nat) (e cur : TableS) (he : es[i]? = some e) (hc : db.root[i]? = some cur) (hl : e.locked = false) :
    db.commit.root[i]? = some cur := by
  obtain ⟨r', hr', _, h2⟩ := commit_root db es hes i e cur he hc
  rw [hr', h2 hl]

/-! ## non-vacuity -/

/-- two concrete objects (one with the empty key as id) -/
private def oA : Obj := { id := [], val := 5, uvar := 0, tags := [], pfxs := [], up := false, ord := 0, rev := 0 }
private def oB : Obj := { id := [1, 2], val := 7, uvar := 1, tags := [[3]], pfxs := [], up := false, ord := 1, rev := 0 }
private def t0 : TableS := { locked := true }
private def t2 : TableS := (modify (modify t0 0 oA false).1 0 oB false).1

/-- the invariant holds on a table with two objects -/
example : TInv t2 :=
  C03_inv_preserved_by_modify _ (C03_inv_preserved_by_modify _ (C03_inv_initial t0 rfl rfl (by decide)) 0 oA false (by decide))
    0 oB false (by decide)

/-- … on which the operations succeed and fail as described -/
example : (modify t2 0 oA true).2.2 = .ok ∧ (modify t2 9 oA false).2.2 = .revNotEqual ∧
    (modify t2 1 oA false).2.2 = .ok ∧ (delete t2 2 [1, 2]).2.2 = .ok ∧ (delete t2 1 [1, 2]).2.2 = .revNotEqual ∧
    (modify t2 3 { oA with id := [9] } false).2.2 = .notFound ∧ (deleteAll t2).2 = .ok := by decide

/-- a reachable database state with an open write transaction -/
example : Reach ((newDB.step (.beginW true false)).step (.modify 0 0 oA false)) :=
  Reach.step _ (Reach.step _ Reach.init (DB.bounded_of_boundedB _ (by decide))) (DB.bounded_of_boundedB _ (by decide))

/-- the structural facts about write_txn.go, graveyard.go, iterator.go and deletetracker.go that
    `Model.Table` builds in — the rejection and guard logic of `modify` / `delete` (closed transaction, table not held, CompareAndSwap / CompareAndDelete) — hold of the source as it is today (regenerated by
    `tools/extract` on every run) -/
theorem C03_source_facts : Gen.tableFacts = Tbl.expectedFacts := by decide

end Sdb
