import SdbModel.Props.C06Conc

/-!
# C09 on the interleaving model — committed table revisions under concurrency

> A table's revision is constant within a snapshot and never decreases from one
> committed state to the next; every successful write gets a revision of its own
> and the table revision equals that of its latest successful write.

`Props/C09.lean` proves the per-operation clauses on `Model.Table`.  What
happens to the COMMITTED revision of a table when any number of write
transactions run concurrently is a statement about `Model.Conc` (each writer of
that model performs one write per table it holds): these are the theorems of
`Props/C06Conc.lean` under the names the C09 audit collects.
-/
namespace Sdb
open Conc

/-- the committed revision of every table counts exactly the committed writes to it:
    it equals the number of writers spawned to commit, holding that table, whose
    root store has happened — nothing of aborted or unfinished transactions -/
theorem C09_conc_revision_counts_committed_writes (P : Protocol) (hP : P.initShape = true) (n : Nat) (st : State)
    (cs : List Bool) (h : Reach P n st cs) (x : Nat) (hx : x < st.root.length) :
    (getT st.root x).rev = (getT st.root x).cnt ∧ (getT st.root x).rev = committedWriters st cs x :=
  C06_conc_rev_counts_commits P hP n st cs h x hx

/-- from one committed state to the next (any scheduler step of any thread) the
    revision of a table stays or grows by exactly one, the latter only in the root
    store of a committing writer that holds the table -/
theorem C09_conc_revision_never_decreases (P : Protocol) (hP : P.initShape = true) (n : Nat) (st : State)
    (cs : List Bool) (h : Reach P n st cs) (tid : Nat) (x : Nat) (hx : x < st.root.length) :
    x < (step st tid).1.root.length ∧
    ((getT (step st tid).1.root x).rev = (getT st.root x).rev ∨
     ((getT (step st tid).1.root x).rev = (getT st.root x).rev + 1 ∧ cs[tid]? = some true ∧
       ∃ th, st.threads[tid]? = some th ∧ x ∈ th.tables ∧ Micro.act .storeRoot ∈ th.prog)) :=
  C06_conc_rev_monotone P hP n st cs h tid x hx

end Sdb
