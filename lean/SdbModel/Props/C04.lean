import SdbModel.Lemmas.Index
import SdbModel.Lemmas.IndexBound
import SdbModel.Props.C03
import SdbModel.Props.C09

/-!
# C04 — all indexes agree with the table contents; queries are exact and ordered

> Every index of a table always describes exactly the table's current objects: Get, List, Prefix,
> LowerBound, All, NumObjects and by-revision queries through primary, unique, non-unique, multi-key
> and longest-prefix-match indexes return precisely the objects whose index keys satisfy the query -
> none missing, none stale, no object twice for one key - in ascending index-key order with ties
> broken by primary key. This holds for empty keys and keys containing any byte values, after any
> sequence of inserts, key-changing updates and deletes, inside a write transaction as well as on
> snapshots.

Theorems over `Model.Table` (`Tbl.TableS` with the indexes `primary`, `revIdx`, `uIdx`, `tagIdx`, `lpm`,
`ulpm`; maintenance by `reindexUnique` / `reindexNonUnique` / `reindexLpm` inside `modify` / `delete`;
queries `qGet`, `qList`, `qPrefix`, `qLowerBound`, `qAll`, `numObjects`), for EVERY table state satisfying
the invariants `Tbl.IdxInv B` (Lemmas/Index.lean: primary index sorted with every object under its own
id; the unique index `uIdx` holds exactly the live objects under `Obj.ukey`; the non-unique multi-key
index `tagIdx` holds exactly one entry `P.composite id tag` per live object and tag of it; both sorted;
the LPM tries `lpm` / `ulpm` are well formed (C13) and their buckets hold, sorted by primary key, exactly
the live objects having that normalised prefix among `pfxs` / `upKey`) and `Tbl.TInv` (Lemmas/Table.lean,
C03/C09: revision index mirrors the primary index) and EVERY query key (all byte values, the empty key).
The unique and LPM clauses apply to tables that have these indexes (`t.full = true`; the model's second
table has only the primary and the non-unique index).  `IdxInv` is proved for the empty table and
preserved by every write operation with every argument (`C04_inv_*`) - inserts, updates that change, add, drop or duplicate secondary keys,
deletes, DeleteAll - hence it holds after every operation sequence on a table (`C04_inv_reachable`)
and for every table of every reachable database state, the committed snapshot as well as the tables of
the open write transaction (`C04_db_inv_reachable`).

Preconditions on written objects (`Tbl.ObjOk`, `Tbl.UniqOk`) are the documented ones: LPM keys have
enough data bytes for their prefix length (`EncodeLPMKey` panics otherwise) and, for the UNIQUE LPM index,
no other live object has the written object's key (`Unique` indexes: "each key maps to exactly one
object"; the example at the end of Lemmas/IndexLpmQ.lean shows that model and code silently overwrite
otherwise).  The LPM `Get` / `List` theorems carry C13's full-length hypothesis (the query is at least as
long as every stored prefix, e.g. an address); `C04_lpm_list_own_key` needs none.

The parameter `B` bounds the ESCAPED length of the live primary keys (`Tbl.ObjOk B o` is the
precondition on written objects: the id is a byte string, `< 256` per byte, with `|enc id| < B`).
Results on the non-unique index need `B ≤ 65536` (the composite key stores `|enc id|` in a uint16);
the tie-break "by primary key" needs `B ≤ 256`: that is known finding K2 (`C18_composite_order_refuted`,
here `C04_tags_list_by_primary_key_refuted`), the theorems that depend on it say so;
`C04_tags_list_long_primary_refuted` shows that the uint16 bound is needed too.  The unique key `ukey` contains the hex form of the id, so
"unique keys are unique over the live objects" holds by construction for byte-string ids.
-/
namespace Sdb
open Tbl Tbl.OMap

/-! ## the invariant: initial, preserved, reachable -/

/-- the empty table (any flags, any revision) satisfies the index invariant -/
theorem C04_inv_initial (B : Nat) (t : TableS) (hp : t.primary = []) (ht : t.tagIdx = []) (hu : t.uIdx = [])
    (hl : t.lpm = {}) (hul : t.ulpm = {}) : IdxInv B t := IdxInv.empty B t hp ht hu hl hul

/-- Insert / Modify / CompareAndSwap (incl. updates that change, add or drop secondary keys) preserve
    the index invariant, for all arguments -/
theorem C04_inv_preserved_by_modify (B : Nat) (t : TableS) (inv : IdxInv B t) (guard : Nat) (o : Obj)
    (merge : Bool) (ho : ObjOk B o) (hu : t.full = true → UniqOk t o) : IdxInv B (modify t guard o merge).1 :=
  inv.modify_preserves guard o merge ho hu

/-- Delete / CompareAndDelete preserve the index invariant, for all arguments -/
theorem C04_inv_preserved_by_delete (B : Nat) (t : TableS) (inv : IdxInv B t) (guard : Nat) (id : Key) :
    IdxInv B (delete t guard id).1 := inv.delete_preserves guard id

/-- DeleteAll preserves the index invariant -/
theorem C04_inv_preserved_by_deleteAll (B : Nat) (t : TableS) (inv : IdxInv B t) : IdxInv B (deleteAll t).1 :=
  inv.deleteAll_preserves

/-- the index invariant holds after every sequence of write operations on a table -/
theorem C04_inv_reachable (B : Nat) (t : TableS) (inv : IdxInv B t) (ops : List Op) (hops : RunOk B t ops) :
    IdxInv B (run t ops) := inv.run ops hops

/-- … and, together with the C03/C09 invariant, for every table of every reachable database state:
    the committed snapshot (`db.root`) and the tables of the open write transaction (`db.wtxn`) -/
theorem C04_db_inv_reachable (B : Nat) (db : DB) (h : IReach B db) :
    (∀ t ∈ db.root, IdxInv B t ∧ TInv t) ∧ ∀ es, db.wtxn = some es → ∀ t ∈ es, IdxInv B t ∧ TInv t := by
  have hi := h.inv
  have ht := C03_db_inv_reachable db h.reach
  exact ⟨fun t m => ⟨hi.root t m, ht.1 t m⟩, fun es hes t m => ⟨hi.txn es hes t m, ht.2 es hes t m⟩⟩

/-! ## primary index: Get, List, All, Prefix, LowerBound, NumObjects -/

/-- `All()` lists exactly the live objects, each once, in strictly ascending primary-key order -/
theorem C04_all_exact_and_ordered (B : Nat) (t : TableS) (inv : IdxInv B t) :
    (qAll t).Pairwise (fun x y => cmpL x.id y.id = .lt) ∧ ∀ x, x ∈ qAll t ↔ t.primary.get x.id = some x := by
  constructor
  · unfold qAll
    rw [List.pairwise_map]
    have hs : Sorted t.primary := inv.pOk.sorted
    unfold Sorted at hs
    refine List.Pairwise.imp_of_mem ?_ hs
    intro a b ha hb hlt
    rw [inv.pOk.idOk a.1 a.2 ((inv.pOk.mem _ _).mp ha), inv.pOk.idOk b.1 b.2 ((inv.pOk.mem _ _).mp hb)]
    exact hlt
  · intro x
    unfold qAll
    rw [List.mem_map]
    constructor
    · rintro ⟨⟨k, v⟩, hm, rfl⟩
      have hg := (inv.pOk.mem k v).mp hm
      have := inv.pOk.idOk k v hg
      simp only; rw [this]; exact hg
    · intro h
      exact ⟨(x.id, x), (inv.pOk.mem _ _).mpr h, rfl⟩

/-- `Get` / `List` by primary key: the live object with that id, if any (`List` yields at most one) -/
theorem C04_primary_get (B : Nat) (t : TableS) (inv : IdxInv B t) (key : Key) (x : Obj) :
    (qGet t .id key 0 = some x ↔ x ∈ qAll t ∧ x.id = key) ∧ qList t .id key 0 = (qGet t .id key 0).toList := by
  refine ⟨?_, rfl⟩
  rw [(C04_all_exact_and_ordered B t inv).2]
  simp only [qGet]
  constructor
  · intro h
    have := inv.pOk.idOk _ _ h
    exact ⟨by rw [this]; exact h, this⟩
  · rintro ⟨h, rfl⟩; exact h

private theorem filter_primary (t : TableS) (hp : POk t.primary) (q : Key → Bool) :
    (t.primary.filter (fun e => q e.1)).map (·.2) = (qAll t).filter (fun x => q x.id) := by
  unfold qAll
  rw [List.filter_map]
  congr 1
  apply List.filter_congr
  intro e he
  have := hp.idOk e.1 e.2 ((hp.mem _ _).mp he)
  simp [this]

/-- `Prefix` on the primary index: exactly the objects of `All()` whose id has the prefix, in the same order -/
theorem C04_primary_prefix (B : Nat) (t : TableS) (inv : IdxInv B t) (p : Key) :
    qPrefix t .id p 0 = (qAll t).filter (fun x => hasPrefix x.id p) :=
  filter_primary t inv.pOk (fun k => hasPrefix k p)

/-- `LowerBound` on the primary index: exactly the objects of `All()` whose id is not below the bound,
    in the same order -/
theorem C04_primary_lowerBound (B : Nat) (t : TableS) (inv : IdxInv B t) (p : Key) :
    qLowerBound t .id p 0 = (qAll t).filter (fun x => cmpL x.id p != .lt) :=
  filter_primary t inv.pOk (fun k => cmpL k p != .lt)

/-- `NumObjects` is the number of live objects -/
theorem C04_numObjects (t : TableS) (inv : TInv t) : numObjects t = (qAll t).length := inv.numObjects

/-! ## revision index -/

/-- by-revision lookups find exactly the live object with that revision; the revision index lists every
    live object once, in strictly ascending revision order, and `LowerBound` (ByRevision) the ones at or
    above the bound -/
theorem C04_revision_index (t : TableS) (inv : TInv t) (r : Nat) (hr : r < 2 ^ 64) :
    (∀ x, qGet t .rev (revKey r) 0 = some x ↔ x ∈ qAll t ∧ x.rev = r) ∧
    qList t .rev (revKey r) 0 = (qGet t .rev (revKey r) 0).toList ∧
    ((qLowerBound t .rev (revKey r) 0).map (·.rev)).Pairwise (· < ·) ∧
    (∀ x, x ∈ qLowerBound t .rev (revKey r) 0 ↔ x ∈ qAll t ∧ r ≤ x.rev) ∧
    (∀ x, x ∈ t.revIdx.map (·.2) ↔ x ∈ qAll t) ∧ (t.revIdx.map (·.2)).Nodup :=
  ⟨fun x => C09_get_by_revision t inv r hr x, rfl, (C09_query_by_revision_ascending t inv r hr).1,
    (C09_query_by_revision_ascending t inv r hr).2, inv.mem_revIdx_objs, inv.revIdx_objs_nodup⟩

/-! ## unique secondary index -/

/-- the unique index lists exactly the live objects (none missing, none stale), each once, in strictly
    ascending order of the unique key -/
theorem C04_unique_index_contents (B : Nat) (t : TableS) (inv : IdxInv B t) (hf : t.full = true) :
    (∀ x, x ∈ t.uIdx.map (·.2) ↔ x ∈ qAll t) ∧
    (t.uIdx.map (·.2)).Pairwise (fun a b => cmpL a.ukey b.ukey = .lt) := by
  refine ⟨fun x => ?_, (inv.u hf).objs_sorted⟩
  rw [(inv.u hf).mem_objs, (C04_all_exact_and_ordered B t inv).2]

/-- `Get` / `List` through the unique index: the live object whose unique key equals the query, if any -/
theorem C04_unique_get (B : Nat) (t : TableS) (inv : IdxInv B t) (hf : t.full = true) (key : Key) (x : Obj) :
    (qGet t .u key 0 = some x ↔ x ∈ qAll t ∧ x.ukey = key) ∧ qList t .u key 0 = (qGet t .u key 0).toList := by
  refine ⟨?_, rfl⟩
  rw [(inv.u hf).qGet_iff, (C04_all_exact_and_ordered B t inv).2]

/-- `Prefix` through the unique index: exactly the entries of the (key-ordered, duplicate-free) index
    listing whose unique key has the prefix, in that order -/
theorem C04_unique_prefix (B : Nat) (t : TableS) (inv : IdxInv B t) (hf : t.full = true) (key : Key) :
    qPrefix t .u key 0 = (t.uIdx.map (·.2)).filter (fun x => hasPrefix x.ukey key) :=
  (inv.u hf).qPrefix_eq key 0

/-- `LowerBound` through the unique index: exactly the entries of the index listing whose unique key is
    not below the query, in that order -/
theorem C04_unique_lowerBound (B : Nat) (t : TableS) (inv : IdxInv B t) (hf : t.full = true) (key : Key) :
    qLowerBound t .u key 0 = (t.uIdx.map (·.2)).filter (fun x => cmpL x.ukey key != .lt) :=
  (inv.u hf).qLowerBound_eq key 0

/-- membership form: `Prefix` / `LowerBound` through the unique index return precisely the live objects
    whose unique key satisfies the query -/
theorem C04_unique_prefix_lowerBound_exact (B : Nat) (t : TableS) (inv : IdxInv B t) (hf : t.full = true)
    (key : Key) (x : Obj) :
    (x ∈ qPrefix t .u key 0 ↔ x ∈ qAll t ∧ key <+: x.ukey) ∧
    (x ∈ qLowerBound t .u key 0 ↔ x ∈ qAll t ∧ cmpL x.ukey key ≠ .lt) := by
  rw [C04_unique_prefix B t inv hf, C04_unique_lowerBound B t inv hf, List.mem_filter, List.mem_filter,
    (C04_unique_index_contents B t inv hf).1, hasPrefix_iff]
  simp

/-! ## non-unique multi-key index -/

/-- **none missing, none stale**: read as (tag, primary key, object) triples (`Tbl.tagTriples`), the
    non-unique index holds exactly the triples (tag, x.id, x) for the live objects x and their tags -/
theorem C04_tags_index_contents (B : Nat) (t : TableS) (inv : IdxInv B t) (tag id : Key) (x : Obj) :
    (tag, id, x) ∈ tagTriples t.tagIdx ↔ x ∈ qAll t ∧ id = x.id ∧ tag ∈ x.tags := by
  rw [inv.tag.mem_triples, (C04_all_exact_and_ordered B t inv).2]

/-- **no object twice for one key** (also for objects listing a tag several times) -/
theorem C04_tags_index_no_duplicates (B : Nat) (t : TableS) (inv : IdxInv B t) :
    (tagTriples t.tagIdx).Pairwise (fun a b => ¬ (a.1 = b.1 ∧ a.2.1 = b.2.1)) := inv.tag.triples_distinct

/-- **ascending index-key order with ties broken by primary key**, for encoded primary keys shorter than
    256 bytes (partial: without the bound the tie-break can be wrong, K2 / `C18_composite_order_refuted`) -/
theorem C04_tags_index_order_partial (t : TableS) (inv : IdxInv 256 t) :
    (tagTriples t.tagIdx).Pairwise (fun a b => Ordering.thenO (cmpL a.1 b.1) (cmpL a.2.1 b.2.1) = .lt) :=
  inv.tag.triples_sorted inv.idLen

/-- `List` through the non-unique index = the triples with exactly that tag, in index order -/
theorem C04_tags_list (B : Nat) (hB : B ≤ 65536) (t : TableS) (inv : IdxInv B t) (key : Key) :
    qList t .tags key 0 = ((tagTriples t.tagIdx).filter (fun tr => tr.1 == key)).map (·.2.2) :=
  qList_tags_eq t inv.tag (inv.idLen.mono hB) key 0

/-- `List` returns precisely the live objects having the tag, none twice -/
theorem C04_tags_list_exact (B : Nat) (hB : B ≤ 65536) (t : TableS) (inv : IdxInv B t) (key : Key) :
    (∀ x, x ∈ qList t .tags key 0 ↔ x ∈ qAll t ∧ key ∈ x.tags) ∧
    (qList t .tags key 0).Pairwise (fun a b => a.id ≠ b.id) := by
  refine ⟨fun x => ?_, inv.tag.qList_nodup (inv.idLen.mono hB) key 0⟩
  rw [inv.tag.mem_qList (inv.idLen.mono hB), (C04_all_exact_and_ordered B t inv).2]

/-- `List` is in strictly ascending primary-key order (partial: encoded primary keys below 256 bytes, K2) -/
theorem C04_tags_list_by_primary_key_partial (t : TableS) (inv : IdxInv 256 t) (key : Key) :
    (qList t .tags key 0).Pairwise (fun a b => cmpL a.id b.id = .lt) :=
  inv.tag.qList_sorted inv.idLen key 0

/-- without any bound beyond the uint16 one, `List` is in strictly ascending order of the composite keys
    `P.composite id key` - which C18 relates to the order of the primary keys -/
theorem C04_tags_list_by_composite_key (B : Nat) (hB : B ≤ 65536) (t : TableS) (inv : IdxInv B t) (key : Key) :
    (qList t .tags key 0).Pairwise (fun a b => cmpL (P.composite a.id key) (P.composite b.id key) = .lt) :=
  TagInv.qList_sorted_by_composite inv.tag (inv.idLen.mono hB) key 0

/-- **K2 (known finding) seen through a query**: the tie-break by primary key is FALSE without the
    256-byte bound.  Witness: the table reached by inserting two objects with primary keys of 256 and 257
    zero bytes, both tagged with the empty key; the invariant holds (`B = 65536`) but `List` by that tag
    returns the object with the LONGER (= larger) primary key first. -/
theorem C04_tags_list_by_primary_key_refuted :
    ∃ (t : TableS) (key : Key), IdxInv 65536 t ∧
      ¬ (qList t .tags key 0).Pairwise (fun a b => cmpL a.id b.id = .lt) := tags_list_order_witness

/-- `Get` through the non-unique index is the first object of `List` -/
theorem C04_tags_get_is_first_of_list (t : TableS) (key : Key) :
    qGet t .tags key 0 = (qList t .tags key 0).head? := qGet_tags_eq t key 0

/-- `Prefix` through the non-unique index = the triples whose tag has the query as a prefix, in index
    order, every object reported at its first occurrence only (`Tbl.firstById`) -/
theorem C04_tags_prefix (B : Nat) (hB : B ≤ 65536) (t : TableS) (inv : IdxInv B t) (key : Key) :
    qPrefix t .tags key 0 =
      firstById (((tagTriples t.tagIdx).filter (fun tr => hasPrefix tr.1 key)).map (·.2.2)) [] :=
  qPrefix_tags_eq t inv.tag (inv.idLen.mono hB) key 0

/-- `LowerBound` through the non-unique index = the triples whose tag is not below the query, in index
    order, every object reported at its first occurrence only -/
theorem C04_tags_lowerBound (B : Nat) (hB : B ≤ 65536) (t : TableS) (inv : IdxInv B t) (key : Key) :
    qLowerBound t .tags key 0 =
      firstById (((tagTriples t.tagIdx).filter (fun tr => cmpL tr.1 key != .lt)).map (·.2.2)) [] :=
  qLowerBound_tags_eq t inv.tag (inv.idLen.mono hB) key 0

/-- `Prefix` / `LowerBound` return precisely the live objects with a matching tag, each once however many
    of its tags match -/
theorem C04_tags_prefix_lowerBound_exact (B : Nat) (hB : B ≤ 65536) (t : TableS) (inv : IdxInv B t) (key : Key) :
    (∀ x, x ∈ qPrefix t .tags key 0 ↔ x ∈ qAll t ∧ ∃ tag ∈ x.tags, key <+: tag) ∧
    (qPrefix t .tags key 0).Pairwise (fun a b => a.id ≠ b.id) ∧
    (∀ x, x ∈ qLowerBound t .tags key 0 ↔ x ∈ qAll t ∧ ∃ tag ∈ x.tags, cmpL tag key ≠ .lt) ∧
    (qLowerBound t .tags key 0).Pairwise (fun a b => a.id ≠ b.id) := by
  have hl := inv.idLen.mono hB
  refine ⟨fun x => ?_, inv.tag.qPrefix_nodup hl key 0, fun x => ?_, inv.tag.qLowerBound_nodup hl key 0⟩
  · rw [inv.tag.mem_qPrefix hl, (C04_all_exact_and_ordered B t inv).2]
  · rw [inv.tag.mem_qLowerBound hl, (C04_all_exact_and_ordered B t inv).2]

/-! ## longest-prefix-match indexes -/

/-- **none missing, none stale, ordered**: read as (prefix data, prefix length, object) triples in
    iteration order (`Tbl.lpmPairs` of the trie's entries), the non-unique LPM index holds exactly the
    triples for the live objects and their normalised prefixes, strictly ascending in (index key, primary
    key) - `Tbl.pairLt`: `Lpm.keyLt` on the prefixes, then `cmpL` on the ids - hence no object twice for one key -/
theorem C04_lpm_index_contents (B : Nat) (t : TableS) (inv : IdxInv B t) (hf : t.full = true) :
    (∀ d p x, (d, p, x) ∈ lpmPairs (Lpm.preorder t.lpm.t) ↔ x ∈ qAll t ∧ (d, p) ∈ x.pfxs.map normKey) ∧
    (lpmPairs (Lpm.preorder t.lpm.t)).Pairwise pairLt := by
  refine ⟨fun d p x => ?_, (inv.lpm hf).pairs_ascending inv.pOk⟩
  rw [(inv.lpm hf).mem_pairs inv.pOk, (C04_all_exact_and_ordered B t inv).2]

/-- the same for the unique LPM index (key `upKey`) -/
theorem C04_ulpm_index_contents (B : Nat) (t : TableS) (inv : IdxInv B t) (hf : t.full = true) :
    (∀ d p x, (d, p, x) ∈ lpmPairs (Lpm.preorder t.ulpm.t) ↔ x ∈ qAll t ∧ (d, p) ∈ x.upKey.map normKey) ∧
    (lpmPairs (Lpm.preorder t.ulpm.t)).Pairwise pairLt := by
  refine ⟨fun d p x => ?_, (inv.ulpm hf).pairs_ascending inv.pOk⟩
  rw [(inv.ulpm hf).mem_pairs inv.pOk, (C04_all_exact_and_ordered B t inv).2]

/-- **`List` / `Get` through the non-unique LPM index = longest-prefix match over the live objects'
    prefixes**: for a query at least as long as every live prefix, either no live object has a prefix
    covering the query and nothing is returned, or `List` returns exactly the live objects having the
    longest covering prefix, each once in ascending primary-key order, and `Get` the first of them -/
theorem C04_lpm_list_get (B : Nat) (t : TableS) (inv : IdxInv B t) (hf : t.full = true)
    (key : Key) (plen : Nat) (hq : LKeyOk (key, plen))
    (hfull : ∀ pk x, t.primary.get pk = some x → ∀ k ∈ x.pfxs, k.2 ≤ plen) :
    ((∀ pk x, t.primary.get pk = some x → ∀ k ∈ x.pfxs.map normKey,
        ¬ Lpm.Covers k.1 k.2 (Lpm.maskData key plen) plen) ∧
      qList t .lpm key plen = [] ∧ qGet t .lpm key plen = none) ∨
    (∃ d' p', Lpm.Covers d' p' (Lpm.maskData key plen) plen ∧
      (∀ pk x, t.primary.get pk = some x → ∀ k ∈ x.pfxs.map normKey,
        Lpm.Covers k.1 k.2 (Lpm.maskData key plen) plen → k.2 ≤ p') ∧
      (∀ x, x ∈ qList t .lpm key plen ↔ t.primary.get x.id = some x ∧ (d', p') ∈ x.pfxs.map normKey) ∧
      (qList t .lpm key plen).Pairwise (fun a b => cmpL a.id b.id = .lt) ∧
      qList t .lpm key plen ≠ [] ∧
      qGet t .lpm key plen = (qList t .lpm key plen).head?) :=
  qList_lpm_spec t (inv.lpm hf) inv.pOk key plen hq hfull

/-- `Get` through the non-unique LPM index returns the match with the least primary key -/
theorem C04_lpm_get_least_primary_key (B : Nat) (t : TableS) (inv : IdxInv B t) (hf : t.full = true)
    (key : Key) (plen : Nat) (hq : LKeyOk (key, plen))
    (hfull : ∀ pk x, t.primary.get pk = some x → ∀ k ∈ x.pfxs, k.2 ≤ plen)
    (hne : qList t .lpm key plen ≠ []) :
    ∃ x, qGet t .lpm key plen = some x ∧ x ∈ qList t .lpm key plen ∧
      ∀ y ∈ qList t .lpm key plen, y = x ∨ cmpL x.id y.id = .lt :=
  qGet_lpm_least t (inv.lpm hf) inv.pOk key plen hq hfull hne

/-- **`List` / `Get` through the unique LPM index**: nothing if no live object's key covers the query,
    otherwise THE live object having the longest covering key -/
theorem C04_ulpm_list_get (B : Nat) (t : TableS) (inv : IdxInv B t) (hf : t.full = true)
    (key : Key) (plen : Nat) (hq : LKeyOk (key, plen))
    (hfull : ∀ pk x, t.primary.get pk = some x → ∀ k ∈ x.upKey, k.2 ≤ plen) :
    ((∀ pk x, t.primary.get pk = some x → ∀ k ∈ x.upKey.map normKey,
        ¬ Lpm.Covers k.1 k.2 (Lpm.maskData key plen) plen) ∧
      qList t .ulpm key plen = [] ∧ qGet t .ulpm key plen = none) ∨
    (∃ d' p' x, Lpm.Covers d' p' (Lpm.maskData key plen) plen ∧
      (∀ pk y, t.primary.get pk = some y → ∀ k ∈ y.upKey.map normKey,
        Lpm.Covers k.1 k.2 (Lpm.maskData key plen) plen → k.2 ≤ p') ∧
      t.primary.get x.id = some x ∧ (d', p') ∈ x.upKey.map normKey ∧
      (∀ y, t.primary.get y.id = some y → (d', p') ∈ y.upKey.map normKey → y = x) ∧
      qList t .ulpm key plen = [x] ∧ qGet t .ulpm key plen = some x) :=
  qList_ulpm_spec t (inv.ulpm hf) inv.pOk key plen hq hfull

/-- querying with a prefix of a live object (`QueryFromObject`; no restriction on the other prefixes):
    exactly the live objects having that prefix, in ascending primary-key order, the object among them;
    on the unique index the object itself -/
theorem C04_lpm_list_own_key (B : Nat) (t : TableS) (inv : IdxInv B t) (hf : t.full = true)
    (x : Obj) (hx : x ∈ qAll t) :
    (∀ k ∈ x.pfxs,
      (∀ y, y ∈ qList t .lpm k.1 k.2 ↔ y ∈ qAll t ∧ normKey k ∈ y.pfxs.map normKey) ∧
      (qList t .lpm k.1 k.2).Pairwise (fun a b => cmpL a.id b.id = .lt) ∧ x ∈ qList t .lpm k.1 k.2) ∧
    (∀ k ∈ x.upKey, qList t .ulpm k.1 k.2 = [x] ∧ qGet t .ulpm k.1 k.2 = some x) := by
  have hx' := ((C04_all_exact_and_ordered B t inv).2 x).mp hx
  constructor
  · intro k hk
    obtain ⟨h1, h2, h3⟩ := qList_lpm_own_key t (inv.lpm hf) inv.pOk x.id x hx' k hk
    refine ⟨fun y => ?_, h2, h3⟩
    rw [h1, (C04_all_exact_and_ordered B t inv).2]
  · intro k hk
    exact qList_ulpm_own_key t (inv.ulpm hf) inv.pOk x.id x hx' k hk

/-- **`Prefix` through the LPM indexes**: exactly the live objects with a prefix covered by the query
    (an object once per covered prefix); the underlying (prefix, object) pairs are strictly ascending in
    (index key, primary key) -/
theorem C04_lpm_prefix (B : Nat) (t : TableS) (inv : IdxInv B t) (hf : t.full = true)
    (key : Key) (plen : Nat) (hq : LKeyOk (key, plen)) :
    (∃ l : List (Key × Nat × Obj), qPrefix t .lpm key plen = l.map (·.2.2) ∧ l.Pairwise pairLt ∧
      (∀ d p x, (d, p, x) ∈ l ↔ t.primary.get x.id = some x ∧ (d, p) ∈ x.pfxs.map normKey ∧
        Lpm.Covers (Lpm.maskData key plen) plen d p) ∧
      ∀ x, x ∈ qPrefix t .lpm key plen ↔
        t.primary.get x.id = some x ∧ ∃ k ∈ x.pfxs.map normKey, Lpm.Covers (Lpm.maskData key plen) plen k.1 k.2) ∧
    (∃ l : List (Key × Nat × Obj), qPrefix t .ulpm key plen = l.map (·.2.2) ∧ l.Pairwise pairLt ∧
      (∀ d p x, (d, p, x) ∈ l ↔ t.primary.get x.id = some x ∧ (d, p) ∈ x.upKey.map normKey ∧
        Lpm.Covers (Lpm.maskData key plen) plen d p) ∧
      ∀ x, x ∈ qPrefix t .ulpm key plen ↔
        t.primary.get x.id = some x ∧ ∃ k ∈ x.upKey.map normKey, Lpm.Covers (Lpm.maskData key plen) plen k.1 k.2) :=
  ⟨qPrefix_lpm_spec t (inv.lpm hf) inv.pOk key plen hq, qPrefix_ulpm_spec t (inv.ulpm hf) inv.pOk key plen hq⟩

/-- **`LowerBound` through the LPM indexes**: the full ascending listing of (prefix, live object) pairs
    splits into the pairs whose prefix is below the query (`Lpm.keyLt`) and the pairs `LowerBound` yields,
    none of which is below the query -/
theorem C04_lpm_lowerBound (B : Nat) (t : TableS) (inv : IdxInv B t) (hf : t.full = true)
    (key : Key) (plen : Nat) (hq : LKeyOk (key, plen)) :
    (∃ pre l : List (Key × Nat × Obj), qLowerBound t .lpm key plen = l.map (·.2.2) ∧
      (pre ++ l).Pairwise pairLt ∧
      (∀ d p x, (d, p, x) ∈ pre ++ l ↔ t.primary.get x.id = some x ∧ (d, p) ∈ x.pfxs.map normKey) ∧
      (∀ a ∈ pre, Lpm.keyLt a.1 a.2.1 (Lpm.maskData key plen) plen) ∧
      (∀ a ∈ l, ¬ Lpm.keyLt a.1 a.2.1 (Lpm.maskData key plen) plen)) ∧
    (∃ pre l : List (Key × Nat × Obj), qLowerBound t .ulpm key plen = l.map (·.2.2) ∧
      (pre ++ l).Pairwise pairLt ∧
      (∀ d p x, (d, p, x) ∈ pre ++ l ↔ t.primary.get x.id = some x ∧ (d, p) ∈ x.upKey.map normKey) ∧
      (∀ a ∈ pre, Lpm.keyLt a.1 a.2.1 (Lpm.maskData key plen) plen) ∧
      (∀ a ∈ l, ¬ Lpm.keyLt a.1 a.2.1 (Lpm.maskData key plen) plen)) :=
  ⟨qLowerBound_lpm_spec t (inv.lpm hf) inv.pOk key plen hq, qLowerBound_ulpm_spec t (inv.ulpm hf) inv.pOk key plen hq⟩

/-! ## key-changing updates and deletes, seen through the queries -/

/-- after a successful Insert / Modify / CompareAndSwap the secondary indexes describe the new version
    only: a tag query finds the written version iff it carries the tag now (whatever the replaced version
    carried), the unique index finds it under its new key only, and all other objects are found as before -/
theorem C04_queries_after_modify (B : Nat) (hB : B ≤ 65536) (t : TableS) (inv : IdxInv B t) (guard : Nat)
    (o : Obj) (merge : Bool) (ho : ObjOk B o) (hu : t.full = true → UniqOk t o) (hl : t.locked = true)
    (hg : GuardOk guard (t.primary.get o.id)) (key : Key) (x : Obj) :
    (x ∈ qList (modify t guard o merge).1 .tags key 0 ↔
      (x = newObj t o merge ∧ key ∈ o.tags) ∨ (x.id ≠ o.id ∧ x ∈ qList t .tags key 0)) ∧
    (t.full = true → (qGet (modify t guard o merge).1 .u key 0 = some x ↔
      (x = newObj t o merge ∧ key = o.ukey) ∨ (x.id ≠ o.id ∧ qGet t .u key 0 = some x))) := by
  have inv' := inv.modify_preserves guard o merge ho hu
  obtain ⟨t', h, hm⟩ := modify_ok t guard o merge hl hg
  rw [h] at inv'
  rw [h]
  simp only
  have hget : ∀ k, t'.primary.get k = if k = o.id then some (newObj t o merge) else t.primary.get k := by
    intro k; rw [hm.primary, get_insert]
  constructor
  · rw [inv'.tag.mem_qList (inv'.idLen.mono hB), inv.tag.mem_qList (inv.idLen.mono hB), hget]
    by_cases hx : x.id = o.id
    · simp only [hx, if_true, ne_eq, not_true_eq_false, false_and, or_false, Option.some.injEq]
      constructor
      · rintro ⟨h1, h2⟩; subst h1; exact ⟨rfl, by simpa using h2⟩
      · rintro ⟨h1, h2⟩; subst h1; exact ⟨rfl, by simpa using h2⟩
    · simp only [hx, if_false, ne_eq, not_false_eq_true, true_and]
      constructor
      · intro h1; exact Or.inr h1
      · rintro (⟨h1, _⟩ | h1)
        · subst h1; simp at hx
        · exact h1
  · intro hf
    have hf' : t'.full = true := by rw [hm.full]; exact hf
    rw [(inv'.u hf').qGet_iff, (inv.u hf).qGet_iff, hget]
    by_cases hx : x.id = o.id
    · simp only [hx, if_true, ne_eq, not_true_eq_false, false_and, or_false, Option.some.injEq]
      constructor
      · rintro ⟨h1, h2⟩; subst h1; exact ⟨rfl, by simpa using h2.symm⟩
      · rintro ⟨h1, h2⟩; subst h1; exact ⟨rfl, by simp [h2]⟩
    · simp only [hx, if_false, ne_eq, not_false_eq_true, true_and]
      constructor
      · intro h1; exact Or.inr h1
      · rintro (⟨h1, _⟩ | h1)
        · subst h1; simp at hx
        · exact h1

/-- after a successful Delete / CompareAndDelete no query through a secondary index returns the deleted
    object, and all other objects are found as before -/
theorem C04_queries_after_delete (B : Nat) (hB : B ≤ 65536) (t : TableS) (inv : IdxInv B t) (guard : Nat)
    (id : Key) (old : Obj) (hl : t.locked = true) (hs : t.primary.get id = some old)
    (hg : guard = 0 ∨ old.rev = guard) (key : Key) (x : Obj) :
    (x ∈ qList (delete t guard id).1 .tags key 0 ↔ x.id ≠ id ∧ x ∈ qList t .tags key 0) ∧
    (t.full = true → (qGet (delete t guard id).1 .u key 0 = some x ↔ x.id ≠ id ∧ qGet t .u key 0 = some x)) := by
  have inv' := inv.delete_preserves guard id
  obtain ⟨t', h, hd⟩ := delete_ok t guard id hl old hs hg
  rw [h] at inv'
  rw [h]
  simp only
  have hget : ∀ k, t'.primary.get k = if k = id then none else t.primary.get k := by
    intro k; rw [hd.primary, get_erase _ inv.pOk.sorted]
  constructor
  · rw [inv'.tag.mem_qList (inv'.idLen.mono hB), inv.tag.mem_qList (inv.idLen.mono hB), hget]
    by_cases hx : x.id = id <;> simp [hx]
  · intro hf
    have hf' : t'.full = true := by rw [hd.full]; exact hf
    rw [(inv'.u hf').qGet_iff, (inv.u hf).qGet_iff, hget]
    by_cases hx : x.id = id <;> simp [hx]

/-! ## the uint16 bound is needed -/

/-- **finding (related to K2).**  Without the bound `|enc id| < 65536` "none missing" is FALSE for `List` /
    `Get` through the non-unique index: the composite key stores the escaped primary-key length in a uint16,
    `nonUniqueKey.primaryLen` reads it back modulo 2^16, and `secondaryLen` is then off by 2^16, so the
    exact-length filter of `List` skips the entry.  Witness: the table holding one object whose primary key
    is 65536 bytes `0x02`, tagged `[5]`: the invariant holds (with `B = 65537`), the object is live and has
    the tag, but `List [5]` does not return it. -/
theorem C04_tags_list_long_primary_refuted :
    ∃ (t : TableS) (x : Obj) (key : Key), IdxInv 65537 t ∧ x ∈ qAll t ∧ key ∈ x.tags ∧ x ∉ qList t .tags key 0 := by
  let big : Obj :=
    { id := List.replicate 65536 2, val := 0, uvar := 0, tags := [[5]], pfxs := [], up := false, ord := 0, rev := 0 }
  have hlen : (P.enc big.id).length = 65536 := by
    show (P.enc (List.replicate 65536 2)).length = 65536
    rw [enc_replicate_two, List.length_replicate]
  have hb : ∀ b ∈ big.id, b < 256 := by
    intro b hb
    have : b = 2 := List.eq_of_mem_replicate hb
    omega
  obtain ⟨t, x, h⟩ := long_primary_missing big [5] rfl hlen hb
    (fun k hk => by have : big.pfxs = [] := rfl; rw [this] at hk; simp at hk)
  exact ⟨t, x, [5], h⟩

/-! ## non-vacuity -/

private def oA : Obj :=
  { id := [], val := 5, uvar := 0, tags := [[3], []], pfxs := [([10, 1], 16)], up := true, ord := 7, rev := 0 }
private def oB : Obj :=
  { id := [1, 0, 255], val := 7, uvar := 1, tags := [[3], [3, 0], [3]], pfxs := [([10, 1, 200], 16), ([10], 8)],
    up := true, ord := 8, rev := 0 }
private def oC : Obj := { id := [2], val := 1, uvar := 0, tags := [[3]], pfxs := [], up := false, ord := 2, rev := 0 }
/-- a key-changing update of `oA`: other unique key, tags `[3]` and `[]` dropped, tag `[0]` added, other prefix -/
private def oA' : Obj := { oA with uvar := 2, tags := [[0]], pfxs := [([10, 2], 16)] }
private def t0 : TableS := { locked := true }
private def opsEx : List Op :=
  [.modify 0 oA false, .modify 0 oB false, .modify 0 oC false, .modify 0 oA' false, .delete 0 [2], .delete 0 [9]]

private theorem opsEx_ok : RunOk 256 t0 opsEx :=
  ⟨⟨by decide, fun _ => UniqOk_of_all _ _ (by decide)⟩, ⟨by decide, fun _ => UniqOk_of_all _ _ (by decide)⟩,
   ⟨by decide, fun _ => UniqOk_of_all _ _ (by decide)⟩, ⟨by decide, fun _ => UniqOk_of_all _ _ (by decide)⟩,
   trivial, trivial, trivial⟩

/-- the invariants hold on a concrete run with the empty key, keys containing 0x00 / 0xff, duplicate
    tags, prefixes that coincide after masking, a key-changing update and a delete … -/
example : IdxInv 256 (run t0 opsEx) ∧ TInv (run t0 opsEx) :=
  ⟨C04_inv_reachable 256 t0 (C04_inv_initial 256 t0 rfl rfl rfl rfl rfl) opsEx opsEx_ok,
   C03_inv_reachable t0 (TInv.empty t0 rfl rfl (by decide)) opsEx (by decide)⟩

/-- … and the queries evaluate as the theorems say -/
example :
    (qAll (run t0 opsEx)).map (·.id) = [[], [1, 0, 255]] ∧
    (qList (run t0 opsEx) .tags [3] 0).map (·.id) = [[1, 0, 255]] ∧
    (qList (run t0 opsEx) .tags [0] 0).map (·.id) = [[]] ∧
    (qList (run t0 opsEx) .tags [] 0) = [] ∧
    (qPrefix (run t0 opsEx) .tags [3] 0).map (·.id) = [[1, 0, 255]] ∧
    (qLowerBound (run t0 opsEx) .tags [] 0).map (·.id) = [[], [1, 0, 255]] ∧
    (tagTriples (run t0 opsEx).tagIdx).map (fun tr => (tr.1, tr.2.1)) =
      [([0], []), ([3], [1, 0, 255]), ([3, 0], [1, 0, 255])] ∧
    (qGet (run t0 opsEx) .u (oA'.ukey) 0).map (·.id) = some [] ∧
    qGet (run t0 opsEx) .u (oA.ukey) 0 = none ∧
    (lpmPairs (Lpm.preorder (run t0 opsEx).lpm.t)).map (fun a => (a.1, a.2.1, a.2.2.id)) =
      [([10], 8, [1, 0, 255]), ([10, 1], 16, [1, 0, 255]), ([10, 2], 16, [])] ∧
    (qList (run t0 opsEx) .lpm [10, 2, 3] 24).map (·.id) = [[]] ∧
    (qList (run t0 opsEx) .lpm [10, 3, 3] 24).map (·.id) = [[1, 0, 255]] ∧
    (qList (run t0 opsEx) .ulpm [0, 7] 16).map (·.id) = [[]] ∧
    numObjects (run t0 opsEx) = 2 := by decide

/-- a reachable database state with a committed snapshot and an open write transaction that has
    already changed a key: `C04_db_inv_reachable` applies to both -/
example : IReach 256 (((((newDB.step (.beginW true true)).step (.modify 0 0 oC false)).step .commit).step
    (.beginW true false)).step (.modify 0 0 { oC with tags := [[]] } false)) := by
  refine IReach.step _ (IReach.step _ (IReach.step _ (IReach.step _ (IReach.step _ IReach.init ?_ ?_) ?_ ?_) ?_ ?_) ?_ ?_) ?_ ?_
  all_goals first
    | exact DB.bounded_of_boundedB _ (by decide)
    | exact trivial
    | (refine ⟨by decide, ?_⟩; split <;> first | exact trivial | exact fun _ => UniqOk_of_not_up _ _ rfl)

end Sdb
