import SdbModel.Model.Reconciler
import SdbModel.Generated.RecParams

/-!
# C15 — Reconciler status write-back never misreports or clobbers

> The reconciler marks an object Done or Error only for the version it
> actually passed to Update: if the object was changed or deleted while the
> operation ran, the stale result is dropped, the newer version is neither
> overwritten nor lost nor a deleted object re-created (…).  Its writes change
> nothing but the status of the object (…).

Decision logic of `commitStatus` stated outright over `Model.Reconciler`
(`R.commitOne` is one iteration of its loop).
-/
namespace Sdb
open Rec

private theorem retryAdd_objs (r : R) (o : RObj) (a b : Nat) (d : Bool) : (r.retryAdd o a b d).objs = r.objs := rfl

private theorem find_map_other (l : List RObj) (n : RObj) (k id : Nat) (hn : n.id = k) (h : id ≠ k) :
    (l.map fun x => if x.id = k then n else x).find? (fun x => decide (x.id = id)) = l.find? (fun x => decide (x.id = id)) := by
  induction l with
  | nil => rfl
  | cons x xs ih =>
    simp only [List.map_cons, List.find?_cons]
    by_cases hx : x.id = k
    · have h1 : ¬ (n.id = id) := by rw [hn]; exact fun e => h e.symm
      have h2 : ¬ (x.id = id) := by rw [hx]; exact fun e => h e.symm
      have h3 : ¬ (k = id) := fun e => h e.symm
      simp [hx, h1, h3, ih]
    · simp [hx, ih]

private theorem get_setObj_other (r : R) (o : RObj) (id : Nat) (h : id ≠ o.id) : (r.setObj o).get id = r.get id := by
  unfold R.setObj R.get
  simp only
  split
  · exact find_map_other r.objs _ o.id id rfl h
  · rw [List.find?_append]
    have : ¬ (o.id = id) := fun e => h e.symm
    simp [this]

/-- a status is written only for the version that was reconciled: either the
    object still has the revision it was read at, or only its status changed and
    it still carries the same pending id -/
theorem C15_status_only_for_reconciled_version (r : R) (res : RObj × RObj × Nat × Nat × Bool)
    (hchg : (r.commitOne res).objs ≠ r.objs) :
    ∃ cur, r.get res.1.id = some cur ∧
      (cur.rev = res.2.2.1 ∨ (cur.kind = .pending ∧ cur.sid = res.2.2.2.1)) := by
  obtain ⟨obj, orig, rev, sid, failed⟩ := res
  unfold R.commitOne at hchg
  simp only at hchg ⊢
  split at hchg
  · exact absurd rfl hchg
  · rename_i cur hcur
    refine ⟨cur, hcur, ?_⟩
    by_cases h1 : cur.rev = rev
    · exact Or.inl h1
    · by_cases h2 : cur.kind = .pending ∧ cur.sid = sid
      · exact Or.inr h2
      · simp [h1, h2] at hchg

/-- a stale result (object changed: other revision, and not merely its status)
    is dropped: the table is untouched -/
theorem C15_stale_result_dropped (r : R) (obj orig : RObj) (rev sid : Nat) (failed : Bool) (cur : RObj)
    (hcur : r.get obj.id = some cur) (hrev : cur.rev ≠ rev)
    (hst : ¬ (cur.kind = .pending ∧ cur.sid = sid)) :
    (r.commitOne (obj, orig, rev, sid, failed)).objs = r.objs ∧
    (r.commitOne (obj, orig, rev, sid, failed)).tableRev = r.tableRev := by
  unfold R.commitOne
  simp [hcur, hrev, hst]

/-- a deleted object is never re-created by a status write -/
theorem C15_deleted_not_recreated (r : R) (res : RObj × RObj × Nat × Nat × Bool)
    (hdel : r.get res.1.id = none) : (r.commitOne res) = r := by
  obtain ⟨obj, orig, rev, sid, failed⟩ := res
  unfold R.commitOne
  simp only at hdel ⊢
  rw [hdel]

/-- a status write never touches another object -/
theorem C15_other_objects_untouched (r : R) (res : RObj × RObj × Nat × Nat × Bool) (id : Nat)
    (h : id ≠ res.1.id) : (r.commitOne res).get id = r.get id := by
  obtain ⟨obj, orig, rev, sid, failed⟩ := res
  unfold R.commitOne
  simp only at h ⊢
  split
  · rfl
  · rename_i cur hcur
    have hid : cur.id = obj.id := by
      unfold R.get at hcur
      have := List.find?_some hcur
      simpa using this
    split
    · split
      · unfold R.get; rw [retryAdd_objs]; exact get_setObj_other r _ id h
      · exact get_setObj_other r _ id h
    · split
      · split
        · unfold R.get; rw [retryAdd_objs]; exact get_setObj_other r _ id (by simp [hid, h])
        · exact get_setObj_other r _ id (by simp [hid, h])
      · rfl

/-- through the "only the status changed" path the write keeps every field of
    the CURRENT object except the status (so a foreign writer's change survives) -/
theorem C15_fallback_keeps_current_fields (r : R) (obj orig : RObj) (rev sid : Nat) (cur : RObj)
    (hcur : r.get obj.id = some cur) (hrev : cur.rev ≠ rev) (hst : cur.kind = .pending ∧ cur.sid = sid) :
    ∃ o', (r.commitOne (obj, orig, rev, sid, false)).get obj.id = some o' ∧
      o'.data = cur.data ∧ o'.other = cur.other ∧ o'.id = cur.id ∧ o'.kind = .done := by
  have hid : cur.id = obj.id := by
    unfold R.get at hcur
    have := List.find?_some hcur
    simpa using this
  unfold R.commitOne
  simp only [hcur, hrev, hst, and_self, if_true, if_false]
  simp only [Bool.false_eq_true, if_false]
  unfold R.setObj R.get
  simp only
  have hany : r.objs.any (fun x => decide (x.id = cur.id)) = true := by
    unfold R.get at hcur
    rw [List.any_eq_true]
    exact ⟨cur, List.mem_of_find?_eq_some hcur, by simp⟩
  simp only [hany, if_true]
  -- the mapped list contains the rewritten object at cur's position
  have : ∀ (l : List RObj) (n : RObj), (l.any fun x => decide (x.id = cur.id)) = true → n.id = cur.id →
      ((l.map fun x => if x.id = cur.id then n else x).find? fun x => decide (x.id = obj.id)) = some n := by
    intro l n hl hn
    induction l with
    | nil => simp at hl
    | cons x xs ih =>
      simp only [List.map_cons, List.find?_cons]
      by_cases hx : x.id = cur.id
      · simp [hx, hn, hid]
      · have hx' : ¬ x.id = obj.id := by rw [← hid]; exact hx
        simp only [hx, if_false, hx', decide_false]
        simp only [List.any_cons, hx, decide_false, Bool.false_or] at hl
        exact ih hl
  refine ⟨_, this r.objs _ hany rfl, rfl, rfl, rfl, rfl⟩

/-! ## non-vacuity -/
example :
    let r : R := ({} : R).userPut 1 5
    (r.commitOne ((r.get 1).get!, (r.get 1).get!, 1, 1, false)).objs.map (·.kind) = [.done] := by decide

/-- the structural facts about reconciler/incremental.go and reconciler/retries.go that the model
    builds in — the conditions under which `commitStatus` writes a status and queues a retry (`R.commitOne`) — hold of the source as it is today (regenerated by `tools/extract` on every run) -/
theorem C15_source_facts : Gen.recFacts = Rec.expectedFacts := by decide

end Sdb
