import SdbModel.Model.Reconciler
/-! # C15 — theorems under construction (see DESIGN.md section 4) -/
namespace Sdb
end Sdb
