import SdbModel.Lemmas.ArtTxn
import SdbModel.Lemmas.ArtInv
import SdbModel.Lemmas.ArtMulti
import SdbModel.Lemmas.ArtRootOnly
import SdbModel.Generated.ArtParams

/-!
# C12 — part.Tree watch channels close exactly on notification of relevant changes

> After a part.Tree transaction is committed and notified, the previous tree's
> root watch channel is closed if the transaction inserted, modified or deleted
> any key and is left open otherwise (deleting an absent key is not a change),
> the channel returned earlier by Get(k) is closed if k was inserted, replaced
> or deleted, and the channel returned by Prefix(p) is closed if any key
> starting with p was; channels from InsertWatch/ModifyWatch close when that key
> is next changed. No watch channel is closed when handed out, before Notify, or
> by a transaction that is abandoned.

Theorems over `Model.Art` (the executable model of part/txn.go, node.go,
iterator.go, tree.go that the differential harness runs against the Go code),
for EVERY tree shape, key (including the empty key), value, modify function
and node-kind parameter set.

* must-close, one call: for a change made while no node of the tree is owned
  by the transaction (`TxnFresh`: the state right after `Tree.Txn()` on any
  committed tree - stamp invariant `TreeWF`, proved for every reachable tree -
  and after every call that bumps the transaction id) the Get / Prefix channel
  is recorded by insert / delete (all shapes) and closed by Commit + Notify;
* must-close, any number of calls (`…_any_calls`): for a transaction opened on
  a committed tree, via the invariant "nodes owned by the transaction carry
  fresh channels" and a frame lemma (a call on another key keeps or records
  the channel of a watched key);
* root watch closed iff some call changed the tree; nothing closed otherwise;
* `World.closed` only changes at Notify (sessions with Commit / abandon);
* not handed out closed: the channel invariant `TreeInv` (channels of a tree
  pairwise distinct, allocated, open) is preserved by whole transactions and
  holds along every linear history (`Hist`);
* InsertWatch / ModifyWatch: the returned channel is the Get channel of the
  key on the new tree, open after Commit + Notify, closed by the next change.

Not covered (restriction of the library, witnessed by
`C12_in_txn_channel_after_own_write_not_closed_refuted`): a channel obtained
from an open transaction AFTER it has modified the tree, with respect to later
calls of the SAME transaction made without an id bump in between - nodes owned
by the transaction are updated in place and their channels are not recorded.
-/
namespace Sdb
open Art ArtW

/-! ## 1. path closure at the node level (all shapes) -/

/-- **Get(k) channel vs. insert/modify of k**: the channel `search` hands out for
    `k` on a subtree none of whose nodes is owned by the transaction is recorded
    for closing by the insert of `k` into it, unless it is the inherited (root)
    watch `w0` -/
theorem C12_get_channel_recorded_by_insert (P : ArtParams) (st : St) (n : Node) (k full : List Nat) (v : Nat)
    (mod : Option (Nat → Nat → Nat)) (w0 : Nat) (hs : Stamps (· ≠ st.txnID) n) :
    (searchNode n w0 k).2 = w0 ∨ (searchNode n w0 k).2 ∈ (insNode P st n k full v mod).st.pending :=
  insNode_closes P st n k full v mod w0 hs

/-- **Get(k) channel vs. delete of a present k** (all cases of removeChild) -/
theorem C12_get_channel_recorded_by_delete (P : ArtParams) (st : St) (n : Node) (k : List Nat) (w0 : Nat) (st' : St)
    (hs : Stamps (· ≠ st.txnID) n) (hdel : delSt (delNode P st n k) = some st') :
    (searchNode n w0 k).2 = w0 ∨ (searchNode n w0 k).2 ∈ st'.pending :=
  delNode_closes P st n k w0 st' hs hdel

/-- **Prefix(p) channel vs. insert/modify of any key starting with p** -/
theorem C12_prefix_channel_recorded_by_insert (P : ArtParams) (st : St) (n : Node) (k full : List Nat) (v : Nat)
    (mod : Option (Nat → Nat → Nat)) (w0 : Nat) (p : List Nat) (hs : Stamps (· ≠ st.txnID) n)
    (hkp : hasPrefix k p = true) :
    (prefixNode n w0 p).2 = w0 ∨ (prefixNode n w0 p).2 ∈ (insNode P st n k full v mod).st.pending :=
  insNode_closes_prefix P st n k full v mod w0 p hs hkp

/-- **Prefix(p) channel vs. delete of a present key starting with p** -/
theorem C12_prefix_channel_recorded_by_delete (P : ArtParams) (st : St) (n : Node) (k : List Nat) (w0 : Nat)
    (p : List Nat) (st' : St) (hs : Stamps (· ≠ st.txnID) n) (hkp : hasPrefix k p = true)
    (hdel : delSt (delNode P st n k) = some st') :
    (prefixNode n w0 p).2 = w0 ∨ (prefixNode n w0 p).2 ∈ st'.pending :=
  delNode_closes_prefix P st n k w0 p st' hs hkp hdel

/-! ## the stamp precondition is an invariant -/

/-- every tree a client can hold (new, or Commit/Clone of a transaction opened
    on such a tree after any calls) has all stamps below its `nextTxnID` -/
theorem C12_stamps_below_next_id_reachable (P : ArtParams) (t : Tree) (h : Reach P t) : TreeWF t := h.wf

/-- … hence a transaction opened on it owns no node -/
theorem C12_new_txn_owns_nothing (P : ArtParams) (t : Tree) (h : Reach P t) (wd : World) : TxnFresh (t.txn wd) :=
  (h.wf.txn wd).2

/-- … and neither does a transaction right after a call that bumps its id -/
theorem C12_bumped_txn_owns_nothing (P : ArtParams) (t : Tree) (h : Reach P t) (wd : World) (ops : List Op) :
    TxnFresh (run P (t.txn wd) ops).bump :=
  (((h.wf.txn wd).1.run P ops).bump).2

/-! ## 2. root watch, and the closure lifted to Commit + Notify -/

/-- Notify closes exactly the recorded channels and, iff dirty, the old root watch -/
theorem C12_notify_closes_exactly (x : Txn) (wd : World) (c : Nat) :
    c ∈ (x.notify wd).2.closed ↔
      c ∈ wd.closed ∨ c ∈ x.st.pending ∨ (x.dirty = true ∧ x.rootWatch ≠ 0 ∧ c = x.rootWatch) :=
  notify_closed x wd c

/-- a transaction is dirty iff one of its calls changed the tree (Insert/Modify
    always, Delete only of a present key) -/
theorem C12_dirty_iff_some_change (P : ArtParams) (t : Tree) (wd : World) (ops : List Op) :
    (run P (t.txn wd) ops).dirty = anyChange P (t.txn wd) ops := by
  rw [run_dirty]; rfl

theorem C12_delete_absent_is_no_change (P : ArtParams) (x : Txn) (k : List Nat) (h : (x.delete P k).2 = none) :
    (x.delete P k).1 = x := delete_absent P x k h

/-- **root watch closed if anything changed**, whether Notify runs before or after Commit -/
theorem C12_root_watch_closed_if_changed (P : ArtParams) (t : Tree) (wd wd' wd'' : World) (ops : List Op)
    (hrw : t.rootWatch ≠ 0) (hch : anyChange P (t.txn wd) ops = true) :
    t.rootWatch ∈ (((run P (t.txn wd) ops).commit wd').1.notify wd'').2.closed ∧
    t.rootWatch ∈ ((run P (t.txn wd) ops).notify wd'').2.closed := by
  have hd : (run P (t.txn wd) ops).dirty = true := by rw [C12_dirty_iff_some_change, hch]
  have hl := later_run P (t.txn wd) ops
  constructor
  · exact closed_of_later (later_commit _ wd') wd'' _ hrw hd (Or.inl hl.rw.symm)
  · exact closed_of_later (Later.refl _) wd'' _ hrw hd (Or.inl hl.rw.symm)

/-- **root watch closed iff something changed** (for a root watch that is a real,
    still open channel) -/
theorem C12_root_watch_closed_iff_changed (P : ArtParams) (t : Tree) (wd wd' wd'' : World) (ops : List Op)
    (hrw : t.rootWatch ≠ 0) (hopen : t.rootWatch ∉ wd''.closed) :
    t.rootWatch ∈ (((run P (t.txn wd) ops).commit wd').1.notify wd'').2.closed ↔
      anyChange P (t.txn wd) ops = true := by
  constructor
  · intro hc
    cases hch : anyChange P (t.txn wd) ops with
    | true => rfl
    | false =>
      exfalso
      have hd : (run P (t.txn wd) ops).dirty = false := by rw [C12_dirty_iff_some_change, hch]
      obtain ⟨_, _, h3⟩ := run_unchanged P (t.txn wd) ops hch
      rw [notify_closed] at hc
      have hp : ((run P (t.txn wd) ops).commit wd').1.st.pending = [] := h3
      have hd' : ((run P (t.txn wd) ops).commit wd').1.dirty = false := hd
      simp [hp, hd'] at hc
      exact hopen hc
  · intro hch
    exact (C12_root_watch_closed_if_changed P t wd wd' wd'' ops hrw hch).1

/-- **left open otherwise**: a transaction none of whose calls changed the tree
    closes nothing at all -/
theorem C12_nothing_closed_if_unchanged (P : ArtParams) (t : Tree) (wd wd' wd'' : World) (ops : List Op)
    (hch : anyChange P (t.txn wd) ops = false) (c : Nat) :
    (c ∈ (((run P (t.txn wd) ops).commit wd').1.notify wd'').2.closed ↔ c ∈ wd''.closed) ∧
    ((run P (t.txn wd) ops).commit wd').2.1.rootWatch = t.rootWatch := by
  have hd : (run P (t.txn wd) ops).dirty = false := by rw [C12_dirty_iff_some_change, hch]
  obtain ⟨_, h2, h3⟩ := run_unchanged P (t.txn wd) ops hch
  constructor
  · rw [notify_closed]
    have : ((run P (t.txn wd) ops).commit wd').1.st.pending = [] := h3
    have hd' : ((run P (t.txn wd) ops).commit wd').1.dirty = false := hd
    simp [this, hd']
  · simp only [Txn.commit, hd]
    exact h2

/-- **Get(k) channel closed after insert/modify of k, Commit and Notify**: `x` is
    the open transaction (no node owned), `c` the channel Get(k) returns on it -
    on a freshly opened transaction that is the channel `Tree.Get(k)` returned on
    the committed tree.  Any further calls may follow before Commit. -/
theorem C12_get_channel_closed_after_insert (P : ArtParams) (x : Txn) (hf : TxnFresh x) (k : List Nat) (v : Nat)
    (mod : Option (Nat → Nat → Nat)) (ops : List Op) (wd' wd'' : World)
    (hc0 : (getRoot x.root x.rootWatch k).2 ≠ 0) :
    (getRoot x.root x.rootWatch k).2 ∈
      (((run P (x.insert P k v mod).1 ops).commit wd').1.notify wd'').2.closed := by
  have hl := (later_run P (x.insert P k v mod).1 ops).trans (later_commit _ wd')
  refine closed_of_later hl wd'' _ hc0 (insert_dirty ..) ?_
  rcases txn_insert_closes_get P x k v mod hf with h | h
  · left; rw [h]; exact (later_insert P x k v mod).rw.symm
  · right; exact h

/-- the same for Delete of a present key -/
theorem C12_get_channel_closed_after_delete (P : ArtParams) (x : Txn) (hf : TxnFresh x) (k : List Nat)
    (ops : List Op) (wd' wd'' : World) (hpres : (x.delete P k).2 ≠ none)
    (hc0 : (getRoot x.root x.rootWatch k).2 ≠ 0) :
    (getRoot x.root x.rootWatch k).2 ∈
      (((run P (x.delete P k).1 ops).commit wd').1.notify wd'').2.closed := by
  have hl := (later_run P (x.delete P k).1 ops).trans (later_commit _ wd')
  obtain ⟨_, _, _, _, _, hd⟩ := delete_present P x k hpres
  refine closed_of_later hl wd'' _ hc0 hd ?_
  rcases txn_delete_closes_get P x k hf hpres with h | h
  · left; rw [h]; exact (later_delete P x k).rw.symm
  · right; exact h

/-- **Prefix(p) channel closed after insert/modify of a key starting with p** -/
theorem C12_prefix_channel_closed_after_insert (P : ArtParams) (x : Txn) (hf : TxnFresh x) (k p : List Nat) (v : Nat)
    (mod : Option (Nat → Nat → Nat)) (ops : List Op) (wd' wd'' : World) (hkp : hasPrefix k p = true)
    (hc0 : (prefixRoot x.root x.rootWatch p).2 ≠ 0) :
    (prefixRoot x.root x.rootWatch p).2 ∈
      (((run P (x.insert P k v mod).1 ops).commit wd').1.notify wd'').2.closed := by
  have hl := (later_run P (x.insert P k v mod).1 ops).trans (later_commit _ wd')
  refine closed_of_later hl wd'' _ hc0 (insert_dirty ..) ?_
  rcases txn_insert_closes_prefix P x k v mod p hf hkp with h | h
  · left; rw [h]; exact (later_insert P x k v mod).rw.symm
  · right; exact h

/-- **Prefix(p) channel closed after delete of a present key starting with p** -/
theorem C12_prefix_channel_closed_after_delete (P : ArtParams) (x : Txn) (hf : TxnFresh x) (k p : List Nat)
    (ops : List Op) (wd' wd'' : World) (hkp : hasPrefix k p = true) (hpres : (x.delete P k).2 ≠ none)
    (hc0 : (prefixRoot x.root x.rootWatch p).2 ≠ 0) :
    (prefixRoot x.root x.rootWatch p).2 ∈
      (((run P (x.delete P k).1 ops).commit wd').1.notify wd'').2.closed := by
  have hl := (later_run P (x.delete P k).1 ops).trans (later_commit _ wd')
  obtain ⟨_, _, _, _, _, hd⟩ := delete_present P x k hpres
  refine closed_of_later hl wd'' _ hc0 hd ?_
  rcases txn_delete_closes_prefix P x k p hf hkp hpres with h | h
  · left; rw [h]; exact (later_delete P x k).rw.symm
  · right; exact h

/-! ## transactions with any number of calls -/

/-- **Get(k) channel, any number of calls**: `t` is a committed tree, the
    transaction makes any calls `ops`; if one of them inserts / modifies `k` or
    deletes a present `k` (`touched`), the channel `Tree.Get(k)` returned on `t`
    is closed by Commit + Notify.  `hlt`: the channel was allocated before the
    transaction started (an invariant of linear histories, see
    `C12_get_channel_closed_any_calls_hist`). -/
theorem C12_get_channel_closed_any_calls (P : ArtParams) (t : Tree) (hwf : TreeWF t) (wd wd' wd'' : World) (k : List Nat)
    (ops : List Op) (hc0 : (getRoot t.root t.rootWatch k).2 ≠ 0)
    (hlt : (getRoot t.root t.rootWatch k).2 < wd.nextW) (ht : touched P (t.txn wd) k ops = true) :
    (getRoot t.root t.rootWatch k).2 ∈ (((run P (t.txn wd) ops).commit wd').1.notify wd'').2.closed ∧
    (getRoot t.root t.rootWatch k).2 ∈ ((run P (t.txn wd) ops).notify wd'').2.closed := by
  have hd : (run P (t.txn wd) ops).dirty = true := by
    rw [C12_dirty_iff_some_change]; exact touched_anyChange P k ops _ ht
  have hl := later_run P (t.txn wd) ops
  have hrec : (getRoot t.root t.rootWatch k).2 = (run P (t.txn wd) ops).rootWatch ∨
      (getRoot t.root t.rootWatch k).2 ∈ (run P (t.txn wd) ops).st.pending := by
    rcases get_channel_recorded_multi P t hwf wd k ops hlt ht with h | h
    · left; rw [h]; exact hl.rw.symm
    · right; exact h
  exact ⟨closed_of_later (later_commit _ wd') wd'' _ hc0 hd hrec, closed_of_later (Later.refl _) wd'' _ hc0 hd hrec⟩

/-- the same along a linear history, where all hypotheses are invariants -/
theorem C12_get_channel_closed_any_calls_hist (P : ArtParams) (wd : World) (t : Tree) (h : Hist P wd t) (k : List Nat)
    (ops : List Op) (hc0 : (getRoot t.root t.rootWatch k).2 ≠ 0) (ht : touched P (t.txn wd) k ops = true) :
    (getRoot t.root t.rootWatch k).2 ∈
      (((run P (t.txn wd) ops).commit wd).1.notify ((run P (t.txn wd) ops).commit wd).2.2).2.closed :=
  (C12_get_channel_closed_any_calls P t h.reach.wf wd wd _ k ops hc0 (h.inv.get_lt k hc0) ht).1

/-- **Prefix(p) channel, any number of calls**: closed by Commit + Notify if one of
    the calls inserts / modifies a key starting with `p`, or deletes a present one -/
theorem C12_prefix_channel_closed_any_calls (P : ArtParams) (t : Tree) (hwf : TreeWF t) (wd wd' wd'' : World)
    (p : List Nat) (ops : List Op) (hc0 : (prefixRoot t.root t.rootWatch p).2 ≠ 0)
    (hlt : (prefixRoot t.root t.rootWatch p).2 < wd.nextW) (ht : touchedP P (t.txn wd) p ops = true) :
    (prefixRoot t.root t.rootWatch p).2 ∈ (((run P (t.txn wd) ops).commit wd').1.notify wd'').2.closed ∧
    (prefixRoot t.root t.rootWatch p).2 ∈ ((run P (t.txn wd) ops).notify wd'').2.closed := by
  have hd : (run P (t.txn wd) ops).dirty = true := by
    rw [C12_dirty_iff_some_change]; exact touchedP_anyChange P p ops _ ht
  have hl := later_run P (t.txn wd) ops
  have hrec : (prefixRoot t.root t.rootWatch p).2 = (run P (t.txn wd) ops).rootWatch ∨
      (prefixRoot t.root t.rootWatch p).2 ∈ (run P (t.txn wd) ops).st.pending := by
    rcases prefix_channel_recorded_multi P t hwf wd p ops hlt ht with h | h
    · left; rw [h]; exact hl.rw.symm
    · right; exact h
  exact ⟨closed_of_later (later_commit _ wd') wd'' _ hc0 hd hrec, closed_of_later (Later.refl _) wd'' _ hc0 hd hrec⟩

theorem C12_prefix_channel_closed_any_calls_hist (P : ArtParams) (wd : World) (t : Tree) (h : Hist P wd t)
    (p : List Nat) (ops : List Op) (hc0 : (prefixRoot t.root t.rootWatch p).2 ≠ 0)
    (ht : touchedP P (t.txn wd) p ops = true) :
    (prefixRoot t.root t.rootWatch p).2 ∈
      (((run P (t.txn wd) ops).commit wd).1.notify ((run P (t.txn wd) ops).commit wd).2.2).2.closed :=
  (C12_prefix_channel_closed_any_calls P t h.reach.wf wd wd _ p ops hc0 (h.inv.prefix_lt p hc0) ht).1

/-! ## 3. never early, never by an abandoned transaction -/

/-- Commit leaves the closed set alone -/
theorem C12_commit_closes_nothing (x : Txn) (wd : World) : (x.commit wd).2.2.closed = wd.closed :=
  commit_closed x wd

/-- in any session - calls on the transaction, Commit, in any order and number -
    that does not contain a Notify, the set of closed channels does not change:
    nothing is closed when handed out, before Notify, or by a transaction that is
    dropped without Notify (`Tree.txn`, `Txn.insert`, `Txn.delete`, `Txn.bump`,
    `Txn.clone` do not even take the World) -/
theorem C12_closed_changes_only_at_notify (P : ArtParams) (s : Sess) (evs : List Ev)
    (h : ∀ e ∈ evs, e ≠ Ev.notify) : (s.run P evs).wd.closed = s.wd.closed :=
  Sess.closed_unchanged P s evs h

/-! ## InsertWatch / ModifyWatch -/

/-- outside root-only mode the channel InsertWatch / ModifyWatch returns is the
    channel Get of that key hands out on the resulting tree -/
theorem C12_insert_watch_is_get_channel (P : ArtParams) (x : Txn) (k : List Nat) (v : Nat)
    (mod : Option (Nat → Nat → Nat)) (rw : Nat) (hro : x.st.rootOnly = false) (h0 : (x.insert P k v mod).2.2.2 ≠ 0) :
    (getRoot (x.insert P k v mod).1.root rw k).2 = (x.insert P k v mod).2.2.2 :=
  txn_insert_watch_eq_get P x k v mod rw hro h0

/-- … and it is a real (non-nil) channel -/
theorem C12_insert_watch_not_nil (P : ArtParams) (x : Txn) (k : List Nat) (v : Nat) (mod : Option (Nat → Nat → Nat))
    (hro : x.st.rootOnly = false) (hnw : 0 < x.st.nextW) (hid : x.st.txnID ≠ 0) : (x.insert P k v mod).2.2.2 ≠ 0 :=
  txn_insert_watch_pos P x k v mod hro hnw hid

/-- **closes when that key is next changed**: commit the transaction after the
    InsertWatch; in the next transaction `y` on the committed tree an insert /
    modify of the key, or a delete of it, followed by anything, Commit and Notify
    closes the channel -/
theorem C12_insert_watch_closed_on_next_change (P : ArtParams) (x : Txn) (hwf : TxnWF x) (k : List Nat) (v : Nat)
    (mod : Option (Nat → Nat → Nat)) (wd wd2 : World) (hro : x.st.rootOnly = false)
    (h0 : (x.insert P k v mod).2.2.2 ≠ 0) :
    let w := (x.insert P k v mod).2.2.2
    let y := ((x.insert P k v mod).1.commit wd).2.1.txn wd2
    (∀ v' mod' ops wd' wd'', w ∈ (((run P (y.insert P k v' mod').1 ops).commit wd').1.notify wd'').2.closed) ∧
    (∀ ops wd' wd'', (y.delete P k).2 ≠ none →
        w ∈ (((run P (y.delete P k).1 ops).commit wd').1.notify wd'').2.closed) := by
  intro w y
  have hyf : TxnFresh y := (((hwf.insert P k v mod).commit wd).txn wd2).2
  have hget : (getRoot y.root y.rootWatch k).2 = w :=
    txn_insert_watch_eq_get P x k v mod _ hro h0
  constructor
  · intro v' mod' ops wd' wd''
    have := C12_get_channel_closed_after_insert P y hyf k v' mod' ops wd' wd'' (by rw [hget]; exact h0)
    rw [hget] at this; exact this
  · intro ops wd' wd'' hpres
    have := C12_get_channel_closed_after_delete P y hyf k ops wd' wd'' hpres (by rw [hget]; exact h0)
    rw [hget] at this; exact this

/-! ## 4. no channel is handed out closed -/

/-- the channel invariant (channels in the tree pairwise distinct, allocated
    and open; the root watch a further open channel; closed channels allocated)
    survives a whole transaction: any calls, Commit, Notify - in both orders -/
theorem C12_channel_invariant_preserved (P : ArtParams) (wd : World) (t : Tree) (h : TreeInv wd t) (ops : List Op) :
    TreeInv (((run P (t.txn wd) ops).commit wd).1.notify ((run P (t.txn wd) ops).commit wd).2.2).2
      ((run P (t.txn wd) ops).commit wd).2.1 ∧
    TreeInv (((run P (t.txn wd) ops).notify wd).1.commit ((run P (t.txn wd) ops).notify wd).2).2.2
      (((run P (t.txn wd) ops).notify wd).1.commit ((run P (t.txn wd) ops).notify wd).2).2.1 :=
  ⟨h.commit_notify P ops, h.notify_commit P ops⟩

/-- it holds along every linear history starting from a new tree -/
theorem C12_channel_invariant_reachable (P : ArtParams) (wd : World) (t : Tree) (h : Hist P wd t) : TreeInv wd t :=
  h.inv

/-- **not handed out closed**: on every tree of a linear history the channels
    returned by Get(k), Prefix(p) and the root watch are not closed -/
theorem C12_handed_out_channels_open (P : ArtParams) (wd : World) (t : Tree) (h : Hist P wd t) :
    (∀ k, (getRoot t.root t.rootWatch k).2 ≠ 0 → (getRoot t.root t.rootWatch k).2 ∉ wd.closed) ∧
    (∀ p, (prefixRoot t.root t.rootWatch p).2 ≠ 0 → (prefixRoot t.root t.rootWatch p).2 ∉ wd.closed) ∧
    (t.rootWatch ≠ 0 → t.rootWatch ∉ wd.closed) :=
  ⟨fun k => h.inv.get_open k, fun p => h.inv.prefix_open p, h.inv.rw_nc⟩

/-- … and neither are the channels Get / Prefix hand out on an OPEN transaction
    after any calls (they are channels of its tree, or the root watch) -/
theorem C12_in_txn_handed_out_channels_open (P : ArtParams) (wd : World) (t : Tree) (h : Hist P wd t)
    (ops : List Op) (k : List Nat) :
    ((getRoot (run P (t.txn wd) ops).root (run P (t.txn wd) ops).rootWatch k).2 ≠ 0 →
      (getRoot (run P (t.txn wd) ops).root (run P (t.txn wd) ops).rootWatch k).2 ∉ wd.closed) ∧
    ((prefixRoot (run P (t.txn wd) ops).root (run P (t.txn wd) ops).rootWatch k).2 ≠ 0 →
      (prefixRoot (run P (t.txn wd) ops).root (run P (t.txn wd) ops).rootWatch k).2 ∉ wd.closed) :=
  h.inv.in_txn_open P ops k

/-- the channel returned by an InsertWatch / ModifyWatch that is the last call
    of a transaction is still open after that transaction's Commit and Notify -/
theorem C12_insert_watch_open_after_commit (P : ArtParams) (wd : World) (t : Tree) (h : Hist P wd t) (ops : List Op)
    (k : List Nat) (v : Nat) (mod : Option (Nat → Nat → Nat)) (hro : t.rootOnly = false)
    (h0 : ((run P (t.txn wd) ops).insert P k v mod).2.2.2 ≠ 0) :
    ((run P (t.txn wd) ops).insert P k v mod).2.2.2 ∉
      (((run P (t.txn wd) (ops ++ [.insert k v mod])).commit wd).1.notify
        ((run P (t.txn wd) (ops ++ [.insert k v mod])).commit wd).2.2).2.closed := by
  have hrun : run P (t.txn wd) (ops ++ [.insert k v mod]) = ((run P (t.txn wd) ops).insert P k v mod).1 := by
    rw [run_append]; rfl
  have hinv := h.inv.commit_notify P (ops ++ [.insert k v mod])
  rw [hrun] at hinv ⊢
  have hro' : (run P (t.txn wd) ops).st.rootOnly = false := (later_run P (t.txn wd) ops).ro.trans hro
  have hget := txn_insert_watch_eq_get P (run P (t.txn wd) ops) k v mod
    (((run P (t.txn wd) ops).insert P k v mod).1.commit wd).2.1.rootWatch hro' h0
  have hopen := hinv.get_open k
  rw [(commit_facts _ wd).2.1, hget] at hopen
  exact hopen h0

/-- **InsertWatch channel along a linear history**: the channel returned by the
    last call (an InsertWatch / ModifyWatch of `k`) of one transaction is closed
    by the next transaction as soon as any of its calls changes `k` again -/
theorem C12_insert_watch_closed_by_next_txn_hist (P : ArtParams) (wd : World) (t : Tree) (h : Hist P wd t)
    (ops : List Op) (k : List Nat) (v : Nat) (mod : Option (Nat → Nat → Nat)) (hro : t.rootOnly = false)
    (h0 : ((run P (t.txn wd) ops).insert P k v mod).2.2.2 ≠ 0) (ops2 : List Op) :
    let x := run P (t.txn wd) (ops ++ [.insert k v mod])
    let t' := (x.commit wd).2.1
    let wd' := ((x.commit wd).1.notify (x.commit wd).2.2).2
    touched P (t'.txn wd') k ops2 = true →
    ((run P (t.txn wd) ops).insert P k v mod).2.2.2 ∈
      (((run P (t'.txn wd') ops2).commit wd').1.notify ((run P (t'.txn wd') ops2).commit wd').2.2).2.closed := by
  intro x t' wd' ht
  have h' : Hist P wd' t' := Hist.commit_notify wd t (ops ++ [.insert k v mod]) h
  have hrun : x = ((run P (t.txn wd) ops).insert P k v mod).1 := by
    show run P (t.txn wd) (ops ++ [.insert k v mod]) = _
    rw [run_append]; rfl
  have hro' : (run P (t.txn wd) ops).st.rootOnly = false := (later_run P (t.txn wd) ops).ro.trans hro
  have hget : (getRoot t'.root t'.rootWatch k).2 = ((run P (t.txn wd) ops).insert P k v mod).2.2.2 := by
    have := txn_insert_watch_eq_get P (run P (t.txn wd) ops) k v mod t'.rootWatch hro' h0
    rw [← hrun] at this
    exact this
  have := C12_get_channel_closed_any_calls_hist P wd' t' h' k ops2 (by rw [hget]; exact h0) ht
  rw [hget] at this
  exact this

/-! ## root-only-watch mode -/

/-- in root-only mode every reachable tree hands out its root watch for every
    Get and Prefix (so the root-watch clauses above say everything), and
    InsertWatch / ModifyWatch return the transaction's root watch -/
theorem C12_root_only_get_is_root_watch (P : ArtParams) (t : Tree) (h : Reach P t) (hro : t.rootOnly = true)
    (k : List Nat) :
    (getRoot t.root t.rootWatch k).2 = t.rootWatch ∧ (prefixRoot t.root t.rootWatch k).2 = t.rootWatch :=
  ro_get_is_root t.root t.rootWatch (h.roTree hro) k

theorem C12_root_only_insert_watch_is_root_watch (P : ArtParams) (x : Txn) (hro : x.st.rootOnly = true) (k : List Nat)
    (v : Nat) (mod : Option (Nat → Nat → Nat)) : (x.insert P k v mod).2.2.2 = x.rootWatch := by
  unfold Txn.insert
  split <;> simp [hro]

/-! ## non-vacuity -/

/-- a committed two-leaf tree under an inner node, opened by transaction 1 -/
def c12ExTree : Node :=
  .inner 4 [1] none (.cons 2 (.leaf [2] ⟨[1,2], 7, 3⟩) (.cons 3 (.leaf [3] ⟨[1,3], 8, 4⟩) .nil)) 5 0
def c12ExWorld : World := {}
def c12ExTxn : Txn := { root := some c12ExTree, rootWatch := 2, size := 2, dirty := false,
                        st := { txnID := 1, nextW := 6, pending := [], rootOnly := false } }

example : TxnFresh c12ExTxn := by
  intro r hr
  simp only [c12ExTxn, Option.some.injEq] at hr
  subst hr
  simp [c12ExTree, c12ExTxn, Stamps, StampsK]

-- Get([1,2]) hands out the leaf's channel 3, Prefix([1]) the inner node's channel 5; an
-- insert of [1,2] records both; the InsertWatch channel is the fresh channel 6
example : (getRoot c12ExTxn.root c12ExTxn.rootWatch [1,2]).2 = 3 := by decide
example : (prefixRoot c12ExTxn.root c12ExTxn.rootWatch [1]).2 = 5 := by decide
example : 3 ∈ (c12ExTxn.insert Gen.artParams [1,2] 9 none).1.st.pending ∧
    5 ∈ (c12ExTxn.insert Gen.artParams [1,2] 9 none).1.st.pending := by decide
example : (c12ExTxn.insert Gen.artParams [1,2] 9 none).2.2.2 = 6 := by decide
example : (c12ExTxn.delete Gen.artParams [1,2]).2 ≠ none ∧ (c12ExTxn.delete Gen.artParams [9]).2 = none := by decide

/-- **the documented restriction is real**: transaction 1 inserts [1,2] (cloning
    the inner node, fresh channel 7), then Get([1,4]) hands out 7, then the same
    transaction inserts [1,4] through the node it owns: channel 7 is neither
    recorded nor the root watch, and stays open after Commit + Notify -/
theorem C12_in_txn_channel_after_own_write_not_closed_refuted :
    let x1 := (c12ExTxn.insert Gen.artParams [1,2] 9 none).1
    let c := (getRoot x1.root x1.rootWatch [1,4]).2
    let x2 := (x1.insert Gen.artParams [1,4] 5 none).1
    c = 7 ∧ c ∉ ((x2.commit c12ExWorld).1.notify (x2.commit c12ExWorld).2.2).2.closed := by decide

/-- a linear history: a new tree in the initial world … -/
example : Hist Gen.artParams (newTree c12ExWorld false).1 (newTree c12ExWorld false).2 :=
  Hist.new c12ExWorld false (by simp [c12ExWorld])
-- … and a transaction with several calls that touches [1,2] and changes the tree
example : touched Gen.artParams ((newTree c12ExWorld false).2.txn (newTree c12ExWorld false).1) [1,2]
    [.insert [1,3] 8 none, .bump, .insert [1,2] 7 none, .delete [9]] = true := by decide
example : touchedP Gen.artParams ((newTree c12ExWorld false).2.txn (newTree c12ExWorld false).1) [1]
    [.delete [9], .insert [1,2] 7 none] = true := by decide
example : anyChange Gen.artParams c12ExTxn [.delete [9], .bump] = false := by decide
example : TreeWF ((c12ExTxn.insert Gen.artParams [1,2] 9 none).1.commit c12ExWorld).2.1 :=
  TxnWF.commit (TxnWF.insert Gen.artParams (by
    intro r hr
    simp only [c12ExTxn, Option.some.injEq] at hr
    subst hr
    simp [c12ExTree, c12ExTxn, Stamps, StampsK]) [1,2] 9 none) c12ExWorld

end Sdb
