import SdbModel.Lemmas.ConcInitCor

/-!
# C06 (interleaving model) — table watch channels close only after the new revision is visible

> A watch channel returned by a query is closed no later than the return of the
> Commit that changes that query's result (…; for table-wide watches, any change
> to the table).  It is never closed by an aborted transaction, is not already
> closed when handed out by a fresh snapshot query, and never closes before the
> change is visible: a read transaction taken after observing the channel closed
> sees a newer table revision than the snapshot the channel came from.

`Props/C06.lean` proves the ordering half on the abstract protocol `Model.Serial`.
Here it is proved on `Model.Conc`, the interleaving model that is compared step by
step with the real goroutines, for EVERY schedule: every state `Reach P n st cs`
(any number of writers, committing or aborting, with any table lists and
initializer registrations / marks, table registrations, any scheduler steps) of
every protocol of the shape `Protocol.initShape` — decided for the protocol
regenerated from the source, `Gen.protocol`; the shape fixes where `notify` sits
relative to `storeRoot` / `unlockTables` and tolerates further hooks.  The table
watch channel of the committed version of a table is never closed (a fresh
snapshot hands out an open channel); a closed channel is the watch channel of a
version that a COMMITTED writer replaced, and the committed revision of that table
is strictly larger; only the `notify` of a committing writer, after its `storeRoot`
and while it still holds all its table locks, closes table channels; aborting
writers close nothing; the revision equals the number of committed writes and never
decreases.  The invariant behind this is `Conc.CI` (`Lemmas/ConcInit*.lean`).
-/
namespace Sdb
open Conc

/-- the protocol read off db.go / write_txn.go today has the shape the channel
    invariant is proved for -/
theorem C06_conc_protocol_shape : Gen.protocol.initShape = true := by decide

/-- further hooks (anywhere except between choosing the watch channel of a new
    table and storing the root in `registerTable`) keep the shape -/
example : ({ Gen.protocol with
    commit := .hook "extra" :: Gen.protocol.commit ++ [.hook "late"],
    writeTxn := [.dedupTables, .lockTables, .loadRoot, .hook "x", .cloneRoot, .hook "y", .cloneEntries],
    register := [.lockRoot, .hook "z", .loadCurrentRoot, .appendTable, .storeRoot, .hook "w", .unlockRoot] } :
      Protocol).initShape = true := by decide

/-- **(f) fresh channels are open**: in every reachable state the table watch
    channel of the committed version of every table — what a fresh `ReadTxn`
    hands out — is not closed -/
theorem C06_conc_fresh_watch_open (P : Protocol) (hP : P.initShape = true) (n : Nat) (st : State) (cs : List Bool)
    (h : Reach P n st cs) (i : Nat) (hi : i < (readTxn st).length) :
    (getT (readTxn st) i).watch ∉ st.closed :=
  (reach_CI P hP n st cs h).RC _ ⟨i, hi, Or.inl rfl⟩

/-- distinct tables have distinct watch channels (so a closed channel identifies its table) -/
theorem C06_conc_watch_channels_distinct (P : Protocol) (hP : P.initShape = true) (n : Nat) (st : State)
    (cs : List Bool) (h : Reach P n st cs) (i j : Nat) (hi : i < st.root.length) (hj : j < st.root.length)
    (hw : (getT st.root i).watch = (getT st.root j).watch) : i = j := by
  apply Classical.byContradiction
  intro hne
  exact (reach_CI P hP n st cs h).RI i j hi hj hne _ (Or.inl rfl) (Or.inl hw)

/-- **(f) closed ⇒ replaced, and a newer revision is visible**: every closed channel
    is either the watch channel of the version `oldRoot[x]` that a COMMITTED writer
    (flag `true`, past its `storeRoot` and its `notify`) loaded for one of its tables
    `x` and replaced — and the committed revision of `x` is strictly larger than the
    revision of that version — or an init channel collected by a committed writer
    (see C19) -/
theorem C06_conc_closed_is_replaced_version (P : Protocol) (hP : P.initShape = true) (n : Nat) (st : State)
    (cs : List Bool) (h : Reach P n st cs) (w : Nat) (hw : w ∈ st.closed) :
    (∃ (tid : Nat) (th : Thread) (x : Nat), st.threads[tid]? = some th ∧ cs[tid]? = some true ∧
      Micro.act .storeRoot ∉ th.prog ∧ Micro.act .notify ∉ th.prog ∧ x ∈ th.tables ∧ x < st.root.length ∧
      w = (getT th.oldRoot x).watch ∧ (getT th.oldRoot x).rev < (getT (readTxn st) x).rev) ∨
    (∃ (tid : Nat) (th : Thread) (x : Nat), st.threads[tid]? = some th ∧ cs[tid]? = some true ∧
      Micro.act .storeRoot ∉ th.prog ∧ Micro.act .closeInit ∉ th.prog ∧ x ∈ th.tables ∧
      w = (getT th.entries x).initWatch ∧ w ≠ 0) := by
  have hci := reach_CI P hP n st cs h
  have hci2 := reach_CI2 P hP n st cs h
  obtain ⟨tid, th, hth, hc, hs, hor⟩ := hci.CO w hw
  have hrec := storedRec st cs _ hci tid th hth hc hs
  rcases hor with ⟨hn, hm⟩ | ⟨hn, hm⟩
  · left
    rw [hrec.wr.2.2.2, List.mem_map] at hm
    obtain ⟨x, hx, rfl⟩ := hm
    have hxl := mem_L_of_D th x hx
    exact ⟨tid, th, x, hth, hc, hs, hn, (mem_lockList th x).1 hxl, hrec.bound x hxl, rfl,
      hci2.RL tid th hth hc hs x hxl⟩
  · right
    rw [hrec.cii.1] at hm
    unfold toClose at hm
    rw [List.mem_filterMap] at hm
    obtain ⟨x, hx, he⟩ := hm
    split at he
    · rename_i hcnd
      simp only [Option.some.injEq] at he
      exact ⟨tid, th, x, hth, hc, hs, hn, (mem_dedup x _).1 hx, he.symm, by rw [← he]; exact hcnd.1⟩
    · simp at he

/-- **(g) only `notify` / `closeInit` of a committing writer close channels**: a
    scheduler step appends to the closed list only, and every appended channel was
    closed by the stepping thread, which is a COMMITTING writer past its `storeRoot`:
    by its `notify` (executed in this step; the channel is in its notify list) or by
    its `closeInit` (executed in this step) -/
theorem C06_conc_closed_only_by_committer (P : Protocol) (hP : P.initShape = true) (n : Nat) (st : State)
    (cs : List Bool) (h : Reach P n st cs) (tid : Nat) :
    ∃ l, (step st tid).1.closed = st.closed ++ l ∧ ∀ w, w ∈ l →
      ∃ th th', st.threads[tid]? = some th ∧ (step st tid).1.threads[tid]? = some th' ∧ cs[tid]? = some true ∧
        Micro.act .storeRoot ∉ th'.prog ∧
        ((Micro.act .notify ∈ th.prog ∧ Micro.act .notify ∉ th'.prog ∧ w ∈ th'.toNotify) ∨
         (Micro.act .closeInit ∈ th.prog ∧ Micro.act .closeInit ∉ th'.prog ∧ w ∈ th'.initToClose)) := by
  obtain ⟨l, h1, h2⟩ := step_closed_cases st cs tid (reach_sim P (initShape_simShape P hP) n st cs h)
    (reach_CI P hP n st cs h)
  refine ⟨l, h1, fun w hw => ?_⟩
  obtain ⟨th, th', a, b, c1, c2, c3⟩ := h2 w hw
  exact ⟨th, th', a, b, c1, c2, c3⟩

/-- **(g) aborting writers (and registrations) close nothing**: a scheduler step of
    a thread spawned with `commit = false` leaves the closed list as it is -/
theorem C06_conc_abort_closes_nothing (P : Protocol) (hP : P.initShape = true) (n : Nat) (st : State)
    (cs : List Bool) (h : Reach P n st cs) (tid : Nat) (hc : cs[tid]? = some false) :
    (step st tid).1.closed = st.closed := by
  obtain ⟨l, h1, h2⟩ := C06_conc_closed_only_by_committer P hP n st cs h tid
  cases l with
  | nil => simpa using h1
  | cons w l =>
    obtain ⟨_, _, _, _, hc', _⟩ := h2 w (by simp)
    rw [hc] at hc'; simp at hc'

/-- **(g) `notify` sits between `storeRoot` and the unlocking**: for a committing
    writer, `notify` done implies `storeRoot` done; and from its `storeRoot` until its
    `notify` it owns the mutex of every table it requested (so the channels are
    closed after the new root is visible and before `Commit` releases the tables) -/
theorem C06_conc_notify_after_store_before_unlock (P : Protocol) (hP : P.initShape = true) (n : Nat) (st : State)
    (cs : List Bool) (h : Reach P n st cs) (tid : Nat) (th : Thread) (hth : st.threads[tid]? = some th)
    (hc : cs[tid]? = some true) :
    (Micro.act .notify ∉ th.prog → Micro.act .storeRoot ∉ th.prog) ∧
    (Micro.act .storeRoot ∉ th.prog → Micro.act .notify ∈ th.prog →
      ∀ x ∈ th.tables, Micro.release x ∈ th.prog ∧ st.lockOwner.getD x none = some tid) := by
  have ord := commitOrder st cs _ (reach_CI P hP n st cs h) tid th hth hc
  refine ⟨ord.notify_after_store, fun hs hn x hx => ?_⟩
  obtain ⟨r, a⟩ := ord.locked_until_notified hs hn x hx
  exact ⟨r, holds_of_between st cs (reach_sim P (initShape_simShape P hP) n st cs h) tid th hth x r a⟩

/-- **(g) the channels a committed writer notifies are those of the versions it
    replaced**: past its `storeRoot`, its notify list is the list of the watch
    channels of the versions it loaded for its (de-duplicated) tables, and none of
    them is a watch channel of the committed root any more -/
theorem C06_conc_notify_list (P : Protocol) (hP : P.initShape = true) (n : Nat) (st : State)
    (cs : List Bool) (h : Reach P n st cs) (tid : Nat) (th : Thread) (hth : st.threads[tid]? = some th)
    (hc : cs[tid]? = some true) (hs : Micro.act .storeRoot ∉ th.prog) :
    th.toNotify = (dedup th.tables).map (fun x => (getT th.oldRoot x).watch) ∧
    ∀ w ∈ th.toNotify, ∀ i, i < st.root.length → (getT st.root i).watch ≠ w := by
  have hci := reach_CI P hP n st cs h
  have hrec := storedRec st cs _ hci tid th hth hc hs
  refine ⟨hrec.wr.2.2.2, fun w hw i hi heq => ?_⟩
  by_cases hn : Micro.act .notify ∈ th.prog
  · exact hci.PR tid th true w hth hc (Or.inr (Or.inl ⟨rfl, hs, hn, hw⟩)) ⟨i, hi, Or.inl heq.symm⟩
  · exact hci.RC w ⟨i, hi, Or.inl heq.symm⟩ ((reach_CI2 P hP n st cs h).NC tid th hth hc hs hn w hw)

/-- **closed no later than the return of Commit**: once a committing writer is past
    its `notify` (in particular when `Commit` has returned), the watch channel of
    every version it replaced is closed -/
theorem C06_conc_closed_by_commit_return (P : Protocol) (hP : P.initShape = true) (n : Nat) (st : State)
    (cs : List Bool) (h : Reach P n st cs) (tid : Nat) (th : Thread) (hth : st.threads[tid]? = some th)
    (hc : cs[tid]? = some true) (hn : Micro.act .notify ∉ th.prog) (x : Nat) (hx : x ∈ th.tables) :
    (getT th.oldRoot x).watch ∈ st.closed ∧ (getT th.oldRoot x).rev < (getT (readTxn st) x).rev := by
  have hci := reach_CI P hP n st cs h
  have hci2 := reach_CI2 P hP n st cs h
  have hs := (commitOrder st cs _ hci tid th hth hc).notify_after_store hn
  have hrec := storedRec st cs _ hci tid th hth hc hs
  refine ⟨hci2.NC tid th hth hc hs hn _ ?_, hci2.RL tid th hth hc hs x ((mem_lockList th x).2 hx)⟩
  rw [hrec.wr.2.2.2, List.mem_map]
  exact ⟨x, (mem_dedup x _).2 hx, rfl⟩

/-- **never closes before the change is visible** (the last clause of C06, between
    two moments): let a snapshot taken in a reachable state `st0` hand out the watch
    channel `w` of table `x`; in every later state `st` (any further spawns and
    scheduler steps) in which `w` is closed, a read transaction sees a strictly newer
    revision of `x` than the snapshot -/
theorem C06_conc_closed_implies_newer_revision (P : Protocol) (hP : P.initShape = true) (n : Nat)
    (st0 : State) (cs0 : List Bool) (h0 : Reach P n st0 cs0) (st : State) (cs : List Bool)
    (h : ReachFrom P st0 cs0 st cs) (x : Nat) (hx : x < (readTxn st0).length)
    (hw : (getT (readTxn st0) x).watch ∈ st.closed) :
    (getT (readTxn st0) x).rev < (getT (readTxn st) x).rev := by
  obtain ⟨hxl, hor⟩ := version_same_or_newer P hP n st0 cs0 h0 st cs h x hx
  rcases hor with e | e
  · exfalso
    have hopen := C06_conc_fresh_watch_open P hP n st cs (reach_of_reachFrom P n st0 cs0 h0 st cs h) x hxl
    apply hopen
    show (getT st.root x).watch ∈ st.closed
    rw [e]; exact hw
  · exact e

/-- … and the closed list only grows: a channel closed in `st0` stays closed -/
theorem C06_conc_closed_stays_closed (P : Protocol) (hP : P.initShape = true) (n : Nat)
    (st0 : State) (cs0 : List Bool) (h0 : Reach P n st0 cs0) (st : State) (cs : List Bool)
    (h : ReachFrom P st0 cs0 st cs) (w : Nat) (hw : w ∈ st0.closed) : w ∈ st.closed := by
  induction h with
  | refl => exact hw
  | writer st cs tabs commit mi ri _ hb ih => exact ih
  | register st cs _ ih => exact ih
  | registerDup st cs _ ih => exact ih
  | step st cs tid hr ih =>
    obtain ⟨l, hl, _⟩ := C06_conc_closed_only_by_committer P hP n st cs (reach_of_reachFrom P n st0 cs0 h0 st cs hr) tid
    rw [hl]; exact List.mem_append_left _ ih

/-! ## (h) revisions -/

/-- the committed revision of a table is its committed counter, i.e. the number of
    committing writers on the table whose `storeRoot` has happened -/
theorem C06_conc_rev_counts_commits (P : Protocol) (hP : P.initShape = true) (n : Nat) (st : State)
    (cs : List Bool) (h : Reach P n st cs) (x : Nat) (hx : x < st.root.length) :
    (getT st.root x).rev = (getT st.root x).cnt ∧ (getT st.root x).rev = committedWriters st cs x := by
  have h1 := (reach_CI P hP n st cs h).RV x hx
  exact ⟨h1, by rw [h1]; exact cnt_eq_committedWriters st cs (reach_sim P (initShape_simShape P hP) n st cs h) x hx⟩

/-- a scheduler step never decreases a committed revision; it increases exactly the
    revisions of the tables of the stepping writer when that writer's `storeRoot`
    happens in the step (by one: the new version), and registrations only append -/
theorem C06_conc_rev_monotone (P : Protocol) (hP : P.initShape = true) (n : Nat) (st : State)
    (cs : List Bool) (h : Reach P n st cs) (tid : Nat) (x : Nat) (hx : x < st.root.length) :
    x < (step st tid).1.root.length ∧
    ((getT (step st tid).1.root x).rev = (getT st.root x).rev ∨
     ((getT (step st tid).1.root x).rev = (getT st.root x).rev + 1 ∧ cs[tid]? = some true ∧
       ∃ th, st.threads[tid]? = some th ∧ x ∈ th.tables ∧ Micro.act .storeRoot ∈ th.prog)) := by
  rcases step_root_cases st cs tid (reach_sim P (initShape_simShape P hP) n st cs h) (reach_CI P hP n st cs h) with
    he | ⟨th, th', hth, _, hc, hs, _, hlen, hcr⟩ | ⟨th, w, _, _, _, he⟩
  · rw [he]; exact ⟨hx, Or.inl rfl⟩
  · refine ⟨by rw [hlen]; exact hx, ?_⟩
    by_cases hxt : x ∈ th.tables
    · obtain ⟨m, hm⟩ := (hcr x hx).1 hxt
      right
      exact ⟨by rw [hm, (clr_uwEntry_rev _ _ _ _).1], hc, th, hth, hxt, hs⟩
    · left; rw [(hcr x hx).2 hxt]
  · rw [he]
    exact ⟨by simp; omega, Or.inl (by rw [getT_append_left _ _ _ hx])⟩

/-! ## non-vacuity -/

private def stepsOf (st : State) (tid : Nat) : Nat → State
  | 0 => st
  | k + 1 => stepsOf (step st tid).1 tid k

private theorem reach_stepsOf (P : Protocol) (n : Nat) (tid : Nat) : ∀ (k : Nat) (st : State) (cs : List Bool),
    Reach P n st cs → Reach P n (stepsOf st tid k) cs
  | 0, _, _, h => h
  | k + 1, st, cs, h => reach_stepsOf P n tid k _ cs (.step st cs tid h)

/-- a committing writer on tables `[1, 0, 1]` past its `notify`: the replaced watch
    channels `2` and `1` are closed, the committed ones (`4`, `3`) are open, revisions are 1 -/
example : ∃ st cs th, Reach Gen.protocol 2 st cs ∧ st.threads[0]? = some th ∧ cs[0]? = some true ∧
    Micro.act .notify ∉ th.prog ∧ st.closed = [2, 1] ∧ (getT st.root 0).watch = 4 ∧ (getT st.root 0).rev = 1 ∧
    (getT th.oldRoot 0).watch = 1 := by
  refine ⟨stepsOf (spawnWriter Gen.protocol (initState 2) [1, 0, 1] true [] []) 0 12, [true], _,
    reach_stepsOf _ _ _ _ _ _ (.writer _ _ _ _ _ _ .init (by decide)), rfl, by decide, by decide, by decide,
    by decide, by decide, by decide⟩

/-- the same writer between its `storeRoot` and its `notify`: the new revision is
    visible, nothing is closed yet, and it still owns its table mutexes -/
example : ∃ st cs th, Reach Gen.protocol 2 st cs ∧ st.threads[0]? = some th ∧ cs[0]? = some true ∧
    Micro.act .storeRoot ∉ th.prog ∧ Micro.act .notify ∈ th.prog ∧ st.closed = [] ∧ (getT st.root 0).rev = 1 := by
  refine ⟨stepsOf (spawnWriter Gen.protocol (initState 2) [1, 0, 1] true [] []) 0 10, [true], _,
    reach_stepsOf _ _ _ _ _ _ (.writer _ _ _ _ _ _ .init (by decide)), rfl, by decide, by decide, by decide,
    by decide, by decide⟩

/-! ## the shape condition on `registerTable` is needed

`Model.Conc` chooses the watch channel of a new table in `appendTable` (the current
value of the allocator `nextChan`) but advances the allocator only in the following
`storeRoot`.  `initShape` therefore asks that no hook separates the two; with a hook
in between (a protocol that still has `simShape`) a writer's `userWrites` can be
scheduled into the gap, gets the same channel id, and the clause "fresh channels are
open" fails.  (In the Go code the channel is a freshly made `chan struct{}`, so this
is a property of the model's id allocation, not of the library.) -/

private def gapProtocol : Protocol :=
  { Gen.protocol with register := [.hook "register-before-lock", .lockRoot, .hook "register-locked",
      .loadCurrentRoot, .appendTable, .hook "gap", .storeRoot, .hook "register-stored", .unlockRoot] }

private def runSched (st : State) : List Nat → State
  | [] => st
  | t :: r => runSched (step st t).1 r

private theorem reach_runSched (P : Protocol) (n : Nat) : ∀ (l : List Nat) (st : State) (cs : List Bool),
    Reach P n st cs → Reach P n (runSched st l) cs
  | [], _, _, h => h
  | t :: l, st, cs, h => reach_runSched P n l _ cs (.step st cs t h)

set_option maxRecDepth 8000 in
/-- with a hook between `appendTable` and `storeRoot` (shape `simShape` but not
    `initShape`) a reachable state has a committed table whose watch channel is closed -/
theorem C06_conc_fresh_watch_open_gap_refuted :
    ∃ (P : Protocol) (st : State) (cs : List Bool), P.simShape = true ∧ P.initShape = false ∧ Reach P 1 st cs ∧
      ∃ i, i < (readTxn st).length ∧ (getT (readTxn st) i).watch ∈ st.closed := by
  refine ⟨gapProtocol,
    runSched (spawnWriter gapProtocol (spawnWriter gapProtocol (spawnRegister gapProtocol (initState 1)) [0] true [] [])
      [0] true [] [])
      [0,0,0, 1,1,1,1,1,1, 0,0,0,0, 1,1,1,1,1,1,1,1,1,1, 2,2,2,2,2,2,2,2,2,2], [false, true, true],
    by decide, by decide, ?_, 1, by decide, by decide⟩
  exact reach_runSched _ _ _ _ _ (.writer _ _ _ _ _ _ (.writer _ _ _ _ _ _ (.register _ _ .init) (by decide)) (by decide))

end Sdb
