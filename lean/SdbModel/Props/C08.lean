import SdbModel.Generated.TableParams
import SdbModel.Lemmas.ChangesRun

/-!
# C08 — Graveyard: retention until delivered, collection afterwards, invisibility

> A deleted object is retained as long as some open change iterator created before the deletion has not
> yet been handed that deletion, however collection runs interleave with re-insertions, re-deletions,
> new iterators and iterator closes.  Once every such iterator has been handed it or has been closed, it
> is eventually discarded, so with all iterators caught up the number of retained deleted objects returns
> to zero, and with no open iterator nothing is retained.  Retained objects never appear in queries or
> object counts.

Theorems over `Model.Table` (`modify`, `delete`, `gcScan`, `gcApply`, `DB.trackerRevOf`) and the
iterator steps restated in `Lemmas/ChangesRun.lean`.  Table level, under the table invariant `Chg.TInv`
(which every reachable table satisfies): the scan selects nothing above the low watermark, the
collector's write removes exactly the listed revision keys that are still present, graveyard and
graveyard-revision index stay in bijection, retained objects are invisible to primary / revision
queries, `All` and `NumObjects`.  Database level, for EVERY state reachable (`Chg.Reach`) by write
transactions, `Changes()`, `Next`, `Close`, paused and immediate collector runs in any interleaving:
whatever key the consumer of an iterator in good standing (`Chg.Live`: tracker registered in the committed
root, or created in the open write transaction on a table that transaction had not written) still holds and that is no longer live is
retained above the iterator's delete cursor (`C08_reachable_retention`), no collector step removes such an
object (`C08_collector_spares_undelivered`), and a run with all trackers caught up empties the graveyard.
-/
namespace Sdb
open Tbl Chg Chg.OMap

/-! ## (a) the scan and the collector's write -/

/-- the scan selects only graveyard entries at or below the low watermark: below the table revision and
    below the revision of EVERY registered tracker -/
theorem C08_scan_below_watermark (db : DB) (i : Nat) (k : Key) (hk : k ∈ deadKeys (gcScan db) i) :
    ∃ o, (k, o) ∈ (tbl db.root i).graveRev ∧ o.rev ≤ (tbl db.root i).rev ∧
      ∀ id ∈ (tbl db.root i).trackers, o.rev ≤ db.trackerRevOf id := by
  rw [deadKeys_gcScan] at hk
  obtain ⟨o, hm, hle⟩ := mem_scanKeys db _ k hk
  refine ⟨o, hm, Nat.le_trans hle (lowWatermark_le_rev _ _), fun id hid => ?_⟩
  exact Nat.le_trans hle (lowWatermark_le_tracker db _ id hid)

/-- **retained while some registered tracker has not passed it**: such an entry is never selected -/
theorem C08_scan_retains_unpassed (db : DB) (i : Nat) (h : TInv (tbl db.root i)) (k : Key) (o : Obj)
    (hm : (k, o) ∈ (tbl db.root i).graveRev) (id : Nat) (hid : id ∈ (tbl db.root i).trackers)
    (hlt : db.trackerRevOf id < o.rev) : k ∉ deadKeys (gcScan db) i := by
  rw [deadKeys_gcScan]
  exact scanKeys_retains h db k o hm id hid hlt

/-- the collector's write removes from the graveyard-revision index exactly the listed keys (those
    still present), and from the graveyard exactly the objects whose CURRENT revision key is listed;
    everything else of the table is untouched -/
theorem C08_apply_removes_exactly (db : DB) (dead : List (Nat × List Key)) (i : Nat) (h : TInv (tbl db.root i)) :
    let t := tbl db.root i
    let t' := tbl (gcApply db dead).root i
    (∀ k x, (k, x) ∈ t'.graveRev ↔ (k, x) ∈ t.graveRev ∧ k ∉ deadKeys dead i) ∧
    (∀ k x, (k, x) ∈ t'.grave ↔ (k, x) ∈ t.grave ∧ revKey x.rev ∉ deadKeys dead i) ∧
    t'.primary = t.primary ∧ t'.revIdx = t.revIdx ∧ t'.rev = t.rev ∧ t'.trackers = t.trackers := by
  simp only
  have e : tbl (gcApply db dead).root i = gcTable (tbl db.root i) (deadKeys dead i) := gcApply_getD db dead i
  rw [e]
  obtain ⟨m1, m2⟩ := gcTable_mem h (deadKeys dead i)
  obtain ⟨f1, f2, f3, f4, _⟩ := gcTable_fields (tbl db.root i) (deadKeys dead i)
  exact ⟨m1, m2, f2, f3, f1, f4⟩

/-- a stale scan does not remove an object that was re-inserted and re-deleted meanwhile: its new
    graveyard entry has a revision above the table revision at scan time, hence a revision key the scan
    cannot have listed -/
theorem C08_stale_scan_spares_redeleted (db₀ : DB) (t₀ t : TableS) (h₀ : TInv t₀) (h : TInv t)
    (k : Key) (g : Obj) (hg : (k, g) ∈ t.grave) (hnew : t₀.rev < g.rev) :
    (k, g) ∈ (gcTable t (scanKeys db₀ t₀)).grave := by
  rw [(gcTable_mem h _).2]
  refine ⟨hg, fun hin => ?_⟩
  obtain ⟨o, hm, _⟩ := mem_scanKeys db₀ t₀ _ hin
  obtain ⟨e, hle⟩ := h₀.grK _ _ hm
  have hgk := h.gK _ _ hg
  have hgr := (h.grK _ _ ((h.gg g).mp (hgk ▸ hg))).2
  have hb := h.bound
  have hb₀ := h₀.bound
  have := revKey_inj _ _ (by omega) (by omega) e
  omega

/-! ## (b) the graveyard invariant -/

/-- graveyard and graveyard-revision index hold the same objects -/
theorem C08_grave_bijection (t : TableS) (h : TInv t) (o : Obj) :
    (o.id, o) ∈ t.grave ↔ (revKey o.rev, o) ∈ t.graveRev := h.gg o

/-- the table invariant (sortedness of all four indexes, keys = own id / own revision, the two
    bijections, graveyard disjoint from the live objects by id and by revision) is preserved by `modify` -/
theorem C08_invariant_modify (t : TableS) (h : TInv t) (g : Nat) (o : Obj) (m : Bool)
    (hb : (modify t g o m).1.rev + 1 < 2 ^ 64) : TInv (modify t g o m).1 := tinv_modify h g o m hb

/-- … by `delete` -/
theorem C08_invariant_delete (t : TableS) (h : TInv t) (g : Nat) (id : Key)
    (hb : (delete t g id).1.rev + 1 < 2 ^ 64) : TInv (delete t g id).1 := tinv_delete h g id hb

/-- … and by the collector's write, for every table of the database -/
theorem C08_invariant_gcApply (db : DB) (dead : List (Nat × List Key)) (h : ∀ i, TInv (tbl db.root i)) :
    ∀ i, TInv (tbl (gcApply db dead).root i) := by
  intro i
  have e : tbl (gcApply db dead).root i = gcTable (tbl db.root i) (deadKeys dead i) := gcApply_getD db dead i
  rw [e]
  exact tinv_gcTable (h i) _

/-- it holds for every reachable table -/
theorem C08_table_invariant_reachable (t : TableS) (h : TReach t) : TInv t := h.tinv

/-- a re-insert removes the object from the graveyard (both indexes) -/
theorem C08_reinsert_leaves_graveyard (t : TableS) (h : TInv t) (g : Nat) (o : Obj) (m : Bool)
    (hok : (modify t g o m).2.2 = .ok) :
    ∀ x, (o.id, x) ∉ (modify t g o m).1.grave := by
  intro x hx
  rcases modify_mem h g o m with e | ⟨_, _, _, hp, hg, _⟩
  · -- the write was rejected: impossible when it reports ok
    have := modify_ok_rev t g o m hok
    rw [e] at this; omega
  · have := (hg _ _).mp hx
    cases hold : t.primary.get o.id with
    | none => exact this.2 hold rfl
    | some oo =>
      exact h.disj _ _ _ this.1 ((get_eq_some_iff h.pS _ _).mp hold)

/-- **retained objects are invisible**: not found by primary key, not listed by `All`, their graveyard
    revision is not in the revision index -/
theorem C08_retained_invisible (t : TableS) (h : TInv t) (k : Key) (g : Obj) (hg : (k, g) ∈ t.grave) :
    qGet t .id k 0 = none ∧ (∀ o ∈ qAll t, o.id ≠ k) ∧ qGet t .rev (revKey g.rev) 0 = none :=
  grave_invisible h k g hg

/-- `NumObjects` counts the live objects only -/
theorem C08_numObjects_live_only (t : TableS) (h : TInv t) : numObjects t = (qAll t).length :=
  numObjects_eq_all h

/-- … so a delete that retains the object still lowers the count by one -/
theorem C08_delete_lowers_count (t : TableS) (h : TInv t) (g : Nat) (id : Key) (old : Obj)
    (hold : t.primary.get id = some old) (hok : (delete t g id).2.2 = .ok) (hl : t.locked = true) :
    numObjects (delete t g id).1 + 1 = numObjects t := by
  rcases delete_spec t g id with e | ⟨_, _, old', hold', _, _, hr, _⟩
  · have := delete_ok_rev t g id old hold hok hl
    rw [e] at this; omega
  · unfold numObjects
    rw [hr]
    rw [hold] at hold'; cases hold'
    have hm := (get_eq_some_iff h.pS _ _).mp hold
    have hid := h.pK _ _ hm
    have hrm : (revKey old.rev, old) ∈ t.revIdx := (h.pr old).mp (hid ▸ hm)
    -- erasing a present key shortens a sorted map by one
    have : ∀ (m : OMap Obj) (k : Key) (v : Obj), Sorted m → (k, v) ∈ m → (m.erase k).length + 1 = m.length := by
      intro m
      induction m with
      | nil => intro k v _ hm; cases hm
      | cons a r ih =>
        intro k v hS hm
        obtain ⟨k0, v0⟩ := a
        simp only [OMap.erase]
        cases hc : cmpL k0 k with
        | eq => simp
        | lt =>
          simp only [List.length_cons]
          have hk : k0 ≠ k := cmpL_ne_of_lt _ _ hc
          simp only [List.mem_cons, Prod.mk.injEq] at hm
          rcases hm with ⟨e, _⟩ | hm
          · exact absurd e.symm hk
          · rw [ih k v hS.tail hm]
        | gt =>
          exfalso
          simp only [List.mem_cons, Prod.mk.injEq] at hm
          rcases hm with ⟨e, _⟩ | hm
          · subst e; rw [cmpL_refl] at hc; cases hc
          · exact cmpL_lt_asymm _ _ (hS.head_lt _ hm) ((cmpL_gt_iff _ _).mp hc)
    exact this _ _ _ h.rS hrm

/-! ## (c) nothing retained without trackers; collection empties the graveyard -/

/-- with no registered tracker `delete` retains nothing -/
theorem C08_no_tracker_retains_nothing (t : TableS) (g : Nat) (id : Key) (h : t.trackers = []) :
    (delete t g id).1.grave = t.grave ∧ (delete t g id).1.graveRev = t.graveRev :=
  delete_no_tracker t g id h

/-- with a registered tracker a successful `delete` retains the object under the new revision -/
theorem C08_tracker_retains (t : TableS) (h : TInv t) (g : Nat) (id : Key) (old : Obj)
    (hold : t.primary.get id = some old) (hchg : (delete t g id).1 ≠ t) (htr : t.trackers ≠ []) :
    (id, { old with rev := t.rev + 1 }) ∈ (delete t g id).1.grave ∧ (delete t g id).1.rev = t.rev + 1 := by
  rcases delete_mem h g id with e | ⟨old', hold', _, hrev, _, _, hg, _⟩
  · exact absurd e hchg
  · rw [hold] at hold'; cases hold'
    have hne : t.trackers.isEmpty = false := by cases hh : t.trackers <;> simp_all
    exact ⟨(hg _ _).mpr (Or.inl ⟨hne, rfl, rfl⟩), hrev⟩

/-- **collection empties the graveyard** of a table once every registered tracker has passed every
    retained object -/
theorem C08_collect_empties_when_caught_up (db : DB) (i : Nat) (h : TInv (tbl db.root i))
    (hall : ∀ k o, (k, o) ∈ (tbl db.root i).graveRev → ∀ id ∈ (tbl db.root i).trackers, o.rev ≤ db.trackerRevOf id) :
    (tbl (gcApply db (gcScan db)).root i).grave = [] ∧ (tbl (gcApply db (gcScan db)).root i).graveRev = [] := by
  have e : tbl (gcApply db (gcScan db)).root i = gcTable (tbl db.root i) (deadKeys (gcScan db) i) :=
    gcApply_getD db _ i
  rw [e, deadKeys_gcScan]
  exact gcTable_scan_empties h db hall

/-- in particular when every tracker's revision has reached the table revision -/
theorem C08_collect_empties_at_table_revision (db : DB) (i : Nat) (h : TInv (tbl db.root i))
    (hall : ∀ id ∈ (tbl db.root i).trackers, (tbl db.root i).rev ≤ db.trackerRevOf id) :
    (tbl (gcApply db (gcScan db)).root i).grave.length = 0 := by
  have := (C08_collect_empties_when_caught_up db i h fun k o hm id hid =>
    Nat.le_trans (h.grK _ _ hm).2 (hall id hid)).1
  rw [this]; rfl

/-- … and when no tracker is registered (no open iterator): nothing stays retained -/
theorem C08_collect_empties_without_trackers (db : DB) (i : Nat) (h : TInv (tbl db.root i))
    (hno : (tbl db.root i).trackers = []) :
    (tbl (gcApply db (gcScan db)).root i).grave = [] :=
  (C08_collect_empties_when_caught_up db i h fun k o _ id hid => by rw [hno] at hid; cases hid).1

/-! ## every reachable state: retention, however the steps interleave -/

/-- **retention**: in every reachable state, every key the consumer of an open, registered iterator still
    holds and that is no longer live in the committed table is retained in the graveyard with a revision
    above the iterator's delete cursor — that deletion is still to be delivered -/
theorem C08_reachable_retention (s : St) (h : Reach s) (ci : Nat) (it : ChangeIter)
    (hi : s.db.iters[ci]? = some it) (hc : it.closed = false)
    (hl : Live s it) (id : Key) (hview : s.view ci id ≠ none)
    (hdead : (tbl s.db.root it.table).primary.get id = none) :
    ∃ g, (id, g) ∈ (tbl s.db.root it.table).grave ∧ it.deleteRevision < g.rev := by
  have hs := (h.inv.reg ci it hi hc hl).synced
  rcases hs.stale id hview with ⟨o, ho⟩ | hg
  · exact absurd ho ((get_eq_none_iff (h.inv.rootT it.table).pS _).mp hdead o)
  · exact hg

/-- the tracker's mark the collector reads is the iterator's delete cursor -/
theorem C08_reachable_mark (s : St) (h : Reach s) (ci : Nat) (it : ChangeIter)
    (hi : s.db.iters[ci]? = some it) (hc : it.closed = false)
    (hl : Live s it) :
    s.db.trackerRevOf it.tracker = it.deleteRevision := (h.inv.reg ci it hi hc hl).mark

/-- **no collector step — immediate, or the write of a scan paused arbitrarily long ago — removes an
    object some open registered iterator has not been handed** -/
theorem C08_collector_spares_undelivered (s : St) (h : Reach s) (dead : List (Nat × List Key))
    (hd : dead = s.db.gcDead ∨ dead = gcScan s.db) (ci : Nat) (it : ChangeIter)
    (hi : s.db.iters[ci]? = some it) (hc : it.closed = false)
    (hl : Live s it) (k : Key) (g : Obj)
    (hg : (k, g) ∈ (tbl s.db.root it.table).grave) (hlt : it.deleteRevision < g.rev) :
    (k, g) ∈ (tbl (gcApply s.db dead).root it.table).grave := by
  have hT := h.inv.rootT it.table
  rw [(C08_apply_removes_exactly s.db dead it.table hT).2.1]
  refine ⟨hg, fun hin => ?_⟩
  have : ∃ ρ, revKey g.rev = revKey ρ ∧ ρ ≤ it.deleteRevision := by
    rcases hd with e | e
    · subst e
      obtain ⟨ρ, e1, _, hall⟩ := h.inv.dead it.table _ hin
      exact ⟨ρ, e1, hall ci it hi hc rfl hl⟩
    · subst e
      obtain ⟨ρ, e1, _, hall⟩ := h.inv.scan_ok it.table _ hin
      exact ⟨ρ, e1, hall ci it hi hc rfl hl⟩
  obtain ⟨ρ, e, hle⟩ := this
  have hgk := hT.gK _ _ hg
  have hgr := (hT.grK _ _ ((hT.gg g).mp (hgk ▸ hg))).2
  have hdl := (h.inv.reg ci it hi hc hl).dle
  have hb := hT.bound
  have := revKey_inj _ _ (by omega) (by omega) e
  omega

/-- retained objects are invisible in every reachable state -/
theorem C08_reachable_invisible (s : St) (h : Reach s) (i : Nat) (k : Key) (g : Obj)
    (hg : (k, g) ∈ (tbl s.db.root i).grave) :
    qGet (tbl s.db.root i) .id k 0 = none ∧ (∀ o ∈ qAll (tbl s.db.root i), o.id ≠ k) ∧
    numObjects (tbl s.db.root i) = (qAll (tbl s.db.root i)).length :=
  let hT := h.inv.rootT i
  ⟨(grave_invisible hT k g hg).1, (grave_invisible hT k g hg).2.1, numObjects_eq_all hT⟩

/-- in every reachable state, a collector run with all registered trackers caught up brings the number
    of retained objects of the table back to zero -/
theorem C08_reachable_collect_to_zero (s : St) (h : Reach s) (i : Nat)
    (hall : ∀ k o, (k, o) ∈ (tbl s.db.root i).graveRev →
      ∀ id ∈ (tbl s.db.root i).trackers, o.rev ≤ s.db.trackerRevOf id) :
    (tbl (gcApply s.db (gcScan s.db)).root i).grave.length = 0 := by
  rw [(C08_collect_empties_when_caught_up s.db i (h.inv.rootT i) hall).1]; rfl

/-! ## non-vacuity -/

/-- a table with a registered tracker, a live object and a retained deletion -/
def c08Table : TableS :=
  let t0 : TableS := { locked := true, trackers := [1] }
  let o1 : Obj := { id := [1], val := 10, uvar := 0, tags := [], pfxs := [], up := false, ord := 0, rev := 0 }
  let o2 : Obj := { id := [], val := 20, uvar := 0, tags := [], pfxs := [], up := false, ord := 1, rev := 0 }
  (delete (modify (modify t0 0 o1 false).1 0 o2 false).1 0 [1]).1

theorem c08Table_reach : TReach c08Table := by
  refine TReach.step (TReach.step (TReach.step (TReach.init _ rfl rfl rfl rfl rfl)
    (TStep.modify _ 0 _ false ?_)) (TStep.modify _ 0 _ false ?_)) (TStep.delete _ 0 [1] ?_)
  all_goals decide

/-- the invariant holds on it, its graveyard is not empty (the hypotheses of `C08_retained_invisible`,
    `C08_grave_bijection` are satisfiable), and the object with the EMPTY key is live -/
example : TInv c08Table ∧ c08Table.grave.length = 1 ∧ c08Table.primary.get [] ≠ none :=
  ⟨c08Table_reach.tinv, by decide, by decide⟩

/-- a database holding that table: the tracker has not passed the deletion, nothing is collected;
    once its mark reaches the table revision the run empties the graveyard -/
example :
    let db : DB := { root := [c08Table], trackerRev := [(1, 2)] }
    (tbl (gcApply db (gcScan db)).root 0).grave.length = 1 := by decide

example :
    let db : DB := { root := [c08Table], trackerRev := [(1, 3)] }
    (tbl (gcApply db (gcScan db)).root 0).grave.length = 0 := by decide

/-- a reachable database state in which an open, registered iterator has delivered an object that was
    deleted afterwards: `wtxn; insert [1]; Changes(); commit; Next (all); wtxn; delete [1]; commit` -/
private def oY : Obj := { id := [1], val := 7, uvar := 0, tags := [], pfxs := [], up := false, ord := 0, rev := 0 }
private def r1 : St := { St.init with db := St.init.db.beginW true true }
private def r2 : St := { r1 with db := setW r1.db 0 (modify (tbl (r1.db.wtxn.getD []) 0) 0 oY false).1 }
private def r3 : St := { r2 with db := iterCreate r2.db 0 }
private def r4 : St := { r3 with db := r3.db.commit }
private def r5 : St :=
  { db := (iterNext r4.db 0 r4.db.root [] (-1)).1,
    log := fun j => if j = 0 then r4.log 0 ++ (iterNext r4.db 0 r4.db.root [] (-1)).2.1 else r4.log j }
private def r6 : St := { r5 with db := r5.db.beginW true true }
private def r7 : St := { r6 with db := setW r6.db 0 (delete (tbl (r6.db.wtxn.getD []) 0) 0 [1]).1 }
private def r8 : St := { r7 with db := r7.db.commit }

private theorem r4_reach : Reach r4 := by
  have h1 : Reach r1 := Reach.step Reach.init (Step.beginW _ true true rfl)
  have h2 : Reach r2 := Reach.step h1 (Step.write r1 (r1.db.wtxn.getD []) 0 _ rfl (WStep.modify _ 0 oY false (by decide)))
  have h3 : Reach r3 := Reach.step h2 (Step.create r2 0)
  exact Reach.step h3 (Step.commit r3)

private theorem r8_reach : Reach r8 := by
  have h5 : Reach r5 := by
    exact Reach.step r4_reach (Step.next r4 0 (-1) r4.db.root [] (Or.inl rfl))
  have h6 : Reach r6 := Reach.step h5 (Step.beginW _ true true (by decide +kernel))
  have h7 : Reach r7 := Reach.step h6 (Step.write r6 (r6.db.wtxn.getD []) 0 _ rfl
    (WStep.delete _ 0 [1] (by decide +kernel)))
  exact Reach.step h7 (Step.commit r7)

/-- the hypotheses of `C08_reachable_retention` hold there (so do those of `C08_collector_spares_undelivered`) … -/
example : ∃ it, r8.db.iters[0]? = some it ∧ it.closed = false ∧
    Live r8 it ∧ r8.view 0 [1] ≠ none ∧
    (tbl r8.db.root it.table).primary.get [1] = none := by
  refine ⟨(r8.db.iters[0]?).getD default, by with_unfolding_all rfl, ?_, Or.inl ?_, ?_, ?_⟩ <;> decide +kernel

/-- … and its conclusion: the deleted object is retained above the iterator's delete cursor (which is 1) -/
example : ∃ g, ([1], g) ∈ (tbl r8.db.root ((r8.db.iters[0]?).getD default).table).grave ∧
    ((r8.db.iters[0]?).getD default).deleteRevision < g.rev :=
  C08_reachable_retention r8 r8_reach 0 ((r8.db.iters[0]?).getD default) (by with_unfolding_all rfl)
    (by decide +kernel) (Or.inl (by decide +kernel)) [1] (by decide +kernel) (by decide +kernel)

example : ((r8.db.iters[0]?).getD default).table = 0 ∧ ((r8.db.iters[0]?).getD default).deleteRevision = 1 := by
  decide +kernel

/-- the structural facts about write_txn.go, graveyard.go, iterator.go and deletetracker.go that
    `Model.Table` builds in — when a deletion is retained, the collector's low watermark and what it collects — hold of the source as it is today (regenerated by
    `tools/extract` on every run) -/
theorem C08_source_facts : Gen.tableFacts = Tbl.expectedFacts := by decide

end Sdb
