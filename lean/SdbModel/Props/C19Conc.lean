import SdbModel.Lemmas.ConcInitStays

/-!
# C19 (interleaving model) — initializer state is exact, monotone and signalled after visibility

> Initialized(snapshot) is true exactly when every initializer registered in
> transactions committed up to that snapshot has been marked done in a
> committed transaction, PendingInitializers lists exactly the others, and once
> true it stays true in all later snapshots unless a new initializer is
> registered.  The watch channel it returns closes only when the table becomes
> initialized and only after a snapshot showing it initialized can be obtained;
> registrations and marks made in aborted transactions have no effect on the
> committed state.

`Props/C19.lean` proves the sequential clauses on `Model.Table` and the ordering of
the protocol actions.  Here the clauses are proved on `Model.Conc`, the
interleaving model compared step by step with the real goroutines, for EVERY
schedule: every state `Reach P n st cs` of every protocol of the shape
`Protocol.initShape` (decided for `Gen.protocol`; it fixes where `collectInit` and
`closeInit` sit relative to `storeRoot` / `unlockRoot` / `unlockTables`).  In
`Model.Conc` a table version carries `initPending` (some registered initializer is
not marked done) and `initWatch` (the channel of `Initialized`, `0` = no record); a
writer spawned with `regInit` / `markInit` registers / marks an initializer on the
tables it holds.  Proved: the committed init state of a table changes only in the
`storeRoot` of a committing writer holding the table, to the value computed from
the committed version (exactness, step form); aborted writers change nothing;
an initialized table stays initialized unless a committing writer registers;
an init channel is closed only by the `closeInit` of the committer that made the
table initialized, after its `storeRoot` and its unlocks, the table being
initialized in the committed root from that `storeRoot` on unless a LATER
committer registers a new initializer; channels handed out by a snapshot are open.
-/
namespace Sdb
open Conc

theorem C19_conc_protocol_shape : Gen.protocol.initShape = true := by decide

/-- the committed record is consistent: an initializer is pending iff the table has
    an init channel -/
theorem C19_conc_pending_iff_record (P : Protocol) (hP : P.initShape = true) (n : Nat) (st : State) (cs : List Bool)
    (h : Reach P n st cs) (i : Nat) (hi : i < (readTxn st).length) :
    (getT (readTxn st) i).initPending = true ↔ (getT (readTxn st) i).initWatch ≠ 0 :=
  (reach_CI P hP n st cs h).IP i hi

/-- **(e) a handed-out init channel is open**: the init channel a snapshot returns
    for a table that is not initialized is not closed -/
theorem C19_conc_handed_out_init_channel_open (P : Protocol) (hP : P.initShape = true) (n : Nat) (st : State)
    (cs : List Bool) (h : Reach P n st cs) (i : Nat) (hi : i < (readTxn st).length)
    (hw : (getT (readTxn st) i).initWatch ≠ 0) :
    (getT (readTxn st) i).initWatch ∉ st.closed :=
  (reach_CI P hP n st cs h).RC _ ⟨i, hi, Or.inr ⟨rfl, hw⟩⟩

/-- init channels of different tables are different, and differ from all table watch channels -/
theorem C19_conc_init_channels_distinct (P : Protocol) (hP : P.initShape = true) (n : Nat) (st : State)
    (cs : List Bool) (h : Reach P n st cs) (i j : Nat) (hi : i < st.root.length) (hj : j < st.root.length)
    (hw : (getT st.root i).initWatch ≠ 0) :
    ((getT st.root i).initWatch = (getT st.root j).initWatch → i = j) ∧
    (getT st.root i).initWatch ≠ (getT st.root j).watch := by
  have hci := reach_CI P hP n st cs h
  constructor
  · intro he
    apply Classical.byContradiction
    intro hne
    exact hci.RI i j hi hj hne _ (Or.inr ⟨rfl, hw⟩) (Or.inr ⟨he, hw⟩)
  · intro he
    by_cases hij : i = j
    · subst hij; exact hci.RW i hi hw he.symm
    · exact hci.RI i j hi hj hij _ (Or.inr ⟨rfl, hw⟩) (Or.inl he)

/-- **(a) exactness, step form**: a scheduler step leaves the committed version of
    table `x` — in particular its initializer state — as it is, unless the stepping
    thread is a COMMITTING writer that requested `x` and whose `storeRoot` happens in
    this step; then the new version is the one computed from the committed version:
    `initPending` becomes `false` if the writer marks, else `true` if it registers,
    else stays -/
theorem C19_conc_init_changes_only_at_commit (P : Protocol) (hP : P.initShape = true) (n : Nat) (st : State)
    (cs : List Bool) (h : Reach P n st cs) (tid : Nat) (x : Nat) (hx : x < st.root.length) :
    getT (step st tid).1.root x = getT st.root x ∨
    (cs[tid]? = some true ∧ ∃ th th', st.threads[tid]? = some th ∧ (step st tid).1.threads[tid]? = some th' ∧
      x ∈ th.tables ∧ Micro.act .storeRoot ∈ th.prog ∧ Micro.act .storeRoot ∉ th'.prog ∧
      (∃ m, getT (step st tid).1.root x =
        clr (uwEntry (th.regInit.contains x) (th.markInit.contains x) m (getT st.root x))) ∧
      (getT (step st tid).1.root x).initPending =
        (if th.markInit.contains x then false else if th.regInit.contains x then true
         else (getT st.root x).initPending)) := by
  rcases step_root_cases st cs tid (reach_sim P (initShape_simShape P hP) n st cs h) (reach_CI P hP n st cs h) with
    he | ⟨th, th', hth, hth', hc, hs, hs', _, hcr⟩ | ⟨th, w, _, _, _, he⟩
  · left; rw [he]
  · by_cases hxt : x ∈ th.tables
    · right
      obtain ⟨m, hm⟩ := (hcr x hx).1 hxt
      exact ⟨hc, th, th', hth, hth', hxt, hs, hs', ⟨m, hm⟩, by rw [hm, clr_uwEntry_pending]⟩
    · left; exact (hcr x hx).2 hxt
  · left; rw [he, getT_append_left _ _ _ hx]

set_option linter.unusedSimpArgs false in
/-- the writer that changes the committed version of `x` owns the mutex of `x` when
    the step starts or acquires it in the step; at its `storeRoot` the version it
    loaded is the committed one (C05 `writer_sees_latest`): a writer that has loaded
    the root and not yet stored sees, for each of its tables, exactly the committed
    version — counter, revision, channels AND initializer state -/
theorem C19_conc_writer_sees_committed_init (P : Protocol) (hP : P.initShape = true) (n : Nat) (st : State)
    (cs : List Bool) (h : Reach P n st cs) (tid : Nat) (th : Thread) (hth : st.threads[tid]? = some th)
    (hc : cs[tid]? = some true) (hld : Micro.act .loadRoot ∉ th.prog) (hs : Micro.act .storeRoot ∈ th.prog)
    (x : Nat) (hx : x ∈ th.tables) : getT th.oldRoot x = getT st.root x := by
  obtain ⟨c, hc', _, _, p, hp, hl⟩ := (reach_CI P hP n st cs h).TH tid th hth
  rw [hc] at hc'; simp only [Option.some.injEq] at hc'; subst hc'
  have hxl := (mem_lockList th x).2 hx
  have m1 : ∀ m, relevant2 m = true → (m ∈ th.prog ↔ m ∈ code2 (lockList th) true p) := by
    intro m hm; rw [← hp, mem_strip2 _ _ hm]
  rw [m1 _ rfl] at hld hs
  cases p <;> first
    | exact (hl x hxl).2
    | exact (hl.1 x hxl).2
    | exact (hl.2.1 x hxl).2
    | (simp [code2, cEnd2, csTail, relTail] at hld; done)
    | (simp [-List.map_drop, code2, cEnd2, csTail, relTail] at hs; done)
    | exact Bool.noConfusion hl.1

/-- **(b) aborted writers have no effect**: a scheduler step of a thread spawned with
    `commit = false` leaves every committed table version (hence the init state seen
    by every later snapshot) and the closed channels as they are; if the thread is a
    writer (it requested a table) the committed root is literally unchanged -/
theorem C19_conc_abort_no_effect (P : Protocol) (hP : P.initShape = true) (n : Nat) (st : State)
    (cs : List Bool) (h : Reach P n st cs) (tid : Nat) (hc : cs[tid]? = some false) :
    (∀ x, x < st.root.length → getT (step st tid).1.root x = getT st.root x) ∧
    (step st tid).1.closed = st.closed ∧
    (∀ th, st.threads[tid]? = some th → th.tables ≠ [] → (step st tid).1.root = st.root) := by
  have hci := reach_CI P hP n st cs h
  have hsim := reach_sim P (initShape_simShape P hP) n st cs h
  refine ⟨fun x hx => ?_, ?_, fun th hth hne => ?_⟩
  · rcases C19_conc_init_changes_only_at_commit P hP n st cs h tid x hx with he | ⟨hc', _⟩
    · exact he
    · rw [hc] at hc'; simp at hc'
  · obtain ⟨l, h1, h2⟩ := step_closed_cases st cs tid hsim hci
    cases l with
    | nil => simpa using h1
    | cons w l =>
      obtain ⟨_, _, _, _, hc', _⟩ := h2 w (by simp)
      rw [hc] at hc'; simp at hc'
  · rcases step_root_cases st cs tid hsim hci with he | ⟨_, _, _, _, hc', _⟩ | ⟨th2, w, hth2, ht, _, _⟩
    · exact he
    · rw [hc] at hc'; simp at hc'
    · rw [hth] at hth2; simp only [Option.some.injEq] at hth2; subst hth2
      exact absurd ht hne

/-- **(c) monotone**: if table `x` is initialized in the committed root (no pending
    initializer, no init record) and a scheduler step makes it not initialized, then
    the stepping thread is a committing writer that holds `x`, registers an
    initializer on `x` and does not mark it, and its `storeRoot` happens in this step -/
theorem C19_conc_initialized_monotone (P : Protocol) (hP : P.initShape = true) (n : Nat) (st : State)
    (cs : List Bool) (h : Reach P n st cs) (tid : Nat) (x : Nat) (hx : x < st.root.length)
    (hi : Initialized (getT (readTxn st) x)) (hni : ¬ Initialized (getT (readTxn (step st tid).1) x)) :
    cs[tid]? = some true ∧ ∃ th, st.threads[tid]? = some th ∧ x ∈ th.tables ∧ th.regInit.contains x = true ∧
      th.markInit.contains x = false ∧ Micro.act .storeRoot ∈ th.prog := by
  rcases C19_conc_init_changes_only_at_commit P hP n st cs h tid x hx with he | ⟨hc, th, th', hth, _, hxt, hs, _, ⟨m, hm⟩, _⟩
  · exfalso; apply hni; show Initialized (getT (step st tid).1.root x); rw [he]; exact hi
  · refine ⟨hc, th, hth, hxt, ?_, ?_, hs⟩
    · cases hr : th.regInit.contains x with
      | true => rfl
      | false =>
        exfalso; apply hni
        show Initialized (getT (step st tid).1.root x)
        rw [hm, hr]; exact clr_uwEntry_noreg _ _ _ hi
    · cases hmk : th.markInit.contains x with
      | false => rfl
      | true =>
        exfalso; apply hni
        show Initialized (getT (step st tid).1.root x)
        rw [hm, clr_uwEntry_initialized _ _ _ _ ((reach_CI P hP n st cs h).IP x hx), hmk]
        exact Or.inl rfl

/-- … and conversely a commit makes `x` initialized exactly when the writer marks, or
    does not register and `x` was initialized -/
theorem C19_conc_commit_initialized_iff (P : Protocol) (hP : P.initShape = true) (n : Nat) (st : State)
    (cs : List Bool) (h : Reach P n st cs) (x : Nat) (hx : x < st.root.length) (reg mark : Bool) (m : Nat) :
    Initialized (clr (uwEntry reg mark m (getT st.root x))) ↔
      (mark = true ∨ (reg = false ∧ Initialized (getT st.root x))) :=
  clr_uwEntry_initialized reg mark m _ ((reach_CI P hP n st cs h).IP x hx)

/-- **(d) closed only after visibility**: every closed channel is the watch channel
    of a replaced table version (C06), or the init channel `w` that a COMMITTED writer
    `th` (flag `true`, past its `storeRoot`, its unlocks and its `closeInit`) collected
    for one of its tables `x` — the version it stored for `x` was initialized — and
    `x` IS initialized in the committed root now, unless a writer that committed LATER
    (it loaded a revision of `x` at least as new as the stored one) registered a new
    initializer on `x` -/
theorem C19_conc_init_channel_closed_after_visible (P : Protocol) (hP : P.initShape = true) (n : Nat) (st : State)
    (cs : List Bool) (h : Reach P n st cs) (w : Nat) (hw : w ∈ st.closed) :
    (∃ (tid : Nat) (th : Thread), st.threads[tid]? = some th ∧ cs[tid]? = some true ∧
      Micro.act .notify ∉ th.prog ∧ w ∈ th.toNotify) ∨
    (∃ (tid : Nat) (th : Thread) (x : Nat), st.threads[tid]? = some th ∧ cs[tid]? = some true ∧
      Micro.act .storeRoot ∉ th.prog ∧ (∀ y, Micro.release y ∉ th.prog) ∧ Micro.act .closeInit ∉ th.prog ∧
      x ∈ th.tables ∧ w = (getT th.entries x).initWatch ∧ Collectable (getT th.entries x) ∧
      Initialized (clr (getT th.entries x)) ∧
      (Initialized (getT (readTxn st) x) ∨
        ∃ (k : Nat) (U : Thread), st.threads[k]? = some U ∧ cs[k]? = some true ∧ Micro.act .storeRoot ∉ U.prog ∧
          x ∈ U.tables ∧ U.regInit.contains x = true ∧ (getT th.entries x).rev ≤ (getT U.oldRoot x).rev)) := by
  have hci := reach_CI P hP n st cs h
  have hci2 := reach_CI2 P hP n st cs h
  obtain ⟨tid, th, hth, hc, hs, hor⟩ := hci.CO w hw
  have hrec := storedRec st cs _ hci tid th hth hc hs
  have ord := commitOrder st cs _ hci tid th hth hc
  rcases hor with ⟨hn, hm⟩ | ⟨hn, hm⟩
  · exact Or.inl ⟨tid, th, hth, hc, hn, hm⟩
  · right
    rw [hrec.cii.1, mem_toClose] at hm
    obtain ⟨x, hx, hcol, he⟩ := hm
    have hxl := mem_L_of_D th x hx
    refine ⟨tid, th, x, hth, hc, hs, ord.closeInit_after_unlock hn, hn, (mem_dedup x _).1 hx, he, hcol,
      clr_collectable _ hcol, ?_⟩
    rcases hci2.DI tid th hth hc hs x hxl hcol with hi | ⟨k, U, hk, hck, hsU, hxU, rest⟩
    · exact Or.inl hi
    · exact Or.inr ⟨k, U, hk, hck, hsU, (mem_lockList U x).1 hxU, rest⟩

/-- **(d) visible before signalled**: from its `storeRoot` until it releases table
    `x`, the version a committed writer stored for `x` IS the committed one — so if it
    collected the init channel of `x`, a snapshot taken in that period shows `x`
    initialized; its `closeInit` comes only after that period -/
theorem C19_conc_initialized_while_held (P : Protocol) (hP : P.initShape = true) (n : Nat) (st : State)
    (cs : List Bool) (h : Reach P n st cs) (tid : Nat) (th : Thread) (hth : st.threads[tid]? = some th)
    (hc : cs[tid]? = some true) (hs : Micro.act .storeRoot ∉ th.prog) (x : Nat)
    (hrel : Micro.release x ∈ th.prog) :
    getT (readTxn st) x = clr (getT th.entries x) ∧ Micro.act .closeInit ∈ th.prog ∧
    (Collectable (getT th.entries x) → Initialized (getT (readTxn st) x)) := by
  have hci := reach_CI P hP n st cs h
  have hrec := storedRec st cs _ hci tid th hth hc hs
  have ord := commitOrder st cs _ hci tid th hth hc
  have he := hrec.held x hrel
  refine ⟨he, ?_, fun hcol => by show Initialized (getT st.root x); rw [he]; exact clr_collectable _ hcol⟩
  apply Classical.byContradiction
  intro hn
  exact ord.closeInit_after_unlock hn x hrel

/-- **(d) no missed signal**: once a committing writer is past its `closeInit`, every
    init channel it collected (tables it made initialized) is closed -/
theorem C19_conc_collected_channels_closed (P : Protocol) (hP : P.initShape = true) (n : Nat) (st : State)
    (cs : List Bool) (h : Reach P n st cs) (tid : Nat) (th : Thread) (hth : st.threads[tid]? = some th)
    (hc : cs[tid]? = some true) (hn : Micro.act .closeInit ∉ th.prog) (x : Nat) (hx : x ∈ th.tables)
    (hcol : Collectable (getT th.entries x)) : (getT th.entries x).initWatch ∈ st.closed := by
  have hci := reach_CI P hP n st cs h
  have ord := commitOrder st cs _ hci tid th hth hc
  have hs := ord.notify_after_store (ord.closeInit_after_notify hn)
  have hrec := storedRec st cs _ hci tid th hth hc hs
  apply (reach_CI2 P hP n st cs h).IC tid th hth hc hs hn
  rw [hrec.cii.1, mem_toClose]
  exact ⟨x, (mem_dedup x _).2 hx, hcol, rfl⟩

/-- **(d) only `closeInit` of the committer closes an init channel**: if a scheduler
    step closes a channel that is not in the stepping thread's notify list, the thread
    is a committing writer past its `storeRoot` whose `closeInit` happens in this step,
    after it released all its tables, and the channel is one it collected -/
theorem C19_conc_init_closed_by_closeInit (P : Protocol) (hP : P.initShape = true) (n : Nat) (st : State)
    (cs : List Bool) (h : Reach P n st cs) (tid : Nat) :
    ∃ l, (step st tid).1.closed = st.closed ++ l ∧ ∀ w, w ∈ l →
      ∃ th th', st.threads[tid]? = some th ∧ (step st tid).1.threads[tid]? = some th' ∧ cs[tid]? = some true ∧
        Micro.act .storeRoot ∉ th'.prog ∧
        (w ∈ th'.toNotify ∨
         (Micro.act .closeInit ∈ th.prog ∧ Micro.act .closeInit ∉ th'.prog ∧ (∀ y, Micro.release y ∉ th'.prog) ∧
           w ∈ th'.initToClose)) := by
  obtain ⟨l, h1, h2⟩ := step_closed_cases st cs tid (reach_sim P (initShape_simShape P hP) n st cs h)
    (reach_CI P hP n st cs h)
  refine ⟨l, h1, fun w hw => ?_⟩
  obtain ⟨th, th', a, b, c1, c2, c3⟩ := h2 w hw
  refine ⟨th, th', a, b, c1, c2, ?_⟩
  rcases c3 with ⟨_, _, k3⟩ | ⟨k1, k2, k3⟩
  · exact Or.inl k3
  · have ord := commitOrder _ cs _ (reach_CI P hP n _ cs (.step st cs tid h)) tid th' b c1
    exact Or.inr ⟨k1, k2, ord.closeInit_after_unlock k2, k3⟩

/-- **(c) monotone, between two moments**: if a snapshot taken in a reachable state
    `st0` shows table `x` initialized, then in EVERY later state (any further spawns and
    scheduler steps) `x` is initialized, unless a writer that committed after the
    snapshot (it produced a revision of `x` newer than the snapshot's) registered a new
    initializer on `x` -/
theorem C19_conc_initialized_stays (P : Protocol) (hP : P.initShape = true) (n : Nat)
    (st0 : State) (cs0 : List Bool) (h0 : Reach P n st0 cs0) (st : State) (cs : List Bool)
    (h : ReachFrom P st0 cs0 st cs) (x : Nat) (hx : x < (readTxn st0).length)
    (hi : Initialized (getT (readTxn st0) x)) :
    Initialized (getT (readTxn st) x) ∨
    ∃ (k : Nat) (U : Thread), st.threads[k]? = some U ∧ cs[k]? = some true ∧ Micro.act .storeRoot ∉ U.prog ∧
      x ∈ U.tables ∧ U.regInit.contains x = true ∧ (getT (readTxn st0) x).rev < (getT U.entries x).rev := by
  obtain ⟨_, _, hor⟩ := stays_initialized P hP n st0 cs0 h0 st cs h x hx hi
  rcases hor with hin | ⟨k, U, hU, hxU, hr, hlt⟩
  · exact Or.inl hin
  · exact Or.inr ⟨k, U, hU.1, hU.2.1, hU.2.2, (mem_lockList U x).1 hxU, hr, hlt⟩

/-- **(a) exactness, history form**: in every reachable state an initializer is pending
    on table `x` of the committed root IF AND ONLY IF some committed writer `U` (flag
    `true`, past its `storeRoot`) that requested `x` registered an initializer on `x`
    without marking it, and no committed writer that marks `x` committed later than
    `U` — "later" read off the thread records: every committed writer `V` with
    `x ∈ markInit` produced a revision of `x` not newer than the one `U` produced
    (`V = U` is impossible since `U` does not mark).  Uncommitted (open or aborted)
    writers do not occur in the statement: they have no effect -/
theorem C19_conc_pending_exact (P : Protocol) (hP : P.initShape = true) (n : Nat) (st : State) (cs : List Bool)
    (h : Reach P n st cs) (x : Nat) (hx : x < (readTxn st).length) :
    (getT (readTxn st) x).initPending = true ↔
    ∃ (k : Nat) (U : Thread), st.threads[k]? = some U ∧ cs[k]? = some true ∧ Micro.act .storeRoot ∉ U.prog ∧
      x ∈ U.tables ∧ U.regInit.contains x = true ∧ U.markInit.contains x = false ∧
      ∀ (j : Nat) (V : Thread), st.threads[j]? = some V → cs[j]? = some true → Micro.act .storeRoot ∉ V.prog →
        x ∈ V.tables → V.markInit.contains x = true → (getT V.entries x).rev ≤ (getT U.entries x).rev := by
  have hci := reach_CI P hP n st cs h
  have hci2 := reach_CI2 P hP n st cs h
  have hci3 := reach_CI3 P hP n st cs h
  constructor
  · intro hp
    obtain ⟨k, U, hU, hxU, hr, hm, hall⟩ := hci3.PI x hx hp
    refine ⟨k, U, hU.1, hU.2.1, hU.2.2, (mem_lockList U x).1 hxU, hr, hm, ?_⟩
    intro j V h1 h2 h3 hxV hmV
    exact hall j V ⟨h1, h2, h3⟩ ((mem_lockList V x).2 hxV) (Or.inr hmV)
  · rintro ⟨k, U, h1, h2, h3, hxU, hr, hm, hall⟩
    cases hp : (getT (readTxn st) x).initPending with
    | true => rfl
    | false =>
      exfalso
      obtain ⟨j, V, hV, hxV, hmV, hle⟩ := hci3.PD x hx hp k U ⟨h1, h2, h3⟩ ((mem_lockList U x).2 hxU) hr hm
      have := hall j V hV.1 hV.2.1 hV.2.2 ((mem_lockList V x).1 hxV) hmV
      have := (sw_revs st cs _ hci hci2 j V hV x hxV).1
      omega

/-- … and a table is initialized iff none is pending -/
theorem C19_conc_initialized_iff_not_pending (P : Protocol) (hP : P.initShape = true) (n : Nat) (st : State)
    (cs : List Bool) (h : Reach P n st cs) (x : Nat) (hx : x < (readTxn st).length) :
    Initialized (getT (readTxn st) x) ↔ (getT (readTxn st) x).initPending = false := by
  have := (reach_CI P hP n st cs h).IP x hx
  unfold Initialized
  constructor
  · exact fun h => h.1
  · intro hp
    refine ⟨hp, ?_⟩
    apply Classical.byContradiction
    intro hne
    have := this.2 hne
    rw [show (readTxn st) = st.root from rfl] at hp
    rw [hp] at this; simp at this

/-! ## non-vacuity -/

private def stepsOf (st : State) (tid : Nat) : Nat → State
  | 0 => st
  | k + 1 => stepsOf (step st tid).1 tid k

private theorem reach_stepsOf (P : Protocol) (n : Nat) (tid : Nat) : ∀ (k : Nat) (st : State) (cs : List Bool),
    Reach P n st cs → Reach P n (stepsOf st tid k) cs
  | 0, _, _, h => h
  | k + 1, st, cs, h => reach_stepsOf P n tid k _ cs (.step st cs tid h)

private def afterRegister : State :=
  stepsOf (spawnWriter Gen.protocol (initState 2) [1, 0, 1] true [] [0]) 0 16

private theorem reach_afterRegister : Reach Gen.protocol 2 afterRegister [true] :=
  reach_stepsOf _ _ _ _ _ _ (.writer _ _ _ _ _ _ .init (by decide))

/-- a committed writer registered an initializer on table 0: a snapshot shows it
    pending with the open init channel 5 -/
example : ∃ st cs, Reach Gen.protocol 2 st cs ∧ (getT (readTxn st) 0).initPending = true ∧
    (getT (readTxn st) 0).initWatch = 5 ∧ 5 ∉ st.closed ∧ ¬ Initialized (getT (readTxn st) 0) :=
  ⟨afterRegister, [true], reach_afterRegister, by decide, by decide, by decide, by decide⟩

/-- a second writer marks it done: between its `storeRoot` and its unlock the table is
    initialized in the committed root and channel 5 is still open (hypotheses of
    `C19_conc_initialized_while_held`) … -/
example : ∃ st cs th, Reach Gen.protocol 2 st cs ∧ st.threads[1]? = some th ∧ cs[1]? = some true ∧
    Micro.act .storeRoot ∉ th.prog ∧ Micro.release 0 ∈ th.prog ∧ Collectable (getT th.entries 0) ∧
    Initialized (getT (readTxn st) 0) ∧ 5 ∉ st.closed := by
  refine ⟨stepsOf (spawnWriter Gen.protocol afterRegister [0] true [0] []) 1 8, [true, true], _,
    reach_stepsOf _ _ _ _ _ _ (.writer _ _ _ _ _ _ reach_afterRegister (by decide)), rfl, by decide, by decide,
    by decide, by decide, by decide, by decide⟩

set_option maxRecDepth 4000 in
/-- … and after its `closeInit` channel 5 is closed (hypotheses of
    `C19_conc_init_channel_closed_after_visible`, second alternative) -/
example : ∃ st cs th, Reach Gen.protocol 2 st cs ∧ st.threads[1]? = some th ∧ cs[1]? = some true ∧
    Micro.act .closeInit ∉ th.prog ∧ 5 ∈ st.closed ∧ (getT th.entries 0).initWatch = 5 ∧
    Initialized (getT (readTxn st) 0) := by
  refine ⟨stepsOf (spawnWriter Gen.protocol afterRegister [0] true [0] []) 1 13, [true, true], _,
    reach_stepsOf _ _ _ _ _ _ (.writer _ _ _ _ _ _ reach_afterRegister (by decide)), rfl, by decide, by decide,
    by decide, by decide, by decide⟩

/-- an aborting writer that registers and marks: nothing changes (hypothesis of
    `C19_conc_abort_no_effect`) -/
example : ∃ st cs, Reach Gen.protocol 2 st cs ∧ cs[1]? = some false ∧ st.root = afterRegister.root ∧
    st.closed = afterRegister.closed := by
  refine ⟨stepsOf (spawnWriter Gen.protocol afterRegister [0, 1] false [0] [1]) 1 12, [true, false],
    reach_stepsOf _ _ _ _ _ _ (.writer _ _ _ _ _ _ reach_afterRegister (by decide)), by decide, by decide, by decide⟩

end Sdb
