import SdbModel.Props.C06Glue
import SdbModel.Lemmas.TableWatchKeep
/-!
# C06 glue, retained snapshots — the channel of ANY earlier snapshot closes with the first change

`C06_glue_changed_result_closes_channel` (Props/C06Glue.lean) speaks about a query made on
the committed state directly before the committing transaction.  A reader may hold a
snapshot and its channel over many later transactions.  Here: for a query made on ANY
reachable committed state `(t0, c0)` and any later state `(t, c)` reached by committed /
aborted write transactions, the channel handed out at `(t0, c0)` is closed, or it is still
the channel the same query is given now AND the query's result is still the snapshot's
(`C06_glue_retained_snapshot_invariant`).  Hence: as soon as the result differs from the
snapshot's, the channel is closed (`C06_glue_retained_snapshot_channel_closed`) — no missed
change for any snapshot, any number of transactions later.

Built on the keep-or-close lemmas (Lemmas/TableWatchKeep.lean: the C12 frame lemmas lifted
to Commit + Notify) and the glue theorem.
-/
namespace Sdb
open Sdb.Art Sdb.Tbl Sdb.ArtW Sdb.TW

namespace TW

/-- `(t, c)` is reached from `(t0, c0)` by committed / aborted write transactions (and frame steps) -/
inductive Hist (t0 : TableS) (c0 : CTab) : TableS → CTab → Prop where
  | refl : Hist t0 c0 t0 c0
  | commit (t : TableS) (c : CTab) (ops : List TOp) : Hist t0 c0 t c →
      Hist t0 c0 (runT c (beginT t c) ops).1 (c.commit (runT c (beginT t c) ops).2)
  | abort (t : TableS) (c : CTab) (ops : List TOp) : Hist t0 c0 t c →
      Hist t0 c0 t (c.abort (runT c (beginT t c) ops).2)
  | frame (t t' : TableS) (c : CTab) : Hist t0 c0 t c → (∀ i, imap t' i = imap t i) → t'.lpm = t.lpm →
      t'.ulpm = t.ulpm → Hist t0 c0 t' c

theorem Hist.reach {t0 t : TableS} {c0 c : CTab} (h0 : Reach t0 c0) (h : Hist t0 c0 t c) : Reach t c := by
  induction h with
  | refl => exact h0
  | commit t c ops _ ih => exact Reach.commit t c ops ih
  | abort t c ops _ ih => exact Reach.abort t c ops ih
  | frame t t' c _ hi hl hu ih => exact Reach.frame t t' c ih hi hl hu

theorem view_part (c : CTab) (i : PIx) : c.view.part.get i = Tree.view (c.part.get i).tree := by
  unfold CTab.view; simp

/-- keep-or-close at table level: after a commit the channel of a query on the state before is closed,
    or the query is given the same channel on the new state -/
theorem chan_keep_or_close (t : TableS) (c : CTab) (h : Reach t c) (ops : List TOp) (ix : Idx) (kind : QKind)
    (key : Key) (hrev : ix ≠ .rev) :
    (c.commit (runT c (beginT t c) ops).2).isClosed (c.view.chan ix kind key).1 (c.view.chan ix kind key).2 = true ∨
    (c.commit (runT c (beginT t c) ops).2).view.chan ix kind key = c.view.chan ix kind key := by
  have hinv := h.inv
  have ht := hinv.begin.1.run ops
  have part : ∀ (i : PIx) (u : Bool),
      partChan u (Tree.view (c.part.get i).tree) kind key ∈
          ((c.commit (runT c (beginT t c) ops).2).part.get i).wd.closed ∨
      partChan u (Tree.view ((c.commit (runT c (beginT t c) ops).2).part.get i).tree) kind key =
        partChan u (Tree.view (c.part.get i).tree) kind key := by
    intro i u
    rw [commit_part c _ ht.locked i]
    exact CIdx.keep_or_close (hinv.part i) (ht.idx i) (ht.tree i) u kind key
  cases ix with
  | id =>
    simp only [View.chan, view_part, CTab.isClosed]
    rcases part .id true with h | h
    · left; simpa [Tri.get] using h
    · right; rw [h]
  | u =>
    simp only [View.chan, view_part, CTab.isClosed]
    rcases part .u true with h | h
    · left; simpa [Tri.get] using h
    · right; rw [h]
  | tags =>
    simp only [View.chan, view_part, CTab.isClosed]
    rcases part .tags false with h | h
    · left; simpa [Tri.get] using h
    · right; rw [h]
  | lpm =>
    simp only [View.chan, CTab.view, CTab.isClosed, CTab.commit, ht.locked, if_true]
    rcases LIdx.keep_or_close c.lpm (runT c (beginT t c) ops).2.lpm with h | h
    · left; simpa using h
    · right; rw [h]
  | ulpm =>
    simp only [View.chan, CTab.view, CTab.isClosed, CTab.commit, ht.locked, if_true]
    rcases LIdx.keep_or_close c.ulpm (runT c (beginT t c) ops).2.ulpm with h | h
    · left; simpa using h
    · right; rw [h]
  | rev => exact absurd rfl hrev

theorem abort_tree (c : CIdx) (w : WIdx) : (c.abort w).tree = c.tree := by
  unfold CIdx.abort; split <;> rfl

/-- Abort leaves every handed-out channel where it was -/
theorem abort_view_chan (c : CTab) (w : WTab) (ix : Idx) (kind : QKind) (key : Key) :
    (c.abort w).view.chan ix kind key = c.view.chan ix kind key := by
  unfold CTab.abort
  split
  · have e0 := abort_tree (c.part.get .id) (w.part.get .id)
    have e1 := abort_tree (c.part.get .u) (w.part.get .u)
    have e2 := abort_tree (c.part.get .tags) (w.part.get .tags)
    cases ix <;> simp [View.chan, CTab.view, e0, e1, e2]
  · rfl

/-- a query's result depends on the index maps only -/
theorem qRes_congr (t t' : TableS) (hi : ∀ i, imap t' i = imap t i) (hl : t'.lpm = t.lpm) (hu : t'.ulpm = t.ulpm)
    (ix : Idx) (kind : QKind) (key : Key) (plen : Nat) (hrev : ix ≠ .rev) (hall : kind = .all → ix = .id) :
    qRes t' ix kind key plen = qRes t ix kind key plen := by
  have hk : ix ≠ .id → kind ≠ .all := fun h1 h2 => h1 (hall h2)
  cases ix with
  | id => rw [qRes_id, qRes_id]; have := hi .id; simp only [imap] at this; rw [this]
  | u => rw [qRes_u _ _ _ _ (hk (by simp)), qRes_u _ _ _ _ (hk (by simp))]; have := hi .u; simp only [imap] at this; rw [this]
  | tags =>
    rw [qRes_tags _ _ _ _ (hk (by simp)), qRes_tags _ _ _ _ (hk (by simp))]
    have := hi .tags; simp only [imap] at this; rw [this]
  | lpm => exact qRes_lpm_congr _ _ _ _ _ (hk (by simp)) hl
  | ulpm => exact qRes_ulpm_congr _ _ _ _ _ (hk (by simp)) hu
  | rev => exact absurd rfl hrev

end TW

/-- **retained snapshots**: a query `(ix, kind, key, plen)` made on any reachable committed state
    `(t0, c0)`; `(t, c)` any state reached from it by committed / aborted write transactions.  Then the
    channel handed out at `(t0, c0)` is closed in `c`, or it is still the channel the query is given in
    `c` and the query's result is still the snapshot's. -/
theorem C06_glue_retained_snapshot_invariant (t0 t : TableS) (c0 c : CTab) (h0 : TW.Reach t0 c0)
    (h : TW.Hist t0 c0 t c) (ix : Idx) (kind : QKind) (key : Key) (plen : Nat) (hrev : ix ≠ .rev)
    (hall : kind = .all → ix = .id) :
    c.isClosed (c0.view.chan ix kind key).1 (c0.view.chan ix kind key).2 = true ∨
    (c.view.chan ix kind key = c0.view.chan ix kind key ∧ qRes t ix kind key plen = qRes t0 ix kind key plen) := by
  induction h with
  | refl => exact Or.inr ⟨rfl, rfl⟩
  | commit t c ops hh ih =>
    have hr := hh.reach h0
    rcases ih with hcl | ⟨hch, hres⟩
    · exact Or.inl (C06_glue_commit_keeps_closed c _ _ _ hcl)
    · by_cases hq : qRes (runT c (beginT t c) ops).1 ix kind key plen = qRes t ix kind key plen
      · rcases chan_keep_or_close t c hr ops ix kind key hrev with hk | hk
        · left; rw [← hch]; exact hk
        · right; exact ⟨hk.trans hch, hq.trans hres⟩
      · left
        have := C06_glue_changed_result_closes_channel t c hr ops ix kind key plen hrev hall hq
        rw [← hch]; exact this
  | abort t c ops _ ih =>
    rcases ih with hcl | ⟨hch, hres⟩
    · left; rw [C06_glue_abort_closes_nothing]; exact hcl
    · right; exact ⟨(abort_view_chan c _ ix kind key).trans hch, hres⟩
  | frame t t' c _ hi hl hu ih =>
    rcases ih with hcl | ⟨hch, hres⟩
    · exact Or.inl hcl
    · right; exact ⟨hch, (qRes_congr t t' hi hl hu ix kind key plen hrev hall).trans hres⟩

/-- **no missed change for any snapshot**: whenever, any number of committed / aborted transactions
    later, the query's result differs from the result on the snapshot the channel came from, the channel
    is closed -/
theorem C06_glue_retained_snapshot_channel_closed (t0 t : TableS) (c0 c : CTab) (h0 : TW.Reach t0 c0)
    (h : TW.Hist t0 c0 t c) (ix : Idx) (kind : QKind) (key : Key) (plen : Nat) (hrev : ix ≠ .rev)
    (hall : kind = .all → ix = .id) (hres : qRes t ix kind key plen ≠ qRes t0 ix kind key plen) :
    c.isClosed (c0.view.chan ix kind key).1 (c0.view.chan ix kind key).2 = true := by
  rcases C06_glue_retained_snapshot_invariant t0 t c0 c h0 h ix kind key plen hrev hall with hcl | ⟨_, he⟩
  · exact hcl
  · exact absurd he hres

/-! ## non-vacuity: a snapshot retained over two transactions -/

namespace TW
/-- base state: objects 0x0102, 0x0104, 0x0500 (an inner node for the stem 0x01 below the root) -/
def exBaseOps : List TOp :=
  [.modify 0 exO1 false, .modify 0 { exO2 with id := [1, 4] } false, .modify 0 { exO2 with id := [5, 0] } false]
def exTB : TableS := (runT exC0 (beginT exT0 exC0) exBaseOps).1
def exCB : CTab := exC0.commit (runT exC0 (beginT exT0 exC0) exBaseOps).2
theorem exReachB : Reach exTB exCB := Reach.commit exT0 exC0 _ (Reach.init true)
end TW

-- a snapshot of exTB/exCB holds the channel of Prefix(0x01) through the primary index.  Transaction A updates
-- 0x0500 (result unchanged: channel stays open), transaction B (DeleteAll) is aborted, transaction C inserts
-- 0x0103: the result differs from the snapshot's and the channel is closed
example :
    let sA := runT exCB (beginT exTB exCB) [.modify 0 { exO2 with id := [5, 0], val := 99 } false]
    let cA := exCB.commit sA.2
    let cB := cA.abort (runT cA (beginT sA.1 cA) [.deleteAll]).2
    let sC := runT cB (beginT sA.1 cB) [.modify 0 exO2 false]
    let cC := cB.commit sC.2
    qRes sA.1 .id .prefix [1] 0 = qRes exTB .id .prefix [1] 0 ∧
    cB.isClosed (exCB.view.chan .id .prefix [1]).1 (exCB.view.chan .id .prefix [1]).2 = false ∧
    qRes sC.1 .id .prefix [1] 0 ≠ qRes exTB .id .prefix [1] 0 ∧
    cC.isClosed (exCB.view.chan .id .prefix [1]).1 (exCB.view.chan .id .prefix [1]).2 = true := by decide

example : TW.Hist exTB exCB
    (runT exCB (beginT exTB exCB) [.modify 0 exO2 false]).1
    (exCB.commit (runT exCB (beginT exTB exCB) [.modify 0 exO2 false]).2) :=
  TW.Hist.commit _ _ _ TW.Hist.refl

end Sdb
