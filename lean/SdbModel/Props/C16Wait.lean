import SdbModel.Model.Progress
import SdbModel.Generated.ProgressParams
/-!
  C16: "WaitUntilReconciled(rev) returns without error only after every change up to rev has
  been attempted at least once, and the retry low-watermark it reports …".

  `Props/C16Run.lean` proves what a PUBLISHED pair (progress revision, low-watermark) means.
  This file is about the tracker that publishes and hands them out under concurrency
  (`reconciler/progress.go`, `Model.Progress`): for every interleaving of any number of
  `update` calls of the reconcile loop with a waiter and the end of its context —
  * what `wait` returns is a pair published together, the revision at least the target
    (no torn read, no early return),
  * a waiter is never left asleep once the target has been reached (no lost wake-up),
  * the published revision never goes back.
-/
namespace Sdb
open Progress

/-- the invariant of every reachable state -/
def Progress.Inv (s : St) : Prop :=
  match s.wt with
  | .start => True
  | .sampled cur lw w =>
    cur < s.target ∧ cur ≤ s.p.revision ∧ w ≤ s.p.watch ∧
    (w = s.p.watch → cur = s.p.revision ∧ lw = s.p.lw)
  | .returned cur _ err => (err = false → s.target ≤ cur) ∧ cur ≤ s.p.revision

private theorem update_rev_ge (p : Tracker) (rev lw : Nat) : p.revision ≤ (p.update rev lw).revision := by
  unfold Tracker.update; simp only; split <;> omega

private theorem update_watch_ge (p : Tracker) (rev lw : Nat) : p.watch ≤ (p.update rev lw).watch := by
  unfold Tracker.update; simp only; split <;> omega

/-- an `update` that leaves the channel alone changed neither the revision nor the low-watermark -/
private theorem update_same_watch (p : Tracker) (rev lw : Nat) (h : (p.update rev lw).watch = p.watch) :
    (p.update rev lw).revision = p.revision ∧ (p.update rev lw).lw = p.lw := by
  unfold Tracker.update at h ⊢
  simp only at h ⊢
  by_cases h1 : rev > p.revision
  · simp [h1] at h
  · by_cases h2 : lw = p.lw
    · simp [h1, h2]
    · simp [h1, h2] at h

theorem C16_wait_invariant_reachable {target : Nat} {s : St} (h : Reach target s) : s.target = target ∧ Progress.Inv s := by
  induction h with
  | init => exact ⟨rfl, trivial⟩
  | @step s t hr hs ih =>
    obtain ⟨ht, hi⟩ := ih
    cases hs with
    | update rev lw =>
      refine ⟨ht, ?_⟩
      unfold Progress.Inv at hi ⊢
      cases hw : s.wt with
      | start => simp [hw]
      | sampled cur l w =>
        simp only [hw] at hi ⊢
        obtain ⟨a, b, c, d⟩ := hi
        refine ⟨a, Nat.le_trans b (update_rev_ge _ _ _), Nat.le_trans c (update_watch_ge _ _ _), ?_⟩
        intro hweq
        have hsame : (s.p.update rev lw).watch = s.p.watch := by
          have := update_watch_ge s.p rev lw; omega
        obtain ⟨e1, e2⟩ := update_same_watch _ _ _ hsame
        obtain ⟨f1, f2⟩ := d (by omega)
        exact ⟨by rw [e1]; exact f1, by rw [e2]; exact f2⟩
      | returned cur l err =>
        simp only [hw] at hi ⊢
        exact ⟨hi.1, Nat.le_trans hi.2 (update_rev_ge _ _ _)⟩
    | sampleReturn h hge =>
      refine ⟨ht, ?_⟩
      simp only [Progress.Inv]
      exact ⟨fun _ => hge, Nat.le_refl _⟩
    | sampleWait h hlt =>
      refine ⟨ht, ?_⟩
      simp only [Progress.Inv]
      exact ⟨hlt, Nat.le_refl _, Nat.le_refl _, fun _ => ⟨trivial, trivial⟩⟩
    | wake cur lw w h hc => exact ⟨ht, by simp [Progress.Inv]⟩
    | ctxReturn cur lw w h hd =>
      refine ⟨ht, ?_⟩
      unfold Progress.Inv at hi ⊢
      simp only [h] at hi
      simp only
      exact ⟨fun e => (by cases e), hi.2.1⟩
    | cancel =>
      refine ⟨ht, ?_⟩
      unfold Progress.Inv at hi ⊢
      cases hw : s.wt <;> simp only [hw] at hi ⊢ <;> exact hi

/-- **No early return.**  Whenever `wait(ctx, target)` has returned without an error, the
    revision it returned is at least the target — and it is a revision the tracker had
    published (never above the current one). -/
theorem C16_wait_returns_only_when_reached {target : Nat} {s : St} (h : Reach target s) (cur lw : Nat)
    (hr : s.wt = .returned cur lw false) : target ≤ cur ∧ cur ≤ s.p.revision := by
  obtain ⟨ht, hi⟩ := C16_wait_invariant_reachable h
  unfold Progress.Inv at hi
  simp only [hr] at hi
  exact ⟨ht ▸ hi.1 trivial, hi.2⟩

/-- **No torn read.**  The pair a sleeping waiter holds was read in one critical section: while
    no `update` has changed anything since (its channel is still the current one) it IS the
    tracker's current pair. -/
theorem C16_wait_sample_is_consistent {target : Nat} {s : St} (h : Reach target s) (cur lw w : Nat)
    (hs : s.wt = .sampled cur lw w) (hw : w = s.p.watch) : cur = s.p.revision ∧ lw = s.p.lw := by
  obtain ⟨_, hi⟩ := C16_wait_invariant_reachable h
  unfold Progress.Inv at hi
  simp only [hs] at hi
  exact hi.2.2.2 hw

/-- **No lost wake-up.**  In every reachable state in which the waiter sleeps although the
    published revision has reached its target, its channel is closed: the `wake` step is
    enabled, and after it the waiter samples again and returns.  (The waiter went to sleep
    because the revision was below the target; every `update` that raised it since closed the
    channel the waiter holds or a later one — and channels close in order.) -/
theorem C16_wait_no_lost_wakeup {target : Nat} {s : St} (h : Reach target s) (cur lw w : Nat)
    (hs : s.wt = .sampled cur lw w) (hreached : target ≤ s.p.revision) : s.p.closed w = true := by
  obtain ⟨ht, hi⟩ := C16_wait_invariant_reachable h
  unfold Progress.Inv at hi
  simp only [hs] at hi
  obtain ⟨a, _, c, d⟩ := hi
  unfold Tracker.closed
  simp only [decide_eq_true_eq]
  rcases Nat.lt_or_ge w s.p.watch with hlt | hge
  · exact hlt
  · have hw : w = s.p.watch := by omega
    have := (d hw).1
    rw [ht] at a
    omega

/-- … and the two steps that follow: wake up, sample, return the target-reaching pair -/
theorem C16_wait_wakes_and_returns {target : Nat} {s : St} (h : Reach target s) (cur lw w : Nat)
    (hs : s.wt = .sampled cur lw w) (hreached : target ≤ s.p.revision) :
    ∃ t, Reach target t ∧ t.wt = .returned s.p.revision s.p.lw false ∧ t.p = s.p := by
  obtain ⟨ht, _⟩ := C16_wait_invariant_reachable h
  have hc := C16_wait_no_lost_wakeup h cur lw w hs hreached
  let s1 : St := { s with wt := .start }
  have r1 : Reach target s1 := Reach.step h (Step.wake s cur lw w hs hc)
  have hge : s1.p.revision ≥ s1.target := by simp [s1, ht]; exact hreached
  exact ⟨_, Reach.step r1 (Step.sampleReturn s1 rfl hge), rfl, rfl⟩

private theorem wait_err_inv {target : Nat} {s : St} (h : Reach target s) :
    s.target = target ∧ (∀ c l, s.wt = .returned c l true → s.ctxDone = true ∧ c < s.target) ∧
      (∀ c l w, s.wt = .sampled c l w → c < s.target) := by
  induction h with
  | init => exact ⟨rfl, fun c l h => by simp at h, fun c l w h => by simp at h⟩
  | @step s t hr hs ih =>
    obtain ⟨ht, h1, h2⟩ := ih
    cases hs with
    | update rev lw => exact ⟨ht, h1, h2⟩
    | sampleReturn h hge =>
      exact ⟨ht, fun c l he => by simp at he, fun c l w he => by simp at he⟩
    | sampleWait h hlt =>
      refine ⟨ht, fun c l he => by simp at he, ?_⟩
      intro c l w he
      simp only [Waiter.sampled.injEq] at he
      obtain ⟨rfl, _, _⟩ := he
      exact hlt
    | wake c l w h hc =>
      exact ⟨ht, fun c' l' he => by simp at he, fun c' l' w' he => by simp at he⟩
    | ctxReturn c l w h hd =>
      refine ⟨ht, ?_, fun c' l' w' he => by simp at he⟩
      intro c' l' he
      simp only [Waiter.returned.injEq] at he
      obtain ⟨rfl, _, _⟩ := he
      exact ⟨hd, h2 c l w h⟩
    | cancel =>
      exact ⟨ht, fun c l he => ⟨rfl, (h1 c l he).2⟩, h2⟩

/-- **An error only when the context has ended**: `wait` reports an error in no other case, and
    then hands back the pair it sampled last (below the target) -/
theorem C16_wait_error_only_after_ctx_done {target : Nat} {s : St} (h : Reach target s) (cur lw : Nat)
    (hr : s.wt = .returned cur lw true) : s.ctxDone = true ∧ cur < target := by
  obtain ⟨ht, h1, _⟩ := wait_err_inv h
  have := h1 cur lw hr
  exact ⟨this.1, ht ▸ this.2⟩

/-- the published revision never goes back; the low-watermark is the last one published -/
theorem C16_wait_progress_monotone (p : Tracker) (rev lw : Nat) :
    p.revision ≤ (p.update rev lw).revision ∧ (p.update rev lw).lw = lw ∧
    ((p.update rev lw).revision = p.revision ∨ (p.update rev lw).revision = rev) := by
  refine ⟨update_rev_ge p rev lw, rfl, ?_⟩
  unfold Tracker.update; simp only; split
  · exact Or.inr rfl
  · exact Or.inl rfl

/-- waiters are woken exactly when something changed (no wake-up storm for idle rounds) -/
theorem C16_wait_channel_replaced_iff_changed (p : Tracker) (rev lw : Nat) :
    (p.update rev lw).watch ≠ p.watch ↔ ((p.update rev lw).revision ≠ p.revision ∨ (p.update rev lw).lw ≠ p.lw) := by
  unfold Tracker.update; simp only
  by_cases h1 : rev > p.revision <;> by_cases h2 : lw = p.lw <;> simp [h1, h2] <;> omega

/-- the structure of `update` / `wait` the model builds in holds of today's source -/
theorem C16_wait_source_facts : Gen.progressFacts = Progress.expectedFacts := by decide

/-! non-vacuity: a waiter for revision 5 goes to sleep at 3, an idle round publishes the same
    pair (no wake-up), then 7 is published: the channel is closed and the waiter returns (7, 2) -/
private def w0 : St := { target := 5, p := { revision := 3, lw := 1, watch := 4 } }
example : ({ w0 with wt := .sampled 3 1 4 } : St).p.closed 4 = false := by decide
example : (w0.p.update 3 1).watch = 4 ∧ ((w0.p.update 3 1).update 7 2).watch = 5 ∧
    (((w0.p.update 3 1).update 7 2).closed 4) = true := by decide

end Sdb
