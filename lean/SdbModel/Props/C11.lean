import SdbModel.Model.Art
import SdbModel.Model.PMap
import SdbModel.Generated.ArtParams
import SdbModel.Lemmas.ArtRefine
import SdbModel.Lemmas.ArtShape

/-!
# C11 — part.Tree is a correct, persistent ordered map

> part.Tree and its transactions behave as an ordered map from byte strings:
> Insert, Modify and Delete return the previous value, and Get, Len, Prefix,
> LowerBound and full iteration return exactly the matching entries in bytewise
> key order, for any keys including the empty key, keys that are prefixes of
> each other and fan-outs that force every node size.  Every Tree value,
> transaction clone and iterator is persistent: it keeps returning the same
> contents whatever is done later through transactions derived from it,
> committed or abandoned.

Theorems over `Model.Art` (the adaptive radix tree with path compression, node
kinds 4/16/48/256, promotion, demotion and merge-with-single-child), for EVERY
`ArtParams`, every key (`List Nat`, the empty key included, no bound on the
bytes), every value, every merge function and every transaction state `St`.
The tree is refined to the reference ordered map "strictly `cmpL`-ascending
association list" (`Art.sinsert` / `Art.sdelete` / `Art.look` / `List.filter`):
`allRoot` (full iteration) of the result of each operation is the reference
operation applied to `allRoot` of the argument.  The hypothesis `Art.TxnWF`
(root well-formed for the empty path: stored keys equal their paths, children
strictly ascending, child prefixes start with their byte; `size` = number of
entries) is proved to hold for the empty tree and to be preserved by every
operation, hence for every reachable transaction and tree
(`C11_reachable_refines_reference`).  A second invariant, `Art.RootShape` (every
inner node has a leaf or at least two children, and its kind 4/16/48/256 is the
size class of its fan-out), is proved for every reachable tree under the
decidable side condition `P = defaultParams`, which the constants regenerated
from the source satisfy (`C11_generated_params_are_default`).  Persistence of
old `Tree`/`Txn` values is, in this purely functional model, the fact that
operations return new values; the aliasing half (in-place mutation only of
nodes owned by the transaction) is the subject of `Model.Cow`, not of these
theorems.  Watch channels are threaded through the model but are not the
subject of C11; every theorem holds for all watch / transaction-id states.
-/
namespace Sdb
open Art

/-! ## reads: Get, full iteration, Len, Prefix, LowerBound -/

/-- **Get** is the lookup in the iterated contents (any root watch `w`) -/
theorem C11_get_is_lookup (root : Option Node) (h : RootWF root) (w : Nat) (k : List Nat) :
    (getRoot root w k).1 = look (allRoot root) k :=
  getRoot_look root h w k

/-- **full iteration is in strictly ascending bytewise key order** (so keys are unique) -/
theorem C11_all_strictly_ascending (root : Option Node) (h : RootWF root) :
    (allRoot root).Pairwise (fun a b => cmpL a.1 b.1 = .lt) :=
  allRoot_sorted root h

/-- **full iteration yields exactly the bindings `Get` finds**: the tree IS that sorted map -/
theorem C11_all_iff_get (root : Option Node) (h : RootWF root) (w : Nat) (k : List Nat) (v : Nat) :
    (k, v) ∈ allRoot root ↔ (getRoot root w k).1 = some v := by
  rw [getRoot_look root h w k]
  exact mem_iff_look _ (allRoot_sorted root h) k v

/-- **Len** is the number of iterated entries (part of the invariant) -/
theorem C11_len_is_length (x : Txn) (h : TxnWF x) : x.size = (allRoot x.root).length := h.2

/-- **Prefix** returns exactly the entries whose key has the prefix, in iteration order -/
theorem C11_prefix_is_filter (root : Option Node) (h : RootWF root) (w : Nat) (p : List Nat) :
    (prefixRoot root w p).1 = (allRoot root).filter (fun e => hasPrefix e.1 p) := by
  cases root with
  | none => rfl
  | some r => exact prefixNode_eq [] r h w p

/-- **LowerBound** returns exactly the entries with key ≥ `k`, in iteration order -/
theorem C11_lowerbound_is_filter (root : Option Node) (h : RootWF root) (k : List Nat) :
    lbRoot root k = (allRoot root).filter (fun e => decide (cmpL e.1 k ≠ .lt)) := by
  cases root with
  | none => rfl
  | some r => exact lbNode_eq [] r h k

/-! ## Insert / Modify -/

/-- the invariant is preserved by `Insert`/`Modify` -/
theorem C11_insert_preserves_wf (P : ArtParams) (x : Txn) (h : TxnWF x) (k : List Nat) (v : Nat)
    (mod : Option (Nat → Nat → Nat)) : TxnWF (x.insert P k v mod).1 :=
  (Txn_insert_spec P x k v mod h).1

/-- **Insert/Modify return the previous value** (what `Get` returned before), and the
    stored value is `v`, or `mod old v` for Modify on an existing key -/
theorem C11_insert_returns_previous (P : ArtParams) (x : Txn) (h : TxnWF x) (w : Nat) (k : List Nat) (v : Nat)
    (mod : Option (Nat → Nat → Nat)) :
    (x.insert P k v mod).2.1 = (getRoot x.root w k).1 ∧
    (x.insert P k v mod).2.2.1 = mergedVal mod (getRoot x.root w k).1 v := by
  obtain ⟨_, h2, h3, _⟩ := Txn_insert_spec P x k v mod h
  rw [getRoot_look x.root h.1 w k, ← h2]
  exact ⟨rfl, h3⟩

/-- **the contents after Insert/Modify are the reference insertion** -/
theorem C11_insert_refines_sinsert (P : ArtParams) (x : Txn) (h : TxnWF x) (k : List Nat) (v : Nat)
    (mod : Option (Nat → Nat → Nat)) :
    allRoot (x.insert P k v mod).1.root =
      sinsert (allRoot x.root) k (mergedVal mod (look (allRoot x.root) k) v) := by
  obtain ⟨_, h2, h3, h4⟩ := Txn_insert_spec P x k v mod h
  rw [h4, h3, h2]

/-- **get after insert** -/
theorem C11_get_after_insert (P : ArtParams) (x : Txn) (h : TxnWF x) (w w' : Nat) (k k' : List Nat) (v : Nat)
    (mod : Option (Nat → Nat → Nat)) :
    (getRoot (x.insert P k v mod).1.root w' k').1 =
      if k' = k then some (mergedVal mod (getRoot x.root w k).1 v) else (getRoot x.root w k').1 := by
  rw [getRoot_look _ (C11_insert_preserves_wf P x h k v mod).1, C11_insert_refines_sinsert P x h,
    look_sinsert, getRoot_look x.root h.1 w k, getRoot_look x.root h.1 w k']

/-- **Len grows by one iff the key was absent** -/
theorem C11_insert_size (P : ArtParams) (x : Txn) (k : List Nat) (v : Nat) (mod : Option (Nat → Nat → Nat)) (w : Nat)
    (h : TxnWF x) :
    (x.insert P k v mod).1.size = if (getRoot x.root w k).1 = none then x.size + 1 else x.size := by
  have h1 := (C11_insert_preserves_wf P x h k v mod).2
  rw [h1, C11_insert_refines_sinsert P x h, length_sinsert _ (allRoot_sorted _ h.1), getRoot_look x.root h.1 w k, h.2]
  cases look (allRoot x.root) k <;> simp

/-! ## Delete -/

theorem C11_delete_preserves_wf (P : ArtParams) (x : Txn) (h : TxnWF x) (k : List Nat) : TxnWF (x.delete P k).1 :=
  (Txn_delete_spec P x k h).1

/-- **Delete returns the previous value** -/
theorem C11_delete_returns_previous (P : ArtParams) (x : Txn) (h : TxnWF x) (w : Nat) (k : List Nat) :
    (x.delete P k).2 = (getRoot x.root w k).1 := by
  rw [getRoot_look x.root h.1 w k]; exact (Txn_delete_spec P x k h).2.1

/-- **the contents after Delete are the reference deletion** -/
theorem C11_delete_refines_sdelete (P : ArtParams) (x : Txn) (h : TxnWF x) (k : List Nat) :
    allRoot (x.delete P k).1.root = sdelete (allRoot x.root) k :=
  (Txn_delete_spec P x k h).2.2.1

/-- **get after delete** -/
theorem C11_get_after_delete (P : ArtParams) (x : Txn) (h : TxnWF x) (w w' : Nat) (k k' : List Nat) :
    (getRoot (x.delete P k).1.root w' k').1 = if k' = k then none else (getRoot x.root w k').1 := by
  rw [getRoot_look _ (C11_delete_preserves_wf P x h k).1, C11_delete_refines_sdelete P x h, look_sdelete,
    getRoot_look x.root h.1 w k']

/-- **deleting an absent key changes nothing at all** (the very same transaction is returned) -/
theorem C11_delete_absent_unchanged (P : ArtParams) (x : Txn) (h : TxnWF x) (w : Nat) (k : List Nat)
    (habs : (getRoot x.root w k).1 = none) : x.delete P k = (x, none) := by
  have h2 := C11_delete_returns_previous P x h w k
  rw [habs] at h2
  have h3 := (Txn_delete_spec P x k h).2.2.2 h2
  exact Prod.ext h3 h2

/-- **Len drops by one iff the key was present** -/
theorem C11_delete_size (P : ArtParams) (x : Txn) (h : TxnWF x) (w : Nat) (k : List Nat) :
    (x.delete P k).1.size = if (getRoot x.root w k).1 = none then x.size else x.size - 1 := by
  have h1 := (C11_delete_preserves_wf P x h k).2
  rw [h1, C11_delete_refines_sdelete P x h, length_sdelete _ (allRoot_sorted _ h.1), getRoot_look x.root h.1 w k, h.2]
  cases look (allRoot x.root) k <;> simp

/-! ## every reachable tree: operation sequences against the reference map -/

/-- the operations of the API that produce new transactions / trees -/
inductive Art.Op where
  /-- Insert (`mod = none`) / Modify -/
  | insert (k : List Nat) (v : Nat) (mod : Option (Nat → Nat → Nat))
  | delete (k : List Nat)
  /-- Commit, then open a new transaction on the committed tree -/
  | commit (wd wd' : World)
  /-- Clone the transaction into a tree and continue in a transaction on that tree -/
  | clone (wd : World)
  /-- Notify (closes watch channels, leaves the contents alone) -/
  | notify (wd : World)

def Art.stepTxn (P : ArtParams) (x : Txn) : Art.Op → Txn
  | .insert k v mod => (x.insert P k v mod).1
  | .delete k => (x.delete P k).1
  | .commit wd wd' => (x.commit wd).2.1.txn wd'
  | .clone wd => x.clone.2.txn wd
  | .notify wd => (x.notify wd).1

/-- the same operation on the reference sorted association list -/
def Art.stepSpec (l : List (List Nat × Nat)) : Art.Op → List (List Nat × Nat)
  | .insert k v mod => sinsert l k (mergedVal mod (look l k) v)
  | .delete k => sdelete l k
  | _ => l

/-- the empty tree satisfies the invariant -/
theorem C11_empty_wf (wd wd' : World) (rootOnly : Bool) : TxnWF ((newTree wd rootOnly).2.txn wd') :=
  ⟨trivial, rfl⟩

/-- one step preserves the invariant and commutes with the reference step -/
theorem C11_step_refines (P : ArtParams) (x : Txn) (h : TxnWF x) (op : Art.Op) :
    TxnWF (stepTxn P x op) ∧ allRoot (stepTxn P x op).root = stepSpec (allRoot x.root) op := by
  cases op with
  | insert k v mod => exact ⟨C11_insert_preserves_wf P x h k v mod, C11_insert_refines_sinsert P x h k v mod⟩
  | delete k => exact ⟨C11_delete_preserves_wf P x h k, C11_delete_refines_sdelete P x h k⟩
  | commit wd wd' => exact ⟨h, rfl⟩
  | clone wd => exact ⟨h, rfl⟩
  | notify wd => exact ⟨h, rfl⟩

/-- **any operation sequence from any well-formed transaction** keeps the invariant and
    yields the contents the reference map yields -/
theorem C11_run_refines_reference (P : ArtParams) (ops : List Art.Op) (x : Txn) (h : TxnWF x) :
    TxnWF (ops.foldl (stepTxn P) x) ∧
    allRoot (ops.foldl (stepTxn P) x).root = ops.foldl stepSpec (allRoot x.root) := by
  induction ops generalizing x with
  | nil => exact ⟨h, rfl⟩
  | cons op rest ih =>
    obtain ⟨h1, h2⟩ := C11_step_refines P x h op
    have := ih (stepTxn P x op) h1
    simp only [List.foldl_cons]
    rw [← h2]; exact this

/-- **every reachable tree**: whatever inserts, modifies, deletes, commits, clones and
    notifies are applied starting from `New()`, the invariant holds and full iteration
    equals the reference map built by the same operations from the empty list -/
theorem C11_reachable_refines_reference (P : ArtParams) (wd wd' : World) (rootOnly : Bool) (ops : List Art.Op) :
    TxnWF (ops.foldl (stepTxn P) ((newTree wd rootOnly).2.txn wd')) ∧
    allRoot (ops.foldl (stepTxn P) ((newTree wd rootOnly).2.txn wd')).root = ops.foldl stepSpec [] :=
  C11_run_refines_reference P ops _ (C11_empty_wf wd wd' rootOnly)

/-! ## persistence: trees, clones and the transactions derived from them -/

/-- Commit and Clone publish exactly the transaction's contents and `Len`, a transaction
    opened on a tree starts from exactly the tree's contents, and the invariant travels along -/
theorem C11_commit_clone_txn_keep_contents (x : Txn) (t : Tree) (wd wd' : World) :
    allRoot (x.commit wd).2.1.root = allRoot x.root ∧ (x.commit wd).2.1.size = x.size ∧
    allRoot x.clone.2.root = allRoot x.root ∧ x.clone.2.size = x.size ∧
    allRoot (x.commit wd).1.root = allRoot x.root ∧ allRoot x.clone.1.root = allRoot x.root ∧
    allRoot (t.txn wd').root = allRoot t.root ∧ (t.txn wd').size = t.size ∧
    (TxnWF x → TreeWF (x.commit wd).2.1 ∧ TreeWF x.clone.2) ∧ (TreeWF t → TxnWF (t.txn wd')) :=
  ⟨rfl, rfl, rfl, rfl, rfl, rfl, rfl, rfl, fun h => ⟨h, h⟩, fun h => h⟩

/-- **a snapshot keeps its contents**: for a tree `t` and ANY later activity in a transaction
    derived from it (committed or abandoned), the transaction sees the reference operations
    applied to the snapshot's contents, while every read of the snapshot `t` itself is a
    function of `t` alone (Lean values are immutable: this half is the model's purity) -/
theorem C11_snapshot_persistent (P : ArtParams) (t : Tree) (h : TreeWF t) (wd : World) (ops : List Art.Op) :
    allRoot (ops.foldl (stepTxn P) (t.txn wd)).root = ops.foldl stepSpec (allRoot t.root) ∧
    TxnWF (ops.foldl (stepTxn P) (t.txn wd)) :=
  ⟨(C11_run_refines_reference P ops (t.txn wd) h).2, (C11_run_refines_reference P ops (t.txn wd) h).1⟩

/-! ## shape: node kinds, promotion / demotion, no useless nodes

The theorems of this section are about the representation, for the node-size
constants of the implementation (`P = defaultParams`, which is what
`tools/extract` regenerates into `Gen.artParams`). -/

/-- the constants extracted from the source are the ones the shape theorems assume -/
theorem C11_generated_params_are_default : Gen.artParams = defaultParams := by decide

/-- one step preserves the shape invariant: every inner node has a leaf or ≥ 2 children
    and its kind is the size class of its fan-out (4: ≤ 4, 16: 5..16, 48: 17..48, 256: ≥ 49) -/
theorem C11_step_preserves_shape (P : ArtParams) (hP : P = defaultParams) (x : Txn) (h : RootShape x.root)
    (op : Art.Op) : RootShape (stepTxn P x op).root := by
  cases op with
  | insert k v mod => exact Txn_insert_shape P hP x k v mod h
  | delete k => exact Txn_delete_shape P hP x k h
  | commit wd wd' => exact h
  | clone wd => exact h
  | notify wd => exact h

/-- **every reachable tree has the shape invariant**, whatever fan-outs the keys force -/
theorem C11_reachable_shape (P : ArtParams) (hP : P = defaultParams) (wd wd' : World) (rootOnly : Bool)
    (ops : List Art.Op) : RootShape (ops.foldl (stepTxn P) ((newTree wd rootOnly).2.txn wd')).root := by
  suffices ∀ x : Txn, RootShape x.root → RootShape (ops.foldl (stepTxn P) x).root from this _ trivial
  induction ops with
  | nil => exact fun _ h => h
  | cons op rest ih => exact fun x h => ih _ (C11_step_preserves_shape P hP x h op)

/-- the empty map is represented by the nil root only (deleting everything gives back `New()`) -/
theorem C11_root_nil_iff_empty (root : Option Node) (h : RootShape root) : root = none ↔ allRoot root = [] :=
  root_none_iff_empty root h

/-- the node that `removeChild` replaces by its single remaining child is always a node4
    (so the implementation's "expected node4" check cannot fire), and more generally a
    node's kind is determined by its fan-out -/
theorem C11_kind_matches_fanout (kind : Nat) (pfx : List Nat) (lf : Option LeafD) (kids : Kids) (w t : Nat)
    (h : ShapeN (.inner kind pfx lf kids w t)) :
    (kids.size ≤ 4 → kind = 4) ∧ (5 ≤ kids.size ∧ kids.size ≤ 16 → kind = 16) ∧
    (17 ≤ kids.size ∧ kids.size ≤ 48 → kind = 48) ∧ (49 ≤ kids.size → kind = 256) ∧
    (lf = none → 2 ≤ kids.size) := by
  simp only [ShapeN, KindOK] at h
  obtain ⟨hk, hc, _⟩ := h
  refine ⟨by omega, by omega, by omega, by omega, ?_⟩
  intro hl; subst hl; simpa using hc

/-! ## non-vacuity: a concrete reachable tree (empty key, keys that are prefixes of each
    other, a fork, a replaced value, a deletion that merges a node with its single child) -/

/-- the sample run -/
def Art.sampleOps : List Art.Op :=
  [.insert [1, 2] 10 none, .insert [] 20 none, .insert [1] 30 none, .insert [1, 2, 3] 40 none,
   .insert [1, 7] 50 none, .commit {} {}, .insert [1, 2] 11 (some fun o n => o + n), .delete [1], .delete [9]]

example :
    allRoot (sampleOps.foldl (stepTxn Gen.artParams) ((newTree {} false).2.txn {})).root =
      [([], 20), ([1, 2], 21), ([1, 2, 3], 40), ([1, 7], 50)] := by decide

example : TxnWF (sampleOps.foldl (stepTxn Gen.artParams) ((newTree {} false).2.txn {})) :=
  (C11_reachable_refines_reference Gen.artParams {} {} false sampleOps).1

example : RootShape (sampleOps.foldl (stepTxn Gen.artParams) ((newTree {} false).2.txn {})).root :=
  C11_reachable_shape Gen.artParams C11_generated_params_are_default {} {} false sampleOps

/-! fan-outs that force every node size: `n` children below one node -/

def Art.rootKind : Option Node → Nat
  | some (.inner k _ _ _ _ _) => k
  | _ => 0

def Art.fanOps (n : Nat) : List Art.Op := (List.range n).map fun i => .insert [7, i] i none

def Art.fanRoot (ops : List Art.Op) : Option Node :=
  (ops.foldl (stepTxn Gen.artParams) ((newTree {} false).2.txn {})).root

example : rootKind (fanRoot (fanOps 4)) = 4 ∧ rootKind (fanRoot (fanOps 5)) = 16 ∧
    rootKind (fanRoot (fanOps 17)) = 48 ∧ rootKind (fanRoot (fanOps 49)) = 256 ∧
    rootKind (fanRoot (fanOps 49 ++ [Art.Op.delete [7, 0]])) = 48 ∧
    rootKind (fanRoot (fanOps 17 ++ [Art.Op.delete [7, 3]])) = 16 ∧
    rootKind (fanRoot (fanOps 5 ++ [Art.Op.delete [7, 4]])) = 4 ∧
    (allRoot (fanRoot (fanOps 49 ++ [Art.Op.delete [7, 0]]))).length = 48 := by decide

end Sdb
