import SdbModel.Props.C05Sim

/-!
# C10 on the interleaving model — no deadlock, every transaction can be completed

> Write transactions never deadlock, whatever tables they request and in whatever
> order; a write transaction is delayed only by transactions that share a table
> with it; readers are never blocked.

`Props/C10.lean` proves this for the abstract protocol `Model.Serial`.  The model
that is compared step by step with the real goroutines is `Model.Conc`, which
interprets the protocol REGENERATED from the source and has the root mutex
(`db.mu`) besides the table mutexes.  The simulation of `Props/C05Sim.lean`
carries the wait-chain argument over; the statements below are those theorems
under the names the C10 audit collects.  `P.simShape` is decided for the
regenerated protocol (`C05_conc_protocol_shape`).
-/
namespace Sdb
open Conc

/-- **no deadlock in `Model.Conc`**: in every reachable state — any number of
    threads and tables, table lists in any order with duplicates, registrations,
    table mutexes AND the root mutex — if some thread is unfinished then some
    unfinished thread is enabled -/
theorem C10_conc_no_deadlock (P : Protocol) (hP : P.simShape = true) (n : Nat) (st : State) (cs : List Bool)
    (h : Reach P n st cs)
    (hex : ∃ (tid : Nat) (th : Thread), st.threads[tid]? = some th ∧ th.done = false) :
    ∃ (tid : Nat) (th : Thread), st.threads[tid]? = some th ∧ th.done = false ∧ th.enabled st = true :=
  C05_conc_no_deadlock P hP n st cs h hex

/-- … for the protocol generated from the current source -/
theorem C10_conc_no_deadlock_generated (n : Nat) (st : State) (cs : List Bool) (h : Reach Gen.protocol n st cs)
    (hex : ∃ (tid : Nat) (th : Thread), st.threads[tid]? = some th ∧ th.done = false) :
    ∃ (tid : Nat) (th : Thread), st.threads[tid]? = some th ∧ th.done = false ∧ th.enabled st = true :=
  C05_conc_no_deadlock _ C05_conc_protocol_shape n st cs h hex

/-- **progress**: a scheduler step of an enabled, unfinished thread strictly
    reduces the remaining work -/
theorem C10_conc_step_progress (st : State) (tid : Nat) (th : Thread) (hth : st.threads[tid]? = some th)
    (hd : th.done = false) (he : th.enabled st = true) : work (step st tid).1 < work st :=
  C05_conc_step_progress st tid th hth hd he

/-- **every transaction can be completed**: from every reachable state some
    schedule of at most `work st` steps finishes every thread -/
theorem C10_conc_can_always_finish (P : Protocol) (hP : P.simShape = true) (n : Nat) (w : Nat) (st : State)
    (cs : List Bool) (h : Reach P n st cs) (hw : work st ≤ w) :
    ∃ sched : List Nat, sched.length ≤ w ∧ Reach P n (runSchedule st sched) cs ∧
      ∀ (tid : Nat) (th : Thread), (runSchedule st sched).threads[tid]? = some th → th.done = true :=
  C05_conc_can_always_finish P hP n w st cs h hw

/-- **a thread waits only for a holder of a table it requested**: a thread between
    its acquire and its release of table `i` is the owner of that mutex, and the
    owner of a mutex is always such a thread — so whoever is blocked on table `i`
    is blocked by a transaction that requested `i` too -/
theorem C10_conc_blocked_only_by_sharer (P : Protocol) (hP : P.simShape = true) (n : Nat) (st : State)
    (cs : List Bool) (h : Reach P n st cs) (tid i : Nat) (ho : st.lockOwner.getD i none = some tid) :
    ∃ th, st.threads[tid]? = some th ∧ Micro.release i ∈ th.prog ∧ Micro.acquire i ∉ th.prog :=
  C05_conc_owner_is_between P hP n st cs h tid i ho

end Sdb
