import SdbModel.Lemmas.Cow
import SdbModel.Generated.ArtParams

/-!
# C01 — Read transactions are frozen snapshots (MVCC isolation)

> A read transaction is a frozen snapshot: every query on it (through any
> index, counts, table revision, iteration; repeated any number of times, at
> any later moment) returns exactly what it would have returned when the
> snapshot was taken. Nothing done afterwards - writes in pending, committed
> or aborted write transactions, graveyard collection, other readers - can
> change that, and readers need no synchronisation with writers.

The executable models (`Model.Art`, `Model.Lpm`, `Model.Table`) are built from
immutable values, so there a snapshot cannot change by construction; what the
Go code has to get right is the ALIASING: `part` and `lpm` mutate nodes in
place when `node.txnID == txn.txnID`.  The theorems here are therefore about the
heap model of `Lemmas.Cow` (addresses, cells with an ownership stamp, any
number of interleaved and branching transactions, published views), parametric
in the `StampFacts` that tools/extract reads off part/txn.go, part/tree.go and
lpm/trie.go.  Proved: when the extracted facts are `ok` (they are:
`C01_part_stamp_discipline`, `C01_lpm_stamp_discipline`) no step of any run
ever writes a cell reachable from a view handed out earlier, so the value the
view denotes, every sub-iterator and every pointer-chasing query on it are the
same in every later heap (`C01_snapshot_frozen` …); and `ok` is also necessary
(`C01_discipline_necessary`): with any one fact missing there is a run of four
or five operations after which a published view denotes something else.
Transactions started from the same tree carry the same id; that is safe
(`C01_sibling_transactions_isolated`, invariant `Inv.tOwnT`).  Not in the heap
model: the counts and the table revision of a snapshot (plain values copied
into `Tree`/`tableEntry`, immutable in `Model.Table` by construction), and the
Go memory model (the steps here are atomic; what is proved is that no step
writes a cell a reader can reach, which is what makes unsynchronised reads safe).
-/
namespace Sdb
open Cow

/-! ## the extracted facts are the ones assumed -/

/-- the stamp discipline tools/extract finds in part/txn.go and part/tree.go is complete -/
theorem C01_part_stamp_discipline : Gen.partStamp.ok = true := by decide

/-- … and so is the one it finds in lpm/trie.go -/
theorem C01_lpm_stamp_discipline : Gen.lpmStamp.ok = true := by decide

/-! ## the invariant -/

/-- the invariant holds before anything has happened … -/
theorem C01_invariant_initial : Inv init := Inv.init

/-- … is preserved by every step of every transaction (begin from any view, write,
    Commit/Clone/iterator creation, abandon) … -/
theorem C01_invariant_preserved (f : StampFacts) (hf : f.ok = true) (s s' : St) (I : Inv s)
    (h : Step f s s') : Inv s' := I.step hf h

/-- … and so holds in every reachable state -/
theorem C01_invariant_reachable (f : StampFacts) (hf : f.ok = true) (s : St) (h : Reachable f s) : Inv s :=
  h.inv hf

/-! ## published views are frozen -/

/-- No cell reachable from a published view is ever written again (so a reader following
    pointers from the view never races with a writer), whatever the transactions do
    afterwards and however many of them there are. -/
theorem C01_published_cells_untouched (f : StampFacts) (hf : f.ok = true) (s s' : St)
    (hs : Reachable f s) (hrun : Steps f s s') (v : View) (hv : v ∈ s.views) :
    ∀ a, Reach s.heap v.root a → s'.heap a = s.heap a :=
  (Steps.inv_frozen hf (hs.inv hf) hrun).2 v hv

/-- The value denoted by a published view is the same in every later heap, to every depth. -/
theorem C01_snapshot_frozen (f : StampFacts) (hf : f.ok = true) (s s' : St)
    (hs : Reachable f s) (hrun : Steps f s s') (v : View) (hv : v ∈ s.views) (n : Nat) :
    content s'.heap n v.root = content s.heap n v.root :=
  content_frame n (C01_published_cells_untouched f hf s s' hs hrun v hv)

/-- The same for every node below the root: an iterator that starts inside the tree
    (`Prefix`, the stack of `LowerBound`) keeps yielding what it would have yielded. -/
theorem C01_iterator_subtree_frozen (f : StampFacts) (hf : f.ok = true) (s s' : St)
    (hs : Reachable f s) (hrun : Steps f s s') (v : View) (hv : v ∈ s.views)
    (a : Nat) (ha : Reach s.heap v.root a) (n : Nat) :
    content s'.heap n a = content s.heap n a :=
  content_frame n (fun b hb =>
    C01_published_cells_untouched f hf s s' hs hrun v hv b (Reach.trans ha hb))

/-- Every pointer-chasing query gives the same answer: the payload and the child pointers seen
    at the end of any path from the view's root. -/
theorem C01_queries_repeatable (f : StampFacts) (hf : f.ok = true) (s s' : St)
    (hs : Reachable f s) (hrun : Steps f s s') (v : View) (hv : v ∈ s.views) (p : List Nat) :
    peek s'.heap v.root p = peek s.heap v.root p :=
  peek_frame (C01_published_cells_untouched f hf s s' hs hrun v hv)
    (hs.inv hf).nil0 (Steps.inv_frozen hf (hs.inv hf) hrun).1.nil0 p

/-- a view, once handed out, can be used (and a transaction started from it) at any later time -/
theorem C01_view_stays_published (f : StampFacts) (s s' : St) (hrun : Steps f s s') (v : View)
    (hv : v ∈ s.views) : v ∈ s'.views := hrun.views_mono hv

/-- Two transactions started from the same tree have the same id (`Tree.Txn` takes
    `nextTxnID`), and still a write of one leaves everything the other reaches untouched:
    the cells carrying their common id that one of them reaches were allocated by itself. -/
theorem C01_sibling_transactions_isolated (f : StampFacts) (hf : f.ok = true) (s : St)
    (hs : Reachable f s) (i j : Nat) (t u : Txn) (hij : j ≠ i) (ht : s.txns i = some t)
    (hu : s.txns j = some u) (h' : Heap) (nxt' root' : Nat)
    (hw : WriteOk f s.heap s.nxt t h' nxt' root') (n : Nat) :
    content h' n u.root = content s.heap n u.root :=
  content_frame n (hw.sibling_untouched hf (hs.inv hf) ht hij hu)

/-- instantiated with the facts extracted from `part` … -/
theorem C01_part_snapshot_frozen (s s' : St) (hs : Reachable Gen.partStamp s)
    (hrun : Steps Gen.partStamp s s') (v : View) (hv : v ∈ s.views) (n : Nat) :
    content s'.heap n v.root = content s.heap n v.root :=
  C01_snapshot_frozen _ C01_part_stamp_discipline s s' hs hrun v hv n

/-- … and from `lpm` -/
theorem C01_lpm_snapshot_frozen (s s' : St) (hs : Reachable Gen.lpmStamp s)
    (hrun : Steps Gen.lpmStamp s s') (v : View) (hv : v ∈ s.views) (n : Nat) :
    content s'.heap n v.root = content s.heap n v.root :=
  C01_snapshot_frozen _ C01_lpm_stamp_discipline s s' hs hrun v hv n

/-- The executable path-copying write (`Cow.wr`: go down a path, clone-or-mutate each node by
    the stamp test, re-link) is an instance of the write step, so the theorem holds for
    every list of operations run by `Cow.run`. -/
theorem C01_run_snapshot_frozen (f : StampFacts) (hf : f.ok = true) (ops1 ops2 : List Op) (v : View)
    (hv : v ∈ (run f ops1 init).views) (n : Nat) :
    content (run f (ops1 ++ ops2) init).heap n v.root = content (run f ops1 init).heap n v.root := by
  rw [run_append]
  exact C01_snapshot_frozen f hf _ _ (run_reachable hf ops1)
    (run_steps hf ops2 ((run_reachable hf ops1).inv hf)) v hv n

/-! ## the executable radix-tree model follows the same discipline

`Model.Art` (run against part/ by the differential harness) carries the stamps along although,
being built from values, it does not need them; these are the `StampFacts` read off the model. -/

private theorem St_record_txnID (st : Art.St) (w : Nat) : (st.record w).txnID = st.txnID := by
  unfold Art.St.record; split <;> rfl
private theorem St_fresh_txnID (st : Art.St) : st.fresh.1.txnID = st.txnID := by
  unfold Art.St.fresh; split <;> rfl

/-- `Model.Art.cloneNode` (the executable mirror of `Txn.cloneNode`, run against the Go code by
    the differential harness) follows the stamp test: an owned node is returned as it is … -/
theorem C01_art_cloneNode_in_place_iff_owned (st : Art.St) (n : Art.Node) :
    (n.txn = st.txnID → Art.cloneNode st n = (st, n)) ∧
    (n.txn ≠ st.txnID → (Art.cloneNode st n).1.txnID = st.txnID ∧
      (Art.cloneNode st n).2.txn = if n.isLeaf then 0 else st.txnID) := by
  constructor
  · intro h; simp [Art.cloneNode, h]
  · intro h
    cases n with
    | leaf p d =>
      have h' : ¬ (0 = st.txnID) := h
      simp only [Art.cloneNode, Art.Node.txn, h', if_false, Art.Node.isLeaf, if_true]
      exact ⟨by rw [St_fresh_txnID, St_record_txnID], trivial⟩
    | inner k p lf kids w t =>
      have h' : ¬ (t = st.txnID) := h
      simp only [Art.cloneNode, Art.Node.txn, h', if_false, Art.Node.isLeaf]
      exact ⟨by rw [St_fresh_txnID, St_record_txnID], by simp [St_fresh_txnID, St_record_txnID]⟩

/-- `Tree.Txn()` of the model takes the id published with the tree -/
theorem C01_art_txn_id_from_tree (t : Art.Tree) (wd : Art.World) :
    (t.txn wd).st.txnID = t.nextTxnID ∧ (t.txn wd).root = t.root := ⟨rfl, rfl⟩

/-- `Txn.Clone()` of the model bumps before handing out the root -/
theorem C01_art_clone_bumps (x : Art.Txn) :
    x.clone.1.st.txnID = x.st.txnID + 1 ∧ x.clone.2.nextTxnID = x.st.txnID + 1 ∧
      x.clone.2.root = x.root ∧ x.clone.1.root = x.root := ⟨rfl, rfl, rfl, rfl⟩

/-- `Txn.Commit()` of the model bumps before handing out the root -/
theorem C01_art_commit_bumps (x : Art.Txn) (wd : Art.World) :
    (x.commit wd).1.st.txnID = x.st.txnID + 1 ∧ (x.commit wd).2.1.nextTxnID = x.st.txnID + 1 ∧
      (x.commit wd).2.1.root = x.root ∧ (x.commit wd).1.root = x.root := by
  unfold Art.Txn.commit
  simp only [Art.Txn.bump]
  exact ⟨trivial, trivial, trivial, trivial⟩
/-! ## necessity: each fact is needed -/

/-- A publishing method that does not bump: the transaction keeps owning the nodes it
    handed out and its next write changes them in place.  (Run: begin on the empty tree,
    first insert, hand out the root with the method `k`, write the root again.) -/
theorem C01_no_bump_breaks_snapshot_refuted (f : StampFacts) (k : Pub) (h : f.bumps k = false) :
    Breaks f := by
  obtain ⟨a, b, c, d, e, g, i, j⟩ := f
  refine ⟨[.begin 0 0 0, .mkRoot 0, .publish 0 k], [.editRoot 0 102 []], ⟨2, 0⟩, 2, ?_, ?_⟩ <;>
  cases k <;> simp only [StampFacts.bumps] at h <;> subst h
  all_goals first
    | decide +revert
    | exact T.ne_of_flat (by decide +revert)

/-- In-place writes not guarded by the stamp test: the write after a Commit goes straight
    into the committed tree. -/
theorem C01_unguarded_in_place_breaks_snapshot_refuted (f : StampFacts)
    (h : f.inPlaceOnlyIfOwned = false) : Breaks f := by
  obtain ⟨a, b, c, d, e, g, i, j⟩ := f
  simp only at h; subst h
  cases g
  · exact ⟨[.begin 0 0 0, .mkRoot 0, .publish 0 .commit], [.editRoot 0 102 []], ⟨2, 0⟩, 2,
      by decide +revert, T.ne_of_flat (by decide +revert)⟩
  · exact ⟨[.begin 0 0 0, .mkRoot 0, .publish 0 .commit], [.editRoot 0 102 []], ⟨2, 1⟩, 2,
      by decide +revert, T.ne_of_flat (by decide +revert)⟩

/-- A transaction that does not take its id from the tree it starts from: started with a
    stale id (5, the stamp of the committed root) it owns that root. -/
theorem C01_stale_id_breaks_snapshot_refuted (f : StampFacts) (h : f.idFromPublished = false) :
    Breaks f := by
  obtain ⟨a, b, c, d, e, g, i, j⟩ := f
  simp only at h; subst h
  cases g
  · exact ⟨[.begin 0 0 5, .mkRoot 5, .publish 0 .commit, .begin 1 1 5], [.editRoot 1 102 []], ⟨2, 5⟩, 2,
      by decide +revert, T.ne_of_flat (by decide +revert)⟩
  · exact ⟨[.begin 0 0 5, .mkRoot 5, .publish 0 .commit, .begin 1 1 5], [.editRoot 1 102 []], ⟨2, 6⟩, 2,
      by decide +revert, T.ne_of_flat (by decide +revert)⟩

/-- `ok` is exactly what is needed: a discipline with any fact missing has a breaking run … -/
theorem C01_discipline_necessary (f : StampFacts) (h : f.ok = false) : Breaks f := by
  by_cases hb : ∃ k, f.bumps k = false
  · obtain ⟨k, hk⟩ := hb
    exact C01_no_bump_breaks_snapshot_refuted f k hk
  · have hk : ∀ k, f.bumps k = true := fun k => by
      cases hkk : f.bumps k with
      | true => rfl
      | false => exact absurd ⟨k, hkk⟩ hb
    cases hi : f.inPlaceOnlyIfOwned with
    | false => exact C01_unguarded_in_place_breaks_snapshot_refuted f hi
    | true =>
      cases hd : f.idFromPublished with
      | false => exact C01_stale_id_breaks_snapshot_refuted f hd
      | true =>
        have h1 := hk .all; have h2 := hk .clone; have h3 := hk .prefix
        have h4 := hk .lowerBound; have h5 := hk .iterator; have h6 := hk .commit
        simp only [StampFacts.bumps] at h1 h2 h3 h4 h5 h6
        simp [StampFacts.ok, h1, h2, h3, h4, h5, h6, hi, hd] at h

/-- … and a complete one has none -/
theorem C01_discipline_sufficient (f : StampFacts) (h : f.ok = true) : ¬ Breaks f := by
  rintro ⟨ops1, ops2, v, n, hv, hne⟩
  apply hne
  rw [← run_append]
  exact C01_run_snapshot_frozen f h ops1 ops2 v hv n

/-! ## a Commit that does not bump the committing transaction (defect F12, repaired)

`part.Txn.Commit` increments `txn.txnID` before building the tree.  Up to commit e7d69b4
`lpm.Txn.Commit` did not: it stored `prevTxnID = txnID` and only `Trie.Txn()`/`Txn.Reuse` added
one, which is sound only when the committing `lpm.Txn` is not written to again before
`Clear`/`Reuse` (true of statedb's own caller, not enforced by the `lpm` API).  `St.lpmCommit`
models that old Commit; the two theorems below say exactly when it was harmless and exhibit the
run on which it was not.  The check found the same run on the implementation (corpus/C13), the
`fix:` commit added the bump, and tools/extract now reports `bumpCommit` for `lpm` only if
`Txn.Commit` itself increments `txn.txnID`. -/

/-- `Commit(); Clear()` of `lpm` is the `publish .commit` step followed by `abandon`, so it is
    covered by the theorems above -/
theorem C01_lpm_commit_then_clear_is_publish (s : St) (i : Nat) :
    (s.lpmCommit i).exec Gen.lpmStamp (.abandon i) =
      (s.exec Gen.lpmStamp (.publish i .commit)).exec Gen.lpmStamp (.abandon i) :=
  St.lpmCommit_clear _ rfl s i

/-- … whereas a transaction written to after such a bump-less Commit (without `Clear`/`Reuse`)
    changes the committed trie in place -/
theorem C01_lpm_write_after_commit_refuted :
    ∃ v ∈ ((run Gen.lpmStamp [.begin 0 0 0, .mkRoot 0] init).lpmCommit 0).views,
      content ((((run Gen.lpmStamp [.begin 0 0 0, .mkRoot 0] init).lpmCommit 0).exec Gen.lpmStamp
          (.editRoot 0 102 [])).heap) 2 v.root ≠
        content ((run Gen.lpmStamp [.begin 0 0 0, .mkRoot 0] init).lpmCommit 0).heap 2 v.root :=
  ⟨⟨2, 1⟩, by decide, T.ne_of_flat (by decide)⟩

/-! ## the hypotheses are satisfiable, on a run with branching and equal ids -/

/-- Transaction 0 builds a two-node tree and commits it (view 1, id 1).  Transactions 1 and 2
    both start from that tree — both with id 1 —, each copies the root and changes the copy;
    1 commits, 2 writes in place into its own copy, clones, and both write again. -/
def C01_demo1 : List Op :=
  [ .begin 0 0 0, .mkRoot 0, .publish 0 .commit,
    .begin 1 1 0, .begin 2 1 0,
    .editRoot 1 101 [.at [0]],
    .editRoot 2 201 [],
    .publish 1 .commit ]

def C01_demo2 : List Op :=
  [ .editRoot 2 202 [],
    .publish 2 .clone,
    .editRoot 1 103 [],
    .editRoot 2 203 [.nil],
    .abandon 2,
    .begin 3 1 0,
    .editRoot 3 301 [.at [0], .at [0]],
    .publish 3 .iterator ]

/-- the two sibling transactions do have the same id, and own one node each -/
example : ((run Gen.partStamp C01_demo1 init).txns 1).map (·.id) = some 2 ∧
    ((run Gen.partStamp (C01_demo1.take 7) init).txns 1) = some ⟨1, 3⟩ ∧
    ((run Gen.partStamp (C01_demo1.take 7) init).txns 2) = some ⟨1, 4⟩ := by decide

/-- the state after `C01_demo1` is reachable, it has three views, and the last one denotes a
    non-trivial value -/
example : Reachable Gen.partStamp (run Gen.partStamp C01_demo1 init) ∧
    (run Gen.partStamp C01_demo1 init).views = [⟨3, 2⟩, ⟨2, 1⟩, ⟨0, 0⟩] ∧
    (content (run Gen.partStamp C01_demo1 init).heap 3 3).flat = (T.node 101 [.node 10 []]).flat :=
  ⟨run_reachable C01_part_stamp_discipline _, by decide, by decide⟩

/-- `C01_run_snapshot_frozen` applied to it: after the second half — in-place writes by the
    sibling, a Clone, more writes, an abandoned transaction, a new one from the old tree — the
    three views still denote what they did (here checked by evaluation as well) -/
example : ∀ v ∈ (run Gen.partStamp C01_demo1 init).views, ∀ n,
    content (run Gen.partStamp (C01_demo1 ++ C01_demo2) init).heap n v.root =
      content (run Gen.partStamp C01_demo1 init).heap n v.root :=
  fun v hv n => C01_run_snapshot_frozen _ C01_part_stamp_discipline C01_demo1 C01_demo2 v hv n

example : (run Gen.partStamp (C01_demo1 ++ C01_demo2) init).views.map
      (fun v => (content (run Gen.partStamp (C01_demo1 ++ C01_demo2) init).heap 3 v.root).flat) =
    [T.node 301 [.node 10 [], .node 10 []], .node 202 [], .node 101 [.node 10 []],
      .node 100 [.node 10 []], .nil].map T.flat := by decide

/-- the hypotheses of `C01_sibling_transactions_isolated` are satisfiable: after the first five
    operations transactions 1 and 2 have the same id and the same root, and transaction 1 can write -/
example : ∃ s t u h' n' r', Reachable Gen.partStamp s ∧ s.txns 1 = some t ∧ s.txns 2 = some u ∧
    t.id = u.id ∧ t.root = u.root ∧ t.root ≠ 0 ∧ WriteOk Gen.partStamp s.heap s.nxt t h' n' r' := by
  have hr := run_reachable C01_part_stamp_discipline (C01_demo1.take 5)
  have ht : (run Gen.partStamp (C01_demo1.take 5) init).txns 1 = some ⟨1, 2⟩ := by decide
  obtain ⟨r', _, hw⟩ := St.write_ok Gen.partStamp _ (hr.inv C01_part_stamp_discipline).hi 1
    ⟨[], [], .edit true 101 [.at [0]]⟩ _ ht
  exact ⟨_, _, ⟨1, 2⟩, _, _, r', hr, ht, by decide, rfl, rfl, by decide, hw⟩

end Sdb
