import SdbModel.Model.Table
/-! # C01 — theorems under construction (see DESIGN.md section 4) -/
namespace Sdb
end Sdb
