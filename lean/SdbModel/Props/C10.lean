import SdbModel.Model.Conc
import SdbModel.Generated.Protocol
/-! # C10 — theorems under construction (see DESIGN.md section 4) -/
namespace Sdb
end Sdb
