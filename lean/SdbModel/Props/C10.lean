import SdbModel.Lemmas.Serial
import SdbModel.Lemmas.LockOrder
import SdbModel.Generated.Protocol

/-!
# C10 — No deadlock; open writers block only transactions sharing a table

> WriteTxn on any set of tables - given in any order, with duplicates, from any
> number of goroutines - together with creating and closing change iterators,
> graveyard collection and table registration never deadlocks: every requested
> transaction is granted once the conflicting ones finish.  An open write
> transaction delays only transactions that share a table with it; transactions
> on other tables run to completion meanwhile, and readers never wait.

Theorems over `Model.Serial` for EVERY reachable state — any number of threads
and tables, any table sets, any interleaving.  Iterator close, graveyard
collection and `Changes` are write transactions on their tables (they call
`WriteTxn`), so they are threads of this model; `registerTable` and the commit
critical section only take the root mutex, which `C10_root_mutex_is_leaf` shows
is a leaf lock (nothing is acquired while it is held).
-/
namespace Sdb
open Serial

/-- a step of an existing thread (everything except a new transaction arriving) -/
def Serial.Progress (s : State) : Prop := ∃ s', Step s s' ∧ s'.txns.length = s.txns.length

private theorem len_setTxn (l : List Txn) (i : Nat) (t : Txn) : (setTxn l i t).length = l.length := by
  simp [setTxn]

private theorem getElem?_of_lt {l : List Nat} {k : Nat} (h : k < l.length) : ∃ a, l[k]? = some a :=
  ⟨l[k], List.getElem?_eq_getElem h⟩

/-- a thread that holds all its tables, or is releasing them, can always step -/
private theorem unblocked_steps (s : State) (inv : Inv s) (j : Nat) (u : Txn) (hj : s.txns[j]? = some u)
    (hp : u.phase = .loaded ∨ u.phase = .stored ∨ u.phase = .acquiring u.tabs.length) : Progress s := by
  rcases hp with hp | hp | hp
  · cases hc : u.commit
    · exact ⟨_, Step.abort s j u hj hp hc, len_setTxn ..⟩
    · exact ⟨_, Step.store s j u hj hp hc, len_setTxn ..⟩
  · have hb := inv.relBound j u hj
    rcases Nat.lt_or_ge u.released u.tabs.length with h | h
    · obtain ⟨tb, htb⟩ := getElem?_of_lt h
      exact ⟨_, Step.release s j u tb hj hp htb, len_setTxn ..⟩
    · exact ⟨_, Step.finish s j u hj hp (by omega), len_setTxn ..⟩
  · exact ⟨_, Step.load s j u hj hp, len_setTxn ..⟩

/-- the wait-for chain argument: a thread waiting for table `tb` either gets it,
    or its holder can step, or its holder waits for a strictly LARGER table —
    and tables are bounded -/
private theorem progress_aux (s : State) (inv : Inv s) (B : Nat)
    (hB : ∀ (i : Nat) (t : Txn), s.txns[i]? = some t → ∀ x ∈ t.tabs, x < B) :
    ∀ (n i : Nat) (t : Txn) (k tb : Nat), s.txns[i]? = some t → t.phase = .acquiring k → t.tabs[k]? = some tb →
      B - tb ≤ n → Progress s := by
  intro n
  induction n with
  | zero =>
    intro i t k tb hi _ hk hn
    have := hB i t hi tb (List.mem_of_getElem? hk)
    omega
  | succ n ih =>
    intro i t k tb hi hp hk hn
    cases ho : s.owner tb with
    | none => exact ⟨_, Step.acquire s i t k tb hi hp hk ho, len_setTxn ..⟩
    | some j =>
      obtain ⟨u, hj, hheld⟩ := inv.ownerHeld tb j ho
      cases hup : u.phase with
      | loaded => exact unblocked_steps s inv j u hj (Or.inl hup)
      | stored => exact unblocked_steps s inv j u hj (Or.inr (Or.inl hup))
      | done => simp [held, hup] at hheld
      | acquiring k' =>
        have hb := inv.bound j u k' hj hup
        rcases Nat.lt_or_ge k' u.tabs.length with hlt | hge
        · obtain ⟨tb', htb'⟩ := getElem?_of_lt hlt
          simp only [held, hup] at hheld
          have hlt' := ascending_take_lt u.tabs (inv.asc j u hj) k' tb' htb' tb hheld
          have hB' := hB j u hj tb' (List.mem_of_getElem? htb')
          exact ih j u k' tb' hj hup htb' (by omega)
        · have : k' = u.tabs.length := by omega
          exact unblocked_steps s inv j u hj (Or.inr (Or.inr (this ▸ hup)))

private theorem exists_bound_nat (l : List Nat) : ∃ B, ∀ x ∈ l, x < B := by
  induction l with
  | nil => exact ⟨0, by simp⟩
  | cons a r ih =>
    obtain ⟨B, hB⟩ := ih
    refine ⟨max B (a + 1), ?_⟩
    intro x hx
    simp only [List.mem_cons] at hx
    rcases hx with rfl | hx
    · omega
    · have := hB x hx; omega

private theorem exists_bound (l : List Txn) : ∃ B, ∀ t ∈ l, ∀ x ∈ t.tabs, x < B := by
  induction l with
  | nil => exact ⟨0, by simp⟩
  | cons a r ih =>
    obtain ⟨B, hB⟩ := ih
    obtain ⟨B', hB'⟩ := exists_bound_nat a.tabs
    refine ⟨max B B', ?_⟩
    intro t ht x hx
    simp only [List.mem_cons] at ht
    rcases ht with rfl | ht
    · have := hB' x hx; omega
    · have := hB t ht x hx; omega

/-- **deadlock freedom**: in every reachable state in which some transaction is
    not finished, some existing thread can take a step — for any number of
    threads, any table sets and any interleaving so far -/
theorem C10_no_deadlock (s : State) (hr : Reachable s) (i : Nat) (t : Txn)
    (hi : s.txns[i]? = some t) (hnd : t.phase ≠ .done) : Progress s := by
  have inv := inv_reachable s hr
  cases hp : t.phase with
  | done => exact absurd hp hnd
  | loaded => exact unblocked_steps s inv i t hi (Or.inl hp)
  | stored => exact unblocked_steps s inv i t hi (Or.inr (Or.inl hp))
  | acquiring k =>
    have hb := inv.bound i t k hi hp
    rcases Nat.lt_or_ge k t.tabs.length with hlt | hge
    · obtain ⟨tb, htb⟩ := getElem?_of_lt hlt
      obtain ⟨B, hB⟩ := exists_bound s.txns
      exact progress_aux s inv B (fun j u hj => hB u (List.mem_of_getElem? hj)) (B - tb) i t k tb hi hp htb (Nat.le_refl _)
    · have : k = t.tabs.length := by omega
      exact unblocked_steps s inv i t hi (Or.inr (Or.inr (this ▸ hp)))

/-- **only sharers delay**: a transaction that cannot take its next table is
    delayed by ANOTHER, still open transaction that has that very table in its set -/
theorem C10_delayed_only_by_sharer (s : State) (hr : Reachable s) (i : Nat) (t : Txn) (k tb : Nat)
    (hi : s.txns[i]? = some t) (hp : t.phase = .acquiring k) (hk : t.tabs[k]? = some tb)
    (hblocked : s.owner tb ≠ none) :
    ∃ (j : Nat) (u : Txn), j ≠ i ∧ s.txns[j]? = some u ∧ tb ∈ u.tabs ∧ tb ∈ t.tabs ∧ u.phase ≠ .done := by
  have inv := inv_reachable s hr
  cases ho : s.owner tb with
  | none => exact absurd ho hblocked
  | some j =>
    obtain ⟨u, hj, hheld⟩ := inv.ownerHeld tb j ho
    refine ⟨j, u, ?_, hj, ?_, List.mem_of_getElem? hk, ?_⟩
    · intro hji
      subst hji
      rw [hi] at hj
      simp only [Option.some.injEq] at hj
      subst hj
      simp only [held, hp] at hheld
      have := ascending_take_lt t.tabs (inv.asc j t hi) k tb hk tb hheld
      omega
    · unfold held at hheld
      split at hheld
      · exact List.mem_of_mem_take hheld
      · exact hheld
      · exact List.mem_of_mem_drop hheld
      · simp at hheld
    · intro hd; simp [held, hd] at hheld

/-- **transactions on other tables run to completion meanwhile**: a transaction
    none of whose tables is held by anybody else is never blocked — each of its
    steps up to `done` is enabled now -/
theorem C10_disjoint_never_blocked (s : State) (hr : Reachable s) (i : Nat) (t : Txn)
    (hi : s.txns[i]? = some t) (hnd : t.phase ≠ .done)
    (hfree : ∀ x ∈ t.tabs, s.owner x = none ∨ s.owner x = some i) :
    ∃ s', Step s s' ∧ s'.txns.length = s.txns.length ∧ ∃ t', s'.txns[i]? = some t' ∧ t'.tabs = t.tabs ∧ t' ≠ t := by
  have inv := inv_reachable s hr
  have hex : ∃ u, s.txns[i]? = some u := ⟨t, hi⟩
  cases hp : t.phase with
  | done => exact absurd hp hnd
  | loaded =>
    cases hc : t.commit
    · exact ⟨_, Step.abort s i t hi hp hc, len_setTxn .., { t with phase := .stored }, by simp [getElem?_setTxn _ _ _ _ hex], rfl,
        fun h => by have := congrArg Txn.phase h; simp [hp] at this⟩
    · exact ⟨_, Step.store s i t hi hp hc, len_setTxn .., { t with phase := .stored }, by simp [getElem?_setTxn _ _ _ _ hex], rfl,
        fun h => by have := congrArg Txn.phase h; simp [hp] at this⟩
  | stored =>
    have hb := inv.relBound i t hi
    rcases Nat.lt_or_ge t.released t.tabs.length with h | h
    · obtain ⟨tb, htb⟩ := getElem?_of_lt h
      exact ⟨_, Step.release s i t tb hi hp htb, len_setTxn .., { t with released := t.released + 1 }, by simp [getElem?_setTxn _ _ _ _ hex], rfl,
        fun h => by have := congrArg Txn.released h; simp at this⟩
    · exact ⟨_, Step.finish s i t hi hp (by omega), len_setTxn .., { t with phase := .done }, by simp [getElem?_setTxn _ _ _ _ hex], rfl,
        fun h => by have := congrArg Txn.phase h; simp [hp] at this⟩
  | acquiring k =>
    have hb := inv.bound i t k hi hp
    rcases Nat.lt_or_ge k t.tabs.length with hlt | hge
    · obtain ⟨tb, htb⟩ := getElem?_of_lt hlt
      have hnone : s.owner tb = none := by
        rcases hfree tb (List.mem_of_getElem? htb) with h | h
        · exact h
        · obtain ⟨u, hu, hheld⟩ := inv.ownerHeld tb i h
          rw [hi] at hu
          simp only [Option.some.injEq] at hu
          subst hu
          simp only [held, hp] at hheld
          have := ascending_take_lt t.tabs (inv.asc i t hi) k tb htb tb hheld
          omega
      exact ⟨_, Step.acquire s i t k tb hi hp htb hnone, len_setTxn .., { t with phase := .acquiring (k + 1) }, by simp [getElem?_setTxn _ _ _ _ hex], rfl,
        fun h => by have := congrArg Txn.phase h; simp [hp] at this⟩
    · have hk : k = t.tabs.length := by omega
      exact ⟨_, Step.load s i t hi (hk ▸ hp), len_setTxn .., { t with phase := .loaded, old := s.root }, by simp [getElem?_setTxn _ _ _ _ hex], rfl,
        fun h => by have := congrArg Txn.phase h; simp [hp] at this⟩

/-- the facts about the code this rests on: table mutexes are sorted by a global
    sequence number and taken in that order; the root mutex is a leaf (no table
    mutex and no second root lock is requested while it is held; WriteTxn does
    not touch it); readers take no lock at all -/
def Conc.Protocol.rootMutexLeaf (P : Conc.Protocol) : Bool :=
  P.lockSortsBySeq && P.lockInOrder && P.readIsSingleLoad &&
  !P.writeTxn.contains .lockRoot && !P.commit.contains .lockTables && !P.abort.contains .lockTables &&
  !P.abort.contains .lockRoot && !P.register.contains .lockTables &&
  decide ((P.commit.filter (· == .lockRoot)).length = 1) && decide ((P.register.filter (· == .lockRoot)).length = 1) &&
  decide ((P.writeTxn.filter (· == .lockTables)).length = 1) &&
  decide (Conc.idx P.commit .lockRoot < Conc.idx P.commit .unlockRoot) &&
  decide (Conc.idx P.register .lockRoot < Conc.idx P.register .unlockRoot) &&
  -- nothing that can block sits inside the root critical sections
  ((P.commit.drop (Conc.idx P.commit .lockRoot + 1)).take (Conc.idx P.commit .unlockRoot - Conc.idx P.commit .lockRoot - 1)).all
    (fun a => match a with | .hook _ | .loadCurrentRoot | .mergeUnlocked | .collectInit | .storeRoot => true | _ => false) &&
  ((P.register.drop (Conc.idx P.register .lockRoot + 1)).take (Conc.idx P.register .unlockRoot - Conc.idx P.register .lockRoot - 1)).all
    (fun a => match a with | .hook _ | .loadCurrentRoot | .appendTable | .storeRoot => true | _ => false)

theorem C10_root_mutex_is_leaf : Gen.protocol.rootMutexLeaf = true := by decide

theorem C10_protocol_order_facts : Gen.protocol.serialWF = true := by decide

/-- **any order, with duplicates**: the order in which a writer of `Model.Conc`
    (de-duplicate, then sort by mutex sequence number — the two steps the
    extractor found in `WriteTxn` / `SortableMutexes.Lock`) takes its table locks is
    strictly ascending and covers exactly the requested tables, whatever list the
    caller passed; so every such writer is a legal thread of `Model.Serial` -/
theorem C10_any_request_order_is_ascending (tabs : List Nat) :
    Ascending (Conc.sortNat (Conc.dedup tabs)) ∧ (∀ y, y ∈ Conc.sortNat (Conc.dedup tabs) ↔ y ∈ tabs) ∧
    (∀ s : State, Step s { s with txns := s.txns ++ [{ tabs := Conc.sortNat (Conc.dedup tabs) }] }) := by
  obtain ⟨h1, h2⟩ := Conc.lockOrder_ascending tabs
  exact ⟨h1, h2, fun s => Step.spawn s { tabs := Conc.sortNat (Conc.dedup tabs) } h1 rfl rfl⟩

/-! ## non-vacuity: a reachable state with a waiting thread -/
example : ∃ s, Reachable s ∧ ∃ (i : Nat) (t : Txn), s.txns[i]? = some t ∧ t.phase ≠ .done ∧ s.owner 0 = some 0 := by
  let t : Txn := { tabs := [0] }
  have s0 : Reachable ({} : State) := .init
  have s1 := Reachable.step _ _ s0 (Step.spawn {} t (by trivial) rfl rfl)
  have s2 := Reachable.step _ _ s1 (Step.acquire _ 0 t 0 0 (by rfl) rfl (by rfl) (by rfl))
  exact ⟨_, s2, 0, _, by rfl, by simp, by simp⟩

end Sdb
