import SdbModel.Generated.TableParams
import SdbModel.Lemmas.ChangesOrder

/-!
# C07 — Change iterators: ordered, complete, convergent, committed-only

> A change iterator delivers changes in strictly increasing revision order; whenever Next(snapshot)
> reports pending changes (it returns an already-closed watch channel) and the returned sequence has
> been fully consumed, replaying everything delivered so far (an update sets the object, a delete
> removes it) yields exactly the objects and revisions of that snapshot, every deletion committed
> after the iterator was created is delivered, and partially consumed sequences lose nothing.  Only
> committed changes are ever delivered, whatever kind of transaction is passed to Next; when Next
> instead returns an open watch channel it delivers nothing, and that channel closes as soon as a
> commit that changes the table has been published, so a consumer that waits on it never misses a
> change.

Theorems over `Model.Table` (`mergeChanges`, `ChangeIter.refresh` / `ChangeIter.stale` with
`fixedF3 = true`, `modify`, `delete`, `gcScan`, `gcApply`, `DB.beginW/commit/abort`) and the driver's
iterator steps restated in `Lemmas/ChangesRun.lean` (`iterCreate`, `iterNext`, `iterConsume`, `iterClose`).
Two layers: table-level theorems about ONE refresh on one committed table under the table invariant
`Chg.TInv` (`C07_merge_*`, `C07_refresh_*`, `C07_replay_*`, `C07_partial_*`), and database-level theorems for
EVERY state reachable (`Chg.Reach`) by write transactions, `Changes()`, `Next` by any iterator at any time
(also inside its creating transaction), `Close` and collector runs in any interleaving (`C07_reachable_*`,
`C07_next_*`, `C07_open_channel_*`), where `Chg.Synced` ties the consumer's replayed view to the committed
table.  The invariants hold initially and are preserved by every step (`C07_invariant_reachable`).
Standing assumption on `Next`: it reads the CURRENT committed root (directly or through the open write
transaction); passing an older snapshot after a newer one is refuted in `C07_older_snapshot_refuted`.
-/
namespace Sdb
open Tbl Chg Chg.OMap

/-! ## (a) order: the dual iterator -/

/-- merging loses and invents nothing -/
theorem C07_merge_perm (l r : List Change) : (mergeChanges l r).Perm (l ++ r) :=
  mergeChanges_perm l r

/-- two strictly ascending lists with disjoint revisions merge into a strictly ascending list -/
theorem C07_merge_ascending (l r : List Change) (hl : AscRev l) (hr : AscRev r)
    (hd : ∀ a ∈ l, ∀ b ∈ r, a.rev ≠ b.rev) : AscRev (mergeChanges l r) :=
  mergeChanges_asc l r hl hr hd

/-- the sequence installed by `refresh` is strictly ascending in revision (committed table satisfying
    the table invariant, which every reachable table does: `C07_table_invariant_reachable`) -/
theorem C07_refresh_ascending (it : ChangeIter) (committed current : List TableS)
    (h : TInv (tbl committed it.table)) (ps : List Change)
    (hp : (it.refresh committed current true).pending = some ps) : AscRev ps := by
  rw [(refresh_pending_some it committed current ps hp).1]
  exact pendingOf_asc h _ _

/-- the delivered revision is the object's revision, and no two delivered changes concern the same
    object twice with the same revision: consecutive elements strictly increase -/
theorem C07_refresh_strictly_increasing (it : ChangeIter) (committed current : List TableS)
    (h : TInv (tbl committed it.table)) (ps : List Change)
    (hp : (it.refresh committed current true).pending = some ps) (i j : Nat) (hij : i < j) (hj : j < ps.length) :
    (ps[i]'(by omega)).rev < (ps[j]'hj).rev := by
  have e : ps = pendingOf (tbl committed it.table) it.revision it.deleteRevision :=
    (refresh_pending_some it committed current ps hp).1
  subst e
  exact List.pairwise_iff_getElem.mp (pendingOf_asc h _ _) i j (by omega) hj hij

/-! ## only committed state is read -/

/-- with the fix for F3 the result of `refresh` does not depend on the transaction's own (uncommitted)
    root at all -/
theorem C07_refresh_only_committed (it : ChangeIter) (committed c₁ c₂ : List TableS) :
    it.refresh committed c₁ true = it.refresh committed c₂ true := rfl

/-- … hence neither does `Next`: whatever transaction it is given, only its committed root matters -/
theorem C07_next_only_committed (db : DB) (ci : Nat) (committed c₁ c₂ : List TableS) (k : Int) :
    iterNext db ci committed c₁ k = iterNext db ci committed c₂ k := rfl

/-- exactly the committed changes above the two cursors are delivered: an update for every object of
    the committed revision index with revision above `revision`, a delete for every object of the
    committed graveyard with revision above `deleteRevision` — nothing else -/
theorem C07_refresh_members (it : ChangeIter) (committed current : List TableS)
    (h : TInv (tbl committed it.table))
    (hr : it.revision + 1 < 2 ^ 64) (hd : it.deleteRevision + 1 < 2 ^ 64) (ps : List Change)
    (hp : (it.refresh committed current true).pending = some ps) (c : Change) :
    c ∈ ps ↔ c.rev = c.obj.rev ∧
      ((c.deleted = false ∧ (revKey c.obj.rev, c.obj) ∈ (tbl committed it.table).revIdx ∧ it.revision < c.rev) ∨
       (c.deleted = true ∧ (revKey c.obj.rev, c.obj) ∈ (tbl committed it.table).graveRev ∧ it.deleteRevision < c.rev)) := by
  have e : ps = pendingOf (tbl committed it.table) it.revision it.deleteRevision :=
    (refresh_pending_some it committed current ps hp).1
  subst e
  exact mem_pendingOf h _ _ hr hd c

/-- a snapshot that predates the iterator (its table revision is below the revision at which the
    iterator was created: the creating transaction is not in it) delivers nothing -/
theorem C07_refresh_stale_delivers_nothing (it : ChangeIter) (committed current : List TableS)
    (h : (tbl committed it.table).rev < it.base) : (it.refresh committed current true).pending = none :=
  refresh_stale it committed current true ((stale_iff it committed).mpr h)

/-- every retained deletion above the iterator's delete cursor is in the sequence -/
theorem C07_deletions_delivered (it : ChangeIter) (committed current : List TableS)
    (h : TInv (tbl committed it.table))
    (hr : it.revision + 1 < 2 ^ 64) (hd : it.deleteRevision + 1 < 2 ^ 64) (ps : List Change)
    (hp : (it.refresh committed current true).pending = some ps) (k : Key) (g : Obj)
    (hg : (k, g) ∈ (tbl committed it.table).graveRev) (hlt : it.deleteRevision < g.rev) :
    ({ obj := g, rev := g.rev, deleted := true } : Change) ∈ ps := by
  rw [C07_refresh_members it committed current h hr hd ps hp]
  have hk := (h.grK _ _ hg).1
  exact ⟨rfl, Or.inr ⟨rfl, hk ▸ hg, hlt⟩⟩

/-- every live object above the iterator's update cursor is in the sequence -/
theorem C07_updates_delivered (it : ChangeIter) (committed current : List TableS)
    (h : TInv (tbl committed it.table))
    (hr : it.revision + 1 < 2 ^ 64) (hd : it.deleteRevision + 1 < 2 ^ 64) (ps : List Change)
    (hp : (it.refresh committed current true).pending = some ps) (k : Key) (o : Obj)
    (ho : (k, o) ∈ (tbl committed it.table).primary) (hlt : it.revision < o.rev) :
    ({ obj := o, rev := o.rev, deleted := false } : Change) ∈ ps := by
  rw [C07_refresh_members it committed current h hr hd ps hp]
  have hk := h.pK _ _ ho
  exact ⟨rfl, Or.inl ⟨rfl, (h.pr o).mp (hk ▸ ho), hlt⟩⟩

/-! ## (b) completeness + convergence on one snapshot -/

/-- the view "all live objects of `t` up to revision `r`" -/
def liveUpTo (t : TableS) (r : Nat) : View := fun id => (t.primary.get id).filter (fun o => o.rev ≤ r)

/-- that view is in step with `t` at cursors `(r, d)`, whatever `d` -/
theorem C07_liveUpTo_synced (t : TableS) (h : TInv t) (r d : Nat) : Synced (liveUpTo t r) r d t := by
  constructor
  · intro o ho hle
    have := (get_eq_some_iff h.pS _ _).mpr ho
    simp [liveUpTo, this, hle]
  · intro id hne
    left
    unfold liveUpTo at hne
    cases hg : t.primary.get id with
    | none => rw [hg] at hne; simp at hne
    | some o => exact ⟨o, (get_eq_some_iff h.pS _ _).mp hg⟩

/-- **convergence**: replaying the whole sequence of a refresh onto a view that is in step with the
    committed table yields exactly its live objects with their revisions.  `Synced` packages the two
    hypotheses of the property: the view holds the live objects up to `revision`, and whatever else it
    holds is still retained in the graveyard above `deleteRevision` (C08 proves that retention:
    `C08_reachable_retention`). -/
theorem C07_replay_converges (it : ChangeIter) (committed current : List TableS) (M : View)
    (h : TInv (tbl committed it.table))
    (hs : Synced M it.revision it.deleteRevision (tbl committed it.table))
    (hr : it.revision + 1 < 2 ^ 64) (hd : it.deleteRevision + 1 < 2 ^ 64) (ps : List Change)
    (hp : (it.refresh committed current true).pending = some ps) :
    ∀ id, replay M ps id = (tbl committed it.table).primary.get id := by
  have e : ps = pendingOf (tbl committed it.table) it.revision it.deleteRevision :=
    (refresh_pending_some it committed current ps hp).1
  subst e
  exact hs.replay_all h hr hd

/-- the form of the task statement: replaying the changes of `refresh` with `revision = r`,
    `deleteRevision = d` onto "the live objects with revision ≤ r" yields the live objects of the table -/
theorem C07_replay_from_liveUpTo (t : TableS) (h : TInv t) (r d : Nat) (hr : r + 1 < 2 ^ 64) (hd : d + 1 < 2 ^ 64) :
    ∀ id, replay (liveUpTo t r) (pendingOf t r d) id = t.primary.get id :=
  (C07_liveUpTo_synced t h r d).replay_all h hr hd

/-- the result of the replay lists exactly the objects `All` returns, with their revisions -/
theorem C07_replay_matches_queries (t : TableS) (h : TInv t) (M : View) (r d : Nat) (hs : Synced M r d t)
    (hr : r + 1 < 2 ^ 64) (hd : d + 1 < 2 ^ 64) (o : Obj) :
    replay M (pendingOf t r d) o.id = some o ↔ o ∈ qAll t := by
  rw [hs.replay_all h hr hd, get_eq_some_iff h.pS]
  simp only [qAll, List.mem_map, Prod.exists, exists_eq_right]
  constructor
  · intro hm; exact ⟨_, hm⟩
  · rintro ⟨k, hm⟩
    have := h.pK _ _ hm
    exact this ▸ hm

/-! ## (c) partial consumption -/

/-- after ANY prefix of the sequence has been consumed, the view is in step with the same snapshot at
    the advanced cursors, and a refresh at the advanced cursors yields exactly the unconsumed suffix:
    nothing is lost and nothing is delivered twice -/
theorem C07_partial_consumption (t : TableS) (h : TInv t) (M : View) (r d : Nat) (hs : Synced M r d t)
    (hr : r + 1 < 2 ^ 64) (hd : d + 1 < 2 ^ 64) (pre post : List Change) (hp : pendingOf t r d = pre ++ post) :
    Synced (replay M pre) (cursors r d pre).1 (cursors r d pre).2 t ∧
    pendingOf t (cursors r d pre).1 (cursors r d pre).2 = post := by
  obtain ⟨a, b, _, _⟩ := hs.consume_prefix h pre post hr hd hp
  exact ⟨a, b⟩

/-- consuming a prefix, refreshing on the same snapshot and consuming the rest gives the snapshot -/
theorem C07_partial_then_rest (t : TableS) (h : TInv t) (M : View) (r d : Nat) (hs : Synced M r d t)
    (hr : r + 1 < 2 ^ 64) (hd : d + 1 < 2 ^ 64) (pre post : List Change) (hp : pendingOf t r d = pre ++ post) :
    ∀ id, replay (replay M pre) (pendingOf t (cursors r d pre).1 (cursors r d pre).2) id = t.primary.get id := by
  obtain ⟨a, _, c, e⟩ := hs.consume_prefix h pre post hr hd hp
  exact a.replay_all h c e

/-- being in step survives later commits: writes (with some tracker registered, so that deletions are
    retained) keep a view in step at unchanged cursors — this is why a partially consumed sequence can be
    dropped and `Next` called again on a newer snapshot -/
theorem C07_synced_survives_writes (t t' : TableS) (w : WStep t t') (h : TInv t) (M : View) (r d : Nat)
    (hs : Synced M r d t) (hr : r ≤ t.rev) (hd : d ≤ t.rev) (htr : t.trackers ≠ []) : Synced M r d t' :=
  w.synced h hs hr hd htr

/-! ## every reachable state -/

/-- the table invariant holds for every table reachable by `modify`, `delete`, collector steps and
    tracker / lock / initializer bookkeeping from an empty table -/
theorem C07_table_invariant_reachable (t : TableS) (h : TReach t) : TInv t := h.tinv

/-- the database invariant holds initially and is preserved by every step, hence in every reachable state -/
theorem C07_invariant_reachable (s : St) (h : Reach s) : Inv s := h.inv

/-- in every reachable state every committed table satisfies the table invariant -/
theorem C07_reachable_tables (s : St) (h : Reach s) (i : Nat) : TInv (tbl s.db.root i) := h.inv.rootT i

/-- `DeleteAll` is a run of `delete` steps: it keeps the state reachable (with room in the revision counter) -/
theorem C07_deleteAll_stays_reachable (s : St) (es : List TableS) (i : Nat) (hr : Reach s)
    (hw : s.db.wtxn = some es) (hb : (tbl es i).rev + (tbl es i).primary.length + 1 < 2 ^ 64) :
    Reach { s with db := setW s.db i (deleteAll (tbl es i)).1 } := hr.deleteAll s es i hw hb

/-- an iterator whose tracker is registered in the committed root is in good standing; so is one created
    in the open write transaction before that transaction wrote to the table (`Chg.Live`) -/
theorem C07_registered_is_live (s : St) (it : ChangeIter)
    (hr : it.tracker ∈ (tbl s.db.root it.table).trackers) : Live s it := Or.inl hr

/-- **in every reachable state** the view a consumer has built from everything iterator `ci` delivered
    so far is in step with the committed table at the iterator's cursors -/
theorem C07_reachable_synced (s : St) (h : Reach s) (ci : Nat) (it : ChangeIter)
    (hi : s.db.iters[ci]? = some it) (hc : it.closed = false) (hl : Live s it) :
    Synced (s.view ci) it.revision it.deleteRevision (tbl s.db.root it.table) ∧
    it.revision ≤ (tbl s.db.root it.table).rev ∧ it.deleteRevision ≤ (tbl s.db.root it.table).rev :=
  let r := h.inv.reg ci it hi hc hl
  ⟨r.synced, r.rle, r.dle⟩

/-- **strictly increasing over the whole life of the iterator**: in every reachable state everything
    iterator `ci` has delivered so far, across all `Next` calls, snapshots, partial consumptions and
    collector runs, is strictly ascending in revision -/
theorem C07_reachable_log_ascending (s : St) (h : Reach s) (ci : Nat) (it : ChangeIter)
    (hi : s.db.iters[ci]? = some it) (hc : it.closed = false) (hl : Live s it) : AscRev (s.log ci) :=
  (h.inv3.ord ci it hi hc hl).asc

/-- an iterator created in the open write transaction AFTER that transaction wrote to the table is not
    in good standing yet — and delivers nothing until the transaction is committed: every committed
    snapshot is stale for it -/
theorem C07_next_before_commit_delivers_nothing (s : St)
    (ci : Nat) (it : ChangeIter) (k : Int) (current : List TableS)
    (hi : s.db.iters[ci]? = some it) (hb : (tbl s.db.root it.table).rev < it.base) :
    (iterNext s.db ci s.db.root current k).2.1 = [] := by
  rcases iterNext_spec s.db ci s.db.root current k it hi with ⟨e, _, _⟩ | ⟨_, e⟩ | ⟨hst, _, _⟩
  · rw [e]
  · rw [e]
  · have := (stale_iff it s.db.root).mpr hb
    rw [this] at hst; cases hst

/-- … and the commit puts it in good standing: every open iterator whose tracker is registered in the
    committed root is covered by the theorems of this section -/
theorem C07_every_registered_iterator_covered (s : St) (h : Reach s) (ci : Nat) (it : ChangeIter)
    (hi : s.db.iters[ci]? = some it) (hc : it.closed = false)
    (hr : it.tracker ∈ (tbl s.db.root it.table).trackers) :
    Synced (s.view ci) it.revision it.deleteRevision (tbl s.db.root it.table) ∧ it.base ≤ (tbl s.db.root it.table).rev :=
  let r := h.inv.reg ci it hi hc (Or.inl hr)
  ⟨r.synced, r.base⟩

/-- **every deletion the consumer has not seen yet is pending**: in every reachable state, for every key
    the replayed view of an iterator in good standing holds and that is no longer live, the sequence of the
    next refresh contains its deletion -/
theorem C07_reachable_deletion_pending (s : St) (h : Reach s) (ci : Nat) (it : ChangeIter)
    (hi : s.db.iters[ci]? = some it) (hc : it.closed = false) (hl : Live s it)
    (id : Key) (hview : s.view ci id ≠ none)
    (hdead : (tbl s.db.root it.table).primary.get id = none) :
    ∃ c ∈ pendingOf (tbl s.db.root it.table) it.revision it.deleteRevision, c.deleted = true ∧ c.obj.id = id := by
  obtain ⟨rs, rr, rd, _⟩ := h.inv.reg ci it hi hc hl
  have hT := h.inv.rootT it.table
  have hb := hT.bound
  rcases rs.stale id hview with ⟨o, ho⟩ | ⟨g, hg, hlt⟩
  · exact absurd ho ((get_eq_none_iff hT.pS _).mp hdead o)
  · have hk := hT.gK _ _ hg
    refine ⟨{ obj := g, rev := g.rev, deleted := true }, ?_, rfl, hk.symm⟩
    exact (mem_pendingOf hT _ _ (by omega) (by omega) _).mpr ⟨rfl, Or.inr ⟨rfl, (hT.gg g).mp (hk ▸ hg), hlt⟩⟩

/-- **end to end**: in any reachable state, when `Next` on the committed root reports pending changes
    (closed channel) and the sequence is consumed to its end (`k < 0`), replaying everything delivered
    so far yields exactly the objects and revisions of that root -/
theorem C07_next_full_yields_snapshot (s : St) (h : Reach s) (ci : Nat) (it : ChangeIter) (k : Int)
    (current : List TableS)
    (hi : s.db.iters[ci]? = some it) (hc : it.closed = false) (hl : Live s it) (hk : k < 0)
    (hclosed : (iterNext s.db ci s.db.root current k).2.2 = true) :
    ∀ id, replay (s.view ci) (iterNext s.db ci s.db.root current k).2.1 id =
      (tbl s.db.root it.table).primary.get id := by
  obtain ⟨rs, rr, rd, rm, rb, _⟩ := h.inv.reg ci it hi hc hl
  have hT := h.inv.rootT it.table
  have hb := hT.bound
  have hns : it.stale s.db.root = false := by
    cases hst : it.stale s.db.root with
    | false => rfl
    | true =>
      have := (stale_iff it s.db.root).mp hst
      have e' : (s.db.root.getD it.table default) = tbl s.db.root it.table := rfl
      rw [e'] at this; omega
  -- all of the sequence was taken
  have hall : (iterNext s.db ci s.db.root current k).2.1 =
      pendingOf (tbl s.db.root it.table) it.revision it.deleteRevision := by
    unfold iterNext
    rw [hi]
    simp only
    split
    · rename_i hcond
      exfalso
      have : iterNext s.db ci s.db.root current k = (s.db, [], false) := by
        unfold iterNext; rw [hi]; simp only; rw [if_pos hcond]
      rw [this] at hclosed; cases hclosed
    · rw [hns]
      simp only [Bool.false_eq_true, if_false]
      unfold iterConsume
      rw [refresh_pending _ _ _ hns]
      simp only [hk, if_true, List.take_length]
      rfl
  rw [hall]
  exact rs.replay_all hT (by omega) (by omega)

/-- … and after ANY number of consumed changes the view is in step with that root at the iterator's new
    cursors (partial consumption loses nothing): this is the invariant of the successor state -/
theorem C07_next_keeps_synced (s s' : St) (h : Reach s) (st : Step s s') (ci : Nat) (it' : ChangeIter)
    (hi : s'.db.iters[ci]? = some it') (hc : it'.closed = false) (hl : Live s' it') :
    Synced (s'.view ci) it'.revision it'.deleteRevision (tbl s'.db.root it'.table) :=
  ((Reach.step h st).inv.reg ci it' hi hc hl).synced

/-- when `Next` returns an open watch channel it delivers nothing -/
theorem C07_next_open_delivers_nothing (db : DB) (ci : Nat) (committed current : List TableS) (k : Int)
    (hopen : (iterNext db ci committed current k).2.2 = false) :
    (iterNext db ci committed current k).2.1 = [] := by
  cases hi : db.iters[ci]? with
  | none => unfold iterNext; rw [hi]
  | some it =>
    rcases iterNext_spec db ci committed current k it hi with ⟨e, _, _⟩ | ⟨_, e⟩ | ⟨_, ht, _⟩
    · rw [e]
    · rw [e]
    · rw [ht] at hopen; cases hopen

/-! ## the watch channel -/

/-- a successful `modify` marks the entry dirty: the commit will bump the table's watch generation -/
theorem C07_modify_marks_dirty (t : TableS) (g : Nat) (o : Obj) (m : Bool) (hok : (modify t g o m).2.2 = .ok) :
    (modify t g o m).1.revDirty = true := by
  rcases modify_spec t g o m with e | ⟨_, _, _, _, _, _, _, _, _, hd, _⟩
  · have := modify_ok_rev t g o m hok
    rw [e] at this; omega
  · exact hd

/-- a `delete` that removed an object marks the entry dirty -/
theorem C07_delete_marks_dirty (t : TableS) (g : Nat) (id : Key) (old : Obj) (hold : t.primary.get id = some old)
    (hok : (delete t g id).2.2 = .ok) (hl : t.locked = true) : (delete t g id).1.revDirty = true := by
  rcases delete_spec t g id with e | ⟨_, _, _, _, _, _, _, _, _, _, _, hd, _⟩
  · have := delete_ok_rev t g id old hold hok hl
    rw [e] at this; omega
  · exact hd

/-- **the channel closes as soon as a commit that changed the table is published**: in every reachable
    state, committing a write transaction whose entry for the iterator's table is dirty makes the
    iterator's watch channel read closed -/
theorem C07_commit_closes_channel (s : St) (h : Reach s) (es : List TableS) (hw : s.db.wtxn = some es)
    (ci : Nat) (it : ChangeIter) (hi : s.db.iters[ci]? = some it)
    (hl : (tbl es it.table).locked = true) (hd : (tbl es it.table).revDirty = true) :
    watchClosed s.db.commit it = true := by
  unfold watchClosed
  cases hg : it.watchGen with
  | none => rfl
  | some g =>
    simp only
    have hle := h.inv2.watchLe ci it g hi hg
    have hroot := tbl_commit s.db es hw (h.inv.wOld es hw).2 it.table
    rw [hl] at hroot
    simp only [if_true] at hroot
    have : (s.db.commit.root.getD it.table default) = commitEntry (tbl es it.table) := hroot
    rw [this, commitEntry_gen, hd, (h.inv2.wgen es hw it.table).gen]
    simp only [if_true, gt_iff_lt, decide_eq_true_eq]
    omega

/-- **an open channel means nothing was missed**: in every reachable state, when `Next` on the committed
    root returns an open watch channel for an iterator in good standing, there is nothing pending — the
    iterator has seen every live object and every retained deletion, and the replay of everything
    delivered so far IS the committed table.  Together with `C07_commit_closes_channel`: a consumer that
    waits on the returned channel never misses a change. -/
theorem C07_open_channel_nothing_missed (s : St) (h : Reach s) (ci : Nat) (it : ChangeIter) (k : Int)
    (current : List TableS)
    (hi : s.db.iters[ci]? = some it) (hc : it.closed = false) (hl : Live s it)
    (hopen : (iterNext s.db ci s.db.root current k).2.2 = false) :
    pendingOf (tbl s.db.root it.table) it.revision it.deleteRevision = [] ∧
    ∀ id, s.view ci id = (tbl s.db.root it.table).primary.get id := by
  obtain ⟨rs, rr, rd, rm, rb, _⟩ := h.inv.reg ci it hi hc hl
  have hT := h.inv.rootT it.table
  have hb := hT.bound
  rcases iterNext_spec s.db ci s.db.root current k it hi with ⟨_, hp, hwc⟩ | ⟨hst, _⟩ | ⟨_, ht, _⟩
  · unfold watchClosed at hwc
    cases hg : it.watchGen with
    | none => rw [hg] at hwc; cases hwc
    | some g =>
      rw [hg] at hwc
      simp only [gt_iff_lt, decide_eq_false_iff_not, Nat.not_lt] at hwc
      have hcu := h.inv2.idle ci it g hi hc hl hg hp hwc
      refine ⟨?_, rs.final hT hcu.1 hcu.2⟩
      rw [List.eq_nil_iff_forall_not_mem]
      intro c hcm
      obtain ⟨_, hcase⟩ := (mem_pendingOf hT _ _ (by omega) (by omega) c).mp hcm
      rcases hcase with ⟨_, hm, hlt⟩ | ⟨_, hm, hlt⟩
      · have := hcu.1 _ _ ((hT.pr c.obj).mpr hm); omega
      · have := hcu.2 _ _ ((hT.gg c.obj).mpr hm); omega
  · exfalso
    have := (stale_iff it s.db.root).mp hst
    have e' : (s.db.root.getD it.table default) = tbl s.db.root it.table := rfl
    rw [e'] at this; omega
  · rw [ht] at hopen; cases hopen

/-- an iterator created in the open write transaction after writes of that transaction gets, from `Next`,
    the stale snapshot's own channel; the commit of that (dirty) transaction closes it
    (`C07_commit_closes_channel`), and the iterator is then in good standing with nothing delivered:
    the first `Next` after the commit delivers the whole committed table -/
theorem C07_created_after_writes_starts_empty (s : St) (h : Reach s) (es : List TableS) (hw : s.db.wtxn = some es)
    (ci : Nat) (it : ChangeIter) (hi : s.db.iters[ci]? = some it) (hc : it.closed = false)
    (hr : it.tracker ∈ (tbl es it.table).trackers) (hnr : it.tracker ∉ (tbl s.db.root it.table).trackers)
    (hb : (tbl s.db.root it.table).rev < it.base) :
    s.log ci = [] ∧ it.revision = 0 :=
  let p := h.inv.pend es hw ci it hi hc hr hnr hb
  ⟨p.log, p.rev0⟩

/-! ## a limit of the property, and the repaired corner

Both runs use only the model's own operations (`beginW`, `modify`, `delete`, `commit`, and the restated
`iterCreate` / `iterNext`). -/

private def oX : Obj := { id := [1], val := 10, uvar := 0, tags := [], pfxs := [], up := false, ord := 0, rev := 0 }
private def wr (db : DB) (f : TableS → TableS) : DB := setW db 0 (f (tbl (db.wtxn.getD []) 0))

private def sc0 : DB := (wr (newDB.beginW true true) fun t => (modify t 0 oX false).1).commit
private def sc1 : DB := iterCreate (wr (sc0.beginW true true) fun t => (delete t 0 [1]).1) 0
private def sc2 := iterNext sc1 0 sc1.oldRoot [] (-1)
private def sc3 : DB := sc2.1.commit
private def sc4 := iterNext sc3 0 sc3.root [] (-1)

/-- the run that used to diverge before `ChangeIter.stale` (`insert X; commit; wtxn; delete X; Changes();
    Next(wtxn); commit; Next`): `Next(wtxn)` inside the creating transaction now delivers nothing, and
    after the commit the replayed view and the table agree on `X` -/
example :
    sc2.2.1 = [] ∧ sc4.2.1 = [] ∧
    replay (fun _ => none) (sc2.2.1 ++ sc4.2.1) [1] = none ∧ (tbl sc4.1.root 0).primary.get [1] = none := by
  refine ⟨by decide +kernel, by decide +kernel, by decide +kernel, by decide +kernel⟩

private def sd0 : DB := (wr (newDB.beginW true true) fun t => (modify t 0 oX false).1).commit
private def sd1 : DB := (iterCreate (sd0.beginW true true) 0).commit
private def sd2 : DB := (wr (sd1.beginW true true) fun t => (delete t 0 [1]).1).commit      -- the older snapshot
private def sd3 : DB := (wr (sd2.beginW true true) fun t => (modify t 0 oX false).1).commit  -- the newer snapshot
private def sd4 := iterNext sd3 0 sd3.root [] 1             -- Next(newer), one change taken: U X@3
private def sd5 := iterNext sd4.1 0 sd2.root [] (-1)        -- Next(older): D X@2
private def sd6 := iterNext sd5.1 0 sd5.1.root [] (-1)      -- Next(current): nothing

/-- **an OLDER snapshot passed to `Next` after a newer one** (sequence of the newer one not run off its
    end): the deletion of the older snapshot is delivered after the re-insert of the newer one, and the
    next call on the current root reports pending changes, delivers nothing, and leaves the replayed view
    without the object the table contains -/
theorem C07_older_snapshot_refuted :
    sd4.2.2 = true ∧ sd4.2.1.map (fun c => (c.deleted, c.rev)) = [(false, 3)] ∧
    sd5.2.2 = true ∧ sd5.2.1.map (fun c => (c.deleted, c.rev)) = [(true, 2)] ∧
    sd6.2.2 = true ∧ sd6.2.1 = [] ∧
    replay (fun _ => none) (sd4.2.1 ++ sd5.2.1 ++ sd6.2.1) [1] = none ∧
    (tbl sd6.1.root 0).primary.get [1] ≠ none := by
  refine ⟨by decide +kernel, by decide +kernel, by decide +kernel, by decide +kernel, by decide +kernel,
    ?_, by decide +kernel, by decide +kernel⟩
  decide +kernel

/-! ## non-vacuity -/

/-- a concrete non-trivial table: one live object at revision 2, one retained deletion at revision 3 -/
def c07Table : TableS :=
  let t0 : TableS := { locked := true, trackers := [1] }
  let o1 : Obj := { id := [1], val := 10, uvar := 0, tags := [], pfxs := [], up := false, ord := 0, rev := 0 }
  let o2 : Obj := { id := [2], val := 20, uvar := 0, tags := [], pfxs := [], up := false, ord := 1, rev := 0 }
  let t1 := (modify t0 0 o1 false).1
  let t2 := (modify t1 0 o2 false).1
  (delete t2 0 [1]).1

example : c07Table.rev = 3 ∧ c07Table.primary.length = 1 ∧ c07Table.grave.length = 1 := by decide

/-- it is reachable, hence satisfies the invariant -/
theorem c07Table_reach : TReach c07Table := by
  refine TReach.step (TReach.step (TReach.step (TReach.init _ rfl rfl rfl rfl rfl)
    (TStep.modify _ 0 _ false ?_)) (TStep.modify _ 0 _ false ?_)) (TStep.delete _ 0 [1] ?_)
  all_goals decide

example : TInv c07Table := C07_table_invariant_reachable _ c07Table_reach

/-- the hypotheses of `C07_replay_from_liveUpTo` are satisfiable, and its conclusion is non-trivial -/
example : ∀ id, replay (liveUpTo c07Table 0) (pendingOf c07Table 0 0) id = c07Table.primary.get id :=
  C07_replay_from_liveUpTo c07Table (C07_table_invariant_reachable _ c07Table_reach) 0 0 (by decide) (by decide)

/-- a reachable database state with a registered, open iterator: begin, `Changes()`, commit -/
def c07State : St :=
  { St.init with db := ((iterCreate (St.init.db.beginW true true) 0).commit) }

theorem c07State_reach : Reach c07State :=
  Reach.step (Reach.step (Reach.step Reach.init (Step.beginW _ true true rfl)) (Step.create _ 0)) (Step.commit _)

/-- the hypotheses of `C07_reachable_synced` / `C07_next_full_yields_snapshot` are satisfiable -/
example : ∃ it, c07State.db.iters[0]? = some it ∧ it.closed = false ∧
    it.tracker ∈ (tbl c07State.db.root it.table).trackers := by
  refine ⟨_, rfl, ?_, ?_⟩
  · rfl
  · decide

/-- the structural facts about write_txn.go, graveyard.go, iterator.go and deletetracker.go that
    `Model.Table` builds in — the change iterator's cursors, its refresh queries and the stale-snapshot rule — hold of the source as it is today (regenerated by
    `tools/extract` on every run) -/
theorem C07_source_facts : Gen.tableFacts = Tbl.expectedFacts := by decide

end Sdb
