import SdbModel.Model.Table
/-! # C07 — theorems under construction (see DESIGN.md section 4) -/
namespace Sdb
end Sdb
