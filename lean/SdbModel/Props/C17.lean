import SdbModel.Model.Art
import SdbModel.Model.PMap
import SdbModel.Generated.ArtParams
/-! # C17 — theorems under construction (see DESIGN.md section 4) -/
namespace Sdb
end Sdb
