import SdbModel.Model.Art
import SdbModel.Model.PMap
import SdbModel.Generated.ArtParams
import SdbModel.Lemmas.PMap
import SdbModel.Lemmas.PSet

/-!
# C17 — part.Map and part.Set are persistent, model-exact and round-trip

> part.Map and part.Set are persistent ordered collections: every operation (Set,
> Delete, map transactions, FromMap, Union, Difference) returns a value that
> behaves as the corresponding mathematical map or set - iteration, Prefix and
> LowerBound in bytewise key order, Len, Get/Has and the equality predicates all
> consistent with it, a later write to a key winning over an earlier one - while
> every previously obtained value is unchanged.  JSON and YAML encoding of any
> value decodes to an equal value.

Theorems over `Model.PMap` (the empty / singleton / tree representations of
`part.Map` and every transition between them, `MapTxn`, `FromMap`, the
unmarshallers, and `part.Set`), on top of the C11 refinement of the radix tree,
for EVERY `ArtParams`, every key (`List Nat`, the empty key included) and value.
The abstraction of a map is `Map.all` (= the marshalled, ordered entry list);
the reference operations are those of C11 on strictly `cmpL`-ascending
association lists (`Art.sinsert`, `Art.sdelete`, `Art.look`, `List.filter`) and
`Art.sinsertAll` (insert the pairs of a list from left to right).  The
hypothesis `PMap.MapWF` (a singleton excludes a tree; an allocated tree is
`Art.TreeWF`) holds for the empty map and is preserved by every operation with
NO side condition; the stronger `PMap.MapCanon` (the tree representation holds
at least two entries, so that the abstract map determines the representation
state) is preserved by Set / Delete / MapTxn.Commit, and by FromMap / Unmarshal
when the argument has pairwise distinct keys (a Go map always has; a JSON
document need not: `C17_decode_duplicate_keys_noncanonical`).  Hence both hold
for every reachable map (`C17_reachable_refines_reference`, `C17_reachable_canonical`).
For `part.Set` the abstraction is `PSet.all` (strictly ascending element list)
and the invariant `PMap.SetWF`.

Persistence ("every previously obtained value is unchanged") is, in this purely
functional model, the fact that every operation returns a NEW value and reads
are functions of their argument alone; no theorem is stated for it.  The
aliasing half (a transaction mutates in place only nodes it owns) is C01's heap
theorem over `Model.Cow`.  `Map.EqualKeys` / `Map.SlowEqual` are not in the
model; `Set.Equal` is (`C17_set_equal_iff`).  Encoding is modelled as the
ordered entry list (`Map.all` / `PSet.all`); the byte-level JSON / YAML codecs
of the element types are in the trusted base.
-/
namespace Sdb
open Art PMap

/-! ## the invariant and the reads of a map -/

/-- the zero `Map` satisfies both invariants -/
theorem C17_empty_wf : MapWF {} ∧ MapCanon {} ∧ Map.all {} = [] := ⟨mapWF_empty, mapCanon_empty, rfl⟩

/-- the canonical invariant implies the plain one (all read theorems need only `MapWF`) -/
theorem C17_canon_implies_wf (m : Map) (h : MapCanon m) : MapWF m := h.1

/-- **All iterates in strictly ascending bytewise key order** (so keys are unique) -/
theorem C17_all_strictly_ascending (m : Map) (h : MapWF m) :
    m.all.Pairwise (fun a b => cmpL a.1 b.1 = .lt) := all_sorted m h

/-- **Get is the lookup in the iterated contents** -/
theorem C17_get_is_lookup (m : Map) (h : MapWF m) (k : List Nat) : m.get k = look m.all k := get_look m h k

/-- **All yields exactly the bindings Get finds** -/
theorem C17_all_iff_get (m : Map) (h : MapWF m) (k : List Nat) (v : Nat) : (k, v) ∈ m.all ↔ m.get k = some v := by
  rw [get_look m h]; exact mem_iff_look _ (all_sorted m h) k v

/-- **Len is the number of iterated entries** -/
theorem C17_len_is_length (m : Map) (h : MapWF m) : m.len = m.all.length := len_length m h

/-- **Prefix returns exactly the entries whose key has the prefix, in iteration order** -/
theorem C17_prefix_is_filter (m : Map) (h : MapWF m) (p : List Nat) :
    m.prefix p = m.all.filter (fun e => hasPrefix e.1 p) := prefix_filter m h p

/-- **LowerBound returns exactly the entries with key ≥ `k`, in iteration order** -/
theorem C17_lowerbound_is_filter (m : Map) (h : MapWF m) (k : List Nat) :
    m.lowerBound k = m.all.filter (fun e => decide (cmpL e.1 k ≠ .lt)) := lowerBound_filter m h k

/-- **the abstract map determines the representation state**: under `MapCanon` a map is the
    zero value iff it is empty, a singleton iff it has one entry, and has a tree iff it has
    at least two entries; in every state at most one of singleton / tree is in use -/
theorem C17_canonical_representation (m : Map) (h : MapCanon m) :
    (m.all = [] ↔ m = {}) ∧ (∀ e, m.all = [e] ↔ m = { single := some e }) ∧
    (m.tree.isSome = true ↔ 2 ≤ m.all.length) ∧ (m.single.isSome = true → m.tree = none) :=
  ⟨canon_all_nil m h, canon_all_single m h, canon_tree_iff m h, h.1.1⟩

/-! ## Set -/

theorem C17_set_preserves_wf (P : ArtParams) (m : Map) (h : MapWF m) (k : List Nat) (v : Nat) :
    MapWF (m.set P k v) := (set_spec P m h k v).1

theorem C17_set_preserves_canon (P : ArtParams) (m : Map) (h : MapCanon m) (k : List Nat) (v : Nat) :
    MapCanon (m.set P k v) := set_canon P m h k v

/-- **the contents after Set are the reference insertion** (insert, or replace the value) -/
theorem C17_set_refines_sinsert (P : ArtParams) (m : Map) (h : MapWF m) (k : List Nat) (v : Nat) :
    (m.set P k v).all = sinsert m.all k v := (set_spec P m h k v).2

/-- **Get after Set**: the written key has the new value, every other key is unchanged -/
theorem C17_get_after_set (P : ArtParams) (m : Map) (h : MapWF m) (k k' : List Nat) (v : Nat) :
    (m.set P k v).get k' = if k' = k then some v else m.get k' := by
  rw [get_look _ (set_spec P m h k v).1, (set_spec P m h k v).2, look_sinsert, get_look m h]

/-- **a later write to a key wins over an earlier one** -/
theorem C17_set_later_write_wins (P : ArtParams) (m : Map) (h : MapWF m) (k : List Nat) (v v' : Nat) :
    ((m.set P k v).set P k v').all = (m.set P k v').all := by
  have h1 := set_spec P m h k v
  rw [(set_spec P _ h1.1 k v').2, h1.2, (set_spec P m h k v').2, sinsert_override _ (all_sorted m h)]

/-- writes to different keys commute -/
theorem C17_set_commutes (P : ArtParams) (m : Map) (h : MapWF m) (k k' : List Nat) (v v' : Nat) (hne : k ≠ k') :
    ((m.set P k v).set P k' v').all = ((m.set P k' v').set P k v).all := by
  have h1 := set_spec P m h k v
  have h2 := set_spec P m h k' v'
  rw [(set_spec P _ h1.1 k' v').2, h1.2, (set_spec P _ h2.1 k v).2, h2.2, sinsert_comm _ (all_sorted m h) _ _ _ _ hne]

/-- **Len grows by one iff the key was absent** -/
theorem C17_set_len (P : ArtParams) (m : Map) (h : MapWF m) (k : List Nat) (v : Nat) :
    (m.set P k v).len = if m.get k = none then m.len + 1 else m.len := by
  rw [len_length _ (set_spec P m h k v).1, (set_spec P m h k v).2, length_sinsert _ (all_sorted m h),
    get_look m h, len_length m h]
  cases look m.all k <;> simp

/-! ## Delete -/

theorem C17_delete_preserves_wf (P : ArtParams) (m : Map) (h : MapWF m) (k : List Nat) :
    MapWF (m.delete P k) := (delete_spec P m h k).1

theorem C17_delete_preserves_canon (P : ArtParams) (m : Map) (h : MapCanon m) (k : List Nat) :
    MapCanon (m.delete P k) := delete_canon P m h k

/-- **the contents after Delete are the reference deletion** -/
theorem C17_delete_refines_sdelete (P : ArtParams) (m : Map) (h : MapWF m) (k : List Nat) :
    (m.delete P k).all = sdelete m.all k := (delete_spec P m h k).2

/-- **deleting an absent key leaves the contents unchanged** -/
theorem C17_delete_absent_unchanged (P : ArtParams) (m : Map) (h : MapWF m) (k : List Nat)
    (habs : m.get k = none) : (m.delete P k).all = m.all := by
  rw [(delete_spec P m h k).2]
  rw [get_look m h] at habs
  exact sdelete_of_look_none _ _ habs

/-- **Get after Delete** -/
theorem C17_get_after_delete (P : ArtParams) (m : Map) (h : MapWF m) (k k' : List Nat) :
    (m.delete P k).get k' = if k' = k then none else m.get k' := by
  rw [get_look _ (delete_spec P m h k).1, (delete_spec P m h k).2, look_sdelete, get_look m h]

/-- **Len drops by one iff the key was present** -/
theorem C17_delete_len (P : ArtParams) (m : Map) (h : MapWF m) (k : List Nat) :
    (m.delete P k).len = if m.get k = none then m.len else m.len - 1 := by
  rw [len_length _ (delete_spec P m h k).1, (delete_spec P m h k).2, length_sdelete _ (all_sorted m h),
    get_look m h, len_length m h]
  cases look m.all k <;> simp

/-- deleting a freshly set key that was absent gives the old contents back -/
theorem C17_delete_after_set (P : ArtParams) (m : Map) (h : MapWF m) (k : List Nat) (v : Nat)
    (habs : m.get k = none) : ((m.set P k v).delete P k).all = m.all := by
  have h1 := set_spec P m h k v
  rw [(delete_spec P _ h1.1 k).2, h1.2]
  rw [get_look m h] at habs
  exact sdelete_sinsert _ (all_sorted m h) k v habs

/-! ## FromMap -/

/-- `FromMap` keeps the invariant for ANY argument list -/
theorem C17_fromMap_preserves_wf (P : ArtParams) (m : Map) (h : MapWF m) (hm : List KV) :
    MapWF (m.fromMap P hm) := (fromMap_spec P m h hm).1

/-- with a duplicate-free argument (every Go map) the canonical representation is kept -/
theorem C17_fromMap_preserves_canon (P : ArtParams) (m : Map) (h : MapCanon m) (hm : List KV)
    (hd : KeysNodup hm) : MapCanon (m.fromMap P hm) := fromMap_canon P m h hm hd

/-- **the contents after FromMap are the old entries overridden by the new ones** -/
theorem C17_fromMap_refines_fold (P : ArtParams) (m : Map) (h : MapWF m) (hm : List KV) :
    (m.fromMap P hm).all = sinsertAll m.all hm := (fromMap_spec P m h hm).2

/-- **the result does not depend on the iteration order of the Go map** -/
theorem C17_fromMap_order_independent (P : ArtParams) (m : Map) (h : MapWF m) (hm hm' : List KV)
    (hd : KeysNodup hm) (hp : hm.Perm hm') : (m.fromMap P hm).all = (m.fromMap P hm').all := by
  rw [(fromMap_spec P m h hm).2, (fromMap_spec P m h hm').2]
  exact sinsertAll_perm _ (all_sorted m h) hm hm' hd hp

/-- **Get after FromMap**: the keys of the Go map have its values (also the key of an old
    singleton), all other keys are unchanged -/
theorem C17_get_after_fromMap (P : ArtParams) (m : Map) (h : MapWF m) (hm : List KV) (hd : KeysNodup hm)
    (k : List Nat) :
    (m.fromMap P hm).get k = match look hm k with | some v => some v | none => m.get k := by
  rw [get_look _ (fromMap_spec P m h hm).1, (fromMap_spec P m h hm).2, look_sinsertAll_nodup _ _ hd, get_look m h]
  cases look hm k <;> rfl

/-- membership form: the entries are those of the Go map plus the old ones with other keys -/
theorem C17_fromMap_members (P : ArtParams) (m : Map) (h : MapWF m) (hm : List KV) (hd : KeysNodup hm) (e : KV) :
    e ∈ (m.fromMap P hm).all ↔ e ∈ hm ∨ (e.1 ∉ hm.map (·.1) ∧ e ∈ m.all) := by
  rw [(fromMap_spec P m h hm).2]
  exact mem_sinsertAll _ (all_sorted m h) hm hd e

/-- **FromMap into a singleton**: a key of the Go map that is also the singleton's key gets
    the Go map's value (the singleton is inserted first, so the new entry wins) -/
theorem C17_fromMap_overrides_singleton (P : ArtParams) (k : List Nat) (v0 v : Nat) (hm : List KV)
    (hd : KeysNodup hm) (hin : (k, v) ∈ hm) :
    (Map.fromMap P { single := some (k, v0) } hm).get k = some v := by
  rw [C17_get_after_fromMap P _ (mapWF_single _) hm hd k, (mem_iff_look_nodup hm hd k v).mp hin]

/-! ## map transactions -/

/-- the writes of a `MapTxn` -/
inductive PMap.TOp where
  | set (k : List Nat) (v : Nat)
  | delete (k : List Nat)

def PMap.stepT (P : ArtParams) (x : Txn) : TOp → Txn
  | .set k v => insT P x k v
  | .delete k => (x.delete P k).1

/-- the same write on the reference list -/
def PMap.specT (l : List KV) : TOp → List KV
  | .set k v => sinsert l k v
  | .delete k => sdelete l k

/-- `Map.Txn()` starts from exactly the contents of the map (the singleton included) -/
theorem C17_txn_starts_from_map (P : ArtParams) (m : Map) (h : MapWF m) :
    TxnWF (m.txn P) ∧ allRoot (m.txn P).root = m.all := txn_spec P m h

/-- any writes through a transaction keep the tree invariant and are the reference writes -/
theorem C17_txn_run_refines (P : ArtParams) (ops : List TOp) (x : Txn) (h : TxnWF x) :
    TxnWF (ops.foldl (stepT P) x) ∧ allRoot (ops.foldl (stepT P) x).root = ops.foldl specT (allRoot x.root) := by
  induction ops generalizing x with
  | nil => exact ⟨h, rfl⟩
  | cons op ops ih =>
    cases op with
    | set k v =>
      have := ih _ (insT_wf P x k v h)
      rw [insT_all P x k v h] at this
      exact this
    | delete k =>
      have := ih _ (delT_wf P x k h)
      rw [delT_all P x k h] at this
      exact this

/-- **the reads of a `MapTxn`** (Get / Len / All / Prefix / LowerBound) after any writes see
    the reference writes applied to the contents of the map it was opened on -/
theorem C17_txn_reads_are_reference (P : ArtParams) (m : Map) (h : MapWF m) (ops : List TOp) (w : Nat)
    (k : List Nat) :
    let x := ops.foldl (stepT P) (m.txn P)
    let l := ops.foldl specT m.all
    allRoot x.root = l ∧ (getRoot x.root w k).1 = look l k ∧ x.size = l.length ∧
    (prefixRoot x.root w k).1 = l.filter (fun e => hasPrefix e.1 k) ∧
    lbRoot x.root k = l.filter (fun e => decide (cmpL e.1 k ≠ .lt)) := by
  intro x l
  obtain ⟨h1, h2⟩ := txn_spec P m h
  obtain ⟨h3, h4⟩ := C17_txn_run_refines P ops _ h1
  have e : allRoot x.root = l := by rw [h4, h2]
  refine ⟨e, ?_, ?_, ?_, ?_⟩
  · rw [getRoot_look _ h3.1, e]
  · rw [h3.2, e]
  · rw [← e]
    cases hr : x.root with
    | none => rfl
    | some r =>
      have := h3.1
      rw [hr] at this
      exact prefixNode_eq [] r this w k
  · rw [← e]
    cases hr : x.root with
    | none => rfl
    | some r =>
      have := h3.1
      rw [hr] at this
      exact lbNode_eq [] r this k

/-- `MapTxn.Commit` publishes exactly the transaction's contents in the canonical
    representation and leaves a well-formed transaction with the same contents -/
theorem C17_commit_publishes_txn (x : Txn) (h : TxnWF x) :
    MapCanon (commitMapTxn x).1 ∧ (commitMapTxn x).1.all = allRoot x.root ∧
    TxnWF (commitMapTxn x).2 ∧ allRoot (commitMapTxn x).2.root = allRoot x.root :=
  ⟨(commitMapTxn_spec x h).1, (commitMapTxn_spec x h).2.1, (commitMapTxn_spec x h).2.2.1, (commitMapTxn_spec x h).2.2.2.1⟩

/-- **Txn, any writes, Commit**: the committed map is canonical and its contents are the
    reference writes applied to the contents of the map the transaction was opened on -/
theorem C17_txn_commit_refines_reference (P : ArtParams) (m : Map) (h : MapWF m) (ops : List TOp) :
    MapCanon (commitMapTxn (ops.foldl (stepT P) (m.txn P))).1 ∧
    (commitMapTxn (ops.foldl (stepT P) (m.txn P))).1.all = ops.foldl specT m.all := by
  obtain ⟨h1, h2⟩ := txn_spec P m h
  obtain ⟨h3, h4⟩ := C17_txn_run_refines P ops _ h1
  obtain ⟨h5, h6, _⟩ := commitMapTxn_spec _ h3
  exact ⟨h5, by rw [h6, h4, h2]⟩

/-- **the transaction is still usable after Commit**: further writes `ops'` through the
    transaction returned by the first Commit and a second Commit give a canonical map whose
    contents are `ops'` applied to the FIRST committed map's contents, and the first
    committed map (an immutable value) still has the contents it was committed with -/
theorem C17_txn_reusable_after_commit (P : ArtParams) (m : Map) (h : MapWF m) (ops ops' : List TOp) :
    let c1 := commitMapTxn (ops.foldl (stepT P) (m.txn P))
    let c2 := commitMapTxn (ops'.foldl (stepT P) c1.2)
    MapCanon c2.1 ∧ c2.1.all = ops'.foldl specT c1.1.all ∧ c1.1.all = ops.foldl specT m.all := by
  intro c1 c2
  obtain ⟨h1, h2⟩ := txn_spec P m h
  obtain ⟨h3, h4⟩ := C17_txn_run_refines P ops _ h1
  obtain ⟨_, h6, h7, h8, _⟩ := commitMapTxn_spec _ h3
  obtain ⟨h9, h10⟩ := C17_txn_run_refines P ops' _ h7
  obtain ⟨h11, h12, _⟩ := commitMapTxn_spec _ h9
  refine ⟨h11, ?_, by rw [h6, h4, h2]⟩
  show (commitMapTxn _).1.all = _
  rw [h12, h10, h8]
  show _ = List.foldl specT (commitMapTxn _).1.all ops'
  rw [h6]

/-! ## JSON / YAML round trip of a map (encode = the ordered entry list `Map.all`) -/

/-- unmarshalling ANY entry list gives a well-formed map holding the entries inserted from
    left to right (a later duplicate wins) -/
theorem C17_decode_refines_fold (P : ArtParams) (es : List KV) :
    MapWF (Map.ofEntries P es) ∧ (Map.ofEntries P es).all = sinsertAll [] es := ofEntries_spec P es

/-- with pairwise distinct keys the decoded map is canonical -/
theorem C17_decode_canon (P : ArtParams) (es : List KV) (hd : KeysNodup es) : MapCanon (Map.ofEntries P es) :=
  ofEntries_canon P es hd

/-- **encode then decode gives an equal map**: same contents, canonical representation -/
theorem C17_map_roundtrip (P : ArtParams) (m : Map) (h : MapWF m) :
    (Map.ofEntries P m.all).all = m.all ∧ MapCanon (Map.ofEntries P m.all) :=
  ⟨(roundtrip P m h).2, (roundtrip P m h).1⟩

/-- every read of the decoded map agrees with the original -/
theorem C17_map_roundtrip_reads (P : ArtParams) (m : Map) (h : MapWF m) (k : List Nat) :
    (Map.ofEntries P m.all).get k = m.get k ∧ (Map.ofEntries P m.all).len = m.len ∧
    (Map.ofEntries P m.all).prefix k = m.prefix k ∧ (Map.ofEntries P m.all).lowerBound k = m.lowerBound k := by
  obtain ⟨hc, ha⟩ := roundtrip P m h
  refine ⟨?_, ?_, ?_, ?_⟩
  · rw [get_look _ hc.1, ha, get_look m h]
  · rw [len_length _ hc.1, ha, len_length m h]
  · rw [prefix_filter _ hc.1, ha, prefix_filter m h]
  · rw [lowerBound_filter _ hc.1, ha, lowerBound_filter m h]

/-- for a canonical map the round trip reproduces the representation state as well -/
theorem C17_map_roundtrip_representation (P : ArtParams) (m : Map) (h : MapCanon m) :
    (Map.ofEntries P m.all).single = m.single ∧ (Map.ofEntries P m.all).tree.isSome = m.tree.isSome := by
  obtain ⟨hc, ha⟩ := roundtrip P m h.1
  rcases h.1.cases with rfl | ⟨e, rfl⟩ | ⟨t, rfl, ht⟩
  · exact ⟨rfl, rfl⟩
  · exact ⟨rfl, rfl⟩
  · have h2 : 2 ≤ (Map.ofEntries P (Map.all { single := none, tree := some t })).all.length := by
      rw [ha]; exact (canon_tree_iff _ h).mp rfl
    have h3 := (canon_tree_iff _ hc).mpr h2
    refine ⟨?_, h3⟩
    cases hs : (Map.ofEntries P (Map.all { single := none, tree := some t })).single with
    | none => rfl
    | some e =>
      have := hc.1.1 (by rw [hs]; rfl)
      rw [this] at h3
      simp at h3

/-- a JSON document with a repeated key decodes to a tree of ONE entry: the same abstract
    map as the singleton, but not its canonical representation (why `C17_decode_canon` and
    `C17_fromMap_preserves_canon` need distinct keys; a marshalled map never has duplicates) -/
theorem C17_decode_duplicate_keys_noncanonical :
    (Map.ofEntries Gen.artParams [([1], 1), ([1], 2)]).all = [([1], 2)] ∧
    (Map.ofEntries Gen.artParams [([1], 1), ([1], 2)]).tree.isSome = true ∧
    ¬ MapCanon (Map.ofEntries Gen.artParams [([1], 1), ([1], 2)]) := by
  refine ⟨by decide, by decide, ?_⟩
  intro h
  have := (canon_tree_iff _ h).mp (by decide)
  revert this
  decide

/-! ## every reachable map: operation sequences against the reference map -/

/-- the operations of the `part.Map` API that produce maps -/
inductive PMap.Op where
  | set (k : List Nat) (v : Nat)
  | delete (k : List Nat)
  /-- `FromMap(m, hm)`; the list is the Go map in the order it happens to be iterated -/
  | fromMap (hm : List KV)
  /-- `Txn()`, the writes, `Commit()` -/
  | txn (ops : List TOp)
  /-- marshal (JSON or YAML), then unmarshal -/
  | recode
  /-- unmarshal the entry list `es` into the receiver -/
  | decode (es : List KV)

def PMap.stepMap (P : ArtParams) (m : Map) : PMap.Op → Map
  | .set k v => m.set P k v
  | .delete k => m.delete P k
  | .fromMap hm => m.fromMap P hm
  | .txn ops => (commitMapTxn (ops.foldl (stepT P) (m.txn P))).1
  | .recode => Map.ofEntries P m.all
  | .decode es => Map.ofEntries P es

/-- the same operation on the reference sorted association list -/
def PMap.specMap (l : List KV) : PMap.Op → List KV
  | .set k v => sinsert l k v
  | .delete k => sdelete l k
  | .fromMap hm => sinsertAll l hm
  | .txn ops => ops.foldl specT l
  | .recode => l
  | .decode es => sinsertAll [] es

/-- what the API guarantees about the arguments: a Go map has pairwise distinct keys; for
    `decode`, that the document has no repeated key (needed for canonicity only) -/
def PMap.Op.ok : PMap.Op → Prop
  | .fromMap hm => KeysNodup hm
  | .decode es => KeysNodup es
  | _ => True

instance (op : PMap.Op) : Decidable op.ok := by
  cases op <;> simp only [PMap.Op.ok, KeysNodup] <;> infer_instance

/-- one operation preserves `MapWF` and commutes with the reference operation -/
theorem C17_step_refines (P : ArtParams) (m : Map) (h : MapWF m) (op : PMap.Op) :
    MapWF (stepMap P m op) ∧ (stepMap P m op).all = specMap m.all op := by
  cases op with
  | set k v => exact set_spec P m h k v
  | delete k => exact delete_spec P m h k
  | fromMap hm => exact fromMap_spec P m h hm
  | txn ops => exact ⟨(C17_txn_commit_refines_reference P m h ops).1.1, (C17_txn_commit_refines_reference P m h ops).2⟩
  | recode => exact ⟨(roundtrip P m h).1.1, (roundtrip P m h).2⟩
  | decode es => exact ofEntries_spec P es

/-- one operation with API-conformant arguments preserves the canonical representation -/
theorem C17_step_preserves_canon (P : ArtParams) (m : Map) (h : MapCanon m) (op : PMap.Op) (hok : op.ok) :
    MapCanon (stepMap P m op) := by
  cases op with
  | set k v => exact set_canon P m h k v
  | delete k => exact delete_canon P m h k
  | fromMap hm => exact fromMap_canon P m h hm hok
  | txn ops => exact (C17_txn_commit_refines_reference P m h.1 ops).1
  | recode => exact (roundtrip P m h.1).1
  | decode es => exact ofEntries_canon P es hok

/-- **any operation sequence from any well-formed map** keeps the invariant and yields the
    contents the reference map yields -/
theorem C17_run_refines_reference (P : ArtParams) (ops : List PMap.Op) (m : Map) (h : MapWF m) :
    MapWF (ops.foldl (stepMap P) m) ∧ (ops.foldl (stepMap P) m).all = ops.foldl specMap m.all := by
  induction ops generalizing m with
  | nil => exact ⟨h, rfl⟩
  | cons op rest ih =>
    obtain ⟨h1, h2⟩ := C17_step_refines P m h op
    have := ih (stepMap P m op) h1
    simp only [List.foldl_cons]
    rw [← h2]; exact this

/-- **every reachable map**: whatever Set / Delete / FromMap / transactions / encode-decode
    round trips / decodes are applied starting from the zero `Map`, the invariant holds and
    the contents are those of the reference map built by the same operations from `[]` -/
theorem C17_reachable_refines_reference (P : ArtParams) (ops : List PMap.Op) :
    MapWF (ops.foldl (stepMap P) {}) ∧ (ops.foldl (stepMap P) {}).all = ops.foldl specMap [] :=
  C17_run_refines_reference P ops {} mapWF_empty

/-- **every map reachable with API-conformant arguments is in canonical representation** -/
theorem C17_reachable_canonical (P : ArtParams) (ops : List PMap.Op) (hok : ∀ op ∈ ops, op.ok) :
    MapCanon (ops.foldl (stepMap P) {}) := by
  suffices ∀ m : Map, MapCanon m → MapCanon (ops.foldl (stepMap P) m) from this _ mapCanon_empty
  induction ops with
  | nil => exact fun _ h => h
  | cons op rest ih =>
    intro m h
    exact ih (fun o ho => hok o (List.mem_cons_of_mem _ ho)) _
      (C17_step_preserves_canon P m h op (hok op (List.mem_cons_self ..)))

/-! ## part.Set -/

/-- **All of a set is strictly ascending in bytewise order** (so without repetitions) -/
theorem C17_set_all_strictly_ascending (s : PSet) (h : SetWF s) :
    s.all.Pairwise (fun a b => cmpL a b = .lt) := pset_all_ksorted s h

/-- two strictly ascending lists with the same members are equal: the membership theorems
    below determine `all` of the result completely -/
theorem C17_set_sorted_members_unique (l₁ l₂ : List (List Nat))
    (h₁ : l₁.Pairwise (fun a b => cmpL a b = .lt)) (h₂ : l₂.Pairwise (fun a b => cmpL a b = .lt))
    (h : ∀ k, k ∈ l₁ ↔ k ∈ l₂) : l₁ = l₂ := ksorted_ext l₁ l₂ h₁ h₂ h

/-- **Has is membership in All** -/
theorem C17_set_has_iff_mem (s : PSet) (h : SetWF s) (k : List Nat) : s.has k = true ↔ k ∈ s.all :=
  pset_has_iff s h k

/-- **Len is the number of elements** -/
theorem C17_set_len_is_length (s : PSet) (h : SetWF s) : s.len = s.all.length := pset_len_length s h

/-- the zero `Set` -/
theorem C17_set_empty_wf : SetWF {} ∧ PSet.all {} = [] := ⟨setWF_empty, rfl⟩

/-- **NewSet(values...)** holds exactly the values (any order, repetitions allowed) -/
theorem C17_newSet_members (P : ArtParams) (vs : List (List Nat)) :
    SetWF (PSet.ofList P vs) ∧ ∀ q, q ∈ (PSet.ofList P vs).all ↔ q ∈ vs := pset_ofList_spec P vs

/-- **Set.Set** adds the value -/
theorem C17_set_insert_members (P : ArtParams) (s : PSet) (h : SetWF s) (k : List Nat) :
    SetWF (s.set P k) ∧ ∀ q, q ∈ (s.set P k).all ↔ q = k ∨ q ∈ s.all := pset_set_spec P s h k

/-- **Set.Delete** removes exactly the value -/
theorem C17_set_delete_is_filter (P : ArtParams) (s : PSet) (h : SetWF s) (k : List Nat) :
    SetWF (s.delete P k) ∧ (s.delete P k).all = s.all.filter (fun q => decide (q ≠ k)) :=
  pset_delete_spec P s h k

/-- **Union is the set union** -/
theorem C17_set_union_is_union (P : ArtParams) (s s2 : PSet) (h : SetWF s) (h2 : SetWF s2) :
    SetWF (s.union P s2) ∧ ∀ q, q ∈ (s.union P s2).all ↔ q ∈ s.all ∨ q ∈ s2.all :=
  pset_union_spec P s s2 h h2

/-- Union is commutative and idempotent on the element lists -/
theorem C17_set_union_comm_idem (P : ArtParams) (s s2 : PSet) (h : SetWF s) (h2 : SetWF s2) :
    (s.union P s2).all = (s2.union P s).all ∧ (s.union P s).all = s.all := by
  obtain ⟨w1, m1⟩ := pset_union_spec P s s2 h h2
  obtain ⟨w2, m2⟩ := pset_union_spec P s2 s h2 h
  obtain ⟨w3, m3⟩ := pset_union_spec P s s h h
  constructor
  · apply ksorted_ext _ _ (pset_all_ksorted _ w1) (pset_all_ksorted _ w2)
    intro k; rw [m1, m2]; exact Or.comm
  · apply ksorted_ext _ _ (pset_all_ksorted _ w3) (pset_all_ksorted _ h)
    intro k; rw [m3]; simp

/-- **Difference is the set difference**: the elements of the first set not in the second, in order -/
theorem C17_set_difference_is_filter (P : ArtParams) (s s2 : PSet) (h : SetWF s) (h2 : SetWF s2) :
    SetWF (s.difference P s2) ∧ (s.difference P s2).all = s.all.filter (fun q => decide (q ∉ s2.all)) :=
  pset_difference_spec P s s2 h h2

/-- **Equal holds iff the element lists are equal** -/
theorem C17_set_equal_iff (s o : PSet) (h : SetWF s) (h2 : SetWF o) : s.equal o = true ↔ s.all = o.all :=
  pset_equal_iff s o h h2

/-- **JSON and YAML round trip of a set**: decoding the element list gives a set with the
    same elements, `Equal` to the original -/
theorem C17_set_roundtrip (P : ArtParams) (s : PSet) (h : SetWF s) :
    (PSet.ofJSON P s.all).all = s.all ∧ (PSet.ofYAML P s.all).all = s.all ∧
    (PSet.ofJSON P s.all).equal s = true ∧ (PSet.ofYAML P s.all).equal s = true := by
  obtain ⟨w1, m1⟩ := pset_ofJSON_spec P s.all
  obtain ⟨w2, m2⟩ := pset_ofYAML_spec P s.all
  have e1 := ksorted_ext _ _ (pset_all_ksorted _ w1) (pset_all_ksorted _ h) m1
  have e2 := ksorted_ext _ _ (pset_all_ksorted _ w2) (pset_all_ksorted _ h) m2
  exact ⟨e1, e2, (pset_equal_iff _ _ w1 h).mpr e1, (pset_equal_iff _ _ w2 h).mpr e2⟩

/-- decoding ANY element list (any order, repetitions) gives exactly its elements -/
theorem C17_set_decode_members (P : ArtParams) (vs : List (List Nat)) :
    (SetWF (PSet.ofJSON P vs) ∧ ∀ q, q ∈ (PSet.ofJSON P vs).all ↔ q ∈ vs) ∧
    (SetWF (PSet.ofYAML P vs) ∧ ∀ q, q ∈ (PSet.ofYAML P vs).all ↔ q ∈ vs) :=
  ⟨pset_ofJSON_spec P vs, pset_ofYAML_spec P vs⟩

/-- the sets that can be built with the `part.Set` API -/
inductive PMap.SetReach (P : ArtParams) : PSet → Prop where
  | zero : SetReach P {}
  | newSet (vs : List (List Nat)) : SetReach P (PSet.ofList P vs)
  | set {s : PSet} (k : List Nat) : SetReach P s → SetReach P (s.set P k)
  | delete {s : PSet} (k : List Nat) : SetReach P s → SetReach P (s.delete P k)
  | union {s s2 : PSet} : SetReach P s → SetReach P s2 → SetReach P (s.union P s2)
  | difference {s s2 : PSet} : SetReach P s → SetReach P s2 → SetReach P (s.difference P s2)
  | ofJSON (vs : List (List Nat)) : SetReach P (PSet.ofJSON P vs)
  | ofYAML (vs : List (List Nat)) : SetReach P (PSet.ofYAML P vs)

/-- **every reachable set satisfies the invariant** (so all theorems above apply to it) -/
theorem C17_set_reachable_wf (P : ArtParams) (s : PSet) (h : SetReach P s) : SetWF s := by
  induction h with
  | zero => exact setWF_empty
  | newSet vs => exact (pset_ofList_spec P vs).1
  | set k _ ih => exact (pset_set_spec P _ ih k).1
  | delete k _ ih => exact (pset_delete_spec P _ ih k).1
  | union _ _ ih1 ih2 => exact (pset_union_spec P _ _ ih1 ih2).1
  | difference _ _ ih1 ih2 => exact (pset_difference_spec P _ _ ih1 ih2).1
  | ofJSON vs => exact (pset_ofJSON_spec P vs).1
  | ofYAML vs => exact (pset_ofYAML_spec P vs).1

/-- expressions over the `part.Set` API -/
inductive PMap.SetExpr where
  | zero
  | newSet (vs : List (List Nat))
  | set (e : SetExpr) (k : List Nat)
  | delete (e : SetExpr) (k : List Nat)
  | union (e e2 : SetExpr)
  | difference (e e2 : SetExpr)
  | ofJSON (vs : List (List Nat))
  | ofYAML (vs : List (List Nat))

def PMap.SetExpr.eval (P : ArtParams) : SetExpr → PSet
  | .zero => {}
  | .newSet vs => PSet.ofList P vs
  | .set e k => (e.eval P).set P k
  | .delete e k => (e.eval P).delete P k
  | .union e e2 => (e.eval P).union P (e2.eval P)
  | .difference e e2 => (e.eval P).difference P (e2.eval P)
  | .ofJSON vs => PSet.ofJSON P vs
  | .ofYAML vs => PSet.ofYAML P vs

/-- the mathematical set denoted by an expression -/
def PMap.SetExpr.denotes : SetExpr → List Nat → Prop
  | .zero, _ => False
  | .newSet vs, q => q ∈ vs
  | .set e k, q => q = k ∨ e.denotes q
  | .delete e k, q => q ≠ k ∧ e.denotes q
  | .union e e2, q => e.denotes q ∨ e2.denotes q
  | .difference e e2, q => e.denotes q ∧ ¬ e2.denotes q
  | .ofJSON vs, q => q ∈ vs
  | .ofYAML vs, q => q ∈ vs

/-- **every value built with the Set API is the mathematical set it denotes**: well formed,
    and (with `C17_set_all_strictly_ascending`, `C17_set_has_iff_mem`, `C17_set_len_is_length`)
    its iteration is THE strictly ascending enumeration of that set -/
theorem C17_set_expr_refines_reference (P : ArtParams) (e : SetExpr) :
    SetWF (e.eval P) ∧ ∀ q, q ∈ (e.eval P).all ↔ e.denotes q := by
  induction e with
  | zero => exact ⟨setWF_empty, fun q => by simp [SetExpr.eval, SetExpr.denotes, PSet.all]⟩
  | newSet vs => exact pset_ofList_spec P vs
  | set e k ih =>
    obtain ⟨w, m⟩ := pset_set_spec P _ ih.1 k
    exact ⟨w, fun q => by rw [SetExpr.eval, m, ih.2]; rfl⟩
  | delete e k ih =>
    obtain ⟨w, m⟩ := pset_delete_spec P _ ih.1 k
    refine ⟨w, fun q => ?_⟩
    rw [SetExpr.eval, m, List.mem_filter, ih.2]
    simp only [decide_eq_true_eq, SetExpr.denotes]
    exact And.comm
  | union e e2 ih ih2 =>
    obtain ⟨w, m⟩ := pset_union_spec P _ _ ih.1 ih2.1
    exact ⟨w, fun q => by rw [SetExpr.eval, m, ih.2, ih2.2]; rfl⟩
  | difference e e2 ih ih2 =>
    obtain ⟨w, m⟩ := pset_difference_spec P _ _ ih.1 ih2.1
    refine ⟨w, fun q => ?_⟩
    rw [SetExpr.eval, m, List.mem_filter, ih.2]
    simp only [decide_eq_true_eq, SetExpr.denotes, ih2.2]
  | ofJSON vs => exact pset_ofJSON_spec P vs
  | ofYAML vs => exact pset_ofYAML_spec P vs

/-! ## non-vacuity: concrete reachable values (empty key, keys that are prefixes of each
    other, overwrite of the singleton, FromMap over a singleton, a transaction that empties
    and refills, deletes down to the singleton and to the zero value) -/

def PMap.sampleOps : List PMap.Op :=
  [.set [1, 2] 10, .set [1, 2] 11, .set [] 20, .fromMap [([1], 30), ([1, 2], 12), ([7], 70)],
   .txn [.delete [7], .set [1, 2, 3] 40, .delete [9]], .recode, .delete [1]]

example : (sampleOps.foldl (stepMap Gen.artParams) {}).all = [([], 20), ([1, 2], 12), ([1, 2, 3], 40)] := by decide

example : sampleOps.foldl specMap [] = [([], 20), ([1, 2], 12), ([1, 2, 3], 40)] := by decide

example : ∀ op ∈ sampleOps, op.ok := by decide

example : MapCanon (sampleOps.foldl (stepMap Gen.artParams) {}) :=
  C17_reachable_canonical Gen.artParams sampleOps (by decide)

/-- all three representation states occur -/
example :
    (([.set [5] 1] : List PMap.Op).foldl (stepMap Gen.artParams) {}).rep = "single" ∧
    (([.set [5] 1, .set [6] 2, .delete [5]] : List PMap.Op).foldl (stepMap Gen.artParams) {}).all = [([6], 2)] ∧
    (([.set [5] 1, .set [6] 2, .delete [5]] : List PMap.Op).foldl (stepMap Gen.artParams) {}).single = some ([6], 2) ∧
    (([.set [5] 1, .set [6] 2] : List PMap.Op).foldl (stepMap Gen.artParams) {}).tree.isSome = true ∧
    (([.set [5] 1, .delete [5]] : List PMap.Op).foldl (stepMap Gen.artParams) {}).rep = "empty" := by decide

/-- a non-trivial reachable set, its union, difference and round trip -/
example :
    (PSet.ofList Gen.artParams [[3], [], [1, 2], [3]]).all = [[], [1, 2], [3]] ∧
    ((PSet.ofList Gen.artParams [[3], []]).union Gen.artParams (PSet.ofList Gen.artParams [[1], [3]])).all = [[], [1], [3]] ∧
    ((PSet.ofList Gen.artParams [[3], [], [1]]).difference Gen.artParams (PSet.ofList Gen.artParams [[1], [4]])).all = [[], [3]] ∧
    (PSet.ofJSON Gen.artParams [[], [1, 2], [3]]).equal (PSet.ofList Gen.artParams [[3], [], [1, 2], [3]]) = true := by
  decide

example : SetWF ((PSet.ofList Gen.artParams [[3], []]).union Gen.artParams (PSet.ofList Gen.artParams [[1], [3]])) :=
  C17_set_reachable_wf _ _ (.union (.newSet _) (.newSet _))

end Sdb
