import SdbModel.Model.StatusSet
import SdbModel.Generated.SliceParams
/-!
  C15 with several reconcilers per object (`reconciler.StatusSet`): "Its writes change nothing
  but the status of the object" — a reconciler's status write must leave the statuses of all
  OTHER reconcilers as they are — and the id logic the status write-back relies on: after
  `Pending()` every reconciler, also one that has never reported, sees Pending with the same
  fresh id.
-/
namespace Sdb
open SSet

/-- names strictly ascending (hence distinct): the representation invariant -/
def SSet.Sorted : List (Nat × Status) → Prop
  | [] => True
  | [_] => True
  | a :: b :: rest => a.1 < b.1 ∧ SSet.Sorted (b :: rest)

private theorem lookup_insertSorted (n m : Nat) (st : Status) (l : List (Nat × Status)) :
    lookup m (insertSorted n st l) = if m = n then (if lookup n l = none then some st else lookup n (insertSorted n st l)) else lookup m l := by
  induction l with
  | nil =>
    by_cases h : m = n
    · simp [insertSorted, lookup, h]
    · have : ¬ n = m := fun e => h e.symm
      simp [insertSorted, lookup, h, this]
  | cons p rest ih =>
    obtain ⟨k, s⟩ := p
    unfold insertSorted
    by_cases hlt : n < k
    · by_cases h : m = n
      · subst h
        have : ¬ k = m := by omega
        simp [hlt, lookup, this]
      · have : ¬ n = m := fun e => h e.symm
        simp [hlt, lookup, h, this]
    · simp only [hlt, if_false, lookup]
      by_cases hk : k = m
      · by_cases h : m = n
        · subst h; simp [hk]
        · simp [hk, h]
      · simp only [hk, if_false]
        rw [ih]
        by_cases h : m = n
        · subst h; simp [hk]
        · simp [h]

private theorem lookup_none_of_not_any (n : Nat) (l : List (Nat × Status)) (h : l.any (·.1 = n) = false) : lookup n l = none := by
  induction l with
  | nil => rfl
  | cons p rest ih =>
    obtain ⟨k, s⟩ := p
    simp only [List.any_cons, Bool.or_eq_false_iff, decide_eq_false_iff_not] at h
    simp [lookup, h.1, ih h.2]

private theorem lookup_insertSorted_same (n : Nat) (st : Status) (l : List (Nat × Status)) (h : lookup n l = none) :
    lookup n (insertSorted n st l) = some st := by
  induction l with
  | nil => simp [insertSorted, lookup]
  | cons p rest ih =>
    obtain ⟨k, s⟩ := p
    unfold insertSorted
    have hk : ¬ k = n := by intro e; simp [lookup, e] at h
    have hr : lookup n rest = none := by simpa [lookup, hk] using h
    by_cases hlt : n < k
    · simp [hlt, lookup]
    · simp [hlt, lookup, hk, ih hr]

private theorem lookup_map_replace (n m : Nat) (st : Status) (l : List (Nat × Status)) :
    lookup m (l.map fun p => if p.1 = n then (n, st) else p) =
      if m = n then (if l.any (·.1 = n) then some st else none) else lookup m l := by
  induction l with
  | nil => by_cases h : m = n <;> simp [lookup, h]
  | cons p rest ih =>
    obtain ⟨k, s⟩ := p
    simp only [List.map_cons, List.any_cons]
    by_cases hk : k = n
    · by_cases h : m = n
      · simp [hk, h, lookup]
      · have : ¬ n = m := fun e => h e.symm
        simp only [hk, if_true, lookup, this, if_false, h]
        rw [ih]; simp [h]
    · simp only [hk, if_false, lookup]
      by_cases hkm : k = m
      · have : ¬ m = n := by rw [← hkm]; exact hk
        simp [hkm, this]
      · simp only [hkm, if_false, decide_false, Bool.false_or]; exact ih

/-- **Set then Get**: a reconciler reads back the status it wrote -/
theorem C15_statusset_get_set_same (s : SS) (n : Nat) (st : Status) : (s.set n st).get n = st := by
  unfold SS.set SS.get
  by_cases h : s.statuses.any (·.1 = n) = true
  · simp only [h, if_true]
    rw [lookup_map_replace]; simp [h]
  · have h' : s.statuses.any (·.1 = n) = false := Bool.eq_false_iff.2 h
    simp only [h', Bool.false_eq_true, if_false]
    rw [lookup_insertSorted_same _ _ _ (lookup_none_of_not_any n _ h')]

/-- **A reconciler's status write leaves every other reconciler's status untouched** — also
    the answer for reconcilers that have not reported yet -/
theorem C15_statusset_get_set_other (s : SS) (n m : Nat) (st : Status) (h : m ≠ n) : (s.set n st).get m = s.get m := by
  unfold SS.set SS.get
  by_cases ha : s.statuses.any (·.1 = n) = true
  · simp only [ha, if_true]
    rw [lookup_map_replace]; simp [h]
  · have h' : s.statuses.any (·.1 = n) = false := Bool.eq_false_iff.2 ha
    simp only [h', Bool.false_eq_true, if_false]
    rw [lookup_insertSorted]; simp [h]

/-- `Set` keeps the set's own id (the id that tells a data change from a status change) -/
theorem C15_statusset_set_keeps_id (s : SS) (n : Nat) (st : Status) : (s.set n st).id = s.id := by
  unfold SS.set; split <;> rfl

private theorem lookup_map_pending (m i : Nat) (l : List (Nat × Status)) :
    lookup m (l.map fun p => (p.1, ({ kind := .pending, id := i } : Status))) =
      if l.any (·.1 = m) then some { kind := .pending, id := i } else none := by
  induction l with
  | nil => simp [lookup]
  | cons p rest ih =>
    obtain ⟨k, s⟩ := p
    by_cases hk : k = m
    · simp [lookup, hk]
    · simp only [List.map_cons, lookup, hk, if_false, List.any_cons, decide_false, Bool.false_or]; exact ih

/-- **After `Pending()` every reconciler sees Pending with the one fresh id** — those that had
    reported (whatever they had reported) and those that never did.  This is what lets each
    reconciler's status commit recognise "only statuses changed since I read the object". -/
theorem C15_statusset_pending_get (s : SS) (i m : Nat) : (s.pending i).get m = { kind := .pending, id := i } := by
  unfold SS.pending SS.get
  simp only
  rw [lookup_map_pending]
  by_cases h : s.statuses.any (·.1 = m) = true <;> simp [h]

theorem C15_statusset_pending_keeps_names (s : SS) (i : Nat) : (s.pending i).names = s.names := by
  simp [SS.pending, SS.names, List.map_map, Function.comp_def]

private theorem sorted_tail {a : Nat × Status} {l : List (Nat × Status)} (h : SSet.Sorted (a :: l)) : SSet.Sorted l := by
  cases l with
  | nil => trivial
  | cons b rest => exact h.2

private theorem sorted_insert (n : Nat) (st : Status) (l : List (Nat × Status)) (hs : SSet.Sorted l)
    (hn : l.any (·.1 = n) = false) : SSet.Sorted (insertSorted n st l) ∧
      ∀ lo, (∀ p ∈ l, lo < p.1) → lo < n → ∀ p ∈ insertSorted n st l, lo < p.1 := by
  induction l with
  | nil => exact ⟨trivial, by intro lo _ hlo p hp; simp [insertSorted] at hp; subst hp; exact hlo⟩
  | cons a rest ih =>
    obtain ⟨k, s⟩ := a
    simp only [List.any_cons, Bool.or_eq_false_iff, decide_eq_false_iff_not] at hn
    unfold insertSorted
    by_cases hlt : n < k
    · simp only [hlt, if_true]
      refine ⟨⟨hlt, hs⟩, ?_⟩
      intro lo hall hlo p hp
      rcases List.mem_cons.1 hp with rfl | hp
      · exact hlo
      · exact hall p hp
    · simp only [hlt, if_false]
      have hkn : k < n := by have := hn.1; omega
      obtain ⟨ih1, ih2⟩ := ih (sorted_tail hs) hn.2
      have hall : ∀ p ∈ rest, k < p.1 := by
        have gen : ∀ (l : List (Nat × Status)) (a : Nat × Status), SSet.Sorted (a :: l) → ∀ p ∈ l, a.1 < p.1 := by
          intro l
          induction l with
          | nil => intro a _ p hp; simp at hp
          | cons b r ihr =>
            intro a hsa p hp
            rcases List.mem_cons.1 hp with rfl | hp
            · exact hsa.1
            · exact Nat.lt_trans hsa.1 (ihr b hsa.2 p hp)
        exact gen rest (k, s) hs
      refine ⟨?_, ?_⟩
      · have hgt := ih2 k hall hkn
        cases hi : insertSorted n st rest with
        | nil => trivial
        | cons b r => exact ⟨hgt b (by rw [hi]; simp), by rw [← hi]; exact ih1⟩
      · intro lo hall2 hlo p hp
        rcases List.mem_cons.1 hp with rfl | hp
        · exact hall2 _ (by simp)
        · exact ih2 lo (fun q hq => hall2 q (by simp [hq])) hlo p hp

private theorem sorted_map_snd (f : Nat × Status → Status) (l : List (Nat × Status)) (hs : SSet.Sorted l) :
    SSet.Sorted (l.map fun p => (p.1, f p)) := by
  induction l with
  | nil => trivial
  | cons a rest ih =>
    cases rest with
    | nil => trivial
    | cons b r => exact ⟨hs.1, ih hs.2⟩

/-- the representation invariant (names strictly ascending, no name twice) is preserved by `Set` -/
theorem C15_statusset_set_sorted (s : SS) (n : Nat) (st : Status) (hs : SSet.Sorted s.statuses) :
    SSet.Sorted (s.set n st).statuses := by
  unfold SS.set
  by_cases h : s.statuses.any (·.1 = n) = true
  · simp only [h, if_true]
    have : (s.statuses.map fun p => if p.1 = n then (n, st) else p) =
        s.statuses.map fun p => (p.1, if p.1 = n then st else p.2) := by
      apply List.map_congr_left; intro p _; by_cases hp : p.1 = n <;> simp [hp]
    rw [this]; exact sorted_map_snd _ _ hs
  · have h' : s.statuses.any (·.1 = n) = false := Bool.eq_false_iff.2 h
    simp only [h', Bool.false_eq_true, if_false]
    exact (sorted_insert n st _ hs h').1

theorem C15_statusset_pending_sorted (s : SS) (i : Nat) (hs : SSet.Sorted s.statuses) : SSet.Sorted (s.pending i).statuses :=
  sorted_map_snd _ _ hs

/-- every value reachable from a new set by any sequence of `Set` / `Pending` keeps the invariant -/
theorem C15_statusset_reachable_sorted (id0 : Nat) (ops : List Op) :
    SSet.Sorted (ops.foldl SS.apply { id := id0 }).statuses := by
  suffices h : ∀ s : SS, SSet.Sorted s.statuses → SSet.Sorted (ops.foldl SS.apply s).statuses from h _ trivial
  induction ops with
  | nil => intro s hs; exact hs
  | cons op ops ih =>
    intro s hs
    refine ih _ ?_
    cases op with
    | set n st => exact C15_statusset_set_sorted s n st hs
    | pending i => exact C15_statusset_pending_sorted s i hs

/-- a later write by the same reconciler wins; writes by different reconcilers commute as far
    as any reader can tell -/
theorem C15_statusset_set_set_same (s : SS) (n m : Nat) (a b : Status) : ((s.set n a).set n b).get m = (s.set n b).get m := by
  by_cases h : m = n
  · subst h; rw [C15_statusset_get_set_same, C15_statusset_get_set_same]
  · rw [C15_statusset_get_set_other _ _ _ _ h, C15_statusset_get_set_other _ _ _ _ h, C15_statusset_get_set_other _ _ _ _ h]

theorem C15_statusset_set_commute (s : SS) (n k m : Nat) (a b : Status) (hnk : n ≠ k) :
    ((s.set n a).set k b).get m = ((s.set k b).set n a).get m := by
  by_cases h1 : m = n
  · subst h1
    rw [C15_statusset_get_set_other _ _ _ _ hnk, C15_statusset_get_set_same, C15_statusset_get_set_same]
  · by_cases h2 : m = k
    · subst h2
      rw [C15_statusset_get_set_same, C15_statusset_get_set_other _ _ _ _ h1, C15_statusset_get_set_same]
    · rw [C15_statusset_get_set_other _ _ _ _ h2, C15_statusset_get_set_other _ _ _ _ h1,
          C15_statusset_get_set_other _ _ _ _ h1, C15_statusset_get_set_other _ _ _ _ h2]

/-- `Model.StatusSet` treats values as immutable; in the code a `StatusSet` value shares its
    `statuses` slice with every copy of the object it was read from.  Today's `Set` and `Pending`
    clone the slice — unconditionally, before the first write through it (regenerated) -/
theorem C15_statusset_value_semantics_source_fact : Gen.statusSetClonesBeforeWriting = true := by decide

/-! non-vacuity -/
example : (((({ id := 1 } : SS).set 5 ⟨.done, 2⟩).set 3 ⟨.error, 3⟩).set 5 ⟨.pending, 4⟩).statuses
    = [(3, ⟨.error, 3⟩), (5, ⟨.pending, 4⟩)] := by decide
example : ((({ id := 1 } : SS).set 5 ⟨.done, 2⟩).pending 9).get 7 = ⟨.pending, 9⟩ := by decide

end Sdb
