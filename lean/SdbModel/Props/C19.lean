import SdbModel.Model.Table
import SdbModel.Model.Conc
import SdbModel.Generated.Protocol

/-!
# C19 — Table initialization state is exact, monotone and signalled after visibility

> Initialized(snapshot) is true exactly when every initializer registered in
> transactions committed up to that snapshot has been marked done in a
> committed transaction, PendingInitializers lists exactly the others, and once
> true it stays true in all later snapshots unless a new initializer is
> registered.  The watch channel it returns closes only when the table becomes
> initialized and only after a snapshot showing it initialized can be obtained;
> registrations and marks made in aborted transactions have no effect on the
> committed state.

Sequential clauses over `Model.Table` (`TableS.init : Option (List String)` is
the list of pending initializers); the ordering clause over the protocol order
regenerated from write_txn.go.
-/
namespace Sdb
open Tbl

theorem C19_initialized_iff_no_pending (t : TableS) : tblInitialized t = true ↔ tblPending t = [] := by
  unfold tblInitialized tblPending
  cases t.init.getD [] <;> simp

theorem C19_register_makes_pending (t : TableS) (name : String) :
    name ∈ tblPending (tblRegister t name) ∧ tblInitialized (tblRegister t name) = false := by
  unfold tblPending tblRegister tblInitialized
  simp

theorem C19_markDone_removes_exactly (t : TableS) (name other : String) (h : other ≠ name) :
    name ∉ tblPending (tblMarkDone t name) ∧
    (other ∈ tblPending (tblMarkDone t name) ↔ other ∈ tblPending t) := by
  unfold tblPending tblMarkDone
  cases hi : t.init with
  | none => simp [hi]
  | some p => simp [List.mem_filter, h]

/-- marking is idempotent: a second mark (e.g. after an aborted one) changes nothing more -/
theorem C19_markDone_idempotent (t : TableS) (name : String) :
    tblMarkDone (tblMarkDone t name) name = tblMarkDone t name := by
  unfold tblMarkDone
  cases hi : t.init with
  | none => simp [hi]
  | some p => simp [List.filter_filter]

/-- Abort: the committed root (hence every later snapshot) is untouched -/
theorem C19_abort_has_no_effect (db : DB) : (db.abort).root = db.root := rfl

/-- a registration or mark inside a write transaction is invisible to the committed state -/
theorem C19_uncommitted_invisible (db : DB) (es : List TableS) :
    ({ db with wtxn := some es } : DB).root = db.root := rfl

/-- Commit: a locked table whose pending list became empty becomes initialized for good
    (its init record is dropped), other tables keep their state -/
theorem C19_commit_init_rule (e cur : TableS) (hl : e.locked = true) :
    let r := (DB.commit { root := [cur], wtxn := some [e] }).root
    r.map tblPending = [tblPending e] ∧
    (tblPending e = [] → r.map (·.init) = [none]) := by
  simp only [DB.commit, List.zip_cons_cons, List.zip_nil_right, List.map_cons, List.map_nil, hl, if_true]
  constructor
  · unfold tblPending
    cases hi : e.init with
    | none => simp
    | some p => cases p <;> simp
  · intro hp
    unfold tblPending at hp
    cases hi : e.init with
    | none => simp
    | some p =>
      simp [hi] at hp
      subst hp
      simp

/-- once initialized, a table stays initialized under any write that does not register -/
theorem C19_monotone_under_markDone (t : TableS) (name : String) (h : tblInitialized t = true) :
    tblInitialized (tblMarkDone t name) = true := by
  unfold tblInitialized tblMarkDone at *
  cases hi : t.init with
  | none => simp [hi]
  | some p =>
    simp [hi] at h ⊢
    subst h
    simp

/-! ## ordering: the init channel is closed only after the new root is visible -/

def actIndex (l : List Conc.Act) (a : Conc.Act) : Nat := l.findIdx (· == a)

/-- in the Commit read off the current source, the root store precedes the
    closing of the init channels (and the collection of the channels happens
    under the root lock, before the store) -/
theorem C19_init_signalled_after_visibility :
    actIndex Gen.protocol.commit .storeRoot < actIndex Gen.protocol.commit .closeInit ∧
    actIndex Gen.protocol.commit .collectInit < actIndex Gen.protocol.commit .storeRoot ∧
    actIndex Gen.protocol.commit .closeInit < Gen.protocol.commit.length := by decide

/-- in Model.Conc the init channel of a table is closed by `closeInit` only,
    which runs after `storeRoot` of the same commit: at the moment it is closed
    the stored root has no init record for that table any more -/
theorem C19_collectInit_clears_record (st : Conc.State) (th : Conc.Thread) (i : Nat)
    (hi : i ∈ th.locked) (e : Conc.TableV) (he : th.newRoot[i]? = some e)
    (hw : e.initWatch ≠ 0) (hp : e.initPending = false) :
    let th' := (Conc.doAct st th .collectInit).2
    e.initWatch ∈ th'.initToClose ∧ ((th'.newRoot[i]?).map (·.initWatch)) = some 0 := by
  simp only [Conc.doAct]
  constructor
  · simp only [List.mem_filterMap]
    refine ⟨i, hi, ?_⟩
    have : Conc.getT th.newRoot i = e := by
      unfold Conc.getT; simp [List.getD, he]
    simp [this, hw, hp]
  · simp only [List.getElem?_mapIdx, he, Option.map_some]
    simp [hi, hw, hp]

/-! ## non-vacuity -/
example : tblInitialized (tblMarkDone (tblRegister {} "a") "a") = true := by decide
example : tblPending (tblRegister (tblRegister {} "a") "b") = ["a", "b"] := by decide

end Sdb
