import SdbModel.Model.Table
/-! # C19 — theorems under construction (see DESIGN.md section 4) -/
namespace Sdb
end Sdb
