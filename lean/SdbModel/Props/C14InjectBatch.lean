import SdbModel.Props.C14Inject
import SdbModel.Props.C15Inject
import SdbModel.Props.C14Batch
import SdbModel.Lemmas.ReconcilerInjectBatch

/-!
# C14 / C15 (batch mode) — with user writes landing WHILE `UpdateBatch` runs

> For any history of inserts, updates and deletes on the reconciled table and
> any pattern of failing Update/Delete operations, once operations stop failing
> and the table stops changing the reconciler reaches, within a bounded number
> of retry periods, a state where the target equals the table (…).  No object is
> forgotten, whatever the round size, rate limits, batch or single operations,
> or retry timing.

> The reconciler marks an object Done or Error only for the version it
> actually passed to Update: if the object was changed or deleted while the
> operation ran, the stale result is dropped (…).  Its writes change
> nothing but the status of the object (…).

The batch counterparts of `Props/C14Inject.lean` and `Props/C15Inject.lean`,
over `Model.ReconcilerBatch` (`roundB`: the changes of a round are collected,
`DeleteBatch` runs, then `UpdateBatch`, during which the writes queued in
`R.injects` land; retries run through the single operations), with the SAME
invariant `JWInv` and the same hypothesis on `touch` writes (`roundSafeB`):
`C14_inject_batch_update_batch_is_loop` (the update batch with landing writes is
the loop of the single `processSingle`), `C14_inject_batch_inv_round` …
`C14_inject_batch_inv_reachable` (single and batch rounds mixed at will),
`C14_inject_batch_nothing_forgotten`, `C14_inject_batch_converges_after_writes_stop`,
`C15_inject_batch_no_status_for_unprocessed_version`,
`C15_inject_batch_only_status_written`, `C15_inject_batch_deleted_stays_deleted`.
-/
namespace Sdb
open Rec

/-- `UpdateBatch` with writes landing during the Updates, followed by the loop that
    records the results, is the loop of the single-operation `processSingle` over
    the collected entries -/
theorem C14_inject_batch_update_batch_is_loop (x : R) (us : List BEntry) :
    x.updateBatch us = us.foldl (fun (x : R) (e : BEntry) => x.processSingle e.1 e.2 false) x := updateBatch_eqP x us

/-! ## the reachable states -/

/-- the states reachable with single and batch rounds mixed at will and writes queued
    to land from inside Updates (the steps of `C14InjReachable` and their batch counterparts) -/
inductive C14InjBatchReachable : R → Prop
  | init (c : Cfg) : C14InjBatchReachable { cfg := c }
  | put {r : R} (id data : Nat) : C14InjBatchReachable r → C14InjBatchReachable (r.userPut id data)
  | del {r : R} (id : Nat) : C14InjBatchReachable r → C14InjBatchReachable (r.delObj id)
  | touch {r : R} (id : Nat) : C14InjBatchReachable r → (∀ o, r.get id = some o → o.kind ≠ .error) → C14InjBatchReachable (r.touch id)
  | fail {r : R} (l : List Nat) : C14InjBatchReachable r → C14InjBatchReachable { r with failing := l }
  | inject {r : R} (k : Nat) (a : Inject) : C14InjBatchReachable r → C14InjBatchReachable { r with injects := r.injects ++ [(k, a)] }
  | round {r : R} : C14InjBatchReachable r → r.roundSafe → C14InjBatchReachable r.round
  | roundB {r : R} : C14InjBatchReachable r → r.roundSafeB → C14InjBatchReachable r.roundB
  | fire {r : R} : C14InjBatchReachable r → C14InjBatchReachable r.fireTimer
  | tick {r : R} (t : Nat) : C14InjBatchReachable r → r.now ≤ t → C14InjBatchReachable { r with now := t }
  | quiesce {r : R} (fuel : Nat) : C14InjBatchReachable r → r.quiesceSafe fuel → C14InjBatchReachable (r.quiesce fuel)
  | advance {r : R} (ms fuel : Nat) : C14InjBatchReachable r → r.advanceSafe ms fuel → C14InjBatchReachable (r.advance ms fuel)
  | quiesceB {r : R} (fuel : Nat) : C14InjBatchReachable r → r.quiesceSafeB fuel → C14InjBatchReachable (r.quiesceB fuel)
  | advanceB {r : R} (ms fuel : Nat) : C14InjBatchReachable r → r.advanceSafeB ms fuel → C14InjBatchReachable (r.advanceB ms fuel)

/-- the invariant `JWInv` of `Props/C14Inject.lean` is preserved by **one batch round
    with arbitrary writes landing during its update batch and its retries**
    (`put` / `del`: any; `touch`: not on an Error object, `roundSafeB`), … -/
theorem C14_inject_batch_inv_round (r : R) (h : JWInv r) (hs : r.roundSafeB) : JWInv r.roundB := h.roundB hs

/-- the hypothesis holds outright when only `put` / `del` writes are queued; a batch round queues nothing new -/
theorem C14_inject_batch_no_touch_is_safe (r : R) (hn : NoTouch r.injects) :
    r.roundSafeB ∧ NoTouch r.roundB.injects ∧ (∀ fuel, r.quiesceSafeB fuel) :=
  ⟨(roundB_safe_of_noTouch r hn).1, (roundB_safe_of_noTouch r hn).2.noTouch hn, fun fuel => quiesceSafeB_of_noTouch fuel r hn⟩

/-- … by one batch round with only `put` / `del` writes queued (no hypothesis at all), … -/
theorem C14_inject_batch_inv_round_put_del (r : R) (h : JWInv r) (hn : NoTouch r.injects) : JWInv r.roundB :=
  h.roundB (roundB_safe_of_noTouch r hn).1

/-- … by running the batch loop until it goes idle or the fuel ends, … -/
theorem C14_inject_batch_inv_quiesce (r : R) (fuel : Nat) (h : JWInv r) (hs : r.quiesceSafeB fuel) : JWInv (r.quiesceB fuel) :=
  h.quiesceBS fuel hs

/-- … and by letting time pass. -/
theorem C14_inject_batch_inv_advance (r : R) (ms fuel : Nat) (h : JWInv r) (hs : r.advanceSafeB ms fuel) :
    JWInv (r.advanceB ms fuel) := h.advanceBS ms fuel hs

/-- with only `put` / `del` writes queued `quiesceB` and `advanceB` need no hypothesis -/
theorem C14_inject_batch_inv_quiesce_advance_put_del (r : R) (h : JWInv r) (hn : NoTouch r.injects) (ms fuel : Nat) :
    JWInv (r.quiesceB fuel) ∧ JWInv (r.advanceB ms fuel) := ⟨(h.quiesceB hn fuel).1, (h.advanceB hn ms fuel).1⟩

/-- hence it holds in every state reachable with single and batch rounds and writes during Updates -/
theorem C14_inject_batch_inv_reachable {r : R} (h : C14InjBatchReachable r) : JWInv r := by
  induction h with
  | init c => exact JWInv.init c
  | put id data _ ih => exact ih.userPut id data
  | del id _ ih => exact ih.delObj id
  | touch id _ hne ih => exact ih.touch id hne
  | fail l _ ih => exact ih.setFailing l
  | inject k a _ ih => exact ih.setInjects _
  | round _ hs ih => exact ih.round hs
  | roundB _ hs ih => exact ih.roundB hs
  | fire _ ih => exact ih.fireTimer
  | tick t _ ht ih => exact ih.setNow t ht
  | quiesce fuel _ hs ih => exact ih.quiesceS fuel hs
  | advance ms fuel _ hs ih => exact ih.advanceS ms fuel hs
  | quiesceB fuel _ hs ih => exact ih.quiesceBS fuel hs
  | advanceB ms fuel _ hs ih => exact ih.advanceBS ms fuel hs

/-- **nothing is forgotten** between any two (single or batch) rounds, whatever landed
    during the Updates: the statement of `C14_inv_nothing_forgotten` -/
theorem C14_inject_batch_nothing_forgotten {r : R} (h : C14InjBatchReachable r) :
    (∀ o ∈ r.objs,
      (o.kind = .done ∧ lastCall r.log o.id = some ⟨"U", o.id, o.data, true⟩) ∨
      ((o.kind = .pending ∨ o.kind = .refreshing) ∧ o.rev > r.itRev) ∨
      (o.kind = .error ∧ ∃ it ∈ r.items, it.id = o.id ∧ it.delete = false ∧ it.rev = o.rev ∧ it.inQueue = true ∧
        it.retryAt ≤ r.now + r.cfg.maxB)) ∧
    (∀ d ∈ r.dels,
      d.2 > r.itDelRev ∨
      (∃ it ∈ r.items, it.id = d.1.id ∧ it.delete = true ∧ it.inQueue = true ∧ it.retryAt ≤ r.now + r.cfg.maxB) ∨
      (∃ c, lastCall r.log d.1.id = some c ∧ c.op = "D" ∧ c.ok = true)) :=
  C14_inject_inv_nothing_forgotten (C14_inject_batch_inv_reachable h)

/-! ## convergence once the user stopped writing -/

/-- **progress** of the batch loop once nothing fails and nothing is queued to land -/
theorem C14_inject_batch_round_decreases_measure {r : R} (h : JWInv r) (hf : r.failing = []) (hinj : r.injects = [])
    (hrs : 1 ≤ r.cfg.roundSize) (htr : r.triggered = true) : Mz r.roundB < Mz r :=
  mz_roundBJ h.rinv h.q hf hinj hrs htr

/-- **convergence of the batch loop once the user stopped writing, also during Updates**:
    the statement of `C14_inject_converged_quiesce` for `quiesceB`; the final state satisfies
    `WInv`, so every theorem of `Props/C14Batch.lean` applies from there on -/
theorem C14_inject_batch_converged_quiesce {r : R} (h : JWInv r) (hf : r.failing = []) (hinj : r.injects = [])
    (hrs : 1 ≤ r.cfg.roundSize) (T fuel : Nat) (hT : r.now + r.cfg.maxB < T)
    (hfuel : 3 * (2 * r.objs.length + r.dels.length + 2 * r.items.length) + 2 < fuel) :
    let f := ({ r with now := T } : R).quiesceB fuel
    f.triggered = false ∧
    (∀ o ∈ f.objs, o.kind = .done ∧ lastCall f.log o.id = some ⟨"U", o.id, o.data, true⟩) ∧
    (∀ d ∈ f.dels, ∃ c, lastCall f.log d.1.id = some c ∧ c.op = "D" ∧ c.ok = true) ∧
    f.items = [] ∧ f.lowWatermark = 0 ∧ WInv f := by
  intro f
  have h0 : JSInv (r.now + r.cfg.maxB) ({ r with now := T } : R) := (h.toJSInv hf hinj).setNow T (by omega)
  have hidle := h0.quiesceB_idle (r := { r with now := T }) hrs fuel (by have := mz_le_sizes r; exact Nat.lt_of_le_of_lt this hfuel)
  obtain ⟨h1, e1, _⟩ := h0.quiesceB fuel
  obtain ⟨c1, c2, c3, c4⟩ := h1.idle_converged (by rw [e1]; exact hT) hidle
  have hw : JWInv ({ r with now := T } : R) := h.setNow T (by omega)
  have hW : WInv f := ((hw.quiesceB (noTouch_nil hinj) fuel).1).toWInv_of_idle (quiesceB_injects_nil fuel _ hinj) hidle
  exact ⟨hidle, c1, c2, c3, c4, hW⟩

/-- the corollary for the reachable states -/
theorem C14_inject_batch_converges_after_writes_stop {r : R} (h : C14InjBatchReachable r) (hf : r.failing = [])
    (hinj : r.injects = []) (hrs : 1 ≤ r.cfg.roundSize) (T fuel : Nat) (hT : r.now + r.cfg.maxB < T)
    (hfuel : 3 * (2 * r.objs.length + r.dels.length + 2 * r.items.length) + 2 < fuel) :
    let f := ({ r with now := T } : R).quiesceB fuel
    f.triggered = false ∧
    (∀ o ∈ f.objs, o.kind = .done ∧ lastCall f.log o.id = some ⟨"U", o.id, o.data, true⟩) ∧
    (∀ d ∈ f.dels, ∃ c, lastCall f.log d.1.id = some c ∧ c.op = "D" ∧ c.ok = true) ∧
    f.items = [] ∧ f.lowWatermark = 0 ∧ WInv f :=
  C14_inject_batch_converged_quiesce (C14_inject_batch_inv_reachable h) hf hinj hrs T fuel hT hfuel

/-! ## C15 in batch mode -/

/-- **no status for a version that was not processed**, in every state reachable with
    single and batch rounds and writes during Updates -/
theorem C15_inject_batch_no_status_for_unprocessed_version {r : R} (h : C14InjBatchReachable r) :
    ∀ o ∈ r.objs,
      (o.kind = .done → lastCall r.log o.id = some ⟨"U", o.id, o.data, true⟩ ∧ ∀ it ∈ r.items, it.id ≠ o.id) ∧
      (o.kind = .error → ∃ it ∈ r.items, it.id = o.id ∧ it.delete = false ∧ it.rev = o.rev ∧ it.inQueue = true ∧
        it.obj.id = o.id ∧ it.obj.data = o.data ∧ it.obj.other = o.other) ∧
      ((o.kind = .pending ∨ o.kind = .refreshing) → o.rev > r.itRev) := by
  have hw := C14_inject_batch_inv_reachable h
  intro o ho
  obtain ⟨a, b, c⟩ := hw.rinv.inv.objOK o ho
  refine ⟨a, fun he => ?_, fun hn => ?_⟩
  · rcases b he with ⟨it, hit, b1, b2, b3, b4⟩ | ⟨res, hres, _⟩
    · obtain ⟨i1, _, _, i4⟩ := hw.rinv.inv.itemOK it hit
      rcases (i4 b2).2.2 o ho b1.symm with ⟨_, _, e3, e4⟩ | ⟨e1, _⟩
      · exact ⟨it, hit, b1, b2, b3, b4, by omega, e3.symm, e4.symm⟩
      · omega
    · cases hres
  · rcases c hn with c | ⟨res, hres, _⟩
    · exact c
    · cases hres

/-- **nothing but the status is written by a batch round**: the statement of
    `C15_inject_only_status_written` for `roundB` -/
theorem C15_inject_batch_only_status_written {r : R} (h : C14InjBatchReachable r) (hs : r.roundSafeB) :
    ∃ lp : List (Nat × Inject),
      (lp ++ r.roundB.injects).Perm r.injects ∧
      (∀ k, lp.filter (fun (a : Nat × Inject) => a.1 = k) ++ r.roundB.injects.filter (fun (a : Nat × Inject) => a.1 = k) =
        r.injects.filter (fun (a : Nat × Inject) => a.1 = k)) ∧
      r.roundB.objs.map (fun o => (o.id, o.data, o.other)) =
        (lp.foldl (fun (x : R) (a : Nat × Inject) => x.applyInject a.2) r).objs.map (fun o => (o.id, o.data, o.other)) ∧
      r.roundB.dels.map (fun d => (d.1.id, d.1.data, d.1.other)) =
        (lp.foldl (fun (x : R) (a : Nat × Inject) => x.applyInject a.2) r).dels.map (fun d => (d.1.id, d.1.data, d.1.other)) := by
  obtain ⟨lp, hp, ht, ho⟩ := (C14_inject_batch_inv_reachable h).rinv.roundB_sim hs
  exact ⟨lp, hp, ho, ht.1, ht.2⟩

/-- **a deleted object is not re-created by the status commit of a batch round** -/
theorem C15_inject_batch_deleted_stays_deleted {r : R} (h : C14InjBatchReachable r) (hs : r.roundSafeB) :
    ∃ lp : List (Nat × Inject), (lp ++ r.roundB.injects).Perm r.injects ∧
      ∀ id, (∀ o ∈ (lp.foldl (fun (x : R) (a : Nat × Inject) => x.applyInject a.2) r).objs, o.id ≠ id) →
        r.roundB.get id = none := by
  obtain ⟨lp, hp, _, h1, _⟩ := C15_inject_batch_only_status_written h hs
  refine ⟨lp, hp, fun id hid => ?_⟩
  rw [get_eq_none_iff]
  intro o ho e
  have hm : (o.id, o.data, o.other) ∈ r.roundB.objs.map (fun o => (o.id, o.data, o.other)) := List.mem_map.2 ⟨o, ho, rfl⟩
  rw [h1] at hm
  obtain ⟨o', ho', e'⟩ := List.mem_map.1 hm
  simp only [Prod.mk.injEq] at e'
  exact hid o' ho' (by omega)

/-! ## non-vacuity -/

/-- objects 1, 2, 3 are put; the test's UpdateBatch Inserts a new version of object 3 during
    Update(1), Deletes object 2 during Update(2) itself, and a foreign writer touches object 1
    during Update(2) -/
def c14jbEx : R :=
  { (((({} : R).userPut 1 7).userPut 2 8).userPut 3 9) with
    injects := [(1, Inject.put 3 99), (2, Inject.del 2), (2, Inject.touch 1)] }

example : C14InjBatchReachable c14jbEx :=
  .inject 2 (.touch 1) (.inject 2 (.del 2) (.inject 1 (.put 3 99) (.put 3 9 (.put 2 8 (.put 1 7 (.init {}))))))

example : c14jbEx.roundSafeB := by decide +kernel

/-- after the batch round: object 1 is Done for the data it was updated with and keeps the
    foreign write, object 2 stays deleted, object 3 carries the user's data and is Pending
    (its Update ran with the old data 9; the result was dropped) -/
example : c14jbEx.roundB.objs.map (fun o => (o.id, o.data, o.kind, o.other)) = [(1, 7, .done, 1), (3, 99, .pending, 0)] ∧
    c14jbEx.roundB.dels.map (fun d => d.1.id) = [2] ∧ c14jbEx.roundB.injects = [] ∧
    c14jbEx.roundB.log = [⟨"U", 1, 7, true⟩, ⟨"U", 2, 8, true⟩, ⟨"U", 3, 9, true⟩] := by decide +kernel

/-- … and the batch loop converges from there: target = table -/
example : ((({ c14jbEx.roundB with now := 2000 } : R).quiesceB 30).objs.map fun o => (o.id, o.data, o.kind)) = [(1, 7, .done), (3, 99, .done)] ∧
    c14jbEx.roundB.failing = [] ∧ c14jbEx.roundB.injects = [] ∧
    3 * (2 * c14jbEx.roundB.objs.length + c14jbEx.roundB.dels.length + 2 * c14jbEx.roundB.items.length) + 2 < 30 := by
  decide +kernel

end Sdb
