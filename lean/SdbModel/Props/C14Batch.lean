import SdbModel.Model.ReconcilerBatch
import SdbModel.Props.C14
import SdbModel.Lemmas.ReconcilerBatchMeasure
import SdbModel.Lemmas.ReconcilerBatchSim

/-!
# C14 (batch mode) — Reconciler converges: target equals table once failures stop

> For any history of inserts, updates and deletes on the reconciled table and
> any pattern of failing Update/Delete operations, once operations stop failing
> and the table stops changing the reconciler reaches, within a bounded number
> of retry periods, a state where the target equals the table (…).  No object is
> forgotten, whatever the round size, rate limits, batch or single operations,
> or retry timing.

> "… the last successful operation for every live object is an Update with its
> latest contents and its status is Done, and the last operation for every
> removed object is a successful Delete."

The batch counterparts of the theorems of `Props/C14.lean`, proved over
`Model.ReconcilerBatch` (`roundB`, `quiesceB`, `advanceB`: the changes of a round
are collected, `DeleteBatch` runs before `UpdateBatch`, retries run through the
single operations; no writes from inside an Update: `injects = []`), for ALL
reachable states, configurations and fuels, with the SAME invariant `WInv`, the
SAME measure `Mz` and the same hypotheses as in single mode:

* `WInv` is preserved by a batch round, by `quiesceB` and by `advanceB`, hence it
  holds in every state reachable by user writes / deletes / failure switches /
  batch rounds / time (`C14_batch_inv_round` … `C14_batch_inv_reachable`; also for
  reconcilers that mix both kinds of rounds, `C14_batch_inv_reachable_mixed`);
* nothing is forgotten (`C14_batch_nothing_forgotten`, `C14_batch_idle_nothing_forgotten`,
  `C14_batch_timer_armed_for_head`);
* progress: once nothing fails every triggered batch round decreases `Mz`
  (`C14_batch_round_decreases_measure`, `C14_batch_quiesce_goes_idle`);
* convergence: `C14_batch_converged_quiesce` (any size, any round size ≥ 1),
  `C14_batch_converged_when_idle` (through `advanceB`, any fuel),
  `C14_batch_converged_advance_partial` (≤ 10 queued retries, the model's inner fuel 64);
* the two modes (no writes from inside an Update): from the same state a batch
  round and a single round make the same calls up to their order — the batch
  round the Deletes first, then the Updates, then the retries — and end in the same
  state up to the order of the log and the unobservable timer/tie ghost: same
  objects and statuses, same retries, same iterator, same wake-up condition
  (`C14_batch_round_same_calls`, `C14_batch_round_calls_deletes_first`,
  `C14_batch_round_same_state`, `C14_batch_round_same_statuses`,
  `C14_batch_round_same_wakeup`); a batch round that is handed no changes IS the
  single round (`C14_batch_round_without_changes_eq_single`).

As in single mode the one hypothesis beyond the configuration's validity is
that no foreign writer touches an object while its status is Error (finding K4,
`C14_touch_on_error_refuted`).
-/
namespace Sdb
open Rec

/-! ## the invariant of the reachable states -/

/-- the states of a reconciler with batch operations reachable from the initial
    one by user writes and deletes, foreign status writes on objects whose status
    is NOT Error (finding K4), switching failures on and off, running the batch
    loop (`quiesceB`, any fuel) and letting time pass (`advanceB`, any fuel) -/
inductive C14BatchReachable : R → Prop
  | init (c : Cfg) : C14BatchReachable { cfg := c }
  | put {r : R} (id data : Nat) : C14BatchReachable r → C14BatchReachable (r.userPut id data)
  | del {r : R} (id : Nat) : C14BatchReachable r → C14BatchReachable (r.delObj id)
  | touch {r : R} (id : Nat) : C14BatchReachable r → (∀ o, r.get id = some o → o.kind ≠ .error) → C14BatchReachable (r.touch id)
  | fail {r : R} (l : List Nat) : C14BatchReachable r → C14BatchReachable { r with failing := l }
  | quiesceB {r : R} (fuel : Nat) : C14BatchReachable r → C14BatchReachable (r.quiesceB fuel)
  | advanceB {r : R} (ms fuel : Nat) : C14BatchReachable r → C14BatchReachable (r.advanceB ms fuel)

/-- the same with single and batch rounds mixed at will (a superset of both
    `C14Reachable` and `C14BatchReachable`) -/
inductive C14MixedReachable : R → Prop
  | init (c : Cfg) : C14MixedReachable { cfg := c }
  | put {r : R} (id data : Nat) : C14MixedReachable r → C14MixedReachable (r.userPut id data)
  | del {r : R} (id : Nat) : C14MixedReachable r → C14MixedReachable (r.delObj id)
  | touch {r : R} (id : Nat) : C14MixedReachable r → (∀ o, r.get id = some o → o.kind ≠ .error) → C14MixedReachable (r.touch id)
  | fail {r : R} (l : List Nat) : C14MixedReachable r → C14MixedReachable { r with failing := l }
  | round {r : R} : C14MixedReachable r → C14MixedReachable r.fireTimer.round
  | roundB {r : R} : C14MixedReachable r → C14MixedReachable r.fireTimer.roundB
  | quiesce {r : R} (fuel : Nat) : C14MixedReachable r → C14MixedReachable (r.quiesce fuel)
  | advance {r : R} (ms fuel : Nat) : C14MixedReachable r → C14MixedReachable (r.advance ms fuel)
  | quiesceB {r : R} (fuel : Nat) : C14MixedReachable r → C14MixedReachable (r.quiesceB fuel)
  | advanceB {r : R} (ms fuel : Nat) : C14MixedReachable r → C14MixedReachable (r.advanceB ms fuel)

/-- the invariant `WInv` of `Props/C14.lean` (bookkeeping `InvL`, iterator position
    `Sync`, exact retry timer and retry times `QInv`) is preserved by one batch
    reconciliation round, … -/
theorem C14_batch_inv_round (r : R) (h : WInv r) : WInv r.roundB := h.roundB

/-- … by running the batch loop until it goes idle or the fuel ends, … -/
theorem C14_batch_inv_quiesce (r : R) (fuel : Nat) (h : WInv r) : WInv (r.quiesceB fuel) := h.quiesceB fuel

/-- … and by letting time pass. -/
theorem C14_batch_inv_advance (r : R) (ms fuel : Nat) (h : WInv r) : WInv (r.advanceB ms fuel) := h.advanceB ms fuel

/-- hence it holds in every state reachable with batch operations (the steps
    other than the rounds are those of `C14_inv_userPut` … `C14_inv_set_failing`) -/
theorem C14_batch_inv_reachable {r : R} (h : C14BatchReachable r) : WInv r := by
  induction h with
  | init c => exact C14_inv_initial c
  | put id data _ ih => exact C14_inv_userPut _ id data ih
  | del id _ ih => exact C14_inv_delObj _ id ih
  | touch id _ hne ih => exact C14_inv_touch_not_error _ id ih hne
  | fail l _ ih => exact C14_inv_set_failing _ l ih
  | quiesceB fuel _ ih => exact ih.quiesceB fuel
  | advanceB ms fuel _ ih => exact ih.advanceB ms fuel

/-- … and in every state reachable with single and batch rounds mixed at will -/
theorem C14_batch_inv_reachable_mixed {r : R} (h : C14MixedReachable r) : WInv r := by
  induction h with
  | init c => exact C14_inv_initial c
  | put id data _ ih => exact C14_inv_userPut _ id data ih
  | del id _ ih => exact C14_inv_delObj _ id ih
  | touch id _ hne ih => exact C14_inv_touch_not_error _ id ih hne
  | fail l _ ih => exact C14_inv_set_failing _ l ih
  | round _ ih => exact ih.fireTimer.round
  | roundB _ ih => exact ih.fireTimer.roundB
  | quiesce fuel _ ih => exact ih.quiesce fuel
  | advance ms fuel _ ih => exact ih.advance ms fuel
  | quiesceB fuel _ ih => exact ih.quiesceB fuel
  | advanceB ms fuel _ ih => exact ih.advanceB ms fuel

/-- **nothing is forgotten** (between any two batch rounds): in every state
    reachable with batch operations every live object is Done and the last call
    logged for it is a successful Update with its current data, or it still is
    to be delivered to the loop (Pending, revision beyond the iterator), or it is
    Error and a retry of exactly this version is queued, due within the maximal
    backoff; every retained deletion is still to be delivered, or its Delete is
    queued for a retry, or the last call logged for it is a successful Delete -/
theorem C14_batch_nothing_forgotten {r : R} (h : C14BatchReachable r) :
    (∀ o ∈ r.objs,
      (o.kind = .done ∧ lastCall r.log o.id = some ⟨"U", o.id, o.data, true⟩) ∨
      ((o.kind = .pending ∨ o.kind = .refreshing) ∧ o.rev > r.itRev) ∨
      (o.kind = .error ∧ ∃ it ∈ r.items, it.id = o.id ∧ it.delete = false ∧ it.rev = o.rev ∧ it.inQueue = true ∧
        it.retryAt ≤ r.now + r.cfg.maxB)) ∧
    (∀ d ∈ r.dels,
      d.2 > r.itDelRev ∨
      (∃ it ∈ r.items, it.id = d.1.id ∧ it.delete = true ∧ it.inQueue = true ∧ it.retryAt ≤ r.now + r.cfg.maxB) ∨
      (∃ c, lastCall r.log d.1.id = some c ∧ c.op = "D" ∧ c.ok = true)) :=
  C14_inv_nothing_forgotten (C14_batch_inv_reachable h)

/-- the same after any further batch round, from any state satisfying the invariant -/
theorem C14_batch_round_nothing_forgotten {r : R} (h : WInv r) :
    (∀ o ∈ r.roundB.objs,
      (o.kind = .done ∧ lastCall r.roundB.log o.id = some ⟨"U", o.id, o.data, true⟩) ∨
      ((o.kind = .pending ∨ o.kind = .refreshing) ∧ o.rev > r.roundB.itRev) ∨
      (o.kind = .error ∧ ∃ it ∈ r.roundB.items, it.id = o.id ∧ it.delete = false ∧ it.rev = o.rev ∧ it.inQueue = true ∧
        it.retryAt ≤ r.roundB.now + r.roundB.cfg.maxB)) ∧
    (∀ d ∈ r.roundB.dels,
      d.2 > r.roundB.itDelRev ∨
      (∃ it ∈ r.roundB.items, it.id = d.1.id ∧ it.delete = true ∧ it.inQueue = true ∧ it.retryAt ≤ r.roundB.now + r.roundB.cfg.maxB) ∨
      (∃ c, lastCall r.roundB.log d.1.id = some c ∧ c.op = "D" ∧ c.ok = true)) :=
  C14_inv_nothing_forgotten h.roundB

/-- in an IDLE state of the batch loop (states returned by `quiesceB` with enough
    fuel) nothing is left to be delivered: every live object is Done with the
    target or Error with a queued retry, every retained deletion was applied or
    has a queued retry -/
theorem C14_batch_idle_nothing_forgotten {r : R} (h : C14BatchReachable r) (hidle : r.triggered = false) :
    (∀ o ∈ r.objs,
      (o.kind = .done ∧ lastCall r.log o.id = some ⟨"U", o.id, o.data, true⟩) ∨
      (o.kind = .error ∧ ∃ it ∈ r.items, it.id = o.id ∧ it.delete = false ∧ it.rev = o.rev ∧ it.inQueue = true)) ∧
    (∀ d ∈ r.dels,
      (∃ c, lastCall r.log d.1.id = some c ∧ c.op = "D" ∧ c.ok = true) ∨
      (∃ it ∈ r.items, it.id = d.1.id ∧ it.delete = true ∧ it.inQueue = true)) :=
  C14_idle_nothing_forgotten (C14_batch_inv_reachable h) hidle

/-- the retry timer is armed exactly for the earliest queued retry (or has fired
    for one that is due); no retry is due later than the maximal backoff from now -/
theorem C14_batch_timer_armed_for_head {r : R} (h : C14BatchReachable r) :
    (∀ hd, r.head = some hd → r.timer = .armed hd.retryAt ∨ (r.timer = .fired ∧ hd.retryAt ≤ r.now)) ∧
    (r.head = none → r.timer = .none ∨ r.timer = .stopped) ∧
    (∀ it ∈ r.items, it.inQueue = true ∧ it.retryAt ≤ r.now + r.cfg.maxB) :=
  C14_inv_timer_armed_for_head (C14_batch_inv_reachable h)

/-! ## progress: the batch loop goes idle (explicit fuel) -/

/-- **progress.**  Once nothing fails, every triggered batch round strictly
    decreases the measure `Mz` of the outstanding work (the same measure as in
    single mode); the round size must be positive, as `reconciler.Config.validate` demands. -/
theorem C14_batch_round_decreases_measure {r : R} (h : WInv r) (hf : r.failing = []) (hrs : 1 ≤ r.cfg.roundSize)
    (htr : r.triggered = true) : Mz r.roundB < Mz r :=
  mz_roundB h.rinv h.q hf hrs htr

/-- hence `quiesceB` reaches an idle state when its fuel exceeds
    3·(2·#objects + #retained deletions + 2·#retry items) + 2, whatever the round size -/
theorem C14_batch_quiesce_goes_idle {r : R} (h : WInv r) (hf : r.failing = []) (hrs : 1 ≤ r.cfg.roundSize) (fuel : Nat)
    (hfuel : 3 * (2 * r.objs.length + r.dels.length + 2 * r.items.length) + 2 < fuel) :
    (r.quiesceB fuel).triggered = false :=
  ((h.toSInv hf).quiesceB_idle hrs fuel (by have := mz_le_sizes r; omega)).1

/-! ## convergence -/

/-- **convergence, any size (batch mode).**  From any state satisfying the invariant
    in which nothing fails any more: at any time `T` later than the maximal
    backoff from now, running the batch loop with fuel beyond 3·(2·#objects +
    #deletions + 2·#retries) + 2 ends idle with target = table: every live object
    is Done and its last logged call is a successful Update with its current
    data, the last logged call of every retained deletion is a successful
    Delete, no retry is left, the retry low-watermark is 0.  Any round size ≥ 1,
    any backoff. -/
theorem C14_batch_converged_quiesce {r : R} (h : WInv r) (hf : r.failing = []) (hrs : 1 ≤ r.cfg.roundSize) (T fuel : Nat)
    (hT : r.now + r.cfg.maxB < T)
    (hfuel : 3 * (2 * r.objs.length + r.dels.length + 2 * r.items.length) + 2 < fuel) :
    let f := ({ r with now := T } : R).quiesceB fuel
    f.triggered = false ∧
    (∀ o ∈ f.objs, o.kind = .done ∧ lastCall f.log o.id = some ⟨"U", o.id, o.data, true⟩) ∧
    (∀ d ∈ f.dels, ∃ c, lastCall f.log d.1.id = some c ∧ c.op = "D" ∧ c.ok = true) ∧
    f.items = [] ∧ f.lowWatermark = 0 := by
  intro f
  have h0 : SInv (r.now + r.cfg.maxB) ({ r with now := T } : R) := (h.toSInv hf).setNow T (by omega)
  have hidle := (h0.quiesceB_idle (r := { r with now := T }) hrs fuel (by have := mz_le_sizes r; exact Nat.lt_of_le_of_lt this hfuel)).1
  obtain ⟨h1, e1⟩ := h0.quiesceB fuel
  exact ⟨hidle, idle_converged h1.rinv h1.q (by rw [e1]; exact hT) hidle⟩

/-- **target equals table (batch mode, through `advanceB`).**  From any state
    satisfying the invariant in which no operation fails any more, let more than
    the maximal backoff pass (`advanceB ms fuel`, `ms > maxB`, no further user
    action).  If the loop has gone idle by then, every live object is Done and
    the last call logged for it is a successful Update with its current data,
    the last call logged for every retained deletion is a successful Delete, no
    retry is left and the retry low-watermark is 0.  Any round size, backoff, fuel. -/
theorem C14_batch_converged_when_idle {r : R} (h : WInv r) (hf : r.failing = []) (ms fuel : Nat) (hms : r.cfg.maxB < ms)
    (hidle : (r.advanceB ms fuel).triggered = false) :
    (∀ o ∈ (r.advanceB ms fuel).objs, o.kind = .done ∧
      lastCall (r.advanceB ms fuel).log o.id = some ⟨"U", o.id, o.data, true⟩) ∧
    (∀ d ∈ (r.advanceB ms fuel).dels, ∃ c, lastCall (r.advanceB ms fuel).log d.1.id = some c ∧ c.op = "D" ∧ c.ok = true) ∧
    (r.advanceB ms fuel).items = [] ∧ (r.advanceB ms fuel).lowWatermark = 0 := by
  obtain ⟨hs, hnow⟩ := (h.toSInv hf).advanceB ms fuel
  exact idle_converged hs.rinv hs.q (by rw [hnow]; omega) hidle

/-- `advanceB` (which wakes the loop at every timer instant, each time with the
    model's inner fuel 64) ends idle when started in an idle state with at most
    10 queued retries and fuel beyond 6·#retries.  PARTIAL in the same sense as
    `C14_advance_goes_idle_partial`: states with more queued retries need more than
    the inner fuel 64 that `Model.ReconcilerBatch.advanceB` hard-codes;
    `C14_batch_converged_quiesce` has no such bound. -/
theorem C14_batch_advance_goes_idle_partial {r : R} (h : WInv r) (hf : r.failing = []) (hrs : 1 ≤ r.cfg.roundSize)
    (hidle : r.triggered = false) (ms fuel : Nat) (h64 : 6 * r.items.length < 64) (hfuel : 6 * r.items.length < fuel) :
    (r.advanceB ms fuel).triggered = false := by
  have hm := h.rinv.mz_idle hidle
  exact (h.toSInv hf).advanceB_idle hrs hidle ms fuel (by omega) (by omega)

/-- **convergence through `advanceB`** (PARTIAL in the same sense): from an idle
    state satisfying the invariant in which nothing fails any more, with at most
    10 queued retries, after more than the maximal backoff (`fuel > 6·#retries`)
    the batch loop is idle and target = table -/
theorem C14_batch_converged_advance_partial {r : R} (h : WInv r) (hf : r.failing = []) (hrs : 1 ≤ r.cfg.roundSize)
    (hidle : r.triggered = false) (ms fuel : Nat) (hms : r.cfg.maxB < ms)
    (h64 : 6 * r.items.length < 64) (hfuel : 6 * r.items.length < fuel) :
    (r.advanceB ms fuel).triggered = false ∧
    (∀ o ∈ (r.advanceB ms fuel).objs, o.kind = .done ∧
      lastCall (r.advanceB ms fuel).log o.id = some ⟨"U", o.id, o.data, true⟩) ∧
    (∀ d ∈ (r.advanceB ms fuel).dels, ∃ c, lastCall (r.advanceB ms fuel).log d.1.id = some c ∧ c.op = "D" ∧ c.ok = true) ∧
    (r.advanceB ms fuel).items = [] ∧ (r.advanceB ms fuel).lowWatermark = 0 := by
  have hi := C14_batch_advance_goes_idle_partial h hf hrs hidle ms fuel h64 hfuel
  exact ⟨hi, C14_batch_converged_when_idle h hf ms fuel hms hi⟩

/-! ## the two modes -/

/-- a batch round that is handed no changes by the iterator (it only commits and
    processes due retries, which go through the single operations in both
    modes) is exactly the single-mode round -/
theorem C14_batch_round_without_changes_eq_single (r : R) (h : r.nextChanges.2 = []) : r.roundB = r.round :=
  roundB_eq_round_of_nil r h

/-- **same calls.**  From any state satisfying the invariant a batch round and a
    single round both only append to the call log, and the calls the batch round
    appends are a permutation of those the single round appends (the same
    multiset of Update / Delete calls, with the same data and outcomes) -/
theorem C14_batch_round_same_calls {r : R} (h : WInv r) :
    ∃ cs cb, r.round.log = r.log ++ cs ∧ r.roundB.log = r.log ++ cb ∧ cs.Perm cb :=
  round_calls_perm h.rinv

/-- the calls of a batch round in order: the Deletes of the delete batch, then the
    Updates of the update batch (`ds`, `us`: the collected entries), then the
    calls `rt` made for due retries -/
theorem C14_batch_round_calls_deletes_first {r : R} (h : WInv r) :
    ∃ (ds us : List (RObj × Nat)) (rt : List Call), r.roundB.log = r.log ++
      (ds.map (fun e => (⟨"D", e.1.id, e.1.data, !r.isFailing e.1.id⟩ : Call)) ++
       us.map (fun e => (⟨"U", e.1.id, e.1.data, !r.isFailing e.1.id⟩ : Call)) ++ rt) :=
  roundB_log_prefix h.rinv

/-- **same state.**  The state after a single round is the state after a batch
    round from the same state, except for the call log (a permutation,
    `C14_batch_round_same_calls`), the retry timer (equivalent,
    `C14_batch_round_same_wakeup`) and the tie ghost -/
theorem C14_batch_round_same_state {r : R} (h : WInv r) :
    r.round = { r.roundB with log := r.round.log, timer := r.round.timer, tieSeen := r.round.tieSeen } ∧
    r.round.log.Perm r.roundB.log := by
  obtain ⟨l, t, s, e, hp⟩ := round_sim h.rinv
  have e1 : r.round.log = l := by rw [e]; generalize r.roundB = y; rfl
  have e2 : r.round.timer = t := by rw [e]; generalize r.roundB = y; rfl
  have e3 : r.round.tieSeen = s := by rw [e]; generalize r.roundB = y; rfl
  rw [e1, e2, e3]
  exact ⟨e, hp⟩

/-- **same statuses**: in particular the objects with their statuses, the retained
    deletions, the queued retries (same retry times), the iterator positions, the
    pending flag and the reported progress agree -/
theorem C14_batch_round_same_statuses {r : R} (h : WInv r) :
    r.roundB.objs = r.round.objs ∧ r.roundB.dels = r.round.dels ∧ r.roundB.items = r.round.items ∧
    r.roundB.itRev = r.round.itRev ∧ r.roundB.itDelRev = r.round.itDelRev ∧ r.roundB.pending = r.round.pending ∧
    r.roundB.tableRev = r.round.tableRev ∧ r.roundB.refreshedAt = r.round.refreshedAt ∧
    r.roundB.progressRev = r.round.progressRev ∧ r.roundB.progressLW = r.round.progressLW ∧
    r.roundB.lowWatermark = r.round.lowWatermark := by
  obtain ⟨l, t, s, e, _⟩ := round_sim h.rinv
  rw [e]
  generalize r.roundB = y
  exact ⟨rfl, rfl, rfl, rfl, rfl, rfl, rfl, rfl, rfl, rfl, rfl⟩

/-- **same wake-up**: after the round the loop has something to wake up for in one
    mode iff it has in the other -/
theorem C14_batch_round_same_wakeup {r : R} (h : WInv r) : r.roundB.triggered = r.round.triggered := by
  obtain ⟨l, t, s, e, _⟩ := round_sim h.rinv
  have h1 := h.round.q
  rw [e] at h1 ⊢
  exact (triggered_asm h1 h.roundB.q).symm

/-! ## non-vacuity -/

/-- a state reachable with batch operations, non-trivial: one object Done, one Error with a queued retry, one deletion applied -/
def c14BEx : R :=
  let r : R := { (((({} : R).userPut 1 7).userPut 2 8).userPut 3 9) with failing := [2] }
  ((r.quiesceB 10).delObj 3).quiesceB 10

example : C14BatchReachable c14BEx :=
  .quiesceB 10 (.del 3 (.quiesceB 10 (.fail [2] (.put 3 9 (.put 2 8 (.put 1 7 (.init {})))))))

example : WInv c14BEx := C14_batch_inv_reachable
  (.quiesceB 10 (.del 3 (.quiesceB 10 (.fail [2] (.put 3 9 (.put 2 8 (.put 1 7 (.init {}))))))))

example : c14BEx.triggered = false ∧ c14BEx.objs.map (·.kind) = [.done, .error] ∧ c14BEx.items.length = 1 ∧ c14BEx.dels.length = 1 := by
  decide +kernel

/-- a batch round with a delete batch and an update batch, one Delete and one Update failing:
    the calls are the Deletes first, then the Updates -/
example :
    let r : R := ((((({} : R).userPut 1 7).userPut 2 8).quiesceB 10).delObj 1).delObj 2
    let r : R := { ((r.userPut 3 9).userPut 4 5) with failing := [2, 4] }
    (r.roundB.log.drop 2).map (fun c => (c.op, c.id, c.ok)) = [("D", 1, true), ("D", 2, false), ("U", 3, true), ("U", 4, false)] ∧
    r.roundB.objs.map (fun o => (o.id, o.kind)) = [(3, .done), (4, .error)] ∧ r.roundB.items.map (fun i => (i.id, i.delete)) = [(2, true), (4, false)] := by
  decide +kernel

/-- the two modes really differ in the order of the calls: an Update written before a Delete is
    called after it by the batch round (and `C14_batch_round_same_calls` is about a non-trivial permutation) -/
example :
    let r : R := (((({} : R).userPut 1 7).quiesceB 10).userPut 3 9).delObj 1
    (r.round.log.drop 1).map (fun c => (c.op, c.id)) = [("U", 3), ("D", 1)] ∧
    (r.roundB.log.drop 1).map (fun c => (c.op, c.id)) = [("D", 1), ("U", 3)] ∧
    r.roundB.objs = r.round.objs ∧ r.roundB.items.map (fun i => (i.id, i.retryAt)) = r.round.items.map (fun i => (i.id, i.retryAt)) := by
  decide +kernel

/-- the hypotheses of `C14_batch_converged_when_idle` are satisfiable: after the failure stops the loop is idle at the end -/
example : (({ c14BEx with failing := [] } : R).advanceB 1001 10).triggered = false ∧
    (({ c14BEx with failing := [] } : R).advanceB 1001 10).objs.map (·.kind) = [.done, .done] := by decide +kernel

/-- the hypotheses of `C14_batch_converged_advance_partial` hold of the example state -/
example : ({ c14BEx with failing := [] } : R).triggered = false ∧ 1 ≤ ({ c14BEx with failing := [] } : R).cfg.roundSize ∧
    6 * ({ c14BEx with failing := [] } : R).items.length < 64 ∧ ({ c14BEx with failing := [] } : R).cfg.maxB < 1001 := by decide +kernel

/-- … and of `C14_batch_converged_quiesce` (fuel 30 > 3·(2·2 + 1 + 2·1) + 2 = 23), and of
    `C14_batch_round_decreases_measure` (a triggered state in which nothing fails) -/
example : 3 * (2 * c14BEx.objs.length + c14BEx.dels.length + 2 * c14BEx.items.length) + 2 < 30 ∧ c14BEx.now + c14BEx.cfg.maxB < 5000 ∧
    ({ c14BEx with failing := [], now := 5000 } : R).fireTimer.triggered = true := by
  decide +kernel

/-- `C14_batch_round_without_changes_eq_single` is not vacuous: a triggered state whose round finds no changes -/
example : ({ c14BEx with failing := [], now := 5000 } : R).fireTimer.nextChanges.2 = [] := by decide +kernel

end Sdb
