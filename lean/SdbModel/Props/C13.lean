import SdbModel.Model.Lpm
/-! # C13 — theorems under construction (see DESIGN.md section 4) -/
namespace Sdb
end Sdb
