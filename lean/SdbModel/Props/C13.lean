import SdbModel.Lemmas.LpmMap

/-!
# C13 — LPM trie: exact longest-prefix semantics and persistence

> The longest-prefix-match trie behaves as a map from bit prefixes: Insert, Delete, LookupExact and Len
> agree with a map; Lookup of a full-length key returns the value of the longest stored prefix covering
> it and a stored prefix always looks itself up; Prefix(q) yields exactly the stored prefixes covered by
> q; full iteration and LowerBound(q) yield entries in ascending (prefix bits, prefix length) order,
> LowerBound starting at the first entry not below q.  Committed tries are persistent: later
> transactions, committed or abandoned, never alter what an earlier trie or iterator returns.

Theorems over `Model.Lpm` (the byte-level model of lpm/trie.go and lpm/iterator.go: `insert`,
`delete`/`compress`/`deleteRoot`, `lookup`, `lookupExact`, `prefixNode`, `lowerBound`, `preorder`,
with `longestMatch`/`getBitAt`/`maskData` following the Go code byte by byte), for ALL tries satisfying
the invariant `Lpm.WF` and ALL canonical keys `Lpm.Canon d p` (the decoded form of an `EncodeLPMKey`
result, any prefix length including 0).  `WF` holds for the empty trie and is preserved by `insert` and
`deleteRoot`, hence for every trie reachable by any operation sequence (`C13_reachable_refines_map`),
which also shows that the trie together with its size counter equals the reference map run in lockstep.
The abstraction of a trie is `preorder t`, the list of real entries in iteration order.  "Covers" is
`Lpm.Covers` (not longer, and its bits are the first bits of the other); the iteration order is
`Lpm.keyLt`: compare the prefix bits, zero-extended, lexicographically and then the prefix lengths (a
strict total order on canonical keys, `C13_order_strict_total`; it is NOT the bytewise order of the
encoded keys, whose trailing length bytes would put 10.0.0.0/16 before 10.0.0.0/8).  Persistence is by
construction in this model (tries are immutable values); the copy-on-write stamp discipline that makes
the Go code persistent is the subject of Model.Cow / C01.
-/
namespace Sdb
open Lpm

variable {α : Type}

/-! ## keys -/

/-- `maskData` (the data part of `EncodeLPMKey`) produces canonical keys from any byte string that is
    long enough, for every prefix length -/
theorem C13_encoded_key_canonical (data : List Nat) (plen : Nat) (hb : ∀ b ∈ data, b < 256)
    (hl : (plen + 7) / 8 ≤ data.length) : Canon (maskData data plen) plen :=
  canon_maskData data plen hb hl

/-- canonical keys are determined by their prefix length and their first `p` bits -/
theorem C13_key_determined_by_bits (a b : List Nat) (p : Nat) (ha : Canon a p) (hb : Canon b p)
    (h : Agree a b p) : a = b :=
  canon_ext a b p ha hb h

/-! ## the invariant -/

theorem C13_wf_empty : WF (.nil : Trie α) := trivial

theorem C13_insert_preserves_wf (t : Trie α) (hwf : WF t) (d : List Nat) (p : Nat) (hq : Canon d p) (v : α) :
    WF (insert d p v t 0).1 :=
  insert_root_wf t hwf d p hq v

theorem C13_delete_preserves_wf (t : Trie α) (hwf : WF t) (d : List Nat) (p : Nat) (hq : Canon d p)
    (t' : Trie α) (v : α) (h : deleteRoot d p t = some (t', v)) : WF t' :=
  (deleteRoot_some d p hq t hwf t' v h).2.1

/-- every stored key is canonical and stored once -/
theorem C13_stored_keys_canonical_unique (t : Trie α) (hwf : WF t) (d : List Nat) (p : Nat) (v : α)
    (hm : (d, p, v) ∈ preorder t) : Canon d p ∧ ∀ v', (d, p, v') ∈ preorder t → v' = v :=
  ⟨mem_canon hwf hm, fun _ hm' => key_unique hwf hm' hm⟩

/-! ## the trie is a map: LookupExact, Insert, Delete, Len -/

/-- **LookupExact is map lookup** in the entry list -/
theorem C13_lookupExact_iff_stored (t : Trie α) (hwf : WF t) (d : List Nat) (p : Nat) (hq : Canon d p) (v : α) :
    lookupExact d p t 0 = some v ↔ (d, p, v) ∈ preorder t :=
  lookupExact_root t hwf d p hq v

/-- the entries after Insert: the new binding, and every binding of another key -/
theorem C13_insert_entries (t : Trie α) (hwf : WF t) (d : List Nat) (p : Nat) (hq : Canon d p) (v : α)
    (d' : List Nat) (p' : Nat) (v' : α) :
    (d', p', v') ∈ preorder (insert d p v t 0).1 ↔
      (d' = d ∧ p' = p ∧ v' = v) ∨ (¬ (d' = d ∧ p' = p) ∧ (d', p', v') ∈ preorder t) :=
  insert_mem d p v hq t 0 hwf (pre_zero _ _ _) d' p' v'

theorem C13_get_after_insert (t : Trie α) (hwf : WF t) (d : List Nat) (p : Nat) (hq : Canon d p) (v : α) :
    lookupExact d p (insert d p v t 0).1 0 = some v :=
  lookupExact_insert_same t hwf d p hq v

theorem C13_get_other_after_insert (t : Trie α) (hwf : WF t) (d : List Nat) (p : Nat) (hq : Canon d p) (v : α)
    (d' : List Nat) (p' : Nat) (hq' : Canon d' p') (hne : ¬ (d' = d ∧ p' = p)) :
    lookupExact d' p' (insert d p v t 0).1 0 = lookupExact d' p' t 0 :=
  lookupExact_insert_other t hwf d p hq v d' p' hq' hne

/-- the size delta of Insert is 1 exactly for a new key, and the number of entries grows by it -/
theorem C13_insert_size_delta (t : Trie α) (hwf : WF t) (d : List Nat) (p : Nat) (hq : Canon d p) (v : α) :
    (insert d p v t 0).2 = (if (lookupExact d p t 0).isNone then 1 else 0) ∧
    (preorder (insert d p v t 0).1).length = (preorder t).length + (insert d p v t 0).2 :=
  ⟨insert_delta d p v hq t 0 hwf (pre_zero _ _ _), insert_length d p v t 0⟩

/-- Delete reports "not found" exactly for keys that are not stored, and then changes nothing
    (the model returns no new trie) -/
theorem C13_delete_absent (t : Trie α) (hwf : WF t) (d : List Nat) (p : Nat) (hq : Canon d p) :
    deleteRoot d p t = none ↔ lookupExact d p t 0 = none :=
  deleteRoot_none d p hq t hwf

/-- Delete of a stored key returns its value, removes exactly that entry (the iteration order of the
    others is kept) and the number of entries drops by one -/
theorem C13_delete_present (t : Trie α) (hwf : WF t) (d : List Nat) (p : Nat) (hq : Canon d p)
    (t' : Trie α) (v : α) (h : deleteRoot d p t = some (t', v)) :
    lookupExact d p t 0 = some v ∧
    preorder t' = (preorder t).filter (fun e => !(decide (e.1 = d ∧ e.2.1 = p))) ∧
    (preorder t').length + 1 = (preorder t).length :=
  ⟨(deleteRoot_some d p hq t hwf t' v h).1, (deleteRoot_some d p hq t hwf t' v h).2.2,
    delete_length t hwf d p hq t' v h⟩

theorem C13_get_after_delete (t : Trie α) (hwf : WF t) (d : List Nat) (p : Nat) (hq : Canon d p)
    (t' : Trie α) (v : α) (h : deleteRoot d p t = some (t', v)) : lookupExact d p t' 0 = none :=
  lookupExact_delete_same t hwf d p hq t' v h

theorem C13_get_other_after_delete (t : Trie α) (hwf : WF t) (d : List Nat) (p : Nat) (hq : Canon d p)
    (t' : Trie α) (v : α) (h : deleteRoot d p t = some (t', v))
    (d' : List Nat) (p' : Nat) (hq' : Canon d' p') (hne : ¬ (d' = d ∧ p' = p)) :
    lookupExact d' p' t' 0 = lookupExact d' p' t 0 :=
  lookupExact_delete_other t hwf d p hq t' v h d' p' hq' hne

/-! ## Lookup: longest covering prefix -/

/-- **Lookup of a full-length key** (a key at least as long as every stored prefix, e.g. a /32 in an
    IPv4 table): the result is the value of a stored prefix that covers the key and is the longest
    such; "not found" means that no stored prefix covers the key. -/
theorem C13_lookup_longest_prefix (t : Trie α) (hwf : WF t) (d : List Nat) (p : Nat) (hq : Canon d p)
    (hfull : ∀ e ∈ preorder t, e.2.1 ≤ p) :
    match lookup d p t 0 none with
    | some v => ∃ d' p', (d', p', v) ∈ preorder t ∧ Covers d' p' d p ∧
        ∀ e ∈ preorder t, Covers e.1 e.2.1 d p → e.2.1 ≤ p'
    | none => ∀ e ∈ preorder t, ¬ Covers e.1 e.2.1 d p := by
  rcases lookup_spec d p hq t 0 none hwf (pre_zero _ _ _) (Or.inl hfull) with ⟨h1, h2⟩ | ⟨d', p', v', h1, h2, h3, h4⟩
  · rw [h1]; exact h2
  · rw [h1]; exact ⟨d', p', h2, h3, h4⟩

/-- conversely, the longest stored prefix covering a full-length key is what Lookup returns -/
theorem C13_lookup_finds_longest (t : Trie α) (hwf : WF t) (d : List Nat) (p : Nat) (hq : Canon d p)
    (hfull : ∀ e ∈ preorder t, e.2.1 ≤ p) (d' : List Nat) (p' : Nat) (v' : α)
    (hm : (d', p', v') ∈ preorder t) (hc : Covers d' p' d p)
    (hlong : ∀ e ∈ preorder t, Covers e.1 e.2.1 d p → e.2.1 ≤ p') :
    lookup d p t 0 none = some v' := by
  rcases lookup_spec d p hq t 0 none hwf (pre_zero _ _ _) (Or.inl hfull) with ⟨_, h2⟩ | ⟨d'', p'', v'', h1, h2, h3, h4⟩
  · exact absurd hc (h2 _ hm)
  · have e1 : p' ≤ p'' := h4 _ hm hc
    have e2 : p'' ≤ p' := hlong _ h2 h3
    have hp : p'' = p' := by omega
    subst hp
    have hd : d'' = d' :=
      canon_ext _ _ _ (mem_canon hwf h2) (mem_canon hwf hm) (h3.2.trans hc.2.symm)
    subst hd
    rw [h1, key_unique hwf h2 hm]

/-- **a stored prefix always looks itself up** (no restriction on the other stored prefixes) -/
theorem C13_lookup_stored_prefix (t : Trie α) (hwf : WF t) (d : List Nat) (p : Nat) (hq : Canon d p) (v : α)
    (hm : (d, p, v) ∈ preorder t) : lookup d p t 0 none = some v :=
  lookup_self d p hq t 0 none hwf (pre_zero _ _ _) v hm

/-- **Lookup of an arbitrary key** (not required by the property, which speaks of full-length keys):
    if some node of the trie lies under the key's prefix - `Prefix(key)` is non-empty - Lookup returns
    the value slot of the topmost such node, whose prefix extends the key (so it covers the key only
    if it IS the key; the slot is empty for an imaginary node); otherwise it returns the longest
    stored prefix covering the key, or nothing if there is none. -/
theorem C13_lookup_any_key (t : Trie α) (hwf : WF t) (d : List Nat) (p : Nat) (hq : Canon d p) :
    match prefixNode d p t 0 with
    | .node pd pp pv _ _ => lookup d p t 0 none = pv ∧ Covers d p pd pp
    | .nil =>
      match lookup d p t 0 none with
      | some v => ∃ d' p', (d', p', v) ∈ preorder t ∧ Covers d' p' d p ∧
          ∀ e ∈ preorder t, Covers e.1 e.2.1 d p → e.2.1 ≤ p'
      | none => ∀ e ∈ preorder t, ¬ Covers e.1 e.2.1 d p := by
  cases hp : prefixNode d p t 0 with
  | node pd pp pv pc0 pc1 =>
    exact ⟨lookup_hit d p hq t 0 none hwf (pre_zero _ _ _) pd pp pv pc0 pc1 hp,
      prefixNode_root_covered d p hq t 0 hwf (pre_zero _ _ _) pd pp pv pc0 pc1 hp⟩
  | nil =>
    rcases lookup_spec d p hq t 0 none hwf (pre_zero _ _ _) (Or.inr hp) with
      ⟨h1, h2⟩ | ⟨d', p', v', h1, h2, h3, h4⟩
    · simp only [h1]; exact h2
    · simp only [h1]; exact ⟨d', p', h2, h3, h4⟩

/-! ## Prefix -/

/-- **Prefix(q) yields exactly the stored prefixes covered by q**, in iteration order -/
theorem C13_prefix_yields_covered (t : Trie α) (hwf : WF t) (d : List Nat) (p : Nat) (hq : Canon d p) :
    preorder (prefixNode d p t 0) = (preorder t).filter (fun e => decide (Covers d p e.1 e.2.1)) :=
  prefixNode_spec d p hq t 0 hwf (pre_zero _ _ _)

/-! ## iteration order, LowerBound -/

/-- the order is a strict total order on canonical keys -/
theorem C13_order_strict_total :
    (∀ (d : List Nat) (p : Nat), ¬ keyLt d p d p) ∧
    (∀ (d1 : List Nat) (p1 : Nat) (d2 : List Nat) (p2 : Nat) (d3 : List Nat) (p3 : Nat),
      keyLt d1 p1 d2 p2 → keyLt d2 p2 d3 p3 → keyLt d1 p1 d3 p3) ∧
    (∀ (d1 : List Nat) (p1 : Nat) (d2 : List Nat) (p2 : Nat), Canon d1 p1 → Canon d2 p2 →
      keyLt d1 p1 d2 p2 ∨ (d1 = d2 ∧ p1 = p2) ∨ keyLt d2 p2 d1 p1) :=
  ⟨keyLt_irrefl, fun _ _ _ _ _ _ h h' => keyLt_trans h h', fun _ _ _ _ h h' => keyLt_total h h'⟩

/-- **full iteration is strictly ascending** in (prefix bits, prefix length) -/
theorem C13_iteration_ascending (t : Trie α) (hwf : WF t) :
    (preorder t).Pairwise (fun e1 e2 => keyLt e1.1 e1.2.1 e2.1 e2.2.1) :=
  preorder_sorted t hwf

/-- **LowerBound(q) yields exactly the suffix of the iteration starting at the first entry not below q** -/
theorem C13_lowerBound_is_suffix (t : Trie α) (hwf : WF t) (d : List Nat) (p : Nat) (hq : Canon d p) :
    ∃ pre, preorder t = pre ++ lowerBound d p t 0 [] ∧
      (∀ e ∈ pre, keyLt e.1 e.2.1 d p) ∧ (∀ e ∈ lowerBound d p t 0 [], ¬ keyLt e.1 e.2.1 d p) := by
  obtain ⟨pre, suf, h1, h2, h3, h4⟩ := lowerBound_spec d p hq t 0 [] hwf (pre_zero _ _ _)
  simp only [List.flatMap_nil, List.append_nil] at h2
  rw [h2]
  exact ⟨pre, h1, h3, h4⟩

/-! ## arbitrary operation sequences -/

/-- **every reachable trie is well formed and equals the reference map**: starting from any state that
    represents a map `m` (in particular the empty trie and the empty map, `refines_empty`), after any
    sequence of Insert/Delete with canonical keys the trie is well formed, its size counter is the
    number of entries, and LookupExact agrees with the reference map on every key -/
theorem C13_reachable_refines_map (st : Trie α × Nat) (m : RefMap α) (h : Refines st m)
    (ops : List (Op α)) (hc : ∀ op ∈ ops, op.Canonical) :
    WF (runFrom st ops).1 ∧ (runFrom st ops).2 = (preorder (runFrom st ops).1).length ∧
    ∀ d p, Canon d p → lookupExact d p (runFrom st ops).1 0 = refRunFrom m ops (d, p) :=
  runFrom_refines ops st m h hc

/-- the iteration (hence every query above, which is expressed through it) is a function of the map
    alone: two well-formed tries with the same LookupExact results iterate identically, whatever
    operation sequences built them -/
theorem C13_iteration_determined_by_map (t1 t2 : Trie α) (h1 : WF t1) (h2 : WF t2)
    (h : ∀ d p, Canon d p → lookupExact d p t1 0 = lookupExact d p t2 0) : preorder t1 = preorder t2 :=
  preorder_determined t1 t2 h1 h2 h

theorem C13_reachable_from_empty (ops : List (Op α)) (hc : ∀ op ∈ ops, op.Canonical) :
    WF (runFrom (.nil, 0) ops).1 ∧ (runFrom (.nil, 0) ops).2 = (preorder (runFrom (.nil, 0) ops).1).length ∧
    ∀ d p, Canon d p → lookupExact d p (runFrom (.nil, 0) ops).1 0 = refRunFrom (fun _ => none) ops (d, p) :=
  runFrom_refines ops _ _ refines_empty hc

/-! ## non-vacuity: a reachable trie with an imaginary node, after a delete -/

private theorem canon_of_mask (d : List Nat) (p : Nat) (hb : ∀ b ∈ d, b < 256) (hl : (p + 7) / 8 ≤ d.length)
    (hm : maskData d p = d) : Canon d p := hm ▸ canon_maskData d p hb hl

private def exOps : List (Op Nat) :=
  [.ins [10] 8 1, .ins [10, 1] 16 2, .ins [10, 2] 16 3, .ins [] 0 9, .del [10] 8, .ins [10, 2, 128] 17 4]

private theorem exOps_canonical : ∀ op ∈ exOps, op.Canonical := by
  intro op hop
  simp only [exOps, List.mem_cons, List.not_mem_nil, or_false] at hop
  rcases hop with rfl | rfl | rfl | rfl | rfl | rfl <;>
    exact canon_of_mask _ _ (by decide) (by decide) (by decide)

/-- the hypotheses of all theorems above hold of this trie (it is reachable), it contains an imaginary
    node (`0a00/14*`), and the queries evaluate as the theorems say -/
example :
    WF (runFrom (.nil, 0) exOps).1 ∧
    dump (runFrom (.nil, 0) exOps).1 = "(/0 (0a00/14* (0a01/16 - -) (0a02/16 - (0a0280/17 - -))) -)" ∧
    (runFrom (.nil, 0) exOps).2 = 4 ∧
    preorder (runFrom (.nil, 0) exOps).1 = [([], 0, 9), ([10, 1], 16, 2), ([10, 2], 16, 3), ([10, 2, 128], 17, 4)] ∧
    (∀ e ∈ preorder (runFrom (.nil, 0) exOps).1, e.2.1 ≤ 24) ∧ Canon [10, 2, 200] 24 ∧
    lookup [10, 2, 200] 24 (runFrom (.nil, 0) exOps).1 0 none = some 4 ∧
    lookup [10, 3, 0] 24 (runFrom (.nil, 0) exOps).1 0 none = some 9 ∧
    preorder (prefixNode [10] 8 (runFrom (.nil, 0) exOps).1 0) =
      [([10, 1], 16, 2), ([10, 2], 16, 3), ([10, 2, 128], 17, 4)] ∧
    lowerBound [10, 2] 16 (runFrom (.nil, 0) exOps).1 0 [] = [([10, 2], 16, 3), ([10, 2, 128], 17, 4)] ∧
    (deleteRoot [10, 1] 16 (runFrom (.nil, 0) exOps).1).map (fun r => (dump r.1, r.2)) =
      some ("(/0 (0a02/16 - (0a0280/17 - -)) -)", 2) ∧
    deleteRoot [10, 3] 16 (runFrom (.nil, 0) exOps).1 = none :=
  ⟨(C13_reachable_from_empty exOps exOps_canonical).1, by decide, by decide, by decide, by decide,
    canon_of_mask _ _ (by decide) (by decide) (by decide), by decide, by decide, by decide, by decide,
    by decide, by decide⟩

/-! ## remark: Lookup with a key that is NOT full-length

The two theorems about `lookup` need the key to be at least as long as every stored prefix.  Without
that hypothesis the walk of `lpmLookup` (and of the model) does not compute the longest covering prefix:
a query shorter than a stored prefix that it covers returns THAT entry although it does not cover the
query, and a query that coincides with an imaginary node reports "not found" even when a shorter
stored prefix covers it. -/

example : lookup [10] 8 (insert [10, 1, 1] 24 7 (.nil : Trie Nat) 0).1 0 none = some 7 := by decide

example :
    let t := (runFrom (.nil, 0) ([.ins [10] 8 1, .ins [10, 1, 0] 24 2, .ins [10, 1, 1] 24 3] : List (Op Nat))).1
    dump t = "(0a/8 (0a0100/23* (0a0100/24 - -) (0a0101/24 - -)) -)" ∧
    lookup [10, 1, 0] 23 t 0 none = none ∧ lookupExact [10] 8 t 0 = some 1 := by decide

end Sdb
