import SdbModel.Model.WatchSet
import SdbModel.Generated.WSParams

/-!
# C20 — WatchSet.Wait returns exactly the closed members and keeps the rest

> WatchSet.Wait returns only channels that were added to the set and are closed,
> removes exactly the returned channels from the set and leaves all others in
> it.  It returns once at least one member is closed (waiting at most the settle
> time to gather further ones), does not return a result while no member is
> closed unless the context ends, and then reports the context's error.

Theorems over `Model.WatchSet.wait` for EVERY environment (close times, context
end), every settle time and EVERY oracle resolving the `reflect.Select` choices
(only required to pick a ready case, which Go's select guarantees).
-/
namespace Sdb
open WS

/-- the oracle models `reflect.Select`: it returns the index of a READY case -/
def OracleValid (o : Oracle) : Prop := ∀ t d ready, (o t d ready).valid d ready = true

private theorem closedBy_mono (e : Env) (c t u : Nat) (h : t ≤ u) (hc : e.closedBy c t = true) : e.closedBy c u = true := by
  unfold Env.closedBy at *
  split at hc
  · rename_i tc htc
    simp [htc] at hc ⊢; omega
  · simp at hc

private theorem doneBy_mono (d : Option Nat) (t u : Nat) (h : t ≤ u) (hc : doneBy d t = true) : doneBy d u = true := by
  unfold doneBy at *
  split at hc
  · simp at hc ⊢; omega
  · simp at hc

private theorem minList_mem (l : List Nat) (m : Nat) (h : minList l = some m) : m ∈ l := by
  induction l generalizing m with
  | nil => simp [minList] at h
  | cons x xs ih =>
    unfold minList at h
    split at h
    · rename_i m' hm'
      simp only [Option.some.injEq] at h
      have := ih m' hm'
      rcases Nat.le_total x m' with hx | hx
      · have : m = x := by omega
        simp [this]
      · have : m = m' := by omega
        rw [this]; exact List.mem_cons_of_mem _ ‹m' ∈ xs›
    · simp only [Option.some.injEq] at h; simp [h]

/-- what one select tells us: it wakes at or after `t`, and the pick is a ready case -/
private theorem select_spec (e : Env) (o : Oracle) (hv : OracleValid o) (chans : List Nat) (d : Option Nat) (t u : Nat) (p : Pick)
    (h : select e o chans d t = some (u, p)) :
    t ≤ u ∧ (match p with
      | .done => doneBy d u = true
      | .chan c => c ∈ chans ∧ e.closedBy c u = true) := by
  unfold select at h
  split at h
  · simp at h
  · rename_i w hw
    simp only [Option.some.injEq, Prod.mk.injEq] at h
    obtain ⟨h1, h2⟩ := h
    subst h1
    have hmem := minList_mem _ _ hw
    simp only [wakeTime, List.mem_filter] at hmem
    have hge : t ≤ w := by
      have := hmem.1
      unfold eventTimes at this
      simp only [List.mem_cons, List.mem_filter] at this
      rcases this with h | h
      · omega
      · have := h.2; simp at this; omega
    refine ⟨hge, ?_⟩
    have hval := hv w (doneBy d w) (chans.filter (e.closedBy · w))
    rw [h2] at hval
    cases p with
    | done => simpa [Pick.valid] using hval
    | chan c =>
      simp only [Pick.valid, List.contains_iff_mem, List.mem_filter] at hval
      simpa using hval

/-- invariant of the settle loop -/
private theorem settleLoop_spec (e : Env) (o : Oracle) (hv : OracleValid o) (d : Option Nat) (set : List Nat) :
    ∀ (fuel : Nat) (cases : List Nat) (t : Nat) (acc : List Nat),
      (∀ c ∈ cases, c ∈ set) → (∀ c ∈ acc, c ∈ set ∧ e.closedBy c t = true) →
      let r := settleLoop e o d fuel cases t acc
      t ≤ r.2 ∧ (∀ c ∈ r.1, c ∈ set ∧ e.closedBy c r.2 = true) ∧ (∀ c ∈ acc, c ∈ r.1) := by
  intro fuel
  induction fuel with
  | zero => intro cases t acc _ hacc; exact ⟨Nat.le_refl _, hacc, fun c h => h⟩
  | succ n ih =>
    intro cases t acc hcases hacc
    simp only [settleLoop]
    split
    · exact ⟨Nat.le_refl _, hacc, fun c h => h⟩
    · rename_i u hs
      have ⟨hge, _⟩ := select_spec e o hv cases d t u .done hs
      exact ⟨hge, fun c hc => ⟨(hacc c hc).1, closedBy_mono e c t u hge (hacc c hc).2⟩, fun c h => h⟩
    · rename_i u c hs
      have ⟨hge, hc1, hc2⟩ := select_spec e o hv cases d t u (.chan c) hs
      have := ih (cases.filter (· ≠ c)) u (acc ++ [c])
        (fun x hx => hcases x (List.mem_filter.mp hx).1)
        (fun x hx => by
          simp only [List.mem_append, List.mem_singleton] at hx
          rcases hx with hx | hx
          · exact ⟨(hacc x hx).1, closedBy_mono e x t u hge (hacc x hx).2⟩
          · subst hx; exact ⟨hcases _ hc1, hc2⟩)
      obtain ⟨h1, h2, h3⟩ := this
      exact ⟨by omega, h2, fun x hx => h3 x (List.mem_append_left _ hx)⟩

/-- **returned ⊆ added ∩ closed**, and the call does not return before it started -/
theorem C20_returned_members_closed (e : Env) (o : Oracle) (hv : OracleValid o) (set : List Nat) (settle t0 : Nat)
    (res : Result) (h : wait e o set settle t0 = some res) :
    t0 ≤ res.time ∧ ∀ c ∈ res.returned, c ∈ set ∧ e.closedBy c res.time = true := by
  unfold wait at h
  split at h
  · split at h
    · simp only [Option.some.injEq] at h; subst h; exact ⟨by simp; omega, by simp⟩
    · simp at h
  · split at h
    · simp at h
    · rename_i u hs
      simp only [Option.some.injEq] at h; subst h
      exact ⟨(select_spec e o hv set e.ctxAt t0 u .done hs).1, by simp⟩
    · rename_i u c hs
      have ⟨hge, hc1, hc2⟩ := select_spec e o hv set e.ctxAt t0 u (.chan c) hs
      split at h
      · simp only [Option.some.injEq] at h; subst h
        exact ⟨hge, by simp; exact ⟨hc1, hc2⟩⟩
      · simp only [Option.some.injEq] at h; subst h
        have := settleLoop_spec e o hv (some (minOpt e.ctxAt (u + settle))) set (set.length + 1) (set.filter (· ≠ c)) u [c]
          (fun x hx => (List.mem_filter.mp hx).1)
          (fun x hx => by simp at hx; subst hx; exact ⟨hc1, hc2⟩)
        obtain ⟨h1, h2, _⟩ := this
        exact ⟨by simp only; omega, h2⟩

/-- **the set afterwards is the set minus exactly the returned channels** -/
theorem C20_set_minus_returned (e : Env) (o : Oracle) (set : List Nat) (settle t0 : Nat)
    (res : Result) (h : wait e o set settle t0 = some res) :
    res.set = set.filter (fun x => !res.returned.contains x) := by
  unfold wait at h
  split at h
  · split at h
    · simp only [Option.some.injEq] at h; subst h; simp [List.filter_eq_self.mpr]
    · simp at h
  · split at h
    · simp at h
    · simp only [Option.some.injEq] at h; subst h; simp [List.filter_eq_self.mpr]
    · rename_i u c hs
      split at h
      · simp only [Option.some.injEq] at h; subst h
        simp only
        congr 1
        funext x
        simp [List.contains_iff_mem]
      · simp only [Option.some.injEq] at h; subst h; rfl

/-- **no result without a closed member unless the context ended, and then the
    context's error is reported**; an error is reported only if the context ended -/
theorem C20_empty_result_only_with_ctx_error (e : Env) (o : Oracle) (hv : OracleValid o) (set : List Nat) (settle t0 : Nat)
    (res : Result) (h : wait e o set settle t0 = some res) :
    (res.returned = [] → res.err = true) ∧ (res.err = true → doneBy e.ctxAt res.time = true) := by
  unfold wait at h
  split at h
  · split at h
    · rename_i tc htc
      simp only [Option.some.injEq] at h; subst h
      simp [doneBy, htc]; omega
    · simp at h
  · split at h
    · simp at h
    · rename_i u hs
      simp only [Option.some.injEq] at h; subst h
      have := (select_spec e o hv set e.ctxAt t0 u .done hs).2
      exact ⟨fun _ => rfl, fun _ => this⟩
    · rename_i u c hs
      split at h
      · simp only [Option.some.injEq] at h; subst h; simp
      · simp only [Option.some.injEq] at h; subst h
        have := settleLoop_spec e o hv (some (minOpt e.ctxAt (u + settle))) set (set.length + 1) (set.filter (· ≠ c)) u [c]
          (fun x hx => (List.mem_filter.mp hx).1)
          (fun x hx => by
            have hx' : x = c := by simpa using hx
            subst hx'
            exact (select_spec e o hv set e.ctxAt t0 u (.chan x) hs).2)
        obtain ⟨_, _, h3⟩ := this
        constructor
        · intro hempty
          have := h3 c (by simp)
          simp only at hempty
          rw [hempty] at this
          simp at this
        · intro herr; exact herr

/-! ## timing: "waiting at most the settle time to gather further ones" -/

private theorem minList_le (l : List Nat) (m : Nat) (h : minList l = some m) : ∀ x ∈ l, m ≤ x := by
  induction l generalizing m with
  | nil => simp [minList] at h
  | cons a as ih =>
    unfold minList at h
    split at h
    · rename_i m' hm'
      simp only [Option.some.injEq] at h
      intro x hx
      simp only [List.mem_cons] at hx
      rcases hx with rfl | hx
      · omega
      · have := ih m' hm' x hx; omega
    · rename_i hnone
      simp only [Option.some.injEq] at h
      intro x hx
      simp only [List.mem_cons] at hx
      rcases hx with rfl | hx
      · omega
      · cases as with
        | nil => simp at hx
        | cons b bs => unfold minList at hnone; split at hnone <;> simp at hnone

/-- a select with a deadline `D` wakes no later than `max t D` -/
private theorem select_le_deadline (e : Env) (o : Oracle) (chans : List Nat) (D t u : Nat) (p : Pick)
    (h : select e o chans (some D) t = some (u, p)) : u ≤ max t D := by
  unfold select at h
  split at h
  · simp at h
  · rename_i w hw
    simp only [Option.some.injEq, Prod.mk.injEq] at h
    obtain ⟨rfl, _⟩ := h
    unfold wakeTime at hw
    have hle := minList_le _ _ hw
    by_cases hD : D ≤ t
    · -- the deadline has passed: `t` itself is a ready instant
      have : t ∈ (eventTimes e chans (some D) t).filter fun u => doneBy (some D) u || chans.any (e.closedBy · u) := by
        simp only [List.mem_filter, eventTimes, List.mem_cons, true_or, true_and, doneBy]
        simp [hD]
      have := hle t this; omega
    · have hD' : t < D := by omega
      have : D ∈ (eventTimes e chans (some D) t).filter fun u => doneBy (some D) u || chans.any (e.closedBy · u) := by
        simp only [List.mem_filter, eventTimes, List.mem_cons, List.mem_filter, List.mem_append, Option.toList,
          List.mem_singleton, doneBy]
        exact ⟨Or.inr ⟨by simp, by simpa using hD'⟩, by simp⟩
      have := hle D this; omega

private theorem settleLoop_time_le (e : Env) (o : Oracle) (D B : Nat) (hD : D ≤ B) :
    ∀ (fuel : Nat) (cases : List Nat) (t : Nat) (acc : List Nat), t ≤ B →
      (settleLoop e o (some D) fuel cases t acc).2 ≤ B := by
  intro fuel
  induction fuel with
  | zero => intro cases t acc ht; exact ht
  | succ n ih =>
    intro cases t acc ht
    simp only [settleLoop]
    split
    · exact ht
    · rename_i u hs
      have := select_le_deadline e o cases D t u .done hs; simp only; omega
    · rename_i u c hs
      have := select_le_deadline e o cases D t u (.chan c) hs
      exact ih _ u _ (by omega)

private theorem select_ge (e : Env) (o : Oracle) (chans : List Nat) (d : Option Nat) (t u : Nat) (p : Pick)
    (h : select e o chans d t = some (u, p)) : t ≤ u := by
  unfold select at h
  split at h
  · simp at h
  · rename_i w hw
    simp only [Option.some.injEq, Prod.mk.injEq] at h
    obtain ⟨rfl, _⟩ := h
    have hmem := minList_mem _ _ hw
    simp only [wakeTime, List.mem_filter] at hmem
    have := hmem.1
    unfold eventTimes at this
    simp only [List.mem_cons, List.mem_filter] at this
    rcases this with h | h
    · omega
    · have := h.2; simp at this; omega

private theorem settleLoop_time_ge (e : Env) (o : Oracle) (d : Option Nat) :
    ∀ (fuel : Nat) (cases : List Nat) (t : Nat) (acc : List Nat), t ≤ (settleLoop e o d fuel cases t acc).2 := by
  intro fuel
  induction fuel with
  | zero => intro cases t acc; exact Nat.le_refl _
  | succ n ih =>
    intro cases t acc
    simp only [settleLoop]
    split
    · exact Nat.le_refl _
    · rename_i u hs; exact select_ge e o cases d t u .done hs
    · rename_i u c hs
      have h1 := select_ge e o cases d t u (.chan c) hs
      have h2 := ih (cases.filter (· ≠ c)) u (acc ++ [c])
      omega

private theorem minOpt_le (a : Option Nat) (b : Nat) : minOpt a b ≤ b := by
  unfold minOpt; split <;> omega

private theorem select_wake (e : Env) (o : Oracle) (chans : List Nat) (d : Option Nat) (t u : Nat) (p : Pick)
    (h : select e o chans d t = some (u, p)) : wakeTime e chans d t = some u := by
  unfold select at h
  split at h
  · simp at h
  · rename_i w hw
    simp only [Option.some.injEq, Prod.mk.injEq] at h
    rw [hw, h.1]

/-- **waits at most the settle time**: if `Wait` gathers members, it returns no
    later than `settle` after the instant `u` of its first wake-up, and `u` is
    the first instant at or after the call at which a member is closed or the
    context has ended (`wakeTime`: the minimum of the ready instants ≥ t0) -/
theorem C20_returns_within_settle (e : Env) (o : Oracle) (set : List Nat) (settle t0 : Nat)
    (res : Result) (h : wait e o set settle t0 = some res) (hne : res.returned ≠ []) :
    ∃ u, wakeTime e set e.ctxAt t0 = some u ∧ u ≤ res.time ∧ res.time ≤ u + settle := by
  unfold wait at h
  split at h
  · split at h
    · simp only [Option.some.injEq] at h; subst h; simp at hne
    · simp at h
  · split at h
    · simp at h
    · simp only [Option.some.injEq] at h; subst h; simp at hne
    · rename_i u c hs
      refine ⟨u, select_wake e o set e.ctxAt t0 u (.chan c) hs, ?_⟩
      split at h
      · simp only [Option.some.injEq] at h; subst h; simp
      · simp only [Option.some.injEq] at h; subst h
        exact ⟨settleLoop_time_ge e o _ _ _ u _,
          settleLoop_time_le e o _ (u + settle) (minOpt_le _ _) _ _ u _ (Nat.le_add_right _ _)⟩

/-- the first wake-up is at or after the call, at an instant with a ready case -/
theorem C20_first_wake_is_ready_instant (e : Env) (set : List Nat) (t0 u : Nat)
    (h : wakeTime e set e.ctxAt t0 = some u) :
    t0 ≤ u ∧ (doneBy e.ctxAt u = true ∨ set.any (e.closedBy · u) = true) := by
  unfold wakeTime at h
  have hmem := minList_mem _ _ h
  simp only [List.mem_filter] at hmem
  refine ⟨?_, by simpa using hmem.2⟩
  have := hmem.1
  unfold eventTimes at this
  simp only [List.mem_cons, List.mem_filter] at this
  rcases this with h | h
  · omega
  · have := h.2; simp at this; omega

/-- … and it is the EARLIEST such instant: at no instant in `[t0, u)` is the context
    done or a member closed — `Wait` does not return a result while no member is closed -/
theorem C20_nothing_ready_before_first_wake (e : Env) (set : List Nat) (t0 u : Nat)
    (h : wakeTime e set e.ctxAt t0 = some u) (t' : Nat) (h0 : t0 ≤ t') (h1 : t' < u) :
    doneBy e.ctxAt t' = false ∧ set.any (e.closedBy · t') = false := by
  unfold wakeTime at h
  have hle := minList_le _ _ h
  -- any ready instant `x ≤ t'` among the candidates would give `u ≤ x`
  have key : ∀ x, x ∈ eventTimes e set e.ctxAt t0 →
      (doneBy e.ctxAt x || set.any (e.closedBy · x)) = true → x ≤ t' → False := by
    intro x hx hr hxt
    have := hle x (by simp only [List.mem_filter]; exact ⟨hx, hr⟩)
    omega
  constructor
  · cases hd : doneBy e.ctxAt t' with
    | false => rfl
    | true =>
      exfalso
      unfold doneBy at hd
      split at hd
      · rename_i td htd
        have htd' : td ≤ t' := by simpa using hd
        by_cases hc : td ≤ t0
        · exact key t0 (by simp [eventTimes]) (by simp [doneBy, htd, hc]) h0
        · exact key td (by simp [eventTimes, htd]; omega) (by simp [doneBy, htd]) htd'
      · simp at hd
  · cases ha : set.any (e.closedBy · t') with
    | false => rfl
    | true =>
      exfalso
      simp only [List.any_eq_true] at ha
      obtain ⟨c, hc, hcl⟩ := ha
      unfold Env.closedBy at hcl
      split at hcl
      · rename_i tc htc
        have htc' : tc ≤ t' := by simpa using hcl
        by_cases hcc : tc ≤ t0
        · exact key t0 (by simp [eventTimes])
            (by simp only [Bool.or_eq_true, List.any_eq_true]; exact Or.inr ⟨c, hc, by simp [Env.closedBy, htc, hcc]⟩) h0
        · exact key tc (by simp only [eventTimes, List.mem_cons, List.mem_filter, List.mem_append, List.mem_filterMap]
                           exact Or.inr ⟨Or.inl ⟨c, hc, htc⟩, by simp; omega⟩)
            (by simp only [Bool.or_eq_true, List.any_eq_true]; exact Or.inr ⟨c, hc, by simp [Env.closedBy, htc]⟩) htc'
      · simp at hcl

/-! ## non-vacuity: a concrete run (two members closing at 5 and 30, settle 50,
    a third member never closing) -/
example :
    let e : Env := { closeAt := fun c => if c = 1 then some 5 else if c = 2 then some 30 else none, ctxAt := none }
    wait e firstOracle [1, 2, 3] 50 0 = some { returned := [1, 2], err := false, time := 55, set := [3] } := by decide

example : OracleValid firstOracle → True := fun _ => trivial

/-- the structural facts about watchset.go that `Model.WatchSet` builds in — the context is select case
    0, the settle deadline, the loop and return conditions of `Wait`, the removal of exactly the returned
    channels, and that every method releases the set's mutex on every path — hold of the source as it
    is today (regenerated by `tools/extract` on every run) -/
theorem C20_source_facts : Gen.wsFacts = WS.expectedFacts := by decide

end Sdb
