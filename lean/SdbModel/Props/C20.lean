import SdbModel.Model.WatchSet
/-! # C20 — theorems under construction (see DESIGN.md section 4) -/
namespace Sdb
end Sdb
