import SdbModel.Model.Lpm
import SdbModel.Generated.SliceParams
/-!
  C13, the iterator: "full iteration and LowerBound(q) yield entries in ascending order …
  later transactions never alter what an earlier trie or ITERATOR returns".

  The C13 theorems describe iteration results through `Lpm.preorder` / `Lpm.lowerBound`
  (lists).  The code's iterator is an explicit stack (`lpm/iterator.go`: `Next`, and the loop of
  `All` on a copy of the stack) that `Txn.LowerBound` pre-loads with the larger siblings along
  the search path.  `Lpm.Iter.next` / `Lpm.lbStack` model exactly that machine — the lpm driver
  executes them — and the theorems below show that the machine yields the lists the other C13
  theorems are about, one entry per `Next`, for every trie and every stack.
-/
namespace Sdb
open Lpm

variable {α : Type}

private def mu (st : List (Trie α)) : Nat := 2 * stackNodes st + st.length

private theorem stackNodes_cons (t : Trie α) (st : List (Trie α)) : stackNodes (t :: st) = t.nodes + stackNodes st := by
  simp [stackNodes]

private theorem preorder_isNil {t : Trie α} (h : t.isNil = true) : preorder t = [] ∧ t.nodes = 0 := by
  cases t with
  | nil => exact ⟨rfl, rfl⟩
  | node d p v c0 c1 => simp [Trie.isNil] at h

private theorem pushKids_flat (c0 c1 : Trie α) (rest : List (Trie α)) :
    (pushKids c0 c1 rest).flatMap preorder = preorder c0 ++ preorder c1 ++ rest.flatMap preorder := by
  unfold pushKids
  by_cases h0 : c0.isNil = true <;> by_cases h1 : c1.isNil = true
  · simp [h0, h1, (preorder_isNil h0).1, (preorder_isNil h1).1]
  · simp [h0, h1, (preorder_isNil h0).1]
  · simp [h0, h1, (preorder_isNil h1).1]
  · simp [h0, h1]

private theorem pushKids_mu (c0 c1 : Trie α) (rest : List (Trie α)) :
    mu (pushKids c0 c1 rest) ≤ 2 * c0.nodes + 2 * c1.nodes + mu rest + 2 := by
  unfold pushKids mu
  by_cases h0 : c0.isNil = true <;> by_cases h1 : c1.isNil = true <;>
    simp [h0, h1, stackNodes_cons] <;> omega

private theorem next_spec (fuel : Nat) (st : List (Trie α)) (hf : mu st < fuel) :
    (Iter.next fuel st = none ∧ st.flatMap preorder = []) ∨
    (∃ e st', Iter.next fuel st = some (e, st') ∧ st.flatMap preorder = e :: st'.flatMap preorder ∧ mu st' < mu st) := by
  induction fuel generalizing st with
  | zero => omega
  | succ fuel ih =>
    cases st with
    | nil => left; exact ⟨rfl, rfl⟩
    | cons t rest =>
      cases t with
      | nil =>
        have hmu : mu rest < fuel := by
          simp only [mu, stackNodes_cons, Trie.nodes, List.length_cons] at hf ⊢; omega
        have hlt : mu rest < mu (Trie.nil :: rest) := by
          simp only [mu, stackNodes_cons, Trie.nodes, List.length_cons]; omega
        rcases ih rest hmu with ⟨h1, h2⟩ | ⟨e, st', h1, h2, h3⟩
        · left; exact ⟨by simpa [Iter.next] using h1, by simpa [preorder] using h2⟩
        · right; exact ⟨e, st', by simpa [Iter.next] using h1, by simpa [preorder] using h2, Nat.lt_trans h3 hlt⟩
      | node d p v c0 c1 =>
        have hk := pushKids_mu c0 c1 rest
        have hmu0 : mu (Trie.node d p v c0 c1 :: rest) = 2 * c0.nodes + 2 * c1.nodes + mu rest + 3 := by
          simp only [mu, stackNodes_cons, Trie.nodes, List.length_cons]; omega
        cases v with
        | some x =>
          right
          refine ⟨(d, p, x), pushKids c0 c1 rest, rfl, ?_, by omega⟩
          simp [preorder, pushKids_flat, List.append_assoc]
        | none =>
          have hmu : mu (pushKids c0 c1 rest) < fuel := by omega
          rcases ih _ hmu with ⟨h1, h2⟩ | ⟨e, st', h1, h2, h3⟩
          · left
            refine ⟨by simpa [Iter.next] using h1, ?_⟩
            rw [pushKids_flat] at h2
            simpa [preorder, List.append_assoc] using h2
          · right
            refine ⟨e, st', by simpa [Iter.next] using h1, ?_, by omega⟩
            rw [pushKids_flat] at h2
            simpa [preorder, List.append_assoc] using h2

/-- **One `Next`**: it returns nothing exactly when nothing is left, and otherwise the first
    entry of what is left, leaving an iterator over the rest — so a partially consumed iterator
    continues where it stopped. -/
theorem C13_iterator_next (st : List (Trie α)) :
    (Iter.next (iterFuel st) st = none ∧ st.flatMap preorder = []) ∨
    (∃ e st', Iter.next (iterFuel st) st = some (e, st') ∧ st.flatMap preorder = e :: st'.flatMap preorder) := by
  rcases next_spec (iterFuel st) st (by simp [iterFuel, mu]) with h | ⟨e, st', h1, h2, _⟩
  · exact Or.inl h
  · exact Or.inr ⟨e, st', h1, h2⟩

private theorem drain_spec (fuel : Nat) (st : List (Trie α)) (hf : mu st < fuel) :
    Iter.drain fuel st = st.flatMap preorder := by
  induction fuel generalizing st with
  | zero => omega
  | succ fuel ih =>
    unfold Iter.drain
    rcases next_spec (iterFuel st) st (by simp [iterFuel, mu]) with ⟨h1, h2⟩ | ⟨e, st', h1, h2, h3⟩
    · simp [h1, h2]
    · simp only [h1, h2]
      rw [ih st' (by omega)]

/-- **The stack machine yields the pre-order listing**: draining an iterator whose stack is
    `st` yields the entries of the stacked subtrees, top first, each in node / child 0 / child 1
    order — `preorder`, which the ordering theorems of C13 are about. -/
theorem C13_iterator_stack_refines_preorder (st : List (Trie α)) :
    Iter.drain (iterFuel st) st = st.flatMap preorder :=
  drain_spec _ st (by simp [iterFuel, mu])

/-- iteration from a start node (`All`, `Prefix`) -/
theorem C13_iterator_from_start (t : Trie α) :
    Iter.drain (iterFuel (Iter.ofStart t).stack) (Iter.ofStart t).stack = preorder t := by
  rw [C13_iterator_stack_refines_preorder]
  unfold Iter.ofStart
  by_cases h : t.isNil = true
  · simp [h, (preorder_isNil h).1]
  · simp [h]

/-- **`LowerBound` pre-loads the right stack**: what the iterator yields from the stack that
    the search loop of `Txn.LowerBound` builds is the list `Lpm.lowerBound`
    (`C13_lowerBound_is_suffix`: the entries not below the query, ascending). -/
theorem C13_lowerBound_stack (data : List Nat) (plen : Nat) (t : Trie α) (m : Nat) (pend : List (Trie α)) :
    (lbStack data plen t m pend).flatMap preorder = lowerBound data plen t m pend := by
  induction t generalizing m pend with
  | nil => simp [lbStack, lowerBound]
  | node nd npl nv c0 c1 ih0 ih1 =>
    unfold lbStack lowerBound
    simp only
    split
    · simp
    · split
      · split <;> simp
      · split
        · exact ih0 _ _
        · exact ih1 _ _

theorem C13_lowerBound_iterator (data : List Nat) (plen : Nat) (t : Trie α) :
    Iter.drain (iterFuel (lbStack data plen t 0 [])) (lbStack data plen t 0 []) = lowerBound data plen t 0 [] := by
  rw [C13_iterator_stack_refines_preorder, C13_lowerBound_stack]

/-- the iterator holds subtrees of the trie it was made from and nothing else: whatever later
    transactions build, its result is a function of those (immutable) values -/
theorem C13_iterator_result_determined_by_stack (st : List (Trie α)) (k : Nat) :
    (Iter.drain (iterFuel st) st).take k = (st.flatMap preorder).take k := by
  rw [C13_iterator_stack_refines_preorder]

/-- `Iter.drain` leaves its argument alone (values); in the code `All()` "can be called multiple
    times" because it pops and pushes on a COPY of the iterator's stack — regenerated from today's
    `lpm/iterator.go` (a `slices.Clip` of `it.stack`, seeded change C13l, turns this false) -/
theorem C13_iterator_all_works_on_a_copy : Gen.lpmIteratorAllWorksOnACopy = true := by decide

/-! non-vacuity -/
private def t3 : Trie Nat :=
  .node [] 0 none (.node [0] 1 (some 1) .nil .nil) (.node [128] 1 none (.node [128] 2 (some 2) .nil .nil) (.node [192] 2 (some 3) .nil .nil))

example : Iter.drain (iterFuel [t3]) [t3] = [([0], 1, 1), ([128], 2, 2), ([192], 2, 3)] := by decide
example : (Iter.next (iterFuel [t3]) [t3]).map (·.1) = some ([0], 1, 1) := by decide

end Sdb
