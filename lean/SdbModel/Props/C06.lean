import SdbModel.Model.Table
/-! # C06 — theorems under construction (see DESIGN.md section 4) -/
namespace Sdb
end Sdb
