import SdbModel.Lemmas.Serial
import SdbModel.Lemmas.OMap
import SdbModel.Generated.Protocol

/-!
# C06 — Watch channels: no missed change, no early or spurious-abort wake-up

> A watch channel returned by a query is closed no later than the return of the
> Commit that changes that query's result (…; for table-wide watches, any change
> to the table).  It is never closed by an aborted transaction, is not already
> closed when handed out by a fresh snapshot query, and never closes before the
> change is visible: a read transaction taken after observing the channel closed
> sees a newer table revision than the snapshot the channel came from.

What is proved here is the ORDERING half, for every interleaving of any number
of transactions (Model.Serial): a table-level watch channel is identified with
the version `(table, revision)` of the table it was handed out with; the commit
of a transaction `t` closes the channels `(x, t.old x)` of the versions it
replaced, in its notify step, which the regenerated protocol places after the
root store and before the table locks are released and Commit returns.  Which
channels a commit must close per key / prefix is the subject of C12 (Model.Art)
and of the table-suite oracle.
-/
namespace Sdb
open Serial

/-- channels a transaction closes when it notifies: the versions of its tables
    that it replaced (nothing for an aborted transaction) -/
def Serial.closes (t : Txn) : List (Nat × Nat) :=
  if t.commit ∧ (t.phase = .stored ∨ t.phase = .done) then t.tabs.map fun x => (x, t.old x) else []

/-- the new versions of a committed transaction's tables are visible before it
    notifies and stay visible: the invariant behind "never closes early" -/
def Serial.Newer (s : State) : Prop :=
  ∀ (i : Nat) (t : Txn), s.txns[i]? = some t → (t.phase = .stored ∨ t.phase = .done) → t.commit = true →
    ∀ x ∈ t.tabs, t.old x < s.root x

private theorem newer_step (s s' : State) (inv : Inv s) (h : Newer s) (hst : Step s s') : Newer s' := by
  cases hst with
  | acquire i t k tb hi hp hk hfree =>
    intro j u hj hph hc x hx
    rw [getElem?_setTxn _ _ _ _ ⟨t, hi⟩] at hj
    split at hj
    · simp only [Option.some.injEq] at hj; subst hj; simp at hph
    · exact h j u hj hph hc x hx
  | load i t hi hp =>
    intro j u hj hph hc x hx
    rw [getElem?_setTxn _ _ _ _ ⟨t, hi⟩] at hj
    split at hj
    · simp only [Option.some.injEq] at hj; subst hj; simp at hph
    · exact h j u hj hph hc x hx
  | store i t hi hp hc' =>
    intro j u hj hph hc x hx
    rw [getElem?_setTxn _ _ _ _ ⟨t, hi⟩] at hj
    have hsees := inv.sees i t hi hp
    split at hj
    · simp only [Option.some.injEq] at hj; subst hj
      simp only at hx ⊢
      simp [hx]
    · have := h j u hj hph hc x hx
      simp only
      split
      · rename_i hxt
        rw [hsees x hxt]; omega
      · exact this
  | abort i t hi hp hc' =>
    intro j u hj hph hc x hx
    rw [getElem?_setTxn _ _ _ _ ⟨t, hi⟩] at hj
    split at hj
    · simp only [Option.some.injEq] at hj; subst hj; simp [hc'] at hc
    · exact h j u hj hph hc x hx
  | release i t tb hi hp hk =>
    intro j u hj hph hc x hx
    rw [getElem?_setTxn _ _ _ _ ⟨t, hi⟩] at hj
    split at hj
    · simp only [Option.some.injEq] at hj; subst hj
      exact h i t hi (Or.inl hp) hc x hx
    · exact h j u hj hph hc x hx
  | finish i t hi hp hk =>
    intro j u hj hph hc x hx
    rw [getElem?_setTxn _ _ _ _ ⟨t, hi⟩] at hj
    split at hj
    · simp only [Option.some.injEq] at hj; subst hj
      exact h i t hi (Or.inl hp) hc x hx
    · exact h j u hj hph hc x hx
  | spawn t ha hp hr =>
    intro j u hj hph hc x hx
    rw [List.getElem?_append] at hj
    split at hj
    · exact h j u hj hph hc x hx
    · rw [List.getElem?_singleton] at hj
      split at hj
      · simp only [Option.some.injEq] at hj; subst hj; simp [hp] at hph
      · simp at hj

private theorem newer_reachable (s : State) (hr : Reachable s) : Newer s := by
  induction hr with
  | init => intro i t hi; simp at hi
  | step s s' hr hst ih => exact newer_step s s' (inv_reachable s hr) ih hst

/-- **never closes before the change is visible**: whenever a channel
    `(x, r)` has been (or is being) closed by a commit, every read transaction
    taken from then on sees table `x` at a revision newer than `r` -/
theorem C06_closed_implies_newer_revision (s : State) (hr : Reachable s) (i : Nat) (t : Txn)
    (hi : s.txns[i]? = some t) (x r : Nat) (hc : (x, r) ∈ closes t) : r < s.root x := by
  unfold closes at hc
  split at hc
  · rename_i hcond
    simp only [List.mem_map, Prod.mk.injEq] at hc
    obtain ⟨y, hy, rfl, rfl⟩ := hc
    exact newer_reachable s hr i t hi hcond.2 hcond.1 y hy
  · simp at hc

/-- **not already closed when handed out by a fresh snapshot**: the channel of
    the current version of a table has not been closed by anybody -/
theorem C06_fresh_channel_open (s : State) (hr : Reachable s) (i : Nat) (t : Txn)
    (hi : s.txns[i]? = some t) (x : Nat) : (x, s.root x) ∉ closes t := by
  intro hc
  have := C06_closed_implies_newer_revision s hr i t hi x (s.root x) hc
  omega

/-- **never closed by an aborted transaction** -/
theorem C06_abort_closes_nothing (t : Txn) (h : t.commit = false) : closes t = [] := by
  simp [closes, h]

/-- **closed no later than the return of Commit**, after the store, while the
    tables are still held; Abort has no notify step at all — read off the
    CURRENT source (regenerated protocol) -/
theorem C06_notify_between_store_and_return :
    Conc.idx Gen.protocol.commit .storeRoot < Conc.idx Gen.protocol.commit .notify ∧
    Conc.idx Gen.protocol.commit .notify < Conc.idx Gen.protocol.commit .unlockTables ∧
    Conc.idx Gen.protocol.commit .notify < Gen.protocol.commit.length ∧
    Gen.protocol.abort.contains .notify = false ∧ Gen.protocol.abort.contains .storeRoot = false := by decide

/-- a committed transaction that changed table `x` does close the channel of the version it replaced -/
theorem C06_commit_closes_replaced_version (t : Txn) (hc : t.commit = true)
    (hp : t.phase = .stored ∨ t.phase = .done) (x : Nat) (hx : x ∈ t.tabs) : (x, t.old x) ∈ closes t := by
  simp only [closes, hc, hp, and_self, if_true, List.mem_map]
  exact ⟨x, hx, rfl⟩

/-! ## from "the query's result changed" to "a key under the query changed"

A table query through a part index hands out the watch channel of the radix-tree node
that covers its key / prefix (C12: that channel is closed by every transaction that
inserts, replaces or deletes a key under it).  What remains for C06's first clause is
that a CHANGED RESULT implies such a key: stated here over the abstract index maps of
`Model.Table` (sorted association lists), for the three query shapes. -/

open Tbl Tbl.OMap in
/-- Get: a changed answer for key `k` is a change at `k` (trivially) -/
theorem C06_get_result_change_is_key_change {α : Type} (m m' : OMap α) (k : Key) (h : m.get k ≠ m'.get k) :
    ∃ k', k' = k ∧ m.get k' ≠ m'.get k' := ⟨k, rfl, h⟩

open Tbl Tbl.OMap in
/-- Prefix / List: if the entries under prefix `p` differ between two versions of an index,
    some key that starts with `p` was inserted, replaced or removed -/
theorem C06_prefix_result_change_is_key_change {α : Type} (m m' : OMap α) (hm : Sorted m) (hm' : Sorted m')
    (p : Key) (h : m.prefixQ p ≠ m'.prefixQ p) :
    ∃ k, p <+: k ∧ m.get k ≠ m'.get k := by
  apply Classical.byContradiction
  intro hne
  apply h
  apply ext_get _ _ (sorted_prefixQ m hm p) (sorted_prefixQ m' hm' p)
  intro k
  have key : ∀ (n : OMap α), Sorted n → ∀ v, (n.prefixQ p).get k = some v ↔ (n.get k = some v ∧ p <+: k) := by
    intro n hn v
    rw [← mem_iff_get _ (sorted_prefixQ n hn p), mem_prefixQ, mem_iff_get _ hn]
  by_cases hp : p <+: k
  · have heq : m.get k = m'.get k := by
      apply Classical.byContradiction
      intro hk; exact hne ⟨k, hp, hk⟩
    cases h1 : (m.prefixQ p).get k with
    | none =>
      cases h2 : (m'.prefixQ p).get k with
      | none => rfl
      | some w =>
        have := (key m' hm' w).mp h2
        have : (m.prefixQ p).get k = some w := (key m hm w).mpr ⟨heq ▸ this.1, hp⟩
        rw [h1] at this; exact absurd this (by simp)
    | some v =>
      have := (key m hm v).mp h1
      exact ((key m' hm' v).mpr ⟨heq ▸ this.1, hp⟩).symm
  · cases h1 : (m.prefixQ p).get k with
    | none =>
      cases h2 : (m'.prefixQ p).get k with
      | none => rfl
      | some w => exact absurd ((key m' hm' w).mp h2).2 hp
    | some v => exact absurd ((key m hm v).mp h1).2 hp

open Tbl Tbl.OMap in
/-- LowerBound / All: if the entries from bound `b` on differ, some key not below `b` changed
    (with the empty bound: any change of the index — the root watch) -/
theorem C06_lowerBound_result_change_is_key_change {α : Type} (m m' : OMap α) (hm : Sorted m) (hm' : Sorted m')
    (b : Key) (h : m.lowerBound b ≠ m'.lowerBound b) :
    ∃ k, cmpL k b ≠ .lt ∧ m.get k ≠ m'.get k := by
  apply Classical.byContradiction
  intro hne
  apply h
  apply ext_get _ _ (sorted_lowerBound m hm b) (sorted_lowerBound m' hm' b)
  intro k
  have key : ∀ (n : OMap α), Sorted n → ∀ v, (n.lowerBound b).get k = some v ↔ (n.get k = some v ∧ cmpL k b ≠ .lt) := by
    intro n hn v
    rw [← mem_iff_get _ (sorted_lowerBound n hn b), mem_lowerBound, mem_iff_get _ hn]
  by_cases hp : cmpL k b ≠ .lt
  · have heq : m.get k = m'.get k := by
      apply Classical.byContradiction
      intro hk; exact hne ⟨k, hp, hk⟩
    cases h1 : (m.lowerBound b).get k with
    | none =>
      cases h2 : (m'.lowerBound b).get k with
      | none => rfl
      | some w =>
        have := (key m' hm' w).mp h2
        have : (m.lowerBound b).get k = some w := (key m hm w).mpr ⟨heq ▸ this.1, hp⟩
        rw [h1] at this; exact absurd this (by simp)
    | some v =>
      have := (key m hm v).mp h1
      exact ((key m' hm' v).mpr ⟨heq ▸ this.1, hp⟩).symm
  · cases h1 : (m.lowerBound b).get k with
    | none =>
      cases h2 : (m'.lowerBound b).get k with
      | none => rfl
      | some w => exact absurd ((key m' hm' w).mp h2).2 hp
    | some v => exact absurd ((key m hm v).mp h1).2 hp

/-! ## non-vacuity -/
example : ∃ s, Reachable s ∧ ∃ t, s.txns[0]? = some t ∧ (0, 0) ∈ closes t ∧ s.root 0 = 1 := by
  let t : Txn := { tabs := [0] }
  have s0 : Reachable ({} : State) := .init
  have s1 := Reachable.step _ _ s0 (Step.spawn {} t (by trivial) rfl rfl)
  have s2 := Reachable.step _ _ s1 (Step.acquire _ 0 t 0 0 (by rfl) rfl (by rfl) (by rfl))
  have s3 := Reachable.step _ _ s2 (Step.load _ 0 { t with phase := .acquiring 1 } (by rfl) (by rfl))
  have s4 := Reachable.step _ _ s3 (Step.store _ 0 _ (by rfl) rfl rfl)
  exact ⟨_, s4, _, by rfl, by simp [closes, t], by simp [t]⟩

end Sdb
