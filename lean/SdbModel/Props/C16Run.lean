import SdbModel.Props.C14
import SdbModel.Lemmas.ReconcilerProgressPace
import SdbModel.Lemmas.ReconcilerProgressIdle
import SdbModel.Lemmas.ReconcilerProgressOrig

/-!
# C16 over whole runs — the WaitUntilReconciled contract and retry pacing in every reachable state

> A failed operation is retried, never sooner than the configured minimum
> backoff after the failure, with waits that do not shrink over consecutive
> failures of the same object and are capped by the configured maximum (an
> otherwise idle reconciler retries within the maximum plus one round), and the
> backoff starts over after the object changes or succeeds.
> WaitUntilReconciled(rev) returns without error only after every change up to
> rev has been attempted at least once, and the retry low-watermark it reports
> is zero exactly when no failed object awaits retry, otherwise the revision of
> the oldest change among the failed ones.

`Props/C16.lean` has the step-level facts.  Here the same clauses are proved as
INVARIANTS of `Model.Reconciler` (single operations, `injects = []`), for every
state reachable by the steps of `C14Reachable` (user writes and deletes, foreign
status writes on non-Error objects, failure switches, `quiesce`, `advance`; any
configuration, any fuel), and as statements about EVERY round of every run.  The
run invariant `PInv` (`C16_run_inv_*`: initial, preserved by every step,
`C16_run_inv_reachable`) extends the invariant `WInv` of C14 by what every retry
item stores, by the soundness of the progress tracker's revision `progressRev`
(WaitUntilReconciled(rev) returns once `progressRev ≥ rev`) and by the meaning
of the reported low-watermark `progressLW`.

1. `C16_run_attempted_up_to_progressRev` (+ `…_nothing_pending_…`,
   `…_progressRev_le_tableRev`, `…_progressRev_monotone`, `…_idle_progress_complete`).
2. `C16_run_lw_exact`, `C16_run_lw_zero_iff_no_retry`, `C16_run_lw_lower_bound`,
   `C16_run_lw_is_oldest_failed_change`, `C16_run_item_revisions`,
   `C16_run_wait_until_reconciled_success` (the model has the repaired
   `retries.Add`: `origRev` is kept over the retries of an item; the first
   version of this file refuted the clause for the code before the repair).
3. `C16_run_item_pacing`, `C16_run_round_retries_only_when_due`,
   `C16_run_round_item_transitions`, `C16_run_backoff_starts_over_after_change`,
   `C16_run_done_has_no_retry_item`, `C16_run_waits_do_not_shrink`.
4. `C16_run_retried_within_max`.
-/
namespace Sdb
open Rec

/-! ## the run invariant holds in every reachable state -/

/-- the run invariant holds initially … -/
theorem C16_run_inv_initial (c : Cfg) : PInv { cfg := c } := PInv.init c
/-- … is preserved by a user write, … -/
theorem C16_run_inv_userPut (r : R) (id data : Nat) (h : PInv r) : PInv (r.userPut id data) := h.userPut id data
/-- … a user delete, … -/
theorem C16_run_inv_delObj (r : R) (id : Nat) (h : PInv r) : PInv (r.delObj id) := h.delObj id
/-- … a foreign status write on an object that is not in Error state (K4), … -/
theorem C16_run_inv_touch_not_error (r : R) (id : Nat) (h : PInv r) (hne : ∀ o, r.get id = some o → o.kind ≠ .error) :
    PInv (r.touch id) := h.touch id hne
/-- … switching failures, … -/
theorem C16_run_inv_set_failing (r : R) (l : List Nat) (h : PInv r) : PInv { r with failing := l } := h.setFailing l
/-- … the retry timer firing (what `quiesce` does before a round), … -/
theorem C16_run_inv_fireTimer (r : R) (h : PInv r) : PInv r.fireTimer := h.fireTimer
/-- … time passing, … -/
theorem C16_run_inv_setNow (r : R) (t : Nat) (ht : r.now ≤ t) (h : PInv r) : PInv { r with now := t } := h.setNow t ht
/-- … one reconciliation round (so every round of every run starts in a state satisfying the
    invariant: the round-level theorems below take `PInv r` as their hypothesis), … -/
theorem C16_run_inv_round (r : R) (h : PInv r) : PInv r.round := h.round
/-- … running the loop, … -/
theorem C16_run_inv_quiesce (r : R) (fuel : Nat) (h : PInv r) : PInv (r.quiesce fuel) := h.quiesce fuel
/-- … and letting time pass. -/
theorem C16_run_inv_advance (r : R) (ms fuel : Nat) (h : PInv r) : PInv (r.advance ms fuel) := h.advance ms fuel

/-- hence it holds in every reachable state -/
theorem C16_run_inv_reachable {r : R} (h : C14Reachable r) : PInv r := by
  induction h with
  | init c => exact PInv.init c
  | put id data _ ih => exact ih.userPut id data
  | del id _ ih => exact ih.delObj id
  | touch id _ hne ih => exact ih.touch id hne
  | fail l _ ih => exact ih.setFailing l
  | quiesce fuel _ ih => exact ih.quiesce fuel
  | advance ms fuel _ ih => exact ih.advance ms fuel

/-! ## 1. everything up to `progressRev` has been attempted -/

/-- the progress tracker never runs ahead of the table -/
theorem C16_run_progressRev_le_tableRev {r : R} (h : C14Reachable r) : r.progressRev ≤ r.tableRev :=
  (C16_run_inv_reachable h).x.prog.le

/-- **WaitUntilReconciled(rev) returns only after every change up to `rev` was attempted.**
    In every reachable state with `rev ≤ progressRev` (the condition under which
    `WaitUntilReconciled(rev)` returns without error): every live object whose revision is
    at most `rev` is no longer waiting for the loop — it is Done and the last call logged for it is
    a successful Update with its current data, or it is Error, the last call logged for it is a
    FAILED Update with its current data and a retry of exactly this version is queued — and for
    every retained deletion with a revision up to `rev` the last call logged is a Delete:
    a successful one, or a failed one whose retry is queued. -/
theorem C16_run_attempted_up_to_progressRev {r : R} (h : C14Reachable r) (rev : Nat) (hrev : rev ≤ r.progressRev) :
    (∀ o ∈ r.objs, o.rev ≤ rev →
      (o.kind = .done ∧ lastCall r.log o.id = some ⟨"U", o.id, o.data, true⟩) ∨
      (o.kind = .error ∧ lastCall r.log o.id = some ⟨"U", o.id, o.data, false⟩ ∧
        ∃ it ∈ r.items, it.id = o.id ∧ it.delete = false ∧ it.rev = o.rev ∧ it.inQueue = true)) ∧
    (∀ d ∈ r.dels, d.2 ≤ rev →
      (∃ c, lastCall r.log d.1.id = some c ∧ c.op = "D" ∧ c.ok = true) ∨
      ((∃ c, lastCall r.log d.1.id = some c ∧ c.op = "D" ∧ c.ok = false) ∧
        ∃ it ∈ r.items, it.id = d.1.id ∧ it.delete = true ∧ it.inQueue = true)) := by
  have hp := C16_run_inv_reachable h
  have hI := hp.w.rinv.inv
  refine ⟨fun o ho hle => ?_, fun d hd hle => ?_⟩
  · have hit : o.rev ≤ r.itRev := hp.x.prog.obj o ho (by simp only [v_progressRev]; omega)
    obtain ⟨a, b, c⟩ := hI.objOK o ho
    cases hk : o.kind with
    | done => exact Or.inl ⟨rfl, (a hk).1⟩
    | error =>
      rcases b hk with ⟨it, hit', b1, b2, b3, b4⟩ | ⟨res, hres, _⟩
      · right
        have hi := hp.x.items it hit'
        have hc := hi.call
        rw [b2, b1] at hc
        have hd := hi.data b2 o ho b1.symm b3.symm
        simp only [Bool.false_eq_true, if_false] at hc
        rw [← hd] at hc
        exact ⟨rfl, hc, it, hit', b1, b2, b3, b4⟩
      · cases hres
    | pending =>
      rcases c (Or.inl hk) with c | ⟨res, hres, _⟩
      · omega
      · cases hres
    | refreshing =>
      rcases c (Or.inr hk) with c | ⟨res, hres, _⟩
      · omega
      · cases hres
  · have hit : d.2 ≤ r.itDelRev := hp.x.prog.del d hd (by simp only [v_progressRev]; omega)
    rcases hI.delOK d hd with a | ⟨it, hit', b1, b2, b3⟩ | a
    · omega
    · right
      have hc := (hp.x.items it hit').call
      rw [b2, b1] at hc
      exact ⟨⟨_, hc, rfl, rfl⟩, it, hit', b1, b2, b3⟩
    · exact Or.inl a.1

/-- no live object whose revision is at most `progressRev` still waits for the loop (Pending or
    Refreshing), and every such object and every such retained deletion has been passed by the
    change iterator -/
theorem C16_run_nothing_pending_up_to_progressRev {r : R} (h : C14Reachable r) :
    (∀ o ∈ r.objs, o.rev ≤ r.progressRev → o.rev ≤ r.itRev ∧ o.kind ≠ .pending ∧ o.kind ≠ .refreshing) ∧
    (∀ d ∈ r.dels, d.2 ≤ r.progressRev → d.2 ≤ r.itDelRev) := by
  have hp := C16_run_inv_reachable h
  refine ⟨fun o ho hle => ?_, fun d hd hle => hp.x.prog.del d hd hle⟩
  have hit : o.rev ≤ r.itRev := hp.x.prog.obj o ho hle
  obtain ⟨_, _, c⟩ := hp.w.rinv.inv.objOK o ho
  refine ⟨hit, fun hk => ?_, fun hk => ?_⟩
  · rcases c (Or.inl hk) with c | ⟨res, hres, _⟩
    · omega
    · cases hres
  · rcases c (Or.inr hk) with c | ⟨res, hres, _⟩
    · omega
    · cases hres

/-- one step of a run: the constructors of `C14Reachable` as a relation -/
inductive C16Step : R → R → Prop
  | put (r : R) (id data : Nat) : C16Step r (r.userPut id data)
  | del (r : R) (id : Nat) : C16Step r (r.delObj id)
  | touch (r : R) (id : Nat) : (∀ o, r.get id = some o → o.kind ≠ .error) → C16Step r (r.touch id)
  | fail (r : R) (l : List Nat) : C16Step r { r with failing := l }
  | round (r : R) : C16Step r r.round
  | quiesce (r : R) (fuel : Nat) : C16Step r (r.quiesce fuel)
  | advance (r : R) (ms fuel : Nat) : C16Step r (r.advance ms fuel)

/-- `progressRev` never decreases along a run: a `WaitUntilReconciled(rev)` that could return
    keeps being able to return -/
theorem C16_run_progressRev_monotone {r r' : R} (h : C14Reachable r) (hs : C16Step r r') : r.progressRev ≤ r'.progressRev := by
  have hr := (C16_run_inv_reachable h).w.rinv
  cases hs with
  | put id data => exact Nat.le_refl _
  | del id => unfold R.delObj; split <;> exact Nat.le_refl _
  | touch id _ => unfold R.touch; split <;> exact Nat.le_refl _
  | fail l => exact Nat.le_refl _
  | round => exact round_progressRev_ge hr
  | quiesce fuel => exact quiesce_progressRev_ge hr fuel
  | advance ms fuel => exact advance_progressRev_ge hr ms fuel

/-- a round moves `progressRev` up to the revision of the last change it consumed (`roundLast`,
    0 when it consumed none): `r.progress.update(lastRevision, …)` -/
theorem C16_run_round_progressRev {r : R} (hp : PInv r) :
    r.round.progressRev = max (roundLast r) r.progressRev := by
  rw [round_progressRev hp.w.rinv]
  split <;> omega

/-- between rounds the change iterator is never ahead of `progressRev` -/
theorem C16_run_iterator_le_progressRev {r : R} (h : C14Reachable r) : r.itRev ≤ r.progressRev ∧ r.itDelRev ≤ r.progressRev :=
  (C16_run_inv_reachable h).itle

/-- **once the loop is idle, `WaitUntilReconciled(rev)` returns for every revision of the table**:
    in a reachable idle state `progressRev = tableRev` (the complement of
    `C16_run_attempted_up_to_progressRev`: the tracker does not lag behind for ever) -/
theorem C16_run_idle_progress_complete {r : R} (h : C14Reachable r) (hidle : r.triggered = false) :
    r.progressRev = r.tableRev := by
  have hp := C16_run_inv_reachable h
  obtain ⟨c1, c2⟩ := hp.w.rinv.idle_caughtUp hidle
  obtain ⟨i1, i2⟩ := hp.itle
  have hle := hp.x.prog.le
  simp only [v_progressRev, v_tableRev] at hle
  by_cases h0 : 0 < r.tableRev
  · rcases hp.x.tab.top h0 with ⟨o, ho, e⟩ | ⟨d, hd, e⟩
    · have := c1 o ho
      simp only [v_tableRev] at e
      omega
    · have := c2 d hd
      simp only [v_tableRev] at e
      omega
  · omega

/-! ## 2. the retry low-watermark -/

/-- what every retry item stores, in every reachable state: it awaits retry (`inRevQueue`) and is
    in the time queue, and `0 < origRev ≤ rev ≤ tableRev`.  Unless a newer change for its object is
    still waiting in the change stream (`Stale`: that change will clear the item),
    * a Delete item stands for a retained deletion and `origRev = rev` is that deletion's revision;
    * an Update item stands for the live object, which is Error, has the item's data, and whose
      revision is `rev` — the revision of the LAST status write that marked it Error — while
      `origRev < rev` is the revision at which the change that failed FIRST was read (kept over the
      retries, `C16_run_round_item_transitions`). -/
theorem C16_run_item_revisions {r : R} (h : C14Reachable r) (it : Item) (hit : it ∈ r.items) :
    it.inRevQueue = true ∧ it.inQueue = true ∧ 0 < it.origRev ∧ it.origRev ≤ it.rev ∧ it.rev ≤ r.tableRev ∧
    (it.delete = true → it.origRev = it.rev) ∧ (it.delete = false → it.origRev < it.rev) ∧
    (Stale r.objs r.dels r.itRev r.itDelRev it.id ∨ (it.delete = true ∧ (it.obj, it.rev) ∈ r.dels) ∨
      (it.delete = false ∧ ∃ o ∈ r.objs, o.id = it.id ∧ o.kind = .error ∧ o.rev = it.rev ∧ o.data = it.obj.data)) := by
  have hp := C16_run_inv_reachable h
  have hi := hp.x.items it hit
  refine ⟨hi.rq, hp.w.rinv.items_queued it hit, hi.opos, hi.ole, hi.rle, hi.delrev, hi.updrev, ?_⟩
  rcases (hp.w.rinv.inv.itemOK it hit).2.1 with a | ⟨a, d, hd, hid⟩ | ⟨a, o, ho, hid, hk, hrev⟩
  · exact Or.inl a
  · by_cases hgt : d.2 > r.itDelRev
    · exact Or.inl (Or.inr ⟨d, hd, hid, hgt⟩)
    · have := hi.deld a d hd hid (Nat.le_of_not_gt hgt)
      rw [this] at hd
      exact Or.inr (Or.inl ⟨a, hd⟩)
  · exact Or.inr (Or.inr ⟨a, o, ho, hid, hk, hrev, hi.data a o ho hid hrev⟩)

/-- **the reported low-watermark is the retry low-watermark of the current items**, in EVERY
    reachable state (it is read before the status commits of a round's retries re-queue the ones
    that failed again, but those keep `origRev`) -/
theorem C16_run_lw_exact {r : R} (h : C14Reachable r) : r.progressLW = r.lowWatermark :=
  (C16_run_inv_reachable h).lw

/-- the same right after any round of any run -/
theorem C16_run_lw_exact_after_round {r : R} (hp : PInv r) : r.round.progressLW = r.round.lowWatermark := hp.round.lw

/-- **the reported low-watermark is zero exactly when no failed object awaits retry** (every retry
    item is in the revision queue, `C16_run_item_revisions`) -/
theorem C16_run_lw_zero_iff_no_retry {r : R} (h : C14Reachable r) :
    (r.progressLW = 0 ↔ r.items = []) ∧ (r.items = [] ↔ r.items.filter (·.inRevQueue) = []) := by
  have hp := C16_run_inv_reachable h
  refine ⟨by rw [hp.lw]; exact (lw_spec_of_xl hp.x).1, ?_⟩
  have : r.items.filter (·.inRevQueue) = r.items := List.filter_eq_self.2 (fun i hi => (hp.x.items i hi).rq)
  rw [this]

/-- the reported low-watermark is a lower bound of the `origRev` of every item awaiting retry -/
theorem C16_run_lw_lower_bound {r : R} (h : C14Reachable r) : ∀ it ∈ r.items, r.progressLW ≤ it.origRev := by
  have hp := C16_run_inv_reachable h
  rw [hp.lw]; exact (lw_spec_of_xl hp.x).2.1

/-- **… otherwise the revision of the oldest change among the failed ones.**  In every reachable
    state with a failed object awaiting retry, `progressLW` is the `origRev` of one of the retry
    items and at most that of all others; and `origRev` is the revision at which the change that
    failed FIRST was read: it is set when the item is created (`C16_run_round_item_transitions`,
    case FRESH: the revision of the deletion, or of the Pending / Refreshing object version the
    first attempt was given) and kept for as long as the item lives (case AGAIN; the item is
    cleared when the object changes or succeeds).  In particular this holds whenever the loop has
    seen the latest table revision and in every idle state. -/
theorem C16_run_lw_is_oldest_failed_change {r : R} (h : C14Reachable r) (hne : r.items ≠ []) :
    ∃ it ∈ r.items, r.progressLW = it.origRev ∧ (∀ it' ∈ r.items, it.origRev ≤ it'.origRev) ∧ 0 < r.progressLW := by
  have hp := C16_run_inv_reachable h
  obtain ⟨_, s2, s3⟩ := lw_spec_of_xl hp.x
  obtain ⟨it, hit, e⟩ := s3 hne
  rw [hp.lw]
  refine ⟨it, hit, e, fun it' hit' => ?_, ?_⟩
  · have := s2 it' hit'; omega
  · rw [e]; exact (hp.x.items it hit).opos

/-- **`origRev` of an Update item is the revision of the user's version that failed first** (valid
    backoff configuration `0 < minB ≤ maxB`).  In every reachable state every Update item still
    stores, as `it.obj`, the object version its FIRST failed Update was given: that version is
    Pending / Refreshing (written by the user, or refreshed), `it.origRev` is its revision, and — by
    `C16_run_item_revisions` — unless a newer change is waiting, the live object is Error, has
    the same data and the revision `it.rev` of the last status write. -/
theorem C16_run_origRev_is_first_read {r : R} (h : C14Reachable r) (hmin : 0 < r.cfg.minB) (hcfg : r.cfg.minB ≤ r.cfg.maxB) :
    ∀ it ∈ r.items, it.delete = false → it.origRev = it.obj.rev ∧ (it.obj.kind = .pending ∨ it.obj.kind = .refreshing) ∧ it.obj.id = it.id := by
  have key : ∀ r, C14Reachable r → PosB r.cfg → OI r := by
    intro r h
    induction h with
    | init c => intro _ it hit; cases hit
    | put id data _ ih => exact fun hp => (ih hp).congr rfl
    | @del r id _ ih =>
      obtain ⟨e1, _, _, e4, _⟩ := delObj_frame r id
      exact fun hp => (ih (by rw [← e4]; exact hp)).congr e1
    | @touch r id _ _ ih =>
      obtain ⟨e1, _, _, e4, _⟩ := touch_frame r id
      exact fun hp => (ih (by rw [← e4]; exact hp)).congr e1
    | fail l _ ih => exact fun hp => (ih hp).congr rfl
    | @quiesce r fuel hr ih =>
      intro hp
      have hP := C16_run_inv_reachable hr
      have hc : PosB r.cfg := by rw [← (hP.w.quiesce_frame fuel).2]; exact hp
      exact (ih hc).quiesce hP hc fuel
    | @advance r ms fuel hr ih =>
      intro hp
      have hP := C16_run_inv_reachable hr
      have hc : PosB r.cfg := by rw [← (hP.w.advance_frame ms fuel).2]; exact hp
      exact (ih hc).advance hP hc ms fuel
  exact key r h ⟨hmin, hcfg⟩

/-- **the recipe in the documentation of `WaitUntilReconciled` is sound**: "call repeatedly until
    both revision and retryLowWatermark are past the desired untilRevision".  In every reachable
    state with `untilRev ≤ progressRev` and (`progressLW = 0` or `untilRev < progressLW`):
    * every live object whose revision is at most `untilRev` is Done and the last call logged for
      it is a successful Update with its current data;
    * for every retained deletion with a revision up to `untilRev` the last call logged is a
      successful Delete;
    * every retry item stands for a change that was first read at a revision beyond `untilRev`,
      and so does the item of every Error object: no change that failed and has not succeeded since
      was made at or before `untilRev`.
    What the state cannot say: the revision of the user's write of a Done or Error object is not
    recorded in the table (status writes bump `rev`); it is recorded in the item (`origRev`), whose
    meaning over runs is given by `C16_run_round_item_transitions`. -/
theorem C16_run_wait_until_reconciled_success {r : R} (h : C14Reachable r) (untilRev : Nat) (hrev : untilRev ≤ r.progressRev)
    (hlw : r.progressLW = 0 ∨ untilRev < r.progressLW) :
    (∀ o ∈ r.objs, o.rev ≤ untilRev → o.kind = .done ∧ lastCall r.log o.id = some ⟨"U", o.id, o.data, true⟩) ∧
    (∀ d ∈ r.dels, d.2 ≤ untilRev → ∃ c, lastCall r.log d.1.id = some c ∧ c.op = "D" ∧ c.ok = true) ∧
    (∀ it ∈ r.items, untilRev < it.origRev) ∧
    (∀ o ∈ r.objs, o.kind = .error → ∃ it ∈ r.items, it.id = o.id ∧ it.delete = false ∧ it.rev = o.rev ∧ untilRev < it.origRev) := by
  have hp := C16_run_inv_reachable h
  have hitems : ∀ it ∈ r.items, untilRev < it.origRev := by
    intro it hit
    rcases hlw with h0 | h1
    · have := (C16_run_lw_zero_iff_no_retry h).1.1 h0
      rw [this] at hit; cases hit
    · have := C16_run_lw_lower_bound h it hit; omega
  obtain ⟨a, b⟩ := C16_run_attempted_up_to_progressRev h untilRev hrev
  refine ⟨fun o ho hle => ?_, fun d hd hle => ?_, hitems, fun o ho hk => ?_⟩
  · rcases a o ho hle with x | ⟨_, _, it, hit, _, b2, b3, _⟩
    · exact x
    · have := hitems it hit
      have := (hp.x.items it hit).updrev b2
      omega
  · rcases b d hd hle with x | ⟨_, it, hit, b1, b2, _⟩
    · exact x
    · have hi := hp.x.items it hit
      have hit' := hp.x.prog.del d hd (by simp only [v_progressRev]; omega)
      have := hi.deld b2 d hd b1.symm hit'
      have := hitems it hit
      have := hi.delrev b2
      have e : d.2 = it.rev := by rw [‹d = (it.obj, it.rev)›]
      omega
  · rcases (hp.w.rinv.inv.objOK o ho).2.1 hk with ⟨it, hit, b1, b2, b3, _⟩ | ⟨res, hres, _⟩
    · exact ⟨it, hit, b1, b2, b3, hitems it hit⟩
    · cases hres

/-- … and in terms of the user's versions (valid backoff configuration): under the same
    hypotheses, for every object that is Error its retry item still holds the version `v` whose
    Update failed first — the same object (`id`), the same contents (`data`), Pending / Refreshing —
    and that version was written at a revision beyond `untilRev`: every user version written at or
    before `untilRev` has succeeded or been superseded by a later write -/
theorem C16_run_failed_versions_are_newer {r : R} (h : C14Reachable r) (hmin : 0 < r.cfg.minB) (hcfg : r.cfg.minB ≤ r.cfg.maxB)
    (untilRev : Nat) (hlw : r.progressLW = 0 ∨ untilRev < r.progressLW) :
    ∀ o ∈ r.objs, o.kind = .error → ∃ v : RObj, v.id = o.id ∧ v.data = o.data ∧ (v.kind = .pending ∨ v.kind = .refreshing) ∧
      untilRev < v.rev ∧ v.rev < o.rev := by
  have hp := C16_run_inv_reachable h
  intro o ho hk
  rcases (hp.w.rinv.inv.objOK o ho).2.1 hk with ⟨it, hit, b1, b2, b3, _⟩ | ⟨res, hres, _⟩
  · obtain ⟨c1, c2, c3⟩ := C16_run_origRev_is_first_read h hmin hcfg it hit b2
    have hi := hp.x.items it hit
    have hlt : untilRev < it.origRev := by
      rcases hlw with h0 | h1
      · have := (C16_run_lw_zero_iff_no_retry h).1.1 h0
        rw [this] at hit; cases hit
      · have := C16_run_lw_lower_bound h it hit; omega
    have := hi.updrev b2
    exact ⟨it.obj, by omega, (hi.data b2 o ho b1.symm b3.symm).symm, c2, by omega, by omega⟩
  · cases hres

/-! ### the repaired behaviour (finding of the first version of this file) -/

/-- the scenario of the finding: one object is written once (revision 1); its Update fails for ever -/
def c16Ex : R := (({ (({} : R).userPut 1 7) with failing := [1] } : R).quiesce 10).advance 250 10

/-- with `origRev` kept over retries the low-watermark stays at the revision of the user's write
    (1) however often the retry fails (before the repair of `retries.Add` it climbed to 2, 3, …:
    `WaitUntilReconciled(1)` returned revision 3 and low-watermark 2) -/
theorem C16_run_lw_stays_at_failed_change_example :
    C14Reachable c16Ex ∧ c16Ex.triggered = false ∧
    c16Ex.objs.map (fun o => (o.id, o.data, o.kind)) = [(1, 7, .error)] ∧
    c16Ex.log = [⟨"U", 1, 7, false⟩, ⟨"U", 1, 7, false⟩] ∧
    c16Ex.progressRev = 3 ∧ c16Ex.progressLW = 1 ∧
    (c16Ex.advance 5000 20).progressLW = 1 ∧ (c16Ex.advance 5000 20).items.map (·.numRetries) = [7] := by
  refine ⟨.advance 250 10 (.quiesce 10 (.fail [1] (.put 1 7 (.init {})))), ?_⟩
  decide +kernel

/-! ## 3. pacing -/

/-- retry items change inside rounds only: user writes and deletes, foreign status writes and the
    failure switches leave them (and the reported low-watermark) alone -/
theorem C16_run_user_steps_keep_items (r : R) (id data : Nat) (l : List Nat) :
    (r.userPut id data).items = r.items ∧ (r.delObj id).items = r.items ∧ (r.touch id).items = r.items ∧
    ({ r with failing := l } : R).items = r.items ∧
    (r.userPut id data).progressLW = r.progressLW ∧ (r.delObj id).progressLW = r.progressLW ∧ (r.touch id).progressLW = r.progressLW := by
  refine ⟨rfl, (delObj_frame r id).1, (touch_frame r id).1, rfl, rfl, ?_, ?_⟩
  · unfold R.delObj; split <;> rfl
  · unfold R.touch; split <;> rfl

/-- **pacing invariant of every retry item in every reachable state**: the item counts at least one
    failure, and its retry time is the time `t` of a past failure (`t ≤ now`; at the moment
    `retries.Add` stores the item `t = now`, `C16_retryAdd_item`) plus the backoff for its count.
    With `minB ≤ maxB` the wait lies in `[minB, maxB]`; in any case the retry is due no later than
    `now + maxB`. -/
theorem C16_run_item_pacing {r : R} (h : C14Reachable r) (it : Item) (hit : it ∈ r.items) :
    1 ≤ it.numRetries ∧
    (∃ t, t ≤ r.now ∧ it.retryAt = t + backoff r.cfg.minB r.cfg.maxB it.numRetries ∧
      (r.cfg.minB ≤ r.cfg.maxB → t + r.cfg.minB ≤ it.retryAt ∧ it.retryAt ≤ t + r.cfg.maxB)) ∧
    it.retryAt ≤ r.now + r.cfg.maxB := by
  have hp := C16_run_inv_reachable h
  have hi := hp.x.items it hit
  have h1 := hi.pace1
  have h2 := hi.pace2
  simp only [v_cfg, v_now] at h1 h2
  refine ⟨hi.npos, ⟨it.retryAt - backoff r.cfg.minB r.cfg.maxB it.numRetries, by omega, by omega, fun hc => ?_⟩, hp.w.q.times it hit⟩
  have := C16_backoff_ge_min r.cfg.minB r.cfg.maxB it.numRetries hc
  have := C16_backoff_le_max r.cfg.minB r.cfg.maxB it.numRetries
  omega

/-- **a retry never runs before its retry time, hence never sooner than the minimum backoff after
    the failure** (whole rounds, any configuration).  The calls a round logs — any round of any
    run: it starts in a state satisfying the invariant — are, in this order: attempts `L1` of changes that were waiting in the change stream (live
    objects that are Pending / Refreshing and deletions beyond the iterator's position), then
    retries `L2`, and every retry call is for an item whose `retryAt` had come — an item that
    counted `n ≥ 1` failures and whose `retryAt` was `t + backoff n` for the time `t` of its last
    failure, so that (`minB ≤ maxB`) at least `minB` has passed since `t` -/
theorem C16_run_round_retries_only_when_due {r : R} (hp : PInv r) :
    ∃ L1 L2, r.round.log = r.log ++ L1 ++ L2 ∧
      (∀ c ∈ L1, (c.op = "U" ∧ ∃ o ∈ r.objs, needs o.kind ∧ r.itRev < o.rev ∧ c.id = o.id ∧ c.data = o.data) ∨
                 (c.op = "D" ∧ ∃ d ∈ r.dels, r.itDelRev < d.2 ∧ c.id = d.1.id ∧ c.data = d.1.data)) ∧
      (∀ c ∈ L2, ∃ it : Item, it.retryAt ≤ r.now ∧ c.op = (if it.delete then "D" else "U") ∧ c.id = it.id ∧ c.data = it.obj.data ∧
        ∃ t, it.retryAt = t + backoff r.cfg.minB r.cfg.maxB it.numRetries ∧ (r.cfg.minB ≤ r.cfg.maxB → t + r.cfg.minB ≤ r.now)) := by
  obtain ⟨L1, L2, e, f1, f2⟩ := round_calls_due hp.w.rinv hp.x hp.itle
  refine ⟨L1, L2, e, f1, fun c hc => ?_⟩
  obtain ⟨it, a1, _, a3, a4, a5, a6⟩ := f2 c hc
  refine ⟨it, a1, a4, a5, a6, it.retryAt - backoff r.cfg.minB r.cfg.maxB it.numRetries, by omega, fun hcfg => ?_⟩
  have := C16_backoff_ge_min r.cfg.minB r.cfg.maxB it.numRetries hcfg
  omega

/-- **what a round does to the retry items** (any round of any run; valid backoff configuration
    `0 < minB ≤ maxB`).
    The retry calls of the round are for items that were queued BEFORE the round and were due; and
    every retry item the round leaves is
    * untouched (the same item as before), or
    * FRESH: queued by the first failure for a change consumed in this round — the count starts
      over at 1 whatever was counted for the object before ("the backoff starts over after the
      object changes"), `retryAt = now + backoff 1`, and `origRev` is the revision of that change
      (of the deletion, or of the Pending / Refreshing object version), or
    * AGAIN: queued by the failure of the retry of an item `it` that was due and for whose object no
      change was waiting in the change stream (a waiting change makes the round clear the item
      instead: the count never survives a change of the object) — the count is
      `it.numRetries + 1`, `retryAt = now + backoff (it.numRetries + 1)`, and `origRev = it.origRev`:
      the revision of the change that failed first is kept for as long as the item lives. -/
theorem C16_run_round_item_transitions {r : R} (hp : PInv r) (hmin : 0 < r.cfg.minB) (hcfg : r.cfg.minB ≤ r.cfg.maxB) :
    (∃ L1 L2, r.round.log = r.log ++ L1 ++ L2 ∧ (∀ c ∈ L1, FirstAttempt r.v c) ∧
      (∀ c ∈ L2, ∃ it ∈ r.items, it.retryAt ≤ r.now ∧ c.op = (if it.delete then "D" else "U") ∧ c.id = it.id ∧ c.data = it.obj.data)) ∧
    (∀ it' ∈ r.round.items, it' ∈ r.items ∨
      (it'.numRetries = 1 ∧ it'.retryAt = r.now + backoff r.cfg.minB r.cfg.maxB 1 ∧ it'.id = it'.obj.id ∧
        ((it'.delete = true ∧ (it'.obj, it'.origRev) ∈ r.dels ∧ r.itDelRev < it'.origRev ∧ it'.rev = it'.origRev) ∨
         (it'.delete = false ∧ it'.obj ∈ r.objs ∧ needs it'.obj.kind ∧ r.itRev < it'.obj.rev ∧ it'.origRev = it'.obj.rev))) ∨
      (∃ it ∈ r.items, ¬ Stale r.objs r.dels r.itRev r.itDelRev it.id ∧ it.id = it'.id ∧ it.retryAt ≤ r.now ∧
        it'.numRetries = it.numRetries + 1 ∧
        it'.retryAt = r.now + backoff r.cfg.minB r.cfg.maxB (it.numRetries + 1) ∧ it'.origRev = it.origRev ∧
        it'.delete = it.delete ∧ it'.obj = it.obj)) := by
  obtain ⟨a, b⟩ := round_items_calls hp.w.rinv ⟨hmin, hcfg⟩
  refine ⟨a, fun it' hit' => ?_⟩
  rcases b it' hit' with c | ⟨c1, c2, _, c4, c5⟩ | ⟨it, hit, d0, d1, d2, d3, d4, d5, d6, d7, _⟩
  · exact Or.inl c
  · exact Or.inr (Or.inl ⟨c1, c2, c4, c5⟩)
  · exact Or.inr (Or.inr ⟨it, hit, d0, d1, d2, d3, d4, d5, d6, d7⟩)

/-- **the backoff starts over after the object changes**: if a change for the object of a retry
    item `it` is waiting in the change stream (the user wrote or deleted the object after the
    failure), then whatever a round leaves for that object is `it` itself, untouched (the round
    was cut short before it got to the change), or an item counting from 1 — never `it.numRetries + 1` -/
theorem C16_run_backoff_starts_over_after_change {r : R} (hp : PInv r) (hmin : 0 < r.cfg.minB) (hcfg : r.cfg.minB ≤ r.cfg.maxB)
    (it : Item) (hit : it ∈ r.items) (hst : Stale r.objs r.dels r.itRev r.itDelRev it.id) :
    ∀ it' ∈ r.round.items, it'.id = it.id →
      it' = it ∨ (it'.numRetries = 1 ∧ it'.retryAt = r.now + backoff r.cfg.minB r.cfg.maxB 1) := by
  obtain ⟨_, b⟩ := round_items_calls hp.w.rinv ⟨hmin, hcfg⟩
  intro it' hit' hid
  rcases b it' hit' with c | ⟨c1, c2, _⟩ | ⟨it0, hit0, d0, d1, _⟩
  · exact Or.inl (items_eq_of_id hp.w.rinv.inv c hit hid)
  · exact Or.inr ⟨c1, c2⟩
  · have : it0 = it := items_eq_of_id hp.w.rinv.inv hit0 hit (by omega)
    rw [this] at d0
    exact absurd hst d0

/-- **the waits do not shrink over consecutive failures and are capped**: when a due retry of `it`
    fails again (case AGAIN above), the new wait `backoff (it.numRetries + 1)` is at least the
    previous wait `backoff it.numRetries`, at least `minB` and at most `maxB` -/
theorem C16_run_waits_do_not_shrink (minB maxB n : Nat) (hcfg : minB ≤ maxB) :
    backoff minB maxB n ≤ backoff minB maxB (n + 1) ∧ minB ≤ backoff minB maxB (n + 1) ∧ backoff minB maxB (n + 1) ≤ maxB :=
  ⟨C16_backoff_monotone minB maxB n (n + 1) (by omega), C16_backoff_ge_min minB maxB (n + 1) hcfg, C16_backoff_le_max minB maxB (n + 1)⟩

/-- **the backoff starts over after a success**: in every reachable state an object that was
    reconciled successfully (Done) has no retry item — its next failure is counted from 1
    (`C16_backoff_resets_on_clear`, case FRESH of `C16_run_round_item_transitions`) -/
theorem C16_run_done_has_no_retry_item {r : R} (h : C14Reachable r) :
    ∀ o ∈ r.objs, o.kind = .done → ∀ it ∈ r.items, it.id ≠ o.id := by
  intro o ho hk
  exact ((C16_run_inv_reachable h).w.rinv.inv.objOK o ho).1 hk |>.2

/-- `minB ≤ maxB` is needed for "never sooner than the minimum": `reconciler.config.validate` only
    demands both to be positive, and with `min > max` every wait is `max` -/
theorem C16_run_wait_at_least_min_without_min_le_max_refuted :
    ¬ ∀ minB maxB n : Nat, 0 < minB → 0 < maxB → minB ≤ backoff minB maxB n := by
  intro hall
  have := hall 500 100 1 (by omega) (by omega)
  revert this
  decide

/-! ## 4. an otherwise idle reconciler retries within the maximum (plus one wake-up) -/

/-- **every queued retry runs within `maxB`.**  From any reachable state let more than the maximal
    backoff pass with nothing else happening (`advance ms fuel`, `maxB < ms`).  If the loop is idle
    at the end (which the run of `advance` decides: C14 proves it once failures have stopped; with
    failures going on it holds whenever the fuel suffices, see the example below), then for EVERY
    retry item that was queued an operation for its object was attempted meanwhile: the log grew by
    `L`, and `L` has a call for the item's object. -/
theorem C16_run_retried_within_max {r : R} (h : C14Reachable r) (ms fuel : Nat) (hms : r.cfg.maxB < ms)
    (hidle : (r.advance ms fuel).triggered = false) :
    ∃ L, (r.advance ms fuel).log = r.log ++ L ∧ ∀ it ∈ r.items, ∃ c ∈ L, c.id = it.id :=
  retried_within_max (C16_run_inv_reachable h).w ms fuel hms hidle

/-- a retry item can only disappear or change together with a call on the target for its object
    (any run of `quiesce` / `advance`, any fuel) -/
theorem C16_run_item_changes_only_with_call {r : R} (h : C14Reachable r) (ms fuel : Nat) :
    ∃ L, (r.advance ms fuel).log = r.log ++ L ∧ ∀ it ∈ r.items, it ∈ (r.advance ms fuel).items ∨ ∃ c ∈ L, c.id = it.id :=
  Tr.advance (C16_run_inv_reachable h).w.rinv ms fuel

/-! ## non-vacuity -/

/-- a reachable state with a queued retry (`c16Ex`: one object, failing, retried once) … -/
example : C14Reachable c16Ex ∧ c16Ex.items.map (fun i => (i.id, i.origRev, i.rev, i.numRetries, i.retryAt)) = [(1, 1, 3, 2, 600)] ∧
    c16Ex.now = 250 ∧ c16Ex.refreshedAt = c16Ex.tableRev := by
  refine ⟨.advance 250 10 (.quiesce 10 (.fail [1] (.put 1 7 (.init {})))), ?_⟩
  decide +kernel

/-- the invariant holds of it -/
example : PInv c16Ex := C16_run_inv_reachable (.advance 250 10 (.quiesce 10 (.fail [1] (.put 1 7 (.init {})))))

/-- the hypotheses of `C16_run_backoff_starts_over_after_change` are satisfiable: the user rewrites
    the failing object of `c16Ex` (count 2); a change for the item's object is now waiting, and the
    next round leaves an item counting from 1 again -/
example :
    let r : R := c16Ex.userPut 1 8
    r.items.map (fun i => (i.id, i.numRetries)) = [(1, 2)] ∧
    r.objs.map (fun o => (o.id, o.kind, decide (o.rev > r.itRev))) = [(1, .pending, true)] ∧
    r.round.items.map (fun i => (i.id, i.numRetries, i.origRev)) = [(1, 1, 4)] := by
  decide +kernel

/-- … and one with a Done object, an Error object with a queued retry and an applied deletion
    (`c14Ex`): the hypothesis `rev ≤ progressRev` of `C16_run_attempted_up_to_progressRev` holds for
    the revisions of all of them -/
example : c14Ex.progressRev = 7 ∧ c14Ex.objs.map (fun o => (o.id, o.rev, o.kind)) = [(1, 4, .done), (2, 5, .error)] ∧
    c14Ex.dels.map (fun d => (d.1.id, d.2)) = [(3, 7)] ∧ c14Ex.progressLW = 2 ∧ c14Ex.items.map (·.origRev) = [2] := by
  decide +kernel

/-- the hypotheses of `C16_run_retried_within_max` are satisfiable with failures going on: object 2
    keeps failing, more than `maxB` passes, the loop is idle at the end and the retry did run
    (twice: the log grew by two failed Updates of object 2) -/
example : c14Ex.cfg.maxB < 1001 ∧ (c14Ex.advance 1001 10).triggered = false ∧ c14Ex.items.length = 1 ∧
    (c14Ex.advance 1001 10).log = c14Ex.log ++ [⟨"U", 2, 8, false⟩, ⟨"U", 2, 8, false⟩] := by
  decide +kernel

/-- the cases FRESH and AGAIN of `C16_run_round_item_transitions` occur: the first failure queues
    the item with count 1 and `origRev` = the change's revision, the failed retry re-queues it with
    count 2 and the same `origRev` -/
example :
    let r0 : R := { (({} : R).userPut 1 7) with failing := [1] }
    let r1 : R := { r0.round.round with now := 200 }
    0 < r0.cfg.minB ∧ r0.cfg.minB ≤ r0.cfg.maxB ∧
    r0.round.items.map (fun i => (i.origRev, i.rev, i.numRetries, i.retryAt)) = [(1, 2, 1, 200)] ∧
    r1.fireTimer.round.items.map (fun i => (i.origRev, i.rev, i.numRetries, i.retryAt)) = [(1, 3, 2, 600)] := by
  decide +kernel

end Sdb
