import SdbModel.Model.SliceCow
import SdbModel.Generated.SliceParams
/-!
  C01, the part the stamp discipline does not cover: `lpmEntry.tail` (lpm_index.go).  The
  entries of one bucket of a non-unique LPM index are copied by value from snapshot to
  snapshot, so their `tail` slices may share one backing array.  F2 (repaired) and five of the
  seeded changes (C01c, C01j, C01k, C02k, C04k) lived exactly here: an `append` onto the shared
  slice, `slices.Insert` / `slices.Delete` on it, a re-slice followed by an append.

  Over a heap of backing arrays with Go's `append` / `copy` semantics: the two tail-rebuilding
  paths of the code write only into the array they allocate themselves, so every slice that
  existed before — the tail of every earlier snapshot's entry — reads the same afterwards; the
  shortcuts do not have that property (witnesses); and today's source takes none of them
  (`Gen.lpmEntryFacts`, regenerated).
-/
namespace Sdb
open SliceCow

/-- every array that existed in `h` is still there, unchanged -/
def SliceCow.Preserves (h h' : Heap) : Prop :=
  h.arrays.length ≤ h'.arrays.length ∧ ∀ a, a < h.arrays.length → h'.get a = h.get a

private theorem preserves_refl (h : Heap) : Preserves h h := ⟨Nat.le_refl _, fun _ _ => rfl⟩

private theorem preserves_trans {h1 h2 h3 : Heap} (a : Preserves h1 h2) (b : Preserves h2 h3) : Preserves h1 h3 :=
  ⟨Nat.le_trans a.1 b.1, fun x hx => by rw [b.2 x (Nat.lt_of_lt_of_le hx a.1), a.2 x hx]⟩

private theorem writeArr_length (h : Heap) (a i : Nat) (xs : List Nat) : (h.writeArr a i xs).arrays.length = h.arrays.length := by
  simp [Heap.writeArr]

private theorem writeArr_get_ne (h : Heap) (a a' i : Nat) (xs : List Nat) (hne : a' ≠ a) : (h.writeArr a i xs).get a' = h.get a' := by
  unfold Heap.writeArr Heap.get
  simp only [List.getElem?_mapIdx]
  cases h.arrays[a']? with
  | none => rfl
  | some arr => simp [hne]

/-- a write into an array that did not exist in `h0` preserves `h0` -/
private theorem writeArr_preserves_fresh (h0 h : Heap) (hp : Preserves h0 h) (a i : Nat) (xs : List Nat) (hf : h0.arrays.length ≤ a) :
    Preserves h0 (h.writeArr a i xs) := by
  refine ⟨by rw [writeArr_length]; exact hp.1, fun x hx => ?_⟩
  rw [writeArr_get_ne _ _ _ _ _ (by omega), hp.2 x hx]

private theorem make_preserves (h : Heap) (len cap : Nat) :
    Preserves h (h.make len cap).1 ∧ (h.make len cap).2.arr = h.arrays.length ∧ (h.make len cap).1.arrays.length = h.arrays.length + 1 := by
  refine ⟨⟨by simp [Heap.make], fun a ha => ?_⟩, rfl, by simp [Heap.make]⟩
  unfold Heap.make Heap.get
  simp only
  rw [List.getElem?_append_left ha]

/-- `append` onto a slice of an array that did not exist in `h0` (in place or reallocating)
    preserves `h0`, and the result is again a slice of an array that did not exist in `h0` -/
private theorem append_fresh (h0 h : Heap) (hp : Preserves h0 h) (s : Slice) (xs : List Nat) (hf : h0.arrays.length ≤ s.arr) :
    Preserves h0 (h.append s xs).1 ∧ h0.arrays.length ≤ (h.append s xs).2.arr := by
  unfold Heap.append
  by_cases hc : s.len + xs.length ≤ s.cap
  · simp only [hc, if_true]
    exact ⟨writeArr_preserves_fresh h0 h hp _ _ _ hf, hf⟩
  · simp only [hc, if_false]
    obtain ⟨m1, m2, _⟩ := make_preserves h (s.len + xs.length) (2 * (s.len + xs.length))
    have hp2 := preserves_trans hp m1
    have hge : h0.arrays.length ≤ (h.make (s.len + xs.length) (2 * (s.len + xs.length))).2.arr := by rw [m2]; exact hp.1
    exact ⟨writeArr_preserves_fresh h0 _ hp2 _ _ _ hge, hge⟩

/-- `append` onto ANY slice without room reallocates: also safe -/
private theorem append_full (h : Heap) (s : Slice) (xs : List Nat) (hc : ¬ s.len + xs.length ≤ s.cap) :
    Preserves h (h.append s xs).1 := by
  unfold Heap.append
  simp only [hc, if_false]
  obtain ⟨m1, m2, _⟩ := make_preserves h (s.len + xs.length) (2 * (s.len + xs.length))
  exact writeArr_preserves_fresh h _ m1 _ _ _ (by rw [m2]; exact Nat.le_refl _)

/-- **The insert path of `lpmEntry.upsert` writes nothing that existed before.** -/
theorem C01_slice_upsert_preserves (h : Heap) (tail : Slice) (idx x : Nat) : Preserves h (upsertTail h tail idx x).1 := by
  unfold upsertTail
  obtain ⟨m1, m2, _⟩ := make_preserves h 0 (tail.len + 1)
  simp only
  have a1 := append_fresh h _ m1 (h.make 0 (tail.len + 1)).2 ((h.make 0 (tail.len + 1)).1.read (tail.sub 0 idx)) (by rw [m2]; exact Nat.le_refl _)
  have a2 := append_fresh h _ a1.1 _ [x] a1.2
  exact (append_fresh h _ a2.1 _ _ a2.2).1

/-- **The removal path of `lpmEntry.delete` writes nothing that existed before.** -/
theorem C01_slice_delete_preserves (h : Heap) (tail : Slice) (idx : Nat) : Preserves h (deleteTail h tail idx).1 := by
  unfold deleteTail Heap.copyInto
  obtain ⟨m1, m2, _⟩ := make_preserves h (tail.len - 1) (tail.len - 1)
  simp only
  have w1 := writeArr_preserves_fresh h _ m1 (h.make (tail.len - 1) (tail.len - 1)).2.arr ((h.make (tail.len - 1) (tail.len - 1)).2.off + 0)
    ((h.make (tail.len - 1) (tail.len - 1)).1.read (tail.sub 0 idx)) (by rw [m2]; exact Nat.le_refl _)
  exact writeArr_preserves_fresh h _ w1 _ _ _ (by rw [m2]; exact Nat.le_refl _)

/-- what a preserved heap means for readers: every slice over an array that existed before —
    the tail of every earlier version of the entry, whichever snapshot holds it — reads the same -/
theorem C01_slice_old_views_frozen (h h' : Heap) (hp : Preserves h h') (s : Slice) (hs : s.arr < h.arrays.length) :
    h'.read s = h.read s := by
  unfold Heap.read; rw [hp.2 s.arr hs]

theorem C01_slice_upsert_old_views_frozen (h : Heap) (tail : Slice) (idx x : Nat) (s : Slice) (hs : s.arr < h.arrays.length) :
    (upsertTail h tail idx x).1.read s = h.read s :=
  C01_slice_old_views_frozen _ _ (C01_slice_upsert_preserves h tail idx x) s hs

theorem C01_slice_delete_old_views_frozen (h : Heap) (tail : Slice) (idx : Nat) (s : Slice) (hs : s.arr < h.arrays.length) :
    (deleteTail h tail idx).1.read s = h.read s :=
  C01_slice_old_views_frozen _ _ (C01_slice_delete_preserves h tail idx) s hs

/-- any sequence of the two operations, each on any slice, preserves the heap it started from -/
theorem C01_slice_runs_preserve (h : Heap) (ops : List (Slice × Nat × Option Nat)) :
    Preserves h (ops.foldl applyOp h) := by
  suffices H : ∀ hh, Preserves h hh → Preserves h (ops.foldl applyOp hh) from H h (preserves_refl h)
  induction ops with
  | nil => intro hh hp; exact hp
  | cons op ops ih =>
    intro hh hp
    refine ih _ ?_
    unfold applyOp
    cases op.2.2 with
    | some x => exact preserves_trans hp (C01_slice_upsert_preserves hh op.1 op.2.1 x)
    | none => exact preserves_trans hp (C01_slice_delete_preserves hh op.1 op.2.1)

/-! ### functional correctness of the insert path -/

private theorem sf_get_make_new (h : Heap) (l c : Nat) : (h.make l c).1.get h.arrays.length = List.replicate c 0 := by
  simp [Heap.make, Heap.get]

private theorem sf_get_make_old (h : Heap) (l c a : Nat) (ha : a < h.arrays.length) : (h.make l c).1.get a = h.get a := by
  simp [Heap.make, Heap.get, List.getElem?_append_left ha]

private theorem sf_make_len (h : Heap) (l c : Nat) : (h.make l c).1.arrays.length = h.arrays.length + 1 := by simp [Heap.make]

private theorem sf_get_writeArr_same (h : Heap) (a i : Nat) (xs : List Nat) (ha : a < h.arrays.length) :
    (h.writeArr a i xs).get a = setAt (h.get a) i xs := by
  simp [Heap.writeArr, Heap.get, List.getElem?_mapIdx, List.getElem?_eq_getElem ha]

private theorem sf_get_writeArr_other (h : Heap) (a a' i : Nat) (xs : List Nat) (hne : a' ≠ a) : (h.writeArr a i xs).get a' = h.get a' := by
  unfold Heap.writeArr Heap.get
  simp only [List.getElem?_mapIdx]
  cases h.arrays[a']? with
  | none => rfl
  | some arr => simp [hne]

private theorem sf_writeArr_len (h : Heap) (a i : Nat) (xs : List Nat) : (h.writeArr a i xs).arrays.length = h.arrays.length := by
  simp [Heap.writeArr]

/-- in-place append onto a slice with room -/
private theorem sf_append_inplace (h : Heap) (s : Slice) (xs : List Nat) (hc : s.len + xs.length ≤ s.cap) :
    h.append s xs = (h.writeArr s.arr (s.off + s.len) xs, { s with len := s.len + xs.length }) := by
  simp [Heap.append, hc]

private theorem sf_setAt_front (n : Nat) (xs : List Nat) (h : xs.length ≤ n) :
    setAt (List.replicate n 0) 0 xs = xs ++ List.replicate (n - xs.length) 0 := by
  simp [setAt]

private theorem sf_setAt_mid (a r xs : List Nat) : setAt (a ++ r) a.length xs = a ++ xs ++ r.drop xs.length := by
  simp [setAt, List.take_append, List.drop_append, Nat.add_sub_cancel_left]

private theorem sf_read_sub_front (h : Heap) (t : Slice) (idx : Nat) (hi : idx ≤ t.len) :
    h.read (t.sub 0 idx) = (h.read t).take idx := by
  simp [Heap.read, Slice.sub, List.take_take, Nat.min_eq_left hi]

private theorem sf_read_sub_back (h : Heap) (t : Slice) (idx : Nat) (hi : idx ≤ t.len) :
    h.read (t.sub idx t.len) = (h.read t).drop idx := by
  simp [Heap.read, Slice.sub, List.drop_take, List.drop_drop, Nat.add_comm]




private theorem sf_read_len (h : Heap) (t : Slice) (hb : t.off + t.len ≤ (h.get t.arr).length) : (h.read t).length = t.len := by
  simp [Heap.read]; omega

private theorem sf_read_make_old (h : Heap) (l c : Nat) (s : Slice) (hs : s.arr < h.arrays.length) : (h.make l c).1.read s = h.read s := by
  simp [Heap.read, sf_get_make_old h l c s.arr hs]

private theorem sf_read_writeArr_other (h : Heap) (a i : Nat) (xs : List Nat) (s : Slice) (hne : s.arr ≠ a) : (h.writeArr a i xs).read s = h.read s := by
  simp [Heap.read, sf_get_writeArr_other h a s.arr i xs hne]

/-- **The insert path computes the intended tail**: the new slice reads the old tail with the
    object inserted at its position (the shared array is left alone: `C01_slice_upsert_preserves`) -/
theorem C01_slice_upsert_result (h : Heap) (t : Slice) (idx x : Nat)
    (ha : t.arr < h.arrays.length) (hb : t.off + t.len ≤ (h.get t.arr).length) (hi : idx ≤ t.len) :
    (upsertTail h t idx x).1.read (upsertTail h t idx x).2 = (h.read t).take idx ++ x :: (h.read t).drop idx := by
  have hlen := sf_read_len h t hb
  have hne : t.arr ≠ h.arrays.length := by omega
  -- names
  let n0 := h.arrays.length
  let h1 := (h.make 0 (t.len + 1)).1
  let nt0 : Slice := { arr := n0, off := 0, len := 0, cap := t.len + 1 }
  have hmk : h.make 0 (t.len + 1) = (h1, nt0) := rfl
  let A := (h.read t).take idx
  let B := (h.read t).drop idx
  have hA : h1.read (t.sub 0 idx) = A := by
    rw [sf_read_make_old h _ _ _ (by simpa [Slice.sub] using ha), sf_read_sub_front h t idx hi]
  have hAl : A.length = idx := by simp [A, hlen]; omega
  have hBl : B.length = t.len - idx := by simp [B, hlen]
  -- step 1
  have c1 : nt0.len + A.length ≤ nt0.cap := by simp [nt0, hAl]; omega
  let h2 := h1.writeArr n0 0 A
  let nt1 : Slice := { nt0 with len := A.length }
  have s1 : h1.append nt0 A = (h2, nt1) := by rw [sf_append_inplace h1 nt0 A c1]; simp [h2, nt1, nt0]
  have g2 : h2.get n0 = A ++ List.replicate (t.len + 1 - idx) 0 := by
    rw [sf_get_writeArr_same h1 n0 0 A (by simp [h1, sf_make_len, n0]), sf_get_make_new, sf_setAt_front _ _ (by omega), hAl]
  -- step 2
  have c2 : nt1.len + [x].length ≤ nt1.cap := by simp [nt1, nt0, hAl]; omega
  let h3 := h2.writeArr n0 idx [x]
  let nt2 : Slice := { nt1 with len := idx + 1 }
  have s2 : h2.append nt1 [x] = (h3, nt2) := by
    rw [sf_append_inplace h2 nt1 [x] c2]; simp [h3, nt2, nt1, nt0, hAl]
  have g3 : h3.get n0 = A ++ [x] ++ List.replicate (t.len - idx) 0 := by
    rw [sf_get_writeArr_same h2 n0 idx [x] (by simp [h2, sf_writeArr_len, h1, sf_make_len, n0]), g2]
    have := sf_setAt_mid A (List.replicate (t.len + 1 - idx) 0) [x]
    rw [hAl] at this; rw [this]
    simp; omega
  have hB : h3.read (t.sub idx t.len) = B := by
    rw [sf_read_writeArr_other _ _ _ _ _ (by simpa [Slice.sub] using hne), sf_read_writeArr_other _ _ _ _ _ (by simpa [Slice.sub] using hne),
        sf_read_make_old h _ _ _ (by simpa [Slice.sub] using ha), sf_read_sub_back h t idx hi]
  -- step 3
  have c3 : nt2.len + B.length ≤ nt2.cap := by simp [nt2, nt1, nt0, hBl]; omega
  let h4 := h3.writeArr n0 (idx + 1) B
  have s3 : h3.append nt2 B = (h4, { nt2 with len := idx + 1 + B.length }) := by
    rw [sf_append_inplace h3 nt2 B c3]; simp [h4, nt2, nt1, nt0]
  have g4 : h4.get n0 = A ++ [x] ++ B := by
    rw [sf_get_writeArr_same h3 n0 (idx + 1) B (by simp [h3, h2, sf_writeArr_len, h1, sf_make_len, n0]), g3]
    have := sf_setAt_mid (A ++ [x]) (List.replicate (t.len - idx) 0) B
    simp only [List.length_append, hAl, List.length_singleton] at this
    rw [this, hBl]; simp
  -- assemble
  have hu : upsertTail h t idx x = (h4, { nt2 with len := idx + 1 + B.length }) := by
    unfold upsertTail
    simp only [hmk, hA, s1, s2, hB, s3]
  rw [hu]
  simp only [Heap.read, nt2, nt1, nt0, g4, List.drop_zero]
  rw [List.take_of_length_le (by simp [hAl, hBl]; omega)]
  simp [A, B, Heap.read]

/-! ### the shortcuts are NOT safe (why each regenerated fact is needed) -/

/-- a heap with one array `[10,20,30,40,_,_,_,_]` and the tail `[10,20,30,40]` over it -/
private def h0 : Heap := { arrays := [[10, 20, 30, 40, 0, 0, 0, 0]] }
private def t0 : Slice := { arr := 0, off := 0, len := 4, cap := 8 }

/-- `append(e.tail, x)`: harmless for the old view by itself (it writes behind the old length) … -/
example : (upsertTailInPlace h0 t0 50).1.read t0 = [10, 20, 30, 40] := by decide
/-- … but after the last element left by a re-slice (`e.tail = e.tail[:n-1]`), the append
    overwrites the slot the OLD view still shows (seeded C01k / C04k): -/
theorem C01_slice_reslice_then_append_refuted :
    (upsertTailInPlace h0 (deleteLastByReslice t0) 50).1.read t0 = [10, 20, 30, 50] := by decide
/-- `slices.Insert` with room shifts in place (seeded C01j): modelled as a copy into the tail's own array -/
theorem C01_slice_shift_in_place_refuted :
    (h0.copyInto t0 2 [25, 30, 40]).read t0 = [10, 20, 25, 30] := by decide
/-- the code's paths on the same inputs leave the old view alone -/
example : (upsertTail h0 t0 2 25).1.read t0 = [10, 20, 30, 40] ∧
    (upsertTail h0 t0 2 25).1.read (upsertTail h0 t0 2 25).2 = [10, 20, 25, 30, 40] := by decide
example : (deleteTail h0 t0 3).1.read t0 = [10, 20, 30, 40] ∧
    (deleteTail h0 t0 3).1.read (deleteTail h0 t0 3).2 = [10, 20, 30] := by decide

/-- today's `lpmEntry.upsert` / `delete` assign `e.tail` only slices they made themselves and
    never use `e.tail` as a destination or assign through it -/
theorem C01_slice_entry_discipline : Gen.lpmEntryFacts = SliceCow.expectedEntryFacts := by decide

end Sdb
