import SdbModel.Model.KeySet
/-!
  C04, the glue between an indexer and the index: "none missing, none stale … for empty keys
  and keys containing any byte values".  The table layer indexes an object under exactly the
  keys `KeySet.Foreach` visits and finds stale entries with `KeySet.Exists`; F7 (repaired) was a
  `KeySet` that could not tell the empty set from the set holding the empty key.
-/
namespace Sdb
open KS

/-- **`Foreach` visits exactly the keys the set was made of, in order** — also when the first
    key, or any key, is empty -/
theorem C04_keyset_foreach_is_keys (ks : List (List Nat)) : (newKeySet ks).toList = ks := by
  cases ks <;> rfl

/-- **`Exists` is membership**, for every key including the empty one -/
theorem C04_keyset_exists_iff (ks : List (List Nat)) (k : List Nat) : (newKeySet ks).exists k = true ↔ k ∈ ks := by
  cases ks with
  | nil => simp [newKeySet, KeySet.exists]
  | cons a rest =>
    simp only [newKeySet, KeySet.exists, Bool.not_true, Bool.false_eq_true, if_false, List.mem_cons]
    by_cases h : a = k
    · simp [h]
    · have h' : ¬ k = a := fun e => h e.symm
      have hb : (a == k) = false := by simpa using h
      simp only [hb, Bool.false_eq_true, if_false, h', false_or, List.any_eq_true, beq_iff_eq]
      constructor
      · rintro ⟨x, hx, rfl⟩; exact hx
      · intro hk; exact ⟨k, hk, rfl⟩

/-- the empty set has no member — not even the empty key; the set holding only the empty key has it -/
theorem C04_keyset_empty_vs_empty_key :
    (newKeySet []).exists [] = false ∧ (newKeySet [[]]).exists [] = true ∧
    (newKeySet []).toList = [] ∧ (newKeySet [[]]).toList = [[]] := by decide

/-- every constructor yields one key per element, in order: an object is indexed under the key
    of each element of its collection, none dropped -/
theorem C04_keyset_constructors_complete {α : Type} (toKey : α → List Nat) (xs : List α) :
    (ofElems toKey xs).toList = xs.map toKey ∧ ∀ x ∈ xs, (ofElems toKey xs).exists (toKey x) = true := by
  refine ⟨C04_keyset_foreach_is_keys _, fun x hx => ?_⟩
  unfold ofElems
  rw [C04_keyset_exists_iff]
  exact List.mem_map.2 ⟨x, hx, rfl⟩

/-- `First` is the first key visited -/
theorem C04_keyset_first (k : List Nat) (ks : List (List Nat)) : (newKeySet (k :: ks)).first = k := rfl

end Sdb
