import SdbModel.Model.PMap
import SdbModel.Lemmas.PMap
/-!
  C17: "… Len, Get/Has and the equality predicates all consistent with it".
  `Map.equalWith` models the `switch` of `Map.EqualKeys` / `Map.SlowEqual` (part/map.go):
  lengths, the two-singletons case, the two-empty case and otherwise the loop over the two
  tree iterators, the first one driving.  For maps in canonical representation (every map
  the API builds: `C17_reachable_canonical`) the predicates say exactly "same keys" / "same
  entries".  For a NON-canonical map they do not (note N6): witness below.
-/
namespace Sdb
open Art PMap

private theorem eqLoop_keys (l1 l2 : List KV) (h : l1.length = l2.length) :
    eqLoop false l1 l2 = true ↔ l1.map (·.1) = l2.map (·.1) := by
  induction l1 generalizing l2 with
  | nil => cases l2 with
    | nil => simp [eqLoop]
    | cons b r => simp at h
  | cons a r ih =>
    cases l2 with
    | nil => simp at h
    | cons b r2 =>
      obtain ⟨k1, v1⟩ := a
      obtain ⟨k2, v2⟩ := b
      have hl : r.length = r2.length := by simpa using h
      simp only [eqLoop, Bool.not_false, Bool.true_or, Bool.and_true, Bool.and_eq_true, beq_iff_eq, List.map_cons, List.cons.injEq]
      rw [ih r2 hl]

private theorem eqLoop_vals (l1 l2 : List KV) (h : l1.length = l2.length) :
    eqLoop true l1 l2 = true ↔ l1 = l2 := by
  induction l1 generalizing l2 with
  | nil => cases l2 with
    | nil => simp [eqLoop]
    | cons b r => simp at h
  | cons a r ih =>
    cases l2 with
    | nil => simp at h
    | cons b r2 =>
      obtain ⟨k1, v1⟩ := a
      obtain ⟨k2, v2⟩ := b
      have hl : r.length = r2.length := by simpa using h
      simp only [eqLoop, Bool.not_true, Bool.false_or, Bool.and_eq_true, beq_iff_eq, List.cons.injEq, Prod.mk.injEq]
      rw [ih r2 hl]

private theorem equalWith_iff (vals : Bool) (m o : PMap.Map) (hm : MapCanon m) (ho : MapCanon o)
    (P : List KV → List KV → Prop)
    (hloop : ∀ l1 l2 : List KV, l1.length = l2.length → (eqLoop vals l1 l2 = true ↔ P l1 l2))
    (hsingle : ∀ k1 v1 k2 v2, ((k1 == k2 && (!vals || v1 == v2)) = true ↔ P [(k1, v1)] [(k2, v2)]))
    (hnil : P [] []) (hlen : ∀ l1 l2, P l1 l2 → l1.length = l2.length) :
    m.equalWith vals o = true ↔ P m.all o.all := by
  have lm := len_length m hm.1
  have lo := len_length o ho.1
  unfold Map.equalWith
  by_cases hne : m.len = o.len
  · have hlen' : m.all.length = o.all.length := by rw [← lm, ← lo, hne]
    simp only [hne, bne_self_eq_false, Bool.false_eq_true, if_false]
    rcases hm.1.cases with rfl | ⟨⟨k1, v1⟩, rfl⟩ | ⟨t, rfl, ht⟩
    · -- m empty: o has length 0
      rcases ho.1.cases with rfl | ⟨e2, rfl⟩ | ⟨t2, rfl, ht2⟩
      · simpa [Map.all] using hnil
      · simp [Map.all] at hlen'
      · have := ho.2 t2 rfl
        simp only [Map.all] at hlen'
        rw [ht2.2, ← hlen'] at this; simp at this
    · rcases ho.1.cases with rfl | ⟨⟨k2, v2⟩, rfl⟩ | ⟨t2, rfl, ht2⟩
      · simp [Map.all] at hlen'
      · simpa [Map.all] using hsingle k1 v1 k2 v2
      · have := ho.2 t2 rfl
        simp only [Map.all] at hlen'
        rw [ht2.2, ← hlen'] at this; simp at this
    · have h2 := hm.2 t rfl
      rcases ho.1.cases with rfl | ⟨e2, rfl⟩ | ⟨t2, rfl, ht2⟩
      · simp only [Map.all] at hlen'
        rw [ht.2, hlen'] at h2; simp at h2
      · simp only [Map.all] at hlen'
        rw [ht.2, hlen'] at h2; simp at h2
      · simp only [Map.all] at hlen' ⊢
        simp only [Option.isNone_some, Bool.false_and, Bool.false_eq_true, if_false, Map.treeEntries]
        exact hloop _ _ hlen'
  · have hne' : (m.len != o.len) = true := by simpa using hne
    simp only [hne', if_true, Bool.false_eq_true, false_iff]
    intro hp
    apply hne
    rw [lm, lo]; exact hlen _ _ hp

/-- **EqualKeys holds exactly when both maps have the same keys** (canonical maps) -/
theorem C17_map_equalKeys_iff (m o : PMap.Map) (hm : MapCanon m) (ho : MapCanon o) :
    m.equalKeys o = true ↔ m.all.map (·.1) = o.all.map (·.1) :=
  equalWith_iff false m o hm ho (fun a b => a.map (·.1) = b.map (·.1)) eqLoop_keys
    (by intro k1 v1 k2 v2; simp) rfl
    (by intro l1 l2 h; have := congrArg List.length h; simpa using this)

/-- **SlowEqual holds exactly when both maps have the same entries** (canonical maps) -/
theorem C17_map_slowEqual_iff (m o : PMap.Map) (hm : MapCanon m) (ho : MapCanon o) :
    m.slowEqual o = true ↔ m.all = o.all :=
  equalWith_iff true m o hm ho (fun a b => a = b) eqLoop_vals
    (by intro k1 v1 k2 v2; simp) rfl
    (by intro l1 l2 h; rw [h])

/-- both predicates are reflexive and symmetric on canonical maps, SlowEqual implies EqualKeys -/
theorem C17_map_equal_laws (m o : PMap.Map) (hm : MapCanon m) (ho : MapCanon o) :
    m.slowEqual m = true ∧ m.equalKeys m = true ∧
    (m.slowEqual o = o.slowEqual m) ∧ (m.equalKeys o = o.equalKeys m) ∧
    (m.slowEqual o = true → m.equalKeys o = true) := by
  refine ⟨(C17_map_slowEqual_iff m m hm hm).2 rfl, (C17_map_equalKeys_iff m m hm hm).2 rfl, ?_, ?_, ?_⟩
  · rw [Bool.eq_iff_iff, C17_map_slowEqual_iff m o hm ho, C17_map_slowEqual_iff o m ho hm]; exact eq_comm
  · rw [Bool.eq_iff_iff, C17_map_equalKeys_iff m o hm ho, C17_map_equalKeys_iff o m ho hm]; exact eq_comm
  · intro h
    rw [C17_map_slowEqual_iff m o hm ho] at h
    rw [C17_map_equalKeys_iff m o hm ho, h]

/-- note N6: on a NON-canonical map (a one-entry tree, as decoding input with duplicate keys
    produces) the predicates are wrong — a singleton {a ↦ 1} is reported equal to the
    one-entry tree {b ↦ 2} -/
theorem C17_map_equal_noncanonical_refuted :
    let single : PMap.Map := { single := some ([97], 1) }
    let tree1 : PMap.Map := { tree := some (commitT (insT defaultParams (txnOf emptyTree) [98] 2)) }
    single.slowEqual tree1 = true ∧ single.all ≠ tree1.all := by decide

end Sdb
