import SdbModel.Model.RecLoop
import SdbModel.Generated.LoopParams
/-!
  C15, the refresher's share: "Its writes change nothing but the status of the object … the
  newer version is neither overwritten nor lost nor a deleted object re-created".

  `RecLoop.refreshPass` models one pass of `reconciler.refreshLoop` with the writes of other
  transactions committing between the refresher's read of the snapshot and each of its
  marking transactions (any writes, any grouping).  The structural facts it builds in
  (`Gen.loopFacts`: revision re-check under the table lock, `StatusRefreshing()` written
  onto a clone of the object just read, only for Done objects, the pass stops at the first
  young object, the cursor moves) are regenerated from the source — `C15_loop_source_facts`.
-/
namespace Sdb
open RecLoop

/-! ### the table primitives -/

private theorem find_map_replace (xs : List FObj) (o' : FObj) (id : Nat) :
    (xs.map (fun x => if x.id = o'.id then o' else x)).find? (fun x => decide (x.id = id)) =
      if id = o'.id then (if xs.any (fun x => decide (x.id = o'.id)) then some o' else none)
      else xs.find? (fun x => decide (x.id = id)) := by
  induction xs with
  | nil => simp
  | cons x xs ih =>
    simp only [List.map_cons, List.find?_cons, List.any_cons]
    by_cases hx : x.id = o'.id
    · by_cases hid : id = o'.id
      · simp [hx, hid]
      · have h2 : ¬ o'.id = id := fun h => hid h.symm
        have h3 : ¬ x.id = id := by rw [hx]; exact h2
        simp only [hx, if_true, h2, decide_false, h3, hid, if_false]
        rw [ih]; simp [hid]
    · by_cases hxi : x.id = id
      · have : ¬ id = o'.id := by rw [← hxi]; exact hx
        simp [hx, hxi, this]
      · simp only [hx, if_false, hxi, decide_false, Bool.false_or]
        exact ih

theorem ftable_get_set (t : FTable) (o : FObj) (id : Nat) :
    (t.set o).get id = if id = o.id then some { o with rev := t.rev + 1 } else t.get id := by
  unfold FTable.set FTable.get
  simp only
  by_cases hany : t.objs.any (fun x => decide (x.id = o.id)) = true
  · simp only [hany, if_true]
    have := find_map_replace t.objs { o with rev := t.rev + 1 } id
    simp only at this
    rw [this]
    by_cases hid : id = o.id <;> simp [hid, hany]
  · simp only [hany, Bool.false_eq_true, if_false, List.find?_append]
    have hnone : t.objs.find? (fun x => decide (x.id = o.id)) = none := by
      rw [List.find?_eq_none]
      intro y hy hyid
      apply hany
      simp only [List.any_eq_true]
      exact ⟨y, hy, hyid⟩
    by_cases hid : id = o.id
    · subst hid; simp [hnone]
    · have : ¬ o.id = id := fun h => hid h.symm
      simp [hid, this]

theorem ftable_get_filter_ne (t : FTable) (id id' : Nat) :
    ({ t with objs := t.objs.filter (·.id ≠ id) } : FTable).get id' = if id' = id then none else t.get id' := by
  unfold FTable.get
  simp only
  induction t.objs with
  | nil => simp
  | cons x xs ih =>
    by_cases hx : x.id = id
    · simp only [List.filter_cons, hx, ne_eq, not_true_eq_false, decide_false, Bool.false_eq_true, if_false, List.find?_cons]
      by_cases hid : id' = id
      · simpa [hid] using ih
      · have : ¬ id = id' := fun h => hid h.symm
        simp only [this, decide_false]; simpa [hid] using ih
    · simp only [List.filter_cons, ne_eq, hx, not_false_eq_true, decide_true, if_true, List.find?_cons]
      by_cases hxi : x.id = id'
      · have : ¬ id' = id := by rw [← hxi]; exact hx
        simp [hxi, this]
      · simp only [hxi, decide_false]; exact ih

theorem ftable_view_applyEnv (t : FTable) (now : Nat) (w : EnvWrite) :
    (t.applyEnv now w).view = viewApply t.view w := by
  funext i
  cases w with
  | put id data =>
    simp only [FTable.applyEnv, FTable.view, viewApply]
    have := ftable_get_set t { id, data, kind := .pending, sid := t.nextSid, updatedAt := now, rev := 0 } i
    simp only [FTable.get] at this ⊢
    rw [this]
    by_cases h : i = id <;> simp [h]
  | del id =>
    simp only [FTable.applyEnv, FTable.view, viewApply]
    have := ftable_get_filter_ne t id i
    simp only [FTable.get] at this ⊢
    rw [this]
    by_cases h : i = id <;> simp [h]
  | status id k =>
    simp only [FTable.applyEnv, FTable.view, viewApply]
    cases hg : t.get id with
    | none =>
      simp only
      by_cases h : i = id
      · subst h; simp [hg]
      · simp [h]
    | some o =>
      simp only
      have hoid : o.id = id := by
        have := List.find?_some hg; simpa using this
      have := ftable_get_set t { o with kind := k, sid := t.nextSid, updatedAt := now } i
      simp only [FTable.get] at this ⊢
      rw [this]
      by_cases h : i = id
      · subst h; simp [hoid, FTable.get] at hg ⊢
      · simp [h, hoid]

/-! ### the marking transaction -/

/-- **A changed or deleted object is not touched.**  If, under the table lock, the object is
    gone or has another revision than the one read from the snapshot, the marking transaction
    writes nothing: the newer version is not overwritten, a deleted object not re-created. -/
theorem C15_refresh_mark_stale_is_noop (t : FTable) (now id rev : Nat)
    (h : t.get id = none ∨ ∃ cur, t.get id = some cur ∧ cur.rev ≠ rev) : t.mark now id rev = t := by
  unfold FTable.mark
  rcases h with h | ⟨cur, h, hne⟩
  · simp [h]
  · simp [h, hne]

/-- an unchanged object gets the status Refreshing (fresh id and time) and nothing else changes
    on it; the table assigns the next revision -/
theorem C15_refresh_mark_result (t : FTable) (now id rev : Nat) (cur : FObj) (h : t.get id = some cur) (hrev : cur.rev = rev) :
    (t.mark now id rev).get id =
      some { cur with kind := .refreshing, sid := t.nextSid, updatedAt := now, rev := t.rev + 1 } := by
  have hoid : cur.id = id := by have := List.find?_some h; simpa using this
  subst hrev
  unfold FTable.mark
  simp only [h, if_true]
  have := ftable_get_set t { cur with kind := .refreshing, sid := t.nextSid, updatedAt := now } id
  simp only [FTable.get] at this ⊢
  rw [this]; simp [hoid]

/-- no other object is touched -/
theorem C15_refresh_mark_other_untouched (t : FTable) (now id rev id' : Nat) (hne : id' ≠ id) :
    (t.mark now id rev).get id' = t.get id' := by
  unfold FTable.mark
  cases h : t.get id with
  | none => rfl
  | some cur =>
    have hoid : cur.id = id := by have := List.find?_some h; simpa using this
    simp only
    split
    · have := ftable_get_set t { cur with kind := .refreshing, sid := t.nextSid, updatedAt := now } id'
      simp only [FTable.get] at this ⊢
      rw [this]; simp [hoid, hne]
    · rfl

/-- **Only the status is written**: existence and data of every object are as before -/
theorem C15_refresh_mark_keeps_data (t : FTable) (now id rev : Nat) : (t.mark now id rev).dataOf = t.dataOf := by
  funext i
  unfold FTable.dataOf
  by_cases hi : i = id
  · subst hi
    cases h : t.get i with
    | none => rw [C15_refresh_mark_stale_is_noop t now i rev (Or.inl h), h]
    | some cur =>
      by_cases hrev : cur.rev = rev
      · rw [C15_refresh_mark_result t now i rev cur h hrev]; rfl
      · rw [C15_refresh_mark_stale_is_noop t now i rev (Or.inr ⟨cur, h, hrev⟩), h]
  · rw [C15_refresh_mark_other_untouched t now id rev i hi]

theorem ftable_view_mark_other (t : FTable) (now id rev id' : Nat) (hne : id' ≠ id) :
    (t.mark now id rev).view id' = t.view id' := by
  unfold FTable.view; rw [C15_refresh_mark_other_untouched t now id rev id' hne]

/-! ### a whole pass, with other writers committing in between -/

/-- two tables that show the same data / the same view outside a set of ids keep doing so
    under the same foreign write -/
private theorem agree_applyEnv (S : List Nat) (t u : FTable) (now : Nat) (w : EnvWrite)
    (hd : t.dataOf = u.dataOf) (hv : ∀ i, i ∉ S → t.view i = u.view i) :
    (t.applyEnv now w).dataOf = (u.applyEnv now w).dataOf ∧ ∀ i, i ∉ S → (t.applyEnv now w).view i = (u.applyEnv now w).view i := by
  have hdv : ∀ (x : FTable), x.dataOf = fun i => (x.view i).map (·.1) := by
    intro x; funext i; unfold FTable.dataOf FTable.view; cases x.get i <;> rfl
  have hd' : ∀ i, (t.view i).map (·.1) = (u.view i).map (·.1) := by
    intro i; have := congrFun hd i; rw [hdv t, hdv u] at this; exact this
  constructor
  · rw [hdv, hdv]; funext i
    rw [ftable_view_applyEnv, ftable_view_applyEnv]
    cases w with
    | put id data => simp only [viewApply]; by_cases h : i = id <;> simp [h, hd']
    | del id => simp only [viewApply]; by_cases h : i = id <;> simp [h, hd']
    | status id k =>
      simp only [viewApply]
      by_cases h : i = id
      · simp only [h, if_true, Option.map_map]
        have := hd' id
        cases h1 : t.view id <;> cases h2 : u.view id <;> simp_all
      · simp [h, hd']
  · intro i hi
    rw [ftable_view_applyEnv, ftable_view_applyEnv]
    cases w with
    | put id data => simp only [viewApply]; by_cases h : i = id <;> simp [h, hv i hi]
    | del id => simp only [viewApply]; by_cases h : i = id <;> simp [h, hv i hi]
    | status id k =>
      simp only [viewApply]
      by_cases h : i = id
      · subst h; simp [hv i hi]
      · simp [h, hv i hi]

private theorem agree_foldl (S : List Nat) (now : Nat) (ws : List EnvWrite) (t u : FTable)
    (hd : t.dataOf = u.dataOf) (hv : ∀ i, i ∉ S → t.view i = u.view i) :
    (ws.foldl (fun t w => t.applyEnv now w) t).dataOf = (ws.foldl (fun t w => t.applyEnv now w) u).dataOf ∧
    ∀ i, i ∉ S → (ws.foldl (fun t w => t.applyEnv now w) t).view i = (ws.foldl (fun t w => t.applyEnv now w) u).view i := by
  induction ws generalizing t u with
  | nil => exact ⟨hd, hv⟩
  | cons w ws ih =>
    obtain ⟨a, b⟩ := agree_applyEnv S t u now w hd hv
    exact ih _ _ a b

private theorem pass_agree (interval now : Nat) (S : List Nat) (snap : List FObj) (r : Refresher) (t u : FTable)
    (envs : List (List EnvWrite))
    (hS : ∀ o ∈ markable interval now snap, o.id ∈ S)
    (hd : t.dataOf = u.dataOf) (hv : ∀ i, i ∉ S → t.view i = u.view i) :
    (refreshPass interval now r t snap envs).2.1.dataOf = (envPass interval now u snap envs).dataOf ∧
    ∀ i, i ∉ S → (refreshPass interval now r t snap envs).2.1.view i = (envPass interval now u snap envs).view i := by
  induction snap generalizing r t u envs with
  | nil => exact ⟨hd, hv⟩
  | cons o os ih =>
    unfold refreshPass envPass
    by_cases hy : now - o.updatedAt < interval
    · simp only [hy, if_true]; exact ⟨hd, hv⟩
    · simp only [hy, if_false]
      obtain ⟨a, b⟩ := agree_foldl S now (envs.headD []) t u hd hv
      by_cases hk : o.kind = .done
      · simp only [hk, if_true]
        have hoS : o.id ∈ S := hS o (by simp [markable, hy, hk])
        refine ih _ _ _ _ (fun x hx => hS x (by simp [markable, hy, hk, hx])) ?_ ?_
        · rw [C15_refresh_mark_keeps_data]; exact a
        · intro i hi
          have : i ≠ o.id := fun h => hi (h ▸ hoS)
          rw [ftable_view_mark_other _ _ _ _ _ this]; exact b i hi
      · simp only [hk, if_false]
        exact ih _ _ _ _ (fun x hx => hS x (by simp [markable, hy, hk, hx])) a b

/-- **The refresher's writes change nothing but the status.**  After a pass — over any
    snapshot, with any writes of other transactions committing between its marking
    transactions — every object exists or not, and carries the data, exactly as if the
    refresher had not run at all (`envPass`: the other writers alone).  No user write is
    overwritten or lost, no deleted object re-created, whatever the interleaving. -/
theorem C15_refresh_pass_changes_only_status (interval now : Nat) (r : Refresher) (t : FTable)
    (snap : List FObj) (envs : List (List EnvWrite)) :
    (refreshPass interval now r t snap envs).2.1.dataOf = (envPass interval now t snap envs).dataOf :=
  (pass_agree interval now ((markable interval now snap).map (·.id)) snap r t t envs
    (fun o ho => List.mem_map.2 ⟨o, ho, rfl⟩) rfl (fun _ _ => rfl)).1

/-- **Only objects that were Done and old enough in the snapshot are marked.**  Every other
    object — Pending, Refreshing, Error, younger than the interval, or behind a younger one in
    revision order — shows the same data AND status as without the refresher. -/
theorem C15_refresh_pass_marks_only_done_old (interval now : Nat) (r : Refresher) (t : FTable)
    (snap : List FObj) (envs : List (List EnvWrite)) (i : Nat)
    (hi : ∀ o ∈ markable interval now snap, o.id ≠ i) :
    (refreshPass interval now r t snap envs).2.1.view i = (envPass interval now t snap envs).view i :=
  (pass_agree interval now ((markable interval now snap).map (·.id)) snap r t t envs
    (fun o ho => List.mem_map.2 ⟨o, ho, rfl⟩) rfl (fun _ _ => rfl)).2 i
    (by intro h; obtain ⟨o, ho, hoi⟩ := List.mem_map.1 h; exact hi o ho hoi)

theorem C15_refresh_markable_done_old (interval now : Nat) (snap : List FObj) :
    ∀ o ∈ markable interval now snap, o ∈ snap ∧ o.kind = .done ∧ interval ≤ now - o.updatedAt := by
  induction snap with
  | nil => simp [markable]
  | cons x xs ih =>
    intro o ho
    unfold markable at ho
    by_cases hy : now - x.updatedAt < interval
    · simp [hy] at ho
    · simp only [hy, if_false] at ho
      by_cases hk : x.kind = .done
      · simp only [hk, if_true, List.mem_cons] at ho
        rcases ho with rfl | ho
        · exact ⟨by simp, hk, by omega⟩
        · obtain ⟨a, b, c⟩ := ih o ho; exact ⟨by simp [a], b, c⟩
      · simp only [hk, if_false] at ho
        obtain ⟨a, b, c⟩ := ih o ho; exact ⟨by simp [a], b, c⟩

/-- a young first object ends the pass at once: nothing is written, the cursor stays, and the
    next pass is due when that object reaches the interval -/
theorem C15_refresh_young_stops (interval now : Nat) (r : Refresher) (t : FTable) (o : FObj) (os : List FObj)
    (envs : List (List EnvWrite)) (hy : now - o.updatedAt < interval) :
    refreshPass interval now r t (o :: os) envs = (r, t, interval - (now - o.updatedAt)) ∧
    0 < interval - (now - o.updatedAt) ∧ interval - (now - o.updatedAt) ≤ interval := by
  refine ⟨by simp [refreshPass, hy], by omega, by omega⟩

/-- the cursor never moves backwards over a snapshot in ascending revision order -/
theorem C15_refresh_cursor_monotone (interval now : Nat) (snap : List FObj) (r : Refresher) (t : FTable)
    (envs : List (List EnvWrite)) (hasc : snap.Pairwise (fun a b => a.rev ≤ b.rev)) (hab : ∀ o ∈ snap, r.lastRev ≤ o.rev) :
    r.lastRev ≤ (refreshPass interval now r t snap envs).1.lastRev := by
  induction snap generalizing r t envs with
  | nil => simp [refreshPass]
  | cons o os ih =>
    unfold refreshPass
    by_cases hy : now - o.updatedAt < interval
    · simp [hy]
    · simp only [hy, if_false]
      have h1 : r.lastRev ≤ o.rev := hab o (by simp)
      have hasc' := (List.pairwise_cons.1 hasc)
      split
      · exact Nat.le_trans h1 (ih { r with lastRev := o.rev } _ _ hasc'.2 (fun x hx => hasc'.1 x hx))
      · exact Nat.le_trans h1 (ih { r with lastRev := o.rev } _ _ hasc'.2 (fun x hx => hasc'.1 x hx))

/-! ### non-vacuity -/

private def ft : FTable :=
  { objs := [{ id := 1, data := 10, kind := .done, sid := 1, updatedAt := 0, rev := 1 },
             { id := 2, data := 20, kind := .error, sid := 2, updatedAt := 0, rev := 2 },
             { id := 3, data := 30, kind := .done, sid := 3, updatedAt := 0, rev := 3 },
             { id := 4, data := 40, kind := .done, sid := 4, updatedAt := 900, rev := 4 }],
    rev := 4, nextSid := 5 }

-- object 1 is marked; object 2 (Error) is not; object 3 was rewritten by a user just before its marking
-- transaction: left alone (still Pending with the user's data); object 4 is young: the pass stops
example :
    let res := refreshPass 700 1000 {} ft (snapshotFrom ft {}) [[], [], [.put 3 31]]
    (res.2.1.objs.map fun o => (o.id, o.data, o.kind)) =
      [(1, 10, .refreshing), (2, 20, .error), (3, 31, .pending), (4, 40, .done)] ∧
    res.1.lastRev = 3 ∧ res.2.2 = 600 := by decide

example : (markable 700 1000 (snapshotFrom ft {})).map (·.id) = [1, 3] := by decide

end Sdb
