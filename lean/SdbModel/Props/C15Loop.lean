import SdbModel.Model.RecLoop
import SdbModel.Generated.LoopParams
/-!
  C15 (last clause): "… and Prune is called only once the table is initialized and always
  with the table's complete contents", and the refresher's share of "its writes change
  nothing but the status of the object".

  The iteration function `Gen.loopStep` these theorems are about is TRANSLATED from the
  current `reconciler/reconciler.go` by `tools/extract` on every run
  (`Generated/LoopParams.lean`); nothing about it is written by hand.  A source change that
  alters when `r.prune` is called (the condition, what a `select` case assigns, a flag reset
  somewhere else) changes the generated definition and the theorems below are re-checked
  against it.
-/
namespace Sdb
open RecLoop

/-! ### one iteration: exact characterisation of the translated code -/

/-- `r.prune` is called in an iteration EXACTLY when the table is known to be initialized
    (before this iteration, or its init watch fired now) and pruning was asked for: by the
    ticker, by the init watch itself when pruning is configured, or by an external request
    made now or remembered from an earlier iteration. -/
theorem C15_loop_step_prune_iff (pe : Bool) (s : LoopState) (t : Trigger) :
    (Gen.loopStep pe s t).2 = true ↔
      (s.tableInitialized = true ∨ t = .initClosed) ∧
      (t = .pruneTick ∨ (t = .initClosed ∧ pe = true) ∨ s.externalPrune = true ∨ t = .extPrune) := by
  rcases s with ⟨a, b, c⟩
  cases pe <;> cases t <;> cases a <;> cases b <;> cases c <;> decide

/-- the table counts as initialized exactly from the iteration on whose trigger was the init watch -/
theorem C15_loop_step_initialized_iff (pe : Bool) (s : LoopState) (t : Trigger) :
    (Gen.loopStep pe s t).1.tableInitialized = true ↔ (s.tableInitialized = true ∨ t = .initClosed) := by
  rcases s with ⟨a, b, c⟩
  cases pe <;> cases t <;> cases a <;> cases b <;> cases c <;> decide

/-- the init watch is dropped (set to nil) exactly by its own case and never comes back -/
theorem C15_loop_step_armed_iff (pe : Bool) (s : LoopState) (t : Trigger) :
    (Gen.loopStep pe s t).1.initWatchArmed = true ↔ (s.initWatchArmed = true ∧ t ≠ .initClosed) := by
  rcases s with ⟨a, b, c⟩
  cases pe <;> cases t <;> cases a <;> cases b <;> cases c <;> decide

/-- an external request stays pending exactly while the table is not initialized; otherwise it
    is served in the very iteration (previous theorem) and the flag is cleared -/
theorem C15_loop_step_pending_request_iff (pe : Bool) (s : LoopState) (t : Trigger) :
    (Gen.loopStep pe s t).1.externalPrune = true ↔
      ((s.externalPrune = true ∨ t = .extPrune) ∧ ¬ (s.tableInitialized = true ∨ t = .initClosed)) := by
  rcases s with ⟨a, b, c⟩
  cases pe <;> cases t <;> cases a <;> cases b <;> cases c <;> decide

theorem C15_loop_step_prune_needs_initialized (pe : Bool) (s : LoopState) (t : Trigger)
    (h : (Gen.loopStep pe s t).2 = true) : (Gen.loopStep pe s t).1.tableInitialized = true := by
  rw [C15_loop_step_initialized_iff]; exact ((C15_loop_step_prune_iff pe s t).1 h).1

/-- before the first iteration nothing is initialized, nothing requested, the watch armed -/
theorem C15_loop_initial_state :
    Gen.loopInit.tableInitialized = false ∧ Gen.loopInit.externalPrune = false ∧ Gen.loopInit.initWatchArmed = true := by
  decide

/-! ### whole runs of the loop (any number of iterations, any trigger sequence) -/

theorem run_cons (f : StepFn) (pe : Bool) (s : LoopState) (e : Ev) (es : List Ev) :
    run f pe s (e :: es) = ((run f pe (f pe s e.trig).1 es).1, (f pe s e.trig).2 :: (run f pe (f pe s e.trig).1 es).2) := by
  simp [run]

theorem run_length (f : StepFn) (pe : Bool) (s : LoopState) (es : List Ev) : (run f pe s es).2.length = es.length := by
  induction es generalizing s with
  | nil => simp [run]
  | cons e es ih => rw [run_cons]; simp [ih]

theorem run_append (f : StepFn) (pe : Bool) (s : LoopState) (es fs : List Ev) :
    run f pe s (es ++ fs) = ((run f pe (run f pe s es).1 fs).1, (run f pe s es).2 ++ (run f pe (run f pe s es).1 fs).2) := by
  induction es generalizing s with
  | nil => simp [run]
  | cons e es ih => simp only [List.cons_append, run_cons, ih, List.cons_append]

private theorem prune_after_init_aux (pe : Bool) (es : List Ev) (s : LoopState) (i : Nat)
    (hs : s.tableInitialized = false) (h : (run Gen.loopStep pe s es).2[i]? = some true) :
    ∃ j, j ≤ i ∧ (es[j]?).map (·.trig) = some Trigger.initClosed := by
  induction es generalizing s i with
  | nil => simp [run] at h
  | cons e es ih =>
    rw [run_cons] at h
    by_cases ht : e.trig = .initClosed
    · exact ⟨0, Nat.zero_le _, by simp [ht]⟩
    · have hs' : (Gen.loopStep pe s e.trig).1.tableInitialized = false := by
        cases hx : (Gen.loopStep pe s e.trig).1.tableInitialized with
        | false => rfl
        | true =>
          rcases (C15_loop_step_initialized_iff pe s e.trig).1 hx with h1 | h1
          · rw [hs] at h1; cases h1
          · exact absurd h1 ht
      cases i with
      | zero =>
        simp at h
        have := C15_loop_step_prune_needs_initialized pe s e.trig h
        rw [hs'] at this; cases this
      | succ i =>
        simp at h
        obtain ⟨j, hj, hj'⟩ := ih _ i hs' h
        exact ⟨j + 1, by omega, by simpa using hj'⟩

/-- **Prune only once the table is initialized (trigger form).**  In every run of the loop
    from its initial state — any configuration, any number of iterations, any sequence of
    triggers — an iteration that calls `Prune` is the iteration whose trigger was the
    table's initializer watch channel, or a later one. -/
theorem C15_loop_prune_only_after_init_trigger (pe : Bool) (es : List Ev) (i : Nat)
    (h : (run Gen.loopStep pe Gen.loopInit es).2[i]? = some true) :
    ∃ j, j ≤ i ∧ (es[j]?).map (·.trig) = some Trigger.initClosed :=
  prune_after_init_aux pe es Gen.loopInit i C15_loop_initial_state.1 h

private theorem prune_snapshot_aux (pe : Bool) (es : List Ev) (s : LoopState) (cb : Bool) (i : Nat)
    (hinv : s.tableInitialized = true → cb = true)
    (hwf : wfTrace Gen.loopStep pe s cb es)
    (h : (run Gen.loopStep pe s es).2[i]? = some true) :
    (es[i]?).map (·.snapInitialized) = some true := by
  induction es generalizing s cb i with
  | nil => simp [run] at h
  | cons e es ih =>
    rw [run_cons] at h
    obtain ⟨w1, _, w3, w4, wrest⟩ := hwf
    have hclosed : (Gen.loopStep pe s e.trig).1.tableInitialized = true → e.initChanClosed = true := by
      intro hx
      rcases (C15_loop_step_initialized_iff pe s e.trig).1 hx with h1 | h1
      · exact w3 (hinv h1)
      · exact (w1 h1).2
    cases i with
    | zero =>
      simp at h
      have := C15_loop_step_prune_needs_initialized pe s e.trig h
      simp [w4 (hclosed this)]
    | succ i =>
      simp at h
      simpa using ih _ _ i hclosed wrest h

/-- **Prune only once the table is initialized (snapshot form).**  Under the environment
    assumptions `wfTrace` (Go's `select` picks a case only when its channel is ready and never a
    nil channel; C19: once the initializer watch channel is closed, later snapshots show the
    table initialized), the snapshot of every iteration that calls `Prune` — the snapshot
    `Prune` is handed, `C15_loop_source_facts` — shows the table initialized. -/
theorem C15_loop_prune_snapshot_initialized (pe : Bool) (es : List Ev) (i : Nat)
    (hwf : wfTrace Gen.loopStep pe Gen.loopInit false es)
    (h : (run Gen.loopStep pe Gen.loopInit es).2[i]? = some true) :
    (es[i]?).map (·.snapInitialized) = some true :=
  prune_snapshot_aux pe es Gen.loopInit false i (by intro h; rw [C15_loop_initial_state.1] at h; cases h) hwf h

private theorem init_once_aux (pe : Bool) (es : List Ev) (s : LoopState) (cb : Bool)
    (hs : s.initWatchArmed = false) (hwf : wfTrace Gen.loopStep pe s cb es) :
    ∀ e ∈ es, e.trig ≠ .initClosed := by
  induction es generalizing s cb with
  | nil => simp
  | cons e es ih =>
    obtain ⟨w1, _, _, _, wrest⟩ := hwf
    have hne : e.trig ≠ .initClosed := by
      intro ht; have := (w1 ht).1; rw [hs] at this; cases this
    have hs' : (Gen.loopStep pe s e.trig).1.initWatchArmed = false := by
      cases hx : (Gen.loopStep pe s e.trig).1.initWatchArmed with
      | false => rfl
      | true => have := ((C15_loop_step_armed_iff pe s e.trig).1 hx).1; rw [hs] at this; cases this
    intro x hx
    rcases List.mem_cons.1 hx with rfl | hx
    · exact hne
    · exact ih _ _ hs' wrest x hx

/-- the init watch fires at most once: after its iteration no later iteration is triggered by it -/
theorem C15_loop_init_trigger_at_most_once (pe : Bool) (s : LoopState) (cb : Bool) (e : Ev) (es : List Ev)
    (ht : e.trig = .initClosed) (hwf : wfTrace Gen.loopStep pe s cb (e :: es)) :
    ∀ x ∈ es, x.trig ≠ .initClosed := by
  obtain ⟨_, _, _, _, wrest⟩ := hwf
  refine init_once_aux pe es _ _ ?_ wrest
  cases hx : (Gen.loopStep pe s e.trig).1.initWatchArmed with
  | false => rfl
  | true => exact absurd ht ((C15_loop_step_armed_iff pe s e.trig).1 hx).2

private theorem pending_kept_aux (pe : Bool) (es : List Ev) (s : LoopState)
    (hp : s.externalPrune = true) (hi : s.tableInitialized = false)
    (hno : ∀ e ∈ es, e.trig ≠ .initClosed) :
    (run Gen.loopStep pe s es).1.externalPrune = true ∧ (run Gen.loopStep pe s es).1.tableInitialized = false ∧
    ∀ p ∈ (run Gen.loopStep pe s es).2, p = false := by
  induction es generalizing s with
  | nil => simp [run, hp, hi]
  | cons e es ih =>
    rw [run_cons]
    have hne : e.trig ≠ .initClosed := hno e (by simp)
    have hi' : (Gen.loopStep pe s e.trig).1.tableInitialized = false := by
      cases hx : (Gen.loopStep pe s e.trig).1.tableInitialized with
      | false => rfl
      | true =>
        rcases (C15_loop_step_initialized_iff pe s e.trig).1 hx with h1 | h1
        · rw [hi] at h1; cases h1
        · exact absurd h1 hne
    have hp' : (Gen.loopStep pe s e.trig).1.externalPrune = true := by
      rw [C15_loop_step_pending_request_iff]
      refine ⟨Or.inl hp, ?_⟩
      rintro (h1 | h1)
      · rw [hi] at h1; cases h1
      · exact hne h1
    have hnp : (Gen.loopStep pe s e.trig).2 = false := by
      cases hx : (Gen.loopStep pe s e.trig).2 with
      | false => rfl
      | true => have := C15_loop_step_prune_needs_initialized pe s e.trig hx; rw [hi'] at this; cases this
    obtain ⟨a, b, c⟩ := ih _ hp' hi' (fun x hx => hno x (by simp [hx]))
    refine ⟨a, b, ?_⟩
    intro p hp2
    rcases List.mem_cons.1 hp2 with rfl | hp2
    · exact hnp
    · exact c p hp2

/-- **An external prune request made before the table is initialized is not lost.**  For a
    run `pre ++ [request] ++ mid ++ [init] ++ post` with no init trigger in `pre` and `mid`:
    `Prune` is not called before the init iteration and IS called in it — also with the
    periodic pruning disabled. -/
theorem C15_loop_external_request_served_at_initialization (pe : Bool) (pre mid post : List Ev) (rq ini : Ev)
    (hrq : rq.trig = .extPrune) (hini : ini.trig = .initClosed)
    (hpre : ∀ e ∈ pre, e.trig ≠ .initClosed) (hmid : ∀ e ∈ mid, e.trig ≠ .initClosed) :
    let calls := (run Gen.loopStep pe Gen.loopInit (pre ++ rq :: (mid ++ ini :: post))).2
    (∀ k, k < pre.length + 1 + mid.length → calls[k]? = some false) ∧
    calls[pre.length + 1 + mid.length]? = some true := by
  intro calls
  -- state after `pre`: still not initialized
  have hpreI : ∀ (es : List Ev) (s : LoopState), s.tableInitialized = false → (∀ e ∈ es, e.trig ≠ .initClosed) →
      (run Gen.loopStep pe s es).1.tableInitialized = false ∧ ∀ p ∈ (run Gen.loopStep pe s es).2, p = false := by
    intro es
    induction es with
    | nil => intro s hs _; simp [run, hs]
    | cons e es ih =>
      intro s hs hno
      rw [run_cons]
      have hne : e.trig ≠ .initClosed := hno e (by simp)
      have hi' : (Gen.loopStep pe s e.trig).1.tableInitialized = false := by
        cases hx : (Gen.loopStep pe s e.trig).1.tableInitialized with
        | false => rfl
        | true =>
          rcases (C15_loop_step_initialized_iff pe s e.trig).1 hx with h1 | h1
          · rw [hs] at h1; cases h1
          · exact absurd h1 hne
      have hnp : (Gen.loopStep pe s e.trig).2 = false := by
        cases hx : (Gen.loopStep pe s e.trig).2 with
        | false => rfl
        | true => have := C15_loop_step_prune_needs_initialized pe s e.trig hx; rw [hi'] at this; cases this
      obtain ⟨a, c⟩ := ih _ hi' (fun x hx => hno x (by simp [hx]))
      refine ⟨a, ?_⟩
      intro p hp2
      rcases List.mem_cons.1 hp2 with rfl | hp2
      · exact hnp
      · exact c p hp2
  obtain ⟨h1, c1⟩ := hpreI pre Gen.loopInit C15_loop_initial_state.1 hpre
  -- the request iteration
  let s1 := (run Gen.loopStep pe Gen.loopInit pre).1
  have h2i : (Gen.loopStep pe s1 rq.trig).1.tableInitialized = false := by
    cases hx : (Gen.loopStep pe s1 rq.trig).1.tableInitialized with
    | false => rfl
    | true =>
      rcases (C15_loop_step_initialized_iff pe s1 rq.trig).1 hx with h | h
      · rw [h1] at h; cases h
      · rw [hrq] at h; cases h
  have h2p : (Gen.loopStep pe s1 rq.trig).1.externalPrune = true := by
    rw [C15_loop_step_pending_request_iff]
    refine ⟨Or.inr hrq, ?_⟩
    rintro (h | h)
    · rw [h1] at h; cases h
    · rw [hrq] at h; cases h
  have h2c : (Gen.loopStep pe s1 rq.trig).2 = false := by
    cases hx : (Gen.loopStep pe s1 rq.trig).2 with
    | false => rfl
    | true => have := C15_loop_step_prune_needs_initialized pe s1 rq.trig hx; rw [h2i] at this; cases this
  let s2 := (Gen.loopStep pe s1 rq.trig).1
  obtain ⟨h3p, h3i, c3⟩ := pending_kept_aux pe mid s2 h2p h2i hmid
  let s3 := (run Gen.loopStep pe s2 mid).1
  have h4 : (Gen.loopStep pe s3 ini.trig).2 = true := by
    rw [C15_loop_step_prune_iff]
    exact ⟨Or.inr hini, Or.inr (Or.inr (Or.inl h3p))⟩
  have hcalls : calls = (run Gen.loopStep pe Gen.loopInit pre).2 ++
      ((Gen.loopStep pe s1 rq.trig).2 :: ((run Gen.loopStep pe s2 mid).2 ++
        ((Gen.loopStep pe s3 ini.trig).2 :: (run Gen.loopStep pe (Gen.loopStep pe s3 ini.trig).1 post).2))) := by
    simp only [calls, run_append, run_cons, s1, s2, s3]
  have l1 : (run Gen.loopStep pe Gen.loopInit pre).2.length = pre.length := run_length _ _ _ _
  have l3 : (run Gen.loopStep pe s2 mid).2.length = mid.length := run_length _ _ _ _
  constructor
  · intro k hk
    rw [hcalls]
    by_cases hk1 : k < pre.length
    · rw [List.getElem?_append_left (by omega)]
      have hlt : k < (run Gen.loopStep pe Gen.loopInit pre).2.length := by omega
      rw [List.getElem?_eq_getElem hlt]
      exact congrArg some (c1 _ (List.getElem_mem hlt))
    · rw [List.getElem?_append_right (by omega), l1]
      by_cases hk2 : k = pre.length
      · subst hk2; simp [h2c]
      · obtain ⟨m, hm⟩ : ∃ m, k - pre.length = m + 1 := ⟨k - pre.length - 1, by omega⟩
        rw [hm, List.getElem?_cons_succ]
        have hm' : m < mid.length := by omega
        rw [List.getElem?_append_left (by omega)]
        have hlt : m < (run Gen.loopStep pe s2 mid).2.length := by omega
        rw [List.getElem?_eq_getElem hlt]
        exact congrArg some (c3 _ (List.getElem_mem hlt))
  · rw [hcalls, List.getElem?_append_right (by omega), l1]
    have : pre.length + 1 + mid.length - pre.length = mid.length + 1 := by omega
    rw [this, List.getElem?_cons_succ, List.getElem?_append_right (by omega), l3]
    simp [h4]

/-- every tick of the prune ticker after the initialization prunes; so does every external
    request made after it — at once, in the same iteration -/
theorem C15_loop_tick_or_request_after_initialization_prunes (pe : Bool) (es : List Ev) (e : Ev) (j : Nat)
    (hj : (es[j]?).map (·.trig) = some Trigger.initClosed)
    (he : e.trig = .pruneTick ∨ e.trig = .extPrune) :
    (Gen.loopStep pe (run Gen.loopStep pe Gen.loopInit es).1 e.trig).2 = true := by
  have hinit : ∀ (es : List Ev) (s : LoopState) (j : Nat),
      (s.tableInitialized = true ∨ (es[j]?).map (·.trig) = some Trigger.initClosed) →
      (run Gen.loopStep pe s es).1.tableInitialized = true := by
    intro es
    induction es with
    | nil =>
      intro s j h
      rcases h with h | h
      · simpa [run] using h
      · simp at h
    | cons x xs ih =>
      intro s j h
      rw [run_cons]
      cases j with
      | zero =>
        refine ih _ 0 (Or.inl ?_)
        rw [C15_loop_step_initialized_iff]
        rcases h with h | h
        · exact Or.inl h
        · exact Or.inr (by simpa using h)
      | succ j =>
        rcases h with h | h
        · exact ih _ 0 (Or.inl (by rw [C15_loop_step_initialized_iff]; exact Or.inl h))
        · exact ih _ j (Or.inr (by simpa using h))
  rw [C15_loop_step_prune_iff]
  refine ⟨Or.inl (hinit es _ j (Or.inr hj)), ?_⟩
  rcases he with he | he
  · exact Or.inl he
  · exact Or.inr (Or.inr (Or.inr he))

/-- with periodic pruning disabled and no external request, `Prune` is never called -/
theorem C15_loop_no_prune_unless_configured_or_requested (es : List Ev) (s : LoopState)
    (hs : s.externalPrune = false)
    (hno : ∀ e ∈ es, e.trig ≠ .extPrune ∧ e.trig ≠ .pruneTick) :
    ∀ p ∈ (run Gen.loopStep false s es).2, p = false := by
  induction es generalizing s with
  | nil => simp [run]
  | cons e es ih =>
    rw [run_cons]
    obtain ⟨n1, n2⟩ := hno e (by simp)
    have hnp : (Gen.loopStep false s e.trig).2 = false := by
      cases hx : (Gen.loopStep false s e.trig).2 with
      | false => rfl
      | true =>
        rcases ((C15_loop_step_prune_iff false s e.trig).1 hx).2 with h | h | h | h
        · exact absurd h n2
        · cases h.2
        · rw [hs] at h; cases h
        · exact absurd h n1
    have hs' : (Gen.loopStep false s e.trig).1.externalPrune = false := by
      cases hx : (Gen.loopStep false s e.trig).1.externalPrune with
      | false => rfl
      | true =>
        rcases ((C15_loop_step_pending_request_iff false s e.trig).1 hx).1 with h | h
        · rw [hs] at h; cases h
        · exact absurd h n1
    intro p hp
    rcases List.mem_cons.1 hp with rfl | hp
    · exact hnp
    · exact ih _ hs' (fun x hx => hno x (by simp [hx])) p hp

/-- **No request is left pending once the table is initialized**: in every state the loop reaches
    from its initial state, the external-request flag is clear whenever the table counts as
    initialized — a request is either waiting for the initialization or has been served -/
theorem C15_loop_no_request_pending_when_initialized (pe : Bool) (es : List Ev) :
    ¬ ((run Gen.loopStep pe Gen.loopInit es).1.tableInitialized = true ∧
       (run Gen.loopStep pe Gen.loopInit es).1.externalPrune = true) := by
  suffices H : ∀ (es : List Ev) (s : LoopState), ¬ (s.tableInitialized = true ∧ s.externalPrune = true) →
      ¬ ((run Gen.loopStep pe s es).1.tableInitialized = true ∧ (run Gen.loopStep pe s es).1.externalPrune = true) by
    exact H es Gen.loopInit (by rw [C15_loop_initial_state.1]; intro h; cases h.1)
  intro es
  induction es with
  | nil => intro s hs; simpa [run] using hs
  | cons e es ih =>
    intro s _
    rw [run_cons]
    refine ih _ ?_
    rintro ⟨h1, h2⟩
    exact ((C15_loop_step_pending_request_iff pe s e.trig).1 h2).2 ((C15_loop_step_initialized_iff pe s e.trig).1 h1)

/-- the facts around the translated logic that the statements above rely on — the snapshot is
    taken after the trigger, `r.prune` gets that snapshot and hands `Operations.Prune` the
    sequence `Table.All(snapshot)`, i.e. the table's COMPLETE contents as of that snapshot; no
    ticker unless configured; the init watch comes from `Table.Initialized` — and the facts
    `refreshPass` builds in, hold of today's source -/
theorem C15_loop_source_facts : Gen.loopFacts = RecLoop.expectedLoopFacts := by decide

/-! ### non-vacuity: concrete traces -/

private def evs (ts : List (Trigger × Bool)) : List Ev :=
  ts.map fun (t, c) => { trig := t, initChanClosed := c, snapInitialized := c }

-- request before initialization, pruning disabled: served exactly at the init iteration; a later
-- request at once; the retry / table triggers never prune
example : (run Gen.loopStep false Gen.loopInit
      (evs [(.table, false), (.extPrune, false), (.retry, false), (.initClosed, true), (.table, true), (.extPrune, true)])).2
    = [false, false, false, true, false, true] := by decide
-- pruning enabled: ticks before initialization are ignored, the init iteration prunes, later ticks prune
example : (run Gen.loopStep true Gen.loopInit
      (evs [(.pruneTick, false), (.initClosed, true), (.retry, true), (.pruneTick, true)])).2
    = [false, true, false, true] := by decide
example : wfTrace Gen.loopStep true Gen.loopInit false
      (evs [(.pruneTick, false), (.initClosed, true), (.retry, true), (.pruneTick, true)]) := by
  simp only [wfTrace, evs, List.map]; decide

end Sdb
