import SdbModel.Props.C06GlueHist
import SdbModel.Lemmas.TableWatchDB
/-!
# C06 glue, database level — the per-table theorems apply to every state of the table-suite driver

The table-suite driver keeps Model.Table's database and Model.TableWatch's database
side by side (`Driver/TableSuite.lean`: `stepCore` for Model.Table, `twStep` for
Model.TableWatch) and routes every operation to the table concerned.  `TW.PDB.step`
(Lemmas/TableWatchDB.lean) is that product step for `wtxn`, every write operation and
query through the open transaction, `commit`, `abort` and `side` (a second write
transaction on a table the open one does not hold, computed exactly as the driver does
on Model.Table's database); every other driver operation changes Model.Table's database
only in fields the index trees do not depend on (`TW.DBCore`: change iterators,
trackers, initializers, collector).  In every product state reachable from the fresh
database both tables are `TW.Reach` pairs, and an open transaction holds for every
table it locks exactly the product run `runT` of the operations made on it — so
`C06_glue_refinement`, `C06_glue_changed_result_closes_channel`,
`C06_glue_retained_snapshot_channel_closed`, … speak about the states the
differential run compares with statedb.
-/
namespace Sdb
open Sdb.Art Sdb.Tbl Sdb.ArtW Sdb.TW

/-- the invariant of the product database holds in every reachable product state -/
theorem C06_glue_db_invariant_reachable (p : PDB) (h : PReach p) : PInv p := h.inv

/-- **both tables of every reachable product state are reachable pairs** (table 0 = "m": all indexes,
    table 1 = "a": primary + non-unique) -/
theorem C06_glue_db_tables_reachable (p : PDB) (h : PReach p) (i : Nat) (hi : i < 2) :
    TW.Reach (p.db.root.getD i default) (p.tw.tab i) := by
  obtain ⟨tm, ta, cm, ca, hT, hW, rm, ra, _⟩ := h.inv
  unfold TW.DB.tab
  rw [hT, hW]
  match i, hi with
  | 0, _ => exact rm
  | 1, _ => exact ra

/-- … hence, for instance, every part-index tree of every table of every reachable product state holds
    exactly the entries of Model.Table's index map -/
theorem C06_glue_db_refinement (p : PDB) (h : PReach p) (i : Nat) (hi : i < 2) (j : PIx) :
    allRoot ((p.tw.tab i).part.get j).tree.root = (imap (p.db.root.getD i default) j).map (fun e => (e.1, e.2.rev)) :=
  (C06_glue_refinement _ _ (C06_glue_db_tables_reachable p h i hi) j).1

/-- a `side` transaction (a second writer inserting into a table the open transaction does not hold)
    closes the channels of the queries whose result it changes, like any committed transaction -/
theorem C06_glue_db_side_closes_channel (p : PDB) (h : PReach p) (o : Obj) (ix : Idx) (kind : QKind) (key : Key)
    (plen : Nat) (hrev : ix ≠ .rev) (hall : kind = .all → ix = .id) :
    let t := p.db.root.getD 0 default
    let c := p.tw.tab 0
    qRes (runT c (beginT t c) [.modify 0 o false]).1 ix kind key plen ≠ qRes t ix kind key plen →
    (c.commit (runT c (beginT t c) [.modify 0 o false]).2).isClosed (c.view.chan ix kind key).1
      (c.view.chan ix kind key).2 = true := by
  intro t c hres
  exact C06_glue_changed_result_closes_channel t c (C06_glue_db_tables_reachable p h 0 (by omega)) _ ix kind key plen
    hrev hall hres

/-! ## non-vacuity: a run of the product database -/

example : PReach (((({ db := Tbl.newDB, tw := {} } : PDB).step (.beginW true false)).step
    (.op 0 (.modify 0 exO1 false))).step .commit) :=
  PReach.step _ _ (PReach.step _ _ (PReach.step _ _ PReach.init))

example :
    let p := ((((({ db := Tbl.newDB, tw := {} } : PDB).step (.beginW true false)).step
      (.op 0 (.modify 0 exO1 false))).step .commit).step (.beginW false true)).step (.side 0 exO2)
    (p.db.root.getD 0 default).primary.length = 2 ∧ p.db.wtxn.isSome = true := by decide

end Sdb
