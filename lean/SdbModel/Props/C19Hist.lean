import SdbModel.Model.Table
/-!
  C19 over whole histories, any number of NAMED initializers: "Initialized(snapshot) is true
  exactly when every initializer registered in transactions committed up to that snapshot has
  been marked done in a committed transaction, PendingInitializers lists exactly the others …
  registrations and marks made in aborted transactions have no effect on the committed state."

  (`Props/C19Conc.lean` proves the same for every SCHEDULE of the interleaving model, which keeps
  one initializer per table; this file is the sequential table model with any number of names.)
-/
namespace Sdb
open Tbl

/-- what a transaction does to the initializers of one table -/
inductive InitOp where
  | reg (name : String)
  | done (name : String)
  deriving Repr, DecidableEq

def InitOp.apply (t : TableS) : InitOp → TableS
  | .reg n => tblRegister t n
  | .done n => tblMarkDone t n

/-- a history: transactions in commit order, each with its operations and whether it was committed
    (`false` = aborted: the table state it built is dropped) -/
def runInitHistory (t : TableS) : List (List InitOp × Bool) → TableS
  | [] => t
  | (ops, true) :: rest => runInitHistory (ops.foldl InitOp.apply t) rest
  | (_, false) :: rest => runInitHistory t rest

/-- the operations of the committed transactions, in order -/
def committedOps : List (List InitOp × Bool) → List InitOp
  | [] => []
  | (ops, true) :: rest => ops ++ committedOps rest
  | (_, false) :: rest => committedOps rest

private theorem pending_reg (t : TableS) (n : String) : tblPending (tblRegister t n) = tblPending t ++ [n] := by
  simp [tblPending, tblRegister]

private theorem pending_done (t : TableS) (n : String) : tblPending (tblMarkDone t n) = (tblPending t).filter (· ≠ n) := by
  unfold tblPending tblMarkDone
  cases h : t.init with
  | none => simp [h]
  | some p => simp

private theorem run_eq_fold (t : TableS) (h : List (List InitOp × Bool)) :
    runInitHistory t h = (committedOps h).foldl InitOp.apply t := by
  induction h generalizing t with
  | nil => rfl
  | cons x rest ih =>
    obtain ⟨ops, c⟩ := x
    cases c with
    | true => simp [runInitHistory, committedOps, List.foldl_append, ih]
    | false => simp [runInitHistory, committedOps, ih]

/-- **Aborted transactions have no effect**: the committed initializer state is a function of the
    committed transactions' operations alone -/
theorem C19_hist_aborted_have_no_effect (t : TableS) (h : List (List InitOp × Bool)) :
    runInitHistory t h = runInitHistory t (h.filter (·.2)) := by
  rw [run_eq_fold, run_eq_fold]
  congr 1
  induction h with
  | nil => rfl
  | cons x rest ih =>
    obtain ⟨ops, c⟩ := x
    cases c with
    | true => simp [committedOps, ih]
    | false => simp [committedOps, ih]

private theorem mem_fold (cs : List InitOp) (t : TableS) (n : String) :
    n ∈ tblPending (cs.foldl InitOp.apply t) ↔
      (n ∈ tblPending t ∧ InitOp.done n ∉ cs) ∨ (∃ pre post, cs = pre ++ InitOp.reg n :: post ∧ InitOp.done n ∉ post) := by
  induction cs generalizing t with
  | nil => simp
  | cons c cs ih =>
    rw [List.foldl_cons, ih]
    cases c with
    | reg m =>
      simp only [InitOp.apply, pending_reg, List.mem_append, List.mem_singleton, List.mem_cons, reduceCtorEq, false_or]
      constructor
      · rintro (⟨h1 | h1, h2⟩ | ⟨pre, post, rfl, h2⟩)
        · exact Or.inl ⟨h1, h2⟩
        · have h1 : n = m := by simpa using h1
          subst h1; exact Or.inr ⟨[], cs, rfl, h2⟩
        · exact Or.inr ⟨InitOp.reg m :: pre, post, rfl, h2⟩
      · rintro (⟨h1, h2⟩ | ⟨pre, post, he, h2⟩)
        · exact Or.inl ⟨Or.inl h1, h2⟩
        · cases pre with
          | nil =>
            simp only [List.nil_append, List.cons.injEq, InitOp.reg.injEq] at he
            obtain ⟨rfl, rfl⟩ := he
            exact Or.inl ⟨Or.inr (by simp), h2⟩
          | cons p pre =>
            simp only [List.cons_append, List.cons.injEq] at he
            exact Or.inr ⟨pre, post, he.2, h2⟩
    | done m =>
      simp only [InitOp.apply, pending_done, List.mem_filter, decide_eq_true_eq, List.mem_cons, InitOp.done.injEq]
      constructor
      · rintro (⟨⟨h1, hne⟩, h2⟩ | ⟨pre, post, rfl, h2⟩)
        · exact Or.inl ⟨h1, by rintro (h | h); exact hne h; exact h2 h⟩
        · exact Or.inr ⟨InitOp.done m :: pre, post, rfl, h2⟩
      · rintro (⟨h1, h2⟩ | ⟨pre, post, he, h2⟩)
        · exact Or.inl ⟨⟨h1, fun e => h2 (Or.inl e)⟩, fun e => h2 (Or.inr e)⟩
        · cases pre with
          | nil => simp at he
          | cons p pre =>
            simp only [List.cons_append, List.cons.injEq] at he
            exact Or.inr ⟨pre, post, he.2, h2⟩

/-- **PendingInitializers is exact over every history.**  Starting from a table without
    initializers, after any sequence of committed and aborted transactions with any
    registrations and marks: `name` is pending in the committed state IF AND ONLY IF some
    COMMITTED transaction registered it and no committed mark of that name follows the
    registration (in the same or a later committed transaction). -/
theorem C19_hist_pending_exact (t : TableS) (ht : tblPending t = []) (h : List (List InitOp × Bool)) (n : String) :
    n ∈ tblPending (runInitHistory t h) ↔
      ∃ pre post, committedOps h = pre ++ InitOp.reg n :: post ∧ InitOp.done n ∉ post := by
  rw [run_eq_fold, mem_fold]
  simp [ht]

/-- **Initialized is exact over every history**: true exactly when every committed registration is
    followed by a committed mark of its name -/
theorem C19_hist_initialized_exact (t : TableS) (ht : tblPending t = []) (h : List (List InitOp × Bool)) :
    tblInitialized (runInitHistory t h) = true ↔
      ∀ n pre post, committedOps h = pre ++ InitOp.reg n :: post → InitOp.done n ∈ post := by
  have hiff : tblInitialized (runInitHistory t h) = true ↔ tblPending (runInitHistory t h) = [] := by
    simp [tblInitialized, tblPending]
  rw [hiff]
  constructor
  · intro hp n pre post he
    apply Classical.byContradiction
    intro hn
    have : n ∈ tblPending (runInitHistory t h) := (C19_hist_pending_exact t ht h n).2 ⟨pre, post, he, hn⟩
    rw [hp] at this; simp at this
  · intro hall
    cases hp : tblPending (runInitHistory t h) with
    | nil => rfl
    | cons n rest =>
      have : n ∈ tblPending (runInitHistory t h) := by rw [hp]; simp
      obtain ⟨pre, post, he, hn⟩ := (C19_hist_pending_exact t ht h n).1 this
      exact absurd (hall n pre post he) hn

/-- **Once initialized it stays so unless a new initializer is registered**: appending transactions
    that register nothing (committed or not, marking whatever they like) keeps it initialized -/
theorem C19_hist_stays_initialized (t : TableS) (ht : tblPending t = []) (h more : List (List InitOp × Bool))
    (hi : tblInitialized (runInitHistory t h) = true)
    (hno : ∀ n, InitOp.reg n ∉ committedOps more) :
    tblInitialized (runInitHistory t (h ++ more)) = true := by
  have happ : committedOps (h ++ more) = committedOps h ++ committedOps more := by
    clear hi
    induction h with
    | nil => rfl
    | cons x rest ih =>
      obtain ⟨ops, c⟩ := x
      cases c <;> simp [committedOps, ih]
  rw [C19_hist_initialized_exact t ht] at hi ⊢
  intro n pre post he
  rw [happ] at he
  -- the registration lies in the first part
  rcases List.append_eq_append_iff.1 he with ⟨a, h1, h2⟩ | ⟨c, h1, h2⟩
  · have : InitOp.reg n ∈ committedOps more := by rw [h2]; simp
    exact absurd this (hno n)
  · cases c with
    | nil =>
      simp only [List.nil_append] at h2
      have : InitOp.reg n ∈ committedOps more := by rw [← h2]; simp
      exact absurd this (hno n)
    | cons x xs =>
      simp only [List.cons_append, List.cons.injEq] at h2
      obtain ⟨hx, h3⟩ := h2
      subst hx
      have := hi n pre xs h1
      rw [h3]; exact List.mem_append_left _ this

/-- … "unless a new initializer is registered": a committed transaction that registers a name and
    does not mark it makes the table uninitialized again, with exactly that name added -/
theorem C19_hist_new_registration_makes_pending (t : TableS) (ht : tblPending t = []) (h : List (List InitOp × Bool))
    (n : String) (ops : List InitOp) (hreg : InitOp.reg n ∈ ops) (hnd : InitOp.done n ∉ ops) :
    n ∈ tblPending (runInitHistory t (h ++ [(ops, true)])) ∧ tblInitialized (runInitHistory t (h ++ [(ops, true)])) = false := by
  have hmem : n ∈ tblPending (runInitHistory t (h ++ [(ops, true)])) := by
    rw [C19_hist_pending_exact t ht]
    have happ : committedOps (h ++ [(ops, true)]) = committedOps h ++ ops := by
      induction h with
      | nil => simp [committedOps]
      | cons x rest ih =>
        obtain ⟨o, c⟩ := x
        cases c <;> simp [committedOps, ih]
    obtain ⟨pre, post, hsplit⟩ := List.append_of_mem hreg
    refine ⟨committedOps h ++ pre, post, by rw [happ, hsplit]; simp, ?_⟩
    intro hd
    exact hnd (by rw [hsplit]; simp [hd])
  refine ⟨hmem, ?_⟩
  cases hi : tblInitialized (runInitHistory t (h ++ [(ops, true)])) with
  | false => rfl
  | true =>
    have : tblPending (runInitHistory t (h ++ [(ops, true)])) = [] := by
      simpa [tblInitialized, tblPending] using hi
    rw [this] at hmem; simp at hmem

/-! non-vacuity -/
example :
    tblPending (runInitHistory {} [([.reg "a", .reg "b"], true), ([.done "a", .reg "ghost"], false), ([.done "b"], true), ([.reg "c"], true)])
      = ["a", "c"] := by decide

end Sdb
