import SdbModel.Model.Reconciler
/-! # C16 — theorems under construction (see DESIGN.md section 4) -/
namespace Sdb
end Sdb
